import Sudachi.Proofs.SentenceFix
/-!
# Panic-freedom of the sentence splitter (property C16)

The only place where the model of `sentence_detector.rs` / `sentence_splitter.rs` can answer `panic`
is `has_non_break_word`: `input[i..]` (`.cur`) resp. `input[i..end_byte]` (`.fix`) is a slice at byte
offsets that come out of the dictionary lookup on the raw bytes.  The lexicon's keys are Rust `String`s,
hence valid UTF-8 (`ValidKeys`: every key is `utf8` of some text).  UTF-8 is self-synchronising: such a
key can match the bytes of the text only at a character boundary and then covers whole characters
(`utf8_sync`), so both ends of the slice are boundaries and the checker never panics
(`hasNonBreakWord_no_panic`).  The two `unwrap`s of `is_continuous_phrase` are safe because the
candidate end is ≥ 1 and < `s.len()`.  With termination (`splitFuel_terminates`) this makes the whole
iteration total: `split_total`.
-/
namespace Sentence

/-! ## UTF-8 is prefix-free and self-synchronising -/

theorem utf8Enc_cases (c : Nat) :
    (c < 0x80 ∧ utf8Enc c = [c]) ∨
    (0x80 ≤ c ∧ c < 0x800 ∧ utf8Enc c = [0xC0 + c / 64, 0x80 + c % 64]) ∨
    (0x800 ≤ c ∧ c < 0x10000 ∧ utf8Enc c = [0xE0 + c / 4096, 0x80 + (c / 64) % 64, 0x80 + c % 64]) ∨
    (0x10000 ≤ c ∧
      utf8Enc c = [0xF0 + c / 262144, 0x80 + (c / 4096) % 64, 0x80 + (c / 64) % 64, 0x80 + c % 64]) := by
  unfold utf8Enc
  by_cases h1 : c < 0x80
  · left; exact ⟨h1, by rw [if_pos h1]⟩
  · by_cases h2 : c < 0x800
    · right; left; exact ⟨by omega, h2, by rw [if_neg h1, if_pos h2]⟩
    · by_cases h3 : c < 0x10000
      · right; right; left; exact ⟨by omega, h3, by rw [if_neg h1, if_neg h2, if_pos h3]⟩
      · right; right; right; exact ⟨by omega, by rw [if_neg h1, if_neg h2, if_neg h3]⟩

/-- two encoded characters of which one starts the other's continuation are the same character -/
theorem utf8Enc_prefix_eq {c d : Nat} {x y : List Nat} (h : utf8Enc c ++ x <+: utf8Enc d ++ y) :
    c = d := by
  rcases utf8Enc_cases c with ⟨hc, ec⟩ | ⟨hc1, hc2, ec⟩ | ⟨hc1, hc2, ec⟩ | ⟨hc, ec⟩ <;>
  rcases utf8Enc_cases d with ⟨hd, ed⟩ | ⟨hd1, hd2, ed⟩ | ⟨hd1, hd2, ed⟩ | ⟨hd, ed⟩ <;>
  (rw [ec, ed] at h
   simp only [List.cons_append, List.nil_append, List.cons_prefix_cons] at h
   omega)

theorem utf8_ne_nil {t : Text} (h : t ≠ []) : utf8 t ≠ [] := by
  intro hn
  have := congrArg List.length hn
  rw [utf8_length] at this
  have := blen_pos_of_ne_nil h
  simp at *
  omega

/-- `utf8` reflects prefixes: a valid UTF-8 string that starts another one at a boundary consists of
the same leading characters -/
theorem utf8_prefix : ∀ (kt t : Text) (y : List Nat), utf8 kt <+: utf8 t ++ y → y = [] → kt <+: t := by
  intro kt
  induction kt with
  | nil => intro t _ _ _; exact List.nil_prefix
  | cons c kt ih =>
    intro t y h hy
    subst hy
    cases t with
    | nil =>
      simp only [utf8, List.append_nil, List.prefix_nil] at h
      have : (utf8Enc c ++ utf8 kt).length = 0 := by rw [h]; rfl
      rw [List.length_append, utf8Enc_length] at this
      have := width_pos c
      omega
    | cons d t =>
      simp only [utf8, List.append_nil] at h
      have hcd : c = d := utf8Enc_prefix_eq h
      subst hcd
      rw [List.prefix_append_right_inj] at h
      have := ih t [] (by simpa using h) rfl
      exact (List.cons_prefix_cons).mpr ⟨rfl, this⟩

/-- a byte inside an encoded character (not its first byte) cannot be the first byte of an encoded
character -/
theorem utf8Enc_inner_not_lead {c d : Nat} {x y : List Nat} {i : Nat} (h0 : 0 < i) (hi : i < width d)
    (h : utf8Enc c ++ x <+: (utf8Enc d ++ y).drop i) : False := by
  have hwd : width d = (utf8Enc d).length := (utf8Enc_length d).symm
  rcases utf8Enc_cases c with ⟨hc, ec⟩ | ⟨hc1, hc2, ec⟩ | ⟨hc1, hc2, ec⟩ | ⟨hc, ec⟩ <;>
  rcases utf8Enc_cases d with ⟨hd, ed⟩ | ⟨hd1, hd2, ed⟩ | ⟨hd1, hd2, ed⟩ | ⟨hd, ed⟩ <;>
  (rw [ec, ed] at h
   rw [hwd, ed] at hi
   simp only [List.length_cons, List.length_nil] at hi
   have hi3 : i = 1 ∨ i = 2 ∨ i = 3 := by omega
   rcases hi3 with rfl | rfl | rfl <;>
   first
     | omega
     | (simp only [List.cons_append, List.nil_append, List.drop_succ_cons, List.drop_zero,
          List.cons_prefix_cons] at h
        omega))

/-- **UTF-8 self-synchronisation.**  A non-empty valid UTF-8 string `utf8 kt` that matches the bytes of
`input` at byte offset `i` starts at a character boundary and covers exactly the characters `kt`. -/
theorem utf8_sync : ∀ (input : Text) (i : Nat) (kt : Text), kt ≠ [] → utf8 kt <+: (utf8 input).drop i →
    ∃ pre post, input = pre ++ kt ++ post ∧ blen pre = i := by
  intro input
  induction input with
  | nil =>
    intro i kt hne h
    simp only [utf8, List.drop_nil, List.prefix_nil] at h
    exact absurd h (utf8_ne_nil hne)
  | cons d rest ih =>
    intro i kt hne h
    cases i with
    | zero =>
      simp only [List.drop_zero] at h
      have hp := utf8_prefix kt (d :: rest) [] (by simpa using h) rfl
      obtain ⟨post, hpost⟩ := hp
      exact ⟨[], post, by simp [hpost], rfl⟩
    | succ i =>
      by_cases hlt : i + 1 < width d
      · exfalso
        cases kt with
        | nil => exact hne rfl
        | cons c kt' =>
          simp only [utf8] at h
          exact utf8Enc_inner_not_lead (by omega) hlt h
      · have hdrop : (utf8 (d :: rest)).drop (i + 1) = (utf8 rest).drop (i + 1 - width d) := by
          simp only [utf8]
          rw [List.drop_append, utf8Enc_length]
          have : (utf8Enc d).drop (i + 1) = [] := by
            apply List.drop_eq_nil_of_le
            rw [utf8Enc_length]; omega
          rw [this]; rfl
        rw [hdrop] at h
        obtain ⟨pre, post, hs, hb⟩ := ih _ kt hne h
        refine ⟨d :: pre, post, by simp [hs], ?_⟩
        simp only [blen, hb]
        omega

/-! ## valid keys never make the checker panic -/

/-- every key of every lexicon is valid UTF-8 (the keys are Rust `String`s) -/
def ValidKeys (lexs : List (List (List Nat))) : Prop :=
  ∀ lex ∈ lexs, ∀ key ∈ lex, ∃ kt : Text, key = utf8 kt

/-- `input[i..i+len]` is a slice at two character boundaries inside the text -/
def SliceOk (input : Text) (i len : Nat) : Prop :=
  ∃ pre w post, input = pre ++ w ++ post ∧ blen pre = i ∧ blen w = len

theorem charsFromByte_append : ∀ (pre post : Text), charsFromByte (pre ++ post) (blen pre) = some post.length := by
  intro pre
  induction pre with
  | nil => intro post; cases post <;> simp [blen, charsFromByte]
  | cons c pre ih =>
    intro post
    have hw := width_pos c
    have : blen (c :: pre) = (width c + blen pre - 1) + 1 := by simp only [blen]; omega
    rw [this]
    simp only [List.cons_append, charsFromByte]
    have h1 : ¬ (width c + blen pre - 1 + 1 < width c) := by omega
    have h2 : width c + blen pre - 1 + 1 - width c = blen pre := by omega
    simp only [h1, if_false, h2, ih post]

/-- what the lookup reports under `ValidKeys` is a slice of whole characters -/
theorem lookup_sliceOk {lexs : List (List (List Nat))} (hv : ValidKeys lexs) {input : Text} {i len : Nat}
    (h : len ∈ lookupLens lexs ((utf8 input).drop i)) : SliceOk input i len := by
  obtain ⟨lex, hlex, key, hkey, hne, hpre, hlen⟩ := lookup_key h
  obtain ⟨kt, rfl⟩ := hv lex hlex key hkey
  have hkt : kt ≠ [] := by
    intro hn; subst hn; exact hne rfl
  obtain ⟨pre, post, hs, hb⟩ := utf8_sync input i kt hkt hpre
  exact ⟨pre, kt, post, hs, hb, by rw [← utf8_length]; exact hlen⟩

theorem checkEntries_no_panic (v : CkVariant) {input : Text} {eosB i : Nat} :
    ∀ lens, (∀ len ∈ lens, SliceOk input i len) → checkEntries v input eosB i lens ≠ some .panic := by
  intro lens
  induction lens with
  | nil => intro _; simp [checkEntries]
  | cons len more ih =>
    intro h
    have hmore := ih (fun l hl => h l (List.mem_cons_of_mem _ hl))
    obtain ⟨pre, w, post, hs, hb, hw⟩ := h len (List.mem_cons_self ..)
    simp only [checkEntries]
    split
    · simp
    · split
      · cases v with
        | cur =>
          simp only
          have : charsFromByte input i = some (w ++ post).length := by
            rw [hs, ← hb, List.append_assoc]; exact charsFromByte_append pre (w ++ post)
          rw [this]
          simp
        | fix =>
          simp only
          have : sliceChars input i (i + len) = some w.length := by
            rw [hs, ← hb, ← hw]; exact sliceChars_of_split
          rw [this]
          simp only
          split
          · simp
          · exact hmore
      · exact hmore

theorem nonBreakLoop_no_panic (v : CkVariant) {lexs : List (List (List Nat))} (hv : ValidKeys lexs)
    (input : Text) (eosB : Nat) :
    ∀ is, nonBreakLoop v lexs input (utf8 input) eosB is ≠ .panic := by
  intro is
  induction is with
  | nil => simp [nonBreakLoop]
  | cons i is ih =>
    simp only [nonBreakLoop]
    split
    · rename_i r hr
      intro hp
      subst hp
      exact checkEntries_no_panic v _ (fun len hl => lookup_sliceOk hv hl) hr
    · exact ih

/-- **`has_non_break_word` does not panic** when the dictionary keys are valid UTF-8: every
`input[i..]` / `input[i..end_byte]` it takes is at character boundaries inside the text. -/
theorem hasNonBreakWord_no_panic (v : CkVariant) {lexs : List (List (List Nat))} (hv : ValidKeys lexs)
    (input : Text) (eosB : Nat) : hasNonBreakWord v lexs input eosB ≠ .panic := by
  unfold hasNonBreakWord
  exact nonBreakLoop_no_panic v hv input eosB _

/-- the checker, if any, has valid UTF-8 keys -/
def ValidChecker : Option (List (List (List Nat))) → Prop
  | none => True
  | some lexs => ValidKeys lexs

/-- the loop body of `get_eos` does not panic on a match end `e0 ≥ 1` -/
theorem examine_no_panic {v : CkVariant} {ck : Option (List (List (List Nat)))} (hv : ValidChecker ck)
    {input s : Text} {e0 : Nat} (h0 : 1 ≤ e0) : examine v ck input s e0 ≠ .panic := by
  unfold examine
  split
  · simp
  · simp only
    split
    · simp
    · generalize heos : (if e0 < s.length then e0 + prohibitedBos (s.drop e0) else e0) = eos
      have hpos : 1 ≤ eos := by split at heos <;> omega
      have hcont : ∃ b, (if eos < s.length then isContinuousPhrase s eos else some false) = some b := by
        by_cases hlt : eos < s.length
        · obtain ⟨b, hb⟩ := isContinuousPhrase_some hpos hlt
          exact ⟨b, by simp [hlt, hb]⟩
        · exact ⟨false, by simp [hlt]⟩
      obtain ⟨b, hb⟩ := hcont
      rw [hb]
      cases b with
      | true => simp
      | false =>
        simp only
        cases ck with
        | none => simp
        | some lexs =>
          simp only
          have := hasNonBreakWord_no_panic v hv input (blen (s.take eos))
          split
          · rename_i hp; exact absurd hp this
          · simp
          · simp

theorem scan_no_panic {v : CkVariant} {ck : Option (List (List (List Nat)))} (hv : ValidChecker ck)
    {input s : Text} (l : Text) (k : Nat) (prev : Option Nat) (skip : Nat) (hs : s.drop k = l) :
    scan v ck input s k prev skip l ≠ some .panic := by
  intro h
  obtain ⟨_, j, n, pv, hb, he⟩ := scan_some l k prev skip _ hs h
  have := (breakerAt_bounds hb).1
  exact examine_no_panic hv (by omega) he

/-- **`get_eos` does not panic** (valid UTF-8 keys) -/
theorem getEos_no_panic {v : CkVariant} {ck : Option (List (List (List Nat)))} (hv : ValidChecker ck)
    (limit : Nat) (input : Text) : getEos v limit ck input ≠ .panic := by
  unfold getEos
  split
  · simp
  · simp only
    split
    · simp
    · rename_i hsc
      exact absurd hsc (scan_no_panic hv _ 0 none 0 (by simp))
    · rename_i hsc
      obtain ⟨hne, _⟩ := scan_some (input.take limit) 0 none 0 _ (by simp) hsc
      exact absurd rfl hne
    · split
      · split <;> simp
      · simp

theorem splitFuel_no_panic {v : CkVariant} {ck : Option (List (List (List Nat)))} (hv : ValidChecker ck)
    (limit : Nat) : ∀ (fuel position : Nat) (rest : Text), splitFuel v limit ck fuel position rest ≠ .panic := by
  intro fuel
  induction fuel with
  | zero => intro p rest; cases rest <;> simp [splitFuel]
  | succ fuel ih =>
    intro p rest
    cases rest with
    | nil => simp [splitFuel]
    | cons c cs =>
      simp only [splitFuel]
      split
      · rename_i hp; exact absurd hp (getEos_no_panic hv limit _)
      · simp
      · rename_i e he
        have := ih (p + blen ((c :: cs).take e)) ((c :: cs).drop e)
        generalize splitFuel v limit ck fuel (p + blen ((c :: cs).take e)) ((c :: cs).drop e) = r at this
        cases r <;> simp [SplitRes.cons] at this ⊢

/-- **The iteration is total**: for every limit `≥ 1`, every text and every checker with valid UTF-8
keys the iterator neither panics nor runs forever — it produces a list of sentences. -/
theorem split_total {v : CkVariant} {limit : Nat} (hl : 1 ≤ limit) {ck : Option (List (List (List Nat)))}
    (hv : ValidChecker ck) (text : Text) : ∃ l, split v limit ck text = .ok l := by
  have h1 := splitFuel_terminates (v := v) (ck := ck) hl text.length 0 text (Nat.le_refl _)
  have h2 := splitFuel_no_panic (v := v) hv limit text.length 0 text
  unfold split
  cases h : splitFuel v limit ck text.length 0 text with
  | ok l => exact ⟨l, rfl⟩
  | panic => exact absurd h h2
  | fuelOut => exact absurd h h1

/-! ## fuel: any amount `≥ text.length` gives the same answer -/

theorem splitFuel_mono {v : CkVariant} {limit : Nat} (hl : 1 ≤ limit) {ck : Option (List (List (List Nat)))} :
    ∀ (fuel fuel' position : Nat) (rest : Text), rest.length ≤ fuel → rest.length ≤ fuel' →
      splitFuel v limit ck fuel position rest = splitFuel v limit ck fuel' position rest := by
  intro fuel
  induction fuel with
  | zero =>
    intro fuel' p rest h h'
    have : rest = [] := by cases rest with
      | nil => rfl
      | cons _ _ => simp at h
    subst this
    cases fuel' <;> simp [splitFuel]
  | succ fuel ih =>
    intro fuel' p rest h h'
    cases rest with
    | nil => cases fuel' <;> simp [splitFuel]
    | cons c cs =>
      cases fuel' with
      | zero => simp at h'
      | succ fuel' =>
        simp only [splitFuel]
        split
        · rfl
        · rfl
        · rename_i e he
          have hb := getEos_pos_bounds hl (by simp) he
          have hlen : ((c :: cs).drop e).length ≤ fuel ∧ ((c :: cs).drop e).length ≤ fuel' := by
            simp only [List.length_drop, List.length_cons] at *
            omega
          rw [ih fuel' _ _ hlen.1 hlen.2]

end Sentence
