import Sudachi.Model.Oov
/-!
# Lemmas for C13 (core Lean only)
-/
namespace Oov

/-! ## runs: the forward pass computes the declarative left-to-right runs -/

theorem foldl_and_zero (l : List Nat) : l.foldl (· &&& ·) 0 = 0 := by
  induction l with
  | nil => rfl
  | cons c r ih => simp [List.foldl, ih]

theorem scan_zero (l : List Nat) : scan 0 l = 0 := by
  cases l <;> simp [scan]

/-- the first `k` further characters share a class with the running set iff the scan gets that far -/
theorem foldl_take_ne_zero_iff (rest : List Nat) (cat k : Nat) (hk : k ≤ rest.length) :
    (rest.take k).foldl (· &&& ·) cat ≠ 0 ↔ (cat ≠ 0 ∧ k ≤ scan cat rest) := by
  induction rest generalizing cat k with
  | nil =>
    have : k = 0 := by simpa using hk
    subst this; simp [scan]
  | cons c r ih =>
    cases k with
    | zero => simp
    | succ k' =>
      have hk' : k' ≤ r.length := by simpa using hk
      simp only [List.take_succ_cons, List.foldl_cons]
      rw [ih (cat &&& c) k' hk']
      by_cases h : cat &&& c = 0
      · simp [scan, h]
      · have hc : cat ≠ 0 := by
          intro h0; apply h; simp [h0]
        simp only [scan, h, if_false]
        constructor
        · rintro ⟨_, h2⟩; exact ⟨hc, by omega⟩
        · rintro ⟨_, h2⟩; exact ⟨by simpa using h, by omega⟩

theorem hasCommon_cons_take (c : Nat) (rest : List Nat) (k : Nat) :
    hasCommon ((c :: rest).take (k + 1)) = ((rest.take k).foldl (· &&& ·) c != 0) := by
  simp [hasCommon]

theorem largestCommon_zero_head (rest : List Nat) (k : Nat) : largestCommon (0 :: rest) k = 1 := by
  induction k with
  | zero => rfl
  | succ k ih =>
    simp only [largestCommon, hasCommon_cons_take, foldl_and_zero]
    simpa using ih

theorem largestCommon_eq (c : Nat) (rest : List Nat) (hc : c ≠ 0) (k : Nat) (hk : k ≤ rest.length) :
    largestCommon (c :: rest) (k + 1) = min (k + 1) (scan c rest + 1) := by
  induction k with
  | zero =>
    simp only [largestCommon]
    split <;> omega
  | succ k ih =>
    have ih' := ih (by omega)
    rw [largestCommon, hasCommon_cons_take]
    have key := foldl_take_ne_zero_iff rest c (k + 1) hk
    by_cases h : (rest.take (k + 1)).foldl (· &&& ·) c ≠ 0
    · have h2 := (key.mp h).2
      have : ((rest.take (k + 1)).foldl (· &&& ·) c != 0) = true := by simpa using h
      rw [this]; simp only [if_true]; omega
    · have h2 : ¬ (k + 1 ≤ scan c rest) := fun hle => h (key.mpr ⟨hc, hle⟩)
      have : ((rest.take (k + 1)).foldl (· &&& ·) c != 0) = false := by simpa using h
      rw [this]; simp only [Bool.false_eq_true, if_false]; rw [ih']; omega

theorem runLen_cons (c : Nat) (rest : List Nat) : runLen (c :: rest) = scan c rest + 1 := by
  unfold runLen
  by_cases hc : c = 0
  · subst hc; rw [largestCommon_zero_head, scan_zero]
  · have := scan_le c rest
    rw [List.length_cons, largestCommon_eq c rest hc rest.length (Nat.le_refl _)]; omega

theorem forward_eq_spec (cats : List Nat) : fillCatContinuityForward cats = runsSpec cats := by
  fun_induction fillCatContinuityForward cats with
  | case1 => simp [runsSpec]
  | case2 c rest ih =>
    rw [runsSpec, runLen_cons, ih]; simp

/-! ### what `runLen` means -/

theorem largestCommon_le (cats : List Nat) (k : Nat) : largestCommon cats k ≤ max k 1 := by
  induction k with
  | zero => simp [largestCommon]
  | succ k ih => simp only [largestCommon]; split <;> omega

theorem largestCommon_common (cats : List Nat) (k : Nat)
    (h : ∃ j, 1 ≤ j ∧ j ≤ k ∧ hasCommon (cats.take j) = true) :
    hasCommon (cats.take (largestCommon cats k)) = true := by
  induction k with
  | zero => obtain ⟨j, h1, h2, _⟩ := h; omega
  | succ k ih =>
    simp only [largestCommon]
    split
    · assumption
    · rename_i hn
      obtain ⟨j, h1, h2, h3⟩ := h
      apply ih
      refine ⟨j, h1, ?_, h3⟩
      by_cases hj : j = k + 1
      · subst hj; exact absurd h3 hn
      · omega

theorem largestCommon_maximal (cats : List Nat) (k j : Nat) (h1 : largestCommon cats k < j) (h2 : j ≤ k) :
    hasCommon (cats.take j) = false := by
  induction k with
  | zero => have := largestCommon_pos cats 0; omega
  | succ k ih =>
    simp only [largestCommon] at h1
    split at h1
    · omega
    · rename_i hn
      by_cases hj : j = k + 1
      · subst hj; simpa using hn
      · exact ih h1 (by omega)

/-! ## `CreatedWords` -/


theorem and_two_pow_eq_zero_iff (m k : Nat) : m &&& 2 ^ k = 0 ↔ m.testBit k = false := by
  constructor
  · intro h
    have := congrArg (fun x => x.testBit k) h
    simpa [Nat.testBit_and, Nat.testBit_two_pow_self] using this
  · intro h
    apply Nat.eq_of_testBit_eq
    intro i
    rw [Nat.testBit_and, Nat.testBit_two_pow]
    by_cases hki : k = i
    · subst hki; simp [h]
    · simp [hki]

/-- bit that stands for a word of `len` characters -/
def bitOf (len : Nat) : Nat := min (len - 1) 63

theorem single_eq (len : Nat) : single len = 2 ^ bitOf len := by
  simp [single, bitOf, Nat.one_shiftLeft]

theorem single_ne_zero (len : Nat) : single len ≠ 0 := by
  rw [single_eq]; exact Nat.pos_iff_ne_zero.mp (Nat.two_pow_pos _)

theorem testBit_addAll (m : Nat) (nodes : List Node) (k : Nat) :
    (addAll m nodes).testBit k = (m.testBit k || nodes.any (fun x => bitOf (x.e - x.b) == k)) := by
  induction nodes generalizing m with
  | nil => simp [addAll]
  | cons x rest ih =>
    have : addAll m (x :: rest) = addAll (addWord m (x.e - x.b)) rest := rfl
    rw [this, ih, addWord, single_eq, Nat.testBit_or, Nat.testBit_two_pow]
    simp [Bool.or_assoc]
    congr 2

theorem addAll_append (m : Nat) (a b : List Node) : addAll m (a ++ b) = addAll (addAll m a) b := by
  simp [addAll, List.foldl_append]

theorem addAll_ne_zero_of_cons (m : Nat) (x : Node) (rest : List Node) : addAll m (x :: rest) ≠ 0 := by
  intro h
  have h1 := congrArg (fun v => v.testBit (bitOf (x.e - x.b))) h
  simp [testBit_addAll] at h1

theorem hasWord_no_iff (m len : Nat) : hasWord m len = .no ↔ m.testBit (bitOf len) = false := by
  unfold hasWord
  have key := and_two_pow_eq_zero_iff m (bitOf len)
  rw [single_eq]
  by_cases h : m &&& 2 ^ bitOf len = 0
  · simp [h, key.mp h]
  · have h' : ¬ (m.testBit (bitOf len) = false) := fun hh => h (key.mpr hh)
    simp only [h, if_false]
    constructor
    · intro h2; split at h2 <;> cases h2
    · intro h2; exact absurd h2 h'


/-! ## fallback length -/

theorem nextBow_le (l : List Bool) : nextBow l ≤ l.length := by
  induction l with
  | nil => simp [nextBow]
  | cons b bs ih => simp only [nextBow]; split <;> simp <;> omega

theorem nextBow_before (l : List Bool) (j : Nat) (h : j < nextBow l) : l[j]? = some false := by
  induction l generalizing j with
  | nil => simp [nextBow] at h
  | cons b bs ih =>
    simp only [nextBow] at h
    split at h
    · omega
    · rename_i hb
      cases j with
      | zero => simpa using hb
      | succ j => simpa using ih j (by omega)

theorem nextBow_at (l : List Bool) : nextBow l = l.length ∨ l[nextBow l]? = some true := by
  induction l with
  | nil => simp [nextBow]
  | cons b bs ih =>
    simp only [nextBow]
    split
    · rename_i hb; right; simpa using hb
    · rcases ih with h | h
      · left; simp; omega
      · right; rw [Nat.add_comm]; simpa using h

/-- "reaching to the next permissible word start": `k` characters from `idx` -/
def NextStart (bow : List Bool) (idx k : Nat) : Prop :=
  1 ≤ k ∧ idx + k ≤ bow.length ∧ (∀ j, idx < j → j < idx + k → bow[j]? = some false) ∧
  (idx + k = bow.length ∨ bow[idx + k]? = some true)

theorem wordCandidateLength_spec (bow : List Bool) (idx : Nat) (h : idx < bow.length) :
    ∃ k, wordCandidateLength bow idx = some k ∧ NextStart bow idx k := by
  refine ⟨1 + nextBow (bow.drop (idx + 1)), by simp [wordCandidateLength, h], ?_⟩
  have hle := nextBow_le (bow.drop (idx + 1))
  simp only [List.length_drop] at hle
  refine ⟨by omega, by omega, ?_, ?_⟩
  · intro j h1 h2
    have := nextBow_before (bow.drop (idx + 1)) (j - (idx + 1)) (by omega)
    rw [List.getElem?_drop] at this
    have e : idx + 1 + (j - (idx + 1)) = j := by omega
    rwa [e] at this
  · rcases nextBow_at (bow.drop (idx + 1)) with h1 | h1
    · left; simp only [List.length_drop] at h1; omega
    · right
      rw [List.getElem?_drop] at h1
      have e : idx + 1 + nextBow (bow.drop (idx + 1)) = idx + (1 + nextBow (bow.drop (idx + 1))) := by omega
      rwa [e] at h1

/-! ## MeCab provider -/

theorem mem_lenLoop (stop : Bool) (oovs : List OovDef) (offset n ll cnt i0 : Nat) (x : Node) :
    x ∈ lenLoop stop oovs offset n ll cnt i0 ↔
    ∃ d ∈ oovs, ∃ i, i0 ≤ i ∧ i < i0 + cnt ∧
      (min (offset + i) n - offset ≤ ll ∧ (stop = true → i ≤ min (offset + i) n - offset)) ∧
      x = mkNode offset (offset + (min (offset + i) n - offset)) d := by
  induction cnt generalizing i0 with
  | zero =>
    simp only [lenLoop, List.not_mem_nil, false_iff]
    rintro ⟨d, _, i, h1, h2, _⟩; omega
  | succ cnt ih =>
    simp only [lenLoop]
    split
    · rename_i hgt
      simp only [List.not_mem_nil, false_iff]
      rintro ⟨d, _, i, h1, _, ⟨h3, h4⟩, _⟩
      simp only [Bool.or_eq_true, decide_eq_true_eq, Bool.and_eq_true] at hgt
      rcases hgt with hgt | ⟨hs, hgt⟩
      · have : min (offset + i0) n - offset ≤ min (offset + i) n - offset := by omega
        omega
      · have := h4 hs
        omega
    · rename_i hle
      simp only [Bool.or_eq_true, decide_eq_true_eq, Bool.and_eq_true, not_or, not_and, Nat.not_lt] at hle
      rw [List.mem_append, ih (i0 + 1), List.mem_map]
      constructor
      · rintro (⟨d, hd, rfl⟩ | ⟨d, hd, i, h1, h2, h3, rfl⟩)
        · exact ⟨d, hd, i0, Nat.le_refl _, by omega, ⟨by omega, hle.2⟩, rfl⟩
        · exact ⟨d, hd, i, by omega, by omega, h3, rfl⟩
      · rintro ⟨d, hd, i, h1, h2, h3, rfl⟩
        by_cases hi : i = i0
        · subst hi; exact Or.inl ⟨d, hd, rfl⟩
        · exact Or.inr ⟨d, hd, i, by omega, by omega, h3, rfl⟩


/-- the candidates the definition files prescribe at `offset` for class `ct` of the character:
the class has a behaviour line `ci` and unknown-word lines `oovs`; it is always invoked or nothing exists
yet; for every line `d` a grouped candidate over the whole run (if grouping) and candidates of
`1..length` characters that stay inside the text and inside the run (one less when grouping, the whole
run being the grouped candidate); for the repaired loop (`cfg.stopAtEnd`) a candidate of `i` characters exists only
where `i` characters are left -/
def MecabSpec (cfg : MecabCfg) (n offset charLen created ct : Nat) (x : Node) : Prop :=
  ∃ ci oovs d, findKey ct cfg.cats = some ci ∧ (ci.invoke = true ∨ created = 0) ∧
    findKey ci.ctype cfg.oovs = some oovs ∧ d ∈ oovs ∧
    ((ci.group = true ∧ x = mkNode offset (offset + charLen) d) ∨
     (∃ i, 1 ≤ i ∧ i ≤ ci.length ∧
        (min (offset + i) n - offset ≤ (if ci.group then charLen - 1 else charLen) ∧
          (cfg.stopAtEnd = true → i ≤ min (offset + i) n - offset)) ∧
        x = mkNode offset (offset + (min (offset + i) n - offset)) d))

theorem mem_mecabClass (cfg : MecabCfg) (n offset charLen created ct : Nat) (x : Node) :
    x ∈ mecabClass cfg n offset charLen created ct ↔ MecabSpec cfg n offset charLen created ct x := by
  unfold mecabClass MecabSpec
  cases h1 : findKey ct cfg.cats with
  | none => simp
  | some ci =>
    simp only [Option.some.injEq]
    by_cases hinv : (!ci.invoke && decide (created ≠ 0)) = true
    · simp only [hinv, if_true, List.not_mem_nil, false_iff]
      rintro ⟨ci', oovs, d, rfl, h, _⟩
      simp at hinv
      rcases h with h | h
      · simp [h] at hinv
      · exact hinv.2 h
    · simp only [hinv]
      have hinv' : ci.invoke = true ∨ created = 0 := by
        simp at hinv
        by_cases hi : ci.invoke = true
        · exact Or.inl hi
        · exact Or.inr (hinv (by simpa using hi))
      cases h2 : findKey ci.ctype cfg.oovs with
      | none =>
        simp only [Bool.false_eq_true, if_false, List.not_mem_nil, false_iff]
        rintro ⟨ci', oovs, d, rfl, _, h, _⟩
        rw [h2] at h; cases h
      | some oovs =>
        simp only [Bool.false_eq_true, if_false, List.mem_append, mem_lenLoop]
        constructor
        · rintro (h | ⟨d, hd, i, h1', h2', h3, rfl⟩)
          · split at h
            · rename_i hg
              obtain ⟨d, hd, rfl⟩ := List.mem_map.mp h
              exact ⟨ci, oovs, d, rfl, hinv', h2, hd, Or.inl ⟨hg, rfl⟩⟩
            · cases h
          · exact ⟨ci, oovs, d, rfl, hinv', h2, hd, Or.inr ⟨i, h1', by omega, h3, rfl⟩⟩
        · rintro ⟨ci', oovs', d, rfl, _, h, hd, hx⟩
          rw [h2] at h; cases h
          rcases hx with ⟨hg, rfl⟩ | ⟨i, h1', h2', h3, rfl⟩
          · left; simp only [hg, if_true]; exact List.mem_map.mpr ⟨d, hd, rfl⟩
          · right; exact ⟨d, hd, i, h1', by omega, h3, rfl⟩

theorem mecabProvide_spec (cfg : MecabCfg) (buf : Buf) (offset created : Nat) (nodes : List Node)
    (h : mecabProvide cfg buf offset created = .ok nodes) :
    ∃ charLen cat, buf.cont[offset]? = some charLen ∧ buf.cats[offset]? = some cat ∧
      ∀ x, x ∈ nodes ↔ (charLen ≠ 0 ∧ ∃ ct ∈ flagsIter cat, MecabSpec cfg buf.chars.length offset charLen created ct x) := by
  unfold mecabProvide at h
  cases h1 : buf.cont[offset]? with
  | none => simp [h1] at h
  | some charLen =>
    cases h2 : buf.cats[offset]? with
    | none => simp [h1, h2] at h
    | some cat =>
      simp only [h1, h2] at h
      refine ⟨charLen, cat, rfl, rfl, ?_⟩
      split at h
      · rename_i h0
        cases h
        simp [h0]
      · rename_i h0
        cases h
        intro x
        simp only [List.mem_flatMap, mem_mecabClass, ne_eq, h0, not_false_eq_true, true_and]


/-! ## the builder's step -/

theorem mecabProvide_ne_err (cfg : MecabCfg) (buf : Buf) (o c : Nat) (k : String) :
    mecabProvide cfg buf o c ≠ .err k := by
  unfold mecabProvide; intro h; split at h
  · split at h <;> cases h
  · cases h

theorem simpleProvide_ne_err (cfg : SimpleCfg) (buf : Buf) (o c : Nat) (k : String) :
    simpleProvide cfg buf o c ≠ .err k := by
  unfold simpleProvide; intro h; split at h
  · cases h
  · split at h <;> cases h

theorem regexProvide_ne_err (cfg : RegexCfg) (buf : Buf) (o c : Nat) (ex : List Node) (k : String) :
    regexProvide cfg buf o c ex ≠ .err k := by
  unfold regexProvide regexCore; intro h
  split at h
  · cases h
  · cases h
  · split at h
    · cases h
    · split at h
      · cases h
      · split at h
        · split at h <;> cases h
        · split at h
          · cases h
          · cases h
          · split at h <;> cases h

theorem provide_ne_err (p : Provider) (buf : Buf) (o c : Nat) (ex : List Node) (k : String) :
    provide p buf o c ex ≠ .err k := by
  cases p with
  | mecab cfg => exact mecabProvide_ne_err cfg buf o c k
  | simple cfg => exact simpleProvide_ne_err cfg buf o c k
  | regex cfg => exact regexProvide_ne_err cfg buf o c ex k

/-- the created mask is the mask of the lengths in the node buffer -/
def Inv (st : Nat × List Node) : Prop := st.1 = addAll 0 st.2

theorem provideOovs_inv (p : Provider) (buf : Buf) (o : Nat) (st st' : Nat × List Node)
    (h : provideOovs p buf o st = .ok st') (hi : Inv st) : Inv st' := by
  unfold provideOovs at h
  split at h
  · cases h; simp only [Inv] at *; rw [addAll_append, ← hi]
  · cases h
  · cases h

theorem provideOovs_ne_err (p : Provider) (buf : Buf) (o : Nat) (st : Nat × List Node) (k : String) :
    provideOovs p buf o st ≠ .err k := by
  unfold provideOovs; intro h
  split at h
  · cases h
  · rename_i k' hk; exact provide_ne_err _ _ _ _ _ _ hk
  · cases h

theorem provideAll_inv (ps : List Provider) (buf : Buf) (o : Nat) (st st' : Nat × List Node)
    (h : provideAll ps buf o st = .ok st') (hi : Inv st) : Inv st' := by
  induction ps generalizing st with
  | nil => simp only [provideAll] at h; cases h; exact hi
  | cons p rest ih =>
    simp only [provideAll] at h
    split at h
    · rename_i st1 h1; exact ih st1 h (provideOovs_inv p buf o st st1 h1 hi)
    · cases h
    · cases h

theorem provideAll_ne_err (ps : List Provider) (buf : Buf) (o : Nat) (st : Nat × List Node) (k : String) :
    provideAll ps buf o st ≠ .err k := by
  induction ps generalizing st with
  | nil => simp [provideAll]
  | cons p rest ih =>
    simp only [provideAll]; intro h
    split at h
    · exact ih _ h
    · rename_i k' hk; exact provideOovs_ne_err _ _ _ _ _ hk
    · cases h

theorem inv_nonempty (st : Nat × List Node) (hi : Inv st) (h : st.1 ≠ 0) : st.2 ≠ [] := by
  intro he; apply h; rw [hi, he]; rfl


theorem inv_lex (lexN : List Node) : Inv (addAll 0 lexN, lexN) := rfl

theorem bind_eq_ok {α β : Type} (x : Outcome α) (f : α → Outcome β) (b : β) (h : x.bind f = .ok b) :
    ∃ a, x = .ok a ∧ f a = .ok b := by
  cases x with
  | ok a => exact ⟨a, rfl, h⟩
  | err k => cases h
  | panic w => cases h

theorem bind_eq_err {α β : Type} (x : Outcome α) (f : α → Outcome β) (k : String) (h : x.bind f = .err k) :
    x = .err k ∨ ∃ a, x = .ok a ∧ f a = .err k := by
  cases x with
  | ok a => exact Or.inr ⟨a, rfl, h⟩
  | err k' => left; simpa [Outcome.bind] using h
  | panic w => cases h

theorem afterLoop_inv (ps : List Provider) (lex : List Word) (buf : Buf) (o cat : Nat) (st : Nat × List Node)
    (h : afterLoop ps lex buf o cat = .ok st) : Inv st := by
  unfold afterLoop at h
  split at h
  · exact provideAll_inv _ _ _ _ _ h (inv_lex _)
  · cases h; exact inv_lex _

theorem fallback_inv (ps : List Provider) (buf : Buf) (o : Nat) (st st' : Nat × List Node)
    (h : fallback ps buf o st = .ok st') (hi : Inv st) : Inv st' := by
  unfold fallback at h
  split at h
  · split at h
    · cases h
    · exact provideOovs_inv _ _ _ _ _ h hi
  · cases h; exact hi

theorem stepAt_nonempty (ps : List Provider) (lex : List Word) (buf : Buf) (o : Nat) (nodes : List Node)
    (h : stepAt ps lex buf o = .ok nodes) : nodes ≠ [] := by
  unfold stepAt at h
  split at h
  · cases h
  · obtain ⟨st1, h1, h⟩ := bind_eq_ok _ _ _ h
    obtain ⟨st2, h2, h⟩ := bind_eq_ok _ _ _ h
    have i2 := fallback_inv _ _ _ _ _ h2 (afterLoop_inv _ _ _ _ _ _ h1)
    unfold finish at h
    by_cases hz : st2.1 = 0
    · simp [hz] at h
    · simp only [hz, if_false, Outcome.ok.injEq] at h
      subst h; exact inv_nonempty st2 i2 hz

theorem simple_fallback_nonzero (cfg : SimpleCfg) (buf : Buf) (o : Nat) (st st' : Nat × List Node)
    (h0 : st.1 = 0) (h : provideOovs (.simple cfg) buf o st = .ok st') : st'.1 ≠ 0 := by
  unfold provideOovs provide simpleProvide at h
  simp only [h0, ne_eq, not_true_eq_false, if_false] at h
  split at h
  · rename_i new hnew
    split at hnew
    · cases hnew
    · cases hnew; cases h
      exact addAll_ne_zero_of_cons _ _ _
  · cases h
  · cases h

/-- with the fallback provider configured last, a step never reports `EosBosDisconnect` (nor any other `Err`) -/
theorem stepAt_no_disconnect (ps : List Provider) (cfg : SimpleCfg) (lex : List Word) (buf : Buf) (o : Nat)
    (hlast : ps.getLast? = some (.simple cfg)) (k : String) :
    stepAt ps lex buf o ≠ .err k := by
  unfold stepAt; intro h
  split at h
  · cases h
  · rcases bind_eq_err _ _ _ h with h1 | ⟨st1, h1, h⟩
    · unfold afterLoop at h1
      split at h1
      · exact provideAll_ne_err _ _ _ _ _ h1
      · cases h1
    · rcases bind_eq_err _ _ _ h with h2 | ⟨st2, h2, h⟩
      · unfold fallback at h2
        split at h2
        · simp only [hlast] at h2; exact provideOovs_ne_err _ _ _ _ _ h2
        · cases h2
      · unfold finish at h
        split at h
        · rename_i hz
          unfold fallback at h2
          split at h2
          · rename_i hz1
            simp only [hlast] at h2
            exact simple_fallback_nonzero cfg buf o st1 st2 hz1 h2 hz
          · cases h2; rename_i hz1; exact hz1 hz
        · cases h

theorem buildFrom_no_disconnect (ps : List Provider) (cfg : SimpleCfg) (lex : List Word) (buf : Buf)
    (hlast : ps.getLast? = some (.simple cfg)) (todo : List Nat)
    (nodes : List Node) (k : String) : buildFrom ps lex buf todo nodes ≠ .err k := by
  induction todo generalizing nodes with
  | nil => simp [buildFrom]
  | cons p rest ih =>
    have ih' := fun nodes => ih nodes
    simp only [buildFrom]; intro h
    split at h
    · exact ih' _ h
    · split at h
      · exact ih' _ h
      · rename_i k' hk
        exact stepAt_no_disconnect ps cfg lex buf p hlast _ hk
      · cases h


/-! ## created-length bitset -/

theorem bitOf_inj_below (a len : Nat) (ha : 1 ≤ a) (hl : 1 ≤ len) (h64 : len < 64)
    (h : bitOf a = bitOf len) : a = len := by
  unfold bitOf at h; omega

/-- `No` is sound for every length: no node of that length is in the buffer -/
theorem hasWord_no_sound (nodes : List Node) (len : Nat) (h : hasWord (addAll 0 nodes) len = .no) :
    ∀ x ∈ nodes, x.e - x.b ≠ len := by
  rw [hasWord_no_iff, testBit_addAll] at h
  intro x hx heq
  simp only [Nat.zero_testBit, Bool.false_or, List.any_eq_false] at h
  exact h x hx (by simp [heq])

/-- below 64 the answer is exact -/
theorem hasWord_exact_below_64 (nodes : List Node) (len : Nat) (h1 : 1 ≤ len) (h64 : len < 64)
    (hpos : ∀ x ∈ nodes, 1 ≤ x.e - x.b) :
    (hasWord (addAll 0 nodes) len = .yes ↔ ∃ x ∈ nodes, x.e - x.b = len) ∧
    (hasWord (addAll 0 nodes) len = .no ↔ ∀ x ∈ nodes, x.e - x.b ≠ len) ∧
    hasWord (addAll 0 nodes) len ≠ .maybe := by
  have hno : hasWord (addAll 0 nodes) len = .no ↔ ∀ x ∈ nodes, x.e - x.b ≠ len := by
    constructor
    · exact hasWord_no_sound nodes len
    · intro h
      rw [hasWord_no_iff, testBit_addAll]
      simp only [Nat.zero_testBit, Bool.false_or, List.any_eq_false]
      intro x hx hb
      exact h x hx (bitOf_inj_below _ _ (hpos x hx) h1 h64 (by simpa using hb))
  have hmaybe : hasWord (addAll 0 nodes) len ≠ .maybe := by
    unfold hasWord; split
    · simp
    · split
      · omega
      · simp
  refine ⟨?_, hno, hmaybe⟩
  constructor
  · intro hy
    have : ¬ ∀ x ∈ nodes, x.e - x.b ≠ len := fun hall => by
      rw [hno.mpr hall] at hy; cases hy
    by_cases hex : ∃ x ∈ nodes, x.e - x.b = len
    · exact hex
    · exact absurd (fun x hx heq => hex ⟨x, hx, heq⟩) this
  · rintro ⟨x, hx, heq⟩
    cases hw : hasWord (addAll 0 nodes) len with
    | yes => rfl
    | no => exact absurd heq (hno.mp hw x hx)
    | maybe => exact absurd hw hmaybe

/-- `Maybe` only for saturated lengths, and only if some saturated length exists -/
theorem hasWord_maybe (nodes : List Node) (len : Nat) (h : hasWord (addAll 0 nodes) len = .maybe) :
    64 ≤ len ∧ ∃ x ∈ nodes, 64 ≤ x.e - x.b := by
  have hne : hasWord (addAll 0 nodes) len ≠ .no := by rw [h]; simp
  rw [Ne, hasWord_no_iff, testBit_addAll] at hne
  simp only [Nat.zero_testBit, Bool.false_or, Bool.not_eq_false, List.any_eq_true] at hne
  obtain ⟨x, hx, hb⟩ := hne
  have h64 : 64 ≤ len := by
    unfold hasWord at h; split at h
    · cases h
    · split at h
      · assumption
      · cases h
  refine ⟨h64, x, hx, ?_⟩
  have : bitOf (x.e - x.b) = bitOf len := by simpa using hb
  unfold bitOf at this; omega

/-! ## regex provider: the created-length test is exact, including the scan for `Maybe` -/

theorem regexProvide_no_duplicate (cfg : RegexCfg) (buf : Buf) (o : Nat) (existing new : List Node)
    (hb : ∀ x ∈ existing, x.b = o ∧ x.b < x.e)
    (h : regexProvide cfg buf o (addAll 0 existing) existing = .ok new) :
    ∀ y ∈ new, ∀ x ∈ existing, x.e ≠ y.e := by
  unfold regexProvide at h
  split at h
  · cases h
  · cases h; simp
  · unfold regexCore at h
    split at h
    · cases h
    · split at h
      · cases h; simp
      · rename_i k hk
        split at h
        · split at h
          · cases h; simp
          · cases h
        · split at h
          · cases h; simp
          · rename_i hw
            cases h
            intro y hy x hx heq
            simp only [List.mem_singleton] at hy; subst hy
            have := hasWord_no_sound existing k hw x hx
            have := hb x hx
            simp only [regexNode] at heq
            omega
          · split at h
            · cases h; simp
            · rename_i hany
              cases h
              intro y hy x hx heq
              simp only [List.mem_singleton] at hy; subst hy
              simp only [regexNode] at heq
              apply hany
              simp only [List.any_eq_true, beq_iff_eq]
              exact ⟨x, hx, heq⟩

/-! ## what providers put on their nodes -/

theorem simpleProvide_spec (cfg : SimpleCfg) (buf : Buf) (o created : Nat) (ho : o < buf.bow.length) :
    (created ≠ 0 → simpleProvide cfg buf o created = .ok []) ∧
    (created = 0 → ∃ k, NextStart buf.bow o k ∧
      simpleProvide cfg buf o created = .ok [⟨o, o + k, cfg.l, cfg.r, cfg.c, true, cfg.pos⟩]) := by
  constructor
  · intro h; simp [simpleProvide, h]
  · intro h
    obtain ⟨k, hk, hs⟩ := wordCandidateLength_spec buf.bow o ho
    exact ⟨k, hs, by simp [simpleProvide, h, hk]⟩

/-! ## OOV word id -/

theorem wid_oov (pos : Nat) (h : pos < 65536) :
    widIsOov (wordIdOov pos) = true ∧ widDic (wordIdOov pos) = 15 ∧ widWord (wordIdOov pos) % 65536 = pos := by
  unfold widIsOov widDic widWord wordIdOov
  refine ⟨?_, ?_, ?_⟩
  · have : (15 * 268435456 + pos % 268435456) / 268435456 = 15 := by omega
    simp [this]
  · omega
  · omega


/-! ## context independence of the forward pass -/


theorem scan_append (cat : Nat) (l ys : List Nat) :
    scan cat (l ++ ys) = if scan cat l < l.length then scan cat l else l.length + scan (l.foldl (· &&& ·) cat) ys := by
  induction l generalizing cat with
  | nil => simp [scan]
  | cons c r ih =>
    simp only [List.cons_append, scan, List.length_cons, List.foldl_cons]
    by_cases h : cat &&& c = 0
    · simp [h]
    · simp only [h, if_false]
      rw [ih (cat &&& c)]
      have := scan_le (cat &&& c) r
      split <;> split <;> omega

theorem countdown_length (k : Nat) : (countdown k).length = k := by
  induction k with
  | zero => rfl
  | succ k ih => simp [countdown, ih]

theorem countdown_getElem? (k i : Nat) : (countdown k)[i]? = if i < k then some (k - i) else none := by
  induction k generalizing i with
  | zero => simp [countdown]
  | succ k ih =>
    cases i with
    | zero => simp [countdown]
    | succ i =>
      simp only [countdown, List.getElem?_cons_succ, ih]
      split <;> split <;> first | omega | (congr 1; omega) | rfl

theorem forward_unfold (c : Nat) (rest : List Nat) :
    fillCatContinuityForward (c :: rest) =
      countdown (scan c rest + 1) ++ fillCatContinuityForward (rest.drop (scan c rest)) := by
  rw [fillCatContinuityForward]

/-- run boundaries strictly inside a prefix do not depend on what follows the prefix -/
theorem forward_boundary_stable (xs ys : List Nat) (i : Nat) (hi : i + 1 < xs.length) :
    (fillCatContinuityForward xs)[i]? = some 1 ↔ (fillCatContinuityForward (xs ++ ys))[i]? = some 1 := by
  induction hn : xs.length using Nat.strongRecOn generalizing xs i with
  | _ n ih =>
    cases xs with
    | nil => simp at hi
    | cons c rest =>
      have hle := scan_le c rest
      rw [List.cons_append, forward_unfold, forward_unfold, scan_append]
      by_cases hm : scan c rest < rest.length
      · simp only [hm, if_true]
        rw [List.drop_append_of_le_length (by omega)]
        by_cases hlt : i < scan c rest + 1
        · rw [List.getElem?_append_left (by rw [countdown_length]; exact hlt),
              List.getElem?_append_left (by rw [countdown_length]; exact hlt)]
        · rw [List.getElem?_append_right (by rw [countdown_length]; omega),
              List.getElem?_append_right (by rw [countdown_length]; omega), countdown_length]
          apply ih (rest.drop (scan c rest)).length _ (rest.drop (scan c rest)) _ _ rfl
          · simp only [List.length_drop, List.length_cons] at *; omega
          · simp only [List.length_drop, List.length_cons] at *; omega
      · have hm' : scan c rest = rest.length := by omega
        simp only [hm, if_false]
        simp only [List.length_cons] at hi
        rw [List.getElem?_append_left (by rw [countdown_length]; omega),
            List.getElem?_append_left (by rw [countdown_length]; omega),
            countdown_getElem?, countdown_getElem?]
        have h1 : i < scan c rest + 1 := by omega
        have h2 : i < rest.length + scan (List.foldl (· &&& ·) c rest) ys + 1 := by omega
        simp only [h1, h2, if_true, Option.some.injEq]
        omega


end Oov
