import Sudachi.Model.Codec
/-!
# Round-trip lemmas for the binary codec (C05)
-/
namespace Codec

/-! ## length prefix -/

theorem lor128 : ∀ h, h < 128 → (h ||| 128 = h + 128 ∧ ((h + 128) &&& 127) = h) := by decide

theorem stringLength_encLen (n : Nat) (hn : n ≤ 32767) (rest : Bytes) :
    stringLength (encLen n ++ rest) = some (n, rest) := by
  unfold encLen
  by_cases h : n < 127
  · have h2 : ¬ n ≥ 128 := by omega
    simp [h, stringLength, h2]
  · have hh : n / 256 < 128 := by omega
    have hm : (n >>> 8) % 256 = n / 256 := by
      rw [Nat.shiftRight_eq_div_pow]; simp; omega
    have hlo : n % 256 &&& 0xff = n % 256 := by
      have := Nat.and_two_pow_sub_one_eq_mod (n % 256) 8
      simpa using this
    obtain ⟨h1, h2⟩ := lor128 (n / 256) hh
    have hor : (n / 256) <<< 8 ||| n % 256 = n := by
      rw [← Nat.shiftLeft_add_eq_or_of_lt (by omega : n % 256 < 2 ^ 8), Nat.shiftLeft_eq]
      omega
    simp only [h, if_false, hm, hlo, h1, List.cons_append, List.nil_append, stringLength]
    have hge : n / 256 + 128 ≥ 128 := by omega
    simp only [hge, if_true]
    have : (n / 256 + 128) &&& 0x7F = n / 256 := h2
    rw [this, hor]

theorem encLen_length (n : Nat) : (encLen n).length = if n < 127 then 1 else 2 := by
  unfold encLen; split <;> rfl

/-! ## fixed-width integers -/

theorem leU16_le16 (n : Nat) (h : n < 65536) (rest : Bytes) : leU16 (le16 n ++ rest) = some (n, rest) := by
  simp only [le16, List.cons_append, List.nil_append, leU16]
  congr 2; omega

theorem leU32_le32 (n : Nat) (h : n < 4294967296) (rest : Bytes) : leU32 (le32 n ++ rest) = some (n, rest) := by
  simp only [le32, List.cons_append, List.nil_append, leU32]
  congr 2; omega

theorem u16ToI_i16ToU (i : Int) (h1 : -32768 ≤ i) (h2 : i ≤ 32767) : u16ToI (i16ToU i) = i := by
  unfold u16ToI i16ToU
  split <;> omega

/-! ## UTF-16 -/

/-- Unicode scalar value -/
def IsScalar (c : Nat) : Prop := c < 0xD800 ∨ (0xE000 ≤ c ∧ c ≤ 0x10FFFF)

def Scalars (s : Str) : Prop := ∀ c ∈ s, IsScalar c

theorem decodeUtf16_cons_bmp (c : Nat) (us : List Nat) (h : c < 0xD800 ∨ c > 0xDFFF) :
    decodeUtf16 (c :: us) = (decodeUtf16 us).map (c :: ·) := by
  cases us with
  | nil => rw [decodeUtf16.eq_2]; simp [h]
  | cons u2 r => rw [decodeUtf16.eq_3]; simp [h]

theorem decodeUtf16_encode (c : Nat) (hc : IsScalar c) (us : List Nat) :
    decodeUtf16 (encodeUtf16 c ++ us) = (decodeUtf16 us).map (c :: ·) := by
  unfold encodeUtf16 IsScalar at *
  by_cases h : c < 0x10000
  · have : c < 0xD800 ∨ c > 0xDFFF := by omega
    simp only [h, if_true, List.cons_append, List.nil_append]
    exact decodeUtf16_cons_bmp c us this
  · simp only [h, if_false, List.cons_append, List.nil_append]
    rw [decodeUtf16.eq_3]
    have h1 : ¬ (0xD800 + (c - 0x10000) / 1024 < 0xD800 ∨ 0xD800 + (c - 0x10000) / 1024 > 0xDFFF) := by omega
    have h2 : ¬ (0xD800 + (c - 0x10000) / 1024 ≥ 0xDC00) := by omega
    have h3 : ¬ (0xDC00 + (c - 0x10000) % 1024 < 0xDC00 ∨ 0xDC00 + (c - 0x10000) % 1024 > 0xDFFF) := by omega
    simp only [h1, h2, h3, if_false]
    congr 2
    funext l
    congr 1
    omega

theorem decodeUtf16_units (s : Str) (hs : Scalars s) : decodeUtf16 (units s) = some s := by
  induction s with
  | nil => rfl
  | cons c s ih =>
    have hc : IsScalar c := hs c (List.mem_cons_self ..)
    have hs' : Scalars s := fun x hx => hs x (List.mem_cons_of_mem _ hx)
    simp only [units, List.flatMap_cons] at *
    rw [decodeUtf16_encode c hc, ih hs']
    rfl

theorem encodeUtf16_lt (c : Nat) (hc : IsScalar c) : ∀ u ∈ encodeUtf16 c, u < 65536 := by
  unfold encodeUtf16 IsScalar at *
  intro u hu
  split at hu <;> simp at hu <;> omega

theorem units_lt (s : Str) (hs : Scalars s) : ∀ u ∈ units s, u < 65536 := by
  intro u hu
  simp only [units, List.mem_flatMap] at hu
  obtain ⟨c, hc, hu⟩ := hu
  exact encodeUtf16_lt c (hs c hc) u hu

theorem unitsOfBytes_le16 (us : List Nat) (h : ∀ u ∈ us, u < 65536) : unitsOfBytes (us.flatMap le16) = some us := by
  induction us with
  | nil => rfl
  | cons u us ih =>
    have hu := h u (List.mem_cons_self ..)
    simp only [List.flatMap_cons, le16, List.cons_append, List.nil_append, unitsOfBytes]
    rw [ih (fun x hx => h x (List.mem_cons_of_mem _ hx))]
    simp only [Option.map_some]
    congr 2; omega

theorem le16_flatMap_length (us : List Nat) : (us.flatMap le16).length = 2 * us.length := by
  induction us with
  | nil => rfl
  | cons u us ih => simp only [List.flatMap_cons, List.length_append, ih, le16, List.length_cons, List.length_nil]; omega

theorem units_eq_nil (s : Str) (h : units s = []) : s = [] := by
  cases s with
  | nil => rfl
  | cons c s =>
    simp only [units, List.flatMap_cons, encodeUtf16] at h
    split at h <;> simp at h

/-- `utf16_string_parser ∘ Utf16Writer::write = id` for every string of scalar values whose UTF-16
length fits the length prefix -/
theorem utf16StringParser_encStr (s : Str) (hs : Scalars s) (hl : (units s).length ≤ 32767) (rest : Bytes) :
    utf16StringParser (encStr s ++ rest) = some (s, rest) := by
  unfold utf16StringParser utf16StringData encStr
  rw [List.append_assoc, stringLength_encLen _ hl]
  by_cases h0 : (units s).length = 0
  · have hn : units s = [] := List.eq_nil_of_length_eq_zero h0
    have : s = [] := units_eq_nil s hn
    subst this
    simp [units]
  · simp only [h0, if_false]
    have hlen : ((units s).flatMap le16).length = (units s).length * 2 := by rw [le16_flatMap_length]; omega
    have hnot : ¬ ((units s).flatMap le16 ++ rest).length < (units s).length * 2 := by
      rw [List.length_append]; omega
    simp only [hnot, if_false]
    have htake : ((units s).flatMap le16 ++ rest).take ((units s).length * 2) = (units s).flatMap le16 := by
      rw [← hlen]; exact List.take_left ..
    have hdrop : ((units s).flatMap le16 ++ rest).drop ((units s).length * 2) = rest := by
      rw [← hlen]; exact List.drop_left ..
    rw [htake, hdrop]
    have hne : ((units s).flatMap le16).isEmpty = false := by
      cases hu : (units s).flatMap le16 with
      | nil => rw [hu] at hlen; simp at hlen; omega
      | cons _ _ => rfl
    simp only [hne, Bool.false_eq_true, if_false]
    rw [unitsOfBytes_le16 _ (units_lt s hs)]
    simp only [decodeUtf16_units s hs]

/-! ## u32 arrays -/

theorem countU32_flatMap (xs : List Nat) (h : ∀ x ∈ xs, x < 4294967296) (rest : Bytes) :
    countU32 xs.length (xs.flatMap le32 ++ rest) = some (xs, rest) := by
  induction xs with
  | nil => rfl
  | cons x xs ih =>
    simp only [List.length_cons, List.flatMap_cons, List.append_assoc, countU32]
    rw [leU32_le32 x (h x (List.mem_cons_self ..))]
    simp only
    rw [ih (fun y hy => h y (List.mem_cons_of_mem _ hy))]

/-- `u32_array_parser ∘ write_u32_array = id` -/
theorem u32ArrayParser_encU32s (xs : List Nat) (h : ∀ x ∈ xs, x < 4294967296) (rest : Bytes) :
    u32ArrayParser (encU32s xs ++ rest) = some (xs, rest) := by
  simp only [encU32s, List.cons_append, u32ArrayParser]
  exact countU32_flatMap xs h rest

/-! ## word-info record -/

def U32s (xs : List Nat) : Prop := xs.length ≤ 127 ∧ ∀ x ∈ xs, x < 4294967296
def StrOk (s : Str) : Prop := Scalars s ∧ (units s).length ≤ 32767

/-- what the compiler's own checks guarantee of an entry it accepts -/
structure Entry.WF (e : Entry) : Prop where
  hw : StrOk e.headwordS
  nf : StrOk e.normS
  rd : StrOk e.readingS
  key : utf8LenStr e.surface ≤ 32767
  pos : e.pos < 65536
  df : e.dicForm < 4294967296
  a : U32s e.splitsA
  b : U32s e.splitsB
  ws : U32s e.wordStructure
  syn : U32s e.synonyms

theorem strOk_elide (a b : Str) (h : StrOk a) : StrOk (if a = b then [] else a) := by
  split
  · refine ⟨?_, ?_⟩
    · intro c hc; cases hc
    · show (units []).length ≤ 32767
      decide
  · exact h

/-- the stored form of a string that is elided when equal to the headword -/
def stored (form headword : Str) : Str := if form = headword then [] else form

/-- the record depends on the entry only through the stored fields -/
theorem encWordInfo_congr (e1 e2 : Entry) (h1 : e1.headwordS = e2.headwordS) (h2 : e1.surface = e2.surface) (h3 : e1.pos = e2.pos)
    (h4 : stored e1.normS e1.headwordS = stored e2.normS e2.headwordS) (h5 : e1.dicForm = e2.dicForm)
    (h6 : stored e1.readingS e1.headwordS = stored e2.readingS e2.headwordS)
    (h7 : e1.splitsA = e2.splitsA) (h8 : e1.splitsB = e2.splitsB) (h9 : e1.wordStructure = e2.wordStructure)
    (h10 : e1.synonyms = e2.synonyms) : encWordInfo e1 = encWordInfo e2 := by
  unfold stored at h4 h6
  unfold encWordInfo
  rw [h4, h6, h1, h2, h3, h5, h7, h8, h9, h10]

/-- `WordInfoParser::parse (write_word_info e ++ rest)`: every field comes back as written -/
theorem parseWordInfo_enc (e : Entry) (wf : e.WF) (rest : Bytes) :
    parseWordInfo (encWordInfo e ++ rest) = some
      { surface := e.headwordS, headWordLength := utf8LenStr e.surface, posId := e.pos,
        normalizedForm := stored e.normS e.headwordS, dicFormWordId := u32ToI e.dicForm,
        readingForm := stored e.readingS e.headwordS, aUnitSplit := e.splitsA, bUnitSplit := e.splitsB,
        wordStructure := e.wordStructure, synonymGroupIds := e.synonyms } := by
  have hn := strOk_elide e.normS e.headwordS wf.nf
  have hr := strOk_elide e.readingS e.headwordS wf.rd
  unfold parseWordInfo encWordInfo stored
  simp only [List.append_assoc]
  rw [utf16StringParser_encStr _ wf.hw.1 wf.hw.2]
  simp only
  rw [stringLength_encLen _ wf.key]
  simp only
  rw [leU16_le16 _ wf.pos]
  simp only
  rw [utf16StringParser_encStr _ hn.1 hn.2]
  simp only
  rw [leU32_le32 _ wf.df]
  simp only
  rw [utf16StringParser_encStr _ hr.1 hr.2]
  simp only
  rw [u32ArrayParser_encU32s _ wf.a.2]
  simp only
  rw [u32ArrayParser_encU32s _ wf.b.2]
  simp only
  rw [u32ArrayParser_encU32s _ wf.ws.2]
  simp only
  rw [u32ArrayParser_encU32s _ wf.syn.2]

/-- the size-checking writer succeeds on well-formed entries and writes `encWordInfo` -/
theorem writeWordInfo_ok (e : Entry) (wf : e.WF) (hb : utf8LenStr e.headwordS ≤ 262144 ∧ utf8LenStr e.normS ≤ 262144 ∧ utf8LenStr e.readingS ≤ 262144) :
    writeWordInfo e = .ok (encWordInfo e) := by
  have h1 : writeStr e.headwordS = .ok (encStr e.headwordS) := by
    unfold writeStr; have := wf.hw.2; have := hb.1
    simp only [show ¬ utf8LenStr e.headwordS > 4 * 64 * 1024 by omega, show ¬ (units e.headwordS).length > 32767 by omega, if_false]
  have hempty : writeStr [] = .ok (encStr []) := by decide
  have h4 : writeEmptyIfEqual e.normS e.headwordS = .ok (encStr (if e.normS = e.headwordS then [] else e.normS)) := by
    unfold writeEmptyIfEqual
    split
    · exact hempty
    · unfold writeStr; have := wf.nf.2; have := hb.2.1
      simp only [show ¬ utf8LenStr e.normS > 4 * 64 * 1024 by omega, show ¬ (units e.normS).length > 32767 by omega, if_false]
  have h6 : writeEmptyIfEqual e.readingS e.headwordS = .ok (encStr (if e.readingS = e.headwordS then [] else e.readingS)) := by
    unfold writeEmptyIfEqual
    split
    · exact hempty
    · unfold writeStr; have := wf.rd.2; have := hb.2.2
      simp only [show ¬ utf8LenStr e.readingS > 4 * 64 * 1024 by omega, show ¬ (units e.readingS).length > 32767 by omega, if_false]
  have h2 : writeLen (utf8LenStr e.surface) = .ok (encLen (utf8LenStr e.surface)) := by
    unfold writeLen; have := wf.key
    simp only [show ¬ utf8LenStr e.surface > 32767 by omega, if_false]
  have arr : ∀ xs, U32s xs → writeU32Array xs = .ok (encU32s xs) := by
    intro xs h; unfold writeU32Array
    simp only [show ¬ xs.length > 127 from by have := h.1; omega, if_false]
  unfold writeWordInfo encWordInfo
  simp only [bind, Outcome.bind, pure, h1, h2, h4, h6, arr _ wf.a, arr _ wf.b, arr _ wf.ws, arr _ wf.syn, List.append_assoc]

/-! ## connection matrix -/

theorem i16At_of_get (m : Bytes) (k a b : Nat) (ha : m[2 * k]? = some a) (hb : m[2 * k + 1]? = some b) :
    i16At m 0 k = some (u16ToI (a + 256 * b)) := by
  unfold i16At
  have h0 : (m.drop (0 + 2 * k))[0]? = some a := by rw [List.getElem?_drop]; simpa using ha
  have h1 : (m.drop (0 + 2 * k))[1]? = some b := by rw [List.getElem?_drop]; simpa using hb
  cases hd : m.drop (0 + 2 * k) with
  | nil => rw [hd] at h0; simp at h0
  | cons x t =>
    cases t with
    | nil => rw [hd] at h1; simp at h1
    | cons y r =>
      rw [hd] at h0 h1
      simp at h0 h1
      subst h0; subst h1
      rfl

theorem idx_lt (nl nr l r : Nat) (hl : l < nl) (hr : r < nr) : connIndex nl l r < nl * nr := by
  unfold connIndex
  have : (r + 1) * nl ≤ nr * nl := Nat.mul_le_mul_right nl hr
  have h2 : (r + 1) * nl = r * nl + nl := by rw [Nat.add_mul]; omega
  have h3 : nr * nl = nl * nr := Nat.mul_comm ..
  omega

theorem idx_inj (nl l r l' r' : Nat) (hl : l < nl) (hl' : l' < nl) (h : connIndex nl l r = connIndex nl l' r') :
    l = l' ∧ r = r' := by
  unfold connIndex at h
  rcases Nat.lt_trichotomy r r' with hlt | heq | hgt
  · have : (r + 1) * nl ≤ r' * nl := Nat.mul_le_mul_right nl hlt
    have h2 : (r + 1) * nl = r * nl + nl := by rw [Nat.add_mul]; omega
    omega
  · subst heq; omega
  · have : (r' + 1) * nl ≤ r * nl := Nat.mul_le_mul_right nl hgt
    have h2 : (r' + 1) * nl = r' * nl + nl := by rw [Nat.add_mul]; omega
    omega

/-- matrix bytes `m` of an `nl × nr` matrix hold the costs `v` -/
def Holds (m : Bytes) (nl nr : Nat) (v : Nat → Nat → Int) : Prop :=
  m.length = nl * nr * 2 ∧ ∀ l r, l < nl → r < nr → i16At m 0 (connIndex nl l r) = some (v l r)

theorem holds_setCell (m : Bytes) (nl nr : Nat) (v : Nat → Nat → Int) (h : Holds m nl nr v)
    (L R : Nat) (hL : L < nl) (hR : R < nr) (c : Int) (hc1 : -32768 ≤ c) (hc2 : c ≤ 32767) :
    Holds (setCell m (connIndex nl L R) c) nl nr (fun l r => if l = L ∧ r = R then c else v l r) := by
  obtain ⟨hlen, hv⟩ := h
  have hi := idx_lt nl nr L R hL hR
  refine ⟨by simp [setCell, hlen], ?_⟩
  intro l r hl hr
  by_cases heq : l = L ∧ r = R
  · obtain ⟨rfl, rfl⟩ := heq
    simp only [and_self, if_true]
    have := i16At_of_get (setCell m (connIndex nl l r) c) (connIndex nl l r) (i16ToU c % 256) (i16ToU c / 256 % 256)
      (by simp only [setCell]
          rw [List.getElem?_set_ne (by omega), show connIndex nl l r * 2 = 2 * connIndex nl l r by omega,
            List.getElem?_set_self (by omega)])
      (by simp only [setCell]
          rw [show connIndex nl l r * 2 + 1 = 2 * connIndex nl l r + 1 by omega,
            List.getElem?_set_self (by rw [List.length_set]; omega)])
    rw [this]
    congr 1
    have hu : i16ToU c < 65536 := by unfold i16ToU; omega
    have : i16ToU c % 256 + 256 * (i16ToU c / 256 % 256) = i16ToU c := by omega
    rw [this]
    exact u16ToI_i16ToU c hc1 hc2
  · simp only [heq, if_false]
    have hne : connIndex nl l r ≠ connIndex nl L R := by
      intro hh; exact heq (idx_inj nl l r L R hl hL hh)
    have hold := hv l r hl hr
    unfold i16At at hold ⊢
    -- the two bytes of cell (l, r) are untouched
    have hdrop : ∀ j, j < 2 → ((setCell m (connIndex nl L R) c).drop (0 + 2 * connIndex nl l r))[j]? = (m.drop (0 + 2 * connIndex nl l r))[j]? := by
      intro j hj
      rw [List.getElem?_drop, List.getElem?_drop]
      simp only [setCell]
      rw [List.getElem?_set_ne (by omega), List.getElem?_set_ne (by omega)]
    have e0 := hdrop 0 (by omega)
    have e1 := hdrop 1 (by omega)
    have hlen' : ((setCell m (connIndex nl L R) c).drop (0 + 2 * connIndex nl l r)).length = (m.drop (0 + 2 * connIndex nl l r)).length := by
      simp [setCell]
    revert hold e0 e1 hlen'
    generalize (setCell m (connIndex nl L R) c).drop (0 + 2 * connIndex nl l r) = X
    generalize m.drop (0 + 2 * connIndex nl l r) = Y
    intro hold e0 e1 hlen'
    match X, Y, hold, e0, e1, hlen' with
    | x0 :: x1 :: _, y0 :: y1 :: _, hold, e0, e1, _ =>
      simp at e0 e1; subst e0; subst e1
      simpa [leU16] using hold
    | _, [], hold, _, _, _ => simp [leU16] at hold
    | _, [_], hold, _, _, _ => simp [leU16] at hold
    | [], _ :: _ :: _, _, _, _, hl => simp at hl
    | [_], _ :: _ :: _, _, _, _, hl => simp at hl

/-- the cells a list of matrix lines writes, in file order (`parse_line` → `write_elem`) -/
def writeAll (nl : Nat) : List (Int × Int × Int) → Bytes → Outcome Bytes
  | [], m => .ok m
  | (l, r, c) :: rest, m =>
    match writeElem m nl l r c with
    | .ok m' => writeAll nl rest m'
    | e => e

/-- what the matrix text declares for `(l, r)`: the last line naming the pair, else `init` -/
def declared (lines : List (Int × Int × Int)) (l r : Nat) (init : Int) : Int :=
  lines.foldl (fun acc x => if x.1 = (l : Int) ∧ x.2.1 = (r : Int) then x.2.2 else acc) init

def LinesOk (nl nr : Nat) (lines : List (Int × Int × Int)) : Prop :=
  ∀ x ∈ lines, 0 ≤ x.1 ∧ x.1 < nl ∧ 0 ≤ x.2.1 ∧ x.2.1 < nr ∧ -32768 ≤ x.2.2 ∧ x.2.2 ≤ 32767

theorem writeAll_holds (nl nr : Nat) (lines : List (Int × Int × Int)) (hok : LinesOk nl nr lines) :
    ∀ (m : Bytes) (v : Nat → Nat → Int), Holds m nl nr v →
      ∃ m', writeAll nl lines m = .ok m' ∧ Holds m' nl nr (fun l r => declared lines l r (v l r)) := by
  induction lines with
  | nil => intro m v h; exact ⟨m, rfl, h⟩
  | cons x rest ih =>
    intro m v h
    obtain ⟨L, R, c⟩ := x
    obtain ⟨h0, h1, h2, h3, h4, h5⟩ := hok (L, R, c) (List.mem_cons_self ..)
    dsimp only at h0 h1 h2 h3 h4 h5
    have hrest : LinesOk nl nr rest := fun y hy => hok y (List.mem_cons_of_mem _ hy)
    have hLn : L.toNat < nl := by omega
    have hRn : R.toNat < nr := by omega
    have hi := idx_lt nl nr L.toNat R.toNat hLn hRn
    have hw : writeElem m nl L R c = .ok (setCell m (connIndex nl L.toNat R.toNat) c) := by
      unfold writeElem
      have hneg : ¬ (L < 0 ∨ R < 0) := by omega
      have hlen := h.1
      have hin : ¬ (connIndex nl L.toNat R.toNat * 2 + 1 ≥ m.length) := by omega
      simp only [hneg, hin, if_false]
    have hs := holds_setCell m nl nr v h L.toNat R.toNat hLn hRn c h4 h5
    obtain ⟨m', hm', hh⟩ := ih hrest _ _ hs
    refine ⟨m', ?_, ?_⟩
    · simp only [writeAll, hw]; exact hm'
    · refine ⟨hh.1, ?_⟩
      intro l r hl hr
      rw [hh.2 l r hl hr]
      congr 1
      simp only [declared, List.foldl_cons]
      congr 1
      have e1 : (l = L.toNat ∧ r = R.toNat) ↔ (L = (l : Int) ∧ R = (r : Int)) := by omega
      by_cases hc : l = L.toNat ∧ r = R.toNat
      · have := e1.mp hc; rw [if_pos hc, if_pos this]
      · have : ¬ (L = (l : Int) ∧ R = (r : Int)) := fun h => hc (e1.mpr h)
        rw [if_neg hc, if_neg this]

theorem holds_zero (nl nr : Nat) : Holds (List.replicate (nl * nr * 2) 0) nl nr (fun _ _ => 0) := by
  refine ⟨by simp, ?_⟩
  intro l r hl hr
  have hi := idx_lt nl nr l r hl hr
  have := i16At_of_get (List.replicate (nl * nr * 2) 0) (connIndex nl l r) 0 0
    (by rw [List.getElem?_replicate]; simp; omega) (by rw [List.getElem?_replicate]; simp; omega)
  rw [this]; rfl

end Codec
