import Sudachi.Proofs.Edit
import Sudachi.Proofs.TotalSucceeds
import Sudachi.Model.TotalIO
/-!
# Composition lemmas for C01 (`tokens_partition_original`)

The whole analysis (`Total.tokenize`: `start_build`, the input-text plugins with `commit`, `build`, the lattice with its
`i32` totals and `u16` back-pointers, `fill_top_path`, `resolve_best_path`, the word-info / path-rewrite stage,
`split_path` with `NodeSplitIterator::next`) is followed stage by stage, carrying ONE invariant of the token list:

`PathOk b2c c2b nc nb path` — the tokens are laid end to end from `(0, 0)` to `(nc, nb)` (characters, bytes of the
rewritten text), every token runs forward and begins and ends on the start of a character (`Total.At`: the pair
(character offset, byte offset) is an entry of `mod_c2b` and of `mod_b2c`).

* stage A  `rewriteInput_inv`: the offset map after any stack of admissible plugins satisfies the C08 invariant
  (`EditM.Inv`) or the text became empty; the rewritten text is at most 65535 bytes long (both length guards);
* stage B  `topPath_chain`: the back-pointer walk returns a chain of lattice entries from 0 to the character count
  (for ANY addition: costs play no role);
* stage C  `resultNodes_pathOk`: `resolve_best_path` turns that chain into a `PathOk` list;
* stage D  `coarsens_pathOk`, `rewriteOfStack_pathOk`: the C14 relation `Coarsens` (what every configured stack of
  path-rewrite plugins satisfies, `Rewrite.rewriteAll_coarsens`) keeps `PathOk`;
* stage E  `splitPath_d6fix_pathOk`: the repaired split iterator keeps `PathOk` for ANY unit lengths
  (`Total.splitGo_d6fix_spec`, C03/C09);
* stage F  `pathOk_partition`: under the C08 invariant a `PathOk` list is read back (`surface()`, `begin()`, `end()`,
  `begin_c()`, `end_c()`) as a partition of the ORIGINAL text.
-/
namespace Partition
open Oov (Outcome)
open Total EditM

/-! ## stage A: the input-text plugins -/

/-- what `resolve_edits` needs from an input-text plugin (it checks none of it): on every text the analysis can hand
to it the plugin's edits are sorted, non-overlapping, inside the text (`EditsOk`) and on character starts (`EditsB`);
and a plugin has nothing to replace in an empty text.  C07 proves `EditsOk` for the three bundled plugins
(`default_edits_ok`, `psm_edits_ok`, `yomigana_edits_ok`, `edits_ok_bytes`). -/
structure PluginOk (orig : List Nat) (p : List Nat → Outcome (List (Edit Nat))) : Prop where
  adm : ∀ (l : List (P Nat)) (es : List (Edit Nat)), Inv isStart (BoOf orig) orig.length l → p (textOf l) = .ok es →
    EditsOk (l.length - 1) 0 es ∧ EditsB isStart l es
  empty : ∀ es, p [] = .ok es → es = []

/-- state of the buffer between two plugins: the C08 invariant, or the text was deleted completely -/
def BufInv (orig : List Nat) (l : List (P Nat)) : Prop :=
  (Inv isStart (BoOf orig) orig.length l ∨ textOf l = []) ∧ (textOf l).length ≤ REALLY_MAX_LENGTH

theorem commitV_imp_final (lv : LenV) (l : List (P Nat)) (es : List (Edit Nat)) (l' : List (P Nat))
    (h : commitV lv l es = some l') : commitV .final l es = some l' := by
  cases lv with
  | final => exact h
  | running => exact commit_imp_commitV_final l es l' (by rw [← commitV_running]; exact h)

theorem commitV_nil (lv : LenV) (l : List (P Nat)) : commitV lv l [] = some l := by
  simp [commitV]

theorem rewriteInput_inv (lv : LenV) (orig : List Nat) (h0 : BoOf orig 0) :
    ∀ (ps : List (List Nat → Outcome (List (Edit Nat)))) (l l' : List (P Nat)),
      (∀ p ∈ ps, PluginOk orig p) → BufInv orig l → rewriteInput lv ps l = .ok l' → BufInv orig l'
  | [], l, l', _, hi, h => by simp only [rewriteInput] at h; cases h; exact hi
  | p :: ps, l, l', hp, hi, h => by
    have hpk := hp p (List.mem_cons_self ..)
    have hrest : ∀ q ∈ ps, PluginOk orig q := fun q hq => hp q (List.mem_cons_of_mem _ hq)
    unfold rewriteInput at h
    cases hpe : p (textOf l) with
    | err k => rw [hpe] at h; cases h
    | panic w => rw [hpe] at h; cases h
    | ok es =>
      rw [hpe] at h; simp only [] at h
      cases hc : commitV lv l es with
      | none => rw [hc] at h; cases h
      | some l1 =>
        rw [hc] at h; simp only [] at h
        refine rewriteInput_inv lv orig h0 ps l1 l' hrest ?_ h
        rcases hi with ⟨hinv | hemp, hlen⟩
        · by_cases hes : es = []
          · subst hes
            rw [commitV_nil] at hc; cases hc
            exact ⟨Or.inl hinv, hlen⟩
          · obtain ⟨a1, a2⟩ := hpk.adm l es hinv hpe
            have hf := commitV_imp_final lv l es l1 hc
            obtain ⟨rfl, hle⟩ := (commitV_final_some_iff orig.length l hinv.shape es hes a1 l1).mp hf
            refine ⟨?_, hle⟩
            by_cases hne : textOf (resolve l es) = []
            · exact Or.inr hne
            · exact Or.inl (resolve_inv isStart (BoOf orig) orig.length h0 l hinv es a1 a2 hne)
        · rw [hemp] at hpe
          have := hpk.empty es hpe
          subst this
          rw [commitV_nil] at hc; cases hc
          exact ⟨Or.inr hemp, hlen⟩

theorem startBuild_bufInv (orig : List Nat) (l0 : List (P Nat)) (h : startBuild orig = some l0) :
    BufInv orig l0 := by
  unfold startBuild at h
  split at h
  · cases h
  · rename_i hle
    cases h
    unfold BufInv
    rw [textOf_identFrom]
    refine ⟨?_, by simp only [REALLY_MAX_LENGTH, MAX_LENGTH] at *; omega⟩
    by_cases hne : orig = []
    · exact Or.inr hne
    · exact Or.inl (ident_inv orig hne)

/-! ## stage B: the back-pointer walk is a chain -/

/-- the entries are laid end to end from character `s` to character `t`, none empty -/
def EChain : List Entry → Nat → Nat → Prop
  | [], s, t => s = t
  | x :: xs, s, t => x.node.b = s ∧ x.node.b < x.node.e ∧ EChain xs x.node.e t

theorem EChain.append : ∀ (a b : List Entry) (s m t : Nat), EChain a s m → EChain b m t → EChain (a ++ b) s t
  | [], b, s, m, t, ha, hb => by simp only [EChain] at ha; subst ha; exact hb
  | x :: xs, b, s, m, t, ha, hb => by
    obtain ⟨h1, h2, h3⟩ := ha
    exact ⟨h1, h2, EChain.append xs b _ m t h3 hb⟩

theorem EChain.ends_le : ∀ (a : List Entry) (s t : Nat), EChain a s t → s ≤ t ∧ ∀ x ∈ a, x.node.e ≤ t
  | [], s, t, h => by simp only [EChain] at h; subst h; exact ⟨Nat.le_refl _, fun x hx => by cases hx⟩
  | x :: xs, s, t, h => by
    obtain ⟨h1, h2, h3⟩ := h
    obtain ⟨g1, g2⟩ := EChain.ends_le xs _ t h3
    refine ⟨by omega, ?_⟩
    intro y hy
    rcases List.mem_cons.mp hy with rfl | hy
    · exact g1
    · exact g2 y hy

/-- `fill_top_path` from a connected entry of row `e`: what it puts in front of `acc` is a chain from 0 to `e` -/
theorem topPath_chain (len : Nat) (rows : Rows) (hinv : PathInv len [] rows) :
    ∀ (e fuel i : Nat) (p : Entry) (acc : List Entry) (row : List Entry), 1 ≤ e → e ≤ fuel →
      rows[e]? = some row → row[i]? = some p → p.total ≠ I32_MAX →
      ∃ pre, topPath rows fuel (e, i) acc = .ok (pre ++ acc) ∧ EChain pre 0 e ∧ pre ≠ [] := by
  intro e
  induction e using Nat.strongRecOn with
  | _ e ih =>
    intro fuel i p acc row he hf hrow hp hconn
    obtain ⟨a1, a2, a3⟩ := hinv.ent e row i p he hrow hp
    cases fuel with
    | zero => omega
    | succ f =>
      have hfr : fullRow rows e = some row := by
        unfold fullRow; rw [hrow]; simp only []; rw [if_neg (by omega)]
      rcases a3 with a3 | ⟨b1, b2⟩
      · exact absurd a3 hconn
      · by_cases hpe : p.pe ≠ 0
        · have hb0 : p.node.b ≠ 0 := by rw [← b1]; exact hpe
          rcases b2 with b2 | ⟨row', q, c1, c2, c3⟩
          · exact absurd b2 hb0
          · obtain ⟨pre, g1, g2, _⟩ := ih p.node.b a2 f p.pi q (p :: acc) row' (by omega) (by omega) c1 c2 c3
            refine ⟨pre ++ [p], ?_, ?_, by simp⟩
            · simp only [topPath, hfr, hp, b1, if_pos hb0]
              rw [g1]; simp
            · exact EChain.append pre [p] 0 p.node.b e g2 ⟨rfl, by omega, a1⟩
        · have hz : p.node.b = 0 := by
            have : p.pe = 0 := by omega
            rw [← b1]; exact this
          refine ⟨[p], ?_, ⟨hz, by omega, a1⟩, by simp⟩
          simp only [topPath, hfr, hp, if_neg hpe]; simp

/-! ## the invariant of the token list -/

/-- a token runs forward and begins and ends on the start of a character of the rewritten text -/
def Good (tb2c tc2b : List Nat) (n : EditM.NodeRange) : Prop :=
  n.bb ≤ n.eb ∧ n.bc ≤ n.ec ∧ At tb2c tc2b n.bc n.bb ∧ At tb2c tc2b n.ec n.eb

/-- tokens laid end to end from `(0, 0)` to `(nc, nb)`, each of them `Good` -/
def PathOk (tb2c tc2b : List Nat) (nc nb : Nat) (path : List EditM.NodeRange) : Prop :=
  Tiles path 0 0 nc nb ∧ ∀ n ∈ path, Good tb2c tc2b n

theorem Tiles.append : ∀ (a b : List EditM.NodeRange) (cs bs cm bm ce be : Nat),
    Tiles a cs bs cm bm → Tiles b cm bm ce be → Tiles (a ++ b) cs bs ce be
  | [], b, cs, bs, cm, bm, ce, be, ha, hb => by
    obtain ⟨h1, h2⟩ := ha; subst h1; subst h2; exact hb
  | x :: xs, b, cs, bs, cm, bm, ce, be, ha, hb => by
    obtain ⟨h1, h2, h3⟩ := ha
    exact ⟨h1, h2, Tiles.append xs b _ _ cm bm ce be h3 hb⟩

theorem Tiles.split : ∀ (a b : List EditM.NodeRange) (cs bs ce be : Nat), Tiles (a ++ b) cs bs ce be →
    ∃ cm bm, Tiles a cs bs cm bm ∧ Tiles b cm bm ce be
  | [], b, cs, bs, ce, be, h => ⟨cs, bs, ⟨rfl, rfl⟩, h⟩
  | x :: xs, b, cs, bs, ce, be, h => by
    obtain ⟨h1, h2, h3⟩ := h
    obtain ⟨cm, bm, g1, g2⟩ := Tiles.split xs b _ _ ce be h3
    exact ⟨cm, bm, ⟨h1, h2, g1⟩, g2⟩

/-- forward-running tiles: the end is not before the start -/
theorem Tiles.le : ∀ (a : List EditM.NodeRange) (cs bs ce be : Nat), Tiles a cs bs ce be →
    (∀ n ∈ a, n.bb ≤ n.eb ∧ n.bc ≤ n.ec) → cs ≤ ce ∧ bs ≤ be
  | [], cs, bs, ce, be, h, _ => by obtain ⟨h1, h2⟩ := h; omega
  | x :: xs, cs, bs, ce, be, h, hf => by
    obtain ⟨h1, h2, h3⟩ := h
    obtain ⟨g1, g2⟩ := Tiles.le xs _ _ ce be h3 (fun n hn => hf n (List.mem_cons_of_mem _ hn))
    obtain ⟨f1, f2⟩ := hf x (List.mem_cons_self ..)
    omega

/-- last token of a non-empty tiling ends at the end -/
theorem Tiles.getLast : ∀ (a : List EditM.NodeRange) (cs bs ce be : Nat) (h : a ≠ []), Tiles a cs bs ce be →
    (a.getLast h).ec = ce ∧ (a.getLast h).eb = be
  | [], _, _, _, _, h, _ => absurd rfl h
  | [x], cs, bs, ce, be, _, ht => by
    obtain ⟨_, _, h3⟩ := ht
    obtain ⟨g1, g2⟩ := h3
    exact ⟨g1, g2⟩
  | x :: y :: r, cs, bs, ce, be, _, ht => by
    obtain ⟨_, _, h3⟩ := ht
    rw [List.getLast_cons (by simp)]
    exact Tiles.getLast (y :: r) _ _ ce be (by simp) h3

/-! ## stage C: `resolve_best_path` -/

theorem mapM_cons_ok {α β : Type} (f : α → Outcome β) (a : α) (as : List α) (bs : List β)
    (h : mapM f (a :: as) = .ok bs) : ∃ b bs', f a = .ok b ∧ mapM f as = .ok bs' ∧ bs = b :: bs' := by
  unfold mapM at h
  cases h1 : f a with
  | err k => rw [h1] at h; cases h
  | panic w => rw [h1] at h; cases h
  | ok b1 =>
    rw [h1] at h; simp only [] at h
    cases h2 : mapM f as with
    | err k => rw [h2] at h; cases h
    | panic w => rw [h2] at h; cases h
    | ok bs' => rw [h2] at h; cases h; exact ⟨b1, bs', rfl, rfl, rfl⟩

/-- a chain of lattice entries from character `s` to the last character becomes, through `mod_c2b`
(`to_curr_byte_idx(begin)`, `to_curr_byte_idx(end)`, `as u16`), a tiling by `Good` tokens -/
theorem resultNodes_tiles (tb2c tc2b : List Nat) (nb nc : Nat) (ht : TablesOk tb2c tc2b nb nc) (hnb : nb ≤ 65535)
    (hlast : tc2b[nc]? = some nb) :
    ∀ (ents : List Entry) (s bs : Nat) (path : List EditM.NodeRange), EChain ents s nc → tc2b[s]? = some bs →
      mapM (resultNode tc2b) ents = .ok path →
      Tiles path s bs nc nb ∧ ∀ n ∈ path, Good tb2c tc2b n
  | [], s, bs, path, hc, hs, h => by
    simp only [mapM] at h; cases h
    simp only [EChain] at hc; subst hc
    rw [hlast] at hs; cases hs
    exact ⟨⟨rfl, rfl⟩, fun n hn => by cases hn⟩
  | x :: xs, s, bs, path, hc, hs, h => by
    obtain ⟨c1, c2, c3⟩ := hc
    obtain ⟨r, rest, h1, h2, rfl⟩ := mapM_cons_ok _ x xs path h
    have hele := (EChain.ends_le xs _ nc c3).1
    obtain ⟨eb, heb, hebn⟩ := ht.c2b_def x.node.e hele
    have hbn : bs ≤ nb := by
      obtain ⟨b', hb', hb'n⟩ := ht.c2b_def s (by omega)
      rw [hs] at hb'; cases hb'; exact hb'n
    have hr : r = ⟨x.node.b, x.node.e, bs, eb⟩ := by
      unfold resultNode at h1
      rw [c1, hs, heb] at h1
      simp only [] at h1
      rw [asU16_id bs (by omega), asU16_id eb (by omega)] at h1
      cases h1; rw [c1]
    obtain ⟨g1, g2⟩ := resultNodes_tiles tb2c tc2b nb nc ht hnb hlast xs x.node.e eb rest c3 heb h2
    subst hr
    refine ⟨⟨c1, rfl, g1⟩, ?_⟩
    intro n hn
    rcases List.mem_cons.mp hn with rfl | hn
    · refine ⟨ht.c2b_mono x.node.b x.node.e bs eb (by omega) (by rw [c1]; exact hs) heb, by simp only []; omega, ?_, ?_⟩
      · exact ⟨ht.b2c_c2b _ _ (by simp only []; rw [c1]; exact hs), by simp only []; rw [c1]; exact hs⟩
      · exact ⟨ht.b2c_c2b _ _ heb, heb⟩
    · exact g2 n hn

/-! ## stage D: the path-rewrite plugins (C14) -/

/-- the four offsets of a node of the C14 model -/
def rng (m : Rewrite.Node) : EditM.NodeRange := ⟨m.b, m.e, m.bb, m.eb⟩

theorem firstB_tiles (blk : List Rewrite.Node) (b bb cs bs ce be : Nat) (h : Rewrite.firstB blk = some (b, bb))
    (ht : Tiles (blk.map rng) cs bs ce be) : b = cs ∧ bb = bs := by
  cases blk with
  | nil => simp [Rewrite.firstB] at h
  | cons x xs =>
    simp only [Rewrite.firstB, List.head?_cons, Option.map_some, Option.some.injEq, Prod.mk.injEq] at h
    obtain ⟨h1, h2, _⟩ := ht
    simp only [rng] at h1 h2
    omega

theorem lastE_tiles (blk : List Rewrite.Node) (e eb cs bs ce be : Nat) (h : Rewrite.lastE blk = some (e, eb))
    (ht : Tiles (blk.map rng) cs bs ce be) : e = ce ∧ eb = be := by
  have hne : blk ≠ [] := by intro hn; simp [hn, Rewrite.lastE] at h
  have hne' : blk.map rng ≠ [] := by simpa using hne
  obtain ⟨g1, g2⟩ := Tiles.getLast (blk.map rng) cs bs ce be hne' ht
  rw [List.getLast_map] at g1 g2
  simp only [Rewrite.lastE, List.getLast?_eq_some_getLast hne, Option.map_some, Option.some.injEq, Prod.mk.injEq] at h
  simp only [rng] at g1 g2
  omega

/-- **`Coarsens` keeps the tiling**: kept tokens are kept, a merged token begins where its block begins and ends
where it ends (`Spans`), so it runs forward and sits on character starts because the block does -/
theorem coarsens_tiles {R : List Rewrite.Node → Rewrite.Node → Prop} (tb2c tc2b : List Nat) :
    ∀ {p q : List Rewrite.Node}, Rewrite.Coarsens R p q → ∀ (cs bs ce be : Nat), Tiles (p.map rng) cs bs ce be →
      (∀ n ∈ p.map rng, Good tb2c tc2b n) →
      Tiles (q.map rng) cs bs ce be ∧ ∀ n ∈ q.map rng, Good tb2c tc2b n := by
  intro p q h
  induction h with
  | nil => intro cs bs ce be ht hg; exact ⟨ht, hg⟩
  | keep n _ ih =>
    intro cs bs ce be ht hg
    simp only [List.map_cons] at ht hg ⊢
    obtain ⟨h1, h2, h3⟩ := ht
    obtain ⟨g1, g2⟩ := ih _ _ ce be h3 (fun x hx => hg x (List.mem_cons_of_mem _ hx))
    refine ⟨⟨h1, h2, g1⟩, ?_⟩
    intro x hx
    rcases List.mem_cons.mp hx with rfl | hx
    · exact hg _ (List.mem_cons_self ..)
    · exact g2 x hx
  | merge blk m hs _ _ ih =>
    intro cs bs ce be ht hg
    simp only [List.map_append] at ht hg
    obtain ⟨cm, bm, t1, t2⟩ := Tiles.split _ _ cs bs ce be ht
    obtain ⟨f1, f2⟩ := firstB_tiles blk _ _ cs bs cm bm hs.first t1
    obtain ⟨l1, l2⟩ := lastE_tiles blk _ _ cs bs cm bm hs.last t1
    obtain ⟨g1, g2⟩ := ih cm bm ce be t2 (fun x hx => hg x (List.mem_append_right _ hx))
    have hgb : ∀ x ∈ blk.map rng, Good tb2c tc2b x := fun x hx => hg x (List.mem_append_left _ hx)
    obtain ⟨le1, le2⟩ := Tiles.le _ cs bs cm bm t1 (fun x hx => ⟨(hgb x hx).1, (hgb x hx).2.1⟩)
    have hne : blk ≠ [] := hs.ne_nil
    -- the first node of the block begins on a character start, the last one ends on one
    have hfirst : At tb2c tc2b cs bs := by
      cases blk with
      | nil => exact absurd rfl hne
      | cons x xs =>
        obtain ⟨e1, e2, _⟩ := t1
        have := (hgb (rng x) (by simp)).2.2.1
        rw [e1, e2] at this; exact this
    have hlast : At tb2c tc2b cm bm := by
      have hne' : blk.map rng ≠ [] := by simpa using hne
      obtain ⟨e1, e2⟩ := Tiles.getLast (blk.map rng) cs bs cm bm hne' t1
      have := (hgb _ (List.getLast_mem hne')).2.2.2
      rw [e1, e2] at this; exact this
    simp only [List.map_cons]
    refine ⟨⟨by simp only [rng]; omega, by simp only [rng]; omega, by simp only [rng]; rw [l1, l2]; exact g1⟩, ?_⟩
    intro x hx
    rcases List.mem_cons.mp hx with rfl | hx
    · simp only [Good, rng]
      rw [f1, f2, l1, l2]
      exact ⟨le2, le1, hfirst, hlast⟩
    · exact g2 x hx

/-- **`hrew` for every configured stack of path-rewrite plugins** (`Total.rewriteOfStack`: the C14 model between
`resolve_best_path` and `split_path`), both variants of the numeral loop: a `PathOk` path stays `PathOk`, provided
the word-info look-up leaves the four offsets of a node alone (`hinfo`) -/
theorem rewriteOfStack_pathOk (nv : Rewrite.NVariant) (cat : List Nat) (P : List Char → Rewrite.POut)
    (pls : List Rewrite.Plugin) (info : EditM.NodeRange → Rewrite.Node) (units : Rewrite.Node → List Nat)
    (hinfo : ∀ n, rng (info n) = n) (tb2c tc2b : List Nat) (nc nb : Nat)
    (path : List EditM.NodeRange) (path' : List (EditM.NodeRange × List Nat))
    (hp : PathOk tb2c tc2b nc nb path) (h : rewriteOfStack nv cat P pls info units path = .ok path') :
    PathOk tb2c tc2b nc nb (path'.map (·.1)) := by
  unfold rewriteOfStack at h
  split at h
  · rename_i q hq
    cases h
    have hc := Rewrite.rewriteAll_coarsens nv cat P pls _ q hq
    have e1 : (path.map info).map rng = path := by
      rw [List.map_map]
      conv => rhs; rw [← List.map_id path]
      apply List.map_congr_left
      intro n _; exact hinfo n
    have e2 : (q.map (fun m => ((⟨m.b, m.e, m.bb, m.eb⟩ : EditM.NodeRange), units m))).map (·.1) = q.map rng := by
      rw [List.map_map]; rfl
    rw [e2]
    obtain ⟨g1, g2⟩ := coarsens_tiles tb2c tc2b hc 0 0 nc nb (by rw [e1]; exact hp.1) (by rw [e1]; exact hp.2)
    exact ⟨g1, g2⟩
  · cases h
  · cases h
  · cases h

/-! ## stage E: `split_path` with the repaired iterator, ANY unit lengths -/

theorem splitPath_d6fix_tiles (tb2c tc2b : List Nat) (nb nc : Nat) (ht : TablesOk tb2c tc2b nb nc)
    (hnb : nb ≤ 65535) (hnc : nc ≤ 65535) :
    ∀ (path : List (EditM.NodeRange × List Nat)) (ms : List EditM.NodeRange) (cs bs ce be : Nat),
      splitPath .d6fix tb2c tc2b path = .ok ms → Tiles (path.map (·.1)) cs bs ce be →
      (∀ n ∈ path.map (·.1), Good tb2c tc2b n ∧ n.eb ≤ nb) →
      Tiles ms cs bs ce be ∧ ∀ n ∈ ms, Good tb2c tc2b n
  | [], ms, cs, bs, ce, be, h, ht', _ => by
    simp only [splitPath] at h; cases h
    exact ⟨ht', fun n hn => by cases hn⟩
  | (n, units) :: rest, ms, cs, bs, ce, be, h, ht', hg => by
    simp only [splitPath] at h
    simp only [List.map_cons] at ht' hg
    obtain ⟨t1, t2, t3⟩ := ht'
    obtain ⟨⟨gn1, gn2, gn3, gn4⟩, gnb⟩ := hg n (List.mem_cons_self ..)
    split at h
    · rename_i a b ha hb
      cases h
      obtain ⟨r1, r2⟩ := splitPath_d6fix_tiles tb2c tc2b nb nc ht hnb hnc rest b n.ec n.eb ce be hb t3
        (fun x hx => hg x (List.mem_cons_of_mem _ hx))
      split at ha
      · cases ha
        refine ⟨⟨t1, t2, r1⟩, ?_⟩
        intro x hx
        rcases List.mem_cons.mp hx with rfl | hx
        · exact ⟨gn1, gn2, gn3, gn4⟩
        · exact r2 x hx
      · rename_i hlen
        have hu : units ≠ [] := by intro hn; subst hn; simp at hlen
        obtain ⟨us, h1, h2, h3⟩ := splitGo_d6fix_spec tb2c tc2b nb nc ht hnb hnc n gnb gn4 units n.bc n.bb hu gn3
          (Nat.le_refl _) gn1 (Nat.le_refl _)
        unfold split at ha
        rw [h1] at ha
        have hua : a = us := by cases ha; rfl
        subst hua
        rw [← t1, ← t2]
        refine ⟨Tiles.append a b _ _ _ _ ce be h2 r1, ?_⟩
        intro x hx
        rcases List.mem_append.mp hx with hx | hx
        · obtain ⟨_, u2, _, _, u5, _, u7, u8⟩ := h3 x hx
          exact ⟨u2, u5, u7, u8⟩
        · exact r2 x hx
    · cases h
    · cases h
    · cases h
    · cases h

/-! ## stage F: reading the tokens back in the ORIGINAL text -/

/-- ranges laid end to end from `s` to `t` -/
def ChainR : List (Nat × Nat) → Nat → Nat → Prop
  | [], s, t => s = t
  | x :: xs, s, t => x.1 = s ∧ ChainR xs x.2 t

/-- **the property's words**: the ranges `[begin, end)` are contiguous from 0 to the length of the original text
(first begins at 0, each begins where the previous one ended, the last ends at the length), none runs backwards
(empty ranges are permitted), every boundary is a character boundary, and the slices concatenate to the text -/
structure IsPartition (o : List Nat) (rs : List (Nat × Nat)) : Prop where
  chain : ChainR rs 0 o.length
  fwd : ∀ x ∈ rs, x.1 ≤ x.2
  bnd : ∀ x ∈ rs, BoOf o x.1 ∧ BoOf o x.2
  concat : (rs.map (fun x => slice o x.1 x.2)).flatten = o

theorem isBoundary_of_boOf (t : List Nat) (i : Nat) (h : BoOf t i) : isBoundary t i = true := by
  unfold isBoundary
  rcases h with rfl | ⟨hlt, hs⟩
  · simp
  · rw [List.getElem?_eq_getElem hlt]; simp [hs]

theorem nchars_pos (o : List Nat) (hne : o ≠ []) (h0 : BoOf o 0) : 0 < nchars o := by
  cases o with
  | nil => exact absurd rfl hne
  | cons b r =>
    rcases h0 with h | ⟨_, hs⟩
    · simp at h
    · simp only [List.getElem_cons_zero] at hs
      rw [nchars_cons, hs]; simp only [if_true]; omega

theorem tiles_mono : ∀ (ms : List EditM.NodeRange) (cs bs ce be : Nat), Tiles ms cs bs ce be →
    (∀ m ∈ ms, m.bb ≤ m.eb) → Mono (bs :: ms.map (·.eb))
  | [], _, _, _, _, _, _ => by simp [Mono]
  | m :: ms, cs, bs, ce, be, ht, hf => by
    obtain ⟨_, h2, h3⟩ := ht
    have ih := tiles_mono ms _ _ ce be h3 (fun x hx => hf x (List.mem_cons_of_mem _ hx))
    have hm := hf m (List.mem_cons_self ..)
    simp only [Mono, List.map_cons, List.pairwise_cons] at ih ⊢
    refine ⟨?_, ih⟩
    intro y hy
    rcases List.mem_cons.mp hy with rfl | hy
    · omega
    · have := ih.1 y hy; omega

theorem tiles_pieces (o : List Nat) (l : List (P Nat)) : ∀ (ms : List EditM.NodeRange) (cs bs ce be : Nat),
    Tiles ms cs bs ce be →
    pieces o (valAt l bs) ((ms.map (·.eb)).map (valAt l)) = ms.map (fun m => slice o (valAt l m.bb) (valAt l m.eb))
  | [], _, _, _, _, _ => rfl
  | m :: ms, cs, bs, ce, be, ht => by
    obtain ⟨_, h2, h3⟩ := ht
    simp only [List.map_cons, pieces]
    rw [tiles_pieces o l ms _ _ ce be h3, h2]

theorem tiles_chainR (l : List (P Nat)) : ∀ (ms : List EditM.NodeRange) (cs bs ce be : Nat), Tiles ms cs bs ce be →
    ChainR (ms.map (fun m => (valAt l m.bb, valAt l m.eb))) (valAt l bs) (valAt l be)
  | [], _, _, _, _, ht => by obtain ⟨_, h2⟩ := ht; subst h2; rfl
  | m :: ms, cs, bs, ce, be, ht => by
    obtain ⟨_, h2, h3⟩ := ht
    exact ⟨by simp only []; rw [h2], tiles_chainR l ms _ _ ce be h3⟩

/-- **the accessors of a `PathOk` token list partition the original text.**  `l` = the offset map with the C08
invariant over the original text `orig`; the tokens tile the rewritten text `textOf l` from `(0, 0)` to
`(nc, |textOf l|)` on character starts of its tables.  Then every accessor of every token is defined
(`Total.access`: no index out of range, no `debug_assert`, no slice panic), `begin()`/`end()` (character route) are
the bounds of `surface()` (byte route), `begin_c()`/`end_c()` are the numbers of code points before them, and the
ranges are a partition of the original text. -/
theorem pathOk_partition (orig : List Nat) (hne : orig ≠ []) (h0 : BoOf orig 0) (l : List (P Nat))
    (hinv : Inv isStart (BoOf orig) orig.length l) (nc : Nat)
    (ms : List EditM.NodeRange) (hms : ms ≠ [])
    (hp : PathOk (b2c (textOf l)) (c2b (textOf l)) nc (textOf l).length ms) :
    ∃ acs, mapM (access orig l) ms = .ok acs ∧
      IsPartition orig (acs.map (fun a => (a.b, a.e))) ∧
      ∀ a ∈ acs, a.sb = a.b ∧ a.se = a.e ∧ a.bc = nchars (orig.take a.b) ∧ a.ec = nchars (orig.take a.e) := by
  obtain ⟨htile, hgood⟩ := hp
  have hlen := shape_length hinv.shape
  have hnco := nchars_pos orig hne h0
  -- every token offset is a character boundary of the rewritten text inside it
  have hat : ∀ c b, At (b2c (textOf l)) (c2b (textOf l)) c b →
      b < l.length ∧ BoOf orig (valAt l b) ∧ isBoundary (textOf l) b = true ∧ (c2b (textOf l))[c]? = some b := by
    intro c b h
    have hm : b ∈ c2b (textOf l) := List.mem_of_getElem? h.2
    have hb := (c2b_spec (textOf l)).2 b hm
    have hle : b ≤ (textOf l).length := by rcases hb with h1 | ⟨h1, _⟩ <;> omega
    have hlt : b < l.length := by omega
    exact ⟨hlt, inv_boundary hinv b hlt (isB_of_boOf hinv.shape b hb hlt), isBoundary_of_boOf _ _ hb, h.2⟩
  have hacc : ∀ m ∈ ms, access orig l m = .ok ⟨valAt l m.bb, valAt l m.eb, nchars (orig.take (valAt l m.bb)),
      nchars (orig.take (valAt l m.eb)), valAt l m.bb, valAt l m.eb⟩ := by
    intro m hm
    obtain ⟨g1, _, g3, g4⟩ := hgood m hm
    obtain ⟨b1, b2, b3, b4⟩ := hat _ _ g3
    obtain ⟨e1, e2, e3, e4⟩ := hat _ _ g4
    have hle : valAt l m.bb ≤ valAt l m.eb := mono_valAt hinv.mono g1 e1
    have rb : toOrigByteIdx l m.bc = some (valAt l m.bb) := by
      unfold toOrigByteIdx; rw [b4]; exact snds_getElem? l _ b1
    have re : toOrigByteIdx l m.ec = some (valAt l m.eb) := by
      unfold toOrigByteIdx; rw [e4]; exact snds_getElem? l _ e1
    have cb : toOrigCharIdx orig l m.bc = some (nchars (orig.take (valAt l m.bb))) := by
      unfold toOrigCharIdx; rw [rb]; simp only []; rw [origB2C_counts orig hnco _ b2]
    have ce : toOrigCharIdx orig l m.ec = some (nchars (orig.take (valAt l m.eb))) := by
      unfold toOrigCharIdx; rw [re]; simp only []; rw [origB2C_counts orig hnco _ e2]
    have sr : surfaceRange orig l m = .ok (valAt l m.bb, valAt l m.eb) := by
      unfold surfaceRange
      rw [b3, e3]
      simp only [Bool.not_true, Bool.false_eq_true, if_false]
      unfold morphRangeB
      rw [snds_getElem? l _ b1, snds_getElem? l _ e1]
      simp only []
      rw [if_pos ⟨hle, isBoundary_of_boOf _ _ b2, isBoundary_of_boOf _ _ e2⟩]
    unfold access morphRangeC
    rw [rb, re]; simp only []
    rw [cb, ce]; simp only []
    rw [sr]
  -- assemble the list of accessors
  have hmap : ∀ (xs : List EditM.NodeRange), (∀ m ∈ xs, m ∈ ms) →
      mapM (access orig l) xs = .ok (xs.map (fun m => (⟨valAt l m.bb, valAt l m.eb, nchars (orig.take (valAt l m.bb)),
        nchars (orig.take (valAt l m.eb)), valAt l m.bb, valAt l m.eb⟩ : Access))) := by
    intro xs
    induction xs with
    | nil => intro _; rfl
    | cons x xs ih =>
      intro hx
      simp only [mapM, hacc x (hx x (List.mem_cons_self ..)), ih (fun m hm => hx m (List.mem_cons_of_mem _ hm)),
        List.map_cons]
  refine ⟨_, hmap ms (fun m hm => hm), ?_, ?_⟩
  · rw [List.map_map]
    have hfun : ((fun a : Access => (a.b, a.e)) ∘ fun m : EditM.NodeRange => (⟨valAt l m.bb, valAt l m.eb,
        nchars (orig.take (valAt l m.bb)), nchars (orig.take (valAt l m.eb)), valAt l m.bb, valAt l m.eb⟩ : Access))
        = fun m => (valAt l m.bb, valAt l m.eb) := rfl
    rw [hfun]
    have hfw : ∀ m ∈ ms, m.bb ≤ m.eb := fun m hm => (hgood m hm).1
    have hmono := tiles_mono ms 0 0 nc _ htile hfw
    have hlastc : ((0 : Nat) :: ms.map (·.eb)).getLast (by simp) = (textOf l).length := by
      have hne' : ms.map (·.eb) ≠ [] := by simpa using hms
      rw [List.getLast_cons hne', List.getLast_map]
      exact (Tiles.getLast ms 0 0 nc _ hms htile).2
    refine ⟨?_, ?_, ?_, ?_⟩
    · have := tiles_chainR l ms 0 0 nc _ htile
      rw [hinv.first, inv_last hinv] at this
      exact this
    · intro x hx
      obtain ⟨m, hm, rfl⟩ := List.mem_map.mp hx
      obtain ⟨g1, _, _, g4⟩ := hgood m hm
      exact mono_valAt hinv.mono g1 (hat _ _ g4).1
    · intro x hx
      obtain ⟨m, hm, rfl⟩ := List.mem_map.mp hx
      obtain ⟨_, _, g3, g4⟩ := hgood m hm
      exact ⟨(hat _ _ g3).2.1, (hat _ _ g4).2.1⟩
    · have hc := surfaces_concat isStart orig l hinv (ms.map (·.eb)) hmono hlastc
      have hp := tiles_pieces orig l ms 0 0 nc _ htile
      rw [hinv.first] at hp
      rw [hp] at hc
      rw [List.map_map]
      exact hc
  · intro a ha
    obtain ⟨m, _, rfl⟩ := List.mem_map.mp ha
    exact ⟨rfl, rfl, rfl, rfl⟩

/-! ## small facts about the decoded text -/

theorem utf8Decode_cons_ne_nil (b0 : Nat) (rest : List Nat) : Wire.utf8Decode (b0 :: rest) ≠ some [] := by
  intro h
  rw [Wire.utf8Decode.eq_def] at h
  simp only [] at h
  repeat' split at h
  all_goals (first | cases h | simp at h)

theorem isStart_head_of_utf8 (b0 : Nat) (rest chars : List Nat) (h : Wire.utf8Decode (b0 :: rest) = some chars) :
    isStart b0 = true := by
  unfold isStart
  by_cases g1 : b0 < 0x80
  · simp; omega
  · by_cases g2 : b0 < 0xC0
    · rw [Wire.utf8Decode.eq_def] at h; simp only [] at h; rw [if_neg g1, if_pos g2] at h; cases h
    · simp; omega

/-- once the text is empty it stays empty: a plugin has nothing to replace in it -/
theorem rewriteInput_empty (lv : LenV) (orig : List Nat) :
    ∀ (ps : List (List Nat → Outcome (List (Edit Nat)))) (l1 l2 : List (P Nat)),
      (∀ p ∈ ps, PluginOk orig p) → textOf l1 = [] → rewriteInput lv ps l1 = .ok l2 → textOf l2 = []
  | [], l1, l2, _, he, hh => by simp only [rewriteInput] at hh; cases hh; exact he
  | p :: ps, l1, l2, hp, he, hh => by
    unfold rewriteInput at hh
    cases hpe : p (textOf l1) with
    | err k => rw [hpe] at hh; cases hh
    | panic w => rw [hpe] at hh; cases hh
    | ok es =>
      rw [hpe] at hh; simp only [] at hh
      rw [he] at hpe
      have := (hp p (List.mem_cons_self ..)).empty es hpe
      subst this
      rw [commitV_nil] at hh; simp only [] at hh
      exact rewriteInput_empty lv orig ps l1 l2 (fun q hq => hp q (List.mem_cons_of_mem _ hq)) he hh

/-! ## a configuration for the non-vacuity examples of `C01.tokens_partition_original` -/

/-- an input-text plugin that appends `!` to a non-empty text (one insertion at the end: the byte length changes and the
inserted character has no original text of its own) -/
def bang (t : List Nat) : Outcome (List (Edit Nat)) :=
  if t = [] then .ok [] else .ok [⟨t.length, t.length, [0x21]⟩]

theorem bang_ok (orig : List Nat) : PluginOk orig bang := by
  constructor
  · intro l es hinv h
    unfold bang at h
    split at h
    · cases h; exact ⟨Nat.zero_le _, fun ed hed => by cases hed⟩
    · cases h
      have hl := shape_length hinv.shape
      refine ⟨⟨Nat.zero_le _, Nat.le_refl _, by simp only []; omega, by simp only [EditsOk]; omega⟩, ?_⟩
      intro ed hed
      simp only [List.mem_singleton] at hed
      subst hed
      obtain ⟨body, hb, hall⟩ := hinv.shape
      have hbl : (textOf l).length = body.length := by rw [hb, textOf_shape, textOf_allSome_length hall]
      have key : ∀ h : (textOf l).length < l.length, isB isStart l[(textOf l).length] := by
        intro h
        have : l[(textOf l).length] = (none, orig.length) := by
          subst hb
          simp only [hbl]
          rw [List.getElem_append_right (Nat.le_refl _)]
          simp
        rw [this]; simp [isB]
      exact ⟨key, key⟩
  · intro es h
    simp [bang] at h; exact h

/-- `bang`, the buffer over the empty class table, the Simple provider, the words `a` and `ab`, and a word-info stage that
declares the ILL-FORMED units `[1, 9]` (the second unit longer than what is left) for every token of two characters -/
def partCfg : Cfg :=
  { inputPlugins := [bang],
    mkBuf := builtBuf .forward true [],
    providers := [.simple ⟨0, 0, 100, 0⟩],
    lex := [⟨[97], 0, 0, 5⟩, ⟨[97, 98], 0, 0, 5⟩], conn := fun _ _ => 10,
    rewrite := fun p => .ok (p.map (fun n => (n, if n.ec = n.bc + 2 then [1, 9] else []))) }

/-! ## `hutf`: a text that IS the UTF-8 encoding of its characters has one character start per character -/

theorem nchars_append (a b : List Nat) : nchars (a ++ b) = nchars a + nchars b := by
  simp [nchars, List.filter_append]

theorem nchars_utf8Enc (c : Nat) : nchars (TotalIO.utf8Enc c) = 1 := by
  unfold TotalIO.utf8Enc nchars
  have hc : ∀ x : Nat, isStart (0x80 + x % 64) = false := by
    intro x; unfold isStart; simp; omega
  split
  · rename_i h
    have : isStart c = true := by unfold isStart; simp; omega
    simp [List.filter, this]
  · split
    · rename_i h1 h2
      have : isStart (0xC0 + c / 64) = true := by unfold isStart; simp; omega
      simp [List.filter, this, hc]
    · split
      · have : isStart (0xE0 + c / 4096) = true := by unfold isStart; simp; omega
        simp [List.filter, this, hc]
      · have : isStart (0xF0 + c / 262144) = true := by unfold isStart; simp; omega
        simp [List.filter, this, hc]

/-- the number of character starts of an encoded text is its number of characters -/
theorem nchars_encode : ∀ (cs : List Nat), nchars (TotalIO.encode cs) = cs.length
  | [] => rfl
  | c :: cs => by
    have : TotalIO.encode (c :: cs) = TotalIO.utf8Enc c ++ TotalIO.encode cs := by simp [TotalIO.encode]
    rw [this, nchars_append, nchars_utf8Enc, nchars_encode cs]; simp; omega

end Partition
