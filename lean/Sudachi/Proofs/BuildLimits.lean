import Sudachi.Proofs.Build
/-!
# Format limits of an accepted dictionary (C06 `compile_valid`, limits clause)

A successful run of the writer script contains no `abort` step, so every length check of
`write_word_info`, `write_len`, `write_u32_array` and `build_word_id_table` passed.
-/
namespace Build

theorem exec_ok_writes {limit : Option Nat} {steps : List Step} {pos n : Nat}
    (h : exec limit steps pos = .ok n) : ∀ s ∈ steps, ∃ m, s = .write m := by
  induction steps generalizing pos with
  | nil => simp
  | cons s rest ih =>
    cases s with
    | write m =>
      simp only [exec] at h
      intro s' hs'
      rcases List.mem_cons.1 hs' with rfl | hm
      · exact ⟨m, rfl⟩
      · split at h
        · exact ih h s' hm
        · split at h
          · split at h
            · simp at h
            · exact ih h s' hm
          · exact ih h s' hm
    | abort k l => simp [exec] at h
    | panic w => simp [exec] at h

def Writes (l : List Step) : Prop := ∀ s ∈ l, ∃ m, s = .write m

theorem offsetSteps_writes {es : List Entry} {line : Nat} (h : Writes (offsetSteps es line)) :
    ∀ e ∈ es, ∃ n, wordInfoSize e = .ok n := by
  induction es generalizing line with
  | nil => simp
  | cons e es ih =>
    unfold offsetSteps at h
    split at h
    · rename_i k hk
      obtain ⟨m, hm⟩ := h (.abort k line) (by simp)
      cases hm
    · rename_i n hn
      intro e' he'
      rcases List.mem_cons.1 he' with rfl | hm
      · exact ⟨n, hn⟩
      · exact ih (fun s hs => h s (List.mem_cons_of_mem _ hs)) e' hm

theorem lenSize_ok {n p : Nat} (h : lenSize n = .ok p) : n ≤ 32767 := by
  unfold lenSize at h
  split at h
  · simp at h
  · omega

theorem u16Size_ok {s : Str} {p : Nat} (h : u16Size s = .ok p) : utf16Len s ≤ 32767 := by
  unfold u16Size at h
  split at h
  · simp at h
  · split at h
    · simp at h
    · rename_i q hq; exact lenSize_ok hq

theorem arrSize_ok {n p : Nat} (h : arrSize n = .ok p) : n ≤ 127 := by
  unfold arrSize at h
  split at h
  · simp at h
  · omega

/-- the limits one entry respects -/
def EntryLimits (e : Entry) : Prop :=
  utf16Len e.headwordStr ≤ 32767 ∧ utf8Len e.surface ≤ 32767 ∧
  utf16Len e.normStr ≤ 32767 ∧ utf16Len e.readingStr ≤ 32767 ∧
  e.splitsA.length ≤ 127 ∧ e.splitsB.length ≤ 127 ∧ e.wordStructure.length ≤ 127 ∧ e.synonyms.length ≤ 127

theorem wordInfoSize_ok {e : Entry} {n : Nat} (h : wordInfoSize e = .ok n) : EntryLimits e := by
  simp only [wordInfoSize, bind, Except.bind] at h
  repeat' (split at h; try (exact absurd h (by simp)))
  rename_i _ a ha _ b hb _ c hc _ d hd _ s1 h1 _ s2 h2 _ s3 h3 _ s4 h4
  have hhead := u16Size_ok ha
  refine ⟨hhead, lenSize_ok hb, ?_, ?_, arrSize_ok h1, arrSize_ok h2, arrSize_ok h3, arrSize_ok h4⟩
  · by_cases heq : e.normStr = e.headwordStr
    · rw [heq]; exact hhead
    · simp only [heq, ↓reduceIte] at hc; exact u16Size_ok hc
  · by_cases heq : e.readingStr = e.headwordStr
    · rw [heq]; exact hhead
    · simp only [heq, ↓reduceIte] at hd; exact u16Size_ok hd

theorem wordIdTableSize_ok {keys : List (Str × Nat)} {n : Nat} (h : wordIdTableSize keys = .ok n) :
    ∀ q ∈ keys, q.2 ≤ 127 := by
  induction keys generalizing n with
  | nil => simp
  | cons q keys ih =>
    obtain ⟨k, c⟩ := q
    unfold wordIdTableSize at h
    split at h
    · simp at h
    · rename_i a ha
      split at h
      · simp at h
      · rename_i b hb
        intro q' hq'
        rcases List.mem_cons.1 hq' with rfl | hm
        · exact arrSize_ok ha
        · exact ih hb q' hm

theorem indexSteps_writes {v : Variant} {es : List Entry} {tl : Nat} (h : Writes (indexSteps v es tl)) :
    (∀ q ∈ indexKeys es, q.2 ≤ 127) ∧ indexKeys es ≠ [] ∧ ∀ q ∈ indexKeys es, hasNul q.1 = false := by
  unfold indexSteps at h
  split at h
  · obtain ⟨m, hm⟩ := h _ List.mem_cons_self; cases hm
  · unfold indexStepsK at h
    split at h
    · obtain ⟨m, hm⟩ := h _ List.mem_cons_self; cases hm
    · rename_i n hn
      split at h
      · split at h
        · obtain ⟨m, hm⟩ := h _ List.mem_cons_self; cases hm
        · obtain ⟨m, hm⟩ := h _ List.mem_cons_self; cases hm
      · rename_i hne
        split at h
        · obtain ⟨m, hm⟩ := h _ List.mem_cons_self; cases hm
        · rename_i hany
          refine ⟨wordIdTableSize_ok hn, ?_, ?_⟩
          · intro he; rw [he] at hne; simp at hne
          · intro q hq
            cases hq' : hasNul q.1 with
            | false => rfl
            | true => exact absurd (List.any_eq_true.2 ⟨q, hq, hq'⟩) hany

/-- strings and arrays of an accepted dictionary respect the format limits, no surface has more
than 127 entries, the index is not empty and no indexed surface contains U+0000 -/
def LimitsOk (d : Dict) : Prop :=
  (∀ e ∈ d.entries, EntryLimits e) ∧ (∀ q ∈ indexKeys d.entries, q.2 ≤ 127 ∧ hasNul q.1 = false) ∧
  indexKeys d.entries ≠ []

theorem compile_ok_limits {v : Variant} {b : Builder} {dl tl n : Nat} {limit : Option Nat} {d : Dict}
    (h : compile v b dl tl limit = .ok (n, d)) : LimitsOk d := by
  obtain ⟨_, _, he, hd⟩ := (compile_ok_iff ..).1 h
  have hw := exec_ok_writes he
  unfold compileSteps lexSteps at hw
  have hoff : Writes (offsetSteps b.lex.entries 0) := by
    intro s hs; apply hw; simp [hs]
  have hidx : Writes (indexSteps v b.lex.entries tl) := by
    intro s hs; apply hw; simp [hs]
  subst hd
  obtain ⟨i1, i2, i3⟩ := indexSteps_writes hidx
  refine ⟨fun e he' => ?_, fun q hq => ⟨i1 q hq, i3 q hq⟩, i2⟩
  obtain ⟨m, hm⟩ := offsetSteps_writes hoff e he'
  exact wordInfoSize_ok hm

end Build
