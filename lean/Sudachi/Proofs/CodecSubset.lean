import Sudachi.Proofs.Codec
import Sudachi.Proofs.Subset
/-!
# The C05 writer and the C11 reader speak about the same bytes

`Codec` (C05) transcribes the WRITER `write_word_info` (`encWordInfo`) and the full reader; `Subset` (C11) transcribes
the reader with a field subset (`parse_field!`, `skip_u16_string`, `skip_wid_array`, `skip_u32_array`) together with
its own description of the record (`Subset.encodeBytes`).  The two byte-level descriptions were written independently
(`[(n >>> 8) % 256 ||| 0x80, n % 256 &&& 0xff]` vs `[128 + n / 256, n % 256]`, `flatMap le16` vs `encUnits`, ...).
This file proves that they are the same bytes for every well-formed declared entry, so that the C11 theorems about
the subset parser apply to what the C05 writer writes.
-/
namespace CodecSubset
open Codec

theorem encLen_eq (n : Nat) (h : n ≤ 32767) : Subset.encLen n = Codec.encLen n := by
  unfold Subset.encLen Codec.encLen
  by_cases h1 : n < 127
  · simp [h1]
  · simp only [h1, if_false]
    have hq : n / 256 < 128 := by omega
    have e0 := (lor128 (n / 256) hq).1
    have e1 : (n >>> 8) % 256 = n / 256 := by
      rw [Nat.shiftRight_eq_div_pow]
      omega
    have e2 : n % 256 &&& 0xff = n % 256 := by
      have := Nat.and_two_pow_sub_one_eq_mod (n % 256) 8
      simp at this
      omega
    rw [e1, e2, e0]
    congr 1
    omega

theorem toUtf16_eq (s : List Nat) : Subset.toUtf16 s = Codec.units s := by
  induction s with
  | nil => rfl
  | cons c r ih =>
    simp only [Subset.toUtf16, Codec.units, List.flatMap_cons, Codec.encodeUtf16]
    simp only [Codec.units] at ih
    split <;> simp [ih]

theorem encUnits_eq (us : List Nat) (h : ∀ u ∈ us, u < 65536) : Subset.encUnits us = us.flatMap Codec.le16 := by
  induction us with
  | nil => rfl
  | cons u r ih =>
    have hu : u < 65536 := h u (by simp)
    have e : u / 256 % 256 = u / 256 := by omega
    simp only [Subset.encUnits, List.flatMap_cons, Codec.le16, ih (fun x hx => h x (by simp [hx])), e]
    simp

theorem encStr_eq (s : List Nat) (h : Codec.StrOk s) : Subset.encStr s = Codec.encStr s := by
  unfold Subset.encStr Codec.encStr
  rw [toUtf16_eq, encLen_eq _ h.2, encUnits_eq _ (units_lt s h.1)]

theorem encU16_eq (v : Nat) (h : v < 65536) : Subset.encU16 v = Codec.le16 v := by
  have e : v / 256 % 256 = v / 256 := by omega
  simp [Subset.encU16, Codec.le16, e]

theorem encU32_eq (v : Nat) (h : v < 4294967296) : Subset.encU32 v = Codec.le32 v := by
  have e : v / 16777216 % 256 = v / 16777216 := by omega
  simp [Subset.encU32, Codec.le32, e]

theorem encI32_eq (n : Nat) (h : n < 4294967296) : Subset.encI32 (Codec.u32ToI n) = Codec.le32 n := by
  unfold Subset.encI32 Codec.u32ToI
  by_cases h1 : n < 2147483648
  · have h2 : ¬ ((n : Int) < 0) := by omega
    simp only [h1, if_true, h2, if_false, Int.toNat_natCast]
    exact encU32_eq n h
  · have h2 : ((n : Int) - 4294967296 < 0) := by omega
    have h3 : ((n : Int) - 4294967296 + 4294967296).toNat = n := by omega
    simp only [h1, if_false, h2, if_true, h3]
    exact encU32_eq n h

theorem encBody_eq (a : List Nat) (h : ∀ x ∈ a, x < 4294967296) : Subset.encBody a = a.flatMap Codec.le32 := by
  induction a with
  | nil => rfl
  | cons v r ih =>
    simp only [Subset.encBody, List.flatMap_cons, encU32_eq v (h v (by simp)), ih (fun x hx => h x (by simp [hx]))]

theorem encArr_eq (a : List Nat) (h : ∀ x ∈ a, x < 4294967296) : Subset.encArr a = Codec.encU32s a := by
  simp only [Subset.encArr, Codec.encU32s, encBody_eq a h]

theorem strOk_to (s : List Nat) (h : Codec.StrOk s) : Subset.StrOk s := by
  refine ⟨?_, ?_⟩
  · intro c hc
    have := h.1 c hc
    unfold Codec.IsScalar at this
    unfold Subset.Scalar
    omega
  · rw [toUtf16_eq]
    have := h.2
    omega

theorem arrOk_to (a : List Nat) (h : Codec.U32s a) : Subset.ArrOk a := ⟨by have := h.1; omega, h.2⟩

/-- the stored word-info record of a declared entry, in the reader's record type: what `write_word_info` puts into
the ten fields (forms equal to the headword are stored empty) -/
def toSub (e : Entry) : Subset.WordInfoData :=
  { surface := e.headwordS, headWordLength := utf8LenStr e.surface, posId := e.pos,
    normalizedForm := stored e.normS e.headwordS, dictionaryFormWordId := u32ToI e.dicForm,
    readingForm := stored e.readingS e.headwordS, aUnitSplit := e.splitsA, bUnitSplit := e.splitsB,
    wordStructure := e.wordStructure, synonymGroupIds := e.synonyms }

theorem toSub_wf (e : Entry) (wf : e.WF) : Subset.WF (toSub e) where
  surface := strOk_to _ wf.hw
  headWordLength := by have := wf.key; simp only [toSub]; omega
  posId := wf.pos
  normalizedForm := strOk_to _ (strOk_elide _ _ wf.nf)
  dfLo := by have := wf.df; simp only [toSub, u32ToI]; split <;> omega
  dfHi := by have := wf.df; simp only [toSub, u32ToI]; split <;> omega
  readingForm := strOk_to _ (strOk_elide _ _ wf.rd)
  a := arrOk_to _ wf.a
  b := arrOk_to _ wf.b
  ws := arrOk_to _ wf.ws
  syn := arrOk_to _ wf.syn

/-- **the bridge**: the record the C05 writer writes for a well-formed entry is, byte for byte, the record the C11
reader theorems are stated about -/
theorem encodeBytes_toSub (e : Entry) (wf : e.WF) : Subset.encodeBytes (toSub e) = encWordInfo e := by
  simp only [Subset.encodeBytes, Subset.encode, Subset.encAll, List.foldr, toSub, List.append_nil, stored]
  rw [encStr_eq _ wf.hw, encLen_eq _ wf.key, encU16_eq _ wf.pos, encStr_eq _ (strOk_elide _ _ wf.nf),
    encI32_eq _ wf.df, encStr_eq _ (strOk_elide _ _ wf.rd), encArr_eq _ wf.a.2, encArr_eq _ wf.b.2,
    encArr_eq _ wf.ws.2, encArr_eq _ wf.syn.2]
  simp only [encWordInfo, List.append_assoc]

end CodecSubset
