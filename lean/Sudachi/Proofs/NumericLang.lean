import Sudachi.Proofs.Numeric
/-!
# The language of the numeral parser (C15, second clause)

* general facts about `feed` (prefixes), the classification of the characters by `charToNum`;
* the near-miss families F1–F4 rejected wherever they occur in a text (one repair switch each);
* the numeral AST (`Numeral`), its rendering, and the simulation invariant that shows
  "accepted by the repaired parser ⇒ rendering of a well-formed AST".
-/
namespace Numeric

variable (v : Variant)

/-! ## `feed` over a concatenation -/

theorem feed_append (a b : List Char) (p : Parser) (n : Nat) :
    p.feed v (a ++ b) n =
      match p.feed v a n with
      | (m, true, q) => q.feed v b m
      | r => r := by
  induction a generalizing p n with
  | nil => simp [Parser.feed]
  | cons c cs ih =>
    simp only [List.cons_append, Parser.feed]
    rcases h : p.append v c with ⟨ok, p'⟩
    cases ok
    · simp
    · simp only
      exact ih p' (n + 1)

/-- a text whose prefix is rejected is rejected -/
theorem feed_prefix_reject (a b : List Char) (p : Parser) (n m : Nat) (q : Parser)
    (h : p.feed v a n = (m, false, q)) : p.feed v (a ++ b) n = (m, false, q) := by
  rw [feed_append, h]

theorem feed_ok_length (a : List Char) (p : Parser) (n m : Nat) (q : Parser)
    (h : p.feed v a n = (m, true, q)) : m = n + a.length := by
  induction a generalizing p n with
  | nil =>
    simp only [Parser.feed, Prod.mk.injEq] at h
    simp [h.1]
  | cons c cs ih =>
    simp only [Parser.feed] at h
    rcases h' : p.append v c with ⟨ok, p'⟩
    rw [h'] at h
    cases ok
    · simp at h
    · simp only at h
      have := ih p' (n + 1) h
      simp; omega

/-- `parse` succeeds only if every character is accepted and `done()` holds -/
theorem parse_some_iff (text s : List Char) (h : parse v text = some s) :
    ∃ n q, Parser.new.feed v text 0 = (n, true, q) ∧ (q.done v).1 = true ∧
      (q.done v).2.getNormalized v = some s := by
  unfold parse verifParse at h
  rcases hf : Parser.new.feed v text 0 with ⟨n, ok, q⟩
  rw [hf] at h
  cases ok
  · simp only at h
    cases hb : q.anyBad <;> simp [hb] at h
  · refine ⟨n, q, rfl, ?_⟩
    simp only at h
    rcases hd : q.done v with ⟨d, q'⟩
    rw [hd] at h
    simp only at h
    cases hb : q'.anyBad
    · cases hg : q'.getNormalized v with
      | none => simp [hb, hg] at h
      | some s' =>
        cases d
        · simp [hb, hg] at h
        · simp [hb, hg] at h
          simp [h]
    · simp [hb] at h

/-- the other direction of `parse_none_of_reject`: a rejected prefix -/
theorem parse_none_of_prefix_reject (a b : List Char) (n : Nat) (q : Parser)
    (hf : Parser.new.feed v a 0 = (n, false, q)) : parse v (a ++ b) = none :=
  parse_none_of_reject v _ _ _ (feed_prefix_reject v a b _ _ _ _ hf)

/-- to show that `pre ++ rest` is not accepted it is enough to look at the states `q` that accept `pre` -/
theorem parse_none_of_after (pre rest : List Char)
    (h : ∀ n q, Parser.new.feed v pre 0 = (n, true, q) → ∃ m q', q.feed v rest n = (m, false, q')) :
    parse v (pre ++ rest) = none := by
  rcases hf : Parser.new.feed v pre 0 with ⟨n, ok, q⟩
  cases ok
  · exact parse_none_of_prefix_reject v _ _ _ _ hf
  · obtain ⟨m, q', hq⟩ := h n q hf
    apply parse_none_of_reject v _ m q'
    rw [feed_append, hf]
    exact hq

/-! ## the characters the parser knows -/

inductive SmallU | ten | hundred | thousand
deriving DecidableEq, Repr
inductive LargeU | man | oku | cho
deriving DecidableEq, Repr
def SmallU.char : SmallU → Char | .ten => '十' | .hundred => '百' | .thousand => '千'
def SmallU.exp : SmallU → Nat | .ten => 1 | .hundred => 2 | .thousand => 3
def LargeU.char : LargeU → Char | .man => '万' | .oku => '億' | .cho => '兆'
def LargeU.exp : LargeU → Nat | .man => 4 | .oku => 8 | .cho => 12

theorem charToNum_small (u : SmallU) : charToNum u.char = some (-(u.exp : Int)) := by cases u <;> decide
theorem charToNum_large (u : LargeU) : charToNum u.char = some (-(u.exp : Int)) := by cases u <;> decide

theorem ascii_digit (c : Char) (h : '0' ≤ c ∧ c ≤ '9') :
    ∃ g : Dg, g.glyph = c ∧ Int.ofNat (c.toNat - 48) = Int.ofNat g.d.val := by
  obtain ⟨h1, h2⟩ := h
  rw [Char.le_def, UInt32.le_iff_toNat_le] at h1 h2
  have a1 : 48 ≤ c.toNat := h1
  have a2 : c.toNat ≤ 57 := h2
  refine ⟨⟨false, ⟨c.toNat - 48, by omega⟩⟩, ?_, rfl⟩
  simp only [Dg.glyph, SN.digitChar]
  have : 48 + (c.toNat - 48) = c.toNat := by omega
  simp [this, Char.ofNat_toNat]

/-- what `CHAR_TO_NUM` knows: digits (both scripts), the three small and the three large units -/
theorem charToNum_cases (c : Char) (n : Int) (h : charToNum c = some n) :
    (∃ g : Dg, g.glyph = c ∧ n = Int.ofNat g.d.val) ∨ (∃ u : SmallU, u.char = c ∧ n = -(u.exp : Int)) ∨
    (∃ u : LargeU, u.char = c ∧ n = -(u.exp : Int)) := by
  by_cases h0 : c = '〇'
  · subst h0; rw [show charToNum '〇' = some 0 from by decide] at h; cases h; exact Or.inl ⟨⟨true, 0⟩, rfl, rfl⟩
  by_cases h1 : c = '一'
  · subst h1; rw [show charToNum '一' = some 1 from by decide] at h; cases h; exact Or.inl ⟨⟨true, 1⟩, rfl, rfl⟩
  by_cases h2 : c = '二'
  · subst h2; rw [show charToNum '二' = some 2 from by decide] at h; cases h; exact Or.inl ⟨⟨true, 2⟩, rfl, rfl⟩
  by_cases h3 : c = '三'
  · subst h3; rw [show charToNum '三' = some 3 from by decide] at h; cases h; exact Or.inl ⟨⟨true, 3⟩, rfl, rfl⟩
  by_cases h4 : c = '四'
  · subst h4; rw [show charToNum '四' = some 4 from by decide] at h; cases h; exact Or.inl ⟨⟨true, 4⟩, rfl, rfl⟩
  by_cases h5 : c = '五'
  · subst h5; rw [show charToNum '五' = some 5 from by decide] at h; cases h; exact Or.inl ⟨⟨true, 5⟩, rfl, rfl⟩
  by_cases h6 : c = '六'
  · subst h6; rw [show charToNum '六' = some 6 from by decide] at h; cases h; exact Or.inl ⟨⟨true, 6⟩, rfl, rfl⟩
  by_cases h7 : c = '七'
  · subst h7; rw [show charToNum '七' = some 7 from by decide] at h; cases h; exact Or.inl ⟨⟨true, 7⟩, rfl, rfl⟩
  by_cases h8 : c = '八'
  · subst h8; rw [show charToNum '八' = some 8 from by decide] at h; cases h; exact Or.inl ⟨⟨true, 8⟩, rfl, rfl⟩
  by_cases h9 : c = '九'
  · subst h9; rw [show charToNum '九' = some 9 from by decide] at h; cases h; exact Or.inl ⟨⟨true, 9⟩, rfl, rfl⟩
  by_cases h10 : c = '十'
  · subst h10; rw [show charToNum '十' = some (-1) from by decide] at h; cases h; exact Or.inr (Or.inl ⟨.ten, rfl, rfl⟩)
  by_cases h11 : c = '百'
  · subst h11; rw [show charToNum '百' = some (-2) from by decide] at h; cases h; exact Or.inr (Or.inl ⟨.hundred, rfl, rfl⟩)
  by_cases h12 : c = '千'
  · subst h12; rw [show charToNum '千' = some (-3) from by decide] at h; cases h; exact Or.inr (Or.inl ⟨.thousand, rfl, rfl⟩)
  by_cases h13 : c = '万'
  · subst h13; rw [show charToNum '万' = some (-4) from by decide] at h; cases h; exact Or.inr (Or.inr ⟨.man, rfl, rfl⟩)
  by_cases h14 : c = '億'
  · subst h14; rw [show charToNum '億' = some (-8) from by decide] at h; cases h; exact Or.inr (Or.inr ⟨.oku, rfl, rfl⟩)
  by_cases h15 : c = '兆'
  · subst h15; rw [show charToNum '兆' = some (-12) from by decide] at h; cases h; exact Or.inr (Or.inr ⟨.cho, rfl, rfl⟩)
  unfold charToNum at h
  rw [if_neg h0, if_neg h1, if_neg h2, if_neg h3, if_neg h4, if_neg h5, if_neg h6, if_neg h7, if_neg h8, if_neg h9, if_neg h10, if_neg h11, if_neg h12, if_neg h13, if_neg h14, if_neg h15] at h
  by_cases hd : '0' ≤ c ∧ c ≤ '9'
  · rw [if_pos hd] at h; cases h
    obtain ⟨g, hg, hn⟩ := ascii_digit c hd
    exact Or.inl ⟨g, hg, hn⟩
  · rw [if_neg hd] at h; cases h
/-! ## `StringNumber::add` in one piece -/

theorem normalizeScale_sig (s : SN) : s.normalizeScale.sig = s.sig := by
  unfold SN.normalizeScale
  split
  · split
    · rfl
    · simp only []
      split <;> rfl
  · rfl

theorem isZero_iff (s : SN) : s.isZero = true ↔ s.sig = [] := by
  simp [SN.isZero]

/-- `int_length` of a normalised number -/
def SN.intLen (s : SN) : Nat :=
  match s.point with
  | some p => p
  | none => s.sig.length + s.scale

theorem intLength_eq (s : SN) : s.intLength = (s.normalizeScale, s.normalizeScale.intLen) := by
  unfold SN.intLength SN.intLen
  simp only
  split <;> simp_all

/-- the sum of two non-zero numbers, in one piece -/
def SN.addNZ (a b : SN) : Bool × SN × SN :=
  let a' := a.normalizeScale
  let b' := b.normalizeScale
  let fill := a'.scale - b'.intLen
  if b'.intLen ≤ a'.scale then
    (true, { a' with sig := a'.sig ++ List.replicate fill '0' ++ b'.sig, scale := b'.scale,
                     point := match b'.point with
                       | some p => some (a'.sig.length + fill + p)
                       | none => a'.point }, b')
  else (false, a', b')

theorem add_nz (a b : SN) (ha : a.sig ≠ []) (hb : b.sig ≠ []) : a.add b = a.addNZ b := by
  have ha' : a.isZero = false := by
    cases h : a.isZero
    · rfl
    · exact absurd ((isZero_iff a).1 h) ha
  have hb' : b.isZero = false := by
    cases h : b.isZero
    · rfl
    · exact absurd ((isZero_iff b).1 h) hb
  unfold SN.add SN.addNZ
  simp only [ha', hb', intLength_eq, Bool.false_eq_true, if_false, ge_iff_le]
  split
  · cases hp : b.normalizeScale.point <;> simp [SN.fillZero]
  · rfl

theorem add_zero_right (a b : SN) (hb : b.sig = []) : a.add b = (true, a, b) := by
  unfold SN.add
  simp [SN.isZero, hb]

theorem add_zero_left (a b : SN) (ha : a.sig = []) (hb : b.sig ≠ []) :
    a.add b = (true, { a with sig := b.sig, scale := b.scale, point := b.point }, b) := by
  have hb' : b.isZero = false := by
    cases h : b.isZero
    · rfl
    · exact absurd ((isZero_iff b).1 h) hb
  unfold SN.add
  simp [SN.isZero, ha]
  intro h; exact absurd h hb

theorem add_sig_nil_iff (a b : SN) (h : (a.add b).1 = true) :
    (a.add b).2.1.sig = [] ↔ (a.sig = [] ∧ b.sig = []) := by
  by_cases hb : b.sig = []
  · rw [add_zero_right a b hb]; simp [hb]
  · by_cases ha : a.sig = []
    · rw [add_zero_left a b ha hb]; simp [hb]
    · rw [add_nz a b ha hb] at h ⊢
      unfold SN.addNZ at h ⊢
      simp only at h ⊢
      split
      · simp [normalizeScale_sig, ha, hb]
      · rename_i hh; simp [hh] at h
/-! ## positions: what a `StringNumber` occupies and leaves free -/

/-- number of fraction digits held -/
def SN.fracLen (s : SN) : Nat :=
  match s.point with
  | some p => s.sig.length - p
  | none => 0

/-- the decimal positions below `avail` are free (negative: the number has fraction digits left) -/
def SN.avail (s : SN) : Int := (s.scale : Int) - (s.fracLen : Int)

/-- the decimal positions below `hi` are occupied by the written integer digits -/
def SN.hi (s : SN) : Int :=
  match s.point with
  | some p => (p : Int) + s.scale
  | none => (s.sig.length : Int) + s.scale

/-- a non-zero number whose point, if any, stands after at least one digit and inside the significand -/
def SN.Good (s : SN) : Prop := s.sig ≠ [] ∧ ∀ p, s.point = some p → 1 ≤ p ∧ p ≤ s.sig.length

theorem good_hi_pos (s : SN) (h : s.Good) : 1 ≤ s.hi := by
  obtain ⟨h1, h2⟩ := h
  unfold SN.hi
  cases hp : s.point with
  | none =>
    simp only
    have : 0 < s.sig.length := List.length_pos_iff.mpr h1
    omega
  | some p =>
    have := (h2 p hp).1
    simp only
    omega

theorem normalize_none (s : SN) (hp : s.point = none) : s.normalizeScale = s := by
  unfold SN.normalizeScale; rw [hp]

theorem normalize_some_gt (s : SN) (p : Nat) (hp : s.point = some p) (hle : p ≤ s.sig.length)
    (h : s.sig.length - p > s.scale) : s.normalizeScale = { s with point := some (p + s.scale), scale := 0 } := by
  unfold SN.normalizeScale
  have e1 : ¬ (p > s.sig.length) := by omega
  simp only [hp, e1, if_false, h, if_true]

theorem normalize_some_le (s : SN) (p : Nat) (hp : s.point = some p) (hle : p ≤ s.sig.length)
    (h : ¬ s.sig.length - p > s.scale) :
    s.normalizeScale = { s with scale := s.scale - (s.sig.length - p), point := none } := by
  unfold SN.normalizeScale
  have e1 : ¬ (p > s.sig.length) := by omega
  simp only [hp, e1, if_false, h]

/-- `normalize_scale` keeps `hi` and `avail`; afterwards the scale is the free positions (if any) -/
theorem normalize_good (s : SN) (h : s.Good) :
    s.normalizeScale.Good ∧ s.normalizeScale.hi = s.hi ∧ s.normalizeScale.avail = s.avail ∧
    (s.normalizeScale.intLen : Int) = s.hi ∧ (s.normalizeScale.scale : Int) = max s.avail 0 ∧
    (0 < s.normalizeScale.scale → s.normalizeScale.point = none) ∧ s.normalizeScale.sig = s.sig := by
  obtain ⟨h1, h2⟩ := h
  cases hp : s.point with
  | none =>
    rw [normalize_none s hp]
    refine ⟨⟨h1, h2⟩, rfl, rfl, ?_, ?_, fun _ => hp, rfl⟩
    · simp [SN.intLen, SN.hi, hp]
    · simp only [SN.avail, SN.fracLen, hp]; omega
  | some p =>
    obtain ⟨p1, p2⟩ := h2 p hp
    by_cases hs : s.sig.length - p > s.scale
    · rw [normalize_some_gt s p hp p2 hs]
      refine ⟨⟨h1, ?_⟩, ?_, ?_, ?_, ?_, ?_, rfl⟩
      · intro q hq
        simp only [Option.some.injEq] at hq
        subst hq
        simp only
        omega
      · simp [SN.hi, hp]
      · simp only [SN.avail, SN.fracLen, hp]; omega
      · simp [SN.intLen, SN.hi, hp]
      · simp only [SN.avail, SN.fracLen, hp]; omega
      · intro h0; simp at h0
    · rw [normalize_some_le s p hp p2 hs]
      refine ⟨⟨h1, by simp⟩, ?_, ?_, ?_, ?_, fun _ => rfl, rfl⟩
      · simp only [SN.hi, hp]; omega
      · simp only [SN.avail, SN.fracLen, hp]; omega
      · simp only [SN.intLen, SN.hi, hp]; omega
      · simp only [SN.avail, SN.fracLen, hp]; omega

/-- `shift_scale` of a non-zero number moves both bounds up -/
theorem shiftScale_good (s : SN) (e : Nat) (h : s.Good) :
    (s.shiftScale e).Good ∧ (s.shiftScale e).hi = s.hi + e ∧ (s.shiftScale e).avail = s.avail + e := by
  have hz : s.isZero = false := by
    cases hh : s.isZero
    · rfl
    · exact absurd ((isZero_iff s).1 hh) h.1
  unfold SN.shiftScale
  simp only [hz, Bool.false_eq_true, if_false]
  refine ⟨⟨h.1, h.2⟩, ?_, ?_⟩
  · unfold SN.hi
    cases hp : s.point <;> simp only <;> omega
  · simp only [SN.avail, SN.fracLen]
    cases hp : s.point <;> simp only <;> omega

/-- `shift_scale` of zero writes the implicit coefficient 1 -/
theorem shiftScale_zero (s : SN) (e : Nat) (h1 : s.sig = []) (h2 : s.point = none) (h3 : s.scale = 0) :
    (s.shiftScale e).Good ∧ (s.shiftScale e).hi = 1 + e ∧ (s.shiftScale e).avail = e := by
  unfold SN.shiftScale
  simp only [SN.isZero, h1, List.isEmpty_nil, if_true, List.nil_append]
  refine ⟨⟨by simp, by simp [h2]⟩, ?_, ?_⟩
  · simp [SN.hi, h2, h3]
  · simp [SN.avail, SN.fracLen, h2, h3]

/-- the sum of two non-zero numbers succeeds exactly when the second fits below the first; it
keeps the upper bound of the first and the free positions of the second -/
theorem add_good (a b : SN) (ha : a.Good) (hb : b.Good) :
    ((a.add b).1 = true ↔ b.hi ≤ a.avail) ∧
    ((a.add b).1 = true → (a.add b).2.1.Good ∧ (a.add b).2.1.hi = a.hi ∧ (a.add b).2.1.avail = b.avail) := by
  rw [add_nz a b ha.1 hb.1]
  obtain ⟨ga, ha1, ha2, _, ha4, ha5, ha6⟩ := normalize_good a ha
  obtain ⟨gb, hb1, hb2, hb3, _, _, hb6⟩ := normalize_good b hb
  have hbpos := good_hi_pos b hb
  unfold SN.addNZ
  simp only
  by_cases hle : b.normalizeScale.intLen ≤ a.normalizeScale.scale
  · simp only [hle, if_true, true_iff, true_implies]
    have hsc : 0 < a.normalizeScale.scale := by omega
    have hpa := ha5 hsc
    refine ⟨by omega, ?_⟩
    cases hpb : b.normalizeScale.point with
    | none =>
      simp only
      refine ⟨⟨by simp [ga.1], by simp [hpa]⟩, ?_, ?_⟩
      · rw [← ha1]
        simp only [SN.hi, hpa, List.length_append, List.length_replicate]
        have : b.normalizeScale.intLen = b.normalizeScale.sig.length + b.normalizeScale.scale := by
          simp [SN.intLen, hpb]
        omega
      · rw [← hb2]
        simp [SN.avail, SN.fracLen, hpa, hpb]
    | some p =>
      obtain ⟨q1, q2⟩ := gb.2 p hpb
      simp only
      refine ⟨⟨by simp [ga.1], ?_⟩, ?_, ?_⟩
      · intro q hq
        simp only [Option.some.injEq] at hq
        subst hq
        simp only [List.length_append, List.length_replicate]
        omega
      · rw [← ha1]
        simp only [SN.hi, hpa]
        have e1 : b.normalizeScale.intLen = p := by simp [SN.intLen, hpb]
        have e2 : b.hi = (p : Int) + b.normalizeScale.scale := by rw [← hb1]; simp [SN.hi, hpb]
        omega
      · rw [← hb2]
        simp only [SN.avail, SN.fracLen, hpb, List.length_append, List.length_replicate]
        omega
  · simp only [hle, if_false, Bool.false_eq_true, false_iff, false_implies, and_true]
    omega
/-- a chain of terms, each `(hi, avail)`: every term lies below the free positions of the one before -/
def Fit : List (Int × Int) → Prop
  | [] => True
  | [_] => True
  | a :: b :: l => b.1 ≤ a.2 ∧ Fit (b :: l)

/-- upper bound of the first term and free positions of the last -/
def spanOf (l : List (Int × Int)) : Option (Int × Int) :=
  match l.head?, l.getLast? with
  | some a, some b => some (a.1, b.2)
  | _, _ => none

theorem fit_snoc (l : List (Int × Int)) (x : Int × Int) :
    Fit (l ++ [x]) ↔ Fit l ∧ ∀ y, l.getLast? = some y → x.1 ≤ y.2 := by
  induction l with
  | nil => simp [Fit]
  | cons a l ih =>
    cases l with
    | nil => simp [Fit]
    | cons b l =>
      simp only [List.cons_append, Fit] at ih ⊢
      rw [ih]
      simp only [List.getLast?_cons_cons]
      constructor
      · rintro ⟨h1, h2, h3⟩; exact ⟨⟨h1, h2⟩, h3⟩
      · rintro ⟨⟨h1, h2⟩, h3⟩; exact ⟨h1, h2, h3⟩

theorem spanOf_nil : spanOf [] = none := rfl

theorem spanOf_single (x : Int × Int) : spanOf [x] = some x := by
  simp [spanOf]

theorem spanOf_snoc (l : List (Int × Int)) (x : Int × Int) (h a : Int) (hl : spanOf l = some (h, a)) :
    spanOf (l ++ [x]) = some (h, x.2) ∧ l.getLast? = some (l.getLast?.getD x) ∧ (l.getLast?.getD x).2 = a := by
  cases l with
  | nil => simp [spanOf] at hl
  | cons y l =>
    unfold spanOf at hl ⊢
    simp only [List.head?_cons, List.cons_append] at hl ⊢
    cases hg : (y :: l).getLast? with
    | none => simp at hg
    | some z =>
      rw [hg] at hl
      simp only [Option.some.injEq, Prod.mk.injEq] at hl
      have : (y :: (l ++ [x])).getLast? = some x := by
        rw [← List.cons_append, List.getLast?_append]; simp
      rw [this]
      simp [hl.1, hl.2]

theorem spanOf_eq_none (l : List (Int × Int)) : spanOf l = none ↔ l = [] := by
  cases l with
  | nil => simp [spanOf]
  | cons y l =>
    unfold spanOf
    cases hg : (y :: l).getLast? with
    | none => simp at hg
    | some z => simp

/-- an accumulator (`subtotal`, `total`) against the chain of the terms added so far -/
def AccInv (acc : SN) (spans : List (Int × Int)) : Prop :=
  Fit spans ∧ (spans = [] → acc.sig = []) ∧ (spans ≠ [] → acc.Good ∧ spanOf spans = some (acc.hi, acc.avail))

theorem acc_add (acc x : SN) (spans : List (Int × Int)) (hx : x.Good) (h : AccInv acc spans)
    (hok : (acc.add x).1 = true) : AccInv (acc.add x).2.1 (spans ++ [(x.hi, x.avail)]) := by
  obtain ⟨h1, h2, h3⟩ := h
  by_cases hs : spans = []
  · subst hs
    have ha := h2 rfl
    rw [add_zero_left acc x ha hx.1]
    refine ⟨by simp [Fit], by simp, fun _ => ⟨⟨hx.1, hx.2⟩, ?_⟩⟩
    simp [spanOf_single, SN.hi, SN.avail, SN.fracLen]
  · obtain ⟨g, hsp⟩ := h3 hs
    obtain ⟨k1, k2⟩ := add_good acc x g hx
    obtain ⟨r1, r2, r3⟩ := k2 hok
    obtain ⟨s1, s2, s3⟩ := spanOf_snoc spans (x.hi, x.avail) _ _ hsp
    refine ⟨?_, by simp, fun _ => ⟨r1, ?_⟩⟩
    · rw [fit_snoc]
      refine ⟨h1, ?_⟩
      intro y hy
      rw [s2] at hy
      simp only [Option.some.injEq] at hy
      rw [← hy, s3]
      exact k1.1 hok
    · rw [s1, r2, r3]
/-! ## what an accepted character tells about the state before and leaves behind -/

theorem small_ne (u : SmallU) : u.char ≠ '.' ∧ u.char ≠ ',' := by cases u <;> decide
theorem small_isSmall (u : SmallU) : isSmallUnit (-(u.exp : Int)) = true ∧ decide (-(u.exp : Int) < 0) = true := by
  cases u <;> decide
theorem clear_fields (s : SN) : s.clear.sig = [] ∧ s.clear.point = none ∧ s.clear.scale = 0 ∧ s.clear.allZero = true := by
  simp [SN.clear]

theorem shiftScale_sig_ne (s : SN) (i : Nat) : (s.shiftScale i).sig ≠ [] := by
  unfold SN.shiftScale
  simp only
  by_cases h : s.isZero = true
  · simp [h]
  · simp only [h]
    intro h'
    exact h ((isZero_iff s).2 h')

/-- what an accepted small unit tells about the state before and leaves behind -/
theorem append_small_ok (p p' : Parser) (u : SmallU) (h : p.append v u.char = (true, p')) :
    (v.f2 = true → p.hasHangingPoint = false) ∧
    (v.f3 = true → p.hasComma = true → p.digitLength = 3) ∧
    p'.isFirstDigit = true ∧ p'.hasComma = false ∧ p'.hasHangingPoint = p.hasHangingPoint ∧
    p'.digitLength = 0 ∧ p'.tmp.sig = [] ∧ p'.tmp.point = none ∧ p'.tmp.scale = 0 ∧ p'.tmp.allZero = true ∧
    p'.subtotal.sig ≠ [] ∧ p'.lastLarge = p.lastLarge ∧ p'.total = p.total ∧
    p'.hasUnit = (v.f5 || p.hasUnit) ∧ p'.err = p.err ∧
    (p.subtotal.add (p.tmp.shiftScale u.exp)).1 = true ∧
    p'.subtotal = (p.subtotal.add (p.tmp.shiftScale u.exp)).2.1 := by
  have hexp : (-(-(u.exp : Int))).toNat = u.exp := by simp
  obtain ⟨n1, n2⟩ := small_ne u
  obtain ⟨s1, s2⟩ := small_isSmall u
  unfold Parser.append at h
  simp only [n1, n2, if_false, charToNum_small u, s1, s2, Bool.and_true, if_true] at h
  split at h
  · simp at h
  · rename_i hf2
    split at h
    · simp at h
    · rename_i hf3
      rcases hadd : p.subtotal.add (p.tmp.shiftScale (-(-(u.exp : Int))).toNat) with ⟨ok, sub, tmp⟩
      rw [hadd] at h
      cases ok
      · simp at h
      · simp only [Bool.not_true, Bool.false_eq_true, if_false, Prod.mk.injEq, true_and] at h
        subst h
        have hs : sub.sig ≠ [] := by
          have := add_sig_nil_iff p.subtotal (p.tmp.shiftScale (-(-(u.exp : Int))).toNat) (by rw [hadd])
          rw [hadd] at this
          simp only at this
          intro hnil
          exact shiftScale_sig_ne _ _ (this.1 hnil).2
        rw [hexp] at hadd
        refine ⟨?_, ?_, rfl, rfl, rfl, rfl, by simp [SN.clear], by simp [SN.clear], by simp [SN.clear],
          by simp [SN.clear], hs, rfl, rfl, rfl, rfl, by rw [hadd], by rw [hadd]⟩
        · intro hv; simpa [hv] using hf2
        · intro hv hc; simpa [hv, hc] using hf3
theorem large_ne (u : LargeU) : u.char ≠ '.' ∧ u.char ≠ ',' := by cases u <;> decide
theorem large_isLarge (u : LargeU) : isSmallUnit (-(u.exp : Int)) = false ∧ isLargeUnit (-(u.exp : Int)) = true ∧
    decide (-(u.exp : Int) < 0) = true := by
  cases u <;> decide

/-- what an accepted large unit tells about the state before and leaves behind -/
theorem append_large_ok (p p' : Parser) (u : LargeU) (h : p.append v u.char = (true, p')) :
    (v.f2 = true → p.hasHangingPoint = false) ∧
    (v.f3 = true → p.hasComma = true → p.digitLength = 3) ∧
    (v.f4 = true → ∀ last, p.lastLarge = some last → last < -(u.exp : Int)) ∧
    ¬ (p.subtotal.sig = [] ∧ p.tmp.sig = []) ∧
    p'.isFirstDigit = true ∧ p'.hasComma = false ∧ p'.hasHangingPoint = p.hasHangingPoint ∧
    p'.digitLength = 0 ∧ p'.tmp.sig = [] ∧ p'.tmp.point = none ∧ p'.tmp.scale = 0 ∧ p'.tmp.allZero = true ∧
    p'.subtotal.sig = [] ∧ p'.lastLarge = (if v.f4 then some (-(u.exp : Int)) else p.lastLarge) ∧
    p'.hasUnit = (v.f5 || p.hasUnit) ∧ p'.err = p.err ∧
    (p.subtotal.add p.tmp).1 = true ∧
    (p.total.add ((p.subtotal.add p.tmp).2.1.shiftScale u.exp)).1 = true ∧
    p'.total = (p.total.add ((p.subtotal.add p.tmp).2.1.shiftScale u.exp)).2.1 := by
  have hexp : (-(-(u.exp : Int))).toNat = u.exp := by simp
  obtain ⟨n1, n2⟩ := large_ne u
  obtain ⟨s1, s2, s3⟩ := large_isLarge u
  unfold Parser.append at h
  simp only [n1, n2, if_false, charToNum_large u, s1, s2, s3, Bool.and_true, if_true, Bool.false_eq_true] at h
  split at h
  · simp at h
  · rename_i hf2
    split at h
    · simp at h
    · rename_i hf3
      split at h
      · simp at h
      · rename_i hf4
        rcases hadd : p.subtotal.add p.tmp with ⟨ok, sub, tmp⟩
        rw [hadd] at h
        simp only at h
        split at h
        · simp at h
        · rename_i hok
          simp only [Bool.or_eq_true, Bool.not_eq_true', not_or, Bool.not_eq_false] at hok
          obtain ⟨hok1, hok2⟩ := hok
          rcases hadd2 : p.total.add (sub.shiftScale (-(-(u.exp : Int))).toNat) with ⟨ok2, tot, sub2⟩
          rw [hadd2] at h
          cases ok2
          · simp at h
          · simp only [Bool.not_true, Bool.false_eq_true, if_false, Prod.mk.injEq, true_and] at h
            subst h
            have hs : ¬ (p.subtotal.sig = [] ∧ p.tmp.sig = []) := by
              have := add_sig_nil_iff p.subtotal p.tmp (by rw [hadd]; exact hok1)
              rw [hadd] at this
              simp only at this
              intro hnil
              have := this.2 hnil
              simp [SN.isZero, this] at hok2
            rw [hexp] at hadd2
            refine ⟨?_, ?_, ?_, hs, rfl, rfl, rfl, rfl, by simp [SN.clear], by simp [SN.clear], by simp [SN.clear],
              by simp [SN.clear], by simp [SN.clear], rfl, rfl, rfl, hok1,
              by simp only; rw [hadd2], by simp only; rw [hadd2]⟩
            · intro hv; simpa [hv] using hf2
            · intro hv hc; simpa [hv, hc] using hf3
            · intro hv last hl
              simp only [hv, Parser.notSmaller, hl, Bool.true_and, decide_eq_true_eq] at hf4
              omega
theorem append_comma_ok (p p' : Parser) (h : p.append v ',' = (true, p')) :
    p' = p.pushComma ∧ p.checkComma v = true := by
  cases hc : p.checkComma v
  · rw [append_comma_reject v p hc] at h; simp at h
  · rw [append_comma v p hc] at h
    simp only [Prod.mk.injEq, true_and] at h
    exact ⟨h.symm, rfl⟩

theorem append_point_ok (p p' : Parser) (h : p.append v '.' = (true, p')) :
    p' = p.pushPoint ∧ p.isFirstDigit = false ∧ (p.hasComma = true → p.checkComma v = true) ∧
    p.tmp.scale = 0 ∧ p.tmp.point = none := by
  unfold Parser.append at h
  simp only [if_true] at h
  split at h
  · simp at h
  · rename_i h1
    split at h
    · simp at h
    · rename_i h2
      unfold SN.setPoint at h
      split at h
      · rename_i h3
        simp only [Bool.not_true, Bool.false_eq_true, if_false, Prod.mk.injEq, true_and] at h
        simp only [Bool.and_eq_true, beq_iff_eq, Option.isNone_iff_eq_none] at h3
        refine ⟨by rw [← h]; rfl, by simpa using h1, ?_, h3.1, h3.2⟩
        intro hc
        simp only [Parser.checkComma] at h2 ⊢
        simp only [hc] at h2 ⊢
        cases h' : (if p.isFirstDigit = true then false
            else if (v.f1 && p.tmp.point.isSome) = true then false
            else if (!true) = true then decide (p.digitLength ≤ 3) && !p.tmp.isZero && !p.tmp.allZero
            else p.digitLength == 3)
        · rw [h'] at h2; simp at h2
        · rfl
      · simp at h
/-! ## the near-miss families F1–F4, wherever they occur -/

/-- a unit character: one of 十 百 千 万 億 兆 -/
def IsUnit (c : Char) : Prop := (∃ u : SmallU, u.char = c) ∨ (∃ u : LargeU, u.char = c)

/-- F1 family, anywhere in a text: after a point and fraction digits no separator is accepted -/
theorem reject_comma_in_fraction_any (hv : v.f1 = true) (pre : List Char) (fs : List Dg) (post : List Char) :
    parse v (pre ++ '.' :: (renderDigits fs ++ ',' :: post)) = none := by
  apply parse_none_of_after
  intro n q _
  simp only [Parser.feed]
  rcases h1 : q.append v '.' with ⟨ok, q1⟩
  cases ok
  · exact ⟨_, _, rfl⟩
  · simp only
    obtain ⟨e1, _, _, _, _⟩ := append_point_ok v q q1 h1
    rw [feed_digits_append]
    simp only [Parser.feed]
    have hp : (q1.pushDigits fs).tmp.point.isSome = true := by
      rw [(pushDigits_tmp_scale fs q1).2.1, e1]; rfl
    have hc : (q1.pushDigits fs).checkComma v = false := by
      simp [Parser.checkComma, hv, hp]
    rw [append_comma_reject v _ hc]
    exact ⟨_, _, rfl⟩

theorem append_unit_hanging (hv : v.f2 = true) (p : Parser) (c : Char) (hc : IsUnit c)
    (hh : p.hasHangingPoint = true) : (p.append v c).1 = false := by
  rcases h : p.append v c with ⟨ok, p'⟩
  cases ok
  · rfl
  · exfalso
    rcases hc with ⟨u, rfl⟩ | ⟨u, rfl⟩
    · have := (append_small_ok v p p' u h).1 hv
      rw [hh] at this; cases this
    · have := (append_large_ok v p p' u h).1 hv
      rw [hh] at this; cases this

/-- F2 family, anywhere in a text: a unit directly after a point is rejected -/
theorem reject_point_before_unit_any (hv : v.f2 = true) (pre : List Char) (c : Char) (hc : IsUnit c)
    (post : List Char) : parse v (pre ++ '.' :: c :: post) = none := by
  apply parse_none_of_after
  intro n q _
  simp only [Parser.feed]
  rcases h1 : q.append v '.' with ⟨ok, q1⟩
  cases ok
  · exact ⟨_, _, rfl⟩
  · simp only
    obtain ⟨e1, _, _, _, _⟩ := append_point_ok v q q1 h1
    have := append_unit_hanging v hv q1 c hc (by rw [e1]; rfl)
    rcases h2 : q1.append v c with ⟨ok2, q2⟩
    rw [h2] at this
    simp only at this
    subst this
    exact ⟨_, _, rfl⟩

theorem append_unit_open_group (hv : v.f3 = true) (p : Parser) (c : Char) (hc : IsUnit c)
    (h1 : p.hasComma = true) (h2 : p.digitLength ≠ 3) : (p.append v c).1 = false := by
  rcases h : p.append v c with ⟨ok, p'⟩
  cases ok
  · rfl
  · exfalso
    rcases hc with ⟨u, rfl⟩ | ⟨u, rfl⟩
    · exact h2 ((append_small_ok v p p' u h).2.1 hv h1)
    · exact h2 ((append_large_ok v p p' u h).2.1 hv h1)

/-- F3 family, anywhere in a text: a unit directly after a separator group that does not have
exactly three digits is rejected -/
theorem reject_open_group_before_unit_any (hv : v.f3 = true) (pre : List Char) (g : List Dg)
    (hg : g.length ≠ 3) (c : Char) (hc : IsUnit c) (post : List Char) :
    parse v (pre ++ ',' :: (renderDigits g ++ c :: post)) = none := by
  apply parse_none_of_after
  intro n q _
  simp only [Parser.feed]
  rcases h1 : q.append v ',' with ⟨ok, q1⟩
  cases ok
  · exact ⟨_, _, rfl⟩
  · simp only
    obtain ⟨e1, _⟩ := append_comma_ok v q q1 h1
    rw [feed_digits_append]
    simp only [Parser.feed]
    obtain ⟨_, _, _, _, _, s6, _, s8⟩ := pushDigits_tmp_scale g q1
    have := append_unit_open_group v hv (q1.pushDigits g) c hc (by rw [s6, e1]; rfl)
      (by rw [s8, e1]; simpa [Parser.pushComma] using hg)
    rcases h2 : (q1.pushDigits g).append v c with ⟨ok2, q2⟩
    rw [h2] at this
    simp only at this
    subst this
    exact ⟨_, _, rfl⟩
theorem append_unknown (p : Parser) (c : Char) (h1 : c ≠ '.') (h2 : c ≠ ',') (h3 : charToNum c = none) :
    p.append v c = (false, p) := by
  unfold Parser.append
  simp [h1, h2, h3]

/-- only a large unit writes `last_large_unit` -/
theorem append_keeps_lastLarge (p p' : Parser) (c : Char) (hc : ∀ U : LargeU, U.char ≠ c)
    (h : p.append v c = (true, p')) : p'.lastLarge = p.lastLarge := by
  by_cases h1 : c = '.'
  · subst h1
    rw [(append_point_ok v p p' h).1]; rfl
  by_cases h2 : c = ','
  · subst h2
    rw [(append_comma_ok v p p' h).1]; rfl
  cases h3 : charToNum c with
  | none => rw [append_unknown v p c h1 h2 h3] at h; simp at h
  | some n =>
    rcases charToNum_cases c n h3 with ⟨g, hg, _⟩ | ⟨u, hu, _⟩ | ⟨u, hu, _⟩
    · subst hg
      rw [append_digit] at h
      simp only [Prod.mk.injEq, true_and] at h
      rw [← h]; rfl
    · subst hu
      exact (append_small_ok v p p' u h).2.2.2.2.2.2.2.2.2.2.2.1
    · exact absurd hu (hc u)

theorem feed_keeps_lastLarge (mid : List Char) (hmid : ∀ c ∈ mid, ∀ U : LargeU, U.char ≠ c)
    (p : Parser) (n m : Nat) (q : Parser) (h : p.feed v mid n = (m, true, q)) : q.lastLarge = p.lastLarge := by
  induction mid generalizing p n with
  | nil => simp only [Parser.feed, Prod.mk.injEq] at h; rw [← h.2.2]
  | cons c cs ih =>
    simp only [Parser.feed] at h
    rcases h' : p.append v c with ⟨ok, p'⟩
    rw [h'] at h
    cases ok
    · simp at h
    · simp only at h
      rw [ih (fun x hx => hmid x (by simp [hx])) p' (n + 1) h]
      exact append_keeps_lastLarge v p p' c (hmid c (by simp)) h'

/-- F4 family, anywhere in a text: a large unit that is not smaller than the previous large unit
is rejected -/
theorem reject_large_unit_order_any (hv : v.f4 = true) (pre mid post : List Char) (U1 U2 : LargeU)
    (hle : U1.exp ≤ U2.exp) (hmid : ∀ c ∈ mid, ∀ U : LargeU, U.char ≠ c) :
    parse v (pre ++ U1.char :: (mid ++ U2.char :: post)) = none := by
  apply parse_none_of_after
  intro n q _
  simp only [Parser.feed]
  rcases h1 : q.append v U1.char with ⟨ok, q1⟩
  cases ok
  · exact ⟨_, _, rfl⟩
  · simp only
    have hl1 : q1.lastLarge = some (-(U1.exp : Int)) := by
      rw [(append_large_ok v q q1 U1 h1).2.2.2.2.2.2.2.2.2.2.2.2.2.1, hv]; rfl
    rw [feed_append]
    rcases h2 : q1.feed v mid (n + 1) with ⟨m, ok2, q2⟩
    cases ok2
    · exact ⟨_, _, rfl⟩
    · simp only [Parser.feed]
      have hl2 := feed_keeps_lastLarge v mid hmid q1 _ _ q2 h2
      rcases h3 : q2.append v U2.char with ⟨ok3, q3⟩
      cases ok3
      · exact ⟨_, _, rfl⟩
      · exfalso
        have := (append_large_ok v q2 q3 U2 h3).2.2.1 hv _ (by rw [hl2, hl1])
        omega
/-! ## the numeral AST and its rendering -/

/-- a written number: integer part (plain or with thousands separators) and fraction digits
(`frac = []`: no point is written) -/
structure Run where
  int : IntPart
  frac : List Dg

def Run.WF (r : Run) : Prop := r.int.WF
def renderRun (r : Run) : List Char :=
  renderInt r.int ++ (if r.frac.isEmpty then [] else '.' :: renderDigits r.frac)

/-- an optional coefficient -/
def renderCoef : Option Run → List Char
  | none => []
  | some r => renderRun r
def coefWF : Option Run → Prop
  | none => True
  | some r => r.WF

/-- the part below a large unit: terms `coefficient? small-unit`, then an optional plain number -/
structure Group where
  smalls : List (Option Run × SmallU)
  last : Option Run

def renderSmalls (l : List (Option Run × SmallU)) : List Char :=
  l.flatMap (fun t => renderCoef t.1 ++ [t.2.char])
def renderGroup (g : Group) : List Char := renderSmalls g.smalls ++ renderCoef g.last
def Group.WF (g : Group) : Prop := (∀ t ∈ g.smalls, coefWF t.1) ∧ coefWF g.last
def Group.Nonempty (g : Group) : Prop := g.smalls ≠ [] ∨ g.last ≠ none

/-- a numeral: groups in front of large units, then a last group -/
structure Numeral where
  larges : List (Group × LargeU)
  rest : Group

def renderLarges (l : List (Group × LargeU)) : List Char :=
  l.flatMap (fun t => renderGroup t.1 ++ [t.2.char])
def render (a : Numeral) : List Char := renderLarges a.larges ++ renderGroup a.rest

/-- syntactic well-formedness: every written number obeys the separator rules (`IntPart.WF`; a
fraction, if any, has digits and no separators by construction), every large unit has something in
front of it, and the large units strictly decrease -/
def Numeral.WF (a : Numeral) : Prop :=
  (∀ t ∈ a.larges, t.1.WF ∧ t.1.Nonempty) ∧ (a.larges.map (fun t => t.2.exp)).Pairwise (· > ·) ∧ a.rest.WF

/-! positions of the terms -/

/-- number of written integer digits -/
def IntPart.len (i : IntPart) : Nat := i.g1.length + i.gs.flatten.length
def Run.il (r : Run) : Nat := r.int.len
def Run.fl (r : Run) : Nat := r.frac.length

/-- `(hi, avail)` of the term `coefficient × 10^e`: with `L` written integer digits and `F` fraction
digits it occupies the decimal positions below `L + e` and leaves free those below `e - F`; a unit
without coefficient counts as `1` -/
def termSpan (c : Option Run) (e : Nat) : Int × Int :=
  match c with
  | none => (1 + (e : Int), (e : Int))
  | some r => ((r.il : Int) + e, (e : Int) - r.fl)

def smallSpans (S : List (Option Run × SmallU)) : List (Int × Int) := S.map (fun t => termSpan t.1 t.2.exp)
def lastSpans : Option Run → List (Int × Int)
  | none => []
  | some r => [termSpan (some r) 0]
def groupSpans (g : Group) : List (Int × Int) := smallSpans g.smalls ++ lastSpans g.last
def largeSpans (L : List (Group × LargeU)) : List (Int × Int) :=
  L.filterMap (fun t => (spanOf (groupSpans t.1)).map (fun s => (s.1 + (t.2.exp : Int), s.2 + (t.2.exp : Int))))

/-- positional well-formedness: inside every group, and from group to group, each term fits
entirely into the positions the previous one leaves free (no two terms overlap; in particular the
small units of a group strictly decrease) -/
def Numeral.Fits (a : Numeral) : Prop :=
  (∀ t ∈ a.larges, Fit (groupSpans t.1)) ∧ Fit (groupSpans a.rest) ∧
  Fit (largeSpans a.larges ++ (spanOf (groupSpans a.rest)).toList)

/-! ## the simulation: parser state ↔ partial AST -/

/-- the number being written -/
inductive Cur
  | start
  | first (g1 : List Dg)
  | grp (g1 : List Dg) (gs : List (List Dg)) (g : List Dg)
  | frac (i : IntPart) (fs : List Dg)

def Cur.render : Cur → List Char
  | .start => []
  | .first g1 => renderDigits g1
  | .grp g1 gs g => renderDigits g1 ++ renderGroups gs ++ ',' :: renderDigits g
  | .frac i fs => renderInt i ++ '.' :: renderDigits fs

structure PState where
  larges : List (Group × LargeU)
  smalls : List (Option Run × SmallU)
  cur : Cur

def PState.render (σ : PState) : List Char := renderLarges σ.larges ++ renderSmalls σ.smalls ++ σ.cur.render

/-- the parser's flags and `tmp` against the number being written -/
def CurInv (p : Parser) : Cur → Prop
  | .start => p.isFirstDigit = true ∧ p.hasComma = false ∧ p.hasHangingPoint = false ∧ p.digitLength = 0 ∧
      p.tmp.sig = [] ∧ p.tmp.point = none ∧ p.tmp.scale = 0 ∧ p.tmp.allZero = true
  | .first g1 => g1 ≠ [] ∧ p.isFirstDigit = false ∧ p.hasComma = false ∧ p.hasHangingPoint = false ∧
      p.digitLength = g1.length ∧ p.tmp.sig.length = g1.length ∧ p.tmp.point = none ∧ p.tmp.scale = 0 ∧
      p.tmp.allZero = allZeroDigits g1
  | .grp g1 gs g => g1 ≠ [] ∧ g1.length ≤ 3 ∧ allZeroDigits g1 = false ∧ (∀ x ∈ gs, x.length = 3) ∧
      p.isFirstDigit = false ∧ p.hasComma = true ∧ p.hasHangingPoint = false ∧ p.digitLength = g.length ∧
      p.tmp.sig.length = g1.length + gs.flatten.length + g.length ∧ p.tmp.point = none ∧ p.tmp.scale = 0
  | .frac i fs => i.WF ∧ p.isFirstDigit = false ∧ p.hasComma = false ∧ p.hasHangingPoint = fs.isEmpty ∧
      p.tmp.point = some i.len ∧ p.tmp.sig.length = i.len + fs.length ∧ p.tmp.scale = 0

structure Inv (p : Parser) (σ : PState) : Prop where
  cur : CurInv p σ.cur
  sub : p.subtotal.sig = [] ↔ σ.smalls = []
  smallsWF : ∀ t ∈ σ.smalls, coefWF t.1
  largesWF : ∀ t ∈ σ.larges, t.1.WF ∧ t.1.Nonempty
  order : (σ.larges.map (fun t => t.2.exp)).Pairwise (· > ·)
  bound : match p.lastLarge with
    | none => σ.larges = []
    | some l => ∀ t ∈ σ.larges, -(t.2.exp : Int) ≤ l
  subAcc : AccInv p.subtotal (smallSpans σ.smalls)
  totAcc : AccInv p.total (largeSpans σ.larges)
  largesFit : ∀ t ∈ σ.larges, Fit (groupSpans t.1)

theorem inv_new : Inv Parser.new ⟨[], [], .start⟩ := by
  refine ⟨?_, ?_, ?_, ?_, ?_, ?_, ?_, ?_, ?_⟩ <;>
    simp [CurInv, Parser.new, AccInv, smallSpans, largeSpans, Fit]

theorem renderDigits_snoc (ds : List Dg) (g : Dg) : renderDigits (ds ++ [g]) = renderDigits ds ++ [g.glyph] := by
  simp [renderDigits]

theorem renderGroups_snoc (gs : List (List Dg)) (g : List Dg) :
    renderGroups (gs ++ [g]) = renderGroups gs ++ ',' :: renderDigits g := by
  simp [renderGroups]

theorem allZeroDigits_snoc (ds : List Dg) (g : Dg) :
    allZeroDigits (ds ++ [g]) = (allZeroDigits ds && (g.d.val == 0)) := by
  simp [allZeroDigits]

/-- a digit extends the number being written -/
theorem inv_digit (p : Parser) (σ : PState) (g : Dg) (h : Inv p σ) :
    ∃ σ', Inv (p.pushDigit g) σ' ∧ σ'.render = σ.render ++ [g.glyph] := by
  obtain ⟨L, S, cur⟩ := σ
  obtain ⟨hc, hs, hsw, hlw, ho, hb, hsa, hta, hlf⟩ := h
  cases cur with
  | start =>
    refine ⟨⟨L, S, .first [g]⟩, ⟨?_, hs, hsw, hlw, ho, hb, hsa, hta, hlf⟩, ?_⟩
    · simp only [CurInv] at hc ⊢
      obtain ⟨c1, c2, c3, c4, c5, c6, c7, c8⟩ := hc
      simp only [Parser.pushDigit, SN.append, c2, c4, c5, c6, c7, c8]
      refine ⟨by simp, trivial, trivial, trivial, by simp, by simp, trivial, trivial, ?_⟩
      by_cases hd : g.d.val = 0 <;> simp [hd, allZeroDigits]
    · simp [PState.render, Cur.render, renderDigits]
  | first g1 =>
    refine ⟨⟨L, S, .first (g1 ++ [g])⟩, ⟨?_, hs, hsw, hlw, ho, hb, hsa, hta, hlf⟩, ?_⟩
    · simp only [CurInv] at hc ⊢
      obtain ⟨c1, c2, c3, c4, c5, c6, c7, c8, c9⟩ := hc
      simp only [Parser.pushDigit, SN.append, c3, c5, c7, c8, c9, allZeroDigits_snoc]
      refine ⟨by simp, trivial, trivial, trivial, by simp, by simp [c6], trivial, trivial, ?_⟩
      by_cases hd : g.d.val = 0 <;> simp [hd]
    · simp [PState.render, Cur.render, renderDigits_snoc]
  | grp g1 gs x =>
    refine ⟨⟨L, S, .grp g1 gs (x ++ [g])⟩, ⟨?_, hs, hsw, hlw, ho, hb, hsa, hta, hlf⟩, ?_⟩
    · simp only [CurInv] at hc ⊢
      obtain ⟨c1, c2, c3, c4, c5, c6, c7, c8, c9, c10, c11⟩ := hc
      simp [Parser.pushDigit, SN.append, c1, c2, c3, c6, c8, c9, c10, c11]
      exact ⟨c4, by omega⟩
    · simp [PState.render, Cur.render, renderDigits_snoc]
  | frac i fs =>
    refine ⟨⟨L, S, .frac i (fs ++ [g])⟩, ⟨?_, hs, hsw, hlw, ho, hb, hsa, hta, hlf⟩, ?_⟩
    · simp only [CurInv] at hc ⊢
      obtain ⟨c1, c2, c3, c4, c5, c6, c7⟩ := hc
      simp [Parser.pushDigit, SN.append, c1, c3, c5, c6, c7]
      omega
    · simp [PState.render, Cur.render, renderDigits_snoc]
/-- a separator is accepted (by a parser with repair F1) only after a complete group -/
theorem inv_comma (v : Variant) (hv : v.f1 = true) (p : Parser) (σ : PState) (h : Inv p σ)
    (hc : p.checkComma v = true) :
    ∃ σ', Inv p.pushComma σ' ∧ σ'.render = σ.render ++ [','] := by
  obtain ⟨L, S, cur⟩ := σ
  obtain ⟨hcur, hs, hsw, hlw, ho, hb, hsa, hta, hlf⟩ := h
  cases cur with
  | start =>
    simp only [CurInv] at hcur
    simp [Parser.checkComma, hcur.1] at hc
  | first g1 =>
    simp only [CurInv] at hcur
    obtain ⟨c1, c2, c3, c4, c5, c6, c7, c8, c9⟩ := hcur
    simp only [Parser.checkComma, c2, c3, c7, c5, c9] at hc
    simp at hc
    refine ⟨⟨L, S, .grp g1 [] []⟩, ⟨?_, hs, hsw, hlw, ho, hb, hsa, hta, hlf⟩, ?_⟩
    · simp only [CurInv]
      simp [Parser.pushComma, c1, c2, c4, c6, c7, c8, hc.1.1, hc.2]
    · simp [PState.render, Cur.render, renderGroups, renderDigits]
  | grp g1 gs x =>
    simp only [CurInv] at hcur
    obtain ⟨c1, c2, c3, c4, c5, c6, c7, c8, c9, c10, c11⟩ := hcur
    simp only [Parser.checkComma, c5, c6, c10, c8] at hc
    simp at hc
    refine ⟨⟨L, S, .grp g1 (gs ++ [x]) []⟩, ⟨?_, hs, hsw, hlw, ho, hb, hsa, hta, hlf⟩, ?_⟩
    · simp only [CurInv]
      simp [Parser.pushComma, c1, c2, c3, c5, c7, c9, c10, c11]
      refine ⟨?_, by omega⟩
      intro y hy
      rcases hy with hy | hy
      · exact c4 y hy
      · rw [hy]; exact hc
    · simp [PState.render, Cur.render, renderGroups_snoc, renderDigits]
  | frac i fs =>
    simp only [CurInv] at hcur
    simp [Parser.checkComma, hcur.2.1, hv, hcur.2.2.2.2.1] at hc

/-- a point is accepted only after a complete integer part -/
theorem inv_point (v : Variant) (p : Parser) (σ : PState) (h : Inv p σ)
    (h1 : p.isFirstDigit = false) (h2 : p.hasComma = true → p.checkComma v = true) (h4 : p.tmp.point = none) :
    ∃ σ', Inv p.pushPoint σ' ∧ σ'.render = σ.render ++ ['.'] := by
  obtain ⟨L, S, cur⟩ := σ
  obtain ⟨hcur, hs, hsw, hlw, ho, hb, hsa, hta, hlf⟩ := h
  cases cur with
  | start =>
    simp only [CurInv] at hcur
    rw [hcur.1] at h1; cases h1
  | first g1 =>
    simp only [CurInv] at hcur
    obtain ⟨c1, c2, c3, c4, c5, c6, c7, c8, c9⟩ := hcur
    refine ⟨⟨L, S, .frac ⟨g1, []⟩ []⟩, ⟨?_, hs, hsw, hlw, ho, hb, hsa, hta, hlf⟩, ?_⟩
    · simp only [CurInv]
      refine ⟨⟨c1, by simp, by simp⟩, ?_⟩
      simp [Parser.pushPoint, c2, c6, c8, IntPart.len]
    · simp [PState.render, Cur.render, renderInt, renderGroups, renderDigits]
  | grp g1 gs x =>
    simp only [CurInv] at hcur
    obtain ⟨c1, c2, c3, c4, c5, c6, c7, c8, c9, c10, c11⟩ := hcur
    have hc := h2 c6
    simp only [Parser.checkComma, c5, c6, c10, c8] at hc
    simp at hc
    refine ⟨⟨L, S, .frac ⟨g1, gs ++ [x]⟩ []⟩, ⟨?_, hs, hsw, hlw, ho, hb, hsa, hta, hlf⟩, ?_⟩
    · simp only [CurInv]
      refine ⟨⟨c1, fun _ => ⟨c2, c3⟩, ?_⟩, ?_⟩
      · intro y hy
        simp only [List.mem_append, List.mem_singleton] at hy
        rcases hy with hy | hy
        · exact c4 y hy
        · rw [hy]; exact hc
      · simp [Parser.pushPoint, c5, c9, c11, IntPart.len]
        omega
    · simp [PState.render, Cur.render, renderInt, renderGroups_snoc, renderDigits]
  | frac i fs =>
    simp only [CurInv] at hcur
    rw [h4] at hcur
    simp at hcur
/-- the number that has been written, once it is complete -/
def Cur.complete : Cur → Option Run
  | .start => none
  | .first g1 => some ⟨⟨g1, []⟩, []⟩
  | .grp g1 gs g => some ⟨⟨g1, gs ++ [g]⟩, []⟩
  | .frac i fs => some ⟨i, fs⟩

theorem good_of_len (t : SN) (n : Nat) (hn : 0 < n) (hl : t.sig.length = n) (hp : t.point = none) : t.Good := by
  refine ⟨?_, by simp [hp]⟩
  intro h; rw [h] at hl; simp at hl; omega

/-- a number is complete when no point is hanging and the open separator group has three digits;
`tmp` then holds its digits: `hi` = written integer digits, `avail` = minus the fraction digits -/
theorem complete_spec (p : Parser) (cur : Cur) (h : CurInv p cur) (hh : p.hasHangingPoint = false)
    (hc : p.hasComma = true → p.digitLength = 3) :
    coefWF cur.complete ∧ renderCoef cur.complete = cur.render ∧ (cur.complete = none → p.tmp.sig = []) ∧
    (∀ r, cur.complete = some r → p.tmp.Good ∧ p.tmp.hi = r.il ∧ p.tmp.avail = -(r.fl : Int)) := by
  cases cur with
  | start =>
    simp only [CurInv] at h
    exact ⟨trivial, rfl, fun _ => h.2.2.2.2.1, by simp [Cur.complete]⟩
  | first g1 =>
    simp only [CurInv] at h
    obtain ⟨c1, c2, c3, c4, c5, c6, c7, c8, c9⟩ := h
    refine ⟨⟨c1, by simp, by simp⟩, ?_, by simp [Cur.complete], ?_⟩
    · simp [Cur.complete, renderCoef, renderRun, renderInt, renderGroups, Cur.render]
    · intro r hr
      simp only [Cur.complete, Option.some.injEq] at hr
      subst hr
      have hpos : 0 < g1.length := List.length_pos_iff.mpr c1
      refine ⟨good_of_len _ _ hpos c6 c7, ?_, ?_⟩
      · simp [SN.hi, c7, c8, c6, Run.il, IntPart.len]
      · simp [SN.avail, SN.fracLen, c7, c8, Run.fl]
  | grp g1 gs x =>
    simp only [CurInv] at h
    obtain ⟨c1, c2, c3, c4, c5, c6, c7, c8, c9, c10, c11⟩ := h
    have hx : x.length = 3 := by rw [← c8]; exact hc c6
    refine ⟨⟨c1, fun _ => ⟨c2, c3⟩, ?_⟩, ?_, by simp [Cur.complete], ?_⟩
    · intro y hy
      simp only [List.mem_append, List.mem_singleton] at hy
      rcases hy with hy | hy
      · exact c4 y hy
      · rw [hy]; exact hx
    · simp [Cur.complete, renderCoef, renderRun, renderInt, renderGroups_snoc, Cur.render]
    · intro r hr
      simp only [Cur.complete, Option.some.injEq] at hr
      subst hr
      have hpos : 0 < g1.length := List.length_pos_iff.mpr c1
      refine ⟨good_of_len _ _ (by omega) c9 c10, ?_, ?_⟩
      · simp [SN.hi, c10, c11, c9, Run.il, IntPart.len]; omega
      · simp [SN.avail, SN.fracLen, c10, c11, Run.fl]
  | frac i fs =>
    simp only [CurInv] at h
    obtain ⟨c1, c2, c3, c4, c5, c6, c7⟩ := h
    rw [hh] at c4
    refine ⟨c1, ?_, by simp [Cur.complete], ?_⟩
    · simp [Cur.complete, renderCoef, renderRun, Cur.render, ← c4]
    · intro r hr
      simp only [Cur.complete, Option.some.injEq] at hr
      subst hr
      have hpos : 0 < i.len := by
        have : 0 < i.g1.length := List.length_pos_iff.mpr c1.1
        simp only [IntPart.len]; omega
      refine ⟨⟨?_, ?_⟩, ?_, ?_⟩
      · intro hn; rw [hn] at c6; simp at c6; omega
      · intro q hq
        rw [c5] at hq
        simp only [Option.some.injEq] at hq
        omega
      · simp [SN.hi, c5, c7, Run.il]
      · simp only [SN.avail, SN.fracLen, c5, c7, c6, Run.fl]; omega

theorem renderSmalls_snoc (S : List (Option Run × SmallU)) (c : Option Run) (u : SmallU) :
    renderSmalls (S ++ [(c, u)]) = renderSmalls S ++ renderCoef c ++ [u.char] := by
  simp [renderSmalls]

theorem renderLarges_snoc (L : List (Group × LargeU)) (g : Group) (u : LargeU) :
    renderLarges (L ++ [(g, u)]) = renderLarges L ++ renderGroup g ++ [u.char] := by
  simp [renderLarges]

/-- the coefficient in front of a unit: `tmp` shifted, a missing coefficient counts as 1 -/
theorem coef_shift (p : Parser) (cur : Cur) (h : CurInv p cur) (hh : p.hasHangingPoint = false)
    (hc : p.hasComma = true → p.digitLength = 3) (e : Nat) :
    (p.tmp.shiftScale e).Good ∧ ((p.tmp.shiftScale e).hi, (p.tmp.shiftScale e).avail) = termSpan cur.complete e := by
  obtain ⟨_, _, w3, w4⟩ := complete_spec p cur h hh hc
  cases hcm : cur.complete with
  | none =>
    have hsig := w3 hcm
    cases cur with
    | start =>
      simp only [CurInv] at h
      obtain ⟨g, k1, k2⟩ := shiftScale_zero p.tmp e h.2.2.2.2.1 h.2.2.2.2.2.1 h.2.2.2.2.2.2.1
      exact ⟨g, by simp [termSpan, k1, k2]⟩
    | first g1 => simp [Cur.complete] at hcm
    | grp g1 gs x => simp [Cur.complete] at hcm
    | frac i fs => simp [Cur.complete] at hcm
  | some r =>
    obtain ⟨g, k1, k2⟩ := w4 r hcm
    obtain ⟨g', j1, j2⟩ := shiftScale_good p.tmp e g
    refine ⟨g', ?_⟩
    simp only [termSpan, j1, j2, k1, k2]
    congr 1
    omega

/-- the group that is closed by a large unit or by the end of the text: `subtotal + tmp` -/
theorem group_close (p : Parser) (S : List (Option Run × SmallU)) (cur : Cur) (h : CurInv p cur)
    (hh : p.hasHangingPoint = false) (hc : p.hasComma = true → p.digitLength = 3)
    (hsa : AccInv p.subtotal (smallSpans S)) (hok : (p.subtotal.add p.tmp).1 = true) :
    AccInv (p.subtotal.add p.tmp).2.1 (groupSpans ⟨S, cur.complete⟩) := by
  obtain ⟨_, _, w3, w4⟩ := complete_spec p cur h hh hc
  cases hcm : cur.complete with
  | none =>
    rw [add_zero_right _ _ (w3 hcm)]
    simpa [groupSpans, lastSpans] using hsa
  | some r =>
    obtain ⟨g, k1, k2⟩ := w4 r hcm
    have := acc_add p.subtotal p.tmp (smallSpans S) g hsa hok
    simp only [groupSpans, lastSpans, termSpan]
    rw [k1, k2] at this
    simpa using this

/-- a small unit closes the number being written and opens a new term (repairs F2 and F3) -/
theorem inv_small (v : Variant) (h2 : v.f2 = true) (h3 : v.f3 = true) (p p' : Parser) (σ : PState)
    (u : SmallU) (h : Inv p σ) (ha : p.append v u.char = (true, p')) :
    ∃ σ', Inv p' σ' ∧ σ'.render = σ.render ++ [u.char] := by
  obtain ⟨L, S, cur⟩ := σ
  obtain ⟨hcur, hs, hsw, hlw, ho, hb, hsa, hta, hlf⟩ := h
  obtain ⟨a1, a2, a3, a4, a5, a6, a7, a8, a9, a10, a11, a12, a13, _, _, a16, a17⟩ := append_small_ok v p p' u ha
  obtain ⟨w1, w2, _, _⟩ := complete_spec p cur hcur (a1 h2) (a2 h3)
  obtain ⟨gs, hspan⟩ := coef_shift p cur hcur (a1 h2) (a2 h3) u.exp
  refine ⟨⟨L, S ++ [(cur.complete, u)], .start⟩, ⟨?_, ?_, ?_, hlw, ho, ?_, ?_, ?_, hlf⟩, ?_⟩
  · simp only [CurInv]
    exact ⟨a3, a4, by rw [a5]; exact a1 h2, a6, a7, a8, a9, a10⟩
  · simp [a11]
  · intro t ht
    simp only [List.mem_append, List.mem_singleton] at ht
    rcases ht with ht | ht
    · exact hsw t ht
    · rw [ht]; exact w1
  · rw [a12]; exact hb
  · have := acc_add p.subtotal (p.tmp.shiftScale u.exp) (smallSpans S) gs hsa a16
    rw [a17]
    simp only [smallSpans, List.map_append, List.map_cons, List.map_nil]
    rw [← hspan]
    exact this
  · rw [a13]; exact hta
  · simp [PState.render, renderSmalls_snoc, Cur.render, w2]

theorem largeSpans_snoc (L : List (Group × LargeU)) (G : Group) (U : LargeU) (hi av : Int)
    (h : spanOf (groupSpans G) = some (hi, av)) :
    largeSpans (L ++ [(G, U)]) = largeSpans L ++ [(hi + (U.exp : Int), av + (U.exp : Int))] := by
  simp [largeSpans, List.filterMap_append, h]

/-- a large unit closes the group (repairs F2, F3 and F4) -/
theorem inv_large (v : Variant) (h2 : v.f2 = true) (h3 : v.f3 = true) (h4 : v.f4 = true) (p p' : Parser)
    (σ : PState) (u : LargeU) (h : Inv p σ) (ha : p.append v u.char = (true, p')) :
    ∃ σ', Inv p' σ' ∧ σ'.render = σ.render ++ [u.char] := by
  obtain ⟨L, S, cur⟩ := σ
  obtain ⟨hcur, hs, hsw, hlw, ho, hb, hsa, hta, hlf⟩ := h
  obtain ⟨a1, a2, a3, a4, a5, a6, a7, a8, a9, a10, a11, a12, a13, a14, _, _, a17, a18, a19⟩ :=
    append_large_ok v p p' u ha
  obtain ⟨w1, w2, w3, _⟩ := complete_spec p cur hcur (a1 h2) (a2 h3)
  have hne : (⟨S, cur.complete⟩ : Group).Nonempty := by
    simp only [Group.Nonempty]
    by_cases hS : S = []
    · right
      intro hn
      exact a4 ⟨hs.2 hS, w3 hn⟩
    · exact Or.inl hS
  -- the closed group as a number
  have hg := group_close p S cur hcur (a1 h2) (a2 h3) hsa a17
  have hgne : groupSpans ⟨S, cur.complete⟩ ≠ [] := by
    rcases hne with hS | hl
    · cases S with
      | nil => exact absurd rfl hS
      | cons t S => simp [groupSpans, smallSpans]
    · cases hcm : cur.complete with
      | none => exact absurd hcm hl
      | some r => simp [groupSpans, lastSpans]
  obtain ⟨gsub, hsp⟩ := hg.2.2 hgne
  obtain ⟨gsh, j1, j2⟩ := shiftScale_good _ u.exp gsub
  have htot := acc_add p.total _ (largeSpans L) gsh hta a18
  rw [j1, j2, ← largeSpans_snoc L ⟨S, cur.complete⟩ u _ _ hsp] at htot
  have hlt : ∀ t ∈ L, t.2.exp > u.exp := by
    intro t ht
    simp only at hb
    cases hl : p.lastLarge with
    | none => rw [hl] at hb; simp only at hb; rw [hb] at ht; cases ht
    | some l =>
      rw [hl] at hb
      have := hb t ht
      have := a3 h4 l hl
      omega
  refine ⟨⟨L ++ [(⟨S, cur.complete⟩, u)], [], .start⟩, ⟨?_, ?_, ?_, ?_, ?_, ?_, ?_, ?_, ?_⟩, ?_⟩
  · simp only [CurInv]
    exact ⟨a5, a6, by rw [a7]; exact a1 h2, a8, a9, a10, a11, a12⟩
  · simp [a13]
  · intro t ht; cases ht
  · intro t ht
    simp only [List.mem_append, List.mem_singleton] at ht
    rcases ht with ht | ht
    · exact hlw t ht
    · rw [ht]; exact ⟨⟨hsw, w1⟩, hne⟩
  · simp only [List.map_append, List.map_cons, List.map_nil]
    rw [List.pairwise_append]
    refine ⟨ho, by simp, ?_⟩
    intro a ha b hb'
    simp only [List.mem_singleton] at hb'
    subst hb'
    simp only [List.mem_map] at ha
    obtain ⟨t, ht, rfl⟩ := ha
    exact hlt t ht
  · rw [a14, h4]
    simp only [if_true]
    intro t ht
    simp only [List.mem_append, List.mem_singleton] at ht
    rcases ht with ht | ht
    · have := hlt t ht; omega
    · rw [ht]; exact Int.le_refl _
  · refine ⟨by simp [smallSpans, Fit], fun _ => a13, fun hn => absurd rfl hn⟩
  · rw [a19]; exact htot
  · intro t ht
    simp only [List.mem_append, List.mem_singleton] at ht
    rcases ht with ht | ht
    · exact hlf t ht
    · rw [ht]; exact hg.1
  · simp [PState.render, renderLarges_snoc, renderGroup, renderSmalls, Cur.render, w2]

/-- one accepted character (parser with the repairs F1–F4) extends the partial AST by that character -/
theorem inv_step (v : Variant) (h1 : v.f1 = true) (h2 : v.f2 = true) (h3 : v.f3 = true) (h4 : v.f4 = true)
    (p p' : Parser) (σ : PState) (c : Char) (h : Inv p σ) (ha : p.append v c = (true, p')) :
    ∃ σ', Inv p' σ' ∧ σ'.render = σ.render ++ [c] := by
  by_cases hp : c = '.'
  · subst hp
    obtain ⟨e, b1, b2, _, b4⟩ := append_point_ok v p p' ha
    rw [e]
    exact inv_point v p σ h b1 b2 b4
  by_cases hc : c = ','
  · subst hc
    obtain ⟨e, b⟩ := append_comma_ok v p p' ha
    rw [e]
    exact inv_comma v h1 p σ h b
  cases hn : charToNum c with
  | none => rw [append_unknown v p c hp hc hn] at ha; simp at ha
  | some n =>
    rcases charToNum_cases c n hn with ⟨g, hg, _⟩ | ⟨u, hu, _⟩ | ⟨u, hu, _⟩
    · subst hg
      rw [append_digit] at ha
      simp only [Prod.mk.injEq, true_and] at ha
      rw [← ha]
      exact inv_digit p σ g h
    · subst hu
      exact inv_small v h2 h3 p p' σ u h ha
    · subst hu
      exact inv_large v h2 h3 h4 p p' σ u h ha

theorem inv_feed (v : Variant) (h1 : v.f1 = true) (h2 : v.f2 = true) (h3 : v.f3 = true) (h4 : v.f4 = true)
    (text : List Char) (p : Parser) (σ : PState) (n m : Nat) (q : Parser) (h : Inv p σ)
    (hf : p.feed v text n = (m, true, q)) : ∃ σ', Inv q σ' ∧ σ'.render = σ.render ++ text := by
  induction text generalizing p σ n with
  | nil =>
    simp only [Parser.feed, Prod.mk.injEq] at hf
    exact ⟨σ, by rw [← hf.2.2]; exact h, by simp⟩
  | cons c cs ih =>
    simp only [Parser.feed] at hf
    rcases ha : p.append v c with ⟨ok, p'⟩
    rw [ha] at hf
    cases ok
    · simp at hf
    · simp only at hf
      obtain ⟨σ1, i1, r1⟩ := inv_step v h1 h2 h3 h4 p p' σ c h ha
      obtain ⟨σ2, i2, r2⟩ := ih p' σ1 (n + 1) i1 hf
      exact ⟨σ2, i2, by rw [r2, r1]; simp⟩

theorem done_ok_flags (v : Variant) (q : Parser) (h : (q.done v).1 = true) :
    q.hasHangingPoint = false ∧ (q.hasComma = true → q.digitLength = 3) := by
  constructor
  · cases hh : q.hasHangingPoint
    · rfl
    · rw [done_hanging v q hh] at h; cases h
  · intro hc
    cases hh : q.hasHangingPoint
    · by_cases hd : q.digitLength = 3
      · exact hd
      · rw [done_bad_group v q hh hc hd] at h; cases h
    · rw [done_hanging v q hh] at h; cases h

/-- `done()` true: both final additions succeeded -/
theorem done_ok_adds (v : Variant) (q : Parser) (h : (q.done v).1 = true) :
    (q.subtotal.add q.tmp).1 = true ∧ (q.total.add (q.subtotal.add q.tmp).2.1).1 = true := by
  unfold Parser.done at h
  rcases h1 : q.subtotal.add q.tmp with ⟨r1, sub, tmp⟩
  rw [h1] at h
  cases r1
  · simp only [Bool.false_eq_true, if_false] at h
    split at h
    · cases h
    · split at h
      · cases h
      · split at h <;> cases h
  · rcases h2 : q.total.add sub with ⟨r2, tot, sub'⟩
    simp only [if_true] at h
    rw [h2] at h
    simp only at h
    cases r2
    · exfalso
      split at h
      · cases h
      · split at h
        · cases h
        · split at h <;> cases h
    · exact ⟨rfl, rfl⟩

/-- **accepted ⇒ rendering of a well-formed numeral** (parser with the repairs F1–F4): the text is
the rendering of an AST that obeys the separator rules, whose large units strictly decrease, and
whose terms fit positionally (no overlap) -/
theorem wellformed_of_feed_done (v : Variant) (h1 : v.f1 = true) (h2 : v.f2 = true) (h3 : v.f3 = true)
    (h4 : v.f4 = true) (text : List Char) (n : Nat) (q : Parser)
    (hf : Parser.new.feed v text 0 = (n, true, q)) (hd : (q.done v).1 = true) :
    ∃ a : Numeral, a.WF ∧ a.Fits ∧ render a = text := by
  obtain ⟨σ, hi, hr⟩ := inv_feed v h1 h2 h3 h4 text Parser.new ⟨[], [], .start⟩ 0 n q inv_new hf
  obtain ⟨d1, d2⟩ := done_ok_flags v q hd
  obtain ⟨e1, e2⟩ := done_ok_adds v q hd
  obtain ⟨w1, w2, _, _⟩ := complete_spec q σ.cur hi.cur d1 d2
  have hg := group_close q σ.smalls σ.cur hi.cur d1 d2 hi.subAcc e1
  have hchain : Fit (largeSpans σ.larges ++ (spanOf (groupSpans ⟨σ.smalls, σ.cur.complete⟩)).toList) := by
    by_cases hgne : groupSpans ⟨σ.smalls, σ.cur.complete⟩ = []
    · rw [hgne]; simpa [spanOf] using hi.totAcc.1
    · obtain ⟨gsub, hsp⟩ := hg.2.2 hgne
      have := acc_add q.total _ (largeSpans σ.larges) gsub hi.totAcc e2
      rw [hsp]
      exact this.1
  refine ⟨⟨σ.larges, ⟨σ.smalls, σ.cur.complete⟩⟩, ⟨hi.largesWF, hi.order, hi.smallsWF, w1⟩,
    ⟨hi.largesFit, hg.1, hchain⟩, ?_⟩
  rw [show text = σ.render from by simpa [PState.render, renderLarges, renderSmalls, Cur.render] using hr.symm]
  simp [render, renderGroup, PState.render, w2]

/-- the same from `parse` (every character accepted, `done()`, a rendering) -/
theorem accepted_wellformed (v : Variant) (h1 : v.f1 = true) (h2 : v.f2 = true) (h3 : v.f3 = true)
    (h4 : v.f4 = true) (text s : List Char) (h : parse v text = some s) :
    ∃ a : Numeral, a.WF ∧ a.Fits ∧ render a = text := by
  obtain ⟨n, q, hf, hd, _⟩ := parse_some_iff v text s h
  exact wellformed_of_feed_done v h1 h2 h3 h4 text n q hf hd

/-! ## F6: the error state of `done()` -/

/-- with repair F6, `done()` reports POINT/COMMA only when both final additions succeeded, i.e. when
`total` really holds the value of what was read -/
theorem done_error_sums_ok (v : Variant) (hv : v.f6 = true) (q : Parser) (he : q.err = .none)
    (h : (q.done v).2.err ≠ .none) :
    (q.subtotal.add q.tmp).1 = true ∧ (q.total.add (q.subtotal.add q.tmp).2.1).1 = true := by
  unfold Parser.done at h
  rcases h1 : q.subtotal.add q.tmp with ⟨r1, sub, tmp⟩
  rw [h1] at h
  cases r1
  · simp [hv, he] at h
  · rcases h2 : q.total.add sub with ⟨r2, tot, sub'⟩
    simp only [if_true] at h
    rw [h2] at h
    cases r2
    · simp [hv, he] at h
    · exact ⟨rfl, rfl⟩

/-! ## F5: no leading zero once a unit was read -/

theorem done_hasUnit (v : Variant) (q : Parser) : (q.done v).2.hasUnit = q.hasUnit := by
  unfold Parser.done
  rcases h1 : q.subtotal.add q.tmp with ⟨r1, sub, tmp⟩
  cases r1
  · simp only [Bool.false_eq_true, if_false]
    split
    · rfl
    · split
      · rfl
      · split <;> rfl
  · rcases h2 : q.total.add sub with ⟨r2, tot, sub'⟩
    simp only [if_true, h2]
    split
    · rfl
    · split
      · rfl
      · split <;> rfl

/-- `has_unit` is never reset and is set by every accepted unit (repair F5) -/
theorem append_hasUnit (v : Variant) (hv : v.f5 = true) (p p' : Parser) (c : Char)
    (h : p.append v c = (true, p')) : (p.hasUnit = true → p'.hasUnit = true) ∧ (IsUnit c → p'.hasUnit = true) := by
  by_cases h1 : c = '.'
  · subst h1
    rw [(append_point_ok v p p' h).1]
    refine ⟨fun hu => hu, ?_⟩
    rintro (⟨u, hu⟩ | ⟨u, hu⟩)
    · exact absurd hu (small_ne u).1
    · exact absurd hu (large_ne u).1
  by_cases h2 : c = ','
  · subst h2
    rw [(append_comma_ok v p p' h).1]
    refine ⟨fun hu => hu, ?_⟩
    rintro (⟨u, hu⟩ | ⟨u, hu⟩)
    · exact absurd hu (small_ne u).2
    · exact absurd hu (large_ne u).2
  cases h3 : charToNum c with
  | none => rw [append_unknown v p c h1 h2 h3] at h; simp at h
  | some n =>
    rcases charToNum_cases c n h3 with ⟨g, hg, hn⟩ | ⟨u, hu, _⟩ | ⟨u, hu, _⟩
    · subst hg
      rw [append_digit] at h
      simp only [Prod.mk.injEq, true_and] at h
      rw [← h]
      refine ⟨fun hu => hu, ?_⟩
      rintro (⟨u, hu⟩ | ⟨u, hu⟩)
      · have e := charToNum_small u; rw [hu, h3] at e
        simp only [Option.some.injEq] at e
        have hpos : 0 < u.exp := by cases u <;> decide
        rw [hn, Int.ofNat_eq_natCast] at e
        omega
      · have e := charToNum_large u; rw [hu, h3] at e
        simp only [Option.some.injEq] at e
        have hpos : 0 < u.exp := by cases u <;> decide
        rw [hn, Int.ofNat_eq_natCast] at e
        omega
    · subst hu
      have := (append_small_ok v p p' u h).2.2.2.2.2.2.2.2.2.2.2.2.2.1
      rw [this, hv]; simp
    · subst hu
      have := (append_large_ok v p p' u h).2.2.2.2.2.2.2.2.2.2.2.2.2.2.1
      rw [this, hv]; simp

theorem feed_hasUnit (v : Variant) (hv : v.f5 = true) (text : List Char) (p : Parser) (n m : Nat) (q : Parser)
    (h : p.feed v text n = (m, true, q)) (hu : p.hasUnit = true ∨ ∃ c ∈ text, IsUnit c) : q.hasUnit = true := by
  induction text generalizing p n with
  | nil =>
    simp only [Parser.feed, Prod.mk.injEq] at h
    rcases hu with hu | ⟨c, hc, _⟩
    · rw [← h.2.2]; exact hu
    · cases hc
  | cons c cs ih =>
    simp only [Parser.feed] at h
    rcases ha : p.append v c with ⟨ok, p'⟩
    rw [ha] at h
    cases ok
    · simp at h
    · simp only at h
      obtain ⟨k1, k2⟩ := append_hasUnit v hv p p' c ha
      apply ih p' (n + 1) h
      rcases hu with hu | ⟨x, hx, hxu⟩
      · exact Or.inl (k1 hu)
      · simp only [List.mem_cons] at hx
        rcases hx with rfl | hx
        · exact Or.inl (k2 hxu)
        · exact Or.inr ⟨x, hx, hxu⟩

/-- no leading zero: the string is `0`, starts with a non-zero character, or starts with `0.` -/
def NoLeadingZero (s : List Char) : Prop :=
  s = ['0'] ∨ (∃ c rest, s = c :: rest ∧ c ≠ '0') ∨ (∃ rest, s = '0' :: '.' :: rest)

theorem stripLeadingZeros_spec (s : List Char) : NoLeadingZero (Parser.stripLeadingZeros s) := by
  unfold Parser.stripLeadingZeros
  simp only
  cases ht : s.dropWhile (· == '0') with
  | nil => exact Or.inl rfl
  | cons c t =>
    have hc : (c == '0') = false := by
      have := List.head?_dropWhile_not (· == '0') s
      rw [ht] at this
      simpa using this
    simp only
    by_cases hp : (c == '.') = true
    · simp only [hp, if_true]
      have : c = '.' := by simpa using hp
      subst this
      exact Or.inr (Or.inr ⟨t, rfl⟩)
    · simp only [hp]
      refine Or.inr (Or.inl ⟨c, t, rfl, ?_⟩)
      simpa using hc

/-- **F5 repaired**: the normal form of a numeral that contains a unit has no leading zero -/
theorem unit_no_leading_zero (v : Variant) (hv : v.f5 = true) (text s : List Char) (h : parse v text = some s)
    (hu : ∃ c ∈ text, IsUnit c) : NoLeadingZero s := by
  obtain ⟨n, q, hf, _, hg⟩ := parse_some_iff v text s h
  have h1 := feed_hasUnit v hv text Parser.new 0 n q hf (Or.inr hu)
  have h2 := done_hasUnit v q
  rw [h1] at h2
  unfold Parser.getNormalized at hg
  cases hts : (q.done v).2.total.toStr with
  | none => rw [hts] at hg; cases hg
  | some s0 =>
    rw [hts] at hg
    simp only [hv, h2, Bool.and_self, if_true, Option.some.injEq] at hg
    rw [← hg]
    exact stripLeadingZeros_spec s0

/-! ## a consequence of the positional fit -/

theorem coef_il_pos (c : Option Run) (h : coefWF c) (e : Nat) : (e : Int) + 1 ≤ (termSpan c e).1 ∧ (termSpan c e).2 ≤ e := by
  cases c with
  | none => simp [termSpan]; omega
  | some r =>
    have : 0 < r.int.g1.length := List.length_pos_iff.mpr h.1
    simp only [termSpan, Run.il, IntPart.len, Run.fl]
    omega

/-- positional fit inside a group implies that its small units strictly decrease -/
theorem fit_small_order (S : List (Option Run × SmallU)) (hw : ∀ t ∈ S, coefWF t.1) (h : Fit (smallSpans S)) :
    (S.map (fun t => t.2.exp)).Pairwise (· > ·) := by
  induction S with
  | nil => simp
  | cons a S ih =>
    have ih' := ih (fun t ht => hw t (by simp [ht]))
    cases S with
    | nil => simp
    | cons b S =>
      simp only [smallSpans, List.map_cons, Fit] at h
      have hab : b.2.exp < a.2.exp := by
        have h1 := (coef_il_pos b.1 (hw b (by simp)) b.2.exp).1
        have h2 := (coef_il_pos a.1 (hw a (by simp)) a.2.exp).2
        have := h.1
        omega
      have ihb := ih' (by simpa [smallSpans] using h.2)
      simp only [List.map_cons, List.pairwise_cons] at ihb ⊢
      refine ⟨?_, ihb⟩
      intro x hx
      simp only [List.mem_cons] at hx
      rcases hx with rfl | hx
      · exact hab
      · have := ihb.1 x hx
        omega
end Numeric
