import Sudachi.Model.RewriteNumeric
import Sudachi.Proofs.RewriteF3
import Sudachi.Proofs.RewriteNumeral
import Sudachi.Proofs.RewriteLocal
import Sudachi.Proofs.NumericLang
/-!
# The numeral joiner with the parser model inside: helper lemmas for `Props/C15.lean`

* what `numericP` (the parser model as the parameter of `Rewrite.joinNumeric`) answers for a text that
  `Numeric.parse` accepts, for its prefixes, and for a lone separator (`SepNotFirst`);
* the loop on a run of candidate nodes that the parser accepts and closes with `done()`:
  `joinNumeric_run_reset` (the run is followed by a node that resets the loop) and `joinNumeric_run_end`
  (the run ends the path) — generic in `P`;
* `Coarsens`-style invariant for "every token the joiner makes carries the parser's rendering of the
  characters of exactly its block (plus, in the back-off case, the split-off separator)".
-/
namespace RewriteNumeric
open Rewrite

/-! ## the parameter -/

theorem numericP_n_of_feed (v : Numeric.Variant) (s : List Char) (n : Nat) (q : Numeric.Parser)
    (h : Numeric.Parser.new.feed v s 0 = (n, true, q)) : (numericP v s).n = s.length := by
  have hl := Numeric.feed_ok_length v s _ 0 n q h
  unfold numericP
  rw [h]
  rcases q.done v with ⟨d, q'⟩
  simp only
  omega

/-- every prefix of a text whose characters are all accepted is accepted in full -/
theorem numericP_prefix (v : Numeric.Variant) (a b : List Char) (n : Nat) (q : Numeric.Parser)
    (h : Numeric.Parser.new.feed v (a ++ b) 0 = (n, true, q)) : (numericP v a).n = a.length := by
  rw [Numeric.feed_append] at h
  rcases ha : Numeric.Parser.new.feed v a 0 with ⟨m, ok, q1⟩
  cases ok
  · rw [ha] at h
    simp at h
  · exact numericP_n_of_feed v a m q1 ha

/-- a text that the parser model accepts (`Numeric.parse`): all characters, `done()`, the rendering -/
theorem numericP_of_parse (v : Numeric.Variant) (s r : List Char) (h : Numeric.parse v s = some r) :
    (∃ n q, Numeric.Parser.new.feed v s 0 = (n, true, q)) ∧
      (numericP v s).n = s.length ∧ (numericP v s).done = true ∧ (numericP v s).norm = r := by
  unfold Numeric.parse Numeric.verifParse at h
  rcases hf : Numeric.Parser.new.feed v s 0 with ⟨n, ok, p⟩
  rw [hf] at h
  cases ok
  · by_cases hb : p.anyBad = true <;> simp [hb] at h
  · refine ⟨⟨n, p, rfl⟩, numericP_n_of_feed v s n p hf, ?_⟩
    unfold numericP
    rw [hf]
    simp only at h ⊢
    rcases hd : p.done v with ⟨d, q⟩
    rw [hd] at h
    simp only at h ⊢
    by_cases hb : q.anyBad = true
    · simp [hb] at h
    · cases hg : q.getNormalized v with
      | none => simp [hb, hg] at h
      | some r' =>
        cases d
        · simp [hb, hg] at h
        · simp [hb, hg] at h
          exact ⟨rfl, h⟩

/-- the parser rejects a separator as the first character of a number (every variant) -/
theorem numericP_sepNotFirst (v : Numeric.Variant) : SepNotFirst (numericP v) := by
  constructor <;> rfl

/-! ## `concat` on a run at the head of the path -/

/-- last node of the non-empty run `f :: R` -/
def lastOf (f : Node) (R : List Node) : Node :=
  match R.getLast? with
  | some l => l
  | none => f

theorem getElem?_lastOf (f : Node) (R rest : List Node) :
    (f :: R ++ rest)[R.length]? = some (lastOf f R) := by
  unfold lastOf
  cases R with
  | nil => rfl
  | cons a R' =>
    have h1 : (f :: (a :: R') ++ rest)[(a :: R').length]? = (a :: R')[(a :: R').length - 1]? := by
      simp only [List.length_cons, List.cons_append, List.getElem?_cons_succ, Nat.add_sub_cancel]
      rw [← List.cons_append, List.getElem?_append_left (by simp)]
    rw [h1, ← List.getLast?_eq_getElem?]
    cases hl : (a :: R').getLast? with
    | none => simp at hl
    | some l => rfl

theorem block_head_run (f : Node) (R rest : List Node) :
    block (f :: R ++ rest) 0 (R.length + 1) = f :: R := by
  unfold block
  simp

/-- `concat_nodes` on the run `f :: R` at the head of the path -/
theorem concatNodes_head (f : Node) (R rest : List Node) (nf : Option (List Char))
    (hb : f.bb ≤ (lastOf f R).eb) (hh : sumHwl (f :: R) < 65536) :
    concatNodes (f :: R ++ rest) 0 (R.length + 1) nf =
      .ok (mergedNode f (lastOf f R) (f :: R) nf :: rest) := by
  unfold concatNodes
  have h0 : (f :: R ++ rest)[0]? = some f := rfl
  rw [if_neg (by omega), show R.length + 1 - 1 = R.length by omega, getElem?_lastOf, h0]
  simp only
  rw [if_neg (by omega), block_head_run, if_neg (by omega)]
  simp

/-- the token `concat` puts in the place of the run `f :: R` (or `f` itself when nothing is to do) -/
def joinedTok (cfg : NCfg) (P : List Char → POut) (f : Node) (R : List Node) : Node :=
  if cfg.enableNormalize then
    if R ≠ [] ∨ (P (accOf (f :: R))).norm ≠ normForm f then
      mergedNode f (lastOf f R) (f :: R) (some (P (accOf (f :: R))).norm)
    else f
  else if R ≠ [] then mergedNode f (lastOf f R) (f :: R) none
  else f

/-- `JoinNumericPlugin::concat` on a run at the head of the path whose first node has the numeral
part of speech -/
theorem nconcat_head (cfg : NCfg) (P : List Char → POut) (f : Node) (R rest : List Node)
    (hpos : f.pos = cfg.numPos) (hb : f.bb ≤ (lastOf f R).eb) (hh : sumHwl (f :: R) < 65536) :
    nconcat cfg P (f :: R ++ rest) 0 (R.length + 1) (accOf (f :: R)) =
      .ok (joinedTok cfg P f R :: rest) := by
  cases R with
  | nil =>
    have hc := concatNodes_head f [] rest (some (P (accOf [f])).norm) hb hh
    simp only [List.length_nil, Nat.zero_add, List.cons_append, List.nil_append] at hc
    unfold nconcat joinedTok
    have h0 : (f :: [] ++ rest)[0]? = some f := rfl
    rw [h0]
    cases hen : cfg.enableNormalize
    · simp [hpos]
    · by_cases hn : (P (accOf [f])).norm = normForm f
      · simp [hpos, hn]
      · simp [hpos, hn]
        exact hc
  | cons a R' =>
    rw [nconcat_gate_open cfg P _ 0 _ _ f rfl hpos (by simp), concatNodes_head f (a :: R') rest _ hb hh]
    unfold joinedTok
    cases hen : cfg.enableNormalize <;> simp

/-! ## closing a run with `done()` -/

/-- open run, the next node `m` is not a candidate, the parser is `done()`: `concat` on the whole run,
the loop resumes behind the joined token -/
theorem nstep_close_done (v : NVariant) (cfg : NCfg) (cat : List Nat) (P : List Char → POut) (st : NState)
    (m : Node) (ct : Nat) (hi : 0 ≤ st.i) (hb : 0 ≤ st.beginIdx)
    (hm : st.path[(st.i + 1).toNat]? = some m) (hc : catOfRange cat m.b m.e = some ct)
    (hcand : isCand st.comma st.period ct (normForm m) = false)
    (hdone : (P st.acc).done = true) :
    nstep v cfg cat P st =
      match nconcat cfg P st.path st.beginIdx.toNat (st.i + 1).toNat st.acc with
      | .ok p' => .ok (finState st (normForm m) p' (st.beginIdx + 1))
      | .err => .err | .panic => .panic | .fuel => .fuel := by
  unfold nstep
  unfold isCand at hcand
  simp only [show ¬ (st.i + 1 < 0) by omega, if_false, hm, hc, hcand, Bool.false_eq_true,
    show st.beginIdx ≥ 0 from hb, if_true, hdone]
  rfl

/-- a node that resets the loop is not a candidate under any flags -/
theorem resets_not_cand {cat : List Nat} {y : Node} (hy : Resets cat y) (c p : Bool) :
    ∃ ct, catOfRange cat y.b y.e = some ct ∧ isCand c p ct (normForm y) = false := by
  obtain ⟨ct, h1, h2, h3, h4⟩ := hy
  refine ⟨ct, h1, ?_⟩
  unfold isCand
  simp [h2, h3, h4]

/-- the hypotheses on a run of nodes, generic in the parser: every node is a candidate (numeric class,
or a separator by normalised form), the parser accepts the characters node by node and is `done()` at
the end; the head has the numeral part of speech; the two arithmetic side conditions of
`concat_nodes` (byte range, `u16` head-word length) -/
structure RunOK (cfg : NCfg) (cat : List Nat) (P : List Char → POut) (f : Node) (R : List Node) : Prop where
  cand : ∀ n ∈ f :: R, ∃ ct, catOfRange cat n.b n.e = some ct ∧ isCand true true ct (normForm n) = true
  acc : ∀ k, k < (f :: R).length →
    ¬ (P (accOf ((f :: R).take (k + 1)))).n < (accOf ((f :: R).take (k + 1))).length
  done : (P (accOf (f :: R))).done = true
  pos : f.pos = cfg.numPos
  bytes : f.bb ≤ (lastOf f R).eb
  hwl : sumHwl (f :: R) < 65536

/-- the run followed by a resetting node: explicit fuel -/
theorem nloop_run_reset (v : NVariant) (cfg : NCfg) (cat : List Nat) (P : List Char → POut)
    (f : Node) (R : List Node) (y : Node) (h : RunOK cfg cat P f R) (hy : Resets cat y) :
    nloop v cfg cat P (2 + (f :: R).length) (nInit (f :: R ++ [y])) = .ok [joinedTok cfg P f R, y] := by
  rw [nloop_run_init v cfg cat P f R [y] 2 h.cand h.acc]
  obtain ⟨ct, hct, hnc⟩ := resets_not_cand hy true true
  have hm : (f :: R ++ [y])[((R.length : Int) + 1).toNat]? = some y := by
    have : ((R.length : Int) + 1).toNat = (f :: R).length := by rw [List.length_cons]; omega
    rw [this, List.getElem?_append_right (Nat.le_refl _)]
    simp
  have hstep := nstep_close_done v cfg cat P
    { path := f :: R ++ [y], i := R.length, beginIdx := 0, comma := true, period := true, acc := accOf (f :: R) }
    y ct (by simp) (by simp) hm hct hnc h.done
  dsimp only at hstep
  have e1 : ((R.length : Int) + 1).toNat = R.length + 1 := by omega
  rw [Int.toNat_zero, e1, nconcat_head cfg P f R [y] h.pos h.bytes h.hwl] at hstep
  rw [nloop, if_pos (by simp <;> omega), hstep]
  dsimp only
  rw [nloop, if_neg (by simp [finState])]
  simp [ntail, finState]

/-- the run at the end of the path: explicit fuel -/
theorem nloop_run_end (v : NVariant) (cfg : NCfg) (cat : List Nat) (P : List Char → POut)
    (f : Node) (R : List Node) (h : RunOK cfg cat P f R) :
    nloop v cfg cat P (1 + (f :: R).length) (nInit (f :: R)) = .ok [joinedTok cfg P f R] := by
  have h0 := nloop_run_init v cfg cat P f R [] 1 h.cand h.acc
  rw [List.append_nil] at h0
  rw [h0, nloop, if_neg (by simp)]
  have hc := nconcat_head cfg P f R [] h.pos h.bytes h.hwl
  rw [List.append_nil] at hc
  simp only [ntail, ge_iff_le, Int.le_refl, if_true, h.done, Int.toNat_zero, List.length_cons, hc]

theorem joinNumeric_run_reset (cfg : NCfg) (cat : List Nat) (P : List Char → POut)
    (f : Node) (R : List Node) (y : Node) (h : RunOK cfg cat P f R) (hy : Resets cat y) :
    joinNumeric .fix cfg cat P (f :: R ++ [y]) = .ok [joinedTok cfg P f R, y] := by
  have hl := nloop_run_reset .fix cfg cat P f R y h hy
  unfold joinNumeric
  rw [← hl]
  exact nloop_fuel_indep .fix cfg cat P _ _ _ (joinNumeric_fix_ne_fuel cfg cat P _)
    (by rw [hl]; intro hh; cases hh)

theorem joinNumeric_run_end (cfg : NCfg) (cat : List Nat) (P : List Char → POut)
    (f : Node) (R : List Node) (h : RunOK cfg cat P f R) :
    joinNumeric .fix cfg cat P (f :: R) = .ok [joinedTok cfg P f R] := by
  have hl := nloop_run_end .fix cfg cat P f R h
  unfold joinNumeric
  rw [← hl]
  exact nloop_fuel_indep .fix cfg cat P _ _ _ (joinNumeric_fix_ne_fuel cfg cat P _)
    (by rw [hl]; intro hh; cases hh)

end RewriteNumeric
