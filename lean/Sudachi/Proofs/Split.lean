import Sudachi.Model.Split
/-!
# Lemmas about the split model (`Model/Split.lean`) for property C09
-/
namespace Split

/-! ## tokenizer state -/

theorem mem_normalize (s : Subset) (x : Nat) :
    x ∈ normalize s ↔ x ∈ s ∨ (x = SURFACE ∧ (READING_FORM ∈ s ∨ NORMALIZED_FORM ∈ s ∨ DIC_FORM_WORD_ID ∈ s)) ∨
      (x = HEAD_WORD_LENGTH ∧ (SPLIT_A ∈ s ∨ SPLIT_B ∈ s)) := by
  unfold normalize
  simp only [SURFACE, HEAD_WORD_LENGTH, READING_FORM, NORMALIZED_FORM, SPLIT_A, SPLIT_B, DIC_FORM_WORD_ID]
  by_cases h1 : (5 ∈ s ∨ 3 ∈ s ∨ 4 ∈ s) <;> by_cases h2 : (6 ∈ s ∨ 7 ∈ s) <;>
    simp [h1, h2] <;> grind

/-- the split field of the current mode is loaded -/
def ModeLoaded (t : Tok) : Prop := ∀ x ∈ modeSubset t.mode, x ∈ t.subset

theorem create_loaded (m : Mode) : ModeLoaded (create m) := by
  intro x hx
  cases m <;> simp [create, modeSubset, Subset.all, SPLIT_A, SPLIT_B] at hx ⊢ <;> omega

theorem setMode_loaded (t : Tok) (m : Mode) : ModeLoaded (setMode t m).1 := by
  intro x hx
  simp only [setMode] at hx ⊢
  exact List.mem_append_right _ hx

theorem setSubset_loaded (t : Tok) (s : Subset) : ModeLoaded (setSubset t s).1 := by
  intro x hx
  simp only [setSubset] at hx ⊢
  exact List.mem_append_right _ hx

theorem setSubset_mode (t : Tok) (s : Subset) : (setSubset t s).1.mode = t.mode := rfl
theorem setMode_mode (t : Tok) (m : Mode) : (setMode t m).1.mode = m := rfl

/-- `set_subset` keeps every requested field and adds the key length when the mode splits -/
theorem setSubset_contains (t : Tok) (s : Subset) :
    (∀ x ∈ s, x ∈ (setSubset t s).1.subset) ∧
    (t.mode ≠ Mode.C → HEAD_WORD_LENGTH ∈ (setSubset t s).1.subset) := by
  constructor
  · intro x hx
    simp only [setSubset]
    apply List.mem_append_left
    rw [mem_normalize]
    exact Or.inl (List.mem_append_left _ hx)
  · intro hm
    simp only [setSubset]
    apply List.mem_append_left
    rw [mem_normalize]
    refine Or.inr (Or.inr ⟨rfl, ?_⟩)
    cases hmode : t.mode
    · left; simp [modeSubset]
    · right; simp [modeSubset]
    · exact absurd hmode hm

theorem runOps_loaded : ∀ (ops : List Op) (t : Tok) (acc : List String),
    ModeLoaded t → ModeLoaded (runOps ops t acc).1
  | [], _, _, h => h
  | .new m :: rest, _, acc, _ => runOps_loaded rest (create m) acc (create_loaded m)
  | .sub s :: rest, t, acc, _ => by
    simp only [runOps]
    exact runOps_loaded rest _ _ (setSubset_loaded t s)
  | .md m :: rest, t, acc, _ => by
    simp only [runOps]
    exact runOps_loaded rest _ _ (setMode_loaded t m)

/-! ## the word-info reader -/

/-- a requested field that occurs in the layout is read -/
theorem parseGo_reads (g : Nat) : ∀ (fs : List (Nat × Bool)) (flds : Subset),
    g ∈ flds → g ∈ fs.map Prod.fst → g ∈ parseGo fs flds
  | [], _, _, h => by simp at h
  | (f, heavy) :: rest, flds, hg, hfs => by
    have hne : flds.isEmpty = false := by
      cases flds with
      | nil => simp at hg
      | cons _ _ => rfl
    simp only [parseGo, hne]
    by_cases hfg : f = g
    · subst hfg
      cases heavy <;> simp [hg]
    · have hg' : g ∈ flds.filter (· ≠ f) := by
        simp [List.mem_filter, hg, Ne.symm hfg]
      have hr : g ∈ rest.map Prod.fst := by
        simp only [List.map_cons, List.mem_cons] at hfs
        rcases hfs with h | h
        · exact absurd h.symm hfg
        · exact h
      cases heavy
      · simp only [Bool.false_eq_true, if_false]
        exact List.mem_cons_of_mem _ (parseGo_reads g rest _ hg' hr)
      · simp only [if_true]
        by_cases hf : f ∈ flds
        · simp only [hf, if_true]
          exact List.mem_cons_of_mem _ (parseGo_reads g rest _ hg' hr)
        · simp only [hf, if_false]
          exact parseGo_reads g rest _ hg hr

/-- whatever is read was requested or is a light field of the layout -/
theorem parseGo_sound (g : Nat) : ∀ (fs : List (Nat × Bool)) (flds : Subset),
    g ∈ parseGo fs flds → g ∈ flds ∨ (g, false) ∈ fs
  | [], _, h => by simp [parseGo] at h
  | (f, heavy) :: rest, flds, h => by
    simp only [parseGo] at h
    by_cases he : flds.isEmpty
    · simp [he] at h
    · simp only [he, Bool.false_eq_true, if_false] at h
      cases heavy
      · simp only [Bool.false_eq_true, if_false, List.mem_cons] at h
        rcases h with h | h
        · right; simp [h]
        · rcases parseGo_sound g rest _ h with h' | h'
          · left; exact (List.mem_filter.mp h').1
          · right; exact List.mem_cons_of_mem _ h'
      · simp only [if_true] at h
        by_cases hf : f ∈ flds
        · simp only [hf, if_true, List.mem_cons] at h
          rcases h with h | h
          · left; rw [h]; exact hf
          · rcases parseGo_sound g rest _ h with h' | h'
            · left; exact (List.mem_filter.mp h').1
            · right; exact List.mem_cons_of_mem _ h'
        · simp only [hf, if_false] at h
          rcases parseGo_sound g rest _ h with h' | h'
          · left; exact h'
          · right; exact List.mem_cons_of_mem _ h'

theorem splitA_read_iff (s : Subset) : SPLIT_A ∈ readFields s ↔ SPLIT_A ∈ s := by
  constructor
  · intro h
    rcases parseGo_sound _ _ _ h with h' | h'
    · exact h'
    · simp [fieldOrder, SPLIT_A] at h'
  · intro h
    exact parseGo_reads _ _ _ h (by simp [fieldOrder, SPLIT_A])

theorem splitB_read_iff (s : Subset) : SPLIT_B ∈ readFields s ↔ SPLIT_B ∈ s := by
  constructor
  · intro h
    rcases parseGo_sound _ _ _ h with h' | h'
    · exact h'
    · simp [fieldOrder, SPLIT_B] at h'
  · intro h
    exact parseGo_reads _ _ _ h (by simp [fieldOrder, SPLIT_B])

/-- the key length is written whenever some field behind it is requested — in particular a split
list (the reader has to walk past it and "light" fields are read unconditionally) -/
theorem hwl_read_of_later (s : Subset) (g : Nat) (hg : g ∈ s) (h0 : g ≠ SURFACE) :
    HEAD_WORD_LENGTH ∈ readFields s := by
  unfold readFields fieldOrder
  have hne : s.isEmpty = false := by
    cases s with
    | nil => simp at hg
    | cons _ _ => rfl
  have hg' : g ∈ s.filter (· ≠ 0) := by
    simp only [SURFACE] at h0
    simp [List.mem_filter, hg, h0]
  have hne' : (s.filter (· ≠ 0)).isEmpty = false := by
    cases hs : s.filter (· ≠ 0) with
    | nil => rw [hs] at hg'; simp at hg'
    | cons _ _ => rfl
  simp only [parseGo, hne, HEAD_WORD_LENGTH]
  by_cases h : 0 ∈ s
  · simp [h]; exact ⟨g, hg, by simpa [SURFACE] using h0⟩
  · simp [h]

/-! ## re-stamping -/

/-- what `update_dict_id` does to one stored id when read from dictionary `d` -/
def restamp (d : Nat) (r : Nat) : Nat := if dicOf r > 0 then mkId d (wordOf r) else r

theorem wordOf_le (r : Nat) : ¬ wordOf r > WORD_MASK := by
  unfold wordOf WORD_MASK DIC_SHIFT
  omega

theorem updateDictId_eq (d : Nat) (hd : d < 16) : ∀ l : List Nat,
    updateDictId l d = .ok (l.map (restamp d))
  | [] => rfl
  | id :: rest => by
    simp only [updateDictId, updateDictId_eq d hd rest, List.map_cons, restamp]
    by_cases h : dicOf id > 0
    · have h16 : ¬ d ≥ 16 := by omega
      simp [h, checkedId, h16, wordOf_le]
    · simp [h]

/-- `get_word_info_subset` on a word that exists: split lists are returned iff requested, each
user reference re-stamped with the id of the dictionary the word was read from, each system
reference untouched; the key length is returned whenever a split list is requested. -/
theorem getWordInfoSubset_eq (lex : Lex) (id : Nat) (s : Subset) (l : List Entry) (e : Entry)
    (hd : dicOf id < 16) (hl : lex[dicOf id]? = some l) (he : l[wordOf id]? = some e) :
    getWordInfoSubset lex id s = .ok
      ⟨if HEAD_WORD_LENGTH ∈ readFields s then e.hwl else 0,
       if SPLIT_A ∈ s then e.a.map (restamp (dicOf id)) else [],
       if SPLIT_B ∈ s then e.b.map (restamp (dicOf id)) else []⟩ := by
  simp only [getWordInfoSubset, hl, he, splitA_read_iff, splitB_read_iff]
  by_cases ha : SPLIT_A ∈ s <;> by_cases hb : SPLIT_B ∈ s <;>
    simp [ha, hb, updateDictId_eq _ hd]

/-! ## chains -/

/-- `Linked ns c b c' b'`: the nodes start at character `c` / byte `b`, each begins where the
previous one ended, the last ends at `c'` / `b'` -/
def Linked : List Node → Nat → Nat → Nat → Nat → Prop
  | [], c, b, c', b' => c = c' ∧ b = b'
  | n :: r, c, b, c', b' => n.cb = c ∧ n.bb = b ∧ Linked r n.ce n.be c' b'

theorem Linked_append : ∀ (l1 l2 : List Node) (c b c1 b1 c2 b2 : Nat),
    Linked l1 c b c1 b1 → Linked l2 c1 b1 c2 b2 → Linked (l1 ++ l2) c b c2 b2
  | [], l2, c, b, c1, b1, c2, b2, h1, h2 => by
    obtain ⟨rfl, rfl⟩ := h1; exact h2
  | n :: r, l2, c, b, c1, b1, c2, b2, h1, h2 => by
    obtain ⟨hc, hb, hr⟩ := h1
    exact ⟨hc, hb, Linked_append r l2 _ _ _ _ _ _ hr h2⟩

theorem Linked_bounds : ∀ (l : List Node) (c b c' b' : Nat), l ≠ [] → Linked l c b c' b' →
    c ∈ l.map (·.cb) ∧ b ∈ l.map (·.bb) ∧ c' ∈ l.map (·.ce) ∧ b' ∈ l.map (·.be)
  | [], _, _, _, _, h, _ => absurd rfl h
  | [n], c, b, c', b', _, h => by
    obtain ⟨hc, hb, hc', hb'⟩ := h
    simp [hc, hb, hc', hb']
  | n :: m :: r, c, b, c', b', _, h => by
    obtain ⟨hc, hb, hr⟩ := h
    have := Linked_bounds (m :: r) _ _ _ _ (by simp) hr
    obtain ⟨_, _, h3, h4⟩ := this
    refine ⟨by simp [hc], by simp [hb], ?_, ?_⟩
    · exact List.mem_cons_of_mem _ h3
    · exact List.mem_cons_of_mem _ h4

/-! ## `NodeSplitIterator` for arbitrary dictionaries -/

theorem splitGo_wids (cx : Ctx) : ∀ (ws : List Nat) (co bo ce be : Nat)
    (us : List Node), splitGo cx ws co bo ce be = .ok us → us.map (·.wid) = ws
  | [], _, _, _, _, us, h => by
    simp only [splitGo] at h; cases h; rfl
  | [wid], co, bo, ce, be, us, h => by
    simp only [splitGo] at h
    split at h <;> first | (cases h; rfl) | cases h
  | wid :: w2 :: rest, co, bo, ce, be, us, h => by
    simp only [splitGo] at h
    split at h
    · cases h
    · cases h
    · split at h
      · cases h
      · cases h
      · split at h
        · cases h
          rename_i r hr
          simp [splitGo_wids cx (w2 :: rest) _ _ _ _ r hr]
        · cases h
        · cases h

theorem splitGo_linked (cx : Ctx) : ∀ (ws : List Nat) (co bo ce be : Nat)
    (us : List Node), ws ≠ [] → splitGo cx ws co bo ce be = .ok us → Linked us co bo ce be
  | [], _, _, _, _, _, h, _ => absurd rfl h
  | [wid], co, bo, ce, be, us, _, h => by
    simp only [splitGo] at h
    split at h <;> first | (cases h; exact ⟨rfl, rfl, rfl, rfl⟩) | cases h
  | wid :: w2 :: rest, co, bo, ce, be, us, _, h => by
    simp only [splitGo] at h
    split at h
    · cases h
    · cases h
    · split at h
      · cases h
      · cases h
      · split at h
        · cases h
          rename_i r hr
          exact ⟨rfl, rfl, splitGo_linked cx (w2 :: rest) _ _ _ _ r (by simp) hr⟩
        · cases h
        · cases h

theorem splitGo_length (cx : Ctx) (ws : List Nat) (co bo ce be : Nat)
    (us : List Node) (h : splitGo cx ws co bo ce be = .ok us) : us.length = ws.length := by
  rw [← splitGo_wids cx ws co bo ce be us h]; simp

theorem split_linked (cx : Ctx) (n : Node) (m : Mode) (us : List Node)
    (hn : numSplits n m ≠ 0) (h : split cx n m = .ok us) : Linked us n.cb n.bb n.ce n.be := by
  cases m
  · exact splitGo_linked cx _ _ _ _ _ us (by intro h0; simp [numSplits, h0] at hn) h
  · exact splitGo_linked cx _ _ _ _ _ us (by intro h0; simp [numSplits, h0] at hn) h
  · simp [split] at h

theorem expand_linked (cx : Ctx) (m : Mode) (n : Node) (us : List Node)
    (h : expand cx m n = .ok us) : Linked us n.cb n.bb n.ce n.be := by
  unfold expand at h
  by_cases hle : numSplits n m ≤ 1
  · simp only [hle, if_true] at h
    cases h
    exact ⟨rfl, rfl, rfl, rfl⟩
  · simp only [hle, if_false] at h
    exact split_linked cx n m us (by omega) h

theorem expand_ne_nil (cx : Ctx) (m : Mode) (n : Node) (us : List Node)
    (h : expand cx m n = .ok us) : us ≠ [] := by
  unfold expand at h
  by_cases hle : numSplits n m ≤ 1
  · simp only [hle, if_true] at h
    cases h; simp
  · simp only [hle, if_false] at h
    cases m
    · have := splitGo_length cx _ _ _ _ _ us h
      intro h0; rw [h0] at this; simp [numSplits] at hle this; omega
    · have := splitGo_length cx _ _ _ _ _ us h
      intro h0; rw [h0] at this; simp [numSplits] at hle this; omega
    · simp [split] at h

/-- `split_path` cut at one node: the output is the output of the part before, the expansion of
the node, and the output of the part after, in this order -/
theorem splitPathGo_decompose (cx : Ctx) (m : Mode) :
    ∀ (p1 : List Node) (n : Node) (p2 out : List Node),
    splitPathGo cx m (p1 ++ n :: p2) = .ok out →
    ∃ o1 us o2, out = o1 ++ us ++ o2 ∧ splitPathGo cx m p1 = .ok o1 ∧
      expand cx m n = .ok us ∧ splitPathGo cx m p2 = .ok o2
  | [], n, p2, out, h => by
    simp only [List.nil_append, splitPathGo] at h
    split at h
    · rename_i us hus
      split at h
      · rename_i r hr
        cases h
        exact ⟨[], us, r, by simp, rfl, hus, hr⟩
      · cases h
      · cases h
    · cases h
    · cases h
  | a :: p1, n, p2, out, h => by
    simp only [List.cons_append, splitPathGo] at h
    split at h
    · rename_i ua hua
      split at h
      · rename_i r hr
        cases h
        obtain ⟨o1, us, o2, ho, h1, h2, h3⟩ := splitPathGo_decompose cx m p1 n p2 r hr
        refine ⟨ua ++ o1, us, o2, by simp [ho], ?_, h2, h3⟩
        simp [splitPathGo, hua, h1]
      · cases h
      · cases h
    · cases h
    · cases h

theorem splitPathGo_linked (cx : Ctx) (m : Mode) :
    ∀ (path out : List Node) (c b c' b' : Nat), splitPathGo cx m path = .ok out →
    Linked path c b c' b' → Linked out c b c' b'
  | [], out, c, b, c', b', h, hl => by
    simp only [splitPathGo] at h; cases h; exact hl
  | n :: rest, out, c, b, c', b', h, hl => by
    simp only [splitPathGo] at h
    obtain ⟨hc, hb, hr⟩ := hl
    split at h
    · rename_i us hus
      split at h
      · rename_i r hr'
        cases h
        have h1 := expand_linked cx m n us hus
        rw [hc, hb] at h1
        exact Linked_append us r _ _ _ _ _ _ h1 (splitPathGo_linked cx m rest r _ _ _ _ hr' hr)
      · cases h
      · cases h
    · cases h
    · cases h

/-! ## well-formed declarations: the units' keys concatenate to the text of the parent -/

theorem prefix_of_append_eq {α : Type} (k r d : List α) (m : Nat)
    (h : k ++ r = d.take m) :
    d.take k.length = k ∧ k.length ≤ m ∧ k.length ≤ d.length ∧ r = (d.drop k.length).take (m - k.length) := by
  have hlen : k.length + r.length = min m d.length := by
    have := congrArg List.length h
    simpa using this
  have h1 : k.length ≤ m := by omega
  have h2 : k.length ≤ d.length := by omega
  have h3 : (d.take m).take k.length = k := by
    rw [← h]; simp
  have h4 : (d.take m).drop k.length = r := by
    rw [← h]; simp
  refine ⟨?_, h1, h2, ?_⟩
  · rw [List.take_take] at h3
    rw [Nat.min_eq_left h1] at h3
    exact h3
  · rw [← h4, List.drop_take]

/-- byte length of a string of scalar values under the width function `w` (UTF-8: 1–4) -/
def bytes (w : Nat → Nat) (l : List Nat) : Nat := (l.map w).sum

/-- byte offset of character `k` of the text `cs` -/
def pre (w : Nat → Nat) (cs : List Nat) (k : Nat) : Nat := bytes w (cs.take k)

theorem pre_add (w : Nat → Nat) (cs : List Nat) (c j : Nat) :
    pre w cs (c + j) = pre w cs c + bytes w ((cs.drop c).take j) := by
  simp [pre, bytes, List.take_add, List.sum_append]

theorem pre_mono (w : Nat → Nat) (cs : List Nat) (c j : Nat) : pre w cs c ≤ pre w cs (c + j) := by
  rw [pre_add]; omega

theorem pre_le_total (w : Nat → Nat) (cs : List Nat) (k : Nat) (hk : k ≤ cs.length) :
    pre w cs k ≤ pre w cs cs.length := by
  have := pre_mono w cs k (cs.length - k)
  rwa [Nat.add_sub_cancel' hk] at this

/-- `mod_b2c` as `InputBuffer::build` fills it: every byte of character `i` holds `i`, then the
sentinel (number of characters; texts that reach the lattice are non-empty) -/
def mkB2cFrom (w : Nat → Nat) : Nat → List Nat → List Nat
  | i, [] => [i]
  | i, c :: cs => List.replicate (w c) i ++ mkB2cFrom w (i + 1) cs

/-- what `NodeSplitIterator` needs from `mod_b2c`: at the byte offset of character `k` it holds `k` -/
def B2cOk (w : Nat → Nat) (cs : List Nat) (b2c : List Nat) : Prop :=
  ∀ k, k ≤ cs.length → b2c[pre w cs k]? = some k

/-- what the repaired variant needs from `mod_c2b` -/
def C2bOk (w : Nat → Nat) (cs : List Nat) (c2b : List Nat) : Prop :=
  ∀ k, k ≤ cs.length → c2b[k]? = some (pre w cs k)

theorem mkB2cFrom_ok (w : Nat → Nat) (hw : ∀ c, 1 ≤ w c) : ∀ (cs : List Nat) (i k : Nat), k ≤ cs.length →
    (mkB2cFrom w i cs)[pre w cs k]? = some (i + k)
  | [], i, k, hk => by
    have : k = 0 := by simpa using hk
    subst this; simp [mkB2cFrom, pre, bytes]
  | c :: cs, i, 0, _ => by
    have := hw c
    simp only [mkB2cFrom, pre, bytes, List.take_zero, List.map_nil, List.sum_nil]
    rw [List.getElem?_append_left (by rw [List.length_replicate]; exact Nat.lt_of_lt_of_le Nat.zero_lt_one this)]
    rw [List.getElem?_replicate]
    simp [Nat.lt_of_lt_of_le Nat.zero_lt_one this]
  | c :: cs, i, k + 1, hk => by
    have hk' : k ≤ cs.length := by simpa using hk
    have ih := mkB2cFrom_ok w hw cs (i + 1) k hk'
    simp only [mkB2cFrom, pre, bytes, List.take_succ_cons, List.map_cons, List.sum_cons]
    rw [List.getElem?_append_right (by simp)]
    simp only [List.length_replicate, Nat.add_sub_cancel_left]
    simp only [pre, bytes] at ih
    rw [ih]; congr 1; omega

theorem mkB2c_ok (w : Nat → Nat) (hw : ∀ c, 1 ≤ w c) (cs : List Nat) : B2cOk w cs (mkB2cFrom w 0 cs) := by
  intro k hk
  simpa using mkB2cFrom_ok w hw cs 0 k hk

/-- the observable part of a node: unit id and the two ranges -/
def Node.core (n : Node) : Nat × Nat × Nat × Nat × Nat := (n.wid, n.cb, n.ce, n.bb, n.be)

/-- where the declared units lie when their keys are laid out one after the other from character `c` -/
def unitsSpec (w : Nat → Nat) (cs : List Nat) (key : Nat → List Nat) : List Nat → Nat → List (Nat × Nat × Nat × Nat × Nat)
  | [], _ => []
  | wid :: rest, c =>
    (wid, c, c + (key wid).length, pre w cs c, pre w cs (c + (key wid).length)) ::
      unitsSpec w cs key rest (c + (key wid).length)

/-- every unit's word info loads and its key length is the byte length of its key -/
def KeysLoaded (cx : Ctx) (w : Nat → Nat) (key : Nat → List Nat) (ws : List Nat) : Prop :=
  ∀ wid ∈ ws, ∃ info, getWordInfoSubset cx.lex wid cx.s = .ok info ∧ info.hwl = bytes w (key wid)

theorem asU16_id (x : Nat) (h : x < 65536) : asU16 x = x := Nat.mod_eq_of_lt h

theorem unitEnd_exact (cx : Ctx) (w : Nat → Nat) (cs : List Nat)
    (hb : B2cOk w cs cx.b2c) (hc : cx.v = Variant.d6fix → C2bOk w cs cx.c2b)
    (hsz : pre w cs cs.length < 65536 ∧ cs.length < 65536)
    (c j cend : Nat) (hj : c + j ≤ cend) (hcend : cend ≤ cs.length) :
    unitEnd cx (pre w cs c) (bytes w ((cs.drop c).take j)) (pre w cs cend) = .ok (c + j, pre w cs (c + j)) := by
  have hle : c + j ≤ cs.length := by omega
  have hp : pre w cs c + bytes w ((cs.drop c).take j) = pre w cs (c + j) := (pre_add w cs c j).symm
  have hlt : pre w cs (c + j) < 65536 := Nat.lt_of_le_of_lt (pre_le_total w cs _ hle) hsz.1
  have hcj : c + j < 65536 := by omega
  unfold unitEnd
  cases hv : cx.v
  · simp only [hp, hb _ hle, asU16_id _ hlt, asU16_id _ hcj]
  · have hmin : min (pre w cs (c + j)) (pre w cs cend) = pre w cs (c + j) := by
      apply Nat.min_eq_left
      have := pre_mono w cs (c + j) (cend - (c + j))
      rwa [Nat.add_sub_cancel' hj] at this
    simp only [hp, hmin, hb _ hle, hc hv _ hle, asU16_id _ hlt, asU16_id _ hcj]

/-- **placement of the units** (both variants): if the keys of the declared units concatenate to
the text `cs[c..cend)` and every unit's stored key length is its key's byte length, the iterator
does not panic and puts unit `i` exactly on the characters/bytes its key occupies. -/
theorem splitGo_exact (cx : Ctx) (w : Nat → Nat) (cs : List Nat) (key : Nat → List Nat)
    (hb : B2cOk w cs cx.b2c) (hc : cx.v = Variant.d6fix → C2bOk w cs cx.c2b)
    (hsz : pre w cs cs.length < 65536 ∧ cs.length < 65536) (cend : Nat) (hcend : cend ≤ cs.length) :
    ∀ (ws : List Nat) (c : Nat), ws ≠ [] → c ≤ cend → KeysLoaded cx w key ws →
      (ws.map key).flatten = (cs.drop c).take (cend - c) →
      ∃ us, splitGo cx ws c (pre w cs c) cend (pre w cs cend) = .ok us ∧
        us.map Node.core = unitsSpec w cs key ws c
  | [], _, h, _, _, _ => absurd rfl h
  | [wid], c, _, hle, hk, hcat => by
    obtain ⟨info, hi, _⟩ := hk wid (by simp)
    have hlen : (key wid).length = cend - c := by
      have := congrArg List.length hcat
      simp at this
      omega
    refine ⟨[⟨c, cend, pre w cs c, pre w cs cend, wid, info⟩], by simp [splitGo, hi], ?_⟩
    simp [Node.core, unitsSpec, hlen, Nat.add_sub_cancel' hle]
  | wid :: w2 :: rest, c, _, hle, hk, hcat => by
    obtain ⟨info, hi, hh⟩ := hk wid (by simp)
    have hcat' : key wid ++ ((w2 :: rest).map key).flatten = (cs.drop c).take (cend - c) := by
      simpa using hcat
    obtain ⟨h1, h2, _, h4⟩ := prefix_of_append_eq _ _ _ _ hcat'
    have hj : c + (key wid).length ≤ cend := by omega
    have hk' : KeysLoaded cx w key (w2 :: rest) := fun x hx => hk x (List.mem_cons_of_mem _ hx)
    have hcat2 : ((w2 :: rest).map key).flatten =
        (cs.drop (c + (key wid).length)).take (cend - (c + (key wid).length)) := by
      rw [h4, List.drop_drop, Nat.sub_sub]
    obtain ⟨us, hus, hcore⟩ := splitGo_exact cx w cs key hb hc hsz cend hcend (w2 :: rest)
      (c + (key wid).length) (by simp) hj hk' hcat2
    have hue := unitEnd_exact cx w cs hb hc hsz c (key wid).length cend hj hcend
    rw [h1] at hue
    refine ⟨⟨c, c + (key wid).length, pre w cs c, pre w cs (c + (key wid).length), wid, info⟩ :: us, ?_, ?_⟩
    · simp only [splitGo, hi, hh, hue, hus]
    · simp only [List.map_cons, unitsSpec, hcore]
      rfl

/-- the text under each unit of `unitsSpec` is that unit's key -/
theorem unitsSpec_text (w : Nat → Nat) (cs : List Nat) (key : Nat → List Nat) (cend : Nat) :
    ∀ (ws : List Nat) (c : Nat), c ≤ cend → (ws.map key).flatten = (cs.drop c).take (cend - c) →
      (unitsSpec w cs key ws c).map (fun u => (cs.drop u.2.1).take (u.2.2.1 - u.2.1)) = ws.map key
  | [], _, _, _ => rfl
  | wid :: rest, c, hle, hcat => by
    have hcat' : key wid ++ (rest.map key).flatten = (cs.drop c).take (cend - c) := by
      simpa using hcat
    obtain ⟨h1, h2, _, h4⟩ := prefix_of_append_eq _ _ _ _ hcat'
    have hcat2 : (rest.map key).flatten =
        (cs.drop (c + (key wid).length)).take (cend - (c + (key wid).length)) := by
      rw [h4, List.drop_drop, Nat.sub_sub]
    simp only [unitsSpec, List.map_cons, Nat.add_sub_cancel_left, h1]
    rw [unitsSpec_text w cs key cend rest _ (by omega) hcat2]

/-- the units of `unitsSpec` run forward, abut, and end where the keys end -/
theorem unitsSpec_chain (w : Nat → Nat) (cs : List Nat) (key : Nat → List Nat) :
    ∀ (ws : List Nat) (c : Nat) (us : List Node), us.map Node.core = unitsSpec w cs key ws c →
      Linked us c (pre w cs c) (c + (ws.map key).flatten.length) (pre w cs (c + (ws.map key).flatten.length)) ∧
      ∀ u ∈ us, u.cb ≤ u.ce ∧ u.bb ≤ u.be
  | [], c, us, h => by
    have : us = [] := by simpa [unitsSpec] using h
    subst this
    exact ⟨⟨by simp, by simp⟩, by simp⟩
  | wid :: rest, c, us, h => by
    cases us with
    | nil => simp [unitsSpec] at h
    | cons u us' =>
      simp only [List.map_cons, unitsSpec, List.cons.injEq] at h
      obtain ⟨hu, hr⟩ := h
      obtain ⟨ih1, ih2⟩ := unitsSpec_chain w cs key rest _ us' hr
      simp only [Node.core, Prod.mk.injEq] at hu
      obtain ⟨_, hcb, hce, hbb, hbe⟩ := hu
      refine ⟨⟨hcb, hbb, ?_⟩, ?_⟩
      · rw [hce, hbe]
        simpa [Nat.add_assoc] using ih1
      · intro x hx
        rcases List.mem_cons.mp hx with rfl | hx
        · rw [hcb, hce, hbb, hbe]
          exact ⟨by omega, pre_mono w cs c _⟩
        · exact ih2 x hx

/-- a linked chain of forward-running nodes has non-decreasing cut points (the form
`C01.surfaces_partition` asks for: `Mono (b :: cuts)`) -/
theorem linked_cuts_mono : ∀ (l : List Node) (c b c' b' : Nat), Linked l c b c' b' →
    (∀ u ∈ l, u.cb ≤ u.ce ∧ u.bb ≤ u.be) →
    (b :: l.map (·.be)).Pairwise (· ≤ ·) ∧ (c :: l.map (·.ce)).Pairwise (· ≤ ·) ∧ b ≤ b' ∧ c ≤ c'
  | [], c, b, c', b', h, _ => by
    obtain ⟨rfl, rfl⟩ := h; simp
  | n :: r, c, b, c', b', h, hf => by
    obtain ⟨hc, hb, hr⟩ := h
    obtain ⟨hn1, hn2⟩ := hf n (by simp)
    obtain ⟨i1, i2, i3, i4⟩ := linked_cuts_mono r _ _ _ _ hr (fun u hu => hf u (List.mem_cons_of_mem _ hu))
    rw [List.pairwise_cons] at i1 i2
    refine ⟨?_, ?_, by omega, by omega⟩
    · simp only [List.map_cons]
      rw [List.pairwise_cons]
      refine ⟨?_, List.pairwise_cons.mpr i1⟩
      intro x hx
      rcases List.mem_cons.mp hx with rfl | hx
      · omega
      · have := i1.1 x hx; omega
    · simp only [List.map_cons]
      rw [List.pairwise_cons]
      refine ⟨?_, List.pairwise_cons.mpr i2⟩
      intro x hx
      rcases List.mem_cons.mp hx with rfl | hx
      · omega
      · have := i2.1 x hx; omega

theorem splitPathGo_mem (cx : Ctx) (m : Mode) : ∀ (path out : List Node) (u : Node),
    splitPathGo cx m path = .ok out → u ∈ out → ∃ n ∈ path, ∃ us, expand cx m n = .ok us ∧ u ∈ us
  | [], out, u, h, hu => by
    simp only [splitPathGo] at h; cases h; simp at hu
  | n :: rest, out, u, h, hu => by
    simp only [splitPathGo] at h
    split at h
    · rename_i us hus
      split at h
      · rename_i r hr
        cases h
        rcases List.mem_append.mp hu with hu | hu
        · exact ⟨n, by simp, us, hus, hu⟩
        · obtain ⟨n', hn', us', h1, h2⟩ := splitPathGo_mem cx m rest r u hr hu
          exact ⟨n', List.mem_cons_of_mem _ hn', us', h1, h2⟩
      · cases h
      · cases h
    · cases h
    · cases h

/-! ## the result does not depend on the other subset bits -/

/-- map the payload of an outcome -/
def Outcome.map {α β : Type} (f : α → β) : Outcome α → Outcome β
  | .ok a => .ok (f a)
  | .err k => .err k
  | .panic w => .panic w

/-- the observable part of a tokenisation: outcome class and, per token, unit id and both ranges -/
def coreOut (o : Outcome (List Node)) : Outcome (List (Nat × Nat × Nat × Nat × Nat)) := o.map (List.map Node.core)

/-- `id` names an existing word of the lexicon set (dictionary id fits the 4 bits of a `WordId`) -/
def Resolves (lex : Lex) (id : Nat) : Prop :=
  dicOf id < 16 ∧ ∃ l e, lex[dicOf id]? = some l ∧ l[wordOf id]? = some e

/-- `get_word_info_subset` either panics in the same way for every subset (no such dictionary / word)
or the word exists -/
theorem gwis_cases (lex : Lex) (id : Nat) :
    (∃ w, ∀ s, getWordInfoSubset lex id s = .panic w) ∨
    (∃ l e, lex[dicOf id]? = some l ∧ l[wordOf id]? = some e) := by
  cases hl : lex[dicOf id]? with
  | none => left; exact ⟨"lexicons[dict_id]: index out of bounds", fun s => by simp [getWordInfoSubset, hl]⟩
  | some l =>
    cases he : l[wordOf id]? with
    | none => left; exact ⟨"word id outside the offset table", fun s => by simp [getWordInfoSubset, hl, he]⟩
    | some e => right; exact ⟨l, e, rfl, he⟩

/-- the split list of mode `m` in a loaded word info -/
def Info.splits (i : Info) : Mode → List Nat
  | .A => i.a
  | .B => i.b
  | .C => []

theorem splitsOf_eq (n : Node) (m : Mode) : splitsOf n m = n.info.splits m := by
  cases m <;> rfl

theorem dicOf_restamp (d r : Nat) (hd : d < 16) : dicOf (restamp d r) < 16 := by
  unfold restamp
  by_cases h : dicOf r > 0
  · simp only [h, if_true]
    unfold mkId dicOf wordOf DIC_SHIFT
    omega
  · simp only [h, if_false]; omega

/-- what two subsets that both hold the split field of mode `m` agree on, for every word: outcome
class, key length, the unit list of the mode; and the units again have 4-bit dictionary ids -/
theorem gwis_agree (lex : Lex) (id : Nat) (s s' : Subset) (m : Mode)
    (hs : ∀ x ∈ modeSubset m, x ∈ s) (hs' : ∀ x ∈ modeSubset m, x ∈ s') (hm : m ≠ Mode.C) (hd : dicOf id < 16) :
    (∃ w, getWordInfoSubset lex id s = .panic w ∧ getWordInfoSubset lex id s' = .panic w) ∨
    (∃ i i', getWordInfoSubset lex id s = .ok i ∧ getWordInfoSubset lex id s' = .ok i' ∧
      i.hwl = i'.hwl ∧ i.splits m = i'.splits m ∧ ∀ x ∈ i.splits m, dicOf x < 16) := by
  rcases gwis_cases lex id with ⟨w, hw⟩ | ⟨l, e, hl, he⟩
  · left; exact ⟨w, hw s, hw s'⟩
  · right
    refine ⟨_, _, getWordInfoSubset_eq lex id s l e hd hl he, getWordInfoSubset_eq lex id s' l e hd hl he, ?_, ?_, ?_⟩
    · cases m
      · have h1 := hwl_read_of_later s SPLIT_A (hs _ (by simp [modeSubset])) (by decide)
        have h2 := hwl_read_of_later s' SPLIT_A (hs' _ (by simp [modeSubset])) (by decide)
        simp [h1, h2]
      · have h1 := hwl_read_of_later s SPLIT_B (hs _ (by simp [modeSubset])) (by decide)
        have h2 := hwl_read_of_later s' SPLIT_B (hs' _ (by simp [modeSubset])) (by decide)
        simp [h1, h2]
      · exact absurd rfl hm
    · cases m
      · have h1 : SPLIT_A ∈ s := hs _ (by simp [modeSubset])
        have h2 : SPLIT_A ∈ s' := hs' _ (by simp [modeSubset])
        simp [Info.splits, h1, h2]
      · have h1 : SPLIT_B ∈ s := hs _ (by simp [modeSubset])
        have h2 : SPLIT_B ∈ s' := hs' _ (by simp [modeSubset])
        simp [Info.splits, h1, h2]
      · exact absurd rfl hm
    · intro x hx
      cases m
      · have h1 : SPLIT_A ∈ s := hs _ (by simp [modeSubset])
        simp only [Info.splits, h1, if_true, List.mem_map] at hx
        obtain ⟨r, _, rfl⟩ := hx
        exact dicOf_restamp _ _ hd
      · have h1 : SPLIT_B ∈ s := hs _ (by simp [modeSubset])
        simp only [Info.splits, h1, if_true, List.mem_map] at hx
        obtain ⟨r, _, rfl⟩ := hx
        exact dicOf_restamp _ _ hd
      · exact absurd rfl hm

/-- the iterator's observable output is the same under both subsets (the sub-tokens' own word infos
differ: they are loaded with the respective subset) -/
theorem splitGo_agree (v : Variant) (lex : Lex) (b2c c2b : List Nat) (s s' : Subset) (m : Mode)
    (hs : ∀ x ∈ modeSubset m, x ∈ s) (hs' : ∀ x ∈ modeSubset m, x ∈ s') (hm : m ≠ Mode.C) :
    ∀ (ws : List Nat) (co bo cend bend : Nat), (∀ x ∈ ws, dicOf x < 16) →
      coreOut (splitGo ⟨v, lex, s, b2c, c2b⟩ ws co bo cend bend) =
      coreOut (splitGo ⟨v, lex, s', b2c, c2b⟩ ws co bo cend bend)
  | [], _, _, _, _, _ => rfl
  | [wid], co, bo, cend, bend, hd => by
    rcases gwis_agree lex wid s s' m hs hs' hm (hd wid (by simp)) with ⟨w, h1, h2⟩ | ⟨i, i', h1, h2, _, _, _⟩
    · simp [splitGo, h1, h2, coreOut, Outcome.map]
    · simp [splitGo, h1, h2, coreOut, Outcome.map, Node.core]
  | wid :: w2 :: rest, co, bo, cend, bend, hd => by
    rcases gwis_agree lex wid s s' m hs hs' hm (hd wid (by simp)) with ⟨w, h1, h2⟩ | ⟨i, i', h1, h2, hh, _, _⟩
    · simp [splitGo, h1, h2, coreOut, Outcome.map]
    · have hue : unitEnd ⟨v, lex, s, b2c, c2b⟩ bo i.hwl bend = unitEnd ⟨v, lex, s', b2c, c2b⟩ bo i'.hwl bend := by
        rw [hh]; rfl
      simp only [splitGo, h1, h2, hue]
      cases hu : unitEnd ⟨v, lex, s', b2c, c2b⟩ bo i'.hwl bend with
      | err k => rfl
      | panic w => rfl
      | ok p =>
        obtain ⟨ce, be⟩ := p
        have ih := splitGo_agree v lex b2c c2b s s' m hs hs' hm (w2 :: rest) ce be cend bend
          (fun x hx => hd x (List.mem_cons_of_mem _ hx))
        simp only [coreOut] at ih ⊢
        cases h3 : splitGo ⟨v, lex, s, b2c, c2b⟩ (w2 :: rest) ce be cend bend <;>
          cases h4 : splitGo ⟨v, lex, s', b2c, c2b⟩ (w2 :: rest) ce be cend bend <;>
          simp [h3, h4, Outcome.map] at ih ⊢
        · simp [Node.core, ih]
        · exact ih
        · exact ih

/-- two resolved nodes that differ only in what else their word infos hold -/
def NodeAgree (m : Mode) (n n' : Node) : Prop :=
  n.cb = n'.cb ∧ n.ce = n'.ce ∧ n.bb = n'.bb ∧ n.be = n'.be ∧ n.wid = n'.wid ∧
    n.info.splits m = n'.info.splits m ∧ ∀ x ∈ n.info.splits m, dicOf x < 16

/-- one iteration of `resolve_best_path` under either subset: same outcome, nodes agree -/
theorem resolveNode_agree (lex : Lex) (c2b : List Nat) (s s' : Subset) (m : Mode)
    (hs : ∀ x ∈ modeSubset m, x ∈ s) (hs' : ∀ x ∈ modeSubset m, x ∈ s') (r : RawNode) (hd : dicOf r.wid < 16) :
    (∃ w, resolveNode lex s c2b r = .panic w ∧ resolveNode lex s' c2b r = .panic w) ∨
    (∃ n n', resolveNode lex s c2b r = .ok n ∧ resolveNode lex s' c2b r = .ok n' ∧ NodeAgree m n n') := by
  unfold resolveNode
  by_cases hsyn : (r.syn || isOov r.wid) = true
  · simp only [hsyn, if_true]
    cases hb : currByteIdx c2b r.cb with
    | err k => simp [currByteIdx] at hb; split at hb <;> cases hb
    | panic w => left; exact ⟨w, rfl, rfl⟩
    | ok bb =>
      cases he : currByteIdx c2b r.ce with
      | err k => simp [currByteIdx] at he; split at he <;> cases he
      | panic w => left; exact ⟨w, rfl, rfl⟩
      | ok be =>
        right
        exact ⟨_, _, rfl, rfl, rfl, rfl, rfl, rfl, rfl, rfl, by cases m <;> simp [Info.splits, Info.empty]⟩
  · simp only [hsyn]
    have key : (∃ w, getWordInfoSubset lex r.wid s = .panic w ∧ getWordInfoSubset lex r.wid s' = .panic w) ∨
        (∃ i i', getWordInfoSubset lex r.wid s = .ok i ∧ getWordInfoSubset lex r.wid s' = .ok i' ∧
          i.splits m = i'.splits m ∧ ∀ x ∈ i.splits m, dicOf x < 16) := by
      by_cases hm : m = Mode.C
      · subst hm
        rcases gwis_cases lex r.wid with ⟨w, hw⟩ | ⟨l, e, hl, he⟩
        · left; exact ⟨w, hw s, hw s'⟩
        · right
          exact ⟨_, _, getWordInfoSubset_eq lex r.wid s l e hd hl he, getWordInfoSubset_eq lex r.wid s' l e hd hl he,
            rfl, by simp [Info.splits]⟩
      · rcases gwis_agree lex r.wid s s' m hs hs' hm hd with ⟨w, h1, h2⟩ | ⟨i, i', h1, h2, _, h4, h5⟩
        · left; exact ⟨w, h1, h2⟩
        · right; exact ⟨i, i', h1, h2, h4, h5⟩
    rcases key with ⟨w, h1, h2⟩ | ⟨i, i', h1, h2, h3, h4⟩
    · left; exact ⟨w, by simp [h1], by simp [h2]⟩
    · simp only [Bool.false_eq_true, if_false, h1, h2]
      cases hb : currByteIdx c2b r.cb with
      | err k => simp [currByteIdx] at hb; split at hb <;> cases hb
      | panic w => left; exact ⟨w, rfl, rfl⟩
      | ok bb =>
        cases he : currByteIdx c2b r.ce with
        | err k => simp [currByteIdx] at he; split at he <;> cases he
        | panic w => left; exact ⟨w, rfl, rfl⟩
        | ok be => right; exact ⟨_, _, rfl, rfl, rfl, rfl, rfl, rfl, rfl, h3, h4⟩

/-- `split_path`'s loop body on agreeing nodes -/
theorem expand_agree (v : Variant) (lex : Lex) (b2c c2b : List Nat) (s s' : Subset) (m : Mode)
    (hs : ∀ x ∈ modeSubset m, x ∈ s) (hs' : ∀ x ∈ modeSubset m, x ∈ s') (n n' : Node) (h : NodeAgree m n n') :
    coreOut (expand ⟨v, lex, s, b2c, c2b⟩ m n) = coreOut (expand ⟨v, lex, s', b2c, c2b⟩ m n') := by
  obtain ⟨h1, h2, h3, h4, h5, h6, h7⟩ := h
  simp only [expand, numSplits, splitsOf_eq, h6]
  by_cases hle : (n'.info.splits m).length ≤ 1
  · simp [hle, coreOut, Outcome.map, Node.core, h1, h2, h3, h4, h5]
  · simp only [hle, if_false]
    have hm : m ≠ Mode.C := by
      intro hc; subst hc; simp [Info.splits] at hle
    have hsplit : ∀ (s0 : Subset) (n0 : Node), split ⟨v, lex, s0, b2c, c2b⟩ n0 m =
        splitGo ⟨v, lex, s0, b2c, c2b⟩ (n0.info.splits m) n0.cb n0.bb n0.ce n0.be := by
      intro s0 n0
      cases m
      · rfl
      · rfl
      · exact absurd rfl hm
    rw [hsplit s n, hsplit s' n', h6, h1, h2, h3, h4]
    exact splitGo_agree v lex b2c c2b s s' m hs hs' hm _ _ _ _ _ (by rw [← h6]; exact h7)

def PathAgree (m : Mode) : List Node → List Node → Prop
  | [], [] => True
  | n :: r, n' :: r' => NodeAgree m n n' ∧ PathAgree m r r'
  | _, _ => False

theorem splitPathGo_agree (v : Variant) (lex : Lex) (b2c c2b : List Nat) (s s' : Subset) (m : Mode)
    (hs : ∀ x ∈ modeSubset m, x ∈ s) (hs' : ∀ x ∈ modeSubset m, x ∈ s') :
    ∀ (p p' : List Node), PathAgree m p p' →
      coreOut (splitPathGo ⟨v, lex, s, b2c, c2b⟩ m p) = coreOut (splitPathGo ⟨v, lex, s', b2c, c2b⟩ m p')
  | [], [], _ => rfl
  | [], _ :: _, h => absurd h (by simp [PathAgree])
  | _ :: _, [], h => absurd h (by simp [PathAgree])
  | n :: r, n' :: r', h => by
    obtain ⟨hn, hr⟩ := h
    have h1 := expand_agree v lex b2c c2b s s' m hs hs' n n' hn
    have h2 := splitPathGo_agree v lex b2c c2b s s' m hs hs' r r' hr
    simp only [splitPathGo]
    simp only [coreOut] at h1 h2 ⊢
    cases e1 : expand ⟨v, lex, s, b2c, c2b⟩ m n <;> cases e2 : expand ⟨v, lex, s', b2c, c2b⟩ m n' <;>
      simp [e1, e2, Outcome.map] at h1 ⊢
    · cases g1 : splitPathGo ⟨v, lex, s, b2c, c2b⟩ m r <;> cases g2 : splitPathGo ⟨v, lex, s', b2c, c2b⟩ m r' <;>
        simp [g1, g2, Outcome.map] at h2 ⊢
      · simp [h1, h2]
      · exact h2
      · exact h2
    · exact h1
    · exact h1

theorem splitPath_agree (v : Variant) (lex : Lex) (b2c c2b : List Nat) (s s' : Subset) (m : Mode)
    (hs : ∀ x ∈ modeSubset m, x ∈ s) (hs' : ∀ x ∈ modeSubset m, x ∈ s') (p p' : List Node) (h : PathAgree m p p') :
    coreOut (splitPath ⟨v, lex, s, b2c, c2b⟩ m p) = coreOut (splitPath ⟨v, lex, s', b2c, c2b⟩ m p') := by
  unfold splitPath
  by_cases hm : m = Mode.C
  · simp only [hm, if_true, coreOut, Outcome.map]
    subst hm
    congr 1
    induction p generalizing p' with
    | nil => cases p' with
      | nil => rfl
      | cons _ _ => simp [PathAgree] at h
    | cons n r ih =>
      cases p' with
      | nil => simp [PathAgree] at h
      | cons n' r' =>
        obtain ⟨⟨h1, h2, h3, h4, h5, _⟩, hr⟩ := h
        simp [Node.core, h1, h2, h3, h4, h5, ih r' hr]
  · simp only [hm, if_false]
    exact splitPathGo_agree v lex b2c c2b s s' m hs hs' p p' h

theorem resolvePath_agree (lex : Lex) (c2b : List Nat) (s s' : Subset) (m : Mode)
    (hs : ∀ x ∈ modeSubset m, x ∈ s) (hs' : ∀ x ∈ modeSubset m, x ∈ s') :
    ∀ (raws : List RawNode), (∀ r ∈ raws, dicOf r.wid < 16) →
      (∃ w, resolvePath lex s c2b raws = .panic w ∧ resolvePath lex s' c2b raws = .panic w) ∨
      (∃ p p', resolvePath lex s c2b raws = .ok p ∧ resolvePath lex s' c2b raws = .ok p' ∧ PathAgree m p p')
  | [], _ => Or.inr ⟨[], [], rfl, rfl, trivial⟩
  | r :: rest, hd => by
    simp only [resolvePath]
    rcases resolveNode_agree lex c2b s s' m hs hs' r (hd r (by simp)) with ⟨w, h1, h2⟩ | ⟨n, n', h1, h2, hn⟩
    · left; exact ⟨w, by simp [h1], by simp [h2]⟩
    · rcases resolvePath_agree lex c2b s s' m hs hs' rest (fun x hx => hd x (List.mem_cons_of_mem _ hx)) with
        ⟨w, g1, g2⟩ | ⟨p, p', g1, g2, hp⟩
      · left; exact ⟨w, by simp [h1, g1], by simp [h2, g2]⟩
      · right; exact ⟨n :: p, n' :: p', by simp [h1, g1], by simp [h2, g2], hn, hp⟩

/-- resolve + `split_path` over a whole path, observable part -/
def directCore (v : Variant) (lex : Lex) (b2c c2b : List Nat) (s : Subset) (m : Mode) (raws : List RawNode) :
    Outcome (List (Nat × Nat × Nat × Nat × Nat)) :=
  coreOut (match resolvePath lex s c2b raws with
    | .ok p => splitPath ⟨v, lex, s, b2c, c2b⟩ m p
    | .err k => .err k
    | .panic w => .panic w)

/-! ## `set_mode` does not re-normalise: the HEAD_WORD_LENGTH bit does not matter -/

theorem isEmpty_congr (f1 f2 : Subset) (h : ∀ x, x ∈ f1 ↔ x ∈ f2) : f1.isEmpty = f2.isEmpty := by
  cases f1 with
  | nil =>
    cases f2 with
    | nil => rfl
    | cons a _ => exact absurd ((h a).mpr (by simp)) (by simp)
  | cons a _ =>
    cases f2 with
    | nil => exact absurd ((h a).mp (by simp)) (by simp)
    | cons _ _ => rfl

/-- the reader only asks "is this field requested" and "is anything still requested": two requests
with the same members are read identically -/
theorem parseGo_congr : ∀ (fs : List (Nat × Bool)) (f1 f2 : Subset), (∀ x, x ∈ f1 ↔ x ∈ f2) →
    parseGo fs f1 = parseGo fs f2
  | [], _, _, _ => rfl
  | (f, heavy) :: rest, f1, f2, h => by
    have hf : ∀ x, x ∈ f1.filter (· ≠ f) ↔ x ∈ f2.filter (· ≠ f) := by
      intro x; simp only [List.mem_filter, h x]
    simp only [parseGo, isEmpty_congr f1 f2 h]
    by_cases he : f2.isEmpty
    · simp [he]
    · simp only [he, Bool.false_eq_true, if_false]
      cases heavy
      · simp only [Bool.false_eq_true, if_false]
        rw [parseGo_congr rest _ _ hf]
      · simp only [if_true]
        by_cases hm : f ∈ f2
        · simp only [(h f).mpr hm, hm, if_true]
          rw [parseGo_congr rest _ _ hf]
        · have hm1 : f ∉ f1 := fun hc => hm ((h f).mp hc)
          simp only [hm1, hm, if_false]
          exact parseGo_congr rest _ _ h

theorem parseGo_heavy_in (f : Nat) (rest : List (Nat × Bool)) (flds : Subset) (hne : flds.isEmpty = false)
    (h : f ∈ flds) : parseGo ((f, true) :: rest) flds = f :: parseGo rest (flds.filter (· ≠ f)) := by
  simp [parseGo, hne, h]

theorem parseGo_heavy_out (f : Nat) (rest : List (Nat × Bool)) (flds : Subset) (hne : flds.isEmpty = false)
    (h : f ∉ flds) : parseGo ((f, true) :: rest) flds = parseGo rest flds := by
  simp [parseGo, hne, h]

theorem parseGo_light (f : Nat) (rest : List (Nat × Bool)) (flds : Subset) (hne : flds.isEmpty = false) :
    parseGo ((f, false) :: rest) flds = f :: parseGo rest (flds.filter (· ≠ f)) := by
  simp [parseGo, hne]

/-- **two requests that differ at most in the HEAD_WORD_LENGTH bit and ask for some field stored behind
it load exactly the same fields** (the key length is a "light" field: written whenever the reader
walks past it) -/
theorem readFields_hwl_bit_irrelevant (s1 s2 : Subset) (h : ∀ x, x ≠ HEAD_WORD_LENGTH → (x ∈ s1 ↔ x ∈ s2))
    (g : Nat) (hg : g ∈ s1) (hg0 : g ≠ SURFACE) (hg1 : g ≠ HEAD_WORD_LENGTH) :
    readFields s1 = readFields s2 := by
  have hg2 : g ∈ s2 := (h g hg1).mp hg
  simp only [SURFACE, HEAD_WORD_LENGTH] at hg0 hg1 h
  have ne1 : s1.isEmpty = false := by cases s1 with | nil => simp at hg | cons _ _ => rfl
  have ne2 : s2.isEmpty = false := by cases s2 with | nil => simp at hg2 | cons _ _ => rfl
  have ne1' : (s1.filter (· ≠ 0)).isEmpty = false := by
    have : g ∈ s1.filter (· ≠ 0) := by simp [List.mem_filter, hg, hg0]
    cases hs : s1.filter (· ≠ 0) with
    | nil => rw [hs] at this; simp at this
    | cons _ _ => rfl
  have ne2' : (s2.filter (· ≠ 0)).isEmpty = false := by
    have : g ∈ s2.filter (· ≠ 0) := by simp [List.mem_filter, hg2, hg0]
    cases hs : s2.filter (· ≠ 0) with
    | nil => rw [hs] at this; simp at this
    | cons _ _ => rfl
  have h0 : (0 ∈ s1) ↔ (0 ∈ s2) := h 0 (by decide)
  unfold readFields fieldOrder
  by_cases z : 0 ∈ s2
  · have z1 : 0 ∈ s1 := h0.mpr z
    rw [parseGo_heavy_in 0 _ s1 ne1 z1, parseGo_heavy_in 0 _ s2 ne2 z,
      parseGo_light 1 _ _ ne1', parseGo_light 1 _ _ ne2']
    congr 2
    apply parseGo_congr
    intro x
    simp only [List.mem_filter, decide_eq_true_eq]
    by_cases hx : x = 1
    · simp [hx]
    · simp [hx, h x hx]
  · have z1 : 0 ∉ s1 := fun hc => z (h0.mp hc)
    rw [parseGo_heavy_out 0 _ s1 ne1 z1, parseGo_heavy_out 0 _ s2 ne2 z,
      parseGo_light 1 _ _ ne1, parseGo_light 1 _ _ ne2]
    congr 1
    apply parseGo_congr
    intro x
    simp only [List.mem_filter, decide_eq_true_eq]
    by_cases hx : x = 1
    · simp [hx]
    · simp [hx, h x hx]

/-- consequently `get_word_info_subset` is the same function for both requests -/
theorem gwis_hwl_bit_irrelevant (lex : Lex) (id : Nat) (s1 s2 : Subset)
    (h : ∀ x, x ≠ HEAD_WORD_LENGTH → (x ∈ s1 ↔ x ∈ s2))
    (g : Nat) (hg : g ∈ s1) (hg0 : g ≠ SURFACE) (hg1 : g ≠ HEAD_WORD_LENGTH) :
    getWordInfoSubset lex id s1 = getWordInfoSubset lex id s2 := by
  have hr := readFields_hwl_bit_irrelevant s1 s2 h g hg hg0 hg1
  have ha : (SPLIT_A ∈ s1) ↔ (SPLIT_A ∈ s2) := h _ (by decide)
  have hb : (SPLIT_B ∈ s1) ↔ (SPLIT_B ∈ s2) := h _ (by decide)
  unfold getWordInfoSubset
  simp only [hr, ha, hb]

/-- everything `split` and `resolve_best_path` do with the subset goes through `get_word_info_subset` -/
theorem splitGo_congr (v : Variant) (lex : Lex) (b2c c2b : List Nat) (s1 s2 : Subset)
    (h : ∀ id, getWordInfoSubset lex id s1 = getWordInfoSubset lex id s2) :
    ∀ (ws : List Nat) (co bo cend bend : Nat),
      splitGo ⟨v, lex, s1, b2c, c2b⟩ ws co bo cend bend = splitGo ⟨v, lex, s2, b2c, c2b⟩ ws co bo cend bend
  | [], _, _, _, _ => rfl
  | [wid], co, bo, cend, bend => by simp only [splitGo, h wid]
  | wid :: w2 :: rest, co, bo, cend, bend => by
    simp only [splitGo, h wid]
    cases getWordInfoSubset lex wid s2 with
    | err k => rfl
    | panic w => rfl
    | ok info =>
      have hue : unitEnd ⟨v, lex, s1, b2c, c2b⟩ bo info.hwl bend = unitEnd ⟨v, lex, s2, b2c, c2b⟩ bo info.hwl bend := rfl
      simp only [hue]
      cases unitEnd ⟨v, lex, s2, b2c, c2b⟩ bo info.hwl bend with
      | err k => rfl
      | panic w => rfl
      | ok p =>
        obtain ⟨ce, be⟩ := p
        simp only [splitGo_congr v lex b2c c2b s1 s2 h (w2 :: rest) ce be cend bend]

theorem splitPath_congr (v : Variant) (lex : Lex) (b2c c2b : List Nat) (s1 s2 : Subset)
    (h : ∀ id, getWordInfoSubset lex id s1 = getWordInfoSubset lex id s2) (m : Mode) (p : List Node) :
    splitPath ⟨v, lex, s1, b2c, c2b⟩ m p = splitPath ⟨v, lex, s2, b2c, c2b⟩ m p := by
  unfold splitPath
  by_cases hm : m = Mode.C
  · simp [hm]
  · simp only [hm, if_false]
    induction p with
    | nil => rfl
    | cons n r ih =>
      have he : expand ⟨v, lex, s1, b2c, c2b⟩ m n = expand ⟨v, lex, s2, b2c, c2b⟩ m n := by
        unfold expand
        by_cases hle : numSplits n m ≤ 1
        · simp [hle]
        · simp only [hle, if_false]
          cases m
          · exact splitGo_congr v lex b2c c2b s1 s2 h _ _ _ _ _
          · exact splitGo_congr v lex b2c c2b s1 s2 h _ _ _ _ _
          · exact absurd rfl hm
      simp only [splitPathGo, he, ih]

theorem resolvePath_congr (lex : Lex) (c2b : List Nat) (s1 s2 : Subset)
    (h : ∀ id, getWordInfoSubset lex id s1 = getWordInfoSubset lex id s2) (raws : List RawNode) :
    resolvePath lex s1 c2b raws = resolvePath lex s2 c2b raws := by
  induction raws with
  | nil => rfl
  | cons r rest ih => simp only [resolvePath, resolveNode, h r.wid, ih]

/-! ## the repaired iterator is total: clause 1 without "if `split_path` returns" -/

/-- the range facts of a built buffer of `nb` bytes (cf. C03 `TablesRange`): `mod_b2c[i]` exists for every
`i ≤ nb` and is an index of `mod_c2b` -/
def TablesRange (b2c c2b : List Nat) (nb : Nat) : Prop :=
  ∀ i, i ≤ nb → ∃ c : Nat, b2c[i]? = some c ∧ ∃ b : Nat, c2b[c]? = some b

/-- every stored reference names an existing word once re-stamped with its owner's dictionary id — what
`validate_entries` (builder) checks for every split of every row, for at most 15 user dictionaries -/
def LexClosed (lex : Lex) : Prop :=
  ∀ (d : Nat) (l : List Entry), d < 16 → lex[d]? = some l → ∀ e ∈ l, ∀ r ∈ e.a ++ e.b, Resolves lex (restamp d r)

theorem unitEnd_d6fix_ok (cx : Ctx) (hv : cx.v = Variant.d6fix) (nb : Nat) (hr : TablesRange cx.b2c cx.c2b nb)
    (bend : Nat) (he : bend ≤ nb) (bo hwl : Nat) : ∃ ce be, unitEnd cx bo hwl bend = .ok (ce, be) := by
  have hm : min (bo + hwl) bend ≤ nb := Nat.le_trans (Nat.min_le_right _ _) he
  obtain ⟨c, hc, b, hb⟩ := hr _ hm
  exact ⟨asU16 c, asU16 b, by simp only [unitEnd, hv, hc, hb]⟩

/-- the units of an existing word exist (`LexClosed`), whatever subset it is read with -/
theorem gwis_closed (lex : Lex) (hc : LexClosed lex) (id : Nat) (s : Subset) (h : Resolves lex id) :
    ∃ i, getWordInfoSubset lex id s = .ok i ∧ (∀ x ∈ i.a, Resolves lex x) ∧ (∀ x ∈ i.b, Resolves lex x) := by
  obtain ⟨hd, l, e, hl, he⟩ := h
  refine ⟨_, getWordInfoSubset_eq lex id s l e hd hl he, ?_, ?_⟩
  · intro x hx
    by_cases ha : SPLIT_A ∈ s
    · simp only [ha, if_true, List.mem_map] at hx
      obtain ⟨r, hr, rfl⟩ := hx
      exact hc _ l hd hl e (List.mem_of_getElem? he) r (List.mem_append_left _ hr)
    · simp [ha] at hx
  · intro x hx
    by_cases hb : SPLIT_B ∈ s
    · simp only [hb, if_true, List.mem_map] at hx
      obtain ⟨r, hr, rfl⟩ := hx
      exact hc _ l hd hl e (List.mem_of_getElem? he) r (List.mem_append_right _ hr)
    · simp [hb] at hx

theorem splitGo_d6fix_ok (cx : Ctx) (hv : cx.v = Variant.d6fix) (hc : LexClosed cx.lex) (nb : Nat)
    (hr : TablesRange cx.b2c cx.c2b nb) (cend bend : Nat) (he : bend ≤ nb) :
    ∀ (ws : List Nat) (co bo : Nat), (∀ x ∈ ws, Resolves cx.lex x) → ∃ us, splitGo cx ws co bo cend bend = .ok us
  | [], _, _, _ => ⟨[], rfl⟩
  | [wid], co, bo, hw => by
    obtain ⟨i, hi, _⟩ := gwis_closed cx.lex hc wid cx.s (hw wid (by simp))
    simp only [splitGo, hi]
    exact ⟨_, rfl⟩
  | wid :: w2 :: rest, co, bo, hw => by
    obtain ⟨i, hi, _⟩ := gwis_closed cx.lex hc wid cx.s (hw wid (by simp))
    obtain ⟨ce, be, hue⟩ := unitEnd_d6fix_ok cx hv nb hr bend he bo i.hwl
    obtain ⟨us, hus⟩ := splitGo_d6fix_ok cx hv hc nb hr cend bend he (w2 :: rest) ce be
      (fun x hx => hw x (List.mem_cons_of_mem _ hx))
    simp only [splitGo, hi, hue, hus]
    exact ⟨_, rfl⟩

/-- what `split_path` needs of a resolved node: its end is inside the buffer and its units exist -/
def NodeOk (lex : Lex) (nb : Nat) (n : Node) : Prop :=
  n.be ≤ nb ∧ (∀ x ∈ n.info.a, Resolves lex x) ∧ (∀ x ∈ n.info.b, Resolves lex x)

theorem splitPathGo_d6fix_ok (cx : Ctx) (hv : cx.v = Variant.d6fix) (hc : LexClosed cx.lex) (nb : Nat)
    (hr : TablesRange cx.b2c cx.c2b nb) (m : Mode) :
    ∀ (p : List Node), (∀ n ∈ p, NodeOk cx.lex nb n) → ∃ out, splitPathGo cx m p = .ok out
  | [], _ => ⟨[], rfl⟩
  | n :: rest, hp => by
    obtain ⟨out, ho⟩ := splitPathGo_d6fix_ok cx hv hc nb hr m rest (fun x hx => hp x (List.mem_cons_of_mem _ hx))
    obtain ⟨hbe, ha, hb⟩ := hp n (by simp)
    have : ∃ us, expand cx m n = .ok us := by
      unfold expand
      by_cases hle : numSplits n m ≤ 1
      · exact ⟨[n], by simp [hle]⟩
      · simp only [hle, if_false]
        cases m
        · exact splitGo_d6fix_ok cx hv hc nb hr n.ce n.be hbe _ _ _ ha
        · exact splitGo_d6fix_ok cx hv hc nb hr n.ce n.be hbe _ _ _ hb
        · simp [numSplits, splitsOf] at hle
    obtain ⟨us, hus⟩ := this
    exact ⟨us ++ out, by simp only [splitPathGo, hus, ho]⟩

/-- a raw path node the lattice search / the path-rewrite plugins can produce: character range inside
the text, word id an existing word unless the node is synthesised -/
def RawOk (lex : Lex) (c2b : List Nat) (nb : Nat) (r : RawNode) : Prop :=
  (∃ b, c2b[r.cb]? = some b) ∧ (∃ b, c2b[r.ce]? = some b ∧ asU16 b ≤ nb) ∧
    ((r.syn || isOov r.wid) = true ∨ Resolves lex r.wid)

theorem resolvePath_ok (lex : Lex) (hc : LexClosed lex) (s : Subset) (c2b : List Nat) (nb : Nat) :
    ∀ (raws : List RawNode), (∀ r ∈ raws, RawOk lex c2b nb r) →
      ∃ p, resolvePath lex s c2b raws = .ok p ∧ (∀ n ∈ p, NodeOk lex nb n) ∧
        p.map (fun n => (n.cb, n.ce, n.wid)) = raws.map (fun r => (r.cb, r.ce, r.wid))
  | [], _ => ⟨[], rfl, by simp, rfl⟩
  | r :: rest, hr => by
    obtain ⟨p, hp, hok, hm⟩ := resolvePath_ok lex hc s c2b nb rest (fun x hx => hr x (List.mem_cons_of_mem _ hx))
    obtain ⟨⟨b1, h1⟩, ⟨b2, h2, h2'⟩, h3⟩ := hr r (by simp)
    have : ∃ i, (if (r.syn || isOov r.wid) = true then Outcome.ok Info.empty else getWordInfoSubset lex r.wid s) = .ok i ∧
        (∀ x ∈ i.a, Resolves lex x) ∧ (∀ x ∈ i.b, Resolves lex x) := by
      by_cases hsyn : (r.syn || isOov r.wid) = true
      · exact ⟨Info.empty, by simp [hsyn], by simp [Info.empty], by simp [Info.empty]⟩
      · rcases h3 with h3 | h3
        · exact absurd h3 hsyn
        · obtain ⟨i, hi, ha, hb⟩ := gwis_closed lex hc r.wid s h3
          exact ⟨i, by simp [hsyn, hi], ha, hb⟩
    obtain ⟨i, hi, ha, hb⟩ := this
    refine ⟨⟨r.cb, r.ce, asU16 b1, asU16 b2, r.wid, i⟩ :: p, ?_, ?_, ?_⟩
    · simp only [resolvePath, resolveNode, hi, currByteIdx, h1, h2, hp]
    · intro n hn
      rcases List.mem_cons.mp hn with rfl | hn
      · exact ⟨h2', ha, hb⟩
      · exact hok n hn
    · simp [hm]

/-! ## the two routes to the original text agree (`begin()`/`end()` vs `surface()`) -/

/-- both ends of the node are starts of characters: `mod_c2b` of the character index is the byte offset -/
def OnChar (c2b : List Nat) (n : Node) : Prop := c2b[n.cb]? = some n.bb ∧ c2b[n.ce]? = some n.be

/-- all table entries fit 16 bits (texts are at most 49149 bytes when analysis starts, 65535 after
rewriting: `start_build`, `commit`) -/
def Small (t : List Nat) : Prop := ∀ x ∈ t, x < 65536

instance (t : List Nat) : Decidable (Small t) := by unfold Small; infer_instance

theorem small_get (t : List Nat) (h : Small t) (i x : Nat) (hx : t[i]? = some x) : asU16 x = x :=
  asU16_id x (h x (List.mem_of_getElem? hx))

theorem splitGo_onChar (cx : Ctx) (hv : cx.v = Variant.d6fix) (hb : Small cx.b2c) (hc : Small cx.c2b)
    (cend bend : Nat) (hend : cx.c2b[cend]? = some bend) :
    ∀ (ws : List Nat) (co bo : Nat) (us : List Node), cx.c2b[co]? = some bo →
      splitGo cx ws co bo cend bend = .ok us → ∀ u ∈ us, OnChar cx.c2b u
  | [], _, _, us, _, h => by simp only [splitGo] at h; cases h; simp
  | [wid], co, bo, us, hco, h => by
    simp only [splitGo] at h
    split at h
    · cases h
    · cases h
    · cases h
      intro u hu
      simp only [List.mem_singleton] at hu
      subst hu
      exact ⟨hco, hend⟩
  | wid :: w2 :: rest, co, bo, us, hco, h => by
    simp only [splitGo] at h
    split at h
    · cases h
    · cases h
    · rename_i info _
      split at h
      · cases h
      · cases h
      · rename_i ce be hue
        split at h
        · rename_i r hr
          cases h
          have hce : cx.c2b[ce]? = some be := by
            simp only [unitEnd, hv] at hue
            split at hue
            · cases hue
            · rename_i charEnd h1
              split at hue
              · cases hue
              · rename_i b h2
                simp only [Outcome.ok.injEq, Prod.mk.injEq] at hue
                obtain ⟨e1, e2⟩ := hue
                rw [← e1, ← e2, small_get _ hb _ _ h1, small_get _ hc _ _ h2]
                exact h2
          intro u hu
          rcases List.mem_cons.mp hu with rfl | hu
          · exact ⟨hco, hce⟩
          · exact splitGo_onChar cx hv hb hc cend bend hend (w2 :: rest) ce be r hce hr u hu
        · cases h
        · cases h

theorem resolveNode_onChar (lex : Lex) (s : Subset) (c2b : List Nat) (hc : Small c2b) (r : RawNode) (n : Node)
    (h : resolveNode lex s c2b r = .ok n) : OnChar c2b n := by
  simp only [resolveNode] at h
  generalize (if (r.syn || isOov r.wid) = true then Outcome.ok Info.empty else getWordInfoSubset lex r.wid s) = io at h
  cases io with
  | err k => simp at h
  | panic w => simp at h
  | ok i =>
    simp only [currByteIdx] at h
    cases h1 : c2b[r.cb]? with
    | none => simp [h1] at h
    | some b1 =>
      cases h2 : c2b[r.ce]? with
      | none => simp [h1, h2] at h
      | some b2 =>
        simp only [h1, h2, Outcome.ok.injEq] at h
        subst h
        exact ⟨by rw [small_get _ hc _ _ h1]; exact h1, by rw [small_get _ hc _ _ h2]; exact h2⟩

theorem resolvePath_onChar (lex : Lex) (s : Subset) (c2b : List Nat) (hc : Small c2b) :
    ∀ (raws : List RawNode) (p : List Node), resolvePath lex s c2b raws = .ok p → ∀ n ∈ p, OnChar c2b n
  | [], p, h => by simp only [resolvePath] at h; cases h; simp
  | r :: rest, p, h => by
    simp only [resolvePath] at h
    split at h
    · rename_i n hn
      split at h
      · rename_i ns hns
        cases h
        intro x hx
        rcases List.mem_cons.mp hx with rfl | hx
        · exact resolveNode_onChar lex s c2b hc r _ hn
        · exact resolvePath_onChar lex s c2b hc rest ns hns x hx
      · cases h
      · cases h
    · cases h
    · cases h

/-! ## ranges in the ORIGINAL text -/

/-- `begin()`/`end()` are non-decreasing in the character index (C08: the offset map is monotone) -/
def OrigMono (c2b m2o : List Nat) : Prop :=
  ∀ i j oi oj, i ≤ j → origIdx c2b m2o i = .ok oi → origIdx c2b m2o j = .ok oj → oi ≤ oj

/-- the original-text ranges `begin()..end()` of a chain of nodes: each begins where the previous one
ended, the first begins at the image of `c`, the last ends at the image of `c'` -/
def OrigLinked (c2b m2o : List Nat) : List Node → Nat → Nat → Prop
  | [], o, o' => o = o'
  | n :: r, o, o' => origIdx c2b m2o n.cb = .ok o ∧ ∃ oe, origIdx c2b m2o n.ce = .ok oe ∧ o ≤ oe ∧ OrigLinked c2b m2o r oe o'

theorem origLinked_of_linked (c2b m2o : List Nat) (hm : OrigMono c2b m2o) :
    ∀ (us : List Node) (c b c' b' : Nat) (o : Nat), Linked us c b c' b' → (∀ u ∈ us, u.cb ≤ u.ce) →
      (∀ u ∈ us, ∃ x, origIdx c2b m2o u.ce = .ok x) → origIdx c2b m2o c = .ok o →
      ∃ o', origIdx c2b m2o c' = .ok o' ∧ OrigLinked c2b m2o us o o'
  | [], c, b, c', b', o, hl, _, _, ho => by
    obtain ⟨rfl, rfl⟩ := hl
    exact ⟨o, ho, rfl⟩
  | n :: r, c, b, c', b', o, hl, hf, hd, ho => by
    obtain ⟨hc, _, hr⟩ := hl
    obtain ⟨oe, hoe⟩ := hd n (by simp)
    obtain ⟨o', ho', hlk⟩ := origLinked_of_linked c2b m2o hm r n.ce n.be c' b' oe hr
      (fun u hu => hf u (List.mem_cons_of_mem _ hu)) (fun u hu => hd u (List.mem_cons_of_mem _ hu)) hoe
    refine ⟨o', ho', ?_, oe, hoe, ?_, hlk⟩
    · rw [hc]; exact ho
    · exact hm n.cb n.ce o oe (hf n (by simp)) (by rw [hc]; exact ho) hoe

theorem surfaceRange_ok (b2c c2b m2o : List Nat) (bb be ob oe : Nat)
    (h : surfaceRange b2c c2b m2o bb be = .ok (ob, oe)) : m2o[bb]? = some ob ∧ m2o[be]? = some oe := by
  unfold surfaceRange at h
  by_cases h1 : onBoundary b2c c2b bb = true
  · by_cases h2 : onBoundary b2c c2b be = true
    · simp only [h1, h2, Bool.not_true, Bool.false_eq_true, if_false] at h
      cases hb : m2o[bb]? with
      | none => simp [hb] at h
      | some x =>
        cases he : m2o[be]? with
        | none => simp [hb, he] at h
        | some y =>
          simp only [hb, he] at h
          by_cases hle : x ≤ y
          · simp only [hle, if_true, Outcome.ok.injEq, Prod.mk.injEq] at h
            rw [h.1, h.2]; exact ⟨rfl, rfl⟩
          · simp [hle] at h
    · simp [h1, h2] at h
  · simp [h1] at h

theorem sorted_get {l : List Nat} (h : l.Pairwise (· ≤ ·)) {i j x y : Nat} (hij : i ≤ j)
    (hi : l[i]? = some x) (hj : l[j]? = some y) : x ≤ y := by
  rcases Nat.lt_or_eq_of_le hij with hlt | rfl
  · obtain ⟨hi', rfl⟩ := List.getElem?_eq_some_iff.mp hi
    obtain ⟨hj', rfl⟩ := List.getElem?_eq_some_iff.mp hj
    exact (List.pairwise_iff_getElem.mp h) i j hi' hj' hlt
  · rw [hi] at hj; cases hj; exact Nat.le_refl _

/-- non-decreasing `mod_c2b` (by construction) and `m2o` (C08 `offset map monotone`) give `OrigMono` -/
theorem origMono_of_sorted (c2b m2o : List Nat) (h1 : c2b.Pairwise (· ≤ ·)) (h2 : m2o.Pairwise (· ≤ ·)) :
    OrigMono c2b m2o := by
  intro i j oi oj hij hi hj
  unfold origIdx at hi hj
  cases ci : c2b[i]? with
  | none => simp [ci] at hi
  | some bi =>
    cases cj : c2b[j]? with
    | none => simp [cj] at hj
    | some bj =>
      simp only [ci, cj] at hi hj
      cases mi : m2o[bi]? with
      | none => simp [mi] at hi
      | some x =>
        cases mj : m2o[bj]? with
        | none => simp [mj] at hj
        | some y =>
          simp only [mi, mj, Outcome.ok.injEq] at hi hj
          subst hi; subst hj
          exact sorted_get h2 (sorted_get h1 hij ci cj) mi mj

end Split
