import Sudachi.Model.Split
/-!
# Lemmas about the split model (`Model/Split.lean`) for property C09
-/
namespace Split

/-! ## tokenizer state -/

theorem mem_normalize (s : Subset) (x : Nat) :
    x ∈ normalize s ↔ x ∈ s ∨ (x = SURFACE ∧ (READING_FORM ∈ s ∨ NORMALIZED_FORM ∈ s ∨ DIC_FORM_WORD_ID ∈ s)) ∨
      (x = HEAD_WORD_LENGTH ∧ (SPLIT_A ∈ s ∨ SPLIT_B ∈ s)) := by
  unfold normalize
  simp only [SURFACE, HEAD_WORD_LENGTH, READING_FORM, NORMALIZED_FORM, SPLIT_A, SPLIT_B, DIC_FORM_WORD_ID]
  by_cases h1 : (5 ∈ s ∨ 3 ∈ s ∨ 4 ∈ s) <;> by_cases h2 : (6 ∈ s ∨ 7 ∈ s) <;>
    simp [h1, h2] <;> grind

/-- the split field of the current mode is loaded -/
def ModeLoaded (t : Tok) : Prop := ∀ x ∈ modeSubset t.mode, x ∈ t.subset

theorem create_loaded (m : Mode) : ModeLoaded (create m) := by
  intro x hx
  cases m <;> simp [create, modeSubset, Subset.all, SPLIT_A, SPLIT_B] at hx ⊢ <;> omega

theorem setMode_loaded (t : Tok) (m : Mode) : ModeLoaded (setMode t m).1 := by
  intro x hx
  simp only [setMode] at hx ⊢
  exact List.mem_append_right _ hx

theorem setSubset_loaded (t : Tok) (s : Subset) : ModeLoaded (setSubset t s).1 := by
  intro x hx
  simp only [setSubset] at hx ⊢
  exact List.mem_append_right _ hx

theorem setSubset_mode (t : Tok) (s : Subset) : (setSubset t s).1.mode = t.mode := rfl
theorem setMode_mode (t : Tok) (m : Mode) : (setMode t m).1.mode = m := rfl

/-- `set_subset` keeps every requested field and adds the key length when the mode splits -/
theorem setSubset_contains (t : Tok) (s : Subset) :
    (∀ x ∈ s, x ∈ (setSubset t s).1.subset) ∧
    (t.mode ≠ Mode.C → HEAD_WORD_LENGTH ∈ (setSubset t s).1.subset) := by
  constructor
  · intro x hx
    simp only [setSubset]
    apply List.mem_append_left
    rw [mem_normalize]
    exact Or.inl (List.mem_append_left _ hx)
  · intro hm
    simp only [setSubset]
    apply List.mem_append_left
    rw [mem_normalize]
    refine Or.inr (Or.inr ⟨rfl, ?_⟩)
    cases hmode : t.mode
    · left; simp [modeSubset]
    · right; simp [modeSubset]
    · exact absurd hmode hm

theorem runOps_loaded : ∀ (ops : List Op) (t : Tok) (acc : List String),
    ModeLoaded t → ModeLoaded (runOps ops t acc).1
  | [], _, _, h => h
  | .new m :: rest, _, acc, _ => runOps_loaded rest (create m) acc (create_loaded m)
  | .sub s :: rest, t, acc, _ => by
    simp only [runOps]
    exact runOps_loaded rest _ _ (setSubset_loaded t s)
  | .md m :: rest, t, acc, _ => by
    simp only [runOps]
    exact runOps_loaded rest _ _ (setMode_loaded t m)

/-! ## the word-info reader -/

/-- a requested field that occurs in the layout is read -/
theorem parseGo_reads (g : Nat) : ∀ (fs : List (Nat × Bool)) (flds : Subset),
    g ∈ flds → g ∈ fs.map Prod.fst → g ∈ parseGo fs flds
  | [], _, _, h => by simp at h
  | (f, heavy) :: rest, flds, hg, hfs => by
    have hne : flds.isEmpty = false := by
      cases flds with
      | nil => simp at hg
      | cons _ _ => rfl
    simp only [parseGo, hne]
    by_cases hfg : f = g
    · subst hfg
      cases heavy <;> simp [hg]
    · have hg' : g ∈ flds.filter (· ≠ f) := by
        simp [List.mem_filter, hg, Ne.symm hfg]
      have hr : g ∈ rest.map Prod.fst := by
        simp only [List.map_cons, List.mem_cons] at hfs
        rcases hfs with h | h
        · exact absurd h.symm hfg
        · exact h
      cases heavy
      · simp only [Bool.false_eq_true, if_false]
        exact List.mem_cons_of_mem _ (parseGo_reads g rest _ hg' hr)
      · simp only [if_true]
        by_cases hf : f ∈ flds
        · simp only [hf, if_true]
          exact List.mem_cons_of_mem _ (parseGo_reads g rest _ hg' hr)
        · simp only [hf, if_false]
          exact parseGo_reads g rest _ hg hr

/-- whatever is read was requested or is a light field of the layout -/
theorem parseGo_sound (g : Nat) : ∀ (fs : List (Nat × Bool)) (flds : Subset),
    g ∈ parseGo fs flds → g ∈ flds ∨ (g, false) ∈ fs
  | [], _, h => by simp [parseGo] at h
  | (f, heavy) :: rest, flds, h => by
    simp only [parseGo] at h
    by_cases he : flds.isEmpty
    · simp [he] at h
    · simp only [he, Bool.false_eq_true, if_false] at h
      cases heavy
      · simp only [Bool.false_eq_true, if_false, List.mem_cons] at h
        rcases h with h | h
        · right; simp [h]
        · rcases parseGo_sound g rest _ h with h' | h'
          · left; exact (List.mem_filter.mp h').1
          · right; exact List.mem_cons_of_mem _ h'
      · simp only [if_true] at h
        by_cases hf : f ∈ flds
        · simp only [hf, if_true, List.mem_cons] at h
          rcases h with h | h
          · left; rw [h]; exact hf
          · rcases parseGo_sound g rest _ h with h' | h'
            · left; exact (List.mem_filter.mp h').1
            · right; exact List.mem_cons_of_mem _ h'
        · simp only [hf, if_false] at h
          rcases parseGo_sound g rest _ h with h' | h'
          · left; exact h'
          · right; exact List.mem_cons_of_mem _ h'

theorem splitA_read_iff (s : Subset) : SPLIT_A ∈ readFields s ↔ SPLIT_A ∈ s := by
  constructor
  · intro h
    rcases parseGo_sound _ _ _ h with h' | h'
    · exact h'
    · simp [fieldOrder, SPLIT_A] at h'
  · intro h
    exact parseGo_reads _ _ _ h (by simp [fieldOrder, SPLIT_A])

theorem splitB_read_iff (s : Subset) : SPLIT_B ∈ readFields s ↔ SPLIT_B ∈ s := by
  constructor
  · intro h
    rcases parseGo_sound _ _ _ h with h' | h'
    · exact h'
    · simp [fieldOrder, SPLIT_B] at h'
  · intro h
    exact parseGo_reads _ _ _ h (by simp [fieldOrder, SPLIT_B])

/-- the key length is written whenever some field behind it is requested — in particular a split
list (the reader has to walk past it and "light" fields are read unconditionally) -/
theorem hwl_read_of_later (s : Subset) (g : Nat) (hg : g ∈ s) (h0 : g ≠ SURFACE) :
    HEAD_WORD_LENGTH ∈ readFields s := by
  unfold readFields fieldOrder
  have hne : s.isEmpty = false := by
    cases s with
    | nil => simp at hg
    | cons _ _ => rfl
  have hg' : g ∈ s.filter (· ≠ 0) := by
    simp only [SURFACE] at h0
    simp [List.mem_filter, hg, h0]
  have hne' : (s.filter (· ≠ 0)).isEmpty = false := by
    cases hs : s.filter (· ≠ 0) with
    | nil => rw [hs] at hg'; simp at hg'
    | cons _ _ => rfl
  simp only [parseGo, hne, HEAD_WORD_LENGTH]
  by_cases h : 0 ∈ s
  · simp [h]; exact ⟨g, hg, by simpa [SURFACE] using h0⟩
  · simp [h]

/-! ## re-stamping -/

/-- what `update_dict_id` does to one stored id when read from dictionary `d` -/
def restamp (d : Nat) (r : Nat) : Nat := if dicOf r > 0 then mkId d (wordOf r) else r

theorem wordOf_le (r : Nat) : ¬ wordOf r > WORD_MASK := by
  unfold wordOf WORD_MASK DIC_SHIFT
  omega

theorem updateDictId_eq (d : Nat) (hd : d < 16) : ∀ l : List Nat,
    updateDictId l d = .ok (l.map (restamp d))
  | [] => rfl
  | id :: rest => by
    simp only [updateDictId, updateDictId_eq d hd rest, List.map_cons, restamp]
    by_cases h : dicOf id > 0
    · have h16 : ¬ d ≥ 16 := by omega
      simp [h, checkedId, h16, wordOf_le]
    · simp [h]

/-- `get_word_info_subset` on a word that exists: split lists are returned iff requested, each
user reference re-stamped with the id of the dictionary the word was read from, each system
reference untouched; the key length is returned whenever a split list is requested. -/
theorem getWordInfoSubset_eq (lex : Lex) (id : Nat) (s : Subset) (l : List Entry) (e : Entry)
    (hd : dicOf id < 16) (hl : lex[dicOf id]? = some l) (he : l[wordOf id]? = some e) :
    getWordInfoSubset lex id s = .ok
      ⟨if HEAD_WORD_LENGTH ∈ readFields s then e.hwl else 0,
       if SPLIT_A ∈ s then e.a.map (restamp (dicOf id)) else [],
       if SPLIT_B ∈ s then e.b.map (restamp (dicOf id)) else []⟩ := by
  simp only [getWordInfoSubset, hl, he, splitA_read_iff, splitB_read_iff]
  by_cases ha : SPLIT_A ∈ s <;> by_cases hb : SPLIT_B ∈ s <;>
    simp [ha, hb, updateDictId_eq _ hd]

/-! ## chains -/

/-- `Linked ns c b c' b'`: the nodes start at character `c` / byte `b`, each begins where the
previous one ended, the last ends at `c'` / `b'` -/
def Linked : List Node → Nat → Nat → Nat → Nat → Prop
  | [], c, b, c', b' => c = c' ∧ b = b'
  | n :: r, c, b, c', b' => n.cb = c ∧ n.bb = b ∧ Linked r n.ce n.be c' b'

theorem Linked_append : ∀ (l1 l2 : List Node) (c b c1 b1 c2 b2 : Nat),
    Linked l1 c b c1 b1 → Linked l2 c1 b1 c2 b2 → Linked (l1 ++ l2) c b c2 b2
  | [], l2, c, b, c1, b1, c2, b2, h1, h2 => by
    obtain ⟨rfl, rfl⟩ := h1; exact h2
  | n :: r, l2, c, b, c1, b1, c2, b2, h1, h2 => by
    obtain ⟨hc, hb, hr⟩ := h1
    exact ⟨hc, hb, Linked_append r l2 _ _ _ _ _ _ hr h2⟩

theorem Linked_bounds : ∀ (l : List Node) (c b c' b' : Nat), l ≠ [] → Linked l c b c' b' →
    c ∈ l.map (·.cb) ∧ b ∈ l.map (·.bb) ∧ c' ∈ l.map (·.ce) ∧ b' ∈ l.map (·.be)
  | [], _, _, _, _, h, _ => absurd rfl h
  | [n], c, b, c', b', _, h => by
    obtain ⟨hc, hb, hc', hb'⟩ := h
    simp [hc, hb, hc', hb']
  | n :: m :: r, c, b, c', b', _, h => by
    obtain ⟨hc, hb, hr⟩ := h
    have := Linked_bounds (m :: r) _ _ _ _ (by simp) hr
    obtain ⟨_, _, h3, h4⟩ := this
    refine ⟨by simp [hc], by simp [hb], ?_, ?_⟩
    · exact List.mem_cons_of_mem _ h3
    · exact List.mem_cons_of_mem _ h4

/-! ## `NodeSplitIterator` for arbitrary dictionaries -/

theorem splitGo_wids (cx : Ctx) : ∀ (ws : List Nat) (co bo ce be : Nat)
    (us : List Node), splitGo cx ws co bo ce be = .ok us → us.map (·.wid) = ws
  | [], _, _, _, _, us, h => by
    simp only [splitGo] at h; cases h; rfl
  | [wid], co, bo, ce, be, us, h => by
    simp only [splitGo] at h
    split at h <;> first | (cases h; rfl) | cases h
  | wid :: w2 :: rest, co, bo, ce, be, us, h => by
    simp only [splitGo] at h
    split at h
    · cases h
    · cases h
    · split at h
      · cases h
      · cases h
      · split at h
        · cases h
          rename_i r hr
          simp [splitGo_wids cx (w2 :: rest) _ _ _ _ r hr]
        · cases h
        · cases h

theorem splitGo_linked (cx : Ctx) : ∀ (ws : List Nat) (co bo ce be : Nat)
    (us : List Node), ws ≠ [] → splitGo cx ws co bo ce be = .ok us → Linked us co bo ce be
  | [], _, _, _, _, _, h, _ => absurd rfl h
  | [wid], co, bo, ce, be, us, _, h => by
    simp only [splitGo] at h
    split at h <;> first | (cases h; exact ⟨rfl, rfl, rfl, rfl⟩) | cases h
  | wid :: w2 :: rest, co, bo, ce, be, us, _, h => by
    simp only [splitGo] at h
    split at h
    · cases h
    · cases h
    · split at h
      · cases h
      · cases h
      · split at h
        · cases h
          rename_i r hr
          exact ⟨rfl, rfl, splitGo_linked cx (w2 :: rest) _ _ _ _ r (by simp) hr⟩
        · cases h
        · cases h

theorem splitGo_length (cx : Ctx) (ws : List Nat) (co bo ce be : Nat)
    (us : List Node) (h : splitGo cx ws co bo ce be = .ok us) : us.length = ws.length := by
  rw [← splitGo_wids cx ws co bo ce be us h]; simp

theorem split_linked (cx : Ctx) (n : Node) (m : Mode) (us : List Node)
    (hn : numSplits n m ≠ 0) (h : split cx n m = .ok us) : Linked us n.cb n.bb n.ce n.be := by
  cases m
  · exact splitGo_linked cx _ _ _ _ _ us (by intro h0; simp [numSplits, h0] at hn) h
  · exact splitGo_linked cx _ _ _ _ _ us (by intro h0; simp [numSplits, h0] at hn) h
  · simp [split] at h

theorem expand_linked (cx : Ctx) (m : Mode) (n : Node) (us : List Node)
    (h : expand cx m n = .ok us) : Linked us n.cb n.bb n.ce n.be := by
  unfold expand at h
  by_cases hle : numSplits n m ≤ 1
  · simp only [hle, if_true] at h
    cases h
    exact ⟨rfl, rfl, rfl, rfl⟩
  · simp only [hle, if_false] at h
    exact split_linked cx n m us (by omega) h

theorem expand_ne_nil (cx : Ctx) (m : Mode) (n : Node) (us : List Node)
    (h : expand cx m n = .ok us) : us ≠ [] := by
  unfold expand at h
  by_cases hle : numSplits n m ≤ 1
  · simp only [hle, if_true] at h
    cases h; simp
  · simp only [hle, if_false] at h
    cases m
    · have := splitGo_length cx _ _ _ _ _ us h
      intro h0; rw [h0] at this; simp [numSplits] at hle this; omega
    · have := splitGo_length cx _ _ _ _ _ us h
      intro h0; rw [h0] at this; simp [numSplits] at hle this; omega
    · simp [split] at h

/-- `split_path` cut at one node: the output is the output of the part before, the expansion of
the node, and the output of the part after, in this order -/
theorem splitPathGo_decompose (cx : Ctx) (m : Mode) :
    ∀ (p1 : List Node) (n : Node) (p2 out : List Node),
    splitPathGo cx m (p1 ++ n :: p2) = .ok out →
    ∃ o1 us o2, out = o1 ++ us ++ o2 ∧ splitPathGo cx m p1 = .ok o1 ∧
      expand cx m n = .ok us ∧ splitPathGo cx m p2 = .ok o2
  | [], n, p2, out, h => by
    simp only [List.nil_append, splitPathGo] at h
    split at h
    · rename_i us hus
      split at h
      · rename_i r hr
        cases h
        exact ⟨[], us, r, by simp, rfl, hus, hr⟩
      · cases h
      · cases h
    · cases h
    · cases h
  | a :: p1, n, p2, out, h => by
    simp only [List.cons_append, splitPathGo] at h
    split at h
    · rename_i ua hua
      split at h
      · rename_i r hr
        cases h
        obtain ⟨o1, us, o2, ho, h1, h2, h3⟩ := splitPathGo_decompose cx m p1 n p2 r hr
        refine ⟨ua ++ o1, us, o2, by simp [ho], ?_, h2, h3⟩
        simp [splitPathGo, hua, h1]
      · cases h
      · cases h
    · cases h
    · cases h

theorem splitPathGo_linked (cx : Ctx) (m : Mode) :
    ∀ (path out : List Node) (c b c' b' : Nat), splitPathGo cx m path = .ok out →
    Linked path c b c' b' → Linked out c b c' b'
  | [], out, c, b, c', b', h, hl => by
    simp only [splitPathGo] at h; cases h; exact hl
  | n :: rest, out, c, b, c', b', h, hl => by
    simp only [splitPathGo] at h
    obtain ⟨hc, hb, hr⟩ := hl
    split at h
    · rename_i us hus
      split at h
      · rename_i r hr'
        cases h
        have h1 := expand_linked cx m n us hus
        rw [hc, hb] at h1
        exact Linked_append us r _ _ _ _ _ _ h1 (splitPathGo_linked cx m rest r _ _ _ _ hr' hr)
      · cases h
      · cases h
    · cases h
    · cases h

/-! ## well-formed declarations: the units' keys concatenate to the text of the parent -/

theorem prefix_of_append_eq {α : Type} (k r d : List α) (m : Nat)
    (h : k ++ r = d.take m) :
    d.take k.length = k ∧ k.length ≤ m ∧ k.length ≤ d.length ∧ r = (d.drop k.length).take (m - k.length) := by
  have hlen : k.length + r.length = min m d.length := by
    have := congrArg List.length h
    simpa using this
  have h1 : k.length ≤ m := by omega
  have h2 : k.length ≤ d.length := by omega
  have h3 : (d.take m).take k.length = k := by
    rw [← h]; simp
  have h4 : (d.take m).drop k.length = r := by
    rw [← h]; simp
  refine ⟨?_, h1, h2, ?_⟩
  · rw [List.take_take] at h3
    rw [Nat.min_eq_left h1] at h3
    exact h3
  · rw [← h4, List.drop_take]

/-- byte length of a string of scalar values under the width function `w` (UTF-8: 1–4) -/
def bytes (w : Nat → Nat) (l : List Nat) : Nat := (l.map w).sum

/-- byte offset of character `k` of the text `cs` -/
def pre (w : Nat → Nat) (cs : List Nat) (k : Nat) : Nat := bytes w (cs.take k)

theorem pre_add (w : Nat → Nat) (cs : List Nat) (c j : Nat) :
    pre w cs (c + j) = pre w cs c + bytes w ((cs.drop c).take j) := by
  simp [pre, bytes, List.take_add, List.sum_append]

theorem pre_mono (w : Nat → Nat) (cs : List Nat) (c j : Nat) : pre w cs c ≤ pre w cs (c + j) := by
  rw [pre_add]; omega

theorem pre_le_total (w : Nat → Nat) (cs : List Nat) (k : Nat) (hk : k ≤ cs.length) :
    pre w cs k ≤ pre w cs cs.length := by
  have := pre_mono w cs k (cs.length - k)
  rwa [Nat.add_sub_cancel' hk] at this

/-- `mod_b2c` as `InputBuffer::build` fills it: every byte of character `i` holds `i`, then the
sentinel (number of characters; texts that reach the lattice are non-empty) -/
def mkB2cFrom (w : Nat → Nat) : Nat → List Nat → List Nat
  | i, [] => [i]
  | i, c :: cs => List.replicate (w c) i ++ mkB2cFrom w (i + 1) cs

/-- what `NodeSplitIterator` needs from `mod_b2c`: at the byte offset of character `k` it holds `k` -/
def B2cOk (w : Nat → Nat) (cs : List Nat) (b2c : List Nat) : Prop :=
  ∀ k, k ≤ cs.length → b2c[pre w cs k]? = some k

/-- what the repaired variant needs from `mod_c2b` -/
def C2bOk (w : Nat → Nat) (cs : List Nat) (c2b : List Nat) : Prop :=
  ∀ k, k ≤ cs.length → c2b[k]? = some (pre w cs k)

theorem mkB2cFrom_ok (w : Nat → Nat) (hw : ∀ c, 1 ≤ w c) : ∀ (cs : List Nat) (i k : Nat), k ≤ cs.length →
    (mkB2cFrom w i cs)[pre w cs k]? = some (i + k)
  | [], i, k, hk => by
    have : k = 0 := by simpa using hk
    subst this; simp [mkB2cFrom, pre, bytes]
  | c :: cs, i, 0, _ => by
    have := hw c
    simp only [mkB2cFrom, pre, bytes, List.take_zero, List.map_nil, List.sum_nil]
    rw [List.getElem?_append_left (by rw [List.length_replicate]; exact Nat.lt_of_lt_of_le Nat.zero_lt_one this)]
    rw [List.getElem?_replicate]
    simp [Nat.lt_of_lt_of_le Nat.zero_lt_one this]
  | c :: cs, i, k + 1, hk => by
    have hk' : k ≤ cs.length := by simpa using hk
    have ih := mkB2cFrom_ok w hw cs (i + 1) k hk'
    simp only [mkB2cFrom, pre, bytes, List.take_succ_cons, List.map_cons, List.sum_cons]
    rw [List.getElem?_append_right (by simp)]
    simp only [List.length_replicate, Nat.add_sub_cancel_left]
    simp only [pre, bytes] at ih
    rw [ih]; congr 1; omega

theorem mkB2c_ok (w : Nat → Nat) (hw : ∀ c, 1 ≤ w c) (cs : List Nat) : B2cOk w cs (mkB2cFrom w 0 cs) := by
  intro k hk
  simpa using mkB2cFrom_ok w hw cs 0 k hk

/-- the observable part of a node: unit id and the two ranges -/
def Node.core (n : Node) : Nat × Nat × Nat × Nat × Nat := (n.wid, n.cb, n.ce, n.bb, n.be)

/-- where the declared units lie when their keys are laid out one after the other from character `c` -/
def unitsSpec (w : Nat → Nat) (cs : List Nat) (key : Nat → List Nat) : List Nat → Nat → List (Nat × Nat × Nat × Nat × Nat)
  | [], _ => []
  | wid :: rest, c =>
    (wid, c, c + (key wid).length, pre w cs c, pre w cs (c + (key wid).length)) ::
      unitsSpec w cs key rest (c + (key wid).length)

/-- every unit's word info loads and its key length is the byte length of its key -/
def KeysLoaded (cx : Ctx) (w : Nat → Nat) (key : Nat → List Nat) (ws : List Nat) : Prop :=
  ∀ wid ∈ ws, ∃ info, getWordInfoSubset cx.lex wid cx.s = .ok info ∧ info.hwl = bytes w (key wid)

theorem asU16_id (x : Nat) (h : x < 65536) : asU16 x = x := Nat.mod_eq_of_lt h

theorem unitEnd_exact (cx : Ctx) (w : Nat → Nat) (cs : List Nat)
    (hb : B2cOk w cs cx.b2c) (hc : cx.v = Variant.d6fix → C2bOk w cs cx.c2b)
    (hsz : pre w cs cs.length < 65536 ∧ cs.length < 65536)
    (c j cend : Nat) (hj : c + j ≤ cend) (hcend : cend ≤ cs.length) :
    unitEnd cx (pre w cs c) (bytes w ((cs.drop c).take j)) (pre w cs cend) = .ok (c + j, pre w cs (c + j)) := by
  have hle : c + j ≤ cs.length := by omega
  have hp : pre w cs c + bytes w ((cs.drop c).take j) = pre w cs (c + j) := (pre_add w cs c j).symm
  have hlt : pre w cs (c + j) < 65536 := Nat.lt_of_le_of_lt (pre_le_total w cs _ hle) hsz.1
  have hcj : c + j < 65536 := by omega
  unfold unitEnd
  cases hv : cx.v
  · simp only [hp, hb _ hle, asU16_id _ hlt, asU16_id _ hcj]
  · have hmin : min (pre w cs (c + j)) (pre w cs cend) = pre w cs (c + j) := by
      apply Nat.min_eq_left
      have := pre_mono w cs (c + j) (cend - (c + j))
      rwa [Nat.add_sub_cancel' hj] at this
    simp only [hp, hmin, hb _ hle, hc hv _ hle, asU16_id _ hlt, asU16_id _ hcj]

/-- **placement of the units** (both variants): if the keys of the declared units concatenate to
the text `cs[c..cend)` and every unit's stored key length is its key's byte length, the iterator
does not panic and puts unit `i` exactly on the characters/bytes its key occupies. -/
theorem splitGo_exact (cx : Ctx) (w : Nat → Nat) (cs : List Nat) (key : Nat → List Nat)
    (hb : B2cOk w cs cx.b2c) (hc : cx.v = Variant.d6fix → C2bOk w cs cx.c2b)
    (hsz : pre w cs cs.length < 65536 ∧ cs.length < 65536) (cend : Nat) (hcend : cend ≤ cs.length) :
    ∀ (ws : List Nat) (c : Nat), ws ≠ [] → c ≤ cend → KeysLoaded cx w key ws →
      (ws.map key).flatten = (cs.drop c).take (cend - c) →
      ∃ us, splitGo cx ws c (pre w cs c) cend (pre w cs cend) = .ok us ∧
        us.map Node.core = unitsSpec w cs key ws c
  | [], _, h, _, _, _ => absurd rfl h
  | [wid], c, _, hle, hk, hcat => by
    obtain ⟨info, hi, _⟩ := hk wid (by simp)
    have hlen : (key wid).length = cend - c := by
      have := congrArg List.length hcat
      simp at this
      omega
    refine ⟨[⟨c, cend, pre w cs c, pre w cs cend, wid, info⟩], by simp [splitGo, hi], ?_⟩
    simp [Node.core, unitsSpec, hlen, Nat.add_sub_cancel' hle]
  | wid :: w2 :: rest, c, _, hle, hk, hcat => by
    obtain ⟨info, hi, hh⟩ := hk wid (by simp)
    have hcat' : key wid ++ ((w2 :: rest).map key).flatten = (cs.drop c).take (cend - c) := by
      simpa using hcat
    obtain ⟨h1, h2, _, h4⟩ := prefix_of_append_eq _ _ _ _ hcat'
    have hj : c + (key wid).length ≤ cend := by omega
    have hk' : KeysLoaded cx w key (w2 :: rest) := fun x hx => hk x (List.mem_cons_of_mem _ hx)
    have hcat2 : ((w2 :: rest).map key).flatten =
        (cs.drop (c + (key wid).length)).take (cend - (c + (key wid).length)) := by
      rw [h4, List.drop_drop, Nat.sub_sub]
    obtain ⟨us, hus, hcore⟩ := splitGo_exact cx w cs key hb hc hsz cend hcend (w2 :: rest)
      (c + (key wid).length) (by simp) hj hk' hcat2
    have hue := unitEnd_exact cx w cs hb hc hsz c (key wid).length cend hj hcend
    rw [h1] at hue
    refine ⟨⟨c, c + (key wid).length, pre w cs c, pre w cs (c + (key wid).length), wid, info⟩ :: us, ?_, ?_⟩
    · simp only [splitGo, hi, hh, hue, hus]
    · simp only [List.map_cons, unitsSpec, hcore]
      rfl

/-- the text under each unit of `unitsSpec` is that unit's key -/
theorem unitsSpec_text (w : Nat → Nat) (cs : List Nat) (key : Nat → List Nat) (cend : Nat) :
    ∀ (ws : List Nat) (c : Nat), c ≤ cend → (ws.map key).flatten = (cs.drop c).take (cend - c) →
      (unitsSpec w cs key ws c).map (fun u => (cs.drop u.2.1).take (u.2.2.1 - u.2.1)) = ws.map key
  | [], _, _, _ => rfl
  | wid :: rest, c, hle, hcat => by
    have hcat' : key wid ++ (rest.map key).flatten = (cs.drop c).take (cend - c) := by
      simpa using hcat
    obtain ⟨h1, h2, _, h4⟩ := prefix_of_append_eq _ _ _ _ hcat'
    have hcat2 : (rest.map key).flatten =
        (cs.drop (c + (key wid).length)).take (cend - (c + (key wid).length)) := by
      rw [h4, List.drop_drop, Nat.sub_sub]
    simp only [unitsSpec, List.map_cons, Nat.add_sub_cancel_left, h1]
    rw [unitsSpec_text w cs key cend rest _ (by omega) hcat2]

/-- the units of `unitsSpec` run forward, abut, and end where the keys end -/
theorem unitsSpec_chain (w : Nat → Nat) (cs : List Nat) (key : Nat → List Nat) :
    ∀ (ws : List Nat) (c : Nat) (us : List Node), us.map Node.core = unitsSpec w cs key ws c →
      Linked us c (pre w cs c) (c + (ws.map key).flatten.length) (pre w cs (c + (ws.map key).flatten.length)) ∧
      ∀ u ∈ us, u.cb ≤ u.ce ∧ u.bb ≤ u.be
  | [], c, us, h => by
    have : us = [] := by simpa [unitsSpec] using h
    subst this
    exact ⟨⟨by simp, by simp⟩, by simp⟩
  | wid :: rest, c, us, h => by
    cases us with
    | nil => simp [unitsSpec] at h
    | cons u us' =>
      simp only [List.map_cons, unitsSpec, List.cons.injEq] at h
      obtain ⟨hu, hr⟩ := h
      obtain ⟨ih1, ih2⟩ := unitsSpec_chain w cs key rest _ us' hr
      simp only [Node.core, Prod.mk.injEq] at hu
      obtain ⟨_, hcb, hce, hbb, hbe⟩ := hu
      refine ⟨⟨hcb, hbb, ?_⟩, ?_⟩
      · rw [hce, hbe]
        simpa [Nat.add_assoc] using ih1
      · intro x hx
        rcases List.mem_cons.mp hx with rfl | hx
        · rw [hcb, hce, hbb, hbe]
          exact ⟨by omega, pre_mono w cs c _⟩
        · exact ih2 x hx

/-- a linked chain of forward-running nodes has non-decreasing cut points (the form
`C01.surfaces_partition` asks for: `Mono (b :: cuts)`) -/
theorem linked_cuts_mono : ∀ (l : List Node) (c b c' b' : Nat), Linked l c b c' b' →
    (∀ u ∈ l, u.cb ≤ u.ce ∧ u.bb ≤ u.be) →
    (b :: l.map (·.be)).Pairwise (· ≤ ·) ∧ (c :: l.map (·.ce)).Pairwise (· ≤ ·) ∧ b ≤ b' ∧ c ≤ c'
  | [], c, b, c', b', h, _ => by
    obtain ⟨rfl, rfl⟩ := h; simp
  | n :: r, c, b, c', b', h, hf => by
    obtain ⟨hc, hb, hr⟩ := h
    obtain ⟨hn1, hn2⟩ := hf n (by simp)
    obtain ⟨i1, i2, i3, i4⟩ := linked_cuts_mono r _ _ _ _ hr (fun u hu => hf u (List.mem_cons_of_mem _ hu))
    rw [List.pairwise_cons] at i1 i2
    refine ⟨?_, ?_, by omega, by omega⟩
    · simp only [List.map_cons]
      rw [List.pairwise_cons]
      refine ⟨?_, List.pairwise_cons.mpr i1⟩
      intro x hx
      rcases List.mem_cons.mp hx with rfl | hx
      · omega
      · have := i1.1 x hx; omega
    · simp only [List.map_cons]
      rw [List.pairwise_cons]
      refine ⟨?_, List.pairwise_cons.mpr i2⟩
      intro x hx
      rcases List.mem_cons.mp hx with rfl | hx
      · omega
      · have := i2.1 x hx; omega

theorem splitPathGo_mem (cx : Ctx) (m : Mode) : ∀ (path out : List Node) (u : Node),
    splitPathGo cx m path = .ok out → u ∈ out → ∃ n ∈ path, ∃ us, expand cx m n = .ok us ∧ u ∈ us
  | [], out, u, h, hu => by
    simp only [splitPathGo] at h; cases h; simp at hu
  | n :: rest, out, u, h, hu => by
    simp only [splitPathGo] at h
    split at h
    · rename_i us hus
      split at h
      · rename_i r hr
        cases h
        rcases List.mem_append.mp hu with hu | hu
        · exact ⟨n, by simp, us, hus, hu⟩
        · obtain ⟨n', hn', us', h1, h2⟩ := splitPathGo_mem cx m rest r u hr hu
          exact ⟨n', List.mem_cons_of_mem _ hn', us', h1, h2⟩
      · cases h
      · cases h
    · cases h
    · cases h

end Split
