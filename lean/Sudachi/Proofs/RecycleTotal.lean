import Sudachi.Model.RecycleTotal
import Sudachi.Proofs.Recycle
import Sudachi.Proofs.RecycleObs
/-!
# The concrete-pipeline instance of the recycling model: payload hypotheses and the bridge to `Total.tokenize`

* `payload_offsetsInRange`: `OffsetsInRange` (hypothesis `hlen` of every history theorem of C10) HOLDS for
  `RecycleTotal.payload`, for every tokenizer state, text, configuration and variant - proved, no longer assumed.
* `payload_fieldsFree`: `FieldsFree` (hypothesis `hfree`, C11's statement as a payload hypothesis) is reduced to the one
  place where the field subset reaches the concrete pipeline: `RewriteFree D s s'` - the word-info / path-rewrite stage
  gives the same node ranges and unit lengths under both subsets (C11 `subset_fields_eq` for the split fields).
* `Bridge`: the discipline model with the concrete payload, run on a NEW tokenizer, computes what `Total.tokenize`
  computes (outcome class; morphemes and offset tables when Ok).  Both sides are closed, executable functions of
  (configuration, mode, subset, text); the statement is the Boolean `RecycleTotal.bridgeHolds`, which the driver
  evaluates on every analysis of every `C10 hpipe` line.  `bridge_ok` / `bridge_fail` unpack it.
-/
namespace Recycle
variable {E : Type}

theorem Input.startBuild_c2b (P : Payload E) (i : Input E) : (Input.startBuild P i).1.modC2b = i.modC2b := by
  unfold Input.startBuild; split <;> try rfl
  split <;> rfl

theorem Input.commit_c2b (P : Payload E) (i : Input E) : (Input.commit P i).1.modC2b = i.modC2b := by
  unfold Input.commit
  split
  · rfl
  · dsimp only; split <;> rfl

theorem Input.rewrite_c2b (P : Payload E) (pl : Plugin E) (i : Input E) : (Input.rewrite P pl i).1.modC2b = i.modC2b := by
  have hw : ∀ j : Input E, (Input.withEditor P pl j).1.modC2b = j.modC2b := by
    intro j
    unfold Input.withEditor
    split
    · rfl
    · split
      · rw [Input.commit_c2b]
      · rfl
  unfold Input.rewrite
  split
  · rw [hw]; unfold Input.refreshChars; split <;> rfl
  · exact hw i

theorem Input.rewriteAll_c2b (P : Payload E) (pls : List (Plugin E)) (i : Input E) :
    (Input.rewriteAll P pls i).1.modC2b = i.modC2b := by
  induction pls generalizing i with
  | nil => rfl
  | cons pl rest ih =>
    have h1 := Input.rewrite_c2b P pl i
    unfold Input.rewriteAll
    rcases hr : Input.rewrite P pl i with ⟨j, o⟩
    rw [hr] at h1
    cases o with
    | ok => exact (ih j).trans h1
    | err e => exact h1
    | panic => exact h1

/-- what `build` leaves in the two tables the position loop is bounded by -/
theorem Input.build_ok_shape (P : Payload E) (i i' : Input E) (h : Input.build P i = (i', .ok)) :
    i'.modChars = P.chars i.modified ∧ i'.modified = i.modified ∧
    i'.modC2b = i.modC2b ++ P.c2b i.modified ++ [P.lenElem (i.modB2c ++ P.b2c i.modified)] := by
  unfold Input.build at h
  split at h
  · cases h
  · cases h
    exact ⟨List.nil_append _, rfl, rfl⟩

theorem Input.prepare_ok_shape (P : Payload E) (i0 i : Input E) (h : Input.prepare P i0 = (i, .ok)) :
    i.modChars.length = (P.chars i.modified).length ∧
    i.modC2b.length = i0.modC2b.length + (P.c2b i.modified).length + 1 := by
  unfold Input.prepare at h
  have h1 := Input.startBuild_c2b P i0
  rcases hr : Input.startBuild P i0 with ⟨j, o⟩
  rw [hr] at h h1
  cases o with
  | err e => cases h
  | panic => cases h
  | ok =>
    simp only at h h1
    have h2 := Input.rewriteAll_c2b P P.plugins j
    rcases hr2 : Input.rewriteAll P P.plugins j with ⟨k, o⟩
    rw [hr2] at h h2
    cases o with
    | err e => cases h
    | panic => cases h
    | ok =>
      simp only at h h2
      obtain ⟨a, b, c⟩ := Input.build_ok_shape P k i h
      refine ⟨by rw [a, b], ?_⟩
      rw [c, b, h2, h1]
      simp only [List.length_append, List.length_cons, List.length_nil]

end Recycle

namespace RecycleTotal
open Recycle
variable {F : Type}

/-- **`OffsetsInRange` holds for the concrete payload** (every state, every text, both variants of `reset`): the loop
bound `mod_c2b.len() - 1` is the number of characters, which is `mod_chars.len()`. -/
theorem payload_offsetsInRange (rv : ResetVariant) (v : Total.SplitV) (lv : EditM.LenV) (D : Dict) (t : Tok Elem)
    (text : List Elem) : OffsetsInRange rv (payload v lv D) t text := by
  intro i h
  obtain ⟨h1, h2⟩ := Input.prepare_ok_shape (payload v lv D) _ i h
  have h0 : (t.resetWith rv text).input.modC2b = [] := rfl
  rw [h1, h2, h0]
  simp [payload]

/-- the one place where the effective field subset reaches the concrete pipeline -/
def RewriteFree (D : Dict) (s s' : Subset) : Prop := ∀ m p, D.rewrite m s p = D.rewrite m s' p

/-- **`FieldsFree` for the concrete payload, reduced to `RewriteFree`** (for every projection, in particular the
identity: the nodes themselves) -/
theorem payload_fieldsFree (v : Total.SplitV) (lv : EditM.LenV) (D : Dict) (proj : Elem → F) (s s' : Subset)
    (h : RewriteFree D s s') : FieldsFree (payload v lv D) proj s s' := by
  intro m inp full ends ids path0
  have h1 : (payload v lv D).pathNodes s = (payload v lv D).pathNodes s' := rfl
  have h2 : (payload v lv D).rewritePath m s = (payload v lv D).rewritePath m s' := by
    funext inp path
    simp only [payload]
    rw [h m (rns path)]
  unfold pathPhase
  rw [h1, h2]

/-! ## the bridge -/

/-- the discipline model with the concrete payload on a NEW tokenizer computes `Total.tokenize` -/
def Bridge (v : Total.SplitV) (lv : EditM.LenV) (D : Dict) (m : Mode) (s : Subset) (text : List Nat) : Prop :=
  bridgeHolds v lv D m s text = true

instance (v : Total.SplitV) (lv : EditM.LenV) (D : Dict) (m : Mode) (s : Subset) (text : List Nat) :
    Decidable (Bridge v lv D m s text) := by unfold Bridge; infer_instance

theorem rangeEq_eq (a b : Total.NodeRange) (h : rangeEq a b = true) : a = b := by
  cases a; cases b
  simp only [rangeEq, Bool.and_eq_true, beq_iff_eq] at h
  obtain ⟨⟨⟨h1, h2⟩, h3⟩, h4⟩ := h
  subst h1 h2 h3 h4
  rfl

theorem rangesEq_eq : ∀ (a b : List Total.NodeRange), rangesEq a b = true → a = b
  | [], [], _ => rfl
  | [], _ :: _, h => by simp [rangesEq] at h
  | _ :: _, [], h => by simp [rangesEq] at h
  | x :: xs, y :: ys, h => by
    simp only [rangesEq, Bool.and_eq_true] at h
    rw [rangeEq_eq x y h.1, rangesEq_eq xs ys h.2]

/-- `Bridge`, Ok case: outcome, morphemes and tables of the new tokenizer are those of `Total.tokenize` -/
theorem bridge_ok (v : Total.SplitV) (lv : EditM.LenV) (D : Dict) (m : Mode) (s : Subset) (text : List Nat)
    (hb : Bridge v lv D m s text) (r : Total.Result) (h : Total.tokenize v lv (D.cfg m s) text = .ok r) :
    (analyseNew v lv D m s text).2 = .ok ∧ morphsOf (analyseNew v lv D m s text).1 = some r.morphs ∧
    tablesOf (analyseNew v lv D m s text).1.input = r.tables := by
  unfold Bridge bridgeHolds at hb
  rw [h] at hb
  simp only [Bool.and_eq_true, beq_iff_eq] at hb
  obtain ⟨⟨h1, h2⟩, h3⟩ := hb
  refine ⟨h1, ?_, h3⟩
  cases hm : morphsOf (analyseNew v lv D m s text).1 with
  | none => rw [hm] at h2; cases h2
  | some ms => rw [hm] at h2; rw [rangesEq_eq ms r.morphs h2]

/-- `Bridge`, failing case: the outcome class is that of `Total.tokenize` -/
theorem bridge_fail (v : Total.SplitV) (lv : EditM.LenV) (D : Dict) (m : Mode) (s : Subset) (text : List Nat)
    (hb : Bridge v lv D m s text) (hne : ∀ r, Total.tokenize v lv (D.cfg m s) text ≠ .ok r) :
    (analyseNew v lv D m s text).2 = classOf (Total.tokenize v lv (D.cfg m s) text) := by
  unfold Bridge bridgeHolds at hb
  cases ht : Total.tokenize v lv (D.cfg m s) text with
  | ok r => exact absurd ht (hne r)
  | err k => rw [ht] at hb; simpa using hb
  | panic w => rw [ht] at hb; simpa using hb

/-- **the bridge, proved for EVERY configuration, on texts above `MAX_LENGTH`**: both models answer `InputTooLong` at
`start_build` -/
theorem bridge_tooLong (v : Total.SplitV) (lv : EditM.LenV) (D : Dict) (m : Mode) (s : Subset) (text : List Nat)
    (h : text.length > EditM.MAX_LENGTH) : Bridge v lv D m s text := by
  unfold Bridge bridgeHolds
  have ht : Total.tokenize v lv (D.cfg m s) text = .err "TooLong" := by
    unfold Total.tokenize EditM.startBuild
    rw [if_pos h]
  rw [ht]
  have ha : (analyseNew v lv D m s text).2 = .err .tooLong := by
    unfold analyseNew Tok.analyse Tok.doTokenize Input.prepare
    have : Input.startBuild (payload v lv D) ((newTok m s).resetWith .fix (text.map .nat)).input =
        (((newTok m s).resetWith .fix (text.map .nat)).input, .err .tooLong) := by
      unfold Input.startBuild
      rw [if_pos]
      show (([] : List Elem) ++ text.map Elem.nat).length > EditM.MAX_LENGTH
      simpa using h
    rw [this]
  show ((analyseNew v lv D m s text).2 == classOf (Oov.Outcome.err "TooLong" : Oov.Outcome Total.Result)) = true
  rw [ha]
  decide

/-- what a caller reads from result list `j`, as `Total`-level data: the morphemes (node ranges) and the offset tables
of the input buffer the list refers to -/
def report (w : World Elem) (j : Nat) : Option (List Total.NodeRange × List (EditM.P Nat)) :=
  (World.result id w j).map (fun r => (rns r.1, tablesOf r.2))

theorem newTok_eq_freshFor (m : Mode) (req : Option Subset) :
    Tok.freshFor (E := Elem) m req = newTok m (freshSubset m req) := by
  rw [← freshFor_eq m req, freshSubset_eq]
  rfl

end RecycleTotal
