import Sudachi.Model.CodecBuild
/-!
# Decimal texts (`to_string`) against the number / id parsers of `parse.rs` (property C05)
-/
namespace Codec

/-- decimal text of a natural number, as Rust's `to_string` prints it -/
def showNat (n : Nat) : Str := if n < 10 then [48 + n] else showNat (n / 10) ++ [48 + n % 10]
decreasing_by omega

/-- decimal text of an integer -/
def showInt (i : Int) : Str := if i < 0 then 45 :: showNat i.natAbs else showNat i.natAbs

def decStep (a c : Nat) : Nat := a * 10 + (c - 48)

theorem showNat_spec (n : Nat) :
    showNat n ≠ [] ∧ (showNat n).all isDigit = true ∧ (showNat n).foldl (fun a c => a * 10 + (c - 48)) 0 = n := by
  induction n using Nat.strongRecOn with
  | ind n ih =>
    rw [showNat]
    by_cases h : n < 10
    · simp only [h, if_true]
      refine ⟨by simp, ?_, by simp⟩
      simp [isDigit]; omega
    · simp only [h, if_false]
      obtain ⟨h1, h2, h3⟩ := ih (n / 10) (by omega)
      refine ⟨by simp, ?_, ?_⟩
      · simp only [List.all_append, h2, List.all_cons, List.all_nil, Bool.and_true, Bool.true_and]
        simp [isDigit]; omega
      · rw [List.foldl_append, h3]; simp; omega

theorem digitsVal_showNat (n : Nat) : digitsVal (showNat n) = some n := by
  obtain ⟨h1, h2, h3⟩ := showNat_spec n
  unfold digitsVal
  have : (showNat n).isEmpty = false := by cases h : showNat n with | nil => exact absurd h h1 | cons _ _ => rfl
  simp [this, h2, h3]

theorem showNat_head (n : Nat) : ∃ d t, showNat n = d :: t ∧ 48 ≤ d ∧ d ≤ 57 := by
  obtain ⟨h1, h2, _⟩ := showNat_spec n
  cases h : showNat n with
  | nil => exact absurd h h1
  | cons d t =>
    rw [h] at h2
    simp only [List.all_cons, Bool.and_eq_true, isDigit, decide_eq_true_eq] at h2
    exact ⟨d, t, rfl, h2.1.1, h2.1.2⟩

theorem showNat_mem_digit (n : Nat) : ∀ c ∈ showNat n, 48 ≤ c ∧ c ≤ 57 := by
  intro c hc
  have := (showNat_spec n).2.1
  rw [List.all_eq_true] at this
  have := this c hc
  simpa [isDigit] using this

theorem parseU32_showNat (n : Nat) (h : n < 4294967296) : parseU32 (showNat n) = some n := by
  obtain ⟨d, t, e, h1, h2⟩ := showNat_head n
  have hd := digitsVal_showNat n
  rw [e] at hd ⊢
  unfold parseU32
  split
  · rename_i r heq; cases heq; omega
  · rw [hd]; simp; omega

theorem parseU32_plus_showNat (n : Nat) (h : n < 4294967296) : parseU32 (43 :: showNat n) = some n := by
  unfold parseU32
  simp only [digitsVal_showNat, Option.bind_some]
  simp; omega

theorem parseI16_showInt (i : Int) (h : -32768 ≤ i ∧ i ≤ 32767) : parseI16 (showInt i) = some i := by
  unfold showInt
  by_cases hneg : i < 0
  · simp only [hneg, if_true]
    unfold parseI16
    simp only [digitsVal_showNat, Option.bind_some]
    have : i.natAbs ≤ 32768 := by omega
    simp only [this, if_true, Option.some.injEq]
    omega
  · simp only [hneg, if_false]
    obtain ⟨d, t, e, h1, h2⟩ := showNat_head i.natAbs
    have hd := digitsVal_showNat i.natAbs
    rw [e] at hd ⊢
    unfold parseI16
    split
    · rename_i heq; cases heq
    · rename_i r heq; cases heq; omega
    · rename_i r heq; cases heq; omega
    · rw [hd]
      have : i.natAbs ≤ 32767 := by omega
      simp only [Option.bind_some, this, if_true, Option.some.injEq]
      omega

theorem widNew_zero (n : Nat) (h : n < 268435456) : widNew 0 n = n := by
  unfold widNew WORD_MASK
  have : n &&& 0x0fffffff = n := by
    have : (0x0fffffff : Nat) = 2 ^ 28 - 1 := by decide
    rw [this, Nat.and_two_pow_sub_one_eq_mod]
    exact Nat.mod_eq_of_lt h
  rw [this]
  simp

theorem and_hi_zero (n : Nat) (h : n < 268435456) : n &&& 0xf0000000 = 0 := by
  apply Nat.eq_of_testBit_eq
  intro i
  rw [Nat.testBit_and, Nat.zero_testBit]
  by_cases hi : i < 28
  · have : Nat.testBit 0xf0000000 i = false := by
      have : ∀ i, i < 28 → Nat.testBit 0xf0000000 i = false := by decide
      exact this i hi
    simp [this]
  · have : n.testBit i = false := Nat.testBit_lt_two_pow (by
      calc n < 2 ^ 28 := h
        _ ≤ 2 ^ i := Nat.pow_le_pow_right (by decide) (by omega))
    simp [this]

theorem widWord_small (n : Nat) (h : n < 268435456) : widWord n = n := by
  unfold widWord WORD_MASK
  have : (0x0fffffff : Nat) = 2 ^ 28 - 1 := by decide
  rw [this, Nat.and_two_pow_sub_one_eq_mod]
  exact Nat.mod_eq_of_lt h

theorem parseWordIdRaw_showNat (n : Nat) (h : n < 268435456) : parseWordIdRaw (showNat n) = some n := by
  unfold parseWordIdRaw
  rw [parseU32_showNat n (by omega)]
  simp only [Option.bind_some, and_hi_zero n h, ne_eq, not_true_eq_false, if_false, widNew_zero n h]

theorem parseWordId_showNat (n : Nat) (h : n < 268435456) : parseWordId (showNat n) = some n := by
  obtain ⟨d, t, e, h1, h2⟩ := showNat_head n
  have hr := parseWordIdRaw_showNat n h
  rw [e] at hr ⊢
  unfold parseWordId
  split
  · rename_i r heq; cases heq; omega
  · exact hr

theorem parseWordId_U_showNat (n : Nat) (h : n < 268435456) : parseWordId (85 :: showNat n) = some (widNew 1 n) := by
  unfold parseWordId
  simp only [parseWordIdRaw_showNat n h, Option.map_some, widWord_small n h]

theorem isWordIdLiteral_showNat (n : Nat) : isWordIdLiteral (showNat n) = true := by
  obtain ⟨d, t, e, h1, h2⟩ := showNat_head n
  obtain ⟨_, ha, _⟩ := showNat_spec n
  rw [e] at ha ⊢
  unfold isWordIdLiteral
  split
  · rename_i r heq; cases heq; omega
  · simp [ha]

theorem isWordIdLiteral_U_showNat (n : Nat) : isWordIdLiteral (85 :: showNat n) = true := by
  obtain ⟨hne, ha, _⟩ := showNat_spec n
  unfold isWordIdLiteral
  simp only [ha, Bool.and_true, Bool.not_eq_true']
  cases h : showNat n with
  | nil => exact absurd h hne
  | cons _ _ => rfl

/-- the text of a reference: `N`, or `UN` for an entry of the user dictionary itself -/
def showRef (x : Bool × Nat) : Str := if x.1 then 85 :: showNat x.2 else showNat x.2
/-- the word id a reference names -/
def refId (x : Bool × Nat) : Nat := if x.1 then widNew 1 x.2 else x.2

theorem parseWordId_showRef (x : Bool × Nat) (h : x.2 < 268435456) : parseWordId (showRef x) = some (refId x) := by
  unfold showRef refId
  cases x.1
  · exact parseWordId_showNat x.2 h
  · exact parseWordId_U_showNat x.2 h

theorem showRef_mem (x : Bool × Nat) : ∀ c ∈ showRef x, c = 85 ∨ (48 ≤ c ∧ c ≤ 57) := by
  intro c hc
  unfold showRef at hc
  cases hx : x.1
  · rw [hx] at hc; exact Or.inr (showNat_mem_digit _ c hc)
  · rw [hx] at hc
    rcases List.mem_cons.1 hc with rfl | h
    · exact Or.inl rfl
    · exact Or.inr (showNat_mem_digit _ c h)

theorem showRef_ne_nil (x : Bool × Nat) : showRef x ≠ [] := by
  unfold showRef
  cases x.1
  · exact (showNat_spec _).1
  · simp

theorem isWordIdLiteral_showRef (x : Bool × Nat) : isWordIdLiteral (showRef x) = true := by
  unfold showRef
  cases x.1
  · exact isWordIdLiteral_showNat _
  · exact isWordIdLiteral_U_showNat _

example : showNat 0 = [48] ∧ showNat 32767 = lit "32767" ∧ showInt (-32768) = lit "-32768" := by
  refine ⟨by simp [showNat], by simp [showNat, lit], by simp [showInt, showNat, lit]⟩

end Codec
