import Sudachi.Proofs.LayersBuild
import Sudachi.Model.LayersReads
/-!
# The POS intern table across several `read_lexicon` calls, failing ones included
-/
namespace Layers

/-- the rows a `read_bytes` call leaves in the builder: the rows in front of the first rejected line -/
def keptSource : Reader → List Line → List Row
  | _, [] => []
  | r, l :: ls =>
    match readLineK r l with
    | (r', none) => l.row :: keptSource r' ls
    | (_, some _) => []

/-- the rows the builder keeps over a sequence of calls: the declared data of the compiled dictionary -/
def keptSources : Reader → List (List Line) → List Row
  | _, [] => []
  | r, s :: ss => keptSource r s ++ keptSources (readSourceK r s).1 ss

theorem parseSplitsGoK_spec : ∀ (us : List CsvUnit) (m : PosMap), WF m →
    ∃ ext, (parseSplitsGoK m us).1 = m ++ ext ∧ WF (parseSplitsGoK m us).1
  | [], m, hm => ⟨[], by simp [parseSplitsGoK], by simpa [parseSplitsGoK] using hm⟩
  | u :: us, m, hm => by
    unfold parseSplitsGoK
    split
    · exact ⟨[], by simp, hm⟩
    · exact ⟨[], by simp, hm⟩
    · rename_i m1 su h1
      obtain ⟨e1, he1, hw1⟩ := parseSplit_spec m m1 u su hm h1
      obtain ⟨e2, he2, hw2⟩ := parseSplitsGoK_spec us m1 hw1
      split
      all_goals (rename_i heq; rw [heq] at he2 hw2; simp only at he2 hw2 ⊢)
      all_goals exact ⟨e1 ++ e2, by rw [he2, he1, List.append_assoc], hw2⟩

theorem parseSplitsK_spec (us : List CsvUnit) (m : PosMap) (hm : WF m) :
    ∃ ext, (parseSplitsK m us).1 = m ++ ext ∧ WF (parseSplitsK m us).1 := by
  obtain ⟨e, he, hw⟩ := parseSplitsGoK_spec us m hm
  unfold parseSplitsK
  split
  · rename_i heq; rw [heq] at he hw; simp only at he hw
    split <;> exact ⟨e, he, hw⟩
  · rename_i heq; rw [heq] at he hw; exact ⟨e, he, hw⟩
  · rename_i heq; rw [heq] at he hw; exact ⟨e, he, hw⟩

/-- one line, accepted or rejected: the map only grows at the end and stays well-formed; an accepted line appends exactly one
entry whose POS id names the line's POS, a rejected line appends none -/
theorem readLineK_spec (r : Reader) (l : Line) (hm : WF r.pos) :
    ∃ ext, (readLineK r l).1.pos = r.pos ++ ext ∧ WF (readLineK r l).1.pos ∧ (readLineK r l).1.startPos = r.startPos ∧
      ((readLineK r l).2 = none → ∃ e, (readLineK r l).1.entries = r.entries ++ [e] ∧
          (keys (readLineK r l).1.pos)[e.pos]? = some l.row.pos) ∧
      ((readLineK r l).2 ≠ none → (readLineK r l).1.entries = r.entries) := by
  unfold readLineK
  split
  · exact ⟨[], by simp, hm, rfl, by simp, by simp⟩
  · obtain ⟨e1, he1, hw1⟩ := parseSplitsK_spec l.row.a r.pos hm
    split
    · rename_i heq; rw [heq] at he1 hw1; exact ⟨e1, he1, hw1, rfl, by simp, by simp⟩
    · rename_i heq; rw [heq] at he1 hw1; exact ⟨e1, he1, hw1, rfl, by simp, by simp⟩
    · rename_i m1 sa heq
      rw [heq] at he1 hw1; simp only at he1 hw1
      obtain ⟨e2, he2, hw2⟩ := parseSplitsK_spec l.row.b m1 hw1
      have h12 : ∀ m2, m2 = m1 ++ e2 → m2 = r.pos ++ (e1 ++ e2) := by
        intro m2 h; rw [h, he1, List.append_assoc]
      split
      · rename_i heq2; rw [heq2] at he2 hw2; exact ⟨_, h12 _ he2, hw2, rfl, by simp, by simp⟩
      · rename_i heq2; rw [heq2] at he2 hw2; exact ⟨_, h12 _ he2, hw2, rfl, by simp, by simp⟩
      · rename_i m2 sb heq2
        rw [heq2] at he2 hw2; simp only at he2 hw2
        split
        · exact ⟨_, h12 _ he2, hw2, rfl, by simp, by simp⟩
        · exact ⟨_, h12 _ he2, hw2, rfl, by simp, by simp⟩
        · split
          · exact ⟨_, h12 _ he2, hw2, rfl, by simp, by simp⟩
          · exact ⟨_, h12 _ he2, hw2, rfl, by simp, by simp⟩
          · rename_i m3 pid h4
            obtain ⟨e3, he3, hw3, hid⟩ := posOf_spec m2 m3 l.row.pos pid hw2 h4
            have h123 : m3 = r.pos ++ (e1 ++ e2 ++ e3) := by
              rw [he3, he2, he1]; simp only [List.append_assoc]
            split
            · exact ⟨_, h123, hw3, rfl, by simp, by simp⟩
            · split
              · exact ⟨_, h123, hw3, rfl, by simp, by simp⟩
              · exact ⟨_, h123, hw3, rfl, fun _ => ⟨_, rfl, hid⟩, by simp⟩

/-- the conclusion shared by one call and by a sequence of calls: the reader `r'` extends `r`, and the entries appended are, in
order, the kept rows `kept`, each stored with a POS id that names the row's POS in the FINAL map -/
def Extends (r r' : Reader) (kept : List Row) : Prop :=
  ∃ ext es, r'.pos = r.pos ++ ext ∧ WF r'.pos ∧ r'.startPos = r.startPos ∧
    r'.entries = r.entries ++ es ∧ es.length = kept.length ∧
    ∀ (i : Nat) (row : Row), kept[i]? = some row → ∃ e, es[i]? = some e ∧ (keys r'.pos)[e.pos]? = some row.pos

theorem Extends.refl (r : Reader) (hm : WF r.pos) : Extends r r [] :=
  ⟨[], [], by simp, hm, rfl, by simp, rfl, fun i row hi => by simp at hi⟩

/-- ids handed out earlier keep their meaning when the builder goes on: the map only grows at the end -/
theorem Extends.trans {r r1 r2 : Reader} {k1 k2 : List Row} (h1 : Extends r r1 k1) (h2 : Extends r1 r2 k2) :
    Extends r r2 (k1 ++ k2) := by
  obtain ⟨x1, es1, hp1, _, hs1, hent1, hl1, ha1⟩ := h1
  obtain ⟨x2, es2, hp2, hw2, hs2, hent2, hl2, ha2⟩ := h2
  refine ⟨x1 ++ x2, es1 ++ es2, by rw [hp2, hp1, List.append_assoc], hw2, by rw [hs2, hs1],
    by rw [hent2, hent1, List.append_assoc], by simp [hl1, hl2], ?_⟩
  intro i row hi
  by_cases hlt : i < k1.length
  · rw [List.getElem?_append_left hlt] at hi
    obtain ⟨e, he, hk⟩ := ha1 i row hi
    refine ⟨e, by rw [List.getElem?_append_left (by omega)]; exact he, ?_⟩
    rw [hp2]; exact keys_ext r1.pos x2 _ _ hk
  · have hge : k1.length ≤ i := by omega
    rw [List.getElem?_append_right hge] at hi
    obtain ⟨e, he, hk⟩ := ha2 (i - k1.length) row hi
    exact ⟨e, by rw [List.getElem?_append_right (by omega), hl1]; exact he, hk⟩

theorem readLineK_extends (r : Reader) (l : Line) (hm : WF r.pos) :
    Extends r (readLineK r l).1 (match (readLineK r l).2 with | none => [l.row] | some _ => []) := by
  obtain ⟨ext, hp, hw, hs, hok, hfail⟩ := readLineK_spec r l hm
  cases hf : (readLineK r l).2 with
  | none =>
    obtain ⟨e, hent, hid⟩ := hok hf
    refine ⟨ext, [e], hp, hw, hs, hent, rfl, ?_⟩
    intro i row hi
    match i with
    | 0 => simp at hi; subst hi; exact ⟨e, by simp, hid⟩
    | i + 1 => simp at hi
  | some f =>
    have := hfail (by rw [hf]; simp)
    exact ⟨ext, [], hp, hw, hs, by simpa using this, rfl, fun i row hi => by simp at hi⟩

/-- one `read_bytes` call, succeeding or failing -/
theorem readSourceK_extends : ∀ (ls : List Line) (r : Reader), WF r.pos →
    Extends r (readSourceK r ls).1 (keptSource r ls)
  | [], r, hm => by simpa [readSourceK, keptSource] using Extends.refl r hm
  | l :: ls, r, hm => by
    have h1 := readLineK_extends r l hm
    unfold readSourceK keptSource
    cases hrl : readLineK r l with
    | mk r1 f =>
      rw [hrl] at h1
      cases f with
      | none =>
        simp only at h1 ⊢
        have hw1 : WF r1.pos := by obtain ⟨_, _, _, hw, _⟩ := h1; exact hw
        have := Extends.trans h1 (readSourceK_extends ls r1 hw1)
        simpa using this
      | some f => simpa using h1

/-- any sequence of `read_lexicon` calls, whichever of them fail -/
theorem readSources_extends : ∀ (srcs : List (List Line)) (r : Reader), WF r.pos →
    Extends r (readSources r srcs).1 (keptSources r srcs)
  | [], r, hm => by simpa [readSources, keptSources] using Extends.refl r hm
  | s :: ss, r, hm => by
    have h1 := readSourceK_extends s r hm
    have hw1 : WF (readSourceK r s).1.pos := by obtain ⟨_, _, _, hw, _⟩ := h1; exact hw
    have h2 := readSources_extends ss (readSourceK r s).1 hw1
    have := Extends.trans h1 h2
    unfold readSources keptSources
    cases hrs : readSourceK r s with
    | mk r1 f =>
      rw [hrs] at this
      cases hrr : readSources r1 ss with
      | mk r2 fs =>
        rw [hrr] at this
        simpa [hrr] using this

/-- `resolve` + `compile` on any reader state that extends the preloaded one: the written table reads back and the POS id
stored for the i-th kept row names that row's POS in `g ++ own` -/
theorem finishBuild_pos_numbering (g : List Pos) (sw : List SysWord) (r : Reader) (kept : List Row) (b : Built)
    (hnd : g.Nodup) (hle : g.length ≤ 32768) (hext : Extends (preloadPos g) r kept)
    (h : finishBuild (some (g, sw)) r = .ok b) :
    ∃ own, readPosTable b = .ok own ∧ b.words.length = kept.length ∧
      ∀ (i : Nat) (row : Row), kept[i]? = some row →
        ∃ wd, b.words[i]? = some wd ∧ (g ++ own)[wd.posId]? = some row.pos := by
  unfold finishBuild at h
  simp only at h
  obtain ⟨hk0, hw0, hs0, he0⟩ := preloadPos_spec g hnd hle
  obtain ⟨ext, es, hp, hw, hs, hent, hlen, hall⟩ := hext
  rw [he0, List.nil_append] at hent
  split at h
  · cases h
  · cases h
  · rename_i es' hres
    split at h
    · cases h
    · cases h
    · cases h
      have hpos : es'.map (·.pos) = r.entries.map (·.pos) := by
        split at hres
        · exact resolveEntries_pos _ _ _ _ hres
        · cases hres; rfl
      have hkeys : keys r.pos = g ++ keys ext := by rw [hp]; simp only [keys, List.map_append] at *; rw [hk0]
      have hstart : r.startPos = g.length := by rw [hs, hs0]
      have hsle : r.startPos ≤ r.pos.length := by
        rw [hstart, ← keys_length r.pos, hkeys]; simp
      have hwt := writePosTable_spec { r with entries := es' } hw hsle
      simp only at hwt
      rw [hwt]
      have hdrop : (keys r.pos).drop r.startPos = keys ext := by rw [hkeys, hstart]; simp
      refine ⟨keys ext, ?_, ?_, ?_⟩
      · unfold readPosTable
        simp only [hdrop]
        rw [if_pos]
        rw [keys_length ext, hstart, ← keys_length r.pos, hkeys]; simp [keys_length]
      · simp only [List.length_map]
        have : es'.length = r.entries.length := by
          have := congrArg List.length hpos; simpa using this
        rw [this, hent, hlen]
      · intro i row hi
        obtain ⟨e, he, hk⟩ := hall i row hi
        rw [← hent] at he
        have hposi : (es'.map (·.pos))[i]? = some e.pos := by rw [hpos]; simp [he]
        simp only [List.getElem?_map] at hposi
        cases hes : es'[i]? with
        | none => rw [hes] at hposi; cases hposi
        | some e' =>
          rw [hes] at hposi
          simp at hposi
          refine ⟨entryWord e', by simp [hes], ?_⟩
          simp only [entryWord, hposi]
          rw [← hkeys]; exact hk

/-- what a source keeps is a prefix of its lines: all of them when the call succeeds, the lines in front of the rejected one
when it fails -/
theorem keptSource_prefix : ∀ (ls : List Line) (r : Reader),
    ∃ k, keptSource r ls = (ls.take k).map (·.row) ∧
      ((readSourceK r ls).2 = none → k = ls.length) ∧ ((readSourceK r ls).2 ≠ none → k < ls.length)
  | [], r => ⟨0, by simp [keptSource], by simp [readSourceK], by simp [readSourceK]⟩
  | l :: ls, r => by
    unfold keptSource readSourceK
    cases hrl : readLineK r l with
    | mk r1 f =>
      cases f with
      | none =>
        obtain ⟨k, hk, h1, h2⟩ := keptSource_prefix ls r1
        exact ⟨k + 1, by simp [hk], fun h => by simp [h1 h], fun h => by have := h2 h; simp; omega⟩
      | some f => exact ⟨0, by simp, by simp, by simp⟩

end Layers
