import Sudachi.Proofs.SentenceConv
/-!
# `find_iter` misses no terminator: a match that starts inside an earlier match ends where that
match ends, so `matchEnds` contains the end of *every* anchored match of SENTENCE_BREAKER.
-/
namespace Sentence

theorem spanLen_drop (p : Nat → Bool) : ∀ (l : Text) (d : Nat), d ≤ spanLen p l →
    spanLen p (l.drop d) = spanLen p l - d := by
  intro l
  induction l with
  | nil => intro d _; simp [spanLen]
  | cons c cs ih =>
    intro d hd
    cases d with
    | zero => simp
    | succ d =>
      simp only [spanLen] at hd ⊢
      split at hd
      · rename_i hc
        simp only [hc, if_true, List.drop_succ_cons]
        rw [ih d (by omega)]; omega
      · omega

theorem dp_not_cdot {c : Nat} (h : isDotOrPeriod c = true) : isCdot c = false := by
  simp only [isDotOrPeriod, isDot, isPeriod, Bool.or_eq_true, decide_eq_true_eq] at h
  simp only [isCdot, decide_eq_false_iff_not]
  omega

theorem cdot_not_period {c : Nat} (h : isCdot c = true) : isPeriod c = false := by
  simp only [isCdot, decide_eq_true_eq] at h
  subst h; decide

/-- a match that starts on a terminator character runs to the end of the run of such characters -/
theorem breakerAt_dp_head {pv : Option Nat} {c : Nat} {r : Text} {n : Nat}
    (hc : isDotOrPeriod c = true) (h : breakerAt pv (c :: r) = some n) :
    n = 1 + spanLen isDotOrPeriod r := by
  simp only [breakerAt] at h
  split at h
  · simpa using h.symm
  · rename_i hp
    simp only [dp_not_cdot hc, Bool.false_eq_true, if_false] at h
    have hd : isDot c = true := by
      simp only [isDotOrPeriod, Bool.or_eq_true] at hc
      rcases hc with hc | hc
      · exact hc
      · exact absurd hc hp
    simp only [hd, if_true] at h
    split at h
    · simpa using h.symm
    · cases h

/-- positions inside a run of terminator characters that starts at `q` -/
theorem same_end_in_run {l : Text} {q d n' : Nat} {pv' : Option Nat}
    (hq : q ≤ d) (hd : d < q + spanLen isDotOrPeriod (l.drop q))
    (h : breakerAt pv' (l.drop d) = some n') : d + n' = q + spanLen isDotOrPeriod (l.drop q) := by
  have hdrop : l.drop d = (l.drop q).drop (d - q) := by
    rw [List.drop_drop]; congr 1; omega
  have hspan := spanLen_drop isDotOrPeriod (l.drop q) (d - q) (by omega)
  rw [← hdrop] at hspan
  cases hl : l.drop d with
  | nil => rw [hl] at h; simp [breakerAt] at h
  | cons c r =>
    rw [hl] at h hspan
    have hc : isDotOrPeriod c = true := by
      simp only [spanLen] at hspan
      split at hspan
      · assumption
      · omega
    have hn := breakerAt_dp_head hc h
    simp only [spanLen, hc, if_true] at hspan
    omega

theorem brUnits_drop : ∀ (l : Text) (j : Nat), j ≤ brUnits l →
    brUnits (l.drop (4 * j)) = brUnits l - j := by
  intro l
  fun_induction brUnits l with
  | case1 a b c d rest h ih =>
    intro j hj
    cases j with
    | zero => simp [brUnits, h]
    | succ j =>
      have : 4 * (j + 1) = 4 * j + 1 + 1 + 1 + 1 := by omega
      rw [this]
      simp only [List.drop_succ_cons]
      rw [ih j (by omega)]; omega
  | case2 a b c d rest h =>
    intro j hj
    have : j = 0 := by omega
    subst this; simp [brUnits, h]
  | case3 l h =>
    intro j hj
    have : j = 0 := by omega
    subst this
    simp only [Nat.mul_zero, List.drop_zero, Nat.sub_zero]
    unfold brUnits
    split
    · rename_i a b c d rest; exact absurd rfl (h a b c d rest)
    · rfl

/-- the characters of a tag other than `<` start no match -/
theorem breakerAt_tag_inner {pv : Option Nat} {c : Nat} {r : Text}
    (hc : c = 0x62 ∨ c = 0x72 ∨ c = 0x3E ∨ c = 0x42 ∨ c = 0x52) : breakerAt pv (c :: r) = none := by
  rcases hc with rfl | rfl | rfl | rfl | rfl <;> simp [breakerAt, isPeriod, isCdot, isDot]

theorem br_inner : ∀ (l : Text) (d : Nat) (pv : Option Nat), d < 4 * brUnits l → d % 4 ≠ 0 →
    breakerAt pv (l.drop d) = none := by
  intro l
  fun_induction brUnits l with
  | case1 a b c d rest h ih =>
    intro x pv hx hmod
    have htag : a = 0x3C ∧ d = 0x3E ∧ ((b = 0x62 ∧ c = 0x72) ∨ (b = 0x42 ∧ c = 0x52)) := by
      simpa [isBrTag, and_assoc] using h
    match x, hmod with
    | 0, hmod => simp at hmod
    | 1, _ =>
      simp only [List.drop_succ_cons, List.drop_zero]
      exact breakerAt_tag_inner (by omega)
    | 2, _ =>
      simp only [List.drop_succ_cons, List.drop_zero]
      exact breakerAt_tag_inner (by omega)
    | 3, _ =>
      simp only [List.drop_succ_cons, List.drop_zero]
      exact breakerAt_tag_inner (by omega)
    | x + 4, hmod =>
      simp only [List.drop_succ_cons]
      exact ih x pv (by omega) (by omega)
  | case2 a b c d rest h => intro x pv hx; omega
  | case3 l h => intro x pv hx; omega

/-- **a match that starts inside another match ends where that match ends** -/
theorem same_end {pv pv' : Option Nat} {l : Text} {n d n' : Nat}
    (h : breakerAt pv l = some n) (hd0 : 0 < d) (hdn : d < n)
    (h' : breakerAt pv' (l.drop d) = some n') : d + n' = n := by
  cases l with
  | nil => simp [breakerAt] at h
  | cons c rest =>
    have hrun1 : ∀ m, m = 1 + spanLen isDotOrPeriod rest → d < m → d + n' = m := by
      intro m hm hdm
      have := same_end_in_run (l := c :: rest) (q := 1) (d := d) (pv' := pv') (by omega)
        (by simp only [List.drop_succ_cons, List.drop_zero]; omega) h'
      simpa [hm] using this
    simp only [breakerAt] at h
    split at h
    · simp only [Option.some.injEq] at h
      exact hrun1 n h.symm hdn
    · rename_i hnp
      split at h
      · rename_i hcd
        split at h
        · rename_i h3
          simp only [Option.some.injEq] at h
          -- a = length of the run of `・` including the head
          have ha : spanLen isCdot (c :: rest) = 1 + spanLen isCdot rest := by
            simp [spanLen, hcd]; omega
          have hdropa : rest.drop (1 + spanLen isCdot rest - 1) = (c :: rest).drop (1 + spanLen isCdot rest) := by
            rw [Nat.add_comm 1, List.drop_succ_cons]; simp
          rw [hdropa] at h
          by_cases hda : d < 1 + spanLen isCdot rest
          · -- still inside the run of `・`
            have hsp := spanLen_drop isCdot (c :: rest) d (by omega)
            rw [ha] at hsp
            cases hl : (c :: rest).drop d with
            | nil => rw [hl] at h'; simp [breakerAt] at h'
            | cons c' r' =>
              rw [hl] at h' hsp
              have hcs : spanLen isCdot (c' :: r') = if isCdot c' = true then spanLen isCdot r' + 1 else 0 := rfl
              rw [hcs] at hsp
              have hc' : isCdot c' = true := by
                split at hsp
                · assumption
                · omega
              simp only [hc', if_true] at hsp
              have hr1 : r' = (c :: rest).drop (d + 1) := by
                rw [← List.drop_drop, hl]; rfl
              have hr' : ∀ m, d + 1 + m = 1 + spanLen isCdot rest →
                  r'.drop m = (c :: rest).drop (1 + spanLen isCdot rest) := by
                intro m hm; rw [hr1, List.drop_drop, hm]
              simp only [breakerAt, cdot_not_period hc', Bool.false_eq_true, if_false, hc', if_true] at h'
              split at h'
              · simp only [Option.some.injEq] at h'
                rw [hr' (1 + spanLen isCdot r' - 1) (by omega)] at h'
                omega
              · cases h'
          · exact (same_end_in_run (l := c :: rest) (q := 1 + spanLen isCdot rest) (d := d) (pv' := pv')
              (by omega) (by omega) h').trans (by omega)
        · cases h
      · split at h
        · split at h
          · simp only [Option.some.injEq] at h
            exact hrun1 n h.symm hdn
          · cases h
        · split at h
          · rename_i hlt
            split at h
            · rename_i h2
              simp only [Option.some.injEq] at h
              by_cases hmod : d % 4 = 0
              · have hj : d = 4 * (d / 4) := by omega
                have hjk : d / 4 ≤ brUnits (c :: rest) := by omega
                have hbd := brUnits_drop (c :: rest) (d / 4) hjk
                rw [← hj] at hbd
                cases hl : (c :: rest).drop d with
                | nil => rw [hl] at h'; simp [breakerAt] at h'
                | cons c' r' =>
                  rw [hl] at h' hbd
                  have hpos : 1 ≤ brUnits (c' :: r') := by omega
                  have hc' : c' = 0x3C := by
                    cases r' with
                    | nil => simp [brUnits] at hpos
                    | cons b1 r1 =>
                      cases r1 with
                      | nil => simp [brUnits] at hpos
                      | cons b2 r2 =>
                        cases r2 with
                        | nil => simp [brUnits] at hpos
                        | cons b3 r3 =>
                          simp only [brUnits] at hpos
                          split at hpos
                          · rename_i ht; simp [isBrTag] at ht; exact ht.1.1
                          · omega
                  subst hc'
                  simp [breakerAt, isPeriod, isCdot, isDot] at h'
                  omega
              · have := br_inner (c :: rest) d pv' (by omega) hmod
                rw [this] at h'; cases h'
            · cases h
          · cases h

/-- the character before position `k` -/
def prevChar (s : Text) (k : Nat) : Option Nat := if k = 0 then none else s[k - 1]?

theorem prevChar_succ {s : Text} {k c : Nat} {rest : Text} (hs : s.drop k = c :: rest) :
    prevChar s (k + 1) = some c := by
  unfold prevChar
  simp only [Nat.add_one_ne_zero, if_false, Nat.add_sub_cancel]
  have : (s.drop k)[0]? = some c := by rw [hs]; rfl
  simpa using this

/-- **`find_iter` misses no terminator**: the end of every anchored match of SENTENCE_BREAKER (taken with
its true look-behind context) at or after the current position is among the reported ends -/
theorem matchEnds_complete {s : Text} : ∀ (l : Text) (k0 : Nat) (prev : Option Nat) (skip : Nat),
    s.drop k0 = l → prev = prevChar s k0 →
    ∀ j n, k0 + skip ≤ j → breakerAt (prevChar s j) (s.drop j) = some n →
      j + n ∈ matchEnds k0 prev skip l := by
  intro l
  induction l with
  | nil =>
    intro k0 prev skip hs _ j n hj hb
    have : s.drop j = [] := by
      have h1 : s.length ≤ k0 := by
        have := congrArg List.length hs
        simp only [List.length_drop, List.length_nil] at this
        omega
      exact List.drop_eq_nil_of_le (by omega)
    rw [this] at hb; simp [breakerAt] at hb
  | cons c rest ih =>
    intro k0 prev skip hs hprev j n hj hb
    have hs' : s.drop (k0 + 1) = rest := by
      rw [← List.drop_drop, hs]; rfl
    have hprev' : some c = prevChar s (k0 + 1) := (prevChar_succ hs).symm
    cases skip with
    | succ sk =>
      simp only [matchEnds]
      exact ih _ _ _ hs' hprev' j n (by omega) hb
    | zero =>
      simp only [matchEnds]
      cases hb0 : breakerAt prev (c :: rest) with
      | none =>
        simp only
        by_cases hjk : j = k0
        · subst hjk; rw [← hprev, hs, hb0] at hb; cases hb
        · exact ih _ _ _ hs' hprev' j n (by omega) hb
      | some n0 =>
        simp only [List.mem_cons]
        have hn0 := (breakerAt_bounds hb0).1
        by_cases hjk : j = k0
        · subst hjk; rw [← hprev, hs, hb0] at hb; cases hb; exact Or.inl rfl
        · by_cases hin : j < k0 + n0
          · left
            have hdrop : s.drop j = (c :: rest).drop (j - k0) := by
              rw [← hs, List.drop_drop]; congr 1; omega
            rw [hdrop] at hb
            have := same_end hb0 (by omega) (by omega) hb
            omega
          · right
            exact ih _ _ _ hs' hprev' j n (by omega) hb

end Sentence
