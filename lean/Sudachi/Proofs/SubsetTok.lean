import Sudachi.Proofs.Subset
/-!
# Proofs for the subset-loading model (C11), part 2

F. `LexiconSet::get_word_info_subset`: the per-field fix-ups (`fixPos`, `fixSplits`, `updateDictId`);
G. the part of the analysis that reads word infos (`resolvePath`, `splitGo`, `splitPath`, `tokenize`):
   boundaries and word ids depend on the loaded subset only through the split list of the mode and
   the head-word length.
-/
namespace Subset

/-! ## F. `get_word_info_subset` -/

theorem fixSplits_eq (d S : Nat) (wi : WordInfoData) :
    fixSplits d S wi =
      { wi with
        aUnitSplit := if S.testBit SPLIT_A then updateDictId wi.aUnitSplit d else wi.aUnitSplit
        bUnitSplit := if S.testBit SPLIT_B then updateDictId wi.bUnitSplit d else wi.bUnitSplit
        wordStructure := if S.testBit WORD_STRUCTURE then updateDictId wi.wordStructure d else wi.wordStructure } := by
  simp only [fixSplits]
  cases S.testBit SPLIT_A <;> cases S.testBit SPLIT_B <;> cases S.testBit WORD_STRUCTURE <;> rfl

/-- the re-based POS id -/
def rebasedPos (ls : LexSet) (d pos : Nat) : Nat :=
  if d > 0 ∧ pos ≥ ls.numSystemPos then (pos - ls.numSystemPos + (ls.posOffsets[d]?).getD 0) % 65536 else pos

theorem fixPos_eq (ls : LexSet) (d S : Nat) (wi : WordInfoData) (h : d < ls.posOffsets.length) :
    fixPos ls d S wi = .ok { wi with posId := if S.testBit POS_ID then rebasedPos ls d wi.posId else wi.posId } := by
  unfold fixPos rebasedPos
  cases hS : S.testBit POS_ID
  · simp
  · by_cases hc : d > 0 ∧ wi.posId ≥ ls.numSystemPos
    · simp [hc, List.getElem?_eq_getElem h]
    · simp [hc]

/-- sources of a lexicon set: per dictionary the words and the header's synonym flag -/
abbrev Src := List (List WordInfoData × Bool)

/-- the lexicon set whose records are the encodings of the source words -/
def lexSetOf (src : Src) (posOffsets : List Nat) (nsys : Nat) : LexSet :=
  ⟨src.map (fun p => lexOf p.1 p.2), posOffsets, nsys⟩

/-- what the loader guarantees: representable words, dictionary forms inside their own lexicon, one
POS offset per lexicon (`append` pushes both vectors together) -/
structure LexSetOk (src : Src) (posOffsets : List Nat) : Prop where
  wf : ∀ p ∈ src, ∀ w ∈ p.1, WF w
  df : ∀ p ∈ src, DfOk p.1
  pos : posOffsets.length = src.length

/-- word `w` of dictionary `d` as `get_word_info_subset` reports it with all fields: POS re-based,
`U`-references of the three id lists re-stamped with the dictionary's own id -/
def rebased (ls : LexSet) (d : Nat) (w : WordInfoData) : WordInfoData :=
  { w with
    posId := rebasedPos ls d w.posId
    aUnitSplit := updateDictId w.aUnitSplit d
    bUnitSplit := updateDictId w.bUnitSplit d
    wordStructure := updateDictId w.wordStructure d }

theorem effSubset_testBit {hasSyn : Bool} {S j : Nat} (h : (effSubset hasSyn S).testBit j = true) :
    S.testBit j = true := by
  unfold effSubset at h
  split at h
  · rw [testBit_remove] at h
    simp at h
    exact h.1
  · exact h

theorem testBit_effSubset {hasSyn : Bool} {S j : Nat} (hj : j ≠ SYNONYM_GROUP_ID) (h : S.testBit j = true) :
    (effSubset hasSyn S).testBit j = true := by
  unfold effSubset
  split
  · rw [testBit_remove, h]; simp [Ne.symm hj]
  · exact h

theorem lexSetOf_get (src : Src) (po : List Nat) (nsys d : Nat) (hd : d < src.length) :
    (lexSetOf src po nsys).lexicons[d]? = some (lexOf src[d].1 src[d].2) := by
  simp [lexSetOf, List.getElem?_map, List.getElem?_eq_getElem hd]

/-- **`LexiconSet::get_word_info_subset`, every request, any number of user dictionaries.**  For a
word id inside the set: the call succeeds; every requested stored field (synonym ids only when the
dictionary's header announces them) holds the value of the full report `rebased` — in particular each
of SPLIT_A / SPLIT_B / WORD_STRUCTURE is re-stamped as soon as ITS flag is requested, whatever the
other two are; and the head-word length is the word's whenever the reader reached it. -/
theorem getWordInfoSubset_spec (src : Src) (po : List Nat) (nsys : Nat) (hok : LexSetOk src po)
    (id : Nat) (hd : widDic id < src.length) (hk : widWord id < (src[widDic id]).1.length) (S : Nat) :
    ∃ info, getWordInfoSubset (lexSetOf src po nsys) id S = .ok info ∧
      FieldsEq (effSubset (src[widDic id]).2 S) info
        (rebased (lexSetOf src po nsys) (widDic id) ((src[widDic id]).1[widWord id])) ∧
      (Loaded (effSubset (src[widDic id]).2 S) 1 →
        info.headWordLength = ((src[widDic id]).1[widWord id]).headWordLength) := by
  have hmem : src[widDic id] ∈ src := List.getElem_mem hd
  obtain ⟨i0, e0, l0, _⟩ := getWordInfo_spec_full (src[widDic id]).1 (hok.wf _ hmem) (hok.df _ hmem)
    (src[widDic id]).2 (widWord id) hk S
  have hpo : widDic id < (lexSetOf src po nsys).posOffsets.length := by
    show widDic id < po.length
    rw [hok.pos]; exact hd
  unfold getWordInfoSubset
  simp only [lexSetOf_get src po nsys _ hd, e0, fixPos_eq _ _ _ _ hpo, fixSplits_eq]
  refine ⟨_, rfl, ?_, ?_⟩
  · have key : ∀ j, j < 10 → (effSubset (src[widDic id]).2 S).testBit j = true →
        S.testBit j = true ∧ proj j i0 = proj j ((src[widDic id]).1[widWord id]) :=
      fun j hj h => ⟨effSubset_testBit h, l0 j ⟨hj, Or.inl h⟩⟩
    constructor
    · intro h; have := (key 0 (by omega) h).2; simp [proj] at this; simpa [rebased] using this
    · intro h; have := (key 1 (by omega) h).2; simp [proj] at this; simpa [rebased] using this
    · intro h
      obtain ⟨hS, hp⟩ := key 2 (by omega) h
      simp [proj] at hp
      have hS' : S.testBit POS_ID = true := hS
      simp [rebased, hS', hp]
    · intro h; have := (key 3 (by omega) h).2; simp [proj] at this; simpa [rebased] using this
    · intro h; have := (key 4 (by omega) h).2; simp [proj] at this; simpa [rebased] using this
    · intro h; have := (key 5 (by omega) h).2; simp [proj] at this; simpa [rebased] using this
    · intro h
      obtain ⟨hS, hp⟩ := key 6 (by omega) h
      simp [proj] at hp
      have hS' : S.testBit SPLIT_A = true := hS
      simp [rebased, hS', hp]
    · intro h
      obtain ⟨hS, hp⟩ := key 7 (by omega) h
      simp [proj] at hp
      have hS' : S.testBit SPLIT_B = true := hS
      simp [rebased, hS', hp]
    · intro h
      obtain ⟨hS, hp⟩ := key 8 (by omega) h
      simp [proj] at hp
      have hS' : S.testBit WORD_STRUCTURE = true := hS
      simp [rebased, hS', hp]
    · intro h; have := (key 9 (by omega) h).2; simp [proj] at this; simpa [rebased] using this
  · intro h
    have := l0 1 h
    simp [proj] at this
    simpa using this

/-- a word id outside the set: the call panics (indexing), whatever the request -/
theorem getWordInfoSubset_oob (src : Src) (po : List Nat) (nsys : Nat) (id : Nat) (S : Nat)
    (h : ¬ (∃ hd : widDic id < src.length, widWord id < (src[widDic id]).1.length)) :
    getWordInfoSubset (lexSetOf src po nsys) id S = .panic := by
  unfold getWordInfoSubset
  by_cases hd : widDic id < src.length
  · have hk : ¬ widWord id < (src[widDic id]).1.length := fun hk => h ⟨hd, hk⟩
    have hnone : (lexOf (src[widDic id]).1 (src[widDic id]).2).recs[widWord id]? = none := by
      simp only [lexOf, List.getElem?_map]
      rw [List.getElem?_eq_none (by omega)]
      rfl
    simp only [lexSetOf_get src po nsys _ hd, getWordInfo, parseWordInfo, hnone]
  · have : (lexSetOf src po nsys).lexicons[widDic id]? = none := by
      simp only [lexSetOf, List.getElem?_map]
      rw [List.getElem?_eq_none (by omega)]
      rfl
    simp only [this]

/-! ### `WordId` arithmetic and `update_dict_id` -/

theorem widWord_eq_mod (w : Nat) : widWord w = w % 268435456 := by
  unfold widWord
  have hm : (0x0fffffff : Nat) = 2 ^ 28 - 1 := by rfl
  rw [hm, Nat.and_two_pow_sub_one_eq_mod]

theorem widNew_spec (d w : Nat) (hd : d < 16) :
    widDic (widNew d w) = d ∧ widWord (widNew d w) = w % 268435456 := by
  have hf : (0xf : Nat) = 2 ^ 4 - 1 := by rfl
  have hdd : d &&& 0xf = d := by
    rw [hf, Nat.and_two_pow_sub_one_eq_mod]; exact Nat.mod_eq_of_lt (by simpa using hd)
  have hlt : w % 268435456 < 2 ^ 28 := by omega
  have hsum : widNew d w = d * 268435456 + w % 268435456 := by
    unfold widNew
    rw [← widWord, widWord_eq_mod, hdd, ← Nat.shiftLeft_add_eq_or_of_lt hlt, Nat.shiftLeft_eq]
  constructor
  · rw [hsum]; unfold widDic; rw [Nat.shiftRight_eq_div_pow]; omega
  · rw [widWord_eq_mod, hsum]; omega

/-- **`update_dict_id`.**  The list keeps its length; a reference to the system dictionary
(dictionary number 0) is unchanged; any other reference (the builder stores `U`-references with
number 1) gets the number of the dictionary the word was read from and keeps its word number. -/
theorem updateDictId_spec (split : List Nat) (d : Nat) (hd : d < 16) :
    (updateDictId split d).length = split.length ∧
    ∀ i (hi : i < split.length) (hi' : i < (updateDictId split d).length),
      (widDic split[i] = 0 → (updateDictId split d)[i] = split[i]) ∧
      (widDic split[i] > 0 → widDic (updateDictId split d)[i] = d ∧
        widWord (updateDictId split d)[i] = widWord split[i]) := by
  refine ⟨by simp [updateDictId], ?_⟩
  intro i hi hi'
  simp only [updateDictId, List.getElem_map]
  constructor
  · intro h0
    have : ¬ widDic split[i] > 0 := by omega
    simp [this]
  · intro hpos
    simp only [hpos, if_true]
    obtain ⟨h1, h2⟩ := widNew_spec d (widWord split[i]) hd
    refine ⟨h1, ?_⟩
    rw [h2, widWord_eq_mod]; omega

/-! ## G. word infos of the path, `split_path` -/

/-- what the property observes of a token: word identity and byte boundaries -/
def shape (n : RNode) : Nat × Nat × Nat := (n.wid, n.bb, n.be)

def shapeRes : Res (List RNode) → Res (List (Nat × Nat × Nat))
  | .ok rs => .ok (rs.map shape)
  | .err => .err
  | .panic => .panic

/-- the two things `split_path` reads from a word info: the split list of the mode and (for the units
of a split) the head-word length -/
def AgreeWI (m : Mode) (i1 i2 : WordInfoData) : Prop :=
  splitsOf m i1 = splitsOf m i2 ∧ (m ≠ .C → i1.headWordLength = i2.headWordLength)

/-- two requests under which every word-info load has the same outcome class and agrees on those -/
def GwisAgree (ls : LexSet) (m : Mode) (S1 S2 : Nat) : Prop :=
  ∀ id, (getWordInfoSubset ls id S1 = .panic ∧ getWordInfoSubset ls id S2 = .panic) ∨
    ∃ i1 i2, getWordInfoSubset ls id S1 = .ok i1 ∧ getWordInfoSubset ls id S2 = .ok i2 ∧ AgreeWI m i1 i2

theorem splitGo_agree (ls : LexSet) (m : Mode) (hm : m ≠ .C) (S1 S2 : Nat) (H : GwisAgree ls m S1 S2)
    (text : Bytes) (byteEnd : Nat) :
    ∀ (splits : List Nat) (byteStart : Nat),
      shapeRes (splitGo ls S1 text byteEnd splits byteStart) = shapeRes (splitGo ls S2 text byteEnd splits byteStart) := by
  intro splits
  induction splits with
  | nil => intro _; rfl
  | cons wordId rest ih =>
    intro byteStart
    unfold splitGo
    rcases H wordId with ⟨p1, p2⟩ | ⟨i1, i2, e1, e2, _, hh⟩
    · simp only [p1, p2]
    · simp only [e1, e2, hh hm]
      by_cases hr : rest.isEmpty = true
      · simp [hr, shapeRes, shape]
      · simp only [hr, Bool.false_eq_true, if_false]
        cases hs : snap text (min (byteStart + i2.headWordLength) byteEnd) with
        | err => rfl
        | panic => rfl
        | ok be =>
          simp only []
          have := ih (be % 65536)
          revert this
          generalize splitGo ls S1 text byteEnd rest (be % 65536) = r1
          generalize splitGo ls S2 text byteEnd rest (be % 65536) = r2
          intro h
          cases r1 <;> cases r2 <;> simp_all [shapeRes, shape]

def NodeAgree (m : Mode) (a b : RNode) : Prop := shape a = shape b ∧ splitsOf m a.info = splitsOf m b.info

def PathAgree (m : Mode) : List RNode → List RNode → Prop
  | [], [] => True
  | a :: as, b :: bs => NodeAgree m a b ∧ PathAgree m as bs
  | _, _ => False

theorem splitPath_agree (ls : LexSet) (m : Mode) (S1 S2 : Nat) (H : GwisAgree ls m S1 S2) (text : Bytes) :
    ∀ (rs1 rs2 : List RNode), PathAgree m rs1 rs2 →
      shapeRes (splitPath ls m S1 text rs1) = shapeRes (splitPath ls m S2 text rs2) := by
  intro rs1
  induction rs1 with
  | nil =>
    intro rs2 h
    cases rs2 with
    | nil => rfl
    | cons _ _ => simp [PathAgree] at h
  | cons a as ih =>
    intro rs2 h
    cases rs2 with
    | nil => simp [PathAgree] at h
    | cons b bs =>
      obtain ⟨⟨hshape, hsplits⟩, htail⟩ := h
      have hwid : a.wid = b.wid := by simp [shape] at hshape; exact hshape.1
      have hbb : a.bb = b.bb := by simp [shape] at hshape; exact hshape.2.1
      have hbe : a.be = b.be := by simp [shape] at hshape; exact hshape.2.2
      have iht := ih bs htail
      unfold splitPath
      simp only [hsplits]
      have hhead : shapeRes (if m = .C ∨ (splitsOf m b.info).length ≤ 1 then Res.ok [a]
            else splitGo ls S1 text a.be (splitsOf m b.info) a.bb) =
          shapeRes (if m = .C ∨ (splitsOf m b.info).length ≤ 1 then Res.ok [b]
            else splitGo ls S2 text b.be (splitsOf m b.info) b.bb) := by
        by_cases hc : m = .C ∨ (splitsOf m b.info).length ≤ 1
        · simp [hc, shapeRes, hshape]
        · simp only [hc, if_false]
          have hm : m ≠ .C := fun e => hc (Or.inl e)
          rw [hbb, hbe]
          exact splitGo_agree ls m hm S1 S2 H text b.be _ _
      revert hhead iht
      generalize (if m = .C ∨ (splitsOf m b.info).length ≤ 1 then Res.ok [a]
            else splitGo ls S1 text a.be (splitsOf m b.info) a.bb) = h1
      generalize (if m = .C ∨ (splitsOf m b.info).length ≤ 1 then Res.ok [b]
            else splitGo ls S2 text b.be (splitsOf m b.info) b.bb) = h2
      generalize splitPath ls m S1 text as = t1
      generalize splitPath ls m S2 text bs = t2
      intro hhead iht
      cases h1 <;> cases h2 <;> cases t1 <;> cases t2 <;> simp_all [shapeRes, List.map_append]

theorem resolvePath_agree (ls : LexSet) (m : Mode) (S1 S2 : Nat) (H : GwisAgree ls m S1 S2) :
    ∀ (path : List PNode),
      (resolvePath ls S1 path = .panic ∧ resolvePath ls S2 path = .panic) ∨
      ∃ rs1 rs2, resolvePath ls S1 path = .ok rs1 ∧ resolvePath ls S2 path = .ok rs2 ∧ PathAgree m rs1 rs2 := by
  intro path
  induction path with
  | nil => exact Or.inr ⟨[], [], rfl, rfl, trivial⟩
  | cons n ns ih =>
    have hnode : (resolveNode ls S1 n = .panic ∧ resolveNode ls S2 n = .panic) ∨
        ∃ r1 r2, resolveNode ls S1 n = .ok r1 ∧ resolveNode ls S2 n = .ok r2 ∧ NodeAgree m r1 r2 := by
      unfold resolveNode
      by_cases hoov : widDic n.wid = 0xf
      · simp only [hoov, if_true]
        exact Or.inr ⟨_, _, rfl, rfl, rfl, rfl⟩
      · simp only [hoov, if_false]
        rcases H n.wid with ⟨p1, p2⟩ | ⟨i1, i2, e1, e2, hs, _⟩
        · left; simp only [p1, p2]; exact ⟨trivial, trivial⟩
        · right; simp only [e1, e2]
          exact ⟨_, _, rfl, rfl, rfl, hs⟩
    unfold resolvePath
    rcases hnode with ⟨p1, p2⟩ | ⟨r1, r2, e1, e2, hn⟩
    · left; simp only [p1, p2]; exact ⟨trivial, trivial⟩
    · simp only [e1, e2]
      rcases ih with ⟨q1, q2⟩ | ⟨rs1, rs2, f1, f2, hp⟩
      · left; simp only [q1, q2]; exact ⟨trivial, trivial⟩
      · right; simp only [f1, f2]
        exact ⟨_, _, rfl, rfl, hn, hp⟩

/-- **The analysis after the lattice search reads word infos only through the split list of the mode
and the head-word length.**  Two requests that agree on those for every word give the same word ids
and byte boundaries (and the same failure, if any) on every path, in every mode. -/
theorem tokenize_agree (ls : LexSet) (m : Mode) (S1 S2 : Nat) (H : GwisAgree ls m S1 S2) (text : Bytes)
    (path : List PNode) :
    shapeRes (tokenize ls ⟨m, S1⟩ text path) = shapeRes (tokenize ls ⟨m, S2⟩ text path) := by
  unfold tokenize
  rcases resolvePath_agree ls m S1 S2 H path with ⟨p1, p2⟩ | ⟨rs1, rs2, e1, e2, hp⟩
  · simp only [p1, p2]
  · simp only [e1, e2]
    exact splitPath_agree ls m S1 S2 H text rs1 rs2 hp

/-- a request that contains the split flag of the mode agrees with the full request, in a well-formed
lexicon set -/
theorem gwisAgree_all (src : Src) (po : List Nat) (nsys : Nat) (hok : LexSetOk src po) (m : Mode) (S : Nat)
    (hS : ∀ j, (modeSubset m).testBit j = true → S.testBit j = true) :
    GwisAgree (lexSetOf src po nsys) m S ALL := by
  intro id
  by_cases hin : ∃ hd : widDic id < src.length, widWord id < (src[widDic id]).1.length
  · obtain ⟨hd, hk⟩ := hin
    right
    obtain ⟨i1, e1, f1, h1⟩ := getWordInfoSubset_spec src po nsys hok id hd hk S
    obtain ⟨i2, e2, f2, h2⟩ := getWordInfoSubset_spec src po nsys hok id hd hk ALL
    refine ⟨i1, i2, e1, e2, ?_, ?_⟩
    · cases m with
      | A =>
        have hb : S.testBit SPLIT_A = true := hS 6 (by decide)
        show i1.aUnitSplit = i2.aUnitSplit
        rw [f1.aUnitSplit (testBit_effSubset (by decide) hb),
          f2.aUnitSplit (testBit_effSubset (by decide) (by decide))]
      | B =>
        have hb : S.testBit SPLIT_B = true := hS 7 (by decide)
        show i1.bUnitSplit = i2.bUnitSplit
        rw [f1.bUnitSplit (testBit_effSubset (by decide) hb),
          f2.bUnitSplit (testBit_effSubset (by decide) (by decide))]
      | C => rfl
    · intro hm
      have hl : ∃ c, 1 ≤ c ∧ S.testBit c = true ∧ c ≠ SYNONYM_GROUP_ID := by
        cases m with
        | A => exact ⟨6, by omega, hS 6 (by decide), by decide⟩
        | B => exact ⟨7, by omega, hS 7 (by decide), by decide⟩
        | C => exact absurd rfl hm
      obtain ⟨c, hc1, hcS, hc9⟩ := hl
      rw [h1 ⟨by omega, Or.inr ⟨Or.inl rfl, c, hc1, testBit_effSubset hc9 hcS⟩⟩,
        h2 ⟨by omega, Or.inl (testBit_effSubset (by decide) (by decide))⟩]
  · left
    exact ⟨getWordInfoSubset_oob src po nsys id S hin, getWordInfoSubset_oob src po nsys id ALL hin⟩

/-! ## H. helpers for the non-vacuity examples -/

/-- a representable word with a surface, a head-word length and the three id lists, everything else default -/
theorem wf_basic (s : List Nat) (h : Nat) (a b ws : List Nat) (hs : StrOk s) (hh : h < 32768)
    (ha : ArrOk a) (hb : ArrOk b) (hws : ArrOk ws) :
    WF { surface := s, headWordLength := h, aUnitSplit := a, bUnitSplit := b, wordStructure := ws } :=
  ⟨hs, hh, by show (0 : Nat) < 65536; omega, ⟨by simp, by simp [toUtf16]⟩, by show (-2147483648 : Int) ≤ 0; omega,
    by show (0 : Int) < 2147483648; omega, ⟨by simp, by simp [toUtf16]⟩, ha, hb, hws,
    ⟨by simp, by simp⟩⟩

theorem arrOk_u0_s0 : ArrOk [268435456, 0] := ⟨by decide, by intro v hv; simp at hv; rcases hv with rfl | rfl <;> omega⟩
theorem arrOk_nil : ArrOk [] := ⟨by decide, by simp⟩
theorem strOk_one (c : Nat) (hc : c < 128) : StrOk [c] := by
  refine ⟨?_, ?_⟩
  · intro x hx; simp at hx; subst hx; left; omega
  · have : c < 65536 := by omega
    simp [toUtf16, this]

end Subset
