import Sudachi.Model.Numeric
/-!
# Specs and lemmas for the numeral parser (C15)

Reference notation: a digit is written either with its ASCII or with its kanji glyph (`Dg`);
`canon` of a digit list is the ASCII rendering (leading zeros kept).
-/
namespace Numeric

/-- one written digit: value and the script it is written in -/
structure Dg where
  kanji : Bool
  d : Fin 10
deriving DecidableEq, Repr

def kanjiDigit (d : Fin 10) : Char :=
  match d with
  | 0 => '〇' | 1 => '一' | 2 => '二' | 3 => '三' | 4 => '四'
  | 5 => '五' | 6 => '六' | 7 => '七' | 8 => '八' | 9 => '九'

def Dg.glyph (g : Dg) : Char := if g.kanji then kanjiDigit g.d else SN.digitChar g.d.val
def Dg.ascii (g : Dg) : Char := SN.digitChar g.d.val

/-- what is written -/
def renderDigits (ds : List Dg) : List Char := ds.map Dg.glyph
/-- the decimal rendering: ASCII digits, leading zeros kept -/
def canonDigits (ds : List Dg) : List Char := ds.map Dg.ascii

variable (v : Variant)

theorem charToNum_glyph (g : Dg) : charToNum g.glyph = some (Int.ofNat g.d.val) := by
  cases g with
  | mk k d => revert k d; decide

theorem charToNum_point : charToNum '.' = none := by decide
theorem charToNum_comma : charToNum ',' = none := by decide

theorem glyph_ne_point (g : Dg) : g.glyph ≠ '.' := by
  intro h; have := charToNum_glyph g; rw [h, charToNum_point] at this; cases this
theorem glyph_ne_comma (g : Dg) : g.glyph ≠ ',' := by
  intro h; have := charToNum_glyph g; rw [h, charToNum_comma] at this; cases this

theorem ascii_ne_zero_or (g : Dg) : g.ascii ≠ '.' := by
  cases g with
  | mk k d => revert k d; decide

/-- the parser after one more digit -/
def Parser.pushDigit (p : Parser) (g : Dg) : Parser :=
  { p with tmp := p.tmp.append g.d.val, isFirstDigit := false, digitLength := p.digitLength + 1,
           hasHangingPoint := false }

theorem append_digit (p : Parser) (g : Dg) : p.append v g.glyph = (true, p.pushDigit g) := by
  unfold Parser.append
  have h := charToNum_glyph g
  simp only [glyph_ne_point g, glyph_ne_comma g, if_false, h]
  have h1 : isSmallUnit ((g.d.val : Nat) : Int) = false := by
    simp [isSmallUnit]
  have h2 : isLargeUnit ((g.d.val : Nat) : Int) = false := by
    simp [isLargeUnit]
  have h3 : decide (((g.d.val : Nat) : Int) < 0) = false := by
    simp
  simp only [Int.ofNat_eq_natCast] at h1 h2 h3 ⊢
  simp [h1, h2, h3, Parser.pushDigit]

def Parser.pushDigits (p : Parser) (ds : List Dg) : Parser := ds.foldl Parser.pushDigit p

theorem feed_digits (ds : List Dg) (p : Parser) (n : Nat) :
    p.feed v (renderDigits ds) n = (n + ds.length, true, p.pushDigits ds) := by
  induction ds generalizing p n with
  | nil => simp [renderDigits, Parser.feed, Parser.pushDigits]
  | cons g ds ih =>
    simp only [renderDigits, List.map_cons, Parser.feed, append_digit v]
    have := ih (p.pushDigit g) (n + 1)
    simp only [renderDigits] at this
    rw [this]
    simp [Parser.pushDigits]; omega

/-- feeding a text that continues after the digits -/
theorem feed_digits_append (ds : List Dg) (rest : List Char) (p : Parser) (n : Nat) :
    p.feed v (renderDigits ds ++ rest) n = (p.pushDigits ds).feed v rest (n + ds.length) := by
  induction ds generalizing p n with
  | nil => simp [renderDigits, Parser.pushDigits]
  | cons g ds ih =>
    simp only [renderDigits, List.map_cons, List.cons_append, Parser.feed, append_digit v]
    have := ih (p.pushDigit g) (n + 1)
    simp only [renderDigits] at this
    rw [this]
    simp [Parser.pushDigits]
    congr 1; omega

/-! closed form of `pushDigits` -/

theorem pushDigits_tmp_sig (ds : List Dg) (p : Parser) :
    (p.pushDigits ds).tmp.sig = p.tmp.sig ++ canonDigits ds := by
  induction ds generalizing p with
  | nil => simp [Parser.pushDigits, canonDigits]
  | cons g ds ih =>
    have := ih (p.pushDigit g)
    simp only [Parser.pushDigits, List.foldl_cons] at this ⊢
    rw [this]
    simp [Parser.pushDigit, SN.append, canonDigits, Dg.ascii]

theorem pushDigits_tmp_scale (ds : List Dg) (p : Parser) :
    (p.pushDigits ds).tmp.scale = p.tmp.scale ∧ (p.pushDigits ds).tmp.point = p.tmp.point ∧
    (p.pushDigits ds).tmp.bad = p.tmp.bad ∧
    (p.pushDigits ds).total = p.total ∧ (p.pushDigits ds).subtotal = p.subtotal ∧
    (p.pushDigits ds).hasComma = p.hasComma ∧ (p.pushDigits ds).err = p.err ∧
    (p.pushDigits ds).digitLength = p.digitLength + ds.length := by
  induction ds generalizing p with
  | nil => simp [Parser.pushDigits]
  | cons g ds ih =>
    have := ih (p.pushDigit g)
    simp only [Parser.pushDigits, List.foldl_cons] at this ⊢
    obtain ⟨h1, h2, h3, h4, h5, h6, h7, h8⟩ := this
    refine ⟨?_, ?_, ?_, ?_, ?_, ?_, ?_, ?_⟩
    · rw [h1]; simp [Parser.pushDigit, SN.append]
    · rw [h2]; simp [Parser.pushDigit, SN.append]
    · rw [h3]; simp [Parser.pushDigit, SN.append]
    · rw [h4]; simp [Parser.pushDigit]
    · rw [h5]; simp [Parser.pushDigit]
    · rw [h6]; simp [Parser.pushDigit]
    · rw [h7]; simp [Parser.pushDigit]
    · rw [h8]; simp [Parser.pushDigit]; omega

theorem pushDigits_unit (ds : List Dg) (p : Parser) :
    (p.pushDigits ds).hasUnit = p.hasUnit ∧ (p.pushDigits ds).lastLarge = p.lastLarge := by
  induction ds generalizing p with
  | nil => simp [Parser.pushDigits]
  | cons g ds ih =>
    have := ih (p.pushDigit g)
    simp only [Parser.pushDigits, List.foldl_cons] at this ⊢
    rw [this.1, this.2]
    simp [Parser.pushDigit]

theorem pushDigits_flags (ds : List Dg) (hne : ds ≠ []) (p : Parser) :
    (p.pushDigits ds).isFirstDigit = false ∧ (p.pushDigits ds).hasHangingPoint = false := by
  induction ds generalizing p with
  | nil => exact absurd rfl hne
  | cons g ds ih =>
    cases ds with
    | nil => simp [Parser.pushDigits, Parser.pushDigit]
    | cons g' ds' =>
      have := ih (by simp) (p.pushDigit g)
      simpa [Parser.pushDigits] using this

/-- all digits written so far are zero -/
def allZeroDigits (ds : List Dg) : Bool := ds.all (fun g => g.d.val == 0)

theorem pushDigits_allZero (ds : List Dg) (p : Parser) :
    (p.pushDigits ds).tmp.allZero = (p.tmp.allZero && allZeroDigits ds) := by
  induction ds generalizing p with
  | nil => simp [Parser.pushDigits, allZeroDigits]
  | cons g ds ih =>
    have := ih (p.pushDigit g)
    simp only [Parser.pushDigits, List.foldl_cons] at this ⊢
    rw [this]
    simp only [Parser.pushDigit, SN.append, allZeroDigits, List.all_cons]
    by_cases h : g.d.val = 0 <;> simp [h]

/-! ## separators -/

def Parser.pushComma (p : Parser) : Parser := { p with hasComma := true, digitLength := 0 }

def Parser.pushPoint (p : Parser) : Parser :=
  { p with hasHangingPoint := true, tmp := { p.tmp with point := some p.tmp.sig.length }, hasComma := false }

theorem append_comma (p : Parser) (h : p.checkComma v = true) : p.append v ',' = (true, p.pushComma) := by
  unfold Parser.append
  simp [h, Parser.pushComma]

theorem append_comma_reject (p : Parser) (h : p.checkComma v = false) :
    p.append v ',' = (false, { p with err := .comma }) := by
  unfold Parser.append
  simp [h]

theorem append_point (p : Parser) (h1 : p.isFirstDigit = false)
    (h2 : p.hasComma = false ∨ p.checkComma v = true) (h3 : p.tmp.scale = 0) (h4 : p.tmp.point = none) :
    p.append v '.' = (true, p.pushPoint) := by
  obtain ⟨dl, ifd, hcm, hhp, er, tot, sub, tmp, ll, hu⟩ := p
  simp only at h1 h3 h4
  subst h1
  unfold Parser.append
  rcases h2 with h | h
  · simp only at h
    subst h
    simp [SN.setPoint, h3, h4, Parser.pushPoint]
  · simp only [Parser.checkComma, h4] at h
    cases hcm
    · simp [SN.setPoint, h3, h4, Parser.pushPoint]
    · simp at h
      simp [SN.setPoint, h3, h4, Parser.pushPoint, Parser.checkComma, h]

/-! ## `done` and `to_string` on a parser that holds one number in `tmp` -/

theorem done_single (q : Parser) (h1 : q.total = {}) (h2 : q.subtotal = {}) (hs : q.tmp.sig ≠ [])
    (hh : q.hasHangingPoint = false) (hc : q.hasComma = false ∨ q.digitLength = 3) :
    (q.done v).1 = true ∧ (q.done v).2.total.sig = q.tmp.sig ∧ (q.done v).2.total.scale = q.tmp.scale ∧
    (q.done v).2.total.point = q.tmp.point ∧ (q.done v).2.total.bad = false ∧ (q.done v).2.subtotal.bad = false ∧
    (q.done v).2.tmp = q.tmp ∧ (q.done v).2.err = q.err ∧ (q.done v).2.hasUnit = q.hasUnit := by
  have hz : q.tmp.sig.isEmpty = false := by
    cases h : q.tmp.sig with
    | nil => exact absurd h hs
    | cons a b => rfl
  have hc' : (q.hasComma && q.digitLength != 3) = false := by
    rcases hc with h | h <;> simp [h]
  unfold Parser.done SN.add
  simp [h1, h2, SN.isZero, hz, hh, hc']

theorem toStr_plain (t : SN) (hs : t.sig ≠ []) (h0 : t.scale = 0) (hp : t.point = none) (hb : t.bad = false) :
    t.toStr = some t.sig := by
  have hz : t.sig.isEmpty = false := by
    cases h : t.sig with
    | nil => exact absurd h hs
    | cons a b => rfl
  unfold SN.toStr SN.normalizeScale
  simp [SN.isZero, hz, hp, h0, hb]

/-- `verif_parse` on a text that is accepted completely and leaves one plain integer in `tmp` -/
theorem verifParse_single_plain (text : List Char) (n : Nat) (q : Parser)
    (hf : Parser.new.feed v text 0 = (n, true, q))
    (h1 : q.total = {}) (h2 : q.subtotal = {}) (hs : q.tmp.sig ≠ []) (hh : q.hasHangingPoint = false)
    (hc : q.hasComma = false ∨ q.digitLength = 3) (h0 : q.tmp.scale = 0) (hp : q.tmp.point = none)
    (hb : q.tmp.bad = false) (hu : q.hasUnit = false) :
    parse v text = some q.tmp.sig := by
  obtain ⟨d1, d2, d3, d4, d5, d6, d7, _, d9⟩ := done_single v q h1 h2 hs hh hc
  have hts : (q.done v).2.total.toStr = some q.tmp.sig := by
    have := toStr_plain (q.done v).2.total (by rw [d2]; exact hs) (by rw [d3]; exact h0) (by rw [d4]; exact hp) d5
    rw [this, d2]
  unfold parse verifParse
  rw [hf]
  simp only
  have hbad : (q.done v).2.anyBad = false := by
    simp [Parser.anyBad, d5, d6, d7, hb]
  rw [hu] at d9
  rcases hd : q.done v with ⟨r, q'⟩
  rw [hd] at d1 hts hbad d9
  simp only at d1 hts hbad d9
  simp [hbad, Parser.getNormalized, hts, d1, d9]

theorem new_fields : Parser.new.total = {} ∧ Parser.new.subtotal = {} ∧ Parser.new.tmp = {} ∧
    Parser.new.hasComma = false ∧ Parser.new.digitLength = 0 ∧ Parser.new.hasUnit = false := by
  simp [Parser.new]

/-- **plain digit strings** -/
theorem parse_digits (ds : List Dg) (hne : ds ≠ []) : parse v (renderDigits ds) = some (canonDigits ds) := by
  have hf := feed_digits v ds Parser.new 0
  obtain ⟨s1, s2, s3, s4, s5, s6, _, _⟩ := pushDigits_tmp_scale ds Parser.new
  obtain ⟨f1, f2⟩ := pushDigits_flags ds hne Parser.new
  have hsig := pushDigits_tmp_sig ds Parser.new
  have hcanon : canonDigits ds ≠ [] := by
    cases ds with
    | nil => exact absurd rfl hne
    | cons a b => simp [canonDigits]
  have := verifParse_single_plain v (renderDigits ds) (0 + ds.length) (Parser.new.pushDigits ds) hf
    (by rw [s4]; rfl) (by rw [s5]; rfl) (by rw [hsig]; simpa [Parser.new] using hcanon) f2
    (Or.inl (by rw [s6]; rfl)) (by rw [s1]; rfl) (by rw [s2]; rfl) (by rw [s3]; rfl)
    (by rw [(pushDigits_unit ds Parser.new).1]; rfl)
  rw [this, hsig]
  simp [Parser.new]

/-! ## thousands separators -/

/-- integer part: `gs = []` is a plain digit string, otherwise `g1,g,g,...` -/
structure IntPart where
  g1 : List Dg
  gs : List (List Dg)

/-- well-formed: a non-empty first group; with separators the first group has at most three digits
and is not all zeros, every later group has exactly three digits -/
def IntPart.WF (i : IntPart) : Prop :=
  i.g1 ≠ [] ∧ (i.gs ≠ [] → i.g1.length ≤ 3 ∧ allZeroDigits i.g1 = false) ∧ ∀ g ∈ i.gs, g.length = 3

def renderGroups (gs : List (List Dg)) : List Char := gs.flatMap (fun g => ',' :: renderDigits g)
def renderInt (i : IntPart) : List Char := renderDigits i.g1 ++ renderGroups i.gs
def canonInt (i : IntPart) : List Char := canonDigits (i.g1 ++ i.gs.flatten)

def Parser.pushGroups (p : Parser) (gs : List (List Dg)) : Parser :=
  gs.foldl (fun p g => p.pushComma.pushDigits g) p

theorem feed_groups (gs : List (List Dg)) (h3 : ∀ g ∈ gs, g.length = 3) (p : Parser)
    (hf : p.isFirstDigit = false) (hc : p.checkComma v = true) (hpt : p.tmp.point = none)
    (rest : List Char) (n : Nat) :
    p.feed v (renderGroups gs ++ rest) n = (p.pushGroups gs).feed v rest (n + 4 * gs.length) := by
  induction gs generalizing p n with
  | nil => simp [renderGroups, Parser.pushGroups]
  | cons g gs ih =>
    have hg : g.length = 3 := h3 g (by simp)
    have hgne : g ≠ [] := by intro h; rw [h] at hg; cases hg
    simp only [renderGroups, List.flatMap_cons, List.cons_append, List.append_assoc, Parser.feed,
      append_comma v p hc]
    rw [feed_digits_append]
    obtain ⟨_, s2, _, _, _, s6, _, s8⟩ := pushDigits_tmp_scale g p.pushComma
    obtain ⟨f1, _⟩ := pushDigits_flags g hgne p.pushComma
    have hpt' : (p.pushComma.pushDigits g).tmp.point = none := by
      rw [s2]; simpa [Parser.pushComma] using hpt
    have hc' : (p.pushComma.pushDigits g).checkComma v = true := by
      simp only [Parser.checkComma, f1, s6, s8, hpt']
      simp [Parser.pushComma, hg]
    have := ih (fun g' hg' => h3 g' (by simp [hg'])) (p.pushComma.pushDigits g) f1 hc' hpt' (n + 1 + g.length)
    simp only [renderGroups] at this
    rw [this]
    simp only [Parser.pushGroups, List.foldl_cons, List.length_cons]
    congr 1; omega

/-- what the groups preserve -/
theorem pushGroups_preserved (gs : List (List Dg)) (p : Parser) :
    (p.pushGroups gs).tmp.sig = p.tmp.sig ++ canonDigits gs.flatten ∧
    (p.pushGroups gs).tmp.scale = p.tmp.scale ∧ (p.pushGroups gs).tmp.point = p.tmp.point ∧
    (p.pushGroups gs).tmp.bad = p.tmp.bad ∧ (p.pushGroups gs).total = p.total ∧
    (p.pushGroups gs).subtotal = p.subtotal := by
  induction gs generalizing p with
  | nil => simp [Parser.pushGroups, canonDigits]
  | cons g gs ih =>
    obtain ⟨i1, i2, i3, i4, i5, i6⟩ := ih (p.pushComma.pushDigits g)
    obtain ⟨s1, s2, s3, s4, s5, _, _, _⟩ := pushDigits_tmp_scale g p.pushComma
    have hs := pushDigits_tmp_sig g p.pushComma
    simp only [Parser.pushGroups, List.foldl_cons] at i1 i2 i3 i4 i5 i6 ⊢
    refine ⟨?_, ?_, ?_, ?_, ?_, ?_⟩
    · rw [i1, hs]; simp [Parser.pushComma, canonDigits]
    · rw [i2, s1]; rfl
    · rw [i3, s2]; rfl
    · rw [i4, s3]; rfl
    · rw [i5, s4]; rfl
    · rw [i6, s5]; rfl

theorem pushGroups_unit (gs : List (List Dg)) (p : Parser) :
    (p.pushGroups gs).hasUnit = p.hasUnit ∧ (p.pushGroups gs).lastLarge = p.lastLarge := by
  induction gs generalizing p with
  | nil => simp [Parser.pushGroups]
  | cons g gs ih =>
    have := ih (p.pushComma.pushDigits g)
    simp only [Parser.pushGroups, List.foldl_cons] at this ⊢
    rw [this.1, this.2, (pushDigits_unit g p.pushComma).1, (pushDigits_unit g p.pushComma).2]
    simp [Parser.pushComma]

/-- after at least one separator group the parser is "inside a complete group" -/
def InGroup (p : Parser) : Prop :=
  p.hasComma = true ∧ p.digitLength = 3 ∧ p.isFirstDigit = false ∧ p.hasHangingPoint = false

theorem pushGroups_inGroup (gs : List (List Dg)) (h3 : ∀ g ∈ gs, g.length = 3) (hne : gs ≠ []) (p : Parser) :
    InGroup (p.pushGroups gs) := by
  induction gs generalizing p with
  | nil => exact absurd rfl hne
  | cons g gs ih =>
    have hg : g.length = 3 := h3 g (by simp)
    have hgne : g ≠ [] := by intro h; rw [h] at hg; cases hg
    cases gs with
    | nil =>
      obtain ⟨_, _, _, _, _, s6, _, s8⟩ := pushDigits_tmp_scale g p.pushComma
      obtain ⟨f1, f2⟩ := pushDigits_flags g hgne p.pushComma
      simp only [Parser.pushGroups, List.foldl_cons, List.foldl_nil]
      exact ⟨by rw [s6]; rfl, by rw [s8, hg]; rfl, f1, f2⟩
    | cons g' gs' =>
      have := ih (fun x hx => h3 x (by simp [hx])) (by simp) (p.pushComma.pushDigits g)
      simpa [Parser.pushGroups] using this

/-- the parser state after a well-formed integer part -/
def intState (i : IntPart) : Parser := (Parser.new.pushDigits i.g1).pushGroups i.gs

theorem feed_int (i : IntPart) (hwf : i.WF) (rest : List Char) :
    Parser.new.feed v (renderInt i ++ rest) 0 =
      (intState i).feed v rest (0 + i.g1.length + 4 * i.gs.length) := by
  obtain ⟨h1, h2, h3⟩ := hwf
  simp only [renderInt, List.append_assoc]
  rw [feed_digits_append]
  cases hgs : i.gs with
  | nil => simp [renderGroups, intState, hgs, Parser.pushGroups]
  | cons g gs =>
    obtain ⟨hl, hz⟩ := h2 (by rw [hgs]; simp)
    obtain ⟨f1, _⟩ := pushDigits_flags i.g1 h1 Parser.new
    obtain ⟨_, s2, _, _, _, s6, _, s8⟩ := pushDigits_tmp_scale i.g1 Parser.new
    have hsig := pushDigits_tmp_sig i.g1 Parser.new
    have haz := pushDigits_allZero i.g1 Parser.new
    have hpt : (Parser.new.pushDigits i.g1).tmp.point = none := by rw [s2]; rfl
    have hcne : canonDigits i.g1 ≠ [] := by
      cases hh : i.g1 with
      | nil => exact absurd hh h1
      | cons a b => simp [canonDigits]
    have hc : (Parser.new.pushDigits i.g1).checkComma v = true := by
      have e1 : (Parser.new.pushDigits i.g1).tmp.isZero = false := by
        rw [SN.isZero, hsig]
        cases hh : canonDigits i.g1 with
        | nil => exact absurd hh hcne
        | cons a b => simp [Parser.new]
      simp only [Parser.checkComma, f1, s6, s8, e1, haz, hz, hpt]
      simp [Parser.new]
      omega
    have := feed_groups v (g :: gs) (by rw [← hgs]; exact h3) (Parser.new.pushDigits i.g1) f1 hc hpt rest
      (0 + i.g1.length)
    rw [this]
    simp [intState, hgs]

theorem intState_props (i : IntPart) (hwf : i.WF) :
    (intState i).total = {} ∧ (intState i).subtotal = {} ∧ (intState i).tmp.sig = canonInt i ∧
    (intState i).tmp.scale = 0 ∧ (intState i).tmp.point = none ∧ (intState i).tmp.bad = false ∧
    (intState i).isFirstDigit = false ∧ (intState i).hasHangingPoint = false ∧
    ((intState i).hasComma = false ∨ ((intState i).hasComma = true ∧ (intState i).digitLength = 3)) ∧
    canonInt i ≠ [] ∧ (intState i).hasUnit = false := by
  obtain ⟨h1, h2, h3⟩ := hwf
  obtain ⟨g1, g2, g3, g4, g5, g6⟩ := pushGroups_preserved i.gs (Parser.new.pushDigits i.g1)
  obtain ⟨s1, s2, s3, s4, s5, s6, _, s8⟩ := pushDigits_tmp_scale i.g1 Parser.new
  obtain ⟨f1, f2⟩ := pushDigits_flags i.g1 h1 Parser.new
  have hsig := pushDigits_tmp_sig i.g1 Parser.new
  have hcne : canonInt i ≠ [] := by
    cases hh : i.g1 with
    | nil => exact absurd hh h1
    | cons a b => simp [canonInt, canonDigits, hh]
  refine ⟨by rw [intState, g5, s4]; rfl, by rw [intState, g6, s5]; rfl, ?_, by rw [intState, g2, s1]; rfl,
    by rw [intState, g3, s2]; rfl, by rw [intState, g4, s3]; rfl, ?_, ?_, ?_, hcne,
    by rw [intState, (pushGroups_unit i.gs _).1, (pushDigits_unit i.g1 _).1]; rfl⟩
  · rw [intState, g1, hsig]; simp [Parser.new, canonInt, canonDigits]
  · cases hgs : i.gs with
    | nil => simpa [intState, hgs, Parser.pushGroups] using f1
    | cons g gs =>
      have := pushGroups_inGroup i.gs h3 (by rw [hgs]; simp) (Parser.new.pushDigits i.g1)
      exact this.2.2.1
  · cases hgs : i.gs with
    | nil => simpa [intState, hgs, Parser.pushGroups] using f2
    | cons g gs =>
      have := pushGroups_inGroup i.gs h3 (by rw [hgs]; simp) (Parser.new.pushDigits i.g1)
      exact this.2.2.2
  · cases hgs : i.gs with
    | nil =>
      left
      simp only [intState, hgs, Parser.pushGroups, List.foldl_nil]
      rw [s6]; rfl
    | cons g gs =>
      right
      have := pushGroups_inGroup i.gs h3 (by rw [hgs]; simp) (Parser.new.pushDigits i.g1)
      exact ⟨this.1, this.2.1⟩

/-- **integers with or without thousands separators** -/
theorem parse_int (i : IntPart) (hwf : i.WF) : parse v (renderInt i) = some (canonInt i) := by
  have hf := feed_int v i hwf []
  simp only [List.append_nil, Parser.feed] at hf
  obtain ⟨p1, p2, p3, p4, p5, p6, _, p8, p9, p10, p11⟩ := intState_props i hwf
  have := verifParse_single_plain v (renderInt i) _ (intState i) hf p1 p2 (by rw [p3]; exact p10) p8
    (by rcases p9 with h | h; exact Or.inl h; exact Or.inr h.2) p4 p5 p6 p11
  rw [this, p3]

/-! ## fractions -/

/-- drop trailing `'0'` -/
def trimZeros (l : List Char) : List Char := (l.reverse.dropWhile (· == '0')).reverse
/-- the fraction as rendered: nothing when all fraction digits are zero -/
def fracPart (t : List Char) : List Char := if t.isEmpty then [] else '.' :: t

theorem take_sub_nLastZero (l : List Char) : l.take (l.length - SN.nLastZero l) = trimZeros l := by
  have h := List.takeWhile_append_dropWhile (p := (· == '0')) (l := l.reverse)
  have hl : l = (l.reverse.dropWhile (· == '0')).reverse ++ (l.reverse.takeWhile (· == '0')).reverse := by
    have := congrArg List.reverse h
    rw [List.reverse_append, List.reverse_reverse] at this
    exact this.symm
  have hlen : l.length = (l.reverse.dropWhile (· == '0')).length + (l.reverse.takeWhile (· == '0')).length := by
    have := congrArg List.length h
    rw [List.length_append, List.length_reverse] at this
    omega
  unfold SN.nLastZero trimZeros
  rw [hlen, Nat.add_sub_cancel]
  conv => lhs; arg 2; rw [hl]
  rw [List.take_left']
  simp

theorem dropWhile_append_stop (a b : List Char) (c : Char) (hc : (c == '0') = false) :
    (a ++ c :: b).dropWhile (· == '0') = a.dropWhile (· == '0') ++ c :: b := by
  induction a with
  | nil => simp [List.dropWhile, hc]
  | cons x a ih =>
    by_cases hx : (x == '0') = true
    · simp [List.dropWhile, hx, ih]
    · simp [List.dropWhile, hx]

theorem trimZeros_point (a b : List Char) : trimZeros (a ++ '.' :: b) = a ++ '.' :: trimZeros b := by
  unfold trimZeros
  simp only [List.reverse_append, List.reverse_cons, List.append_assoc, List.singleton_append]
  rw [dropWhile_append_stop _ _ '.' (by decide)]
  simp

theorem mem_trimZeros {c : Char} {b : List Char} (h : c ∈ trimZeros b) : c ∈ b := by
  unfold trimZeros at h
  rw [List.mem_reverse] at h
  have := (List.dropWhile_sublist (· == '0') (l := b.reverse)).subset h
  simpa using this

theorem ascii_ne_point (g : Dg) : g.ascii ≠ '.' := ascii_ne_zero_or g

/-- `to_string` of `a.b` held as significand `a ++ b` with the point after `a` -/
theorem toStr_point (t : SN) (a b : List Char) (hsig : t.sig = a ++ b) (ha : a ≠ []) (hb : b ≠ [])
    (hbd : ∀ c ∈ b, c ≠ '.') (hp : t.point = some a.length) (h0 : t.scale = 0) (hbad : t.bad = false) :
    t.toStr = some (a ++ fracPart (trimZeros b)) := by
  have hz : t.sig.isEmpty = false := by
    rw [hsig]; cases a with
    | nil => exact absurd rfl ha
    | cons x y => rfl
  have hlen : t.sig.length = a.length + b.length := by rw [hsig]; simp
  have hbl : 0 < b.length := by
    cases b with
    | nil => exact absurd rfl hb
    | cons x y => simp
  have hal : 0 < a.length := by
    cases a with
    | nil => exact absurd rfl ha
    | cons x y => simp
  unfold SN.toStr SN.normalizeScale
  simp only [SN.isZero, hz, hp, hlen, h0]
  have e1 : ¬ (a.length > a.length + b.length) := by omega
  have e2 : a.length + b.length - a.length > 0 := by omega
  simp only [e1, e2, if_false, if_true, hbad, Nat.add_zero, Nat.lt_irrefl, gt_iff_lt]
  have e3 : (a.length == 0) = false := by
    cases h : a.length with
    | zero => omega
    | succ k => rfl
  have hins : SN.insertAt t.sig a.length '.' = a ++ '.' :: b := by
    simp [SN.insertAt, hsig]
  have e4 : ¬ (t.sig.length < a.length) := by omega
  simp only [hins, e3, take_sub_nLastZero, Bool.false_eq_true, if_false, e4]
  rw [trimZeros_point]
  cases htb : trimZeros b with
  | nil => simp [fracPart]
  | cons x y =>
    have hlast : (a ++ '.' :: x :: y).getLast? = (x :: y).getLast? := by
      simp only [List.getLast?_append, List.getLast?_cons_cons]
      cases h : (x :: y).getLast? with
      | none => simp at h
      | some c => simp
    rw [hlast]
    cases hgl : (x :: y).getLast? with
    | none => simp at hgl
    | some c =>
      have hc : c ∈ b := by
        apply mem_trimZeros
        rw [htb]
        exact List.mem_of_getLast? hgl
      have : (c == '.') = false := by
        have := hbd c hc
        simpa using this
      simp [this, fracPart]

/-- `verif_parse` on a text that is accepted completely and leaves one decimal `a.b` in `tmp` -/
theorem verifParse_single_point (text : List Char) (n : Nat) (q : Parser) (a b : List Char)
    (hf : Parser.new.feed v text 0 = (n, true, q))
    (h1 : q.total = {}) (h2 : q.subtotal = {}) (hsig : q.tmp.sig = a ++ b) (ha : a ≠ []) (hb : b ≠ [])
    (hbd : ∀ c ∈ b, c ≠ '.') (hh : q.hasHangingPoint = false)
    (hc : q.hasComma = false) (h0 : q.tmp.scale = 0) (hp : q.tmp.point = some a.length)
    (hbad : q.tmp.bad = false) (hu : q.hasUnit = false) :
    parse v text = some (a ++ fracPart (trimZeros b)) := by
  have hs : q.tmp.sig ≠ [] := by
    rw [hsig]; cases a with
    | nil => exact absurd rfl ha
    | cons x y => simp
  obtain ⟨d1, d2, d3, d4, d5, d6, d7, _, d9⟩ := done_single v q h1 h2 hs hh (Or.inl hc)
  have hts : (q.done v).2.total.toStr = some (a ++ fracPart (trimZeros b)) :=
    toStr_point (q.done v).2.total a b (by rw [d2]; exact hsig) ha hb hbd (by rw [d4]; exact hp)
      (by rw [d3]; exact h0) d5
  unfold parse verifParse
  rw [hf]
  simp only
  have hbad' : (q.done v).2.anyBad = false := by
    simp [Parser.anyBad, d5, d6, d7, hbad]
  rw [hu] at d9
  rcases hd : q.done v with ⟨r, q'⟩
  rw [hd] at d1 hts hbad' d9
  simp only at d1 hts hbad' d9
  simp [hbad', Parser.getNormalized, hts, d1, d9]

/-- **decimals**: integer part (with or without separators), point, fraction digits -/
theorem parse_decimal (i : IntPart) (hwf : i.WF) (fs : List Dg) (hfs : fs ≠ []) :
    parse v (renderInt i ++ '.' :: renderDigits fs) =
      some (canonInt i ++ fracPart (trimZeros (canonDigits fs))) := by
  obtain ⟨p1, p2, p3, p4, p5, p6, p7, p8, p9, p10, p11⟩ := intState_props i hwf
  have hf := feed_int v i hwf ('.' :: renderDigits fs)
  have hpt : (intState i).append v '.' = (true, (intState i).pushPoint) := by
    apply append_point v _ p7 _ p4 p5
    rcases p9 with h | h
    · exact Or.inl h
    · right
      simp [Parser.checkComma, p7, h.1, h.2, p5]
  have hfd := feed_digits v fs (intState i).pushPoint (0 + i.g1.length + 4 * i.gs.length + 1)
  simp only [Parser.feed, hpt] at hf
  rw [hfd] at hf
  obtain ⟨s1, s2, s3, s4, s5, s6, _, _⟩ := pushDigits_tmp_scale fs (intState i).pushPoint
  obtain ⟨_, f2⟩ := pushDigits_flags fs hfs (intState i).pushPoint
  have hsig := pushDigits_tmp_sig fs (intState i).pushPoint
  have hcf : canonDigits fs ≠ [] := by
    cases fs with
    | nil => exact absurd rfl hfs
    | cons x y => simp [canonDigits]
  apply verifParse_single_point v _ _ _ (canonInt i) (canonDigits fs) hf
  · rw [s4]; simpa [Parser.pushPoint] using p1
  · rw [s5]; simpa [Parser.pushPoint] using p2
  · rw [hsig]; simp [Parser.pushPoint, p3]
  · exact p10
  · exact hcf
  · intro c hc
    simp only [canonDigits, List.mem_map] at hc
    obtain ⟨g, _, rfl⟩ := hc
    exact ascii_ne_point g
  · exact f2
  · rw [s6]; simp [Parser.pushPoint]
  · rw [s1]; simpa [Parser.pushPoint] using p4
  · rw [s2]; simp [Parser.pushPoint, p3]
  · rw [s3]; simpa [Parser.pushPoint] using p6
  · rw [(pushDigits_unit fs _).1]; simpa [Parser.pushPoint] using p11

/-! ## rejection lemmas -/

theorem done_hanging (q : Parser) (h : q.hasHangingPoint = true) : (q.done v).1 = false := by
  unfold Parser.done
  simp only
  split <;> split <;> simp_all

theorem done_bad_group (q : Parser) (hh : q.hasHangingPoint = false) (h : q.hasComma = true)
    (h' : q.digitLength ≠ 3) : (q.done v).1 = false := by
  unfold Parser.done
  simp only
  split <;> split <;> simp_all

theorem parse_none_of_done_false (text : List Char) (n : Nat) (q : Parser)
    (hf : Parser.new.feed v text 0 = (n, true, q)) (hd : (q.done v).1 = false) : parse v text = none := by
  unfold parse verifParse
  rw [hf]
  simp only
  rcases hq : q.done v with ⟨r, q'⟩
  rw [hq] at hd
  simp only at hd
  subst hd
  simp only
  split
  · rename_i heq
    exfalso
    split at heq
    · cases heq
    · split at heq
      · cases heq
      · cases heq
  · rfl

theorem parse_none_of_reject (text : List Char) (n : Nat) (q : Parser)
    (hf : Parser.new.feed v text 0 = (n, false, q)) : parse v text = none := by
  unfold parse verifParse
  rw [hf]
  simp only
  split
  · rename_i heq
    exfalso
    split at heq
    · cases heq
    · cases heq
  · rfl

end Numeric
