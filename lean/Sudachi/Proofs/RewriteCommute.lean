import Sudachi.Proofs.RewriteNumeral
/-!
# C14: commutation of the two plugins — the part that is proved

Full statement wanted: `rewriteAll v cat P [N, K] path = rewriteAll v cat P [K, N] path` whenever no node of `path` is
both katakana by class and a numeral candidate.  Proved here: the instance in which the numeral joiner has nothing
to join (no token carries the numeral part of speech, and the katakana joiner's OOV part of speech is not the numeral
one): both orders give the katakana joiner's result.
-/
namespace Rewrite

theorem rewriteAll_two_ok {v : NVariant} {cat : List Nat} {P : List Char → POut} {a b : Plugin}
    {path r : List Node} (h : rewriteAll v cat P [a, b] path = .ok r) :
    ∃ p, applyPlugin v cat P a path = .ok p ∧ applyPlugin v cat P b p = .ok r := by
  unfold rewriteAll at h
  split at h
  · rename_i p hp
    refine ⟨p, hp, ?_⟩
    unfold rewriteAll at h
    split at h
    · rename_i q hq
      unfold rewriteAll at h
      cases h
      exact hq
    all_goals cases h
  all_goals cases h

/-- no token with the numeral part of speech, `oovPOS` is not the numeral one: when both orders succeed they agree
(the numeral joiner is the identity before AND after the katakana joiner) -/
theorem commute_of_no_numeral (v : NVariant) (cat : List Nat) (P : List Char → POut) (n : NCfg) (k : KCfg)
    (path r r' : List Node) (hno : ∀ x ∈ path, x.pos ≠ n.numPos) (hpos : k.oovPos ≠ n.numPos)
    (h1 : rewriteAll v cat P [.numeric n, .katakana k] path = .ok r)
    (h2 : rewriteAll v cat P [.katakana k, .numeric n] path = .ok r') :
    r = r' ∧ joinKatakana k cat path = .ok r := by
  obtain ⟨p1, hn1, hk1⟩ := rewriteAll_two_ok h1
  obtain ⟨p2, hk2, hn2⟩ := rewriteAll_two_ok h2
  simp only [applyPlugin] at hn1 hk1 hk2 hn2
  have e1 : p1 = path := (nloop_coarsens v n cat P _ _ p1 hn1).eq_of_no_witness (RN_head_witness n) hno
  subst e1
  rw [hk1] at hk2
  cases hk2
  have hc := kloop_coarsens k cat _ _ _ _ hk1
  have hno' : ∀ x ∈ r, x.pos ≠ n.numPos := by
    intro x hx
    rcases hc.classify x hx with h | ⟨pre, blk, post, _, _, hr⟩
    · exact hno x h
    · rw [hr.1]; exact hpos
  have e2 : r' = r := (nloop_coarsens v n cat P _ _ r' hn2).eq_of_no_witness (RN_head_witness n) hno'
  exact ⟨e2.symm, hk1⟩

end Rewrite
