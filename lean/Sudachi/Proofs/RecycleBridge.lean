import Sudachi.Proofs.RecycleTotal
import Sudachi.Proofs.OovLattice
import Sudachi.Proofs.Partition
/-!
# The Ok direction of `RecycleTotal.Bridge`, proved for every configuration (`bridge_ok_general`)

Stages: `prepare_sim` (input: `start_build; rewrite_input; build` = `EditM.startBuild` + `Total.rewriteInput`), `reset_sim`,
`insert_sim` / `fold_sim` (one `Lattice::insert`, the candidates of one position), `loop_sim` (the interleaved position loop of
the discipline model = `Oov.buildFrom` followed by the batch of `Total.insert`s; `has_previous_node` = `Oov.reachable`),
`eos_sim` (`connect_eos`), `resolve_sim` (`fill_top_path`, `resolve_best_path`, rewrite stage, `split_path`), assembled in
`bridge_ok_general`: whenever `Total.tokenize` returns a result, the discipline model with the concrete payload on a NEW
tokenizer is Ok and reports exactly that result.  Hypotheses (`ConfigOk`): every committed batch leaves ≤ 65 535 bytes (hence ≤ 65 535 characters: `few_of_short`), the
buffer builder returns a well-formed buffer over the characters it was given.  The failing outcomes (which
error class, panics) are NOT covered: the discipline model has no panic outcome inside `Lattice::insert` / the candidate payload.
-/
namespace RecycleTotal
open Recycle

theorem nats_map (l : List Nat) : nats (l.map .nat) = l := by
  induction l with
  | nil => rfl
  | cons a t ih => simpa [nats, Elem.nat?] using ih

theorem pairs_map (l : List (EditM.P Nat)) : pairs (l.map .pair) = l := by
  induction l with
  | nil => rfl
  | cons a t ih => simpa [pairs, Elem.pair?] using ih

theorem edits_map (l : List (EditM.Edit Nat)) : edits (l.map .edit) = l := by
  induction l with
  | nil => rfl
  | cons a t ih => simpa [edits, Elem.edit?] using ih

/-- the buffer of the discipline model holds the paired list `l` of `Model/Edit.lean` and is being edited -/
structure InpRel (l : List (EditM.P Nat)) (i : Input Elem) : Prop where
  modified : i.modified = (EditM.textOf l).map .nat
  m2o : i.m2o = l.map .pair
  replaces : i.replaces = []
  state : i.state = .rw
  c2b : i.modC2b = []

/-- every batch the plugin stack commits leaves a text of at most 65 535 bytes -/
def ShortRun (lv : EditM.LenV) : List (List Nat → Oov.Outcome (List (EditM.Edit Nat))) → List (EditM.P Nat) → Prop
  | [], _ => True
  | p :: ps, l => ∀ es l1, p (EditM.textOf l) = .ok es → EditM.commitV lv l es = some l1 →
      (EditM.textOf l1).length ≤ EditM.REALLY_MAX_LENGTH ∧ ShortRun lv ps l1

theorem commitV_nil (lv : EditM.LenV) (l : List (EditM.P Nat)) : EditM.commitV lv l [] = some l := rfl

theorem rewrite_sim (v : Total.SplitV) (lv : EditM.LenV) (D : Dict)
    (p : List Nat → Oov.Outcome (List (EditM.Edit Nat))) (l l1 : List (EditM.P Nat)) (es : List (EditM.Edit Nat))
    (i : Input Elem) (hi : InpRel l i) (hp : p (EditM.textOf l) = .ok es) (hc : EditM.commitV lv l es = some l1)
    (hlen : (EditM.textOf l1).length ≤ EditM.REALLY_MAX_LENGTH) :
    ∃ i', Input.rewrite (payload v lv D) (mkPlugin p) i = (i', .ok) ∧ InpRel l1 i' := by
  have hed : (mkPlugin p).edits i.editView = some (es.map .edit) := by
    show (match p (nats i.modified) with | .ok es => some (es.map Elem.edit) | _ => none) = _
    rw [hi.modified, nats_map, hp]
  unfold Input.rewrite
  rw [if_neg (by simp [mkPlugin])]
  unfold Input.withEditor
  rw [if_neg (by rw [hi.state]; simp)]
  rw [hed]
  simp only
  unfold Input.commit
  by_cases hes : es = []
  · subst hes
    rw [commitV_nil] at hc
    cases hc
    have hem : (i.replaces ++ List.map Elem.edit ([] : List (EditM.Edit Nat))).isEmpty = true := by
      rw [hi.replaces]; rfl
    refine ⟨{ i with replaces := i.replaces ++ List.map Elem.edit [] }, ?_, ?_⟩
    · simp only [hem, ↓reduceIte]
    · exact ⟨hi.modified, hi.m2o, by simp [hi.replaces], hi.state, hi.c2b⟩
  · have hne : (i.replaces ++ es.map Elem.edit).isEmpty = false := by
      rw [hi.replaces]; cases es with
      | nil => exact absurd rfl hes
      | cons a t => rfl
    simp only [hne]
    have hres : (payload v lv D).resolve i.modified i.m2o (i.replaces ++ es.map Elem.edit) =
        ((EditM.textOf l1).map .nat, l1.map .pair, (EditM.textOf l1).length) := by
      show (match EditM.commitV lv (pairs i.m2o) (edits (i.replaces ++ es.map Elem.edit)) with
        | some l => ((EditM.textOf l).map Elem.nat, l.map Elem.pair, (EditM.textOf l).length)
        | none => ([], [], EditM.REALLY_MAX_LENGTH + 1)) = _
      rw [hi.m2o, pairs_map, hi.replaces, List.nil_append, edits_map, hc]
    simp only [Bool.false_eq_true, ↓reduceIte, hres]
    rw [if_neg (by show ¬ (EditM.textOf l1).length > EditM.REALLY_MAX_LENGTH; omega)]
    exact ⟨_, rfl, ⟨by simp, by simp, rfl, hi.state, hi.c2b⟩⟩

theorem rewriteAll_sim (v : Total.SplitV) (lv : EditM.LenV) (D : Dict) :
    ∀ (ps : List (List Nat → Oov.Outcome (List (EditM.Edit Nat)))) (l l' : List (EditM.P Nat)) (i : Input Elem),
      InpRel l i → ShortRun lv ps l → Total.rewriteInput lv ps l = .ok l' →
      ∃ i', Input.rewriteAll (payload v lv D) (ps.map mkPlugin) i = (i', .ok) ∧ InpRel l' i'
  | [], l, l', i, hi, _, h => by
    simp only [Total.rewriteInput] at h
    cases h
    exact ⟨i, rfl, hi⟩
  | p :: ps, l, l', i, hi, hs, h => by
    simp only [Total.rewriteInput] at h
    cases hp : p (EditM.textOf l) with
    | err k => rw [hp] at h; cases h
    | panic w => rw [hp] at h; cases h
    | ok es =>
      rw [hp] at h
      simp only at h
      cases hc : EditM.commitV lv l es with
      | none => rw [hc] at h; cases h
      | some l1 =>
        rw [hc] at h
        simp only at h
        obtain ⟨hlen, hs1⟩ := hs es l1 hp hc
        obtain ⟨i1, h1, hi1⟩ := rewrite_sim v lv D p l l1 es i hi hp hc hlen
        obtain ⟨i', h2, hi'⟩ := rewriteAll_sim v lv D ps l1 l' i1 hi1 hs1 h
        refine ⟨i', ?_, hi'⟩
        simp only [List.map_cons, Input.rewriteAll, h1]
        exact h2

theorem textOf_identFrom' (o : List Nat) (k : Nat) : EditM.textOf (EditM.identFrom k o) = o := by
  induction o generalizing k with
  | nil => rfl
  | cons b bs ih => simp [EditM.identFrom, EditM.textOf] at ih ⊢; exact ih (k + 1)

/-- **input stage of the bridge**: `reset(); push_str(text); start_build; rewrite_input; build` of the discipline model with
the concrete payload on a NEW tokenizer = `EditM.startBuild` + `Total.rewriteInput`: it succeeds and the buffer holds their
text and offset map; the two tables that bound the position loop have the length of the decoded text (+ sentinel). -/
theorem prepare_sim (v : Total.SplitV) (lv : EditM.LenV) (D : Dict) (m : Mode) (s : Subset) (text : List Nat)
    (l0 l : List (EditM.P Nat)) (h0 : EditM.startBuild text = some l0) (hs : ShortRun lv D.inputPlugins l0)
    (h1 : Total.rewriteInput lv D.inputPlugins l0 = .ok l) :
    ∃ i, Input.prepare (payload v lv D) ((newTok m s).resetWith .fix (text.map .nat)).input = (i, .ok) ∧
      i.modified = (EditM.textOf l).map .nat ∧ i.m2o = l.map .pair ∧ i.replaces = [] ∧
      i.modChars.length = (charsOf i.modified).length ∧ i.modC2b.length = (charsOf i.modified).length + 1 := by
  have hl0 : l0 = EditM.identFrom 0 text ∧ ¬ text.length > EditM.MAX_LENGTH := by
    unfold EditM.startBuild at h0
    split at h0
    · cases h0
    · rename_i hn; cases h0; exact ⟨rfl, hn⟩
  obtain ⟨rfl, hshort⟩ := hl0
  -- start_build
  let i0 := ((newTok m s).resetWith .fix (text.map .nat)).input
  have hsb : ∃ j, Input.startBuild (payload v lv D) i0 = (j, .ok) ∧ InpRel (EditM.identFrom 0 text) j := by
    refine ⟨{ i0 with state := .rw, modified := i0.modified ++ i0.original,
                      m2o := i0.m2o ++ (payload v lv D).identMap (i0.modified ++ i0.original) }, ?_, ?_⟩
    · unfold Input.startBuild
      rw [if_neg (by show ¬ (([] : List Elem) ++ text.map Elem.nat).length > EditM.MAX_LENGTH; simpa using hshort)]
      rw [if_neg (by show ¬ (BufState.clean ≠ BufState.clean); simp)]
    · refine ⟨?_, ?_, rfl, rfl, rfl⟩
      · show ([] : List Elem) ++ (([] : List Elem) ++ text.map Elem.nat) = _
        rw [textOf_identFrom']; simp
      · show ([] : List Elem) ++ (EditM.identFrom 0 (nats (([] : List Elem) ++ (([] : List Elem) ++ text.map Elem.nat)))).map Elem.pair = _
        simp [nats_map]
  obtain ⟨j, hj, hrel⟩ := hsb
  obtain ⟨k, hk, hrelk⟩ := rewriteAll_sim v lv D D.inputPlugins _ l j hrel hs h1
  have hprep : Input.prepare (payload v lv D) i0 = Input.build (payload v lv D) k := by
    unfold Input.prepare
    rw [hj]
    simp only
    have hpl : (payload v lv D).plugins = D.inputPlugins.map mkPlugin := rfl
    rw [hpl, hk]
  have hb : ∃ i, Input.build (payload v lv D) k = (i, .ok) ∧ i.m2o = k.m2o ∧ i.replaces = k.replaces := by
    unfold Input.build
    rw [if_neg (by rw [hrelk.state]; simp)]
    exact ⟨_, rfl, rfl, rfl⟩
  obtain ⟨i, hi, hm2o, hrep⟩ := hb
  obtain ⟨a, b, c⟩ := Input.build_ok_shape (payload v lv D) k i hi
  refine ⟨i, by rw [← hi]; exact hprep, by rw [b, hrelk.modified], by rw [hm2o, hrelk.m2o], by rw [hrep, hrelk.replaces], ?_, ?_⟩
  · rw [a, b]; simp [payload]
  · rw [c, b, hrelk.c2b]; simp [payload]

/-! ## lattice stage, first half: one `Lattice::insert`, and the candidates of one position -/

theorem ents_map (l : List Total.Entry) : ents (l.map .ent) = l := by
  induction l with
  | nil => rfl
  | cons a t ih => simpa [ents, Elem.ent?] using ih

theorem rowAt_map {α β : Type} (g : α → β) : ∀ (R : List (List α)) (k : Nat),
    rowAt (R.map (fun r => r.map g)) k = (rowAt R k).map g
  | [], _ => rfl
  | _ :: _, 0 => rfl
  | _ :: rs, k + 1 => rowAt_map g rs k

theorem rowAt_of_get {α : Type} : ∀ (R : List (List α)) (k : Nat) (row : List α), R[k]? = some row → rowAt R k = row
  | [], _, _, h => by simp at h
  | r :: _, 0, row, h => by simpa [rowAt] using h
  | _ :: rs, k + 1, row, h => by simpa [rowAt] using rowAt_of_get rs k row (by simpa using h)

theorem pushRow_map {α β : Type} (g : α → β) : ∀ (R : List (List α)) (k : Nat) (y : α),
    pushRow (R.map (fun r => r.map g)) k (g y) = (pushRow R k y).map (fun r => r.map g)
  | [], _, _ => rfl
  | r :: rs, 0, y => by simp [pushRow]
  | r :: rs, k + 1, y => by simp [pushRow, pushRow_map g rs k y]

theorem pushRow_eq_set {α : Type} : ∀ (R : List (List α)) (k : Nat) (row : List α) (y : α), R[k]? = some row →
    pushRow R k y = R.set k (row ++ [y])
  | [], _, _, _, h => by simp at h
  | r :: rs, 0, row, y, h => by
    have : r = row := by simpa using h
    subst this; rfl
  | r :: rs, k + 1, row, y, h => by
    simp only [pushRow, List.set_cons_succ]
    rw [pushRow_eq_set rs k row y (by simpa using h)]

/-- `indices` / `ends_full` do not hold the BOS entry of `ends[0]` -/
def dropBos {α : Type} : List (List α) → List (List α)
  | [] => []
  | r :: rs => r.drop 1 :: rs

theorem dropBos_pushRow {α : Type} (b : α) (r : List α) (rs : List (List α)) (k : Nat) (y : α) :
    pushRow (dropBos ((b :: r) :: rs)) k y = dropBos (pushRow ((b :: r) :: rs) k y) := by
  cases k with
  | zero => simp [dropBos, pushRow]
  | succ k => simp [dropBos, pushRow]

theorem pushRow_head {α : Type} (b : α) (r : List α) (rs : List (List α)) (k : Nat) (y : α) :
    ∃ r' rs', pushRow ((b :: r) :: rs) k y = (b :: r') :: rs' := by
  cases k with
  | zero => exact ⟨r ++ [y], rs, rfl⟩
  | succ k => exact ⟨r, pushRow rs k y, rfl⟩

/-- the lattice of the discipline model holds the rows of `Total`'s lattice -/
structure LatRel (rows : Total.Rows) (lat : Lattice Elem) : Prop where
  ends : lat.ends = rows.toList.map (fun r => r.map Elem.ent)
  indices : lat.indices = (dropBos rows.toList).map (fun r => r.map Elem.ent)
  full : lat.endsFull = (dropBos rows.toList).map (fun r => r.map (fun e => Elem.vn e.node))
  head : ∃ r rs, rows.toList = (Total.bosEntry :: r) :: rs

/-- **one `Lattice::insert`**: `Total.insert` (row `node.b` read, `connect_node` with `i32` additions, row `node.e` pushed)
is `Recycle.Lattice.insert` with the concrete payload (three parallel pushes), when the loop position is the node's begin -/
theorem insert_sim (v : Total.SplitV) (lv : EditM.LenV) (D : Dict) (rows rows' : Total.Rows) (e : Total.Entry)
    (n : Vit.Node) (lat : Lattice Elem) (hrel : LatRel rows lat)
    (h : Total.insert Total.addI32 Total.I32_MAX D.conn rows n = .ok (rows', e)) :
    LatRel rows' (Lattice.insert (payload v lv D) lat n.b (n.e, .vn n)) := by
  unfold Total.insert at h
  cases hb : rows[n.b]? with
  | none => rw [hb] at h; cases h
  | some row =>
    rw [hb] at h
    simp only at h
    cases hc : Total.connectNode Total.addI32 Total.I32_MAX D.conn row n with
    | none => rw [hc] at h; cases h
    | some r =>
      obtain ⟨c, pe, pi⟩ := r
      rw [hc] at h
      simp only at h
      cases he : rows[n.e]? with
      | none => rw [he] at h; cases h
      | some rowE =>
        rw [he] at h
        simp only [Oov.Outcome.ok.injEq, Prod.mk.injEq] at h
        obtain ⟨h1, h2⟩ := h
        subst h2
        have hbL : rows.toList[n.b]? = some row := by rw [Array.getElem?_toList]; exact hb
        have heL : rows.toList[n.e]? = some rowE := by rw [Array.getElem?_toList]; exact he
        have hrow : rowAt lat.ends n.b = row.map Elem.ent := by
          rw [hrel.ends, rowAt_map, rowAt_of_get _ _ _ hbL]
        have hconn : (payload v lv D).connect (rowAt lat.ends n.b) (.vn n) =
            (Elem.ent ⟨n, c, pe, pi⟩, Elem.ent ⟨n, c, pe, pi⟩) := by
          show (match Total.connectNode Total.addI32 Total.I32_MAX D.conn (ents (rowAt lat.ends n.b)) n with
            | some (c, pe, pi) => (Elem.ent ⟨n, c, pe, pi⟩, Elem.ent ⟨n, c, pe, pi⟩)
            | none => (Elem.poison, Elem.poison)) = _
          rw [hrow, ents_map, hc]
        have hto : rows'.toList = pushRow rows.toList n.e ⟨n, c, pe, pi⟩ := by
          rw [← h1, Array.toList_setIfInBounds, pushRow_eq_set _ _ _ _ heL]
        obtain ⟨r0, rs0, hhead⟩ := hrel.head
        unfold Lattice.insert
        simp only [hconn]
        refine ⟨?_, ?_, ?_, ?_⟩
        · show pushRow lat.ends n.e (Elem.ent ⟨n, c, pe, pi⟩) = _
          rw [hrel.ends, hto, pushRow_map]
        · show pushRow lat.indices n.e (Elem.ent ⟨n, c, pe, pi⟩) = _
          rw [hrel.indices, hto, hhead, pushRow_map, dropBos_pushRow]
        · show pushRow lat.endsFull n.e (Elem.vn n) = _
          rw [hrel.full, hto, hhead]
          rw [← dropBos_pushRow]
          exact pushRow_map (fun e : Total.Entry => Elem.vn e.node) _ n.e ⟨n, c, pe, pi⟩
        · rw [hto, hhead]; exact pushRow_head _ _ _ _ _

/-! ## lattice stage, second half: the candidates of one position, the position loop -/

/-- the `insert`s of `Total.buildAll`, rows only -/
def insAll (D : Dict) : List Vit.Node → Total.Rows → Option Total.Rows
  | [], rows => some rows
  | n :: ns, rows =>
    match Total.insert Total.addI32 Total.I32_MAX D.conn rows n with
    | .ok (rows', _) => insAll D ns rows'
    | _ => none

theorem buildAll_insAll (D : Dict) : ∀ (ns : List Vit.Node) (rows : Total.Rows) (acc : List Total.Entry)
    (rows' : Total.Rows) (es : List Total.Entry),
    Total.buildAll Total.addI32 Total.I32_MAX D.conn ns rows acc = .ok (rows', es) → insAll D ns rows = some rows'
  | [], rows, acc, rows', es, h => by
    simp only [Total.buildAll, Oov.Outcome.ok.injEq, Prod.mk.injEq] at h
    rw [← h.1]; rfl
  | n :: ns, rows, acc, rows', es, h => by
    simp only [Total.buildAll] at h
    unfold insAll
    cases hi : Total.insert Total.addI32 Total.I32_MAX D.conn rows n with
    | ok p =>
      obtain ⟨r1, e⟩ := p
      rw [hi] at h
      exact buildAll_insAll D ns r1 _ rows' es h
    | err k => rw [hi] at h; cases h
    | panic w => rw [hi] at h; cases h

theorem insAll_append (D : Dict) : ∀ (a b : List Vit.Node) (rows rows' : Total.Rows),
    insAll D (a ++ b) rows = some rows' → ∃ r1, insAll D a rows = some r1 ∧ insAll D b r1 = some rows'
  | [], b, rows, rows', h => ⟨rows, rfl, h⟩
  | n :: a, b, rows, rows', h => by
    simp only [List.cons_append] at h
    have hstep : ∀ l, insAll D (n :: l) rows =
        (match Total.insert Total.addI32 Total.I32_MAX D.conn rows n with
          | .ok (rows', _) => insAll D l rows'
          | _ => none) := fun _ => rfl
    rw [hstep] at h
    rw [hstep]
    cases hi : Total.insert Total.addI32 Total.I32_MAX D.conn rows n with
    | ok p =>
      obtain ⟨r1, e⟩ := p
      rw [hi] at h
      exact insAll_append D a b r1 rows' h
    | err k => rw [hi] at h; cases h
    | panic w => rw [hi] at h; cases h

/-- **the candidates of one position**: the fold of `Lattice.insert` over the candidates the payload returns for a position
is the sequence of `Total.insert`s of those candidates -/
theorem fold_sim (v : Total.SplitV) (lv : EditM.LenV) (D : Dict) (off : Nat) :
    ∀ (new : List Vit.Node) (rows rows' : Total.Rows) (lat : Lattice Elem), LatRel rows lat → (∀ x ∈ new, x.b = off) →
      insAll D new rows = some rows' →
      LatRel rows' ((new.map (fun x => (x.e, Elem.vn x))).foldl (fun l c => Lattice.insert (payload v lv D) l off c) lat)
  | [], rows, rows', lat, hrel, _, h => by
    simp only [insAll, Option.some.injEq] at h
    rw [← h]; exact hrel
  | x :: new, rows, rows', lat, hrel, hb, h => by
    unfold insAll at h
    cases hi : Total.insert Total.addI32 Total.I32_MAX D.conn rows x with
    | ok p =>
      obtain ⟨r1, e⟩ := p
      rw [hi] at h
      have h1 := insert_sim v lv D rows r1 e x lat hrel hi
      rw [hb x List.mem_cons_self] at h1
      simp only [List.map_cons, List.foldl_cons]
      exact fold_sim v lv D off new r1 rows' _ h1 (fun y hy => hb y (List.mem_cons_of_mem _ hy)) h
    | err k => rw [hi] at h; cases h
    | panic w => rw [hi] at h; cases h

/-- which rows are non-empty: row 0 (BOS) and the rows at which an inserted candidate ends -/
def Reach (rows : Total.Rows) (acc : List Oov.Node) : Prop :=
  ∀ p, (rowAt rows.toList p).isEmpty = false ↔ (p = 0 ∨ ∃ x ∈ acc, Total.asU16 x.e = p)

theorem insert_rows (D : Dict) (rows rows' : Total.Rows) (e : Total.Entry) (n : Vit.Node)
    (h : Total.insert Total.addI32 Total.I32_MAX D.conn rows n = .ok (rows', e)) :
    ∃ rowE, rows.toList[n.e]? = some rowE ∧ rows'.toList = pushRow rows.toList n.e e := by
  unfold Total.insert at h
  cases hb : rows[n.b]? with
  | none => rw [hb] at h; cases h
  | some row =>
    rw [hb] at h
    simp only at h
    cases hc : Total.connectNode Total.addI32 Total.I32_MAX D.conn row n with
    | none => rw [hc] at h; cases h
    | some r =>
      obtain ⟨c, pe, pi⟩ := r
      rw [hc] at h
      simp only at h
      cases he : rows[n.e]? with
      | none => rw [he] at h; cases h
      | some rowE =>
        rw [he] at h
        simp only [Oov.Outcome.ok.injEq, Prod.mk.injEq] at h
        obtain ⟨h1, h2⟩ := h
        subst h2
        have heL : rows.toList[n.e]? = some rowE := by rw [Array.getElem?_toList]; exact he
        exact ⟨rowE, heL, by rw [← h1, Array.toList_setIfInBounds, pushRow_eq_set _ _ _ _ heL]⟩

theorem rowAt_pushRow_self {α : Type} : ∀ (R : List (List α)) (k : Nat) (rowE : List α) (y : α), R[k]? = some rowE →
    rowAt (pushRow R k y) k = rowE ++ [y]
  | [], _, _, _, h => by simp at h
  | r :: rs, 0, rowE, y, h => by
    have : r = rowE := by simpa using h
    subst this; rfl
  | r :: rs, k + 1, rowE, y, h => by
    simp only [pushRow, rowAt]
    exact rowAt_pushRow_self rs k rowE y (by simpa using h)

theorem reach_insert (D : Dict) (rows rows' : Total.Rows) (e : Total.Entry) (x : Oov.Node) (acc : List Oov.Node)
    (hr : Reach rows acc) (h : Total.insert Total.addI32 Total.I32_MAX D.conn rows (Total.toVit x) = .ok (rows', e)) :
    Reach rows' (acc ++ [x]) := by
  obtain ⟨rowE, heL, hto⟩ := insert_rows D rows rows' e _ h
  intro p
  rw [hto]
  by_cases hp : p = (Total.toVit x).e
  · subst hp
    rw [rowAt_pushRow_self _ _ _ _ heL]
    constructor
    · intro _
      exact Or.inr ⟨x, by simp, rfl⟩
    · intro _
      cases rowE <;> rfl
  · rw [rowAt_pushRow_ne _ _ _ _ hp, hr p]
    constructor
    · rintro (h0 | ⟨y, hy, hye⟩)
      · exact Or.inl h0
      · exact Or.inr ⟨y, by simp [hy], hye⟩
    · rintro (h0 | ⟨y, hy, hye⟩)
      · exact Or.inl h0
      · simp only [List.mem_append, List.mem_singleton] at hy
        rcases hy with hy | rfl
        · exact Or.inr ⟨y, hy, hye⟩
        · exact absurd hye.symm hp

theorem reach_insAll (D : Dict) : ∀ (new acc : List Oov.Node) (rows r1 : Total.Rows), Reach rows acc →
    insAll D (new.map Total.toVit) rows = some r1 → Reach r1 (acc ++ new)
  | [], acc, rows, r1, hr, h => by
    simp only [List.map_nil, insAll, Option.some.injEq] at h
    rw [← h, List.append_nil]; exact hr
  | x :: new, acc, rows, r1, hr, h => by
    simp only [List.map_cons] at h
    unfold insAll at h
    cases hi : Total.insert Total.addI32 Total.I32_MAX D.conn rows (Total.toVit x) with
    | ok p =>
      obtain ⟨r0, e⟩ := p
      rw [hi] at h
      have := reach_insAll D new (acc ++ [x]) r0 r1 (reach_insert D rows r0 e x acc hr hi) h
      simpa using this
    | err k => rw [hi] at h; cases h
    | panic w => rw [hi] at h; cases h

theorem asU16_le (n : Nat) (h : n ≤ 65535) : Total.asU16 n = n := by
  unfold Total.asU16; omega

/-- `has_previous_node` of the discipline model = `Oov.reachable` over the candidates inserted so far -/
theorem reach_hasPrev (rows : Total.Rows) (lat : Lattice Elem) (acc : List Oov.Node) (p : Nat)
    (hrel : LatRel rows lat) (hr : Reach rows acc) (hacc : ∀ x ∈ acc, x.e ≤ 65535) :
    lat.hasPrev p = Oov.reachable acc p := by
  unfold Lattice.hasPrev
  rw [hrel.ends, rowAt_map]
  have h1 := hr p
  have h2 : Oov.reachable acc p = true ↔ (p = 0 ∨ ∃ x ∈ acc, Total.asU16 x.e = p) := by
    unfold Oov.reachable
    simp only [Bool.or_eq_true, beq_iff_eq, List.any_eq_true]
    constructor
    · rintro (h0 | ⟨x, hx, hxe⟩)
      · exact Or.inl h0
      · exact Or.inr ⟨x, hx, by rw [asU16_le _ (hacc x hx)]; exact hxe⟩
    · rintro (h0 | ⟨x, hx, hxe⟩)
      · exact Or.inl h0
      · exact Or.inr ⟨x, hx, by rw [asU16_le _ (hacc x hx)] at hxe; exact hxe⟩
  cases hb : Oov.reachable acc p with
  | true =>
    have := h1.mpr (h2.mp hb)
    simp only [List.isEmpty_map] at this ⊢
    rw [this]; rfl
  | false =>
    cases he : (rowAt rows.toList p).isEmpty with
    | true => simp [List.isEmpty_map, he]
    | false =>
      have := h2.mpr (h1.mp he)
      rw [hb] at this; cases this

theorem cands_eq (v : Total.SplitV) (lv : EditM.LenV) (D : Dict) (inp : Input Elem) (chars : List Nat)
    (hch : charsOf inp.modified = chars) (p : Nat) (new : List Oov.Node)
    (hs : Oov.stepAt D.providers D.lex (D.mkBuf chars) p = .ok new) :
    (payload v lv D).cands inp.view p = (new.map Total.toVit).map (fun y => (y.e, Elem.vn y)) := by
  show (match Oov.stepAt D.providers D.lex (D.mkBuf (charsOf inp.view.modified)) p with
    | .ok new => new.map (fun x => ((Total.toVit x).e, Elem.vn (Total.toVit x)))
    | _ => []) = _
  have : inp.view.modified = inp.modified := rfl
  rw [this, hch, hs, List.map_map]
  rfl

/-- **the position loop of `build_lattice`**: `Oov.buildFrom` (which candidates exist) followed by the batch of
`Total.insert`s is the interleaved loop of the discipline model - skip a position without previous node, otherwise ask the
payload for the candidates and insert them. -/
theorem loop_sim (v : Total.SplitV) (lv : EditM.LenV) (D : Dict) (inp : Input Elem) (chars : List Nat)
    (hch : charsOf inp.modified = chars) (hwf : (D.mkBuf chars).WF) (hn : (D.mkBuf chars).chars.length ≤ 65535) :
    ∀ (pos : List Nat) (acc nodes : List Oov.Node),
      Oov.buildFrom D.providers D.lex (D.mkBuf chars) pos acc = .ok nodes → (∀ x ∈ acc, x.e ≤ 65535) →
      ∃ tail, nodes = acc ++ tail ∧ (∀ x ∈ nodes, x.e ≤ 65535) ∧
        ∀ (rows rows' : Total.Rows) (lat : Lattice Elem) (oov : List Elem), LatRel rows lat → Reach rows acc →
          insAll D (tail.map Total.toVit) rows = some rows' →
          ∃ oov' lat', buildLoop (payload v lv D) inp pos (oov, lat) = ((oov', lat'), .ok) ∧ LatRel rows' lat' ∧
            Reach rows' nodes
  | [], acc, nodes, h, hacc => by
    simp only [Oov.buildFrom, Oov.Outcome.ok.injEq] at h
    subst h
    refine ⟨[], by simp, hacc, ?_⟩
    intro rows rows' lat oov hrel hr hins
    simp only [List.map_nil, insAll, Option.some.injEq] at hins
    subst hins
    exact ⟨oov, lat, rfl, hrel, hr⟩
  | p :: rest, acc, nodes, h, hacc => by
    simp only [Oov.buildFrom] at h
    split at h
    · rename_i hreach
      obtain ⟨tail, htail, hle, ih⟩ := loop_sim v lv D inp chars hch hwf hn rest acc nodes h hacc
      refine ⟨tail, htail, hle, ?_⟩
      intro rows rows' lat oov hrel hr hins
      have hstep : buildStep (payload v lv D) inp (oov, lat) p = ((oov, lat), .ok) := by
        unfold buildStep
        rw [if_pos]
        show (!lat.hasPrev p) = true
        rw [reach_hasPrev rows lat acc p hrel hr hacc]; exact hreach
      obtain ⟨oov', lat', h1, h2, h3⟩ := ih rows rows' lat oov hrel hr hins
      refine ⟨oov', lat', ?_, h2, h3⟩
      unfold buildLoop
      rw [hstep]
      exact h1
    · rename_i hreach
      split at h
      · rename_i new hnew
        obtain ⟨hne, hok⟩ := Oov.stepAt_ok D.providers D.lex (D.mkBuf chars) p new hwf hnew
        have hacc' : ∀ x ∈ acc ++ new, x.e ≤ 65535 := by
          intro x hx
          rcases List.mem_append.mp hx with hx | hx
          · exact hacc x hx
          · have := (hok x hx).2.2; omega
        obtain ⟨tail', htail, hle, ih⟩ := loop_sim v lv D inp chars hch hwf hn rest (acc ++ new) nodes h hacc'
        refine ⟨new ++ tail', by rw [htail, List.append_assoc], hle, ?_⟩
        intro rows rows' lat oov hrel hr hins
        rw [List.map_append] at hins
        obtain ⟨r1, hi1, hi2⟩ := insAll_append D _ _ rows rows' hins
        have hb : ∀ y ∈ new.map Total.toVit, y.b = p := by
          intro y hy
          obtain ⟨x, hx, rfl⟩ := List.mem_map.mp hy
          have hx' := hok x hx
          show Total.asU16 x.b = p
          rw [hx'.1]
          exact asU16_le p (by have := hx'.2.1; have := hx'.2.2; omega)
        have hfold := fold_sim v lv D p (new.map Total.toVit) rows r1 lat hrel hb hi1
        have hreach1 := reach_insAll D new acc rows r1 hr hi1
        have hprev : lat.hasPrev p = true := by
          rw [reach_hasPrev rows lat acc p hrel hr hacc]
          cases hv : Oov.reachable acc p with
          | true => rfl
          | false => rw [hv] at hreach; exact absurd rfl hreach
        have hcs := cands_eq v lv D inp chars hch p new hnew
        have hcne : ((new.map Total.toVit).map (fun y => (y.e, Elem.vn y))).isEmpty = false := by
          cases new with
          | nil => exact absurd rfl hne
          | cons a t => rfl
        obtain ⟨oov', lat', h1, h2, h3⟩ := ih r1 rows' _ (([] : List Elem) ++ ((new.map Total.toVit).map (fun y => (y.e, Elem.vn y))).map (·.2)) hfold hreach1 hi2
        refine ⟨oov', lat', ?_, h2, h3⟩
        unfold buildLoop
        have hstep : buildStep (payload v lv D) inp (oov, lat) p =
            ((([] : List Elem) ++ ((new.map Total.toVit).map (fun y => (y.e, Elem.vn y))).map (·.2),
              ((new.map Total.toVit).map (fun y => (y.e, Elem.vn y))).foldl
                (fun l c => Lattice.insert (payload v lv D) l p c) lat), .ok) := by
          unfold buildStep
          rw [if_neg (by show ¬ (!lat.hasPrev p) = true; rw [hprev]; simp)]
          simp only [hcs, hcne]
          rfl
        rw [hstep]
        exact h1
      · cases h
      · cases h

/-! ## `Lattice::reset` on a new lattice, `connect_eos` -/

theorem reset_sim (v : Total.SplitV) (lv : EditM.LenV) (D : Dict) (n : Nat) :
    LatRel (Total.reset n) (Lattice.reset (payload v lv D) Lattice.empty n) ∧ Reach (Total.reset n) [] ∧
    (Total.reset n).toList.length = n + 1 := by
  have hto : (Total.reset n).toList = [Total.bosEntry] :: List.replicate n [] := by
    simp [Total.reset, List.replicate_succ]
  have hrv : ∀ α : Type, resetVec ([] : List (List α)) (n + 1) = [] :: List.replicate n [] := by
    intro α; simp [resetVec, List.replicate_succ]
  refine ⟨⟨?_, ?_, ?_, ?_⟩, ?_, ?_⟩
  · show pushRow (resetVec ([] : List (List Elem)) (n + 1)) 0 (Elem.ent Total.bosEntry) = _
    rw [hrv, hto]; simp [pushRow]
  · show resetVec ([] : List (List Elem)) (n + 1) = _
    rw [hrv, hto]; simp [dropBos]
  · show resetVec ([] : List (List Elem)) (n + 1) = _
    rw [hrv, hto]; simp [dropBos]
  · rw [hto]; exact ⟨[], _, rfl⟩
  · intro p
    rw [hto]
    cases p with
    | zero => simp [rowAt]
    | succ k =>
      have : rowAt (List.replicate n ([] : List Total.Entry)) k = [] := rowAt_replicate_nil n k
      simp [rowAt, this]
  · rw [hto]; simp

variable (add : Int → Int → Option Int) (M : Int) (conn : Nat → Nat → Int)

/-- `connect_node` does not read the begin of the node except to record it in the back pointer -/
theorem connGo_begin (n1 n2 : Vit.Node) (hl : n1.l = n2.l) (hc : n1.c = n2.c) :
    ∀ (row : List Total.Entry) (i : Nat) (m : Int) (a b a' : Nat) (c : Int) (pe pi : Nat),
      Total.connGo add M conn n1 row i (m, a, b) = some (c, pe, pi) →
      ∃ pe', Total.connGo add M conn n2 row i (m, a', b) = some (c, pe', pi) ∧
        (pe = Total.asU16 n1.b ∨ (c = m ∧ pe = a))
  | [], i, m, a, b, a', c, pe, pi, h => by
    simp only [Total.connGo, Option.some.injEq, Prod.mk.injEq] at h
    obtain ⟨rfl, rfl, rfl⟩ := h
    exact ⟨a', rfl, Or.inr ⟨rfl, rfl⟩⟩
  | l :: rest, i, m, a, b, a', c, pe, pi, h => by
    simp only [Total.connGo] at h ⊢
    split at h
    · rename_i hM
      rw [if_pos hM]
      exact connGo_begin n1 n2 hl hc rest (i + 1) m a b a' c pe pi h
    · rename_i hM
      rw [if_neg hM, ← hl, ← hc]
      cases hx : add l.total (conn l.node.r n1.l) with
      | none => rw [hx] at h; cases h
      | some x =>
        rw [hx] at h
        simp only at h ⊢
        cases hnc : add x n1.c with
        | none => rw [hnc] at h; cases h
        | some nc =>
          rw [hnc] at h
          simp only at h ⊢
          by_cases hlt : nc < m
          · rw [if_pos hlt] at h
            rw [if_pos hlt]
            obtain ⟨pe', h1, h2⟩ := connGo_begin n1 n2 hl hc rest (i + 1) nc (Total.asU16 n1.b) (Total.asU32 i)
              (Total.asU16 n2.b) c pe pi h
            refine ⟨pe', h1, ?_⟩
            rcases h2 with h2 | ⟨_, h2⟩
            · exact Or.inl h2
            · exact Or.inl h2
          · rw [if_neg hlt] at h
            rw [if_neg hlt]
            exact connGo_begin n1 n2 hl hc rest (i + 1) m a b a' c pe pi h

theorem all_isEnt_map (l : List Total.Entry) : (l.map Elem.ent).all Elem.isEnt = true := by
  induction l with
  | nil => rfl
  | cons a t ih => simp [Elem.isEnt, ih]

theorem all_rows_isEnt (R : List (List Total.Entry)) :
    (R.map (fun r => r.map Elem.ent)).all (fun r => r.all Elem.isEnt) = true := by
  induction R with
  | nil => rfl
  | cons a t ih => simp only [List.map_cons, List.all_cons, all_isEnt_map, ih, Bool.and_self]

theorem map_ents_map (rs : List (List Total.Entry)) : (rs.map (fun r => r.map Elem.ent)).map ents = rs := by
  induction rs with
  | nil => rfl
  | cons a t ih => simp only [List.map_cons, ents_map, ih]

theorem rowsOf_rel (r : List Total.Entry) (rs : List (List Total.Entry)) :
    rowsOf ((dropBos ((Total.bosEntry :: r) :: rs)).map (fun r => r.map Elem.ent)) =
      ((Total.bosEntry :: r) :: rs).toArray := by
  simp only [dropBos, List.drop_one, List.tail_cons, List.map_cons, rowsOf, ents_map, map_ents_map]

theorem insAll_length (D : Dict) : ∀ (ns : List Vit.Node) (rows rows' : Total.Rows), insAll D ns rows = some rows' →
    rows'.toList.length = rows.toList.length
  | [], rows, rows', h => by
    simp only [insAll, Option.some.injEq] at h
    rw [h]
  | n :: ns, rows, rows', h => by
    unfold insAll at h
    cases hi : Total.insert Total.addI32 Total.I32_MAX D.conn rows n with
    | ok p =>
      obtain ⟨r1, e⟩ := p
      rw [hi] at h
      obtain ⟨rowE, _, hto⟩ := insert_rows D rows r1 e n hi
      rw [insAll_length D ns r1 rows' h, hto, pushRow_length]
    | err k => rw [hi] at h; cases h
    | panic w => rw [hi] at h; cases h

/-- **`connect_eos`** of the discipline model with the concrete payload = `Total.connectEos` -/
theorem eos_sim (v : Total.SplitV) (lv : EditM.LenV) (D : Dict) (rows : Total.Rows) (lat : Lattice Elem) (n : Nat)
    (hn : n ≤ 65535) (hrel : LatRel rows lat) (hsize : lat.size = n + 1) (c : Int) (pe pi : Nat)
    (h : Total.connectEos Total.addI32 Total.I32_MAX D.conn rows n = .ok (c, pe, pi)) :
    Lattice.connectEos (payload v lv D) lat =
      ({ lat with eos := some (Elem.ent ⟨Total.eosNode 0, c, 0, pi⟩) }, .ok) ∧
    pe = Total.asU16 (Total.asU16 n) := by
  unfold Total.connectEos at h
  have hb : (Total.eosNode n).b = n := asU16_le n hn
  rw [hb] at h
  cases hr : rows[n]? with
  | none => rw [hr] at h; cases h
  | some row =>
    rw [hr] at h
    simp only at h
    cases hc : Total.connectNode Total.addI32 Total.I32_MAX D.conn row (Total.eosNode n) with
    | none => rw [hc] at h; cases h
    | some r =>
      obtain ⟨c', pe', pi'⟩ := r
      rw [hc] at h
      simp only at h
      split at h
      · cases h
      · rename_i hcM
        simp only [Oov.Outcome.ok.injEq, Prod.mk.injEq] at h
        obtain ⟨rfl, rfl, rfl⟩ := h
        unfold Total.connectNode at hc
        obtain ⟨pe0, h1, h2⟩ := connGo_begin Total.addI32 Total.I32_MAX D.conn (Total.eosNode n) (Total.eosNode 0) rfl rfl
          row 0 Total.I32_MAX 65535 Total.idxNone 65535 c' pe' pi' hc
        have hpe : pe' = Total.asU16 (Total.asU16 n) := by
          rcases h2 with h2 | ⟨h2, _⟩
          · exact h2
          · exact absurd h2 hcM
        refine ⟨?_, hpe⟩
        have hrL : rows.toList[n]? = some row := by rw [Array.getElem?_toList]; exact hr
        have hrow : rowAt lat.ends (lat.size - 1) = row.map Elem.ent := by
          rw [hsize, Nat.add_sub_cancel, hrel.ends, rowAt_map, rowAt_of_get _ _ _ hrL]
        have heos : (payload v lv D).eosOf (row.map Elem.ent) = some (Elem.ent ⟨Total.eosNode 0, c', 0, pi'⟩) := by
          show (if (row.map Elem.ent).all Elem.isEnt then
              match Total.connectNode Total.addI32 Total.I32_MAX D.conn (ents (row.map Elem.ent)) (Total.eosNode 0) with
              | some (c, _, pi) => if c = Total.I32_MAX then none else some (Elem.ent ⟨Total.eosNode 0, c, 0, pi⟩)
              | none => some Elem.poison
            else some Elem.poison) = _
          rw [all_isEnt_map, if_pos rfl, ents_map]
          unfold Total.connectNode
          rw [h1]
          simp only
          rw [if_neg hcM]
        unfold Lattice.connectEos
        rw [hrow, heos]

/-! ## `resolve_best_path`, the rewrite stage and `split_path` -/

theorem rns_map (l : List Total.NodeRange) : rns (l.map .rn) = l := by
  induction l with
  | nil => rfl
  | cons a t ih => simpa [rns, Elem.rn?] using ih

theorem dropBos_length {α : Type} (R : List (List α)) : (dropBos R).length = R.length := by
  cases R <;> rfl

/-- **the path phase**: `fill_top_path`, `resolve_best_path`, the word-info/rewrite stage and `split_path` of the discipline
model with the concrete payload, on the lattice that holds `Total`'s rows, give `Total`'s morphemes -/
theorem resolve_sim (v : Total.SplitV) (lv : EditM.LenV) (D : Dict) (t2 : Tok Elem) (rows : Total.Rows) (n : Nat)
    (text : List Nat) (c : Int) (pi : Nat) (es : List Total.Entry) (path : List Total.NodeRange)
    (path' : List (Total.NodeRange × List Nat)) (ms : List Total.NodeRange)
    (hrel : LatRel rows t2.lattice) (hlen : rows.toList.length = n + 1) (hsize : t2.lattice.size = n + 1)
    (heos : t2.lattice.eos = some (Elem.ent ⟨Total.eosNode 0, c, 0, pi⟩))
    (hpath : t2.topPath = some []) (hids : t2.topPathIds = []) (htext : nats t2.input.modified = text)
    (h1 : Total.topPath rows (n + 1) (Total.asU16 (Total.asU16 n), pi) [] = .ok es)
    (h2 : Total.mapM (Total.resultNode (EditM.c2b text)) es = .ok path)
    (h3 : D.rewrite t2.mode t2.subset path = .ok path')
    (h4 : Total.splitPath v (EditM.b2c text) (EditM.c2b text) path' = .ok ms) :
    (Tok.resolveAndRewrite (payload v lv D) t2).2 = .ok ∧
    (Tok.resolveAndRewrite (payload v lv D) t2).1.topPath = some (ms.map .rn) ∧
    (Tok.resolveAndRewrite (payload v lv D) t2).1.input = t2.input := by
  obtain ⟨r0, rs0, hhead⟩ := hrel.head
  have hidx : t2.lattice.indices.take t2.lattice.size = (dropBos rows.toList).map (fun r => r.map Elem.ent) := by
    rw [hrel.indices, List.take_of_length_le]
    rw [List.length_map, dropBos_length, hlen, hsize]; exact Nat.le_refl _
  have hfill : (payload v lv D).fillTop t2.lattice.eos (t2.lattice.indices.take t2.lattice.size) =
      es.reverse.map Elem.ent := by
    rw [heos, hidx]
    show (if ((dropBos rows.toList).map (fun r => r.map Elem.ent)).all (fun r => r.all Elem.isEnt) then
        match Total.topPath (rowsOf ((dropBos rows.toList).map (fun r => r.map Elem.ent)))
            (((dropBos rows.toList).map (fun r => r.map Elem.ent)).length - 1 + 1)
            (Total.asU16 (Total.asU16 (((dropBos rows.toList).map (fun r => r.map Elem.ent)).length - 1)), pi) [] with
        | .ok es => es.reverse.map Elem.ent
        | _ => [Elem.poison]
      else [Elem.poison]) = _
    rw [all_rows_isEnt, if_pos rfl, List.length_map, dropBos_length, hlen, Nat.add_sub_cancel]
    rw [hhead, rowsOf_rel, ← hhead, Array.toArray_toList, h1]
  have hidsv : (t2.topPathIds ++ (payload v lv D).fillTop t2.lattice.eos (t2.lattice.indices.take t2.lattice.size)).reverse =
      es.map Elem.ent := by
    rw [hids, hfill, List.nil_append, ← List.map_reverse, List.reverse_reverse]
  have hpn : ∀ full ends, (payload v lv D).pathNodes t2.subset t2.input.view full ends (es.map Elem.ent) =
      .nodes (path.map Elem.rn) := by
    intro full ends
    show (if (es.map Elem.ent).all Elem.isEnt then
        pathResOf (fun l => l.map Elem.rn)
          (Total.mapM (Total.resultNode (EditM.c2b (nats t2.input.view.modified))) (ents (es.map Elem.ent)))
      else .unwind) = _
    have hv : t2.input.view.modified = t2.input.modified := rfl
    rw [all_isEnt_map, if_pos rfl, ents_map, hv, htext, h2]
    rfl
  have hrp : (payload v lv D).rewritePath t2.mode t2.subset t2.input.view (([] : List Elem) ++ path.map Elem.rn) =
      .nodes (ms.map Elem.rn) := by
    show (match D.rewrite t2.mode t2.subset (rns (([] : List Elem) ++ path.map Elem.rn)) with
      | .ok path' => pathResOf (fun l => l.map Elem.rn)
          (Total.splitPath v (EditM.b2c (nats t2.input.view.modified)) (EditM.c2b (nats t2.input.view.modified)) path')
      | .err _ => .fail
      | .panic _ => .unwind) = _
    have hv : t2.input.view.modified = t2.input.modified := rfl
    rw [List.nil_append, rns_map, h3]
    simp only
    rw [hv, htext, h4]
    rfl
  rw [resolve_eq_phase]
  unfold pathPhase
  simp only [hidsv, hpn, hpath, Option.getD_some, hrp]
  trivial

/-! ## the bridge, Ok direction, in general -/

/-- **bridge_ok_general**: for EVERY configuration, mode, subset and text - whenever `Total.tokenize` returns a result, the
discipline model with the concrete payload on a NEW tokenizer is Ok and reports exactly that result (morphemes and tables).
Hypotheses on the configuration: `hs` every committed batch leaves at most 65 535 bytes (`ShortRun`), `hchars` hence at most
65 535 characters, `hwf`/`hbuf` the buffer builder returns a well-formed buffer over the characters it was given (C13
`built_buffer_well_formed`). -/
theorem bridge_ok_general (v : Total.SplitV) (lv : EditM.LenV) (D : Dict) (m : Mode) (s : Subset) (text : List Nat)
    (hs : ∀ l0, EditM.startBuild text = some l0 → ShortRun lv D.inputPlugins l0)
    (hwf : ∀ chars, (D.mkBuf chars).WF) (hbuf : ∀ chars, (D.mkBuf chars).chars = chars)
    (hchars : ∀ l0 l chars, EditM.startBuild text = some l0 → Total.rewriteInput lv D.inputPlugins l0 = .ok l →
      Wire.utf8Decode (EditM.textOf l) = some chars → chars.length ≤ 65535)
    (r : Total.Result) (h : Total.tokenize v lv (D.cfg m s) text = .ok r) :
    (analyseNew v lv D m s text).2 = .ok ∧ morphsOf (analyseNew v lv D m s text).1 = some r.morphs ∧
    tablesOf (analyseNew v lv D m s text).1.input = r.tables := by
  unfold Total.tokenize at h
  cases h0 : EditM.startBuild text with
  | none => rw [h0] at h; cases h
  | some l0 =>
    rw [h0] at h
    simp only at h
    have hcfgp : (D.cfg m s).inputPlugins = D.inputPlugins := rfl
    rw [hcfgp] at h
    cases h1 : Total.rewriteInput lv D.inputPlugins l0 with
    | err k => rw [h1] at h; cases h
    | panic w => rw [h1] at h; cases h
    | ok l =>
      rw [h1] at h
      simp only at h
      cases h2 : Wire.utf8Decode (EditM.textOf l) with
      | none => rw [h2] at h; cases h
      | some chars =>
        rw [h2] at h
        simp only at h
        obtain ⟨i, hprep, hmod, hm2o, _, hlenC, hlenB⟩ := prepare_sim v lv D m s text l0 l h0 (hs l0 h0) h1
        have hnats : nats i.modified = EditM.textOf l := by rw [hmod, nats_map]
        have hch : charsOf i.modified = chars := by unfold charsOf; rw [hnats, h2]
        have hn : chars.length ≤ 65535 := hchars l0 l chars h0 h1 h2
        let t0 : Tok Elem := (newTok m s).resetWith .fix (text.map .nat)
        have htab : tablesOf i = l := by unfold tablesOf; rw [hm2o, pairs_map]
        have e2 : t0.lattice = Lattice.empty := rfl
        have e3 : t0.oov = [] := rfl
        split at h
        · -- empty normalised text
          rename_i hemp
          simp only [Oov.Outcome.ok.injEq] at h
          subst h
          have hc0 : chars = [] := by cases chars with
            | nil => rfl
            | cons a t => simp at hemp
          have htx : EditM.textOf l = [] := by
            cases htl : EditM.textOf l with
            | nil => rfl
            | cons b0 rest => rw [htl, hc0] at h2; exact absurd h2 (Partition.utf8Decode_cons_ne_nil b0 rest)
          have hie : i.modified.isEmpty = true := by rw [hmod, htx]; rfl
          have hA : analyseNew v lv D m s text = ({ t0 with input := i }, Outcome.ok) := by
            show Tok.doTokenize (payload v lv D) t0 = _
            unfold Tok.doTokenize
            rw [hprep]
            simp only [hie, ↓reduceIte]
          rw [hA]
          exact ⟨rfl, rfl, htab⟩
        · rename_i hemp
          have hcfgb : (D.cfg m s).mkBuf = D.mkBuf := rfl
          have hine : i.modified.isEmpty = false := by
            cases hmm : i.modified with
            | cons a t => rfl
            | nil =>
              exfalso
              have : EditM.textOf l = [] := by rw [← hnats, hmm]; rfl
              rw [this] at h2
              have h20 : Wire.utf8Decode [] = some [] := by simp [Wire.utf8Decode]
              rw [h20] at h2
              cases h2
              exact hemp rfl
          cases h3 : Oov.buildLattice D.providers D.lex (D.mkBuf chars) with
          | err k => rw [show (D.cfg m s).providers = D.providers from rfl, show (D.cfg m s).lex = D.lex from rfl, hcfgb, h3] at h; cases h
          | panic w => rw [show (D.cfg m s).providers = D.providers from rfl, show (D.cfg m s).lex = D.lex from rfl, hcfgb, h3] at h; cases h
          | ok nodes =>
            rw [show (D.cfg m s).providers = D.providers from rfl, show (D.cfg m s).lex = D.lex from rfl, hcfgb, h3] at h
            simp only at h
            rw [show (D.cfg m s).conn = D.conn from rfl] at h
            cases h4 : Total.buildAll Total.addI32 Total.I32_MAX D.conn (nodes.map Total.toVit) (Total.reset chars.length) [] with
            | err k => rw [h4] at h; cases h
            | panic w => rw [h4] at h; cases h
            | ok pr =>
              obtain ⟨rows, es0⟩ := pr
              rw [h4] at h
              simp only at h
              cases h5 : Total.connectEos Total.addI32 Total.I32_MAX D.conn rows chars.length with
              | err k => rw [h5] at h; cases h
              | panic w => rw [h5] at h; cases h
              | ok tr =>
                obtain ⟨c, pe, pi⟩ := tr
                rw [h5] at h
                simp only at h
                cases h6 : Total.topPath rows (chars.length + 1) (pe, pi) [] with
                | err k => rw [h6] at h; cases h
                | panic w => rw [h6] at h; cases h
                | ok es =>
                  rw [h6] at h
                  simp only at h
                  cases h7 : Total.mapM (Total.resultNode (EditM.c2b (EditM.textOf l))) es with
                  | err k => rw [h7] at h; cases h
                  | panic w => rw [h7] at h; cases h
                  | ok path =>
                    rw [h7] at h
                    simp only at h
                    rw [show (D.cfg m s).rewrite = D.rewrite m s from rfl] at h
                    cases h8 : D.rewrite m s path with
                    | err k => rw [h8] at h; cases h
                    | panic w => rw [h8] at h; cases h
                    | ok path' =>
                      rw [h8] at h
                      simp only at h
                      cases h9 : Total.splitPath v (EditM.b2c (EditM.textOf l)) (EditM.c2b (EditM.textOf l)) path' with
                      | err k => rw [h9] at h; cases h
                      | panic w => rw [h9] at h; cases h
                      | ok ms =>
                        rw [h9] at h
                        simp only [Oov.Outcome.ok.injEq] at h
                        subst h
                        -- the candidates
                        have hbf : Oov.buildFrom D.providers D.lex (D.mkBuf chars) (List.range chars.length) [] = .ok nodes := by
                          unfold Oov.buildLattice at h3
                          rw [hbuf chars] at h3
                          split at h3
                          · rename_i ns hns
                            split at h3
                            · cases h3; exact hns
                            · cases h3
                          · cases h3
                          · cases h3
                        obtain ⟨tail, htail, _, hloop⟩ := loop_sim v lv D i chars hch (hwf chars)
                          (by rw [hbuf chars]; exact hn) (List.range chars.length) [] nodes hbf (fun x hx => by cases hx)
                        rw [List.nil_append] at htail
                        subst htail
                        obtain ⟨hr0, hreach0, hlen0⟩ := reset_sim v lv D chars.length
                        have hins := buildAll_insAll D _ _ _ _ _ h4
                        obtain ⟨oov', lat', hbl, hrel', _⟩ := hloop (Total.reset chars.length) rows _ ([] : List Elem) hr0 hreach0 hins
                        have hlenR : rows.toList.length = chars.length + 1 := by
                          rw [insAll_length D _ _ _ hins, hlen0]
                        have hsz : lat'.size = chars.length + 1 := by
                          have := buildLoop_size (payload v lv D) i (List.range chars.length)
                            (([] : List Elem), Lattice.reset (payload v lv D) Lattice.empty chars.length)
                          rw [hbl] at this
                          exact this
                        obtain ⟨heosR, hpe⟩ := eos_sim v lv D rows lat' chars.length hn hrel' hsz c pe pi h5
                        have hmc : i.modChars.length = chars.length := by rw [hlenC, hch]
                        have hmb : i.modC2b.length - 1 = chars.length := by rw [hlenB, hch]; rfl
                        have hbuildL : Tok.buildLattice (payload v lv D) { t0 with input := i } =
                            ({ t0 with input := i, oov := oov',
                                       lattice := { lat' with eos := some (Elem.ent ⟨Total.eosNode 0, c, 0, pi⟩) } }, .ok) := by
                          unfold Tok.buildLattice
                          simp only [e2, e3, hmc, hmb, hbl, heosR]
                        have hA : analyseNew v lv D m s text = Tok.resolveAndRewrite (payload v lv D)
                            { t0 with input := i, oov := oov',
                                      lattice := { lat' with eos := some (Elem.ent ⟨Total.eosNode 0, c, 0, pi⟩) } } := by
                          show Tok.doTokenize (payload v lv D) t0 = _
                          unfold Tok.doTokenize
                          rw [hprep]
                          simp only [hine, Bool.false_eq_true, ↓reduceIte, hbuildL]
                        rw [hA]
                        rw [hpe] at h6
                        have hres := resolve_sim v lv D
                          { t0 with input := i, oov := oov',
                                    lattice := { lat' with eos := some (Elem.ent ⟨Total.eosNode 0, c, 0, pi⟩) } }
                          rows chars.length (EditM.textOf l) c pi es path path' ms
                          ⟨hrel'.ends, hrel'.indices, hrel'.full, hrel'.head⟩ hlenR hsz rfl rfl rfl hnats h6 h7 h8 h9
                        obtain ⟨ra, rb, rc⟩ := hres
                        refine ⟨ra, ?_, ?_⟩
                        · unfold morphsOf; rw [rb]; simp only [Option.map_some, rns_map]
                        · rw [rc]; exact htab

theorem rewriteInput_short (lv : EditM.LenV) :
    ∀ (ps : List (List Nat → Oov.Outcome (List (EditM.Edit Nat)))) (l l' : List (EditM.P Nat)),
      (EditM.textOf l).length ≤ 65535 → ShortRun lv ps l → Total.rewriteInput lv ps l = .ok l' →
      (EditM.textOf l').length ≤ 65535
  | [], l, l', hl, _, h => by
    simp only [Total.rewriteInput] at h
    cases h
    exact hl
  | p :: ps, l, l', _, hs, h => by
    simp only [Total.rewriteInput] at h
    cases hp : p (EditM.textOf l) with
    | err k => rw [hp] at h; cases h
    | panic w => rw [hp] at h; cases h
    | ok es =>
      rw [hp] at h
      simp only at h
      cases hc : EditM.commitV lv l es with
      | none => rw [hc] at h; cases h
      | some l1 =>
        rw [hc] at h
        simp only at h
        obtain ⟨h1, h2⟩ := hs es l1 hp hc
        exact rewriteInput_short lv ps l1 l' h1 h2 h

/-- at most 65 535 bytes give at most 65 535 characters (`u16` lattice positions) -/
theorem few_of_short (lv : EditM.LenV) (D : Dict) (text : List Nat)
    (hs : ∀ l0, EditM.startBuild text = some l0 → ShortRun lv D.inputPlugins l0) :
    ∀ l0 l chars, EditM.startBuild text = some l0 → Total.rewriteInput lv D.inputPlugins l0 = .ok l →
      Wire.utf8Decode (EditM.textOf l) = some chars → chars.length ≤ 65535 := by
  intro l0 l chars h0 h1 h2
  have hl0 : (EditM.textOf l0).length ≤ 65535 := by
    unfold EditM.startBuild at h0
    split at h0
    · cases h0
    · rename_i hn
      cases h0
      rw [textOf_identFrom']
      have : EditM.MAX_LENGTH = 49149 := rfl
      omega
  have hl := rewriteInput_short lv D.inputPlugins l0 l hl0 (hs l0 h0) h1
  have h3 := Total.utf8Decode_length_le _ _ chars (Nat.le_refl _) h2
  have h4 : EditM.nchars (EditM.textOf l) ≤ (EditM.textOf l).length := by
    unfold EditM.nchars; exact List.length_filter_le _ _
  omega

/-- the hypotheses on configuration and text under which the Ok direction of the bridge is PROVED -/
structure ConfigOk (lv : EditM.LenV) (D : Dict) (text : List Nat) : Prop where
  /-- every batch the input-text plugin stack commits leaves at most 65 535 bytes (C01 `PluginOk`: `rewriteInput_inv`) -/
  short : ∀ l0, EditM.startBuild text = some l0 → ShortRun lv D.inputPlugins l0
  /-- the buffer builder returns a well-formed buffer (C13 `built_buffer_well_formed`) … -/
  wf : ∀ chars, (D.mkBuf chars).WF
  /-- … over the characters it was given -/
  chars : ∀ chars, (D.mkBuf chars).chars = chars

theorem bridge_ok_of_config (v : Total.SplitV) (lv : EditM.LenV) (D : Dict) (m : Mode) (s : Subset) (text : List Nat)
    (hc : ConfigOk lv D text) (r : Total.Result) (h : Total.tokenize v lv (D.cfg m s) text = .ok r) :
    (analyseNew v lv D m s text).2 = .ok ∧ morphsOf (analyseNew v lv D m s text).1 = some r.morphs ∧
    tablesOf (analyseNew v lv D m s text).1.input = r.tables :=
  bridge_ok_general v lv D m s text hc.short hc.wf hc.chars (few_of_short lv D text hc.short) r h

end RecycleTotal
