import Sudachi.Proofs.SentenceConv
import Sudachi.Proofs.SentenceSame
import Sudachi.Proofs.SentenceFix
import Sudachi.Proofs.SentenceTotal
import Sudachi.Proofs.SentenceBytes
/-!
# C16, third round: the look-back veto (both directions) and the exact exemption set of the converse

* `hasNonBreakWord_true_of_word`: a key that matches at a byte offset of the 30-byte look-back and crosses
  the candidate, or ends at it with two or more characters, makes the checker answer `true` — for every
  text, i.e. for every mix of 1-, 2-, 3- and 4-byte characters, including look-backs that start inside a
  character (valid UTF-8 keys; both variants of the `Ordering::Equal` arm).
* `examine_cases`: the loop body of `get_eos` vetoes exactly for the four exemptions (`Exempt`) and
  otherwise accepts the extended end (`extEnd`).
* `getEos_pos_iff` / `getEos_neg_iff`: `get_eos` answers the extended end of the FIRST match in the window
  that is not exempt; it is negative exactly when every match in the window is exempt.
-/
namespace Sentence

/-! ## the look-back veto -/

theorem long_of_multiChar {input : Text} {i : Nat} {key : List Nat} (h : MultiCharWordAt input i key) :
    LongAt input i key.length := by
  obtain ⟨pre, w, post, hs, hb, hk, hl⟩ := h
  refine ⟨w.length, ?_, hl⟩
  have := sliceChars_of_split (pre := pre) (w := w) (post := post)
  rw [hs, ← hb, hk, utf8_length]
  exact this

theorem short_long_absurd {input : Text} {i len : Nat} (h1 : ShortAt input i len) (h2 : LongAt input i len) :
    False := by
  obtain ⟨r, hr, hle⟩ := h1
  obtain ⟨r', hr', hge⟩ := h2
  rw [hr] at hr'
  cases hr'
  omega

/-- two prefixes of one text: the longer one has more bytes -/
theorem blen_lt_of_prefix_lt {a b c d : Text} (h : a ++ b = c ++ d) (hl : a.length < c.length) :
    blen a < blen c := by
  have ha : a = (c ++ d).take a.length := by rw [← h]; simp
  have hc : c = (c ++ d).take c.length := by simp
  have : a = c.take a.length := by
    rw [ha, List.take_append_of_le_length (by omega)]
    simp
  rw [this]
  exact blen_take_lt hl

theorem multiChar_not_lastChar {input : Text} {i : Nat} {key : List Nat}
    (h : MultiCharWordAt input i key) (hl : LastCharFrom input i) : False := by
  obtain ⟨pre, w, post, hs, hb, _, hw⟩ := h
  obtain ⟨p, q, hs2, hq, hp⟩ := hl
  have hlen : input.length = pre.length + w.length + post.length := by rw [hs]; simp only [List.length_append]
  have hlen2 : input.length = p.length + q.length := by rw [hs2]; simp only [List.length_append]
  have : blen pre < blen p :=
    blen_lt_of_prefix_lt (a := pre) (b := w ++ post) (c := p) (d := q)
      (by rw [← List.append_assoc, ← hs, hs2]) (by omega)
  omega

/-- **The veto direction of the look-back** (both variants): a non-empty key of a lexicon that is a prefix
of the bytes of the input at offset `i`, `eosB - 30 ≤ i < eosB`, and that crosses the candidate `eosB` or
ends at it and consists of two or more whole characters, makes `has_non_break_word` answer `true`
(`eosB` a character boundary of the input, as every candidate of `get_eos` is). -/
theorem hasNonBreakWord_true_of_word (v : CkVariant) {lexs : List (List (List Nat))} (hv : ValidKeys lexs)
    {input : Text} {eosB i : Nat} {lex : List (List Nat)} (hlex : lex ∈ lexs) {key : List Nat}
    (hkey : key ∈ lex) (hne : key ≠ []) (hpre : key <+: (utf8 input).drop i)
    (hE : ∃ e, eosB = blen (input.take e))
    (h1 : eosB - LOOKUP_BYTE_LENGTH ≤ i) (h2 : i < eosB)
    (h3 : eosB < i + key.length ∨ (i + key.length = eosB ∧ MultiCharWordAt input i key)) :
    hasNonBreakWord v lexs input eosB = .ok true := by
  cases hr : hasNonBreakWord v lexs input eosB with
  | panic => exact absurd hr (hasNonBreakWord_no_panic v hv input eosB)
  | ok b =>
    cases b with
    | true => rfl
    | false =>
      exfalso
      cases v with
      | fix =>
        rcases (hasNonBreakWord_fix_false_iff lexs input eosB).mp hr i h1 h2 lex hlex key hkey hne hpre with
          hlt | ⟨heq, ho⟩
        · rcases h3 with h3 | ⟨h3, _⟩ <;> omega
        · rcases h3 with h3 | ⟨_, hm⟩
          · omega
          · exact short_long_absurd (short_of_oneChar ho) (long_of_multiChar hm)
      | cur =>
        obtain ⟨e, hE⟩ := hE
        rcases hasNonBreakWord_false hE hr i h1 h2 _ (key_in_lookup hlex hkey hne hpre) with hlt | ⟨heq, hl⟩
        · rcases h3 with h3 | ⟨h3, _⟩ <;> omega
        · rcases h3 with h3 | ⟨_, hm⟩
          · omega
          · exact multiChar_not_lastChar hm hl

/-! ## the exemption set of the converse clause -/

/-- the candidate end after `eos += prohibited_bos(&s[eos..])` (closing brackets, commas and terminators
that may not start a sentence are taken into the sentence) -/
def extEnd (s : Text) (e0 : Nat) : Nat := if e0 < s.length then e0 + prohibitedBos (s.drop e0) else e0

/-- the break at byte `eosB` lies **inside a multi-character dictionary word** that the checker can see:
a key found at a byte offset of the 30-byte look-back crosses it, or a key of two or more whole
characters ends at it -/
def InsideWord (lexs : List (List (List Nat))) (input : Text) (eosB : Nat) : Prop :=
  ∃ i, eosB - LOOKUP_BYTE_LENGTH ≤ i ∧ i < eosB ∧
    ∃ lex ∈ lexs, ∃ key ∈ lex, key ≠ [] ∧ key <+: (utf8 input).drop i ∧
      (eosB < i + key.length ∨ (i + key.length = eosB ∧ MultiCharWordAt input i key))

/-- the checker (if there is one) answers `true` for the candidate -/
def Blocked (v : CkVariant) (ck : Option (List (List (List Nat)))) (input : Text) (eosB : Nat) : Prop :=
  ∃ lexs, ck = some lexs ∧ hasNonBreakWord v lexs input eosB = .ok true

/-- **The exemption set**: the match of SENTENCE_BREAKER ending at character `e0` of the window `s` does
not end a sentence because (1) it is inside an unclosed bracket pair, (2) the window is an itemisation
header `1.`, (3) the extended end is followed by a quoting particle / is an itemisation header followed
by と/や/の (`is_continuous_phrase`), or (4) the checker answers `true` for the extended end. -/
def Exempt (v : CkVariant) (ck : Option (List (List (List Nat)))) (input s : Text) (e0 : Nat) : Prop :=
  0 < parenLevel (s.take e0) ∨ isItemizeHeader s = true ∨
  (extEnd s e0 < s.length ∧ isContinuousPhrase s (extEnd s e0) = some true) ∨
  Blocked v ck input (blen (s.take (extEnd s e0)))

theorem examine_eq (v : CkVariant) (ck : Option (List (List (List Nat)))) (input s : Text) (e0 : Nat) :
    examine v ck input s e0 =
      if parenLevel (s.take e0) > 0 then .veto else
      if isItemizeHeader s then .veto else
      match (if extEnd s e0 < s.length then isContinuousPhrase s (extEnd s e0) else some false) with
      | none => .panic
      | some true => .veto
      | some false =>
        match ck with
        | none => .accept (extEnd s e0)
        | some lexs =>
          match hasNonBreakWord v lexs input (blen (s.take (extEnd s e0))) with
          | .panic => .panic
          | .ok true => .veto
          | .ok false => .accept (extEnd s e0) := by
  unfold examine extEnd
  rfl

theorem extEnd_pos {s : Text} {e0 : Nat} (h0 : 1 ≤ e0) : 1 ≤ extEnd s e0 := by
  unfold extEnd; split <;> omega

theorem extEnd_ge (s : Text) (e0 : Nat) : e0 ≤ extEnd s e0 := by
  unfold extEnd; split <;> omega

/-- **The loop body of `get_eos`, exactly**: a match end `e0 ≥ 1` is vetoed iff it is exempt, and otherwise
accepted with the extended end (valid UTF-8 keys: the checker cannot panic) -/
theorem examine_cases {v : CkVariant} {ck : Option (List (List (List Nat)))} (hv : ValidChecker ck)
    (input s : Text) {e0 : Nat} (h0 : 1 ≤ e0) :
    (Exempt v ck input s e0 ∧ examine v ck input s e0 = .veto) ∨
    (¬ Exempt v ck input s e0 ∧ examine v ck input s e0 = .accept (extEnd s e0)) := by
  rw [examine_eq]
  by_cases hp : parenLevel (s.take e0) > 0
  · exact Or.inl ⟨Or.inl hp, by simp [hp]⟩
  by_cases hi : isItemizeHeader s = true
  · exact Or.inl ⟨Or.inr (Or.inl hi), by simp [hi]⟩
  simp only [hp, hi, if_false, Bool.false_eq_true]
  have hpos := extEnd_pos (s := s) h0
  by_cases hlt : extEnd s e0 < s.length
  · obtain ⟨b, hb⟩ := isContinuousPhrase_some hpos hlt
    simp only [hlt, if_true, hb]
    cases b with
    | true => exact Or.inl ⟨Or.inr (Or.inr (Or.inl ⟨hlt, hb⟩)), rfl⟩
    | false =>
      simp only
      cases ck with
      | none =>
        refine Or.inr ⟨?_, rfl⟩
        rintro (h | h | ⟨_, h⟩ | ⟨lexs, h, _⟩)
        · exact hp h
        · exact hi h
        · rw [hb] at h; cases h
        · cases h
      | some lexs =>
        simp only
        cases hw : hasNonBreakWord v lexs input (blen (s.take (extEnd s e0))) with
        | panic => exact absurd hw (hasNonBreakWord_no_panic v hv input _)
        | ok r =>
          cases r with
          | true => exact Or.inl ⟨Or.inr (Or.inr (Or.inr ⟨lexs, rfl, hw⟩)), rfl⟩
          | false =>
            refine Or.inr ⟨?_, rfl⟩
            rintro (h | h | ⟨_, h⟩ | ⟨lexs', h, h'⟩)
            · exact hp h
            · exact hi h
            · rw [hb] at h; cases h
            · cases h; rw [hw] at h'; cases h'
  · simp only [hlt, if_false]
    cases ck with
    | none =>
      refine Or.inr ⟨?_, rfl⟩
      rintro (h | h | ⟨h, _⟩ | ⟨lexs, h, _⟩)
      · exact hp h
      · exact hi h
      · exact hlt h
      · cases h
    | some lexs =>
      simp only
      cases hw : hasNonBreakWord v lexs input (blen (s.take (extEnd s e0))) with
      | panic => exact absurd hw (hasNonBreakWord_no_panic v hv input _)
      | ok r =>
        cases r with
        | true => exact Or.inl ⟨Or.inr (Or.inr (Or.inr ⟨lexs, rfl, hw⟩)), rfl⟩
        | false =>
          refine Or.inr ⟨?_, rfl⟩
          rintro (h | h | ⟨h, _⟩ | ⟨lexs', h, h'⟩)
          · exact hp h
          · exact hi h
          · exact hlt h
          · cases h; rw [hw] at h'; cases h'

theorem examine_veto_iff {v : CkVariant} {ck : Option (List (List (List Nat)))} (hv : ValidChecker ck)
    (input s : Text) {e0 : Nat} (h0 : 1 ≤ e0) :
    examine v ck input s e0 = .veto ↔ Exempt v ck input s e0 := by
  rcases examine_cases (v := v) hv input s h0 with ⟨h1, h2⟩ | ⟨h1, h2⟩
  · exact ⟨fun _ => h1, fun _ => h2⟩
  · constructor
    · intro h; rw [h2] at h; cases h
    · intro h; exact absurd h h1

/-- with the repaired checker arm, (4) is "inside a multi-character dictionary word" -/
theorem blocked_fix_iff {lexs : List (List (List Nat))} (hv : ValidKeys lexs) (input : Text) (eosB : Nat)
    (hE : ∃ e, eosB = blen (input.take e)) :
    Blocked .fix (some lexs) input eosB ↔ InsideWord lexs input eosB := by
  constructor
  · rintro ⟨l, hl, h⟩
    cases hl
    exact hasNonBreakWord_fix_true h
  · rintro ⟨i, h1, h2, lex, hlex, key, hkey, hne, hpre, h3⟩
    exact ⟨lexs, rfl, hasNonBreakWord_true_of_word .fix hv hlex hkey hne hpre hE h1 h2 h3⟩

/-! ## `get_eos`, exactly -/

theorem matchEnds_pos {s : Text} {e0 : Nat} (h : e0 ∈ matchEnds 0 none 0 s) : 1 ≤ e0 := by
  have := matchEnds_lower _ _ _ _ e0 h; omega

/-- **`get_eos` is non-negative iff** some match of SENTENCE_BREAKER in the window is not exempt; the answer
is the extended end of the FIRST such match. -/
theorem getEos_pos_iff {v : CkVariant} {ck : Option (List (List (List Nat)))} (hv : ValidChecker ck)
    (limit : Nat) (hl : 1 ≤ limit) {input : Text} (hne : input ≠ []) (e : Nat) :
    getEos v limit ck input = .ok (.pos e) ↔
      ∃ e0 ∈ matchEnds 0 none 0 (input.take limit),
        ¬ Exempt v ck input (input.take limit) e0 ∧
        (∀ e0' ∈ matchEnds 0 none 0 (input.take limit), e0' < e0 → Exempt v ck input (input.take limit) e0') ∧
        e = extEnd (input.take limit) e0 := by
  constructor
  · intro h
    have hempty : input.isEmpty = false := by cases input <;> simp_all
    have hscan := scan_eq_findSome (v := v) (ck := ck) (input := input) (s := input.take limit)
      (input.take limit) 0 none 0
    have hsorted := matchEnds_sorted (input.take limit) 0 none 0
    -- `scan` answered `accept e`
    have hsc : scan v ck input (input.take limit) 0 none 0 (input.take limit) = some (.accept e) := by
      unfold getEos at h
      simp only [hempty, Bool.false_eq_true, if_false] at h
      split at h
      · rename_i e' hsc; cases h; exact hsc
      · cases h
      · cases h
      · exfalso
        have hslen : 1 ≤ (input.take limit).length := by
          cases input with
          | nil => exact absurd rfl hne
          | cons c cs => simp only [List.length_take, List.length_cons]; omega
        split at h
        · split at h
          · rename_i e' hsp
            have := spacesEnd_pos _ _ hsp
            simp only [Res.ok.injEq] at h
            exact negOf_pos this h
          · simp only [Res.ok.injEq] at h
            exact negOf_pos hslen h
        · simp only [Res.ok.injEq] at h
          exact negOf_pos hslen h
    rw [hscan] at hsc
    obtain ⟨l₁, a, l₂, hlist, hfa, hnone⟩ := List.findSome?_eq_some_iff.mp hsc
    have ha_mem : a ∈ matchEnds 0 none 0 (input.take limit) := by rw [hlist]; simp
    have ha0 := matchEnds_pos ha_mem
    have hex : examine v ck input (input.take limit) a = .accept e := by
      unfold verdict at hfa
      split at hfa
      · cases hfa
      · simpa using hfa
    refine ⟨a, ha_mem, ?_, ?_, ?_⟩
    · intro hE
      rw [(examine_veto_iff hv input _ ha0).mpr hE] at hex
      cases hex
    · intro e0' hm' hlt
      have hm1 : e0' ∈ l₁ := by
        rw [hlist] at hm' hsorted
        rw [List.mem_append] at hm'
        rcases hm' with hm' | hm'
        · exact hm'
        · exfalso
          rw [List.pairwise_append] at hsorted
          have hp := hsorted.2.1
          rw [List.pairwise_cons] at hp
          simp only [List.mem_cons] at hm'
          rcases hm' with rfl | hm'
          · omega
          · have := hp.1 e0' hm'; omega
      have hv' := hnone e0' hm1
      unfold verdict at hv'
      split at hv'
      · rename_i hveto
        exact (examine_veto_iff hv input _ (matchEnds_pos hm')).mp hveto
      · cases hv'
    · rcases examine_cases (v := v) hv input (input.take limit) ha0 with ⟨_, h2⟩ | ⟨_, h2⟩
      · rw [h2] at hex; cases hex
      · rw [h2] at hex; cases hex; rfl
  · rintro ⟨e0, hm, hnE, hfirst, rfl⟩
    have hnv : examine v ck input (input.take limit) e0 ≠ .veto := by
      intro h; exact hnE ((examine_veto_iff hv input _ (matchEnds_pos hm)).mp h)
    obtain ⟨e0', hm', hle, hres⟩ := first_unvetoed_decides hne hm hnv
    have heq : e0' = e0 := by
      by_cases hlt : e0' < e0
      · exfalso
        have hE := hfirst e0' hm' hlt
        have hveto := (examine_veto_iff hv input _ (matchEnds_pos hm')).mpr hE
        rcases hres with ⟨e, hacc, _⟩ | ⟨hp, _⟩
        · rw [hveto] at hacc; cases hacc
        · rw [hveto] at hp; cases hp
      · omega
    subst heq
    rcases hres with ⟨e, hacc, hg⟩ | ⟨hp, _⟩
    · rcases examine_cases (v := v) hv input (input.take limit) (matchEnds_pos hm) with ⟨h1, _⟩ | ⟨_, h2⟩
      · exact absurd h1 hnE
      · rw [h2] at hacc; cases hacc; exact hg
    · exact absurd hp (examine_no_panic hv (matchEnds_pos hm))

/-- **`get_eos` is negative (no boundary, provisional value) iff** every match of SENTENCE_BREAKER in the
window is exempt — in particular when the window contains no terminator at all (D13: a terminator beyond
the window is not a match in the window). -/
theorem getEos_neg_iff {v : CkVariant} {ck : Option (List (List (List Nat)))} (hv : ValidChecker ck)
    (limit : Nat) (hl : 1 ≤ limit) {input : Text} (hne : input ≠ []) :
    (∃ e, getEos v limit ck input = .ok (.neg e)) ↔
      ∀ e0 ∈ matchEnds 0 none 0 (input.take limit), Exempt v ck input (input.take limit) e0 := by
  constructor
  · rintro ⟨e, h⟩ e0 hm
    apply Classical.byContradiction
    intro hnE
    -- the first non-exempt match would make the answer non-negative
    have hnv : examine v ck input (input.take limit) e0 ≠ .veto := by
      intro hh; exact hnE ((examine_veto_iff hv input _ (matchEnds_pos hm)).mp hh)
    obtain ⟨e0', hm', _, hres⟩ := first_unvetoed_decides hne hm hnv
    rcases hres with ⟨e', _, hg⟩ | ⟨_, hg⟩
    · rw [hg] at h; cases h
    · rw [hg] at h; cases h
  · intro hall
    cases hg : getEos v limit ck input with
    | panic => exact absurd hg (getEos_no_panic hv limit input)
    | ok r =>
      cases r with
      | neg e => exact ⟨e, rfl⟩
      | pos e =>
        obtain ⟨e0, hm, hnE, _⟩ := (getEos_pos_iff hv limit hl hne e).mp hg
        exact absurd (hall e0 hm) hnE

/-! ## the iterator -/

theorem prohibitedBos_nil : prohibitedBos [] = 0 := rfl

theorem extEnd_eq (s : Text) (e0 : Nat) : extEnd s e0 = e0 + prohibitedBos (s.drop e0) := by
  unfold extEnd
  split
  · rfl
  · rw [List.drop_eq_nil_of_le (by omega), prohibitedBos_nil]; rfl

/-- a later match has a later (or the same) extended end -/
theorem extEnd_mono (s : Text) {a b : Nat} (h : a ≤ b) : extEnd s a ≤ extEnd s b := by
  rw [extEnd_eq, extEnd_eq]
  by_cases hc : a + prohibitedBos (s.drop a) ≤ b
  · omega
  · have hd : b - a ≤ spanLen isProhibitedBos (s.drop a) := by unfold prohibitedBos at hc; omega
    have := spanLen_drop isProhibitedBos (s.drop a) (b - a) hd
    rw [List.drop_drop] at this
    have hab : a + (b - a) = b := by omega
    rw [hab] at this
    unfold prohibitedBos
    omega

/-- what every call of `next` saw: a non-negative answer that cuts the sentence off, or — for the last
sentence only — a negative answer on the sentence itself -/
theorem splitFuel_link_all {limit : Nat} {v : CkVariant} {ck : Option (List (List (List Nat)))} (hl : 1 ≤ limit) :
    ∀ (fuel pos : Nat) (rest : Text) (l : List Sent), splitFuel v limit ck fuel pos rest = .ok l →
      ∀ x ∈ l, ∃ pre post, rest = pre ++ x.chunk ++ post ∧ x.chunk ≠ [] ∧
        (getEos v limit ck (x.chunk ++ post) = .ok (.pos x.chunk.length) ∨
         (post = [] ∧ ∃ e, getEos v limit ck x.chunk = .ok (.neg e))) := by
  intro fuel
  induction fuel with
  | zero =>
    intro pos rest l h
    cases rest with
    | nil => simp [splitFuel] at h; subst h; simp
    | cons c cs => simp [splitFuel] at h
  | succ fuel ih =>
    intro pos rest l h
    cases rest with
    | nil => simp [splitFuel] at h; subst h; simp
    | cons c cs =>
      simp only [splitFuel] at h
      split at h
      · cases h
      · rename_i e hg
        cases h
        intro x hx
        simp only [List.mem_singleton] at hx
        subst hx
        exact ⟨[], [], by simp, by simp, Or.inr ⟨rfl, e, hg⟩⟩
      · rename_i e hg
        obtain ⟨l', hr, hl'⟩ := cons_eq_ok h
        subst hl'
        have hb := getEos_pos_bounds hl (by simp) hg
        intro x hx
        simp only [List.mem_cons] at hx
        rcases hx with rfl | hx
        · refine ⟨[], (c :: cs).drop e, by simp, ?_, Or.inl ?_⟩
          · intro hnil
            have h1 : ((c :: cs).take e).length = 0 := by
              have h2 : (c :: cs).take e = [] := hnil
              rw [h2]; rfl
            rw [List.length_take] at h1
            omega
          · have h2 : ((c :: cs).take e).length = e := by rw [List.length_take]; omega
            simp only [List.take_append_drop, h2]
            exact hg
        · obtain ⟨pre, post, hsplit, hne', hge⟩ := ih _ _ _ hr x hx
          refine ⟨(c :: cs).take e ++ pre, post, ?_, hne', hge⟩
          have := List.take_append_drop e (c :: cs)
          rw [hsplit] at this
          simp only [List.append_assoc] at this ⊢
          exact this.symm

end Sentence
