import Sudachi.Proofs.BuildTotal
/-!
# What a failing `read_lexicon` leaves in the builder (C06, `Op.lexIgn`)

`readLexiconP` / `readLexB` = `read_bytes` / `DictBuilder::read_lexicon` together with the state
they leave when they return `Err`.  Lemmas: the POS table only ever grows at its end (ids of
registered POS never change), the rows before the malformed one are exactly what reading them alone
would have pushed, and the surfaces of the entries a builder holds are never dropped or reordered by
a later call — so the rows a failed call kept are rows of the dictionary `compile` emits.
-/
namespace Build

/-! ## the POS table grows at its end -/

theorem posOf_prefix {tab tab' : List PosKey} {k : PosKey} {i : Nat} (h : posOf tab k = .ok (i, tab')) :
    tab <+: tab' := by
  unfold posOf at h
  split at h
  · injection h with h; injection h with _ h2; subst h2; exact List.prefix_refl _
  · split at h
    · simp at h
    · injection h with h; injection h with _ h2; subst h2; exact List.prefix_append _ _

theorem parseSplit_prefix {x : Ext} {tab tab' : List PosKey} {s : Str} {u : SplitUnit}
    (h : parseSplit x tab s = .ok (u, tab')) : tab <+: tab' := by
  unfold parseSplit at h
  split at h
  · split at h
    · injection h with h; injection h with _ h2; subst h2; exact List.prefix_refl _
    · simp at h
  · repeat' (split at h)
    all_goals first
      | (rename_i hp; injection h with h; injection h with _ h2; subst h2; exact posOf_prefix hp)
      | (simp at h)

theorem parseSplitList_prefix {x : Ext} {tab tab' : List PosKey} {ss : List Str} {us : List SplitUnit}
    (h : parseSplitList x tab ss = .ok (us, tab')) : tab <+: tab' := by
  induction ss generalizing tab us tab' with
  | nil => unfold parseSplitList at h; injection h with h; injection h with _ h2; subst h2; exact List.prefix_refl _
  | cons s ss ih =>
    unfold parseSplitList at h
    split at h
    · simp at h
    · rename_i u t1 hu
      split at h
      · simp at h
      · rename_i us' t2 hus
        injection h with h; injection h with _ h2; subst h2
        exact (parseSplit_prefix hu).trans (ih hus)

theorem parseSplits_prefix {x : Ext} {tab tab' : List PosKey} {s : Str} {us : List SplitUnit}
    (h : parseSplits x tab s = .ok (us, tab')) : tab <+: tab' := by
  unfold parseSplits at h
  split at h
  · injection h with h; injection h with _ h2; subst h2; exact List.prefix_refl _
  · split at h
    · simp at h
    · rename_i us' t hl
      split at h
      · simp at h
      · injection h with h; injection h with _ h2; subst h2
        exact parseSplitList_prefix hl

theorem splitListTab_prefix (x : Ext) (tab : List PosKey) (ss : List Str) : tab <+: splitListTab x tab ss := by
  induction ss generalizing tab with
  | nil => exact List.prefix_refl _
  | cons s ss ih =>
    unfold splitListTab
    split
    · exact List.prefix_refl _
    · rename_i u t1 hu
      exact (parseSplit_prefix hu).trans (ih t1)

theorem splitsTab_prefix (x : Ext) (tab : List PosKey) (s : Str) : tab <+: splitsTab x tab s := by
  unfold splitsTab
  split
  · exact List.prefix_refl _
  · exact splitListTab_prefix x tab _

/-- on success `splitListTab` is the table `parse_splits` returns: the two descriptions of the POS
table agree where both apply -/
theorem splitListTab_ok {x : Ext} {tab tab' : List PosKey} {ss : List Str} {us : List SplitUnit}
    (h : parseSplitList x tab ss = .ok (us, tab')) : splitListTab x tab ss = tab' := by
  induction ss generalizing tab us tab' with
  | nil =>
    simp only [parseSplitList, Except.ok.injEq, Prod.mk.injEq] at h
    simp [splitListTab, h.2]
  | cons s ss ih =>
    unfold parseSplitList at h
    split at h
    · simp at h
    · rename_i u t1 hu
      split at h
      · simp at h
      · rename_i us' t2 hus
        injection h with h; injection h with _ h2; subst h2
        unfold splitListTab
        simp only [hu]
        exact ih hus

theorem parseRecord_pos_prefix {v : Variant} {x : Ext} {st st' : LexState} {fs : List Str}
    (h : parseRecord v x st fs = .ok st') : st.pos <+: st'.pos := by
  simp only [parseRecord, bind, Except.bind] at h
  repeat' (split at h; try (exact absurd h (by simp)))
  injection h with h
  subst h
  have hx : ∃ (a b : List SplitUnit) (t0 t1 : List PosKey) (k : PosKey) (p : Nat),
      fld fs 15 (parseSplits x st.pos) = .ok (a, t0) ∧ fld fs 16 (parseSplits x t0) = .ok (b, t1) ∧
      posOf t1 k = .ok (p, _) := ⟨_, _, _, _, _, _, by assumption, by assumption, by assumption⟩
  obtain ⟨a, b, t0, t1, k, p, ha, hb, hp⟩ := hx
  obtain ⟨_, _, ha'⟩ := fld_ok ha
  obtain ⟨_, _, hb'⟩ := fld_ok hb
  exact ((parseSplits_prefix ha').trans (parseSplits_prefix hb')).trans (posOf_prefix hp)

/-- a `parse_record` that failed left every registered POS where it was -/
theorem parseRecordLeft_pos_prefix (v : Variant) (x : Ext) (st : LexState) (fs : List Str) :
    st.pos <+: (parseRecordLeft v x st fs).pos := by
  unfold parseRecordLeft
  split
  · exact List.prefix_refl _
  · split
    · exact List.prefix_refl _
    · split
      · exact splitsTab_prefix ..
      · rename_i hA
        have p1 := parseSplits_prefix hA
        split
        · exact p1
        · split
          · exact p1.trans (splitsTab_prefix ..)
          · rename_i hB
            have p2 := p1.trans (parseSplits_prefix hB)
            split
            · exact p2
            · split
              · exact p2
              · rename_i hP
                have p3 := p2.trans (posOf_prefix hP)
                split <;> exact p3

/-! ## what `read_bytes` pushed -/

/-- reading `recs` successfully appends one entry per record, keeps every registered POS and only
raises the counter -/
theorem readLexicon_kept {v : Variant} {x : Ext} {st st1 : LexState} {recs : List (Nat × List Str)}
    (h : readLexicon v x st recs = .ok st1) :
    (∃ es, es.length = recs.length ∧ st1.entries = st.entries ++ es) ∧ st.pos <+: st1.pos ∧
    st.unresolved ≤ st1.unresolved := by
  induction recs generalizing st with
  | nil => unfold readLexicon at h; injection h with h; subst h; exact ⟨⟨[], rfl, by simp⟩, List.prefix_refl _, Nat.le_refl _⟩
  | cons r rest ih =>
    obtain ⟨line, fs⟩ := r
    unfold readLexicon at h
    split at h
    · simp at h
    · rename_i st' hp
      obtain ⟨⟨es, hl, he⟩, hpos, hun⟩ := ih h
      obtain ⟨e, tab, rfl, _⟩ := parseRecord_ok hp
      have hpp := parseRecord_pos_prefix hp
      refine ⟨⟨e :: es, by simp [hl], by rw [he]; simp⟩, hpp.trans hpos, ?_⟩
      simp only [] at hun
      omega

/-- a `read_bytes` that failed at `line` with `k`: the records split into those before the
malformed one — all of them parsed, giving the state `st1` — the malformed one, which
`parse_record` rejects with `k` in the state `st1`, and the rest, which is never looked at; the
state left is what that `parse_record` left -/
theorem readLexiconP_err {v : Variant} {x : Ext} {st : LexState} {recs : List (Nat × List Str)} {k : ErrKind} {line : Nat}
    (h : (readLexiconP v x st recs).2 = .err k line) :
    ∃ pre bad post st1, recs = pre ++ (line, bad) :: post ∧ readLexicon v x st pre = .ok st1 ∧
      parseRecord v x st1 bad = .error k ∧ (readLexiconP v x st recs).1 = parseRecordLeft v x st1 bad := by
  induction recs generalizing st with
  | nil => simp [readLexiconP] at h
  | cons r rest ih =>
    obtain ⟨l, fs⟩ := r
    unfold readLexiconP at h ⊢
    cases hp : parseRecord v x st fs with
    | error e =>
      simp only [hp, Res.err.injEq] at h
      obtain ⟨rfl, rfl⟩ := h
      exact ⟨[], fs, rest, st, rfl, rfl, hp, rfl⟩
    | ok st' =>
      simp only [hp] at h
      obtain ⟨pre, bad, post, st1, h1, h2, h3, h4⟩ := ih h
      refine ⟨(l, fs) :: pre, bad, post, st1, by rw [h1]; rfl, ?_, h3, h4⟩
      unfold readLexicon
      simp only [hp]
      exact h2

theorem readLexiconP_ok {v : Variant} {x : Ext} {st : LexState} {recs : List (Nat × List Str)}
    (h : (readLexiconP v x st recs).2 = .ok ()) : readLexicon v x st recs = .ok (readLexiconP v x st recs).1 := by
  rw [readLexiconP_result]
  cases hr : readLexiconP v x st recs with
  | mk st' r =>
    rw [hr] at h
    simp only [] at h
    subst h
    rfl

/-- whatever happens, `read_bytes` only appends entries -/
theorem readLexiconP_entries (v : Variant) (x : Ext) (st : LexState) (recs : List (Nat × List Str)) :
    ∃ es, (readLexiconP v x st recs).1.entries = st.entries ++ es := by
  induction recs generalizing st with
  | nil => exact ⟨[], by simp [readLexiconP]⟩
  | cons r rest ih =>
    obtain ⟨l, fs⟩ := r
    unfold readLexiconP
    cases hp : parseRecord v x st fs with
    | error e => exact ⟨[], by simp [(parseRecordLeft_frame v x st fs).1]⟩
    | ok st' =>
      obtain ⟨es, he⟩ := ih st'
      obtain ⟨e, tab, rfl, _⟩ := parseRecord_ok hp
      exact ⟨e :: es, by rw [he]; simp⟩

/-! ## the entries of a builder are never dropped or reordered -/

/-- the surfaces (index keys) of the entries, in order -/
def surfaces (es : List Entry) : List Str := es.map Entry.surface

theorem resolveEntries_surfaces {f : Str → Nat → Option Str → Option Nat} {es rs : List Entry} {line n : Nat}
    (h : resolveEntries f es line = .ok (rs, n)) : surfaces rs = surfaces es := by
  induction es generalizing rs n line with
  | nil => simp [resolveEntries] at h; obtain ⟨rfl, _⟩ := h; rfl
  | cons e es ih =>
    unfold resolveEntries at h
    split at h
    · simp at h
    · split at h
      · simp at h
      · split at h
        · rename_i rs' m hr
          injection h with h; injection h with h1 h2; subst h1
          simp only [surfaces, List.map_cons] at ih ⊢
          rw [ih hr]
        · simp at h
        · simp at h

theorem resolve_surfaces {b b' : Builder} {n : Nat} (h : resolve b = .ok (b', n)) :
    surfaces b'.lex.entries = surfaces b.lex.entries := by
  unfold resolve at h
  split at h
  · injection h with h; injection h with h1 _; subst h1; rfl
  · cases hr : resolveEntries (resolveInline (if b.base.isUser then 1 else 0) b.lex.entries b.base.sysWords) b.lex.entries 0 with
    | err k l => simp [hr] at h
    | panic w => simp [hr] at h
    | ok p =>
      obtain ⟨es, m⟩ := p
      simp only [hr] at h
      injection h with h; injection h with h1 _; subst h1
      exact resolveEntries_surfaces hr

theorem surfaces_append (a b : List Entry) : surfaces a <+: surfaces (a ++ b) := by
  simp only [surfaces, List.map_append]; exact List.prefix_append _ _

theorem runOp_surfaces {v : Variant} {x : Ext} {s s' : Builder × Nat} {op : Op} (h : runOp v x s op = .ok s') :
    surfaces s.1.lex.entries <+: surfaces s'.1.lex.entries := by
  cases op with
  | conn lines =>
    obtain ⟨_, rfl⟩ := runOp_conn h
    rw [(readConnB_frame v s.1 lines).2.1]; exact List.prefix_refl _
  | connIgn lines =>
    obtain ⟨_, rfl⟩ := runOp_connIgn h
    rw [(readConnB_frame v s.1 lines).2.1]; exact List.prefix_refl _
  | lex recs ce =>
    obtain ⟨b, hb, rfl⟩ := runOp_lex h
    unfold readLex at hb
    split at hb
    · rename_i st' hst
      split at hb
      · simp at hb
      · injection hb with hb; subst hb
        obtain ⟨⟨es, _, he⟩, _⟩ := readLexicon_kept hst
        simp only [he]; exact surfaces_append _ _
    · simp at hb
    · simp at hb
  | lexIgn recs ce =>
    obtain ⟨_, rfl⟩ := runOp_lexIgn h
    rcases readLexB_lex v x s.1 recs ce with hl | hl
    · obtain ⟨es, he⟩ := readLexiconP_entries v x s.1.lex recs
      simp only [hl, he]; exact surfaces_append _ _
    · simp only [hl]; exact List.prefix_refl _
  | resolve =>
    obtain ⟨b, n, hb, rfl⟩ := runOp_resolve h
    simp only [resolve_surfaces hb]; exact List.prefix_refl _

theorem runOps_surfaces {v : Variant} {x : Ext} {s s' : Builder × Nat} {ops : List Op} (h : runOps v x s ops = .ok s') :
    surfaces s.1.lex.entries <+: surfaces s'.1.lex.entries := by
  induction ops generalizing s with
  | nil => simp only [runOps, Except.ok.injEq] at h; subst h; exact List.prefix_refl _
  | cons op ops ih =>
    obtain ⟨s1, h1, h2⟩ := runOps_cons h
    exact (runOp_surfaces h1).trans (ih h2)

/-- the calls split at an ignored `read_lexicon`: the builder it was made on, and the rows it left
are rows of the builder `compile` gets -/
theorem prepare_lexIgn {v : Variant} {x : Ext} {inp : Input} {b : Builder} {cnt : Nat}
    {pre post : List Op} {recs : List (Nat × List Str)} {ce : Option Nat}
    (h : prepare v x inp = .ok (b, cnt)) (hops : inp.ops = pre ++ Op.lexIgn recs ce :: post) :
    ∃ b0 c0, runOps v x (Builder.init v inp.base, 0) pre = .ok (b0, c0) ∧
      surfaces (readLexB v x b0 recs ce).1.lex.entries <+: surfaces b.lex.entries := by
  unfold prepare at h
  rw [hops] at h
  obtain ⟨s1, h1, h2⟩ := runOps_append h
  obtain ⟨s2, h3, h4⟩ := runOps_cons h2
  obtain ⟨_, rfl⟩ := runOp_lexIgn h3
  exact ⟨s1.1, s1.2, h1, runOps_surfaces h4⟩

end Build
