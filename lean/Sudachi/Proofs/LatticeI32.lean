import Sudachi.Proofs.Lattice
import Sudachi.Proofs.Total
/-!
# The `i32` lattice of C03 (`Total.buildAll addI32 I32_MAX`) equals the unbounded lattice of C02
under C03's no-overflow side condition

C02's model keeps costs in `Int` and writes `none` for the sentinel `i32::MAX`; C03's model
(`Model/Total.lean`) performs the two checked `i32` additions of `connect_node` and compares with the
sentinel.  Under the hypotheses of `C03.cost_no_overflow_partial` (connection costs and word costs in `i16`,
at most 32767 characters) the two coincide: same rows, same totals (`enc`), same back-pointers, same EOS
result — and no connected total ever equals the sentinel.
-/
namespace Vit
open Total (addI32 I32_MAX I16Conn RowBound RowsInv NodeOk addI32_some asU16)

variable (conn : Nat → Nat → Int)

/-- the `i32` image of a model total -/
def enc : Option Int → Int
  | none => I32_MAX
  | some v => v

/-- an `i32` row represents a model row: same nodes, encoded totals, and no connected total is the sentinel -/
def RowRep (row : List Total.Entry) (frow : List Entry) : Prop :=
  row.map (fun x => (x.node, x.total)) = frow.map (fun ent => (ent.1, enc ent.2)) ∧
  ∀ ent ∈ frow, ∀ v, ent.2 = some v → v ≠ I32_MAX

/-- the `(min_cost, prev_idx.end, prev_idx.index)` state of the `i32` loop for an `argminGo` accumulator -/
def encSt (b : Nat) : Option (Nat × Int) → Int × Nat × Nat
  | none => (I32_MAX, 65535, Total.idxNone)
  | some (j, m) => (m, asU16 b, Total.asU32 j)

theorem connGo_eq (hconn : I16Conn conn) (n : Node) (B D : Int) (hc : -D ≤ n.c ∧ n.c ≤ D)
    (hB : B + 32768 + D < 2147483647) :
    ∀ (row : List Total.Entry) (frow : List Entry) (i : Nat) (best : Option (Nat × Int)),
      RowBound B row → RowRep row frow →
      (∀ j m, best = some (j, m) → -(B + 32768 + D) ≤ m ∧ m ≤ B + 32768 + D) →
      Total.connGo addI32 I32_MAX conn n row i (encSt n.b best) = some (encSt n.b (argminGo conn n frow i best)) ∧
      ∀ j m, argminGo conn n frow i best = some (j, m) → -(B + 32768 + D) ≤ m ∧ m ≤ B + 32768 + D := by
  intro row
  induction row with
  | nil =>
    intro frow i best _ hrep hb
    have : frow = [] := by
      have := hrep.1; simp only [List.map_nil] at this
      exact List.map_eq_nil_iff.mp this.symm
    subst this
    exact ⟨rfl, hb⟩
  | cons l rest ih =>
    intro frow i best hrow hrep hb
    cases frow with
    | nil => have := hrep.1; simp at this
    | cons f frest =>
      obtain ⟨hmap, hns⟩ := hrep
      simp only [List.map_cons, List.cons.injEq, Prod.mk.injEq] at hmap
      obtain ⟨⟨hnode, htot⟩, hmaprest⟩ := hmap
      have hrest : RowBound B rest := fun x hx => hrow x (List.mem_cons_of_mem _ hx)
      have hreprest : RowRep rest frest := ⟨hmaprest, fun ent he => hns ent (List.mem_cons_of_mem _ he)⟩
      have hl := hrow l (List.mem_cons_self ..)
      unfold Total.connGo
      simp only [argminGo]
      cases hf : f.2 with
      | none =>
        rw [hf] at htot
        simp only [enc] at htot
        rw [if_pos htot]
        exact ih frest (i + 1) best hrest hreprest hb
      | some t =>
        rw [hf] at htot
        simp only [enc] at htot
        have hne : l.total ≠ I32_MAX := by rw [htot]; exact hns f (List.mem_cons_self ..) t hf
        rw [if_neg hne]
        have hbd := hl.resolve_left hne
        have hcc := hconn l.node.r n.l
        rw [addI32_some _ _ (by omega) (by omega)]
        simp only []
        rw [addI32_some _ _ (by omega) (by omega)]
        simp only []
        have hnc : l.total + conn l.node.r n.l + n.c = t + conn f.1.r n.l + n.c := by rw [htot, hnode]
        have hncb : -(B + 32768 + D) ≤ t + conn f.1.r n.l + n.c ∧ t + conn f.1.r n.l + n.c ≤ B + 32768 + D := by
          rw [← hnc]; constructor <;> omega
        have hb' : ∀ j m, some (i, t + conn f.1.r n.l + n.c) = some (j, m) →
            -(B + 32768 + D) ≤ m ∧ m ≤ B + 32768 + D := by
          intro j m h; cases h; exact hncb
        rw [hnc]
        cases best with
        | none =>
          have hlt : t + conn f.1.r n.l + n.c < (encSt n.b none).1 := by
            simp only [encSt, Total.I32_MAX]; omega
          rw [if_pos hlt]
          exact ih frest (i + 1) (some (i, t + conn f.1.r n.l + n.c)) hrest hreprest hb'
        | some jm =>
          obtain ⟨j, m⟩ := jm
          simp only [encSt]
          by_cases hlt : t + conn f.1.r n.l + n.c < m
          · simp only [hlt, if_true]
            exact ih frest (i + 1) (some (i, t + conn f.1.r n.l + n.c)) hrest hreprest hb'
          · simp only [hlt, if_false]
            exact ih frest (i + 1) (some (j, m)) hrest hreprest hb

theorem connectNode_eq (hconn : I16Conn conn) (n : Node) (B D : Int) (hc : -D ≤ n.c ∧ n.c ≤ D)
    (hB : B + 32768 + D < 2147483647) (row : List Total.Entry) (frow : List Entry)
    (hrow : RowBound B row) (hrep : RowRep row frow) :
    Total.connectNode addI32 I32_MAX conn row n = some (encSt n.b (argmin conn frow n)) ∧
    ∀ j m, argmin conn frow n = some (j, m) → -(B + 32768 + D) ≤ m ∧ m ≤ B + 32768 + D :=
  connGo_eq conn hconn n B D hc hB row frow 0 none hrow hrep (fun _ _ h => by cases h)

theorem encSt_fst (b : Nat) (o : Option (Nat × Int)) : (encSt b o).1 = enc (o.map (·.2)) := by
  cases o with
  | none => rfl
  | some jm => rfl

/-- the `i32` rows represent the model rows on `0..len` -/
def RowsRep (len : Nat) (rows : Total.Rows) (frows : Rows) : Prop :=
  ∀ e, e ≤ len → ∃ row, rows[e]? = some row ∧ RowRep row (frows e)

theorem reset_rep (len : Nat) : RowsRep len (Total.reset len) init := by
  intro e he
  unfold Total.reset
  rw [Array.getElem?_setIfInBounds]
  by_cases h0 : e = 0
  · subst h0
    refine ⟨[Total.bosEntry], by simp, ?_, ?_⟩
    · simp [init, Total.bosEntry, enc]
    · intro ent hent v hv
      simp only [init, if_true, List.mem_singleton] at hent
      subst hent
      cases hv
      simp [Total.I32_MAX]
  · refine ⟨[], ?_, ?_, ?_⟩
    · rw [if_neg (fun h => h0 h.symm), Array.getElem?_replicate, if_pos (by omega)]
    · simp [init, h0]
    · intro ent hent; simp [init, h0] at hent

theorem insert_rep (hconn : I16Conn conn) (len : Nat) (hlen : len ≤ 32767)
    (rows : Total.Rows) (frows : Rows) (hinv : RowsInv len rows) (hrep : RowsRep len rows frows)
    (n : Node) (hn : NodeOk len n) :
    ∃ rows' ent, Total.insert addI32 I32_MAX conn rows n = .ok (rows', ent) ∧ RowsInv len rows' ∧
      RowsRep len rows' (insert conn frows n) ∧
      ent = ⟨n, enc (connect conn (frows n.b) n), (encSt n.b (argmin conn (frows n.b) n)).2.1,
              (encSt n.b (argmin conn (frows n.b) n)).2.2⟩ := by
  obtain ⟨rows', ent, hins, hinv'⟩ := Total.insert_ok conn hconn len hlen rows hinv n hn
  obtain ⟨h1, h2, h3, h4⟩ := hn
  obtain ⟨rowB, gB, repB⟩ := hrep n.b (by omega)
  obtain ⟨rowE, gE, repE⟩ := hrep n.e h2
  have hbound := hinv.2 n.b rowB gB
  obtain ⟨hcn, hcb⟩ := connectNode_eq conn hconn n ((n.b : Int) * 65536) 32768 ⟨by omega, by omega⟩ (by omega)
    rowB (frows n.b) hbound repB
  have hins2 : Total.insert addI32 I32_MAX conn rows n =
      .ok (rows.setIfInBounds n.e (rowE ++ [⟨n, (encSt n.b (argmin conn (frows n.b) n)).1,
        (encSt n.b (argmin conn (frows n.b) n)).2.1, (encSt n.b (argmin conn (frows n.b) n)).2.2⟩]),
        ⟨n, (encSt n.b (argmin conn (frows n.b) n)).1, (encSt n.b (argmin conn (frows n.b) n)).2.1,
          (encSt n.b (argmin conn (frows n.b) n)).2.2⟩) := by
    unfold Total.insert
    rw [gB]; simp only []
    rw [hcn]; simp only []
    rw [gE]
  rw [hins2] at hins
  simp only [Oov.Outcome.ok.injEq, Prod.mk.injEq] at hins
  obtain ⟨hr, hent⟩ := hins
  have hfst : (encSt n.b (argmin conn (frows n.b) n)).1 = enc (connect conn (frows n.b) n) := by
    rw [encSt_fst, argmin_connect]
  refine ⟨rows', ent, by rw [hins2, hr, hent], hinv', ?_, by rw [← hent, hfst]⟩
  intro e he
  rw [← hr, Array.getElem?_setIfInBounds]
  have hes : n.e < rows.size := by rw [hinv.1]; omega
  by_cases hq : n.e = e
  · subst hq
    rw [if_pos rfl, if_pos hes]
    refine ⟨_, rfl, ?_, ?_⟩
    · simp only [insert, if_true, List.map_append, List.map_cons, List.map_nil, repE.1, hfst]
    · intro ent' hent' v hv
      simp only [insert, if_true] at hent'
      rcases List.mem_append.mp hent' with ho | hnw
      · exact repE.2 ent' ho v hv
      · simp only [List.mem_singleton] at hnw
        subst hnw
        simp only at hv
        obtain ⟨j, hj⟩ := connect_argmin conn (frows n.b) n v hv
        have := hcb j v hj
        simp only [Total.I32_MAX]; omega
  · rw [if_neg hq]
    obtain ⟨row, g, rep⟩ := hrep e he
    refine ⟨row, g, ?_⟩
    have hq' : ¬ e = n.e := fun h => hq h.symm
    simp only [insert, hq', if_false]
    exact rep

theorem buildAll_rep (hconn : I16Conn conn) (len : Nat) (hlen : len ≤ 32767) :
    ∀ (F : List Node) (rows : Total.Rows) (frows : Rows) (acc : List Total.Entry), RowsInv len rows →
      RowsRep len rows frows → (∀ n ∈ F, NodeOk len n) →
      ∃ rows' ents, Total.buildAll addI32 I32_MAX conn F rows acc = .ok (rows', ents) ∧ RowsInv len rows' ∧
        RowsRep len rows' (build conn F frows) := by
  intro F
  induction F with
  | nil => intro rows frows acc hinv hrep _; exact ⟨rows, acc.reverse, rfl, hinv, hrep⟩
  | cons n ns ih =>
    intro rows frows acc hinv hrep hF
    obtain ⟨rows', ent, h1, h2, h3, _⟩ := insert_rep conn hconn len hlen rows frows hinv hrep n (hF n (by simp))
    unfold Total.buildAll
    rw [h1]
    exact ih rows' _ (ent :: acc) h2 h3 (fun m hm => hF m (by simp [hm]))

theorem connectEos_rep (hconn : I16Conn conn) (len : Nat) (hlen : len ≤ 32767)
    (rows : Total.Rows) (frows : Rows) (hinv : RowsInv len rows) (hrep : RowsRep len rows frows) :
    Total.connectEos addI32 I32_MAX conn rows len =
      match argmin conn (frows len) (eosNode len) with
      | none => .err "Disconnect"
      | some (j, v) => .ok (v, len, Total.asU32 j) := by
  have hid : asU16 len = len := Total.asU16_id len (by omega)
  obtain ⟨row, g, rep⟩ := hrep len (Nat.le_refl _)
  have hbound := hinv.2 len row g
  obtain ⟨hcn, hcb⟩ := connectNode_eq conn hconn ⟨len, len, 0, 0, 0⟩ ((len : Int) * 65536) 0 ⟨by simp, by simp⟩
    (by omega) row (frows len) hbound rep
  unfold Total.connectEos Total.eosNode
  simp only [hid, g, hcn, eosNode]
  cases ha : argmin conn (frows len) ⟨len, len, 0, 0, 0⟩ with
  | none => simp [encSt]
  | some jv =>
    obtain ⟨j, v⟩ := jv
    have := hcb j v ha
    have hne : ¬ v = I32_MAX := by simp only [Total.I32_MAX]; omega
    simp only [encSt, hne, if_false, hid]

end Vit
