import Sudachi.Proofs.Sentence
import Sudachi.Proofs.SentenceConv
/-!
# The repaired `Ordering::Equal` arm of `has_non_break_word` (`CkVariant.fix`, property C16)

With the repaired arm the checker's answer is characterised exactly: it lets a break pass iff every
dictionary key found inside the 30-byte look-back ends before the break, or ends at it and is exactly
one character of the input; it vetoes only because of a key that crosses the break or a key of two or
more characters that ends at it.
-/
namespace Sentence

/-! ## `input[i..j].chars().count()` -/

theorem charsToByte_zero (t : Text) : charsToByte t 0 = some 0 := by
  cases t <;> simp [charsToByte]

theorem charsInSlice_zero (t : Text) (j : Nat) : charsInSlice t 0 j = charsToByte t j := by
  cases t <;> simp [charsInSlice]

theorem charsToByte_spec : ∀ (t : Text) (j r : Nat), charsToByte t j = some r →
    ∃ w post, t = w ++ post ∧ blen w = j ∧ w.length = r := by
  intro t
  induction t with
  | nil =>
    intro j r h
    cases j with
    | zero => simp [charsToByte] at h; exact ⟨[], [], rfl, rfl, by simpa using h⟩
    | succ j => simp [charsToByte] at h
  | cons c cs ih =>
    intro j r h
    cases j with
    | zero => simp [charsToByte] at h; exact ⟨[], c :: cs, rfl, rfl, by simpa using h⟩
    | succ j =>
      simp only [charsToByte] at h
      split at h
      · cases h
      · cases hr : charsToByte cs (j + 1 - width c) with
        | none => simp [hr] at h
        | some r' =>
          simp [hr] at h
          obtain ⟨w, post, hs, hb, hl⟩ := ih _ _ hr
          refine ⟨c :: w, post, by simp [hs], ?_, by simp [hl, h]⟩
          simp only [blen, hb]; omega

theorem charsInSlice_spec : ∀ (t : Text) (i j r : Nat), i ≤ j → charsInSlice t i j = some r →
    ∃ pre w post, t = pre ++ w ++ post ∧ blen pre = i ∧ blen w = j - i ∧ w.length = r := by
  intro t
  induction t with
  | nil =>
    intro i j r hij h
    cases i with
    | zero =>
      rw [charsInSlice_zero] at h
      obtain ⟨w, post, hs, hb, hl⟩ := charsToByte_spec _ _ _ h
      exact ⟨[], w, post, by simpa using hs, rfl, by omega, hl⟩
    | succ i => simp [charsInSlice] at h
  | cons c cs ih =>
    intro i j r hij h
    cases i with
    | zero =>
      rw [charsInSlice_zero] at h
      obtain ⟨w, post, hs, hb, hl⟩ := charsToByte_spec _ _ _ h
      exact ⟨[], w, post, by simpa using hs, rfl, by omega, hl⟩
    | succ i =>
      simp only [charsInSlice] at h
      split at h
      · cases h
      · obtain ⟨pre, w, post, hs, hb, hw, hl⟩ := ih _ _ _ (by omega) h
        refine ⟨c :: pre, w, post, by simp [hs], ?_, ?_, hl⟩
        · simp only [blen, hb]; omega
        · omega

theorem charsToByte_append : ∀ (w post : Text), charsToByte (w ++ post) (blen w) = some w.length := by
  intro w
  induction w with
  | nil => intro post; simp [blen, charsToByte_zero]
  | cons c w ih =>
    intro post
    have hw := width_pos c
    have : blen (c :: w) = (width c + blen w - 1) + 1 := by simp only [blen]; omega
    rw [this]
    simp only [List.cons_append, charsToByte]
    have h1 : ¬ (width c + blen w - 1 + 1 < width c) := by omega
    have h2 : width c + blen w - 1 + 1 - width c = blen w := by omega
    simp only [h1, if_false, h2, ih post]
    simp

theorem charsInSlice_append : ∀ (pre w post : Text),
    charsInSlice (pre ++ w ++ post) (blen pre) (blen pre + blen w) = some w.length := by
  intro pre
  induction pre with
  | nil =>
    intro w post
    simp only [blen, List.nil_append, Nat.zero_add, charsInSlice_zero]
    exact charsToByte_append w post
  | cons c pre ih =>
    intro w post
    have hw := width_pos c
    have : blen (c :: pre) = (width c + blen pre - 1) + 1 := by simp only [blen]; omega
    rw [this]
    simp only [List.cons_append, charsInSlice]
    have h1 : ¬ (width c + blen pre - 1 + 1 < width c) := by omega
    have h2 : width c + blen pre - 1 + 1 - width c = blen pre := by omega
    have h3 : width c + blen pre - 1 + 1 + blen w - width c = blen pre + blen w := by omega
    simp only [h1, if_false, h2, h3]
    have := ih w post
    simpa [List.append_assoc] using this

/-- the slice `input[i..i+len]` consists of characters: what `sliceChars` answers -/
theorem sliceChars_spec {input : Text} {i len r : Nat} (h : sliceChars input i (i + len) = some r) :
    ∃ pre w post, input = pre ++ w ++ post ∧ blen pre = i ∧ blen w = len ∧ w.length = r := by
  unfold sliceChars at h
  have : ¬ (i + len < i) := by omega
  simp only [this, if_false] at h
  obtain ⟨pre, w, post, hs, hb, hw, hl⟩ := charsInSlice_spec _ _ _ _ (by omega) h
  exact ⟨pre, w, post, hs, hb, by omega, hl⟩

theorem sliceChars_of_split {pre w post : Text} :
    sliceChars (pre ++ w ++ post) (blen pre) (blen pre + blen w) = some w.length := by
  unfold sliceChars
  have : ¬ (blen pre + blen w < blen pre) := by omega
  simp only [this, if_false]
  exact charsInSlice_append pre w post

/-! ## the inner and the outer loop of the repaired checker -/

/-- the slice at `i` of `len` bytes has at most one character -/
def ShortAt (input : Text) (i len : Nat) : Prop := ∃ r, sliceChars input i (i + len) = some r ∧ r ≤ 1

/-- the slice at `i` of `len` bytes has two or more characters -/
def LongAt (input : Text) (i len : Nat) : Prop := ∃ r, sliceChars input i (i + len) = some r ∧ 2 ≤ r

theorem checkEntries_fix_none {input : Text} {eosB i : Nat} :
    ∀ lens, checkEntries .fix input eosB i lens = none →
      ∀ len ∈ lens, i + len < eosB ∨ (i + len = eosB ∧ ShortAt input i len) := by
  intro lens
  induction lens with
  | nil => intro _ len hl; simp at hl
  | cons a more ih =>
    intro h len hl
    simp only [checkEntries] at h
    split at h
    · cases h
    · split at h
      · rename_i heq
        cases hs : sliceChars input i (i + a) with
        | none => simp [hs] at h
        | some r =>
          simp only [hs] at h
          split at h
          · cases h
          · rename_i hr
            simp only [List.mem_cons] at hl
            rcases hl with rfl | hl
            · exact Or.inr ⟨heq, r, hs, by omega⟩
            · exact ih h len hl
      · simp only [List.mem_cons] at hl
        rcases hl with rfl | hl
        · exact Or.inl (by omega)
        · exact ih h len hl

theorem checkEntries_fix_none_of {input : Text} {eosB i : Nat} :
    ∀ lens, (∀ len ∈ lens, i + len < eosB ∨ (i + len = eosB ∧ ShortAt input i len)) →
      checkEntries .fix input eosB i lens = none := by
  intro lens
  induction lens with
  | nil => intro _; simp [checkEntries]
  | cons a more ih =>
    intro h
    have hrec := ih (fun len hl => h len (by simp [hl]))
    simp only [checkEntries]
    rcases h a (by simp) with hlt | ⟨heq, r, hs, hr⟩
    · have h1 : ¬ (i + a > eosB) := by omega
      have h2 : ¬ (i + a = eosB) := by omega
      simp only [h1, h2, if_false]
      exact hrec
    · subst heq
      have h1 : ¬ (i + a > i + a) := by omega
      have h3 : ¬ (min r 2 > 1) := by omega
      simp only [h1, if_false, if_true, hs, h3]
      exact hrec

/-- the inner loop of the repaired checker never answers `false` itself, and answers `true` only for
a key that crosses the break or a key of two or more characters that ends at it -/
theorem checkEntries_fix_some {input : Text} {eosB i : Nat} :
    ∀ lens res, checkEntries .fix input eosB i lens = some res →
      res ≠ .ok false ∧
      (res = .ok true → ∃ len ∈ lens, eosB < i + len ∨ (i + len = eosB ∧ LongAt input i len)) := by
  intro lens
  induction lens with
  | nil => intro res h; simp [checkEntries] at h
  | cons a more ih =>
    intro res h
    simp only [checkEntries] at h
    split at h
    · rename_i hgt
      cases h
      exact ⟨by simp, fun _ => ⟨a, by simp, Or.inl hgt⟩⟩
    · split at h
      · rename_i heq
        cases hs : sliceChars input i (i + a) with
        | none =>
          simp only [hs, Option.some.injEq] at h
          subst h
          exact ⟨by simp, by intro hc; cases hc⟩
        | some r =>
          simp only [hs] at h
          split at h
          · rename_i hr
            cases h
            exact ⟨by simp, fun _ => ⟨a, by simp, Or.inr ⟨heq, r, hs, by omega⟩⟩⟩
          · obtain ⟨h1, h2⟩ := ih res h
            refine ⟨h1, fun ht => ?_⟩
            obtain ⟨len, hl, hh⟩ := h2 ht
            exact ⟨len, by simp [hl], hh⟩
      · obtain ⟨h1, h2⟩ := ih res h
        refine ⟨h1, fun ht => ?_⟩
        obtain ⟨len, hl, hh⟩ := h2 ht
        exact ⟨len, by simp [hl], hh⟩

theorem nonBreakLoop_fix_false {lexs : List (List (List Nat))} {input : Text} {bytes : List Nat}
    {eosB : Nat} : ∀ is, nonBreakLoop .fix lexs input bytes eosB is = .ok false →
      ∀ i ∈ is, checkEntries .fix input eosB i (lookupLens lexs (bytes.drop i)) = none := by
  intro is
  induction is with
  | nil => intro _ i hi; simp at hi
  | cons a more ih =>
    intro h i hi
    simp only [nonBreakLoop] at h
    split at h
    · rename_i r hce
      subst h
      exact absurd rfl (checkEntries_fix_some _ _ hce).1
    · rename_i hce
      simp only [List.mem_cons] at hi
      rcases hi with rfl | hi
      · exact hce
      · exact ih h i hi

theorem nonBreakLoop_fix_false_of {lexs : List (List (List Nat))} {input : Text} {bytes : List Nat}
    {eosB : Nat} : ∀ is,
      (∀ i ∈ is, checkEntries .fix input eosB i (lookupLens lexs (bytes.drop i)) = none) →
      nonBreakLoop .fix lexs input bytes eosB is = .ok false := by
  intro is
  induction is with
  | nil => intro _; simp [nonBreakLoop]
  | cons a more ih =>
    intro h
    simp only [nonBreakLoop, h a (by simp)]
    exact ih (fun i hi => h i (by simp [hi]))

theorem nonBreakLoop_fix_true {lexs : List (List (List Nat))} {input : Text} {bytes : List Nat}
    {eosB : Nat} : ∀ is, nonBreakLoop .fix lexs input bytes eosB is = .ok true →
      ∃ i ∈ is, checkEntries .fix input eosB i (lookupLens lexs (bytes.drop i)) = some (.ok true) := by
  intro is
  induction is with
  | nil => intro h; simp [nonBreakLoop] at h
  | cons a more ih =>
    intro h
    simp only [nonBreakLoop] at h
    split at h
    · rename_i r hce
      subst h
      exact ⟨a, by simp, hce⟩
    · obtain ⟨i, hi, hh⟩ := ih h
      exact ⟨i, by simp [hi], hh⟩

theorem mem_lookback {eosB i : Nat} :
    i ∈ List.range' (max LOOKUP_BYTE_LENGTH eosB - LOOKUP_BYTE_LENGTH)
        (eosB - (max LOOKUP_BYTE_LENGTH eosB - LOOKUP_BYTE_LENGTH)) ↔
      eosB - LOOKUP_BYTE_LENGTH ≤ i ∧ i < eosB := by
  rw [List.mem_range'_1]
  constructor <;> intro h <;> omega

/-! ## from byte lengths to keys and characters -/

/-- `key` is the UTF-8 form of exactly the one character of `input` that starts at byte `i` -/
def OneCharWordAt (input : Text) (i : Nat) (key : List Nat) : Prop :=
  ∃ pre c post, input = pre ++ c :: post ∧ blen pre = i ∧ key = utf8Enc c

/-- `key` is the UTF-8 form of two or more whole characters of `input` starting at byte `i` -/
def MultiCharWordAt (input : Text) (i : Nat) (key : List Nat) : Prop :=
  ∃ pre w post, input = pre ++ w ++ post ∧ blen pre = i ∧ key = utf8 w ∧ 2 ≤ w.length

/-- what the lookup reports is the length of a non-empty key that is a prefix of the remaining bytes -/
theorem lookup_key {lexs : List (List (List Nat))} {rest : List Nat} {n : Nat}
    (h : n ∈ lookupLens lexs rest) :
    ∃ lex ∈ lexs, ∃ key ∈ lex, key ≠ [] ∧ key <+: rest ∧ key.length = n := by
  rw [mem_lookupLens] at h
  obtain ⟨lex, hlex, hk⟩ := h
  obtain ⟨⟨h1, h2⟩, hmem⟩ := mem_keyLens.mp hk
  have hlen : (rest.take n).length = n := by rw [List.length_take]; omega
  refine ⟨lex, hlex, rest.take n, hmem, ?_, List.take_prefix _ _, hlen⟩
  intro hnil
  rw [hnil] at hlen
  simp at hlen
  omega

theorem utf8_drop_split (pre w post : Text) :
    (utf8 (pre ++ w ++ post)).drop (blen pre) = utf8 w ++ utf8 post := by
  rw [List.append_assoc, utf8_append, utf8_append]
  exact List.drop_left' (utf8_length pre)

theorem prefix_eq_of_length {key a b : List Nat} (hp : key <+: a ++ b) (hl : key.length = a.length) :
    key = a := by
  have ha : a <+: a ++ b := List.prefix_append a b
  have := List.prefix_of_prefix_length_le hp ha (by omega)
  exact this.eq_of_length hl

theorem utf8_singleton (c : Nat) : utf8 [c] = utf8Enc c := by simp [utf8]

/-- a key of `len` bytes found at `i` whose slice is at most one character is that character -/
theorem oneChar_of_short {input : Text} {i : Nat} {key : List Nat} (hne : key ≠ [])
    (hpre : key <+: (utf8 input).drop i) (hs : ShortAt input i key.length) :
    OneCharWordAt input i key := by
  obtain ⟨r, hsl, hr⟩ := hs
  obtain ⟨pre, w, post, hsplit, hb, hw, hl⟩ := sliceChars_spec hsl
  have hklen : 1 ≤ key.length := by
    cases key with
    | nil => exact absurd rfl hne
    | cons a b => simp
  cases w with
  | nil => simp [blen] at hw; omega
  | cons c w' =>
    cases w' with
    | cons d w'' => simp at hl; omega
    | nil =>
      refine ⟨pre, c, post, by simpa using hsplit, hb, ?_⟩
      rw [hsplit, ← hb, utf8_drop_split, utf8_singleton] at hpre
      refine prefix_eq_of_length hpre ?_
      rw [utf8Enc_length]
      simp [blen] at hw
      omega

theorem short_of_oneChar {input : Text} {i : Nat} {key : List Nat} (h : OneCharWordAt input i key) :
    ShortAt input i key.length := by
  obtain ⟨pre, c, post, hs, hb, hk⟩ := h
  refine ⟨1, ?_, Nat.le_refl _⟩
  have := sliceChars_of_split (pre := pre) (w := [c]) (post := post)
  have hw : blen [c] = key.length := by rw [hk, utf8Enc_length]; simp [blen]
  rw [hw, hb] at this
  rw [hs]
  simpa using this

theorem multiChar_of_long {input : Text} {i : Nat} {key : List Nat}
    (hpre : key <+: (utf8 input).drop i) (hs : LongAt input i key.length) :
    MultiCharWordAt input i key := by
  obtain ⟨r, hsl, hr⟩ := hs
  obtain ⟨pre, w, post, hsplit, hb, hw, hl⟩ := sliceChars_spec hsl
  refine ⟨pre, w, post, hsplit, hb, ?_, by omega⟩
  rw [hsplit, ← hb, utf8_drop_split] at hpre
  exact prefix_eq_of_length hpre (by rw [utf8_length]; omega)

/-! ## the repaired checker, characterised -/

/-- **The repaired checker lets a break pass exactly when** every non-empty key found at a byte
offset of the 30-byte look-back ends before the break, or ends at it and is exactly one character of
the input. -/
theorem hasNonBreakWord_fix_false_iff (lexs : List (List (List Nat))) (input : Text) (eosB : Nat) :
    hasNonBreakWord .fix lexs input eosB = .ok false ↔
      ∀ i, eosB - LOOKUP_BYTE_LENGTH ≤ i → i < eosB →
        ∀ lex ∈ lexs, ∀ key ∈ lex, key ≠ [] → key <+: (utf8 input).drop i →
          i + key.length < eosB ∨ (i + key.length = eosB ∧ OneCharWordAt input i key) := by
  unfold hasNonBreakWord
  simp only
  constructor
  · intro h i h1 h2 lex hlex key hkey hkne hpre
    have hce := nonBreakLoop_fix_false _ h i (mem_lookback.mpr ⟨h1, h2⟩)
    rcases checkEntries_fix_none _ hce _ (key_in_lookup hlex hkey hkne hpre) with hlt | ⟨heq, hs⟩
    · exact Or.inl hlt
    · exact Or.inr ⟨heq, oneChar_of_short hkne hpre hs⟩
  · intro h
    apply nonBreakLoop_fix_false_of
    intro i hi
    obtain ⟨h1, h2⟩ := mem_lookback.mp hi
    apply checkEntries_fix_none_of
    intro len hlen
    obtain ⟨lex, hlex, key, hkey, hkne, hpre, hkl⟩ := lookup_key hlen
    subst hkl
    rcases h i h1 h2 lex hlex key hkey hkne hpre with hlt | ⟨heq, ho⟩
    · exact Or.inl hlt
    · exact Or.inr ⟨heq, short_of_oneChar ho⟩

/-- **The repaired checker vetoes a break only because of a multi-character word**: a key found in
the look-back that crosses the break, or a key of two or more characters that ends at it. -/
theorem hasNonBreakWord_fix_true {lexs : List (List (List Nat))} {input : Text} {eosB : Nat}
    (h : hasNonBreakWord .fix lexs input eosB = .ok true) :
    ∃ i, eosB - LOOKUP_BYTE_LENGTH ≤ i ∧ i < eosB ∧
      ∃ lex ∈ lexs, ∃ key ∈ lex, key ≠ [] ∧ key <+: (utf8 input).drop i ∧
        (eosB < i + key.length ∨ (i + key.length = eosB ∧ MultiCharWordAt input i key)) := by
  unfold hasNonBreakWord at h
  simp only at h
  obtain ⟨i, hi, hce⟩ := nonBreakLoop_fix_true _ h
  obtain ⟨h1, h2⟩ := mem_lookback.mp hi
  obtain ⟨len, hlen, hh⟩ := (checkEntries_fix_some _ _ hce).2 rfl
  obtain ⟨lex, hlex, key, hkey, hkne, hpre, hkl⟩ := lookup_key hlen
  subst hkl
  refine ⟨i, h1, h2, lex, hlex, key, hkey, hkne, hpre, ?_⟩
  rcases hh with hgt | ⟨heq, hl⟩
  · exact Or.inl hgt
  · exact Or.inr ⟨heq, multiChar_of_long hpre hl⟩

/-! ## the loop body with a checker -/

/-- the loop body with a checker vetoes only for the four stated reasons (either variant) -/
theorem not_vetoed_of_checker {v : CkVariant} {lexs : List (List (List Nat))} {input s : Text} {e0 : Nat}
    (h1 : parenLevel (s.take e0) = 0) (h2 : isItemizeHeader s = false)
    (h3 : ∀ eos, eos = (if e0 < s.length then e0 + prohibitedBos (s.drop e0) else e0) →
      eos < s.length → isContinuousPhrase s eos ≠ some true)
    (h4 : ∀ eos, eos = (if e0 < s.length then e0 + prohibitedBos (s.drop e0) else e0) →
      hasNonBreakWord v lexs input (blen (s.take eos)) ≠ .ok true) :
    examine v (some lexs) input s e0 ≠ .veto := by
  unfold examine
  have : ¬ parenLevel (s.take e0) > 0 := by omega
  simp only [this, if_false, h2, Bool.false_eq_true]
  generalize heos : (if e0 < s.length then e0 + prohibitedBos (s.drop e0) else e0) = eos
  have h4' := h4 eos heos.symm
  have hck : (match hasNonBreakWord v lexs input (blen (s.take eos)) with
      | .panic => Cand.panic | .ok true => Cand.veto | .ok false => Cand.accept eos) ≠ .veto := by
    cases hw : hasNonBreakWord v lexs input (blen (s.take eos)) with
    | panic => simp
    | ok b =>
      cases b with
      | true => exact absurd hw h4'
      | false => simp
  by_cases hlt : eos < s.length
  · have h3' := h3 eos heos.symm hlt
    simp only [hlt, if_true]
    cases hc : isContinuousPhrase s eos with
    | none => simp
    | some b =>
      cases b with
      | true => exact absurd hc h3'
      | false => exact hck
  · simp only [hlt, if_false]
    exact hck

end Sentence
