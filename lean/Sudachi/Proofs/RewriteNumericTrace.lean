import Sudachi.Proofs.RewriteNumericRun
import Sudachi.Proofs.NumericDenote
import Sudachi.Proofs.NumericBackoff
/-!
# Every `concat` call of the numeral joiner, for every path (generic in the parser `P`)

`nstep_cases`: what one iteration of `rewrite_gen`'s loop can do.  `AccInv`: while a run is open the
characters given to the parser are exactly the normalised forms of the nodes of the run.
`JoinTrace`: the output path arises from the input path by a sequence of `concat_nodes` calls, each
replacing a contiguous block of the CURRENT path by one token whose normalised form is — with
`enableNormalize` — the parser's rendering of the characters of exactly that block (closed with
`done()`), or of that block followed by the one separator that is split off (back-off: `done()` failed
with the matching error state); without `enableNormalize` no rendering is written at all.
-/
namespace RewriteNumeric
open Rewrite

theorem nstep_cases (v : NVariant) (cfg : NCfg) (cat : List Nat) (P : List Char → POut) (st st' : NState)
    (h : nstep v cfg cat P st = .ok st') :
    (st'.path = st.path ∧ st'.beginIdx < 0) ∨
    (st'.path = st.path ∧ ∃ node, st.path[(st.i + 1).toNat]? = some node ∧ st'.i = st.i + 1 ∧
      st'.beginIdx = (if st.beginIdx < 0 then st.i + 1 else st.beginIdx) ∧
      st'.acc = (if st.beginIdx < 0 then [] else st.acc) ++ normForm node ∧
      ¬ (P st'.acc).n < st'.acc.length) ∨
    (st'.beginIdx < 0 ∧ 0 ≤ st.beginIdx ∧ (P st.acc).done = true ∧
      nconcat cfg P st.path st.beginIdx.toNat (st.i + 1).toNat st.acc = .ok st'.path) ∨
    (st'.beginIdx < 0 ∧ 0 ≤ st.beginIdx ∧ (P st.acc).done = false ∧ 1 ≤ (st.i + 1).toNat ∧
      ∃ prev, st.path[(st.i + 1).toNat - 1]? = some prev ∧
        (((P st.acc).err = E_COMMA ∧ normForm prev = [',']) ∨ ((P st.acc).err = E_POINT ∧ normForm prev = ['.'])) ∧
        nconcat cfg P st.path st.beginIdx.toNat ((st.i + 1).toNat - 1) st.acc = .ok st'.path) := by
  unfold nstep at h
  simp only at h
  repeat (any_goals (first
    | split at h
    | (cases h; done)
    | (cases h; left; refine ⟨rfl, ?_⟩; show (-1 : Int) < 0; decide)
    | (cases h; right; left
       refine ⟨rfl, ?n, ?_, rfl, ?_, ?_, ?_⟩ <;> first | assumption | (split <;> first | rfl | omega))
    | (cases h; right; right; left
       refine ⟨?_, ?_, ?_, ?_⟩ <;> first | assumption | (show (-1 : Int) < 0; decide))    ))
  all_goals
    cases h
    right; right; right
    refine ⟨by show (-1 : Int) < 0; decide, by assumption, by simp_all, by omega, _, by assumption, ?_, by assumption⟩
    simp_all


theorem ntail_cases (cfg : NCfg) (P : List Char → POut) (st : NState) (q : List Node)
    (h : ntail cfg P st = .ok q) :
    q = st.path ∨
    (0 ≤ st.beginIdx ∧ (P st.acc).done = true ∧
      nconcat cfg P st.path st.beginIdx.toNat st.path.length st.acc = .ok q) ∨
    (0 ≤ st.beginIdx ∧ (P st.acc).done = false ∧ 1 ≤ st.path.length ∧
      ∃ last, st.path[st.path.length - 1]? = some last ∧
        (((P st.acc).err = E_COMMA ∧ normForm last = [',']) ∨ ((P st.acc).err = E_POINT ∧ normForm last = ['.'])) ∧
        nconcat cfg P st.path st.beginIdx.toNat (st.path.length - 1) st.acc = .ok q) := by
  unfold ntail at h
  simp only at h
  split at h
  · rename_i hb
    split at h
    · rename_i hd
      exact .inr (.inl ⟨hb, hd, h⟩)
    · rename_i hd
      split at h
      · cases h
      · split at h
        · cases h
        · rename_i last hl
          split at h
          · rename_i hs
            refine .inr (.inr ⟨hb, by simpa using hd, by omega, last, hl, ?_, h⟩)
            simpa using hs
          · cases h; exact .inl rfl
  · cases h; exact .inl rfl

/-! ## blocks -/

theorem block_single (path : List Node) (k : Nat) (n : Node) (h : path[k]? = some n) :
    block path k (k + 1) = [n] := by
  unfold block
  rw [show k + 1 - k = 1 by omega, List.take_one, List.head?_drop, h]
  rfl

theorem block_snoc (path : List Node) (b e : Nat) (n : Node) (hbe : b ≤ e) (h : path[e]? = some n) :
    block path b (e + 1) = block path b e ++ [n] := by
  unfold block
  have hlen : e < path.length := by
    rcases Nat.lt_or_ge e path.length with h' | h'
    · exact h'
    · rw [List.getElem?_eq_none h'] at h; cases h
  rw [show e + 1 - b = (e - b) + 1 by omega, List.take_succ, List.getElem?_drop,
    show b + (e - b) = e by omega, h]
  rfl

theorem block_past (path : List Node) (b e : Nat) (he : path.length ≤ e) :
    block path b e = block path b path.length := by
  unfold block
  rw [List.take_of_length_le (by simp; omega), List.take_of_length_le (by simp)]

/-! ## what `concat` returns -/

theorem nconcat_shape (cfg : NCfg) (P : List Char → POut) {path : List Node} {b e : Nat}
    {acc : List Char} {q : List Node} (h : nconcat cfg P path b e acc = .ok q) :
    q = path ∨ ∃ f l, b < e ∧ e ≤ path.length ∧
      q = path.take b ++ mergedNode f l (block path b e)
        (if cfg.enableNormalize then some (P acc).norm else none) :: path.drop e ∧
      (cfg.enableNormalize = false → 1 < e - b) := by
  unfold nconcat at h
  repeat (any_goals (first
    | split at h
    | (dsimp only at h; split at h)
    | (cases h; done)
    | (cases h; left; rfl)
    | (obtain ⟨f', l, hbe, he, _, _, rfl⟩ := concatNodes_ok h
       right
       refine ⟨f', l, hbe, he, ?_, ?_⟩ <;> simp_all)))

/-! ## the trace of `concat` calls -/

/-- one `concat_nodes` call of the numeral joiner: the contiguous block `blk` of the path is replaced
by ONE token; with `enableNormalize` its normalised form is the parser's rendering of the characters
of exactly the block (`tail = []`, the parser was `done()`), or of the block and the ONE separator
node that follows it and is split off (`done()` failed with exactly the error of that separator);
all of these characters were accepted.  Without `enableNormalize` the stored forms are concatenated
(`mergedNode … none`) and at least two nodes are joined. -/
def JoinStep (cfg : NCfg) (P : List Char → POut) (p q : List Node) : Prop :=
  ∃ pre blk post f l tail, p = pre ++ blk ++ post ∧ blk ≠ [] ∧
    q = pre ++ mergedNode f l blk
      (if cfg.enableNormalize then some (P (accOf blk ++ tail)).norm else none) :: post ∧
    (cfg.enableNormalize = false → 2 ≤ blk.length) ∧
    ¬ (P (accOf blk ++ tail)).n < (accOf blk ++ tail).length ∧
    ((tail = [] ∧ (P (accOf blk)).done = true) ∨
     (tail = [','] ∧ post.head?.map normForm = some [','] ∧ (P (accOf blk ++ tail)).done = false ∧
        (P (accOf blk ++ tail)).err = E_COMMA) ∨
     (tail = ['.'] ∧ post.head?.map normForm = some ['.'] ∧ (P (accOf blk ++ tail)).done = false ∧
        (P (accOf blk ++ tail)).err = E_POINT))

/-- reflexive-transitive closure of a one-step relation on paths -/
inductive Steps (S : List Node → List Node → Prop) : List Node → List Node → Prop
  | refl (p : List Node) : Steps S p p
  | step {p p' q : List Node} : S p p' → Steps S p' q → Steps S p q

theorem Steps.mono {S S' : List Node → List Node → Prop} (h : ∀ p q, S p q → S' p q) {p q : List Node}
    (ht : Steps S p q) : Steps S' p q := by
  induction ht with
  | refl p => exact .refl p
  | step hs _ ih => exact .step (h _ _ hs) ih

abbrev JoinTrace (cfg : NCfg) (P : List Char → POut) : List Node → List Node → Prop := Steps (JoinStep cfg P)

/-- while a run is open, the characters given to the parser are the normalised forms of the nodes of
the run, and all of them were accepted -/
def AccInv (P : List Char → POut) (st : NState) : Prop :=
  0 ≤ st.beginIdx →
    st.acc = accOf (block st.path st.beginIdx.toNat (st.i.toNat + 1)) ∧ ¬ (P st.acc).n < st.acc.length

/-- a `concat` call on the block `[b, e)` whose characters (plus `tail`) the parser holds -/
theorem joinStep_of_nconcat (cfg : NCfg) (P : List Char → POut) (path q : List Node) (b e : Nat)
    (tail : List Char) (h : nconcat cfg P path b e (accOf (block path b e) ++ tail) = .ok q)
    (hacc : ¬ (P (accOf (block path b e) ++ tail)).n < (accOf (block path b e) ++ tail).length)
    (ht : (tail = [] ∧ (P (accOf (block path b e))).done = true) ∨
     (tail = [','] ∧ path[e]?.map normForm = some [','] ∧ (P (accOf (block path b e) ++ tail)).done = false ∧
        (P (accOf (block path b e) ++ tail)).err = E_COMMA) ∨
     (tail = ['.'] ∧ path[e]?.map normForm = some ['.'] ∧ (P (accOf (block path b e) ++ tail)).done = false ∧
        (P (accOf (block path b e) ++ tail)).err = E_POINT)) :
    q = path ∨ JoinStep cfg P path q := by
  rcases nconcat_shape cfg P h with rfl | ⟨f, l, hbe, he, rfl, h2⟩
  · exact .inl rfl
  · right
    refine ⟨path.take b, block path b e, path.drop e, f, l, tail, block_decomp path b e (by omega) he, ?_, rfl,
      ?_, hacc, ?_⟩
    · intro hn
      have := block_length path b e he
      rw [hn] at this
      simp at this
      omega
    · intro hn
      rw [block_length path b e he]
      have := h2 hn
      omega
    · rw [List.head?_drop]
      exact ht

theorem nstep_trace (v : NVariant) (cfg : NCfg) (cat : List Nat) (P : List Char → POut) (st st' : NState)
    (h : nstep v cfg cat P st = .ok st') (hinv : NInv3 st) (hacc : AccInv P st)
    (hg : st.i + 1 < st.path.length) :
    AccInv P st' ∧ (st'.path = st.path ∨ JoinStep cfg P st.path st'.path) := by
  obtain ⟨hi, hbi, hbl⟩ := hinv
  rcases nstep_cases v cfg cat P st st' h with ⟨hp, hb⟩ | ⟨hp, node, hn, hi', hb', ha', hok⟩ |
      ⟨hb, hb0, hd, hc⟩ | ⟨hb, hb0, hd, h1, prev, hprev, hsep, hc⟩
  · exact ⟨fun h0 => by omega, .inl hp⟩
  · refine ⟨?_, .inl hp⟩
    intro _
    refine ⟨?_, hok⟩
    rw [ha', hb', hi', hp]
    have e1 : (st.i + 1).toNat + 1 = (st.i + 1).toNat + 1 := rfl
    by_cases hneg : st.beginIdx < 0
    · rw [if_pos hneg, if_pos hneg, block_single _ _ node hn]
      simp [accOf]
    · rw [if_neg hneg, if_neg hneg]
      obtain ⟨hacc1, _⟩ := hacc (by omega)
      have e2 : (st.i + 1).toNat = st.i.toNat + 1 := by omega
      rw [e2] at hn ⊢
      rw [block_snoc _ _ _ node (by omega) hn, accOf_append, ← hacc1]
      simp [accOf]
  · refine ⟨fun h0 => by omega, ?_⟩
    obtain ⟨hacc1, hacc2⟩ := hacc hb0
    have e2 : (st.i + 1).toNat = st.i.toNat + 1 := by omega
    rw [e2] at hc
    have hc' : nconcat cfg P st.path st.beginIdx.toNat (st.i.toNat + 1)
        (accOf (block st.path st.beginIdx.toNat (st.i.toNat + 1)) ++ []) = .ok st'.path := by
      rw [List.append_nil, ← hacc1]; exact hc
    exact joinStep_of_nconcat cfg P _ _ _ _ [] hc' (by rw [List.append_nil, ← hacc1]; exact hacc2)
      (.inl ⟨rfl, by rw [← hacc1]; exact hd⟩)
  · refine ⟨fun h0 => by omega, ?_⟩
    obtain ⟨hacc1, hacc2⟩ := hacc hb0
    have e2 : (st.i + 1).toNat - 1 = st.i.toNat := by omega
    rw [e2] at hc hprev
    have hsplit : st.acc = accOf (block st.path st.beginIdx.toNat st.i.toNat) ++ normForm prev := by
      rw [hacc1, block_snoc _ _ _ prev (by omega) hprev, accOf_append]
      simp [accOf]
    rcases hsep with ⟨he, hs⟩ | ⟨he, hs⟩
    · rw [hs] at hsplit
      rw [hsplit] at hc hacc2 hd he
      exact joinStep_of_nconcat cfg P _ _ _ _ [','] hc hacc2
        (.inr (.inl ⟨rfl, by rw [hprev]; simp [hs], hd, he⟩))
    · rw [hs] at hsplit
      rw [hsplit] at hc hacc2 hd he
      exact joinStep_of_nconcat cfg P _ _ _ _ ['.'] hc hacc2
        (.inr (.inr ⟨rfl, by rw [hprev]; simp [hs], hd, he⟩))

theorem ntail_trace (cfg : NCfg) (P : List Char → POut) (st : NState) (q : List Node)
    (h : ntail cfg P st = .ok q) (hinv : NInv3 st) (hacc : AccInv P st)
    (_hg : ¬ st.i < (st.path.length : Int) - 1) :
    q = st.path ∨ JoinStep cfg P st.path q := by
  obtain ⟨hi, hbi, hbl⟩ := hinv
  rcases ntail_cases cfg P st q h with hp | ⟨hb0, hd, hc⟩ | ⟨hb0, hd, h1, last, hlast, hsep, hc⟩
  · exact .inl hp
  · obtain ⟨hacc1, hacc2⟩ := hacc hb0
    rw [block_past _ _ _ (by omega)] at hacc1
    have hc' : nconcat cfg P st.path st.beginIdx.toNat st.path.length
        (accOf (block st.path st.beginIdx.toNat st.path.length) ++ []) = .ok q := by
      rw [List.append_nil, ← hacc1]; exact hc
    exact joinStep_of_nconcat cfg P _ _ _ _ [] hc' (by rw [List.append_nil, ← hacc1]; exact hacc2)
      (.inl ⟨rfl, by rw [← hacc1]; exact hd⟩)
  · obtain ⟨hacc1, hacc2⟩ := hacc hb0
    rw [block_past _ _ _ (by omega)] at hacc1
    have hsplit : st.acc = accOf (block st.path st.beginIdx.toNat (st.path.length - 1)) ++ normForm last := by
      have hb := block_snoc st.path st.beginIdx.toNat (st.path.length - 1) last (by omega) hlast
      rw [show st.path.length - 1 + 1 = st.path.length by omega] at hb
      rw [hacc1, hb, accOf_append]
      simp [accOf]
    rcases hsep with ⟨he, hs⟩ | ⟨he, hs⟩
    · rw [hs] at hsplit
      rw [hsplit] at hc hacc2 hd he
      exact joinStep_of_nconcat cfg P _ _ _ _ [','] hc hacc2
        (.inr (.inl ⟨rfl, by rw [hlast]; simp [hs], hd, he⟩))
    · rw [hs] at hsplit
      rw [hsplit] at hc hacc2 hd he
      exact joinStep_of_nconcat cfg P _ _ _ _ ['.'] hc hacc2
        (.inr (.inr ⟨rfl, by rw [hlast]; simp [hs], hd, he⟩))

/-- **every `concat` call, every path**: the output of the loop arises from the input by `JoinStep`s -/
theorem nloop_trace (v : NVariant) (cfg : NCfg) (cat : List Nat) (P : List Char → POut) :
    ∀ (fuel : Nat) (st : NState) (q : List Node), NInv3 st → AccInv P st →
      nloop v cfg cat P fuel st = .ok q → JoinTrace cfg P st.path q := by
  intro fuel
  induction fuel with
  | zero => intro st q _ _ h; simp [nloop] at h
  | succ fuel ih =>
    intro st q hinv hacc h
    unfold nloop at h
    split at h
    · rename_i hg
      split at h
      · rename_i st' hs
        have hg' : st.i + 1 < st.path.length := by omega
        obtain ⟨ha', hp⟩ := nstep_trace v cfg cat P st st' hs hinv hacc hg'
        have ht := ih st' q (nstep_inv3 hs hinv hg') ha' h
        rcases hp with hp | hp
        · rw [← hp]; exact ht
        · exact .step hp ht
      all_goals cases h
    · rename_i hg
      rcases ntail_trace cfg P st q h hinv hacc hg with rfl | hp
      · exact .refl _
      · exact .step hp (.refl _)

theorem joinNumeric_trace (v : NVariant) (cfg : NCfg) (cat : List Nat) (P : List Char → POut)
    (path q : List Node) (h : joinNumeric v cfg cat P path = .ok q) : JoinTrace cfg P path q := by
  unfold joinNumeric at h
  exact nloop_trace v cfg cat P _ (nInit path) q ⟨by simp [nInit], by simp [nInit], by simp [nInit]; omega⟩
    (fun h0 => by simp [nInit] at h0) h

/-! ## with the parser model inside -/

/-- what `done() = true` of the parameter means for the parser model -/
theorem numericP_done_inv (v : Numeric.Variant) (s : List Char) (h : (numericP v s).done = true) :
    ∃ n q, Numeric.Parser.new.feed v s 0 = (n, true, q) ∧ (q.done v).1 = true := by
  unfold numericP at h
  rcases hf : Numeric.Parser.new.feed v s 0 with ⟨n, ok, p⟩
  rw [hf] at h
  cases ok
  · simp at h
  · refine ⟨n, p, rfl, ?_⟩
    simp only at h
    rcases hd : p.done v with ⟨d, q⟩
    rw [hd] at h
    simpa using h

/-- a run of nodes that writes a well-formed numeral: every node is a numeral candidate by class
(NUMERIC / KANJINUMERIC on all of its characters) or a separator by normalised form, the normalised
forms concatenated are the rendering of a well-formed numeral AST whose terms fit, the first node has
the numeral part of speech (the plugin's gate); `bytes` / `hwl` are the two arithmetic side conditions
under which `concat_nodes` does not panic (byte range not inverted, head-word length within `u16`) -/
structure NumeralRun (cfg : NCfg) (cat : List Nat) (f : Node) (R : List Node) (a : Numeric.Numeral) : Prop where
  cand : ∀ n ∈ f :: R, ∃ ct, catOfRange cat n.b n.e = some ct ∧
    (isNumericCat ct = true ∨ normForm n = [','] ∨ normForm n = ['.'])
  text : accOf (f :: R) = Numeric.render a
  wf : a.WF
  fits : a.Fits
  pos : f.pos = cfg.numPos
  bytes : f.bb ≤ (lastOf f R).eb
  hwl : sumHwl (f :: R) < 65536

/-- the token the joiner makes of a `NumeralRun` -/
def numeralTok (cfg : NCfg) (v : Numeric.Variant) (f : Node) (R : List Node) (a : Numeric.Numeral) : Node :=
  if cfg.enableNormalize then
    if R ≠ [] ∨ Numeric.canon v a ≠ normForm f then
      mergedNode f (lastOf f R) (f :: R) (some (Numeric.canon v a))
    else f
  else if R ≠ [] then mergedNode f (lastOf f R) (f :: R) none
  else f

theorem runOK_of_numeralRun (v : Numeric.Variant) (cfg : NCfg) (cat : List Nat) (f : Node) (R : List Node)
    (a : Numeric.Numeral) (h : NumeralRun cfg cat f R a) :
    RunOK cfg cat (numericP v) f R ∧ joinedTok cfg (numericP v) f R = numeralTok cfg v f R a := by
  have hp := Numeric.parse_render_canon v a h.wf h.fits
  rw [← h.text] at hp
  obtain ⟨⟨n, q, hfeed⟩, _, hdone, hnorm⟩ := numericP_of_parse v _ _ hp
  refine ⟨⟨?_, ?_, hdone, h.pos, h.bytes, h.hwl⟩, ?_⟩
  · intro m hm
    obtain ⟨ct, hct, hc⟩ := h.cand m hm
    refine ⟨ct, hct, ?_⟩
    unfold isCand
    rcases hc with hc | hc | hc <;> simp [hc]
  · intro k _
    have hsplit : accOf (f :: R) = accOf ((f :: R).take (k + 1)) ++ accOf ((f :: R).drop (k + 1)) := by
      rw [← accOf_append, List.take_append_drop]
    rw [hsplit] at hfeed
    rw [numericP_prefix v _ _ n q hfeed]
    omega
  · unfold joinedTok numeralTok
    rw [hnorm]

/-- `numericP` in terms of the parser after an accepted `feed` -/
theorem numericP_of_feed (v : Numeric.Variant) (s : List Char) (n : Nat) (q : Numeric.Parser)
    (h : Numeric.Parser.new.feed v s 0 = (n, true, q)) :
    numericP v s = { n := n, err := (q.done v).2.err.code, done := (q.done v).1,
                     norm := match (q.done v).2.getNormalized v with
                       | some r => r
                       | none => [] } := by
  unfold numericP
  rw [h]
  simp only
  rcases q.done v with ⟨d, q'⟩
  rfl

theorem numericP_of_reject (v : Numeric.Variant) (s : List Char) (n : Nat) (q : Numeric.Parser)
    (h : Numeric.Parser.new.feed v s 0 = (n, false, q)) : (numericP v s).n = n := by
  unfold numericP
  rw [h]

/-- **the trailing-separator back-off, on the parameter** (repair F6): all of `t ++ [sep]` accepted and
`done()` fails with exactly the error of `sep` ⇒ `t` alone is accepted, `done()` holds, same rendering -/
theorem numericP_backoff (v : Numeric.Variant) (h6 : v.f6 = true) (t : List Char) (sep : Char) (e : Nat)
    (hs : sep = ',' ∧ e = E_COMMA ∨ sep = '.' ∧ e = E_POINT)
    (hn : ¬ (numericP v (t ++ [sep])).n < (t ++ [sep]).length)
    (he : (numericP v (t ++ [sep])).err = e) :
    ∃ n q, Numeric.Parser.new.feed v t 0 = (n, true, q) ∧ (q.done v).1 = true ∧
      (numericP v t).norm = (numericP v (t ++ [sep])).norm := by
  rcases hft : Numeric.Parser.new.feed v t 0 with ⟨m, ok, q⟩
  have hfa := Numeric.feed_append v t [sep] Numeric.Parser.new 0
  rw [hft] at hfa
  cases ok
  · exfalso
    simp only at hfa
    have h1 := numericP_of_reject v _ m q hfa
    have h2 := Numeric.feed_reject_lt v t _ 0 m q hft
    simp only [List.length_append, List.length_cons, List.length_nil] at hn
    omega
  · have hm := Numeric.feed_ok_length v t _ 0 m q hft
    simp only at hfa
    rcases ha : q.append v sep with ⟨ok2, p'⟩
    have hf1 : q.feed v [sep] m = if ok2 then (m + 1, true, p') else (m, false, p') := by
      simp only [Numeric.Parser.feed, ha]
      cases ok2 <;> rfl
    rw [hf1] at hfa
    cases ok2
    · exfalso
      simp only [Bool.false_eq_true, if_false] at hfa
      have h1 := numericP_of_reject v _ m p' hfa
      simp only [List.length_append, List.length_cons, List.length_nil] at hn
      omega
    · simp only [if_true] at hfa
      have hq : Numeric.BackInv q :=
        Numeric.feed_invariant v Numeric.BackInv (Numeric.backInv_step v) t _ 0 m q Numeric.backInv_new hft
      rw [numericP_of_feed v _ _ p' hfa] at he ⊢
      simp only at he
      have herr : (sep = ',' ∧ (p'.done v).2.err = .comma) ∨ (sep = '.' ∧ (p'.done v).2.err = .point) := by
        rcases hs with ⟨h1, h2⟩ | ⟨h1, h2⟩
        · left
          refine ⟨h1, ?_⟩
          rw [h2] at he
          cases hx : (p'.done v).2.err <;> rw [hx] at he <;> simp [Numeric.Err.code, E_COMMA] at he ⊢
        · right
          refine ⟨h1, ?_⟩
          rw [h2] at he
          cases hx : (p'.done v).2.err <;> rw [hx] at he <;> simp [Numeric.Err.code, E_POINT] at he ⊢
      obtain ⟨hd, hg⟩ := Numeric.done_without_sep v h6 q hq sep p' ha herr
      refine ⟨m, q, rfl, hd, ?_⟩
      rw [numericP_of_feed v _ _ q hft]
      simp only
      rw [hg]

end RewriteNumeric
