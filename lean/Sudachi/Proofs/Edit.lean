import Sudachi.Model.Edit
/-!
# Proofs about `resolve_edits` and the offset tables (C01, C08)
-/
namespace EditM

variable {β : Type}

def Mono (l : List Nat) : Prop := l.Pairwise (· ≤ ·)

/-- edits sorted, non-overlapping, inside the text (`n` = text length = index of the sentinel) -/
def EditsOk (n : Nat) : Nat → List (Edit β) → Prop
  | start, [] => start ≤ n
  | start, ed :: es => start ≤ ed.s ∧ ed.s ≤ ed.e ∧ ed.e ≤ n ∧ EditsOk n ed.e es

theorem mono_append {a b : List Nat} (ha : Mono a) (hb : Mono b)
    (h : ∀ x ∈ a, ∀ y ∈ b, x ≤ y) : Mono (a ++ b) :=
  List.pairwise_append.mpr ⟨ha, hb, h⟩

theorem valAt_eq (l : List (P β)) (i : Nat) (h : i < l.length) : valAt l i = (l[i]).2 := by
  simp [valAt, List.getElem?_eq_getElem h]

theorem mono_valAt {l : List (P β)} (hm : Mono (snds l)) {i j : Nat} (hij : i ≤ j) (hj : j < l.length) :
    valAt l i ≤ valAt l j := by
  rw [valAt_eq l i (by omega), valAt_eq l j hj]
  rcases Nat.lt_or_eq_of_le hij with h | h
  · have := List.pairwise_iff_getElem.mp hm i j (by simp [snds]; omega) (by simp [snds]; exact hj) h
    simpa [snds] using this
  · subst h; exact Nat.le_refl _

theorem mem_slice_snd {l : List (P β)} {a b : Nat} {p : P β} (h : p ∈ slice l a b) :
    ∃ i, a ≤ i ∧ i < b ∧ i < l.length ∧ p = l[i]! := by
  unfold slice at h
  obtain ⟨k, hk, rfl⟩ := List.getElem_of_mem h
  simp at hk
  refine ⟨a + k, by omega, by omega, by omega, ?_⟩
  simp [List.getElem_take, List.getElem_drop, getElem!_pos, show a + k < l.length by omega]

theorem mem_slice_mem {l : List α} {a b : Nat} {p : α} (h : p ∈ slice l a b) : p ∈ l :=
  List.mem_of_mem_drop (List.mem_of_mem_take h)

theorem mono_slice {l : List (P β)} (hm : Mono (snds l)) (a b : Nat) : Mono (snds (slice l a b)) := by
  unfold Mono snds slice at *
  rw [List.map_take, List.map_drop]
  exact (hm.sublist (List.drop_sublist _ _)).sublist (List.take_sublist _ _)

theorem snds_repl (l : List (P β)) (ed : Edit β) :
    snds (repl l ed) = match ed.w with
      | [] => []
      | _ :: bs => valAt l ed.s :: List.replicate bs.length (valAt l ed.e) := by
  unfold repl snds
  cases ed.w with
  | nil => rfl
  | cons b bs => simp [List.map_map, Function.comp_def, List.map_const']

theorem mem_repl_bounds {l : List (P β)} (hm : Mono (snds l)) (ed : Edit β)
    (hse : ed.s ≤ ed.e) (he : ed.e < l.length) :
    ∀ x ∈ snds (repl l ed), valAt l ed.s ≤ x ∧ x ≤ valAt l ed.e := by
  intro x hx
  rw [snds_repl] at hx
  have hle := mono_valAt hm hse he
  cases hw : ed.w with
  | nil => simp [hw] at hx
  | cons b bs =>
    simp [hw] at hx
    rcases hx with rfl | ⟨_, rfl⟩
    · exact ⟨Nat.le_refl _, hle⟩
    · exact ⟨hle, Nat.le_refl _⟩

theorem mono_repl {l : List (P β)} (hm : Mono (snds l)) (ed : Edit β)
    (hse : ed.s ≤ ed.e) (he : ed.e < l.length) : Mono (snds (repl l ed)) := by
  rw [snds_repl]
  have hle := mono_valAt hm hse he
  cases hw : ed.w with
  | nil => simp [Mono]
  | cons b bs =>
    simp only [Mono, List.pairwise_cons]
    refine ⟨?_, ?_⟩
    · intro y hy; simp at hy; rw [hy.2]; exact hle
    · exact List.pairwise_replicate.mpr (Or.inr (Nat.le_refl _))


/-! ### the loop invariant -/

theorem go_mono (l : List (P β)) (n : Nat) (hn : n + 1 = l.length) (hm : Mono (snds l)) :
    ∀ (es : List (Edit β)) (start : Nat) (acc : List (P β)),
      EditsOk n start es → Mono (snds acc) → (∀ x ∈ snds acc, x ≤ valAt l start) →
      Mono (snds (go l start es acc)) := by
  intro es
  induction es with
  | nil =>
    intro start acc hok hacc hb
    simp only [go, EditsOk] at hok ⊢
    simp only [snds, List.map_append] at hacc hb ⊢
    apply mono_append hacc
    · unfold Mono at *; rw [List.map_drop]; exact hm.sublist (List.drop_sublist _ _)
    · intro x hx y hy
      rw [List.map_drop] at hy
      obtain ⟨k, hk, rfl⟩ := List.getElem_of_mem hy
      simp at hk
      have h1 := hb x hx
      have h2 : valAt l start ≤ valAt l (start + k) := mono_valAt hm (by omega) (by omega)
      rw [valAt_eq l (start + k) (by omega)] at h2
      simp only [List.getElem_drop, List.getElem_map]
      omega
  | cons ed es ih =>
    intro start acc hok hacc hb
    obtain ⟨h1, h2, h3, h4⟩ := hok
    simp only [go]
    have he : ed.e < l.length := by omega
    apply ih ed.e _ h4
    · -- Mono
      simp only [snds, List.map_append] at hacc hb ⊢
      apply mono_append
      · apply mono_append hacc (mono_slice hm _ _)
        intro x hx y hy
        obtain ⟨p, hp, rfl⟩ := List.mem_map.mp hy
        obtain ⟨i, hi1, hi2, hi3, rfl⟩ := mem_slice_snd hp
        have := mono_valAt hm hi1 hi3
        rw [valAt_eq l i hi3] at this
        simp only [getElem!_pos, hi3]
        exact Nat.le_trans (hb x hx) this
      · exact mono_repl hm ed h2 he
      · intro x hx y hy
        have hy' := (mem_repl_bounds hm ed h2 he y hy).1
        rcases List.mem_append.mp hx with hx | hx
        · exact Nat.le_trans (Nat.le_trans (hb x hx) (mono_valAt hm h1 (by omega))) hy'
        · obtain ⟨p, hp, rfl⟩ := List.mem_map.mp hx
          obtain ⟨i, hi1, hi2, hi3, rfl⟩ := mem_slice_snd hp
          have := mono_valAt hm (Nat.le_of_lt hi2) (by omega : ed.s < l.length)
          rw [valAt_eq l i hi3] at this
          simp only [getElem!_pos, hi3]
          exact Nat.le_trans this hy'
    · -- bound
      intro x hx
      simp only [snds, List.map_append] at hx hb
      rcases List.mem_append.mp hx with hx | hx
      · rcases List.mem_append.mp hx with hx | hx
        · exact Nat.le_trans (hb x hx) (mono_valAt hm (by omega) he)
        · obtain ⟨p, hp, rfl⟩ := List.mem_map.mp hx
          obtain ⟨i, hi1, hi2, hi3, rfl⟩ := mem_slice_snd hp
          have := mono_valAt hm (by omega : i ≤ ed.e) he
          rw [valAt_eq l i hi3] at this
          simp only [getElem!_pos, hi3]
          exact this
      · exact (mem_repl_bounds hm ed h2 he x hx).2

theorem mono_force0 (l : List (P β)) (h : Mono (snds l)) : Mono (snds (force0 l)) := by
  cases l with
  | nil => exact h
  | cons p r =>
    obtain ⟨b, v⟩ := p
    simp only [force0, snds, List.map, Mono, List.pairwise_cons] at h ⊢
    exact ⟨fun _ _ => Nat.zero_le _, h.2⟩

/-- monotonicity of the rebuilt map (one batch) -/
theorem resolve_mono (l : List (P β)) (n : Nat) (hn : n + 1 = l.length) (hm : Mono (snds l))
    (es : List (Edit β)) (hok : EditsOk n 0 es) : Mono (snds (resolve l es)) := by
  apply mono_force0
  apply go_mono l n hn hm es 0 [] hok
  · simp [Mono, snds]
  · intro x hx; simp [snds] at hx

/-! ### character boundaries are sent to character boundaries -/

variable (st : β → Bool) (Bo : Nat → Prop)

def Q (p : P β) : Prop := match p.1 with
  | some b => st b = true → Bo p.2
  | none => Bo p.2

def isB (p : P β) : Prop := match p.1 with
  | some b => st b = true
  | none => True

def EditsB (l : List (P β)) (es : List (Edit β)) : Prop :=
  ∀ ed ∈ es, (∀ h : ed.s < l.length, isB st l[ed.s]) ∧ (∀ h : ed.e < l.length, isB st l[ed.e])

theorem bo_of_boundary (l : List (P β)) (hq : ∀ p ∈ l, Q st Bo p) (i : Nat) (hi : i < l.length)
    (hb : isB st l[i]) : Bo (valAt l i) := by
  rw [valAt_eq l i hi]
  have := hq l[i] (List.getElem_mem hi)
  unfold Q at this; unfold isB at hb
  cases h : (l[i]).1 with
  | none => simpa [h] using this
  | some b => simp [h] at this hb; exact this hb

theorem q_repl (l : List (P β)) (ed : Edit β) (hs : Bo (valAt l ed.s)) (he : Bo (valAt l ed.e)) :
    ∀ p ∈ repl l ed, Q st Bo p := by
  intro p hp
  unfold repl at hp
  cases hw : ed.w with
  | nil => simp [hw] at hp
  | cons b bs =>
    simp [hw] at hp
    rcases hp with rfl | ⟨c, _, rfl⟩
    · simp [Q]; intro _; exact hs
    · simp [Q]; intro _; exact he

theorem go_q (l : List (P β)) (n : Nat) (hn : n + 1 = l.length) (hq : ∀ p ∈ l, Q st Bo p) :
    ∀ (es : List (Edit β)) (start : Nat) (acc : List (P β)),
      EditsOk n start es → EditsB st l es → (∀ p ∈ acc, Q st Bo p) →
      ∀ p ∈ go l start es acc, Q st Bo p := by
  intro es
  induction es with
  | nil =>
    intro start acc _ _ hacc p hp
    simp only [go] at hp
    rcases List.mem_append.mp hp with hp | hp
    · exact hacc p hp
    · exact hq p (List.mem_of_mem_drop hp)
  | cons ed es ih =>
    intro start acc hok hb hacc p hp
    obtain ⟨h1, h2, h3, h4⟩ := hok
    simp only [go] at hp
    have hbe := hb ed (by simp)
    have hs : ed.s < l.length := by omega
    have he : ed.e < l.length := by omega
    refine ih ed.e _ h4 (fun ed' h' => hb ed' (by simp [h'])) ?_ p hp
    intro q hqm
    rcases List.mem_append.mp hqm with hqm | hqm
    · rcases List.mem_append.mp hqm with hqm | hqm
      · exact hacc q hqm
      · exact hq q (mem_slice_mem hqm)
    · exact q_repl st Bo l ed (bo_of_boundary st Bo l hq ed.s hs (hbe.1 hs))
        (bo_of_boundary st Bo l hq ed.e he (hbe.2 he)) q hqm

theorem q_force0 (l : List (P β)) (h0 : Bo 0) (h : ∀ p ∈ l, Q st Bo p) : ∀ p ∈ force0 l, Q st Bo p := by
  cases l with
  | nil => exact h
  | cons p r =>
    obtain ⟨b, v⟩ := p
    intro q hqm
    simp only [force0, List.mem_cons] at hqm
    rcases hqm with rfl | hqm
    · cases b <;> simp [Q] <;> intros <;> exact h0
    · exact h q (by simp [hqm])

/-- every character boundary of the rewritten text is mapped to a character boundary of the original (one batch) -/
theorem resolve_boundaries (l : List (P β)) (n : Nat) (hn : n + 1 = l.length)
    (hq : ∀ p ∈ l, Q st Bo p) (h0 : Bo 0)
    (es : List (Edit β)) (hok : EditsOk n 0 es) (hb : EditsB st l es) :
    ∀ p ∈ resolve l es, Q st Bo p :=
  q_force0 st Bo _ h0 (go_q st Bo l n hn hq es 0 [] hok hb (by simp))



/-! ### shape: text bytes followed by exactly one sentinel entry, which keeps its value -/

def AllSome (l : List (P β)) : Prop := ∀ p ∈ l, p.1.isSome = true

/-- `l` is `body ++ [sentinel N]` with a sentinel-free body -/
def Shape (N : Nat) (l : List (P β)) : Prop := ∃ body, l = body ++ [(none, N)] ∧ AllSome body

theorem allSome_append {a b : List (P β)} (ha : AllSome a) (hb : AllSome b) : AllSome (a ++ b) := by
  intro p hp; rcases List.mem_append.mp hp with h | h
  · exact ha p h
  · exact hb p h

theorem allSome_repl (l : List (P β)) (ed : Edit β) : AllSome (repl l ed) := by
  intro p hp
  unfold repl at hp
  cases hw : ed.w with
  | nil => simp [hw] at hp
  | cons b bs =>
    simp [hw] at hp
    rcases hp with rfl | ⟨c, _, rfl⟩ <;> rfl

theorem slice_body {body : List (P β)} {s : P β} {a b : Nat} (hb : b ≤ body.length) :
    slice (body ++ [s]) a b = slice body a b := by
  unfold slice
  by_cases h : a ≤ b
  · rw [List.drop_append_of_le_length (by omega), List.take_append_of_le_length (by simp; omega)]
  · have : b - a = 0 := by omega
    simp [this]

theorem allSome_slice {body : List (P β)} (h : AllSome body) (a b : Nat) : AllSome (slice body a b) :=
  fun p hp => h p (mem_slice_mem hp)

theorem go_shape (N : Nat) (body : List (P β)) (hb : AllSome body) :
    ∀ (es : List (Edit β)) (start : Nat) (acc : List (P β)),
      EditsOk body.length start es → AllSome acc →
      ∃ body', go (body ++ [(none, N)]) start es acc = body' ++ [(none, N)] ∧ AllSome body' := by
  intro es
  induction es with
  | nil =>
    intro start acc hok hacc
    simp only [EditsOk] at hok
    refine ⟨acc ++ body.drop start, ?_, allSome_append hacc (fun p hp => hb p (List.mem_of_mem_drop hp))⟩
    simp only [go]
    rw [List.drop_append_of_le_length hok, List.append_assoc]
  | cons ed es ih =>
    intro start acc hok hacc
    obtain ⟨h1, h2, h3, h4⟩ := hok
    simp only [go]
    apply ih ed.e _ h4
    apply allSome_append
    · apply allSome_append hacc
      rw [slice_body (by omega)]
      exact allSome_slice hb _ _
    · exact allSome_repl _ _

theorem force0_append {a : List (P β)} (ha : a ≠ []) (b : List (P β)) :
    force0 (a ++ b) = force0 a ++ b := by
  cases a with
  | nil => exact absurd rfl ha
  | cons p r => obtain ⟨x, v⟩ := p; rfl

theorem allSome_force0 {a : List (P β)} (h : AllSome a) : AllSome (force0 a) := by
  cases a with
  | nil => exact h
  | cons p r =>
    obtain ⟨x, v⟩ := p
    intro q hq
    simp only [force0, List.mem_cons] at hq
    rcases hq with rfl | hq
    · exact h (x, v) (by simp)
    · exact h q (by simp [hq])

theorem textOf_append (a b : List (P β)) : textOf (a ++ b) = textOf a ++ textOf b := by
  simp [textOf, List.filterMap_append]

theorem textOf_force0 (a : List (P β)) : textOf (force0 a) = textOf a := by
  cases a with
  | nil => rfl
  | cons p r => obtain ⟨x, v⟩ := p; simp [force0, textOf, List.filterMap_cons]

theorem textOf_allSome_length {a : List (P β)} (h : AllSome a) : (textOf a).length = a.length := by
  induction a with
  | nil => rfl
  | cons p r ih =>
    obtain ⟨x, v⟩ := p
    have hx := h (x, v) (by simp)
    cases x with
    | none => simp at hx
    | some b =>
      simp only [textOf, List.filterMap_cons, List.length_cons] at ih ⊢
      rw [ih (fun q hq => h q (by simp [hq]))]

theorem textOf_shape {N : Nat} {body : List (P β)} :
    textOf (body ++ [(none, N)]) = textOf body := by
  simp [textOf]

/-- one batch keeps the shape, provided the rewritten text is not empty -/
theorem resolve_shape (N : Nat) (l : List (P β)) (hs : Shape N l)
    (es : List (Edit β)) (hok : EditsOk (l.length - 1) 0 es) (hne : textOf (resolve l es) ≠ []) :
    Shape N (resolve l es) := by
  obtain ⟨body, rfl, hb⟩ := hs
  have hlen : (body ++ [((none : Option β), N)]).length - 1 = body.length := by simp
  rw [hlen] at hok
  obtain ⟨body', h1, h2⟩ := go_shape N body hb es 0 [] hok (by intro p hp; cases hp)
  have hne' : body' ≠ [] := by
    intro hnil
    apply hne
    unfold resolve
    rw [h1, hnil]
    simp [force0, textOf]
  refine ⟨force0 body', ?_, allSome_force0 h2⟩
  unfold resolve
  rw [h1, force0_append hne']

/-! ### the invariant of the offset map and its preservation by every committed batch -/

/-- What `m2o` satisfies between edit batches.  `N` = length of the original text, `st` marks
first bytes of characters, `Bo` = "is a character boundary of the original text". -/
structure Inv (st : β → Bool) (Bo : Nat → Prop) (N : Nat) (l : List (P β)) : Prop where
  shape : Shape N l
  nonempty : textOf l ≠ []
  mono : Mono (snds l)
  bnd : ∀ p ∈ l, Q st Bo p
  first : valAt l 0 = 0

theorem valAt_force0_zero (a : List (P β)) (h : a ≠ []) : valAt (force0 a) 0 = 0 := by
  cases a with
  | nil => exact absurd rfl h
  | cons p r => obtain ⟨x, v⟩ := p; simp [force0, valAt]

theorem shape_length {N : Nat} {l : List (P β)} (h : Shape N l) : (textOf l).length + 1 = l.length := by
  obtain ⟨body, rfl, hb⟩ := h
  rw [textOf_shape, textOf_allSome_length hb]; simp

/-- one committed batch preserves the invariant -/
theorem resolve_inv (st : β → Bool) (Bo : Nat → Prop) (N : Nat) (h0 : Bo 0) (l : List (P β))
    (hi : Inv st Bo N l) (es : List (Edit β)) (hok : EditsOk (l.length - 1) 0 es)
    (hb : EditsB st l es) (hne : textOf (resolve l es) ≠ []) : Inv st Bo N (resolve l es) := by
  have hlen := shape_length hi.shape
  have hn : (l.length - 1) + 1 = l.length := by omega
  refine ⟨resolve_shape N l hi.shape es hok hne, hne, resolve_mono l _ hn hi.mono es hok,
    resolve_boundaries st Bo l _ hn hi.bnd h0 es hok hb, ?_⟩
  unfold resolve
  apply valAt_force0_zero
  intro hnil
  apply hne
  unfold resolve
  rw [hnil]; rfl

/-- every batch of a sequence is admissible for the text it is applied to: edits sorted,
non-overlapping, in range (`EditsOk`), on character boundaries of the current text (`EditsB`), and the
rewritten text stays non-empty -/
def BatchesOk (st : β → Bool) : List (P β) → List (List (Edit β)) → Prop
  | _, [] => True
  | l, es :: rest =>
    EditsOk (l.length - 1) 0 es ∧ EditsB st l es ∧ textOf (resolve l es) ≠ [] ∧ BatchesOk st (resolve l es) rest

theorem resolve_nil (l : List (P β)) (h : valAt l 0 = 0) (hne : l ≠ []) : resolve l [] = l := by
  cases l with
  | nil => exact absurd rfl hne
  | cons p r =>
    obtain ⟨x, v⟩ := p
    simp [valAt] at h
    simp [resolve, go, force0, h]

/-- the variant `running` of `commitV` is the pinned `commit`, verbatim -/
theorem commitV_running (l : List (P β)) (es : List (Edit β)) : commitV .running l es = commit l es := rfl

theorem commitAllV_running (bs : List (List (Edit β))) : ∀ l : List (P β), commitAllV .running l bs = commitAll l bs := by
  induction bs with
  | nil => intro l; rfl
  | cons es rest ih =>
    intro l
    simp only [commitAllV, commitAll, commitV_running]
    cases commit l es with
    | none => rfl
    | some l1 => exact ih l1

/-- whichever length guard the tree has, a committed batch is `resolve_edits` run to its end -/
theorem commitV_eq_resolve (lv : LenV) (l : List (P β)) (es : List (Edit β)) (l' : List (P β))
    (h0 : valAt l 0 = 0) (hne : l ≠ []) (h : commitV lv l es = some l') : l' = resolve l es := by
  unfold commitV at h
  split at h
  · rename_i he
    have : es = [] := by simpa using he
    subst this
    rw [resolve_nil l h0 hne]; simpa using h.symm
  · split at h
    · simpa using h.symm
    · cases h

theorem commit_eq_resolve (l : List (P β)) (es : List (Edit β)) (l' : List (P β))
    (h0 : valAt l 0 = 0) (hne : l ≠ []) (h : commit l es = some l') : l' = resolve l es :=
  commitV_eq_resolve .running l es l' h0 hne h

/-- **m2o invariant for any number of successive batches**, for both length guards -/
theorem commitAllV_inv (lv : LenV) (st : β → Bool) (Bo : Nat → Prop) (N : Nat) (h0 : Bo 0) :
    ∀ (bs : List (List (Edit β))) (l l' : List (P β)), Inv st Bo N l → BatchesOk st l bs →
      commitAllV lv l bs = some l' → Inv st Bo N l' := by
  intro bs
  induction bs with
  | nil => intro l l' hi _ h; simp [commitAllV] at h; subst h; exact hi
  | cons es rest ih =>
    intro l l' hi hok h
    obtain ⟨h1, h2, h3, h4⟩ := hok
    simp only [commitAllV] at h
    cases hc : commitV lv l es with
    | none => simp [hc] at h
    | some l1 =>
      simp only [hc] at h
      have hne : l ≠ [] := by
        intro hnil; have := shape_length hi.shape; simp [hnil] at this
      have := commitV_eq_resolve lv l es l1 hi.first hne hc
      subst this
      exact ih _ l' (resolve_inv st Bo N h0 l hi es h1 h2 h3) h4 h

theorem commitAll_inv (st : β → Bool) (Bo : Nat → Prop) (N : Nat) (h0 : Bo 0)
    (bs : List (List (Edit β))) (l l' : List (P β)) (hi : Inv st Bo N l) (hok : BatchesOk st l bs)
    (h : commitAll l bs = some l') : Inv st Bo N l' :=
  commitAllV_inv .running st Bo N h0 bs l l' hi hok (by rw [commitAllV_running]; exact h)

/-! ### what the invariant says, in the property's words -/

theorem inv_length {st : β → Bool} {Bo : Nat → Prop} {N : Nat} {l : List (P β)} (h : Inv st Bo N l) :
    (snds l).length = (textOf l).length + 1 := by
  have := shape_length h.shape; simp [snds]; omega

theorem inv_last {st : β → Bool} {Bo : Nat → Prop} {N : Nat} {l : List (P β)} (h : Inv st Bo N l) :
    valAt l (textOf l).length = N := by
  obtain ⟨body, rfl, hb⟩ := h.shape
  rw [textOf_shape, textOf_allSome_length hb]
  simp [valAt]

theorem inv_le_last {st : β → Bool} {Bo : Nat → Prop} {N : Nat} {l : List (P β)} (h : Inv st Bo N l)
    (i : Nat) (hi : i ≤ (textOf l).length) : valAt l i ≤ N := by
  rw [← inv_last h]
  exact mono_valAt h.mono hi (by have := shape_length h.shape; omega)

/-- a character boundary of the rewritten text (start byte, or the end) is sent to a boundary of the original -/
theorem inv_boundary {st : β → Bool} {Bo : Nat → Prop} {N : Nat} {l : List (P β)} (h : Inv st Bo N l)
    (i : Nat) (hi : i < l.length) (hb : isB st l[i]) : Bo (valAt l i) :=
  bo_of_boundary st Bo l h.bnd i hi hb

/-! ### the identity map installed by `start_build` -/

/-- `k` is a character boundary of the byte string `o`: its end, or the offset of a first byte -/
def BoOf (o : List Nat) (k : Nat) : Prop := k = o.length ∨ ∃ h : k < o.length, isStart o[k] = true

theorem ident_shape_from (o : List Nat) : ∀ k, ∃ body, identFrom k o = body ++ [(none, k + o.length)] ∧ AllSome body := by
  induction o with
  | nil => intro k; exact ⟨[], by simp [identFrom], by intro p hp; cases hp⟩
  | cons b bs ih =>
    intro k
    obtain ⟨body, h1, h2⟩ := ih (k + 1)
    refine ⟨(some b, k) :: body, ?_, ?_⟩
    · simp only [identFrom, h1, List.length_cons, List.cons_append]
      have : k + 1 + bs.length = k + (bs.length + 1) := by omega
      rw [this]
    · intro p hp
      simp only [List.mem_cons] at hp
      rcases hp with rfl | hp
      · rfl
      · exact h2 p hp

theorem ident_shape (o : List Nat) : Shape o.length (identFrom 0 o) := by
  obtain ⟨body, h1, h2⟩ := ident_shape_from o 0
  exact ⟨body, by simpa using h1, h2⟩

theorem textOf_identFrom (o : List Nat) (k : Nat) : textOf (identFrom k o) = o := by
  induction o generalizing k with
  | nil => rfl
  | cons b bs ih => simp [identFrom, textOf] at ih ⊢; exact ih (k + 1)

theorem ident_mono_from (o : List Nat) : ∀ k, Mono (snds (identFrom k o)) ∧ ∀ x ∈ snds (identFrom k o), k ≤ x := by
  induction o with
  | nil => intro k; simp [identFrom, snds, Mono]
  | cons b bs ih =>
    intro k
    obtain ⟨h1, h2⟩ := ih (k + 1)
    simp only [identFrom, snds, List.map_cons, Mono, List.pairwise_cons, List.mem_cons] at h1 h2 ⊢
    refine ⟨⟨fun y hy => ?_, h1⟩, fun x hx => ?_⟩
    · have := h2 y hy; omega
    · rcases hx with rfl | hx
      · exact Nat.le_refl _
      · have := h2 x hx; omega

theorem ident_q_from (o : List Nat) : ∀ pre : List Nat, ∀ p ∈ identFrom pre.length o, Q isStart (BoOf (pre ++ o)) p := by
  induction o with
  | nil => intro pre p hp; simp [identFrom] at hp; subst hp; simp [Q, BoOf]
  | cons b bs ih =>
    intro pre p hp
    simp only [identFrom, List.mem_cons] at hp
    rcases hp with rfl | hp
    · simp only [Q]
      intro hst
      right
      exact ⟨by simp, by simpa using hst⟩
    · have := ih (pre ++ [b]) p (by simpa using hp)
      simpa using this

theorem ident_inv (o : List Nat) (hne : o ≠ []) : Inv isStart (BoOf o) o.length (identFrom 0 o) := by
  refine ⟨ident_shape o, by rw [textOf_identFrom]; exact hne, (ident_mono_from o 0).1, ?_, ?_⟩
  · have := ident_q_from o []
    simpa using this
  · cases o with
    | nil => exact absurd rfl hne
    | cons b bs => simp [identFrom, valAt]

/-! ### cutting the original text along a monotone chain of offsets -/

/-- the slices of `o` between consecutive cut points `a, q₁, q₂, …` -/
def pieces {α : Type} (o : List α) : Nat → List Nat → List (List α)
  | _, [] => []
  | a, b :: rest => slice o a b :: pieces o b rest

theorem slice_append_slice {α : Type} (o : List α) {a b c : Nat} (hab : a ≤ b) (hbc : b ≤ c) :
    slice o a b ++ slice o b c = slice o a c := by
  unfold slice
  have h1 : c - a = (b - a) + (c - b) := by omega
  rw [h1, List.take_add, List.drop_drop]
  congr 2
  · congr 1; omega

theorem slice_self {α : Type} (o : List α) (a : Nat) : slice o a a = [] := by simp [slice]

/-- concatenating the pieces along a non-decreasing chain gives the slice from the first to the last cut -/
theorem pieces_flatten {α : Type} (o : List α) : ∀ (qs : List Nat) (a : Nat), Mono (a :: qs) →
    (pieces o a qs).flatten = slice o a ((a :: qs).getLast (by simp)) := by
  intro qs
  induction qs with
  | nil => intro a _; simp [pieces, slice_self]
  | cons b rest ih =>
    intro a hm
    have hm' := List.pairwise_cons.mp hm
    have hab : a ≤ b := hm'.1 b (by simp)
    simp only [pieces, List.flatten_cons]
    rw [ih b hm'.2]
    have hlast : (a :: b :: rest).getLast (by simp) = (b :: rest).getLast (by simp) := by simp
    rw [hlast]
    apply slice_append_slice o hab
    -- b ≤ last
    have : ∀ y ∈ b :: rest, b ≤ y := by
      intro y hy
      simp only [List.mem_cons] at hy
      rcases hy with rfl | hy
      · exact Nat.le_refl _
      · exact (List.pairwise_cons.mp hm'.2).1 y hy
    exact this _ (List.getLast_mem _)

theorem slice_all {α : Type} (o : List α) : slice o 0 o.length = o := by simp [slice]

/-! ### surfaces: the original text cut at the images of a chain of positions of the rewritten text -/

theorem mono_map_valAt {l : List (P β)} (hm : Mono (snds l)) :
    ∀ (cuts : List Nat), Mono cuts → (∀ c ∈ cuts, c < l.length) → Mono (cuts.map (valAt l)) := by
  intro cuts
  induction cuts with
  | nil => intro _ _; simp [Mono]
  | cons c rest ih =>
    intro hc hlt
    have hc' := List.pairwise_cons.mp hc
    simp only [List.map_cons, Mono, List.pairwise_cons]
    refine ⟨?_, ih hc'.2 (fun x hx => hlt x (by simp [hx]))⟩
    intro y hy
    obtain ⟨x, hx, rfl⟩ := List.mem_map.mp hy
    exact mono_valAt hm (hc'.1 x hx) (hlt x (by simp [hx]))

theorem getLast_map_cons {α γ : Type} (f : α → γ) (a : α) (l : List α) :
    ((a :: l).map f).getLast (by simp) = f ((a :: l).getLast (by simp)) := by
  rw [List.getLast_map]

/-- **Surfaces reproduce the original text.**  `l` is any offset map satisfying the invariant over
the original bytes `o`; `cuts` is any non-decreasing chain of positions of the rewritten text that
starts at 0 and ends at its length (token boundaries).  Then the slices of the original text between
the images of consecutive cuts — the morpheme surfaces — concatenate to the original text. -/
theorem surfaces_concat (st : Nat → Bool) (o : List Nat) (l : List (P Nat))
    (hi : Inv st (BoOf o) o.length l) (cuts : List Nat) (hm : Mono (0 :: cuts))
    (hlast : (0 :: cuts).getLast (by simp) = (textOf l).length) :
    (pieces o 0 (cuts.map (valAt l))).flatten = o := by
  have hlen := shape_length hi.shape
  have hlt : ∀ c ∈ 0 :: cuts, c < l.length := by
    intro c hc
    have hle : c ≤ (0 :: cuts).getLast (by simp) := by
      -- every element of a non-decreasing list is ≤ its last element
      have : ∀ (xs : List Nat) (h : xs ≠ []), Mono xs → ∀ x ∈ xs, x ≤ xs.getLast h := by
        intro xs
        induction xs with
        | nil => intro h; exact absurd rfl h
        | cons a r ih =>
          intro _ hmx x hx
          have hmx' := List.pairwise_cons.mp hmx
          cases r with
          | nil => simp at hx; subst hx; simp
          | cons b r' =>
            simp only [List.mem_cons] at hx
            rw [List.getLast_cons (by simp)]
            rcases hx with rfl | hx
            · have h1 := hmx'.1 b (by simp)
              have h2 := ih (by simp) hmx'.2 b (by simp)
              omega
            · exact ih (by simp) hmx'.2 x (by simpa using hx)
      exact this _ (by simp) hm c hc
    omega
  have hmv := mono_map_valAt hi.mono (0 :: cuts) hm hlt
  have h0 : valAt l 0 = 0 := hi.first
  simp only [List.map_cons, h0] at hmv
  rw [pieces_flatten o _ 0 hmv]
  have : (0 :: cuts.map (valAt l)).getLast (by simp) = o.length := by
    have h1 := getLast_map_cons (valAt l) 0 cuts
    simp only [List.map_cons, h0] at h1
    rw [h1, hlast]
    exact inv_last hi
  rw [this, slice_all]

/-! ### the character ↔ byte tables -/

theorem c2bFrom_spec (t : List Nat) : ∀ k, (c2bFrom k t).Pairwise (· < ·) ∧
    ∀ x ∈ c2bFrom k t, k ≤ x ∧ ∃ h : x - k < t.length, isStart t[x - k] = true := by
  induction t with
  | nil => intro k; simp [c2bFrom]
  | cons b bs ih =>
    intro k
    obtain ⟨h1, h2⟩ := ih (k + 1)
    have hsub : ∀ x ∈ c2bFrom (k + 1) bs, k ≤ x ∧ ∃ h : x - k < (b :: bs).length, isStart (b :: bs)[x - k] = true := by
      intro x hx
      obtain ⟨hk, hlt, hst⟩ := h2 x hx
      refine ⟨by omega, by simp; omega, ?_⟩
      have : x - k = (x - (k + 1)) + 1 := by omega
      simp only [this, List.getElem_cons_succ]
      exact hst
    simp only [c2bFrom]
    split
    · rename_i hb
      refine ⟨List.pairwise_cons.mpr ⟨fun y hy => by have := (h2 y hy).1; omega, h1⟩, ?_⟩
      intro x hx
      simp only [List.mem_cons] at hx
      rcases hx with rfl | hx
      · exact ⟨Nat.le_refl _, by simp, by simpa using hb⟩
      · exact hsub x hx
    · exact ⟨h1, hsub⟩

theorem c2bFrom_length (t : List Nat) (k : Nat) : (c2bFrom k t).length = nchars t := by
  induction t generalizing k with
  | nil => rfl
  | cons b bs ih =>
    simp only [c2bFrom, nchars, List.filter_cons]
    split <;> simp [ih (k + 1), nchars]

theorem c2b_length (t : List Nat) : (c2b t).length = nchars t + 1 := by
  simp [c2b, c2bFrom_length]

/-- every entry of `mod_c2b` is a character boundary of the text, the table is non-decreasing -/
theorem c2b_spec (t : List Nat) : Mono (c2b t) ∧ ∀ x ∈ c2b t, BoOf t x := by
  obtain ⟨h1, h2⟩ := c2bFrom_spec t 0
  constructor
  · unfold c2b Mono
    apply List.pairwise_append.mpr
    refine ⟨h1.imp (fun h => Nat.le_of_lt h), by simp, ?_⟩
    intro x hx y hy
    simp at hy; subst hy
    obtain ⟨_, hlt, _⟩ := h2 x hx
    omega
  · intro x hx
    unfold c2b at hx
    rcases List.mem_append.mp hx with hx | hx
    · obtain ⟨_, hlt, hst⟩ := h2 x hx
      right; exact ⟨by omega, by simpa using hst⟩
    · simp at hx; left; exact hx

theorem c2b_head (t : List Nat) (h : BoOf t 0) : (c2b t)[0]? = some 0 := by
  cases t with
  | nil => simp [c2b, c2bFrom]
  | cons b bs =>
    rcases h with h | ⟨_, h⟩
    · simp at h
    · simp at h; simp [c2b, c2bFrom, h]

theorem c2b_last (t : List Nat) : (c2b t)[nchars t]? = some t.length := by
  unfold c2b
  rw [List.getElem?_append_right (by rw [c2bFrom_length]; exact Nat.le_refl _)]
  simp [c2bFrom_length]

/-- `fill_orig_b2c`: the entry at a character boundary is the number of characters before it -/
theorem origB2CFrom_spec (o : List Nat) : ∀ (cnt b : Nat) (h : b < o.length),
    (origB2CFrom cnt o)[b]? = some (if isStart o[b] then some (cnt + nchars (o.take b)) else none) := by
  induction o with
  | nil => intro cnt b h; simp at h
  | cons x xs ih =>
    intro cnt b h
    cases b with
    | zero =>
      simp only [origB2CFrom]
      split <;> simp_all [nchars]
    | succ b' =>
      have h' : b' < xs.length := by simpa using h
      simp only [origB2CFrom]
      by_cases hx : isStart x = true
      · simp only [hx, if_true, List.getElem?_cons_succ, ih (cnt + 1) b' h', List.getElem_cons_succ,
          List.take_succ_cons, nchars, List.filter_cons, List.length_cons]
        have : cnt + 1 + (List.filter isStart (List.take b' xs)).length
            = cnt + ((List.filter isStart (List.take b' xs)).length + 1) := by omega
        rw [this]
      · have hx' : isStart x = false := by simpa using hx
        simp only [hx', Bool.false_eq_true, if_false, List.getElem?_cons_succ, ih cnt b' h',
          List.getElem_cons_succ, List.take_succ_cons, nchars, List.filter_cons]

theorem origB2CFrom_length (o : List Nat) (cnt : Nat) : (origB2CFrom cnt o).length = o.length := by
  induction o generalizing cnt with
  | nil => rfl
  | cons x xs ih => simp only [origB2CFrom]; split <;> simp [ih]

/-- **Code-point offsets.**  At every character boundary `b` of a non-empty original text the table
built by `fill_orig_b2c` holds the number of code points before byte `b`. -/
theorem origB2C_counts (o : List Nat) (hne : 0 < nchars o) (b : Nat) (hb : BoOf o b) :
    (origB2C o)[b]? = some (some (nchars (o.take b))) := by
  unfold origB2C
  rcases hb with rfl | ⟨hlt, hst⟩
  · rw [List.getElem?_append_right (by rw [origB2CFrom_length]; exact Nat.le_refl _)]
    have : nchars o ≠ 0 := by omega
    simp [origB2CFrom_length, this]
  · rw [List.getElem?_append_left (by rw [origB2CFrom_length]; exact hlt)]
    rw [origB2CFrom_spec o 0 b hlt]
    simp [hst]

/-! ### unreplaced bytes keep their own map entry -/

theorem go_mem (l : List (P β)) : ∀ (es : List (Edit β)) (start : Nat) (acc : List (P β)) (p : P β),
    p ∈ go l start es acc → p ∈ acc ∨ p ∈ l ∨ ∃ ed ∈ es, p ∈ repl l ed := by
  intro es
  induction es with
  | nil =>
    intro start acc p hp
    simp only [go] at hp
    rcases List.mem_append.mp hp with h | h
    · exact Or.inl h
    · exact Or.inr (Or.inl (List.mem_of_mem_drop h))
  | cons ed es ih =>
    intro start acc p hp
    simp only [go] at hp
    rcases ih ed.e _ p hp with h | h | ⟨ed', h1, h2⟩
    · rcases List.mem_append.mp h with h | h
      · rcases List.mem_append.mp h with h | h
        · exact Or.inl h
        · exact Or.inr (Or.inl (mem_slice_mem h))
      · exact Or.inr (Or.inr ⟨ed, by simp, h⟩)
    · exact Or.inr (Or.inl h)
    · exact Or.inr (Or.inr ⟨ed', by simp [h1], h2⟩)

theorem mem_force0 (a : List (P β)) (p : P β) (h : p ∈ force0 a) : p ∈ a ∨ p.2 = 0 := by
  cases a with
  | nil => exact Or.inl h
  | cons q r =>
    obtain ⟨x, v⟩ := q
    simp only [force0, List.mem_cons] at h
    rcases h with rfl | h
    · exact Or.inr rfl
    · exact Or.inl (by simp [h])

/-- one batch: every entry of the new map is an entry of the old one (copied: same byte, same
original offset), or the forced first entry, or was written by one of the replacements -/
theorem resolve_mem (l : List (P β)) (es : List (Edit β)) (p : P β) (h : p ∈ resolve l es) :
    p ∈ l ∨ p.2 = 0 ∨ ∃ ed ∈ es, p ∈ repl l ed := by
  rcases mem_force0 _ p h with h | h
  · rcases go_mem l es 0 [] p h with h | h | h
    · cases h
    · exact Or.inl h
    · exact Or.inr (Or.inr h)
  · exact Or.inr (Or.inl h)

/-- entries written by a replacement of some batch of the sequence -/
def FromRepl : List (P β) → List (List (Edit β)) → P β → Prop
  | _, [], _ => False
  | l, es :: rest, p => (∃ ed ∈ es, p ∈ repl l ed) ∨ FromRepl (resolve l es) rest p

theorem commitAllV_mem (lv : LenV) (st : β → Bool) (Bo : Nat → Prop) (N : Nat) (h0 : Bo 0)
    (bs : List (List (Edit β))) : ∀ (l l' : List (P β)), Inv st Bo N l → BatchesOk st l bs →
    commitAllV lv l bs = some l' → ∀ p ∈ l', p ∈ l ∨ p.2 = 0 ∨ FromRepl l bs p := by
  induction bs with
  | nil => intro l l' _ _ h p hp; simp [commitAllV] at h; subst h; exact Or.inl hp
  | cons es rest ih =>
    intro l l' hi hok h p hp
    obtain ⟨h1, h2, h3, h4⟩ := hok
    simp only [commitAllV] at h
    cases hc : commitV lv l es with
    | none => simp [hc] at h
    | some l1 =>
      simp only [hc] at h
      have hne : l ≠ [] := by
        intro hnil; have := shape_length hi.shape; simp [hnil] at this
      have := commitV_eq_resolve lv l es l1 hi.first hne hc
      subst this
      rcases ih _ l' (resolve_inv st Bo N h0 l hi es h1 h2 h3) h4 h p hp with h5 | h5 | h5
      · rcases resolve_mem l es p h5 with h6 | h6 | h6
        · exact Or.inl h6
        · exact Or.inr (Or.inl h6)
        · exact Or.inr (Or.inr (Or.inl h6))
      · exact Or.inr (Or.inl h5)
      · exact Or.inr (Or.inr (Or.inr h5))

theorem commitAll_mem (st : β → Bool) (Bo : Nat → Prop) (N : Nat) (h0 : Bo 0)
    (bs : List (List (Edit β))) (l l' : List (P β)) (hi : Inv st Bo N l) (hok : BatchesOk st l bs)
    (h : commitAll l bs = some l') : ∀ p ∈ l', p ∈ l ∨ p.2 = 0 ∨ FromRepl l bs p :=
  commitAllV_mem .running st Bo N h0 bs l l' hi hok (by rw [commitAllV_running]; exact h)

/-- entries of the identity map: byte `o[i]` with its own offset `i`, and the sentinel -/
theorem ident_mem_from (o : List Nat) : ∀ (pre : List Nat) (p : P Nat), p ∈ identFrom pre.length o →
    p = (none, (pre ++ o).length) ∨ ∃ h : p.2 < (pre ++ o).length, p.1 = some (pre ++ o)[p.2] := by
  induction o with
  | nil => intro pre p hp; simp [identFrom] at hp; left; simpa using hp
  | cons b bs ih =>
    intro pre p hp
    simp only [identFrom, List.mem_cons] at hp
    rcases hp with rfl | hp
    · right; exact ⟨by simp, by simp⟩
    · have := ih (pre ++ [b]) p (by simpa using hp)
      simpa using this

theorem ident_mem (o : List Nat) (p : P Nat) (hp : p ∈ identFrom 0 o) :
    p = (none, o.length) ∨ ∃ h : p.2 < o.length, p.1 = some o[p.2] := by
  simpa using ident_mem_from o [] p hp

theorem snds_getElem? (l : List (P β)) (i : Nat) (h : i < l.length) : (snds l)[i]? = some (valAt l i) := by
  simp [snds, valAt, List.getElem?_eq_getElem h]

/-! ### character boundaries of the rewritten text, read off the offset map (used by `C01.lattice_tokens_partition`) -/

/-- in a sentinel-free body the byte of entry `c` is byte `c` of the text -/
theorem allSome_getElem {body : List (P β)} (h : AllSome body) : ∀ (c : Nat) (hc : c < body.length),
    (body[c]).1 = (textOf body)[c]? := by
  induction body with
  | nil => intro c hc; simp at hc
  | cons p r ih =>
    obtain ⟨x, v⟩ := p
    have hx := h (x, v) (by simp)
    cases x with
    | none => simp at hx
    | some b =>
      intro c hc
      have ht : textOf ((some b, v) :: r) = b :: textOf r := by simp [textOf]
      rw [ht]
      cases c with
      | zero => simp
      | succ c =>
        simp only [List.getElem_cons_succ, List.getElem?_cons_succ]
        exact ih (fun q hq => h q (by simp [hq])) c (by simpa using hc)

/-- a character boundary of the rewritten text (`BoOf (textOf l)`) is a boundary entry of the map -/
theorem isB_of_boOf {N : Nat} {l : List (P Nat)} (hs : Shape N l) (c : Nat) (hb : BoOf (textOf l) c)
    (hc : c < l.length) : isB isStart l[c] := by
  obtain ⟨body, rfl, hall⟩ := hs
  rw [textOf_shape] at hb
  have hlen := textOf_allSome_length hall
  rcases hb with hb | ⟨hlt, hst⟩
  · have : c = body.length := by omega
    subst this
    simp [isB]
  · have hcb : c < body.length := by omega
    have hg : (body ++ [((none : Option Nat), N)])[c] = body[c] := List.getElem_append_left hcb
    have h1 := allSome_getElem hall c hcb
    rw [List.getElem?_eq_getElem hlt] at h1
    unfold isB
    rw [hg, h1]
    exact hst

/-! ### the length of the rewritten text and the two length guards of `commit` -/

theorem finalLen_add (es : List (Edit β)) : ∀ (c k : Int), finalLen (c + k) es = finalLen c es + k := by
  induction es with
  | nil => intro c k; rfl
  | cons ed es ih =>
    intro c k
    simp only [finalLen]
    have : c + k + (ed.w.length : Int) - ((ed.e - ed.s : Nat) : Int)
        = (c + (ed.w.length : Int) - ((ed.e - ed.s : Nat) : Int)) + k := by omega
    rw [this, ih]

theorem slice_length {α : Type} (l : List α) (a b : Nat) (hb : b ≤ l.length) : (slice l a b).length = b - a := by
  simp only [slice, List.length_take, List.length_drop]; omega

theorem repl_length (l : List (P β)) (ed : Edit β) : (repl l ed).length = ed.w.length := by
  unfold repl
  cases ed.w with
  | nil => rfl
  | cons b bs => simp

theorem force0_length (a : List (P β)) : (force0 a).length = a.length := by
  cases a with
  | nil => rfl
  | cons p r => obtain ⟨x, v⟩ := p; simp [force0]

/-- the loop of `resolve_edits` run to its end produces `finalLen` entries (sentinel included) -/
theorem go_length (l : List (P β)) (h1 : 1 ≤ l.length) : ∀ (es : List (Edit β)) (start : Nat) (acc : List (P β)),
    EditsOk (l.length - 1) start es →
    ((go l start es acc).length : Int) = (acc.length : Int) + finalLen ((l.length : Int) - (start : Int)) es := by
  intro es
  induction es with
  | nil =>
    intro start acc hok
    simp only [EditsOk] at hok
    simp only [go, finalLen, List.length_append, List.length_drop]
    omega
  | cons ed es ih =>
    intro start acc hok
    obtain ⟨a1, a2, a3, a4⟩ := hok
    simp only [go, finalLen]
    rw [ih ed.e _ a4]
    simp only [List.length_append, repl_length, slice_length l start ed.s (by omega)]
    have : (l.length : Int) - (start : Int) + (ed.w.length : Int) - ((ed.e - ed.s : Nat) : Int)
        = ((l.length : Int) - (ed.e : Int)) + (((ed.s - start : Nat) : Int) + (ed.w.length : Int)) := by omega
    rw [this, finalLen_add]
    omega

/-- **length of the text after one batch** (edits sorted, non-overlapping, in range): the length of the
current text plus, per edit, the length of the replacement minus the length of the replaced range — the
value `resolve_edits` returns and the repaired `commit` compares with the limit -/
theorem resolve_text_length (N : Nat) (l : List (P β)) (hs : Shape N l) (es : List (Edit β))
    (hok : EditsOk (l.length - 1) 0 es) :
    (((textOf (resolve l es)).length : Nat) : Int) = finalLen (((textOf l).length : Nat) : Int) es := by
  obtain ⟨body, rfl, hb⟩ := hs
  have hlen : (body ++ [((none : Option β), N)]).length - 1 = body.length := by simp
  have hok' := hok
  rw [hlen] at hok'
  obtain ⟨body', g1, g2⟩ := go_shape N body hb es 0 [] hok' (by intro p hp; cases hp)
  have hgl := go_length (body ++ [((none : Option β), N)]) (by simp) es 0 [] hok
  rw [g1] at hgl
  have ht : textOf (resolve (body ++ [((none : Option β), N)]) es) = textOf body' := by
    unfold resolve
    rw [g1, textOf_force0, textOf_shape]
  rw [ht, textOf_shape, textOf_allSome_length g2, textOf_allSome_length hb]
  simp only [List.length_append, List.length_cons, List.length_nil] at hgl
  have h2 := finalLen_add es (body.length : Int) 1
  have h3 : ((body.length + (0 + 1) : Nat) : Int) - ((0 : Nat) : Int) = (body.length : Int) + 1 := by omega
  rw [h3, h2] at hgl
  omega

theorem lenOkFinal_iff (max : Nat) (cur : Int) (es : List (Edit β)) :
    lenOkFinal max cur es = true ↔ finalLen cur es ≤ (max : Int) := by
  unfold lenOkFinal
  split
  · rename_i h; constructor
    · intro h2; cases h2
    · intro h2; omega
  · rename_i h; constructor
    · intro _; omega
    · intro _; rfl

theorem commitV_final_eq (l : List (P β)) (es : List (Edit β)) (hne : es ≠ []) :
    commitV .final l es = if finalLen ((l.length : Int) - 1) es ≤ (REALLY_MAX_LENGTH : Int) then some (resolve l es) else none := by
  have he : es.isEmpty = false := by cases es <;> simp_all
  unfold commitV lenGuard
  simp only [he, Bool.false_eq_true, if_false, lenOkFinal_iff]

/-- **the repaired guard: `commit` fails iff the FINAL length exceeds the limit** — a non-empty batch of
sorted, non-overlapping, in-range edits on a well-shaped buffer is rejected (`InputTooLong`) exactly when
the rewritten text would be longer than 65535 bytes -/
theorem commitV_final_none_iff (N : Nat) (l : List (P β)) (hs : Shape N l) (es : List (Edit β)) (hne : es ≠ [])
    (hok : EditsOk (l.length - 1) 0 es) :
    commitV .final l es = none ↔ REALLY_MAX_LENGTH < (textOf (resolve l es)).length := by
  have hl := shape_length hs
  have hr := resolve_text_length N l hs es hok
  have hc : (l.length : Int) - 1 = (((textOf l).length : Nat) : Int) := by omega
  rw [commitV_final_eq l es hne, hc, ← hr]
  split
  · rename_i h; constructor
    · intro h2; cases h2
    · intro h2; omega
  · rename_i h; constructor
    · intro _; omega
    · intro _; rfl

/-- … and accepted, with `resolve_edits` run to its end as the result, exactly when it fits -/
theorem commitV_final_some_iff (N : Nat) (l : List (P β)) (hs : Shape N l) (es : List (Edit β)) (hne : es ≠ [])
    (hok : EditsOk (l.length - 1) 0 es) (l' : List (P β)) :
    commitV .final l es = some l' ↔ l' = resolve l es ∧ (textOf (resolve l es)).length ≤ REALLY_MAX_LENGTH := by
  have hl := shape_length hs
  have hr := resolve_text_length N l hs es hok
  have hc : (l.length : Int) - 1 = (((textOf l).length : Nat) : Int) := by omega
  rw [commitV_final_eq l es hne, hc, ← hr]
  split
  · rename_i h; constructor
    · intro h2; exact ⟨by simpa using h2.symm, by omega⟩
    · rintro ⟨rfl, _⟩; rfl
  · rename_i h; constructor
    · intro h2; cases h2
    · rintro ⟨_, h2⟩; omega

/-- the running-length guard implies the final-length guard: whatever the pinned code accepts … -/
theorem lenOk_imp_final (max : Nat) : ∀ (es : List (Edit β)) (cur : Int), es ≠ [] → lenOk max cur es = true →
    finalLen cur es ≤ (max : Int) := by
  intro es
  induction es with
  | nil => intro cur h; exact absurd rfl h
  | cons ed es ih =>
    intro cur _ h
    simp only [lenOk] at h
    split at h
    · cases h
    · rename_i hle
      simp only [finalLen]
      cases es with
      | nil => simp only [finalLen]; omega
      | cons e2 es2 => exact ih _ (by simp) h

/-- … the repaired code accepts too, with the same result (the repair removes no functionality) -/
theorem commit_imp_commitV_final (l : List (P β)) (es : List (Edit β)) (l' : List (P β))
    (h : commit l es = some l') : commitV .final l es = some l' := by
  cases es with
  | nil => simpa [commit, commitV] using h
  | cons ed es =>
    rw [commitV_final_eq l (ed :: es) (by simp)]
    unfold commit at h
    simp only [List.isEmpty_cons, Bool.false_eq_true, if_false] at h
    split at h
    · rename_i hg
      rw [if_pos (lenOk_imp_final _ (ed :: es) _ (by simp) hg)]
      exact h
    · cases h

end EditM
