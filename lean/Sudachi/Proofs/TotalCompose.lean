import Sudachi.Proofs.Total
import Sudachi.Proofs.OovLattice
import Sudachi.Proofs.CharCat
import Sudachi.Proofs.Rewrite
/-!
# Discharging the component hypotheses of `C03.tokenize_total_partial`

* `buildLattice_noPanic`  the lattice builder (`Oov.buildLattice`: dictionary look-up, the three OOV providers, the
  provider loop, the re-invocation of the last provider, the position loop) never panics on a well-formed buffer
  (`Oov.Buf.WF`: what `InputBuffer::build` guarantees, C13 `built_buffer_well_formed`) when at least one provider is
  configured and every regex provider is the repaired one (`skipEmpty`);
* `buildLattice_cost`     every candidate's word cost is one of the configured `i16` costs (lexicon word, Simple /
  Regex setting, MeCab `unk.def` line);
* `mkBufV_ok`             the modelled `InputBuffer::build` gives `BufOk` and keeps the characters; `mkBufV_total`: it
  is defined for every text when the class table is strictly increasing (every compiled table: C17);
* `startBuild_text`, `rewriteInput_nil`  the stages before the lattice for a configuration without input-text plugin;
* `buildLattice_no_disconnect`, `buildLattice_end_reached`: the "succeeds" side of the builder.
-/
namespace Total
open Oov (Outcome)

/-! ## well-formed buffers -/

theorem wf_bufOk (buf : Oov.Buf) (h : buf.WF) : BufOk buf :=
  ⟨h.cats_len, h.bow_len, fun o c hc => (h.cont_bound o c hc).2⟩

theorem mkBufV_chars (v : Oov.Variant) (bf : Bool) (tab : List (Nat × Nat)) (chars : List Nat) (buf : Oov.Buf)
    (h : Oov.mkBufV v bf tab chars = some buf) : buf.chars = chars := by
  unfold Oov.mkBufV at h
  cases hc : Wire.allSome (chars.map (CharCat.lookup tab)) with
  | none => rw [hc] at h; cases h
  | some cats => rw [hc] at h; simp only [Option.some.injEq] at h; subst h; rfl

/-- every buffer the model of `InputBuffer::build` produces (any run-table variant, either word-start variant) has the
shape `BufOk`, is well formed (`Oov.Buf.WF`: additionally one run length per character, every run at least 1) and
holds the characters it was built from -/
theorem mkBufV_ok (v : Oov.Variant) (bf : Bool) (tab : List (Nat × Nat)) (chars : List Nat) (buf : Oov.Buf)
    (h : Oov.mkBufV v bf tab chars = some buf) : buf.WF ∧ BufOk buf ∧ buf.chars = chars :=
  ⟨Oov.mkBufV_wf v bf tab chars buf h, wf_bufOk buf (Oov.mkBufV_wf v bf tab chars buf h), mkBufV_chars v bf tab chars buf h⟩

theorem allSome_map_some {α β : Type} (f : α → Option β) (g : α → β) (hf : ∀ a, f a = some (g a)) :
    ∀ (l : List α), Wire.allSome (l.map f) = some (l.map g)
  | [] => rfl
  | a :: rest => by
    simp only [List.map_cons, hf a, Wire.allSome, allSome_map_some f g hf rest, Option.map_some]

/-- the buffer `InputBuffer::build` produces over a strictly increasing class table, written out (no `Option`): the
class of a character is `CharCat.denF tab` (C17: what the bisection returns) -/
def builtBuf (v : Oov.Variant) (bf : Bool) (tab : List (Nat × Nat)) (chars : List Nat) : Oov.Buf :=
  ⟨chars, chars.map (CharCat.denF tab), Oov.fillCatContinuity v (chars.map (CharCat.denF tab)),
    if bf then Oov.bowTableFix (chars.map (CharCat.denF tab)) else Oov.bowTable (chars.map (CharCat.denF tab))⟩

/-- `InputBuffer::build` is total over a strictly increasing class table (the look-up never leaves the table:
`CharCat.lookup_eq_denF`) -/
theorem mkBufV_total (v : Oov.Variant) (bf : Bool) (tab : List (Nat × Nat)) (hs : CharCat.SInc (CharCat.fsts tab))
    (chars : List Nat) : Oov.mkBufV v bf tab chars = some (builtBuf v bf tab chars) := by
  unfold Oov.mkBufV builtBuf
  rw [allSome_map_some (CharCat.lookup tab) (CharCat.denF tab) (fun x => CharCat.lookup_eq_denF tab hs x) chars]

/-- … in particular over every compiled character definition (`CharCat.compile rs`, any `rs`) -/
theorem mkBufV_compile_total (v : Oov.Variant) (bf : Bool) (rs : List CharCat.CatRange) (chars : List Nat) :
    Oov.mkBufV v bf (CharCat.compile rs) chars = some (builtBuf v bf (CharCat.compile rs) chars) :=
  mkBufV_total v bf _ (CharCat.sinc_compile rs) chars

/-! ## the lattice builder never panics -/

/-- the configured regex providers are the repaired ones (`if match_length == 0 { return Ok(0) }`) -/
def RegexRepaired (ps : List Oov.Provider) : Prop := ∀ p ∈ ps, ∀ c, p = .regex c → c.skipEmpty = true

theorem getElem?_some_of_lt {α : Type} (l : List α) (i : Nat) (h : i < l.length) : ∃ x, l[i]? = some x :=
  ⟨l[i], List.getElem?_eq_getElem h⟩

theorem mecabProvide_noPanic (cfg : Oov.MecabCfg) (buf : Oov.Buf) (hwf : buf.WF) (o : Nat) (ho : o < buf.chars.length)
    (created : Nat) : NoPanic (Oov.mecabProvide cfg buf o created) := by
  intro w h
  unfold Oov.mecabProvide at h
  obtain ⟨c, hc⟩ := getElem?_some_of_lt buf.cont o (by rw [hwf.cont_len]; exact ho)
  obtain ⟨k, hk⟩ := getElem?_some_of_lt buf.cats o (by rw [hwf.cats_len]; exact ho)
  rw [hc, hk] at h
  simp only [] at h
  split at h <;> cases h

theorem simpleProvide_noPanic (cfg : Oov.SimpleCfg) (buf : Oov.Buf) (hwf : buf.WF) (o : Nat) (ho : o < buf.chars.length)
    (created : Nat) : NoPanic (Oov.simpleProvide cfg buf o created) := by
  intro w h
  unfold Oov.simpleProvide at h
  split at h
  · cases h
  · have hl : o < buf.bow.length := by rw [hwf.bow_len]; exact ho
    simp only [Oov.wordCandidateLength, hl, if_true] at h
    cases h

theorem provide_noPanic (p : Oov.Provider) (hp : ∀ c, p = .regex c → c.skipEmpty = true) (buf : Oov.Buf) (hwf : buf.WF)
    (o : Nat) (ho : o < buf.chars.length) (created : Nat) (existing : List Oov.Node) :
    NoPanic (Oov.provide p buf o created existing) := by
  cases p with
  | mecab cfg => exact mecabProvide_noPanic cfg buf hwf o ho created
  | simple cfg => exact simpleProvide_noPanic cfg buf hwf o ho created
  | regex cfg => exact regexProvide_fix_noPanic cfg (hp cfg rfl) buf hwf.cont_len o ho created existing

theorem provideOovs_noPanic (p : Oov.Provider) (hp : ∀ c, p = .regex c → c.skipEmpty = true) (buf : Oov.Buf) (hwf : buf.WF)
    (o : Nat) (ho : o < buf.chars.length) (st : Nat × List Oov.Node) : NoPanic (Oov.provideOovs p buf o st) := by
  intro w h
  unfold Oov.provideOovs at h
  split at h
  · cases h
  · cases h
  · rename_i w' hw
    exact provide_noPanic p hp buf hwf o ho _ _ w' hw

theorem provideAll_noPanic (buf : Oov.Buf) (hwf : buf.WF) (o : Nat) (ho : o < buf.chars.length) :
    ∀ (ps : List Oov.Provider), RegexRepaired ps → ∀ (st : Nat × List Oov.Node), NoPanic (Oov.provideAll ps buf o st)
  | [], _, st => by intro w h; simp only [Oov.provideAll] at h; cases h
  | p :: rest, hps, st => by
    intro w h
    simp only [Oov.provideAll] at h
    split at h
    · rename_i st1 _
      exact provideAll_noPanic buf hwf o ho rest (fun q hq => hps q (List.mem_cons_of_mem _ hq)) st1 w h
    · cases h
    · rename_i w' hw
      exact provideOovs_noPanic p (hps p List.mem_cons_self) buf hwf o ho st w' hw

theorem bind_noPanic {α β : Type} (x : Outcome α) (f : α → Outcome β) (hx : NoPanic x)
    (hf : ∀ a, x = .ok a → NoPanic (f a)) : NoPanic (x.bind f) := by
  intro w h
  cases x with
  | ok a => exact hf a rfl w h
  | err k => cases h
  | panic w' => exact hx w' rfl

theorem finish_noPanic (st : Nat × List Oov.Node) : NoPanic (Oov.finish st) := by
  intro w h
  unfold Oov.finish at h
  split at h <;> cases h

/-- one position inside the text: the class read, the provider loop, the extra call of the last provider
(`oov_providers.last().unwrap()`: the list is not empty) do not panic -/
theorem stepAt_noPanic (ps : List Oov.Provider) (hne : ps ≠ []) (hrx : RegexRepaired ps) (lex : List Oov.Word)
    (buf : Oov.Buf) (hwf : buf.WF) (o : Nat) (ho : o < buf.chars.length) : NoPanic (Oov.stepAt ps lex buf o) := by
  unfold Oov.stepAt
  obtain ⟨cat, hcat⟩ := getElem?_some_of_lt buf.cats o (by rw [hwf.cats_len]; exact ho)
  rw [hcat]
  simp only []
  refine bind_noPanic _ _ ?_ (fun st1 _ => bind_noPanic _ _ ?_ (fun st2 _ => finish_noPanic st2))
  · intro w h
    unfold Oov.afterLoop at h
    split at h
    · exact provideAll_noPanic buf hwf o ho ps hrx _ w h
    · cases h
  · intro w h
    unfold Oov.fallback at h
    split at h
    · split at h
      · rename_i hl
        exact hne (List.getLast?_eq_none_iff.mp hl)
      · rename_i p hl
        exact provideOovs_noPanic p (hrx p (List.mem_of_getLast? hl)) buf hwf o ho st1 w h
    · cases h

theorem buildFrom_noPanic (ps : List Oov.Provider) (hne : ps ≠ []) (hrx : RegexRepaired ps) (lex : List Oov.Word)
    (buf : Oov.Buf) (hwf : buf.WF) :
    ∀ (pos : List Nat), (∀ p ∈ pos, p < buf.chars.length) → ∀ (acc : List Oov.Node),
      NoPanic (Oov.buildFrom ps lex buf pos acc)
  | [], _, acc => by intro w h; simp only [Oov.buildFrom] at h; cases h
  | p :: rest, hpos, acc => by
    intro w h
    have hrest : ∀ q ∈ rest, q < buf.chars.length := fun q hq => hpos q (List.mem_cons_of_mem _ hq)
    simp only [Oov.buildFrom] at h
    split at h
    · exact buildFrom_noPanic ps hne hrx lex buf hwf rest hrest acc w h
    · split at h
      · exact buildFrom_noPanic ps hne hrx lex buf hwf rest hrest _ w h
      · cases h
      · rename_i w' hw
        exact stepAt_noPanic ps hne hrx lex buf hwf p (hpos p List.mem_cons_self) w' hw

/-- **`build_lattice` never panics** on a well-formed buffer, with at least one OOV provider configured and every
regex provider repaired: no table read of a provider, no `get_word_candidate_length`, no slice, no
`CreatedWords::single(0)`, no `last().unwrap()` goes wrong, at any position, whatever the dictionary words are -/
theorem buildLattice_noPanic (ps : List Oov.Provider) (hne : ps ≠ []) (hrx : RegexRepaired ps) (lex : List Oov.Word)
    (buf : Oov.Buf) (hwf : buf.WF) : NoPanic (Oov.buildLattice ps lex buf) := by
  intro w h
  unfold Oov.buildLattice at h
  split at h
  · split at h <;> cases h
  · cases h
  · rename_i w' hw
    exact buildFrom_noPanic ps hne hrx lex buf hwf _ (fun p hp => List.mem_range.mp hp) [] w' hw

/-! ## the "succeeds" side of the builder: with the fallback provider last it returns a lattice -/

/-- C13 `lattice_never_disconnects` (same argument, stated here so that this file does not import a `Props` module):
with the Simple provider last `build_lattice` returns no `Err` -/
theorem buildLattice_ne_err (ps : List Oov.Provider) (cfg : Oov.SimpleCfg) (lex : List Oov.Word) (buf : Oov.Buf)
    (hwf : buf.WF) (hlast : ps.getLast? = some (.simple cfg)) (k : String) : Oov.buildLattice ps lex buf ≠ .err k := by
  unfold Oov.buildLattice
  intro h
  cases hb : Oov.buildFrom ps lex buf (List.range buf.chars.length) [] with
  | err k' => exact Oov.buildFrom_no_disconnect ps cfg lex buf hlast _ [] k' hb
  | panic w => simp [hb] at h
  | ok nodes =>
    simp only [hb] at h
    rw [List.range_eq_range'] at hb
    obtain ⟨_, _, q, hq1, hq2, hq3⟩ :=
      Oov.buildFrom_inv ps lex buf hwf buf.chars.length 0 [] nodes (by omega) (Oov.latInv_init _) hb
    have : q = buf.chars.length := by omega
    subst this
    simp [hq3] at h

/-- **`build_lattice` succeeds**: well-formed buffer, Simple provider last, regex providers repaired ⇒ a lattice is
returned (no panic, no `EosBosDisconnect`) -/
theorem buildLattice_ok (ps : List Oov.Provider) (cfg : Oov.SimpleCfg) (hlast : ps.getLast? = some (.simple cfg))
    (hrx : RegexRepaired ps) (lex : List Oov.Word) (buf : Oov.Buf) (hwf : buf.WF) :
    ∃ nodes, Oov.buildLattice ps lex buf = .ok nodes := by
  have hne : ps ≠ [] := by intro h; rw [h] at hlast; cases hlast
  cases h : Oov.buildLattice ps lex buf with
  | ok nodes => exact ⟨nodes, rfl⟩
  | err k => exact absurd h (buildLattice_ne_err ps cfg lex buf hwf hlast k)
  | panic w => exact absurd h (buildLattice_noPanic ps hne hrx lex buf hwf w)

/-! ## candidate costs are configured costs -/

/-- an `i16` value -/
def I16 (c : Int) : Prop := -32768 ≤ c ∧ c ≤ 32767

/-- the costs a provider can give a node are `i16` (they are parsed into `i16` fields: `cost` of the Simple / Regex
settings, the third column of a MeCab `unk.def` line) -/
def ProviderCostOk : Oov.Provider → Prop
  | .mecab cfg => ∀ kv ∈ cfg.oovs, ∀ d ∈ kv.2, I16 d.c
  | .simple cfg => I16 cfg.c
  | .regex cfg => I16 cfg.c

theorem findKey_mem {α : Type} (k : Nat) : ∀ (l : List (Nat × α)) (v : α), Oov.findKey k l = some v → ∃ k', (k', v) ∈ l
  | [], v, h => by simp [Oov.findKey] at h
  | (k', v') :: rest, v, h => by
    simp only [Oov.findKey] at h
    split at h
    · cases h; exact ⟨k', List.mem_cons_self⟩
    · obtain ⟨k'', hk⟩ := findKey_mem k rest v h
      exact ⟨k'', List.mem_cons_of_mem _ hk⟩

theorem lexNodes_cost (lex : List Oov.Word) (buf : Oov.Buf) (o : Nat) (x : Oov.Node) (hx : x ∈ Oov.lexNodes lex buf o) :
    ∃ w ∈ lex, x.c = w.c := by
  unfold Oov.lexNodes at hx
  simp only [List.mem_filterMap, List.mem_filter] at hx
  obtain ⟨w, ⟨hw, _⟩, hx⟩ := hx
  refine ⟨w, hw, ?_⟩
  split at hx
  · split at hx
    · cases hx
    · cases hx; rfl
  · cases hx; rfl

theorem regexProvide_cost (cfg : Oov.RegexCfg) (buf : Oov.Buf) (o created : Nat) (existing nodes : List Oov.Node)
    (h : Oov.regexProvide cfg buf o created existing = .ok nodes) : ∀ x ∈ nodes, x.c = cfg.c := by
  unfold Oov.regexProvide at h
  split at h
  · cases h
  · cases h; intro x hx; cases hx
  · unfold Oov.regexCore at h
    split at h
    · cases h
    · split at h
      · cases h; intro x hx; cases hx
      · split at h
        · split at h
          · cases h; intro x hx; cases hx
          · cases h
        · split at h
          · cases h; intro x hx; cases hx
          · cases h; intro x hx; simp only [List.mem_singleton] at hx; subst hx; rfl
          · split at h
            · cases h; intro x hx; cases hx
            · cases h; intro x hx; simp only [List.mem_singleton] at hx; subst hx; rfl

theorem provide_cost (p : Oov.Provider) (hp : ProviderCostOk p) (buf : Oov.Buf) (o created : Nat)
    (existing nodes : List Oov.Node) (h : Oov.provide p buf o created existing = .ok nodes) : ∀ x ∈ nodes, I16 x.c := by
  cases p with
  | mecab cfg =>
    obtain ⟨charLen, cat, _, _, hspec⟩ := Oov.mecabProvide_spec cfg buf o created nodes h
    intro x hx
    obtain ⟨_, ct, _, ci, oovs, d, _, _, hf, hd, hsh⟩ := (hspec x).mp hx
    obtain ⟨k', hk'⟩ := findKey_mem _ _ _ hf
    have hc : I16 d.c := hp (k', oovs) hk' d hd
    rcases hsh with ⟨_, rfl⟩ | ⟨i, _, _, _, rfl⟩
    · exact hc
    · exact hc
  | simple cfg =>
    simp only [Oov.provide, Oov.simpleProvide] at h
    split at h
    · cases h; intro x hx; cases hx
    · split at h
      · cases h
      · cases h; intro x hx; simp only [List.mem_singleton] at hx; subst hx; exact hp
  | regex cfg =>
    intro x hx
    have := regexProvide_cost cfg buf o created existing nodes h x hx
    show I16 x.c
    rw [this]; exact hp

/-- **every candidate of `build_lattice` carries a configured cost**: with all lexicon word costs and all provider
costs `i16`, every node's cost is `i16` -/
theorem buildLattice_cost (ps : List Oov.Provider) (lex : List Oov.Word) (buf : Oov.Buf)
    (hlex : ∀ w ∈ lex, I16 w.c) (hps : ∀ p ∈ ps, ProviderCostOk p) (nodes : List Oov.Node)
    (h : Oov.buildLattice ps lex buf = .ok nodes) : ∀ x ∈ nodes, -32768 ≤ x.c ∧ x.c ≤ 32767 := by
  unfold Oov.buildLattice at h
  split at h
  · rename_i ns hns
    split at h
    · cases h
      refine Oov.buildFrom_forall (fun x => I16 x.c) ps lex buf _ [] _ ?_ (fun x hx => by cases hx) hns
      intro p new hnew
      refine Oov.stepAt_forall (fun x => I16 x.c) ps lex buf p new ?_ ?_ hnew
      · intro x hx
        obtain ⟨w, hw, hc⟩ := lexNodes_cost lex buf p x hx
        show I16 x.c
        rw [hc]; exact hlex w hw
      · intro q hq c ex out hout
        exact provide_cost q (hps q hq) buf p c ex out hout
    · cases h
  · cases h
  · cases h

/-! ## path-rewrite plugins: what C14 gives for `hkeep` / `hrew` -/

/-- the C14 shape of "byte ends are kept": every output node ends where some input node ends (C14 `boundaries_subset`).
It implies the hypothesis `hkeep` of `C03.tokenize_total_partial`. -/
theorem keep_of_ends (rw : List NodeRange → Outcome (List (NodeRange × List Nat)))
    (hends : ∀ path path', rw path = .ok path' → ∀ p ∈ path', ∃ q ∈ path, q.eb = p.1.eb) :
    ∀ (nb : Nat) path path', (∀ q ∈ path, q.eb ≤ nb) → rw path = .ok path' → ∀ p ∈ path', p.1.eb ≤ nb := by
  intro nb path path' hin h p hp
  obtain ⟨q, hq, he⟩ := hends path path' h p hp
  rw [← he]; exact hin q hq

/-- a `Cfg.rewrite` built from the C14 model: `info` = the word-info look-up (`get_word_info_subset`: fills the
dictionary fields of a result node), `Rewrite.rewriteAll` = the configured stack of path-rewrite plugins, `units` = the
split table of a node in the requested mode.  `InvalidRange` is an error; a plugin panic and a loop that does not
finish are panics. -/
def rewriteOfStack (nv : Rewrite.NVariant) (cat : List Nat) (P : List Char → Rewrite.POut) (pls : List Rewrite.Plugin)
    (info : NodeRange → Rewrite.Node) (units : Rewrite.Node → List Nat) (path : List NodeRange) :
    Outcome (List (NodeRange × List Nat)) :=
  match Rewrite.rewriteAll nv cat P pls (path.map info) with
  | .ok q => .ok (q.map (fun m => (⟨m.b, m.e, m.bb, m.eb⟩, units m)))
  | .err => .err "InvalidRange"
  | .panic => .panic "rewrite"
  | .fuel => .panic "loop"

/-- `hkeep` holds for every configured plugin stack (both numeral-loop variants), by C14 `rewrite_stack_coarsens`:
provided the word-info look-up keeps the byte end of a node -/
theorem rewriteOfStack_keep (nv : Rewrite.NVariant) (cat : List Nat) (P : List Char → Rewrite.POut)
    (pls : List Rewrite.Plugin) (info : NodeRange → Rewrite.Node) (units : Rewrite.Node → List Nat)
    (hinfo : ∀ n, (info n).eb = n.eb) :
    ∀ (nb : Nat) path path', (∀ q ∈ path, q.eb ≤ nb) → rewriteOfStack nv cat P pls info units path = .ok path' →
      ∀ p ∈ path', p.1.eb ≤ nb := by
  refine keep_of_ends _ ?_
  intro path path' h p hp
  unfold rewriteOfStack at h
  split at h
  · rename_i q hq
    cases h
    obtain ⟨m, hm, rfl⟩ := List.mem_map.mp hp
    obtain ⟨n, hn, _, he⟩ := ((Rewrite.rewriteAll_coarsens nv cat P pls _ q hq).boundaries m hm).2
    obtain ⟨r, hr, rfl⟩ := List.mem_map.mp hn
    exact ⟨r, hr, by rw [← hinfo r]; exact he⟩
  · cases h
  · cases h
  · cases h

/-- `hrew` for the repaired numeral loop (`fix`): the loops terminate (C14 `rewrite_stack_total`), so what is left is
exactly index safety of the plugin loops, `rewriteAll ≠ panic` (not proved in C14) -/
theorem rewriteOfStack_noPanic (cat : List Nat) (P : List Char → Rewrite.POut) (pls : List Rewrite.Plugin)
    (info : NodeRange → Rewrite.Node) (units : Rewrite.Node → List Nat) (path : List NodeRange)
    (hidx : Rewrite.rewriteAll .fix cat P pls (path.map info) ≠ .panic) :
    NoPanic (rewriteOfStack .fix cat P pls info units path) := by
  intro w h
  unfold rewriteOfStack at h
  split at h
  · cases h
  · cases h
  · rename_i hp; exact hidx hp
  · rename_i hf; exact Rewrite.rewriteAll_fix_ne_fuel cat P pls _ hf

/-! ## `hrowsz` from two bounds of the configuration: word length and candidates per position -/

/-- positions from which a candidate of at most `L` characters can end at `e` -/
def near (e L p : Nat) : Bool := decide (p < e ∧ e ≤ p + L)

theorem countP_near_range (e L : Nat) : ∀ n, (List.range n).countP (near e L) = min n e - min n (e - L)
  | 0 => by simp
  | n + 1 => by
    rw [List.range_succ, List.countP_append, countP_near_range e L n]
    simp only [List.countP_cons, List.countP_nil, near]
    by_cases h : n < e ∧ e ≤ n + L
    · simp only [h, and_self, decide_true, if_true]; omega
    · simp only [h, decide_false, Bool.false_eq_true, if_false]; omega

theorem countP_eq_zero_of_forall {α : Type} (f : α → Bool) (l : List α) (h : ∀ x ∈ l, f x = false) : l.countP f = 0 := by
  rw [List.countP_eq_zero]
  intro x hx hf
  rw [h x hx] at hf; cases hf

/-- the position loop: the candidates ending at `e` number at most `K` per position that is `near` -/
theorem buildFrom_count (ps : List Oov.Provider) (lex : List Oov.Word) (buf : Oov.Buf) (K L e : Nat)
    (hK : ∀ p new, Oov.stepAt ps lex buf p = .ok new → new.length ≤ K ∧ ∀ x ∈ new, x.b = p ∧ x.b < x.e ∧ x.e ≤ x.b + L) :
    ∀ (pos : List Nat) (acc nodes : List Oov.Node), Oov.buildFrom ps lex buf pos acc = .ok nodes →
      nodes.countP (fun x => x.e == e) ≤ acc.countP (fun x => x.e == e) + K * pos.countP (near e L)
  | [], acc, nodes, h => by simp only [Oov.buildFrom] at h; cases h; simp
  | p :: rest, acc, nodes, h => by
    simp only [Oov.buildFrom] at h
    have hmono : K * rest.countP (near e L) ≤ K * (p :: rest).countP (near e L) :=
      Nat.mul_le_mul_left _ (by rw [List.countP_cons]; omega)
    split at h
    · have := buildFrom_count ps lex buf K L e hK rest acc nodes h
      omega
    · split at h
      · rename_i new hnew
        have ih := buildFrom_count ps lex buf K L e hK rest (acc ++ new) nodes h
        obtain ⟨hlen, hall⟩ := hK p new hnew
        rw [List.countP_append] at ih
        by_cases hn : near e L p = true
        · have h1 : new.countP (fun x => x.e == e) ≤ K := Nat.le_trans List.countP_le_length hlen
          have h2 : (p :: rest).countP (near e L) = rest.countP (near e L) + 1 := by
            rw [List.countP_cons, if_pos hn]
          rw [h2, Nat.mul_add]
          omega
        · have h1 : new.countP (fun x => x.e == e) = 0 := by
            apply countP_eq_zero_of_forall
            intro x hx
            obtain ⟨a, b, c⟩ := hall x hx
            cases hxe : (x.e == e) with
            | false => rfl
            | true =>
              exfalso; apply hn
              have : x.e = e := by simpa using hxe
              simp only [near, decide_eq_true_eq]; omega
          omega
      · cases h
      · cases h

/-- **`hrowsz` from configuration bounds.**  If at every position the builder inserts at most `K` candidates, each at
most `L` characters long, then at most `K·L` candidates end at any one boundary — for every text. -/
theorem buildLattice_rows (ps : List Oov.Provider) (lex : List Oov.Word) (buf : Oov.Buf) (K L : Nat)
    (hK : ∀ p new, Oov.stepAt ps lex buf p = .ok new → new.length ≤ K ∧ ∀ x ∈ new, x.b = p ∧ x.b < x.e ∧ x.e ≤ x.b + L)
    (nodes : List Oov.Node) (h : Oov.buildLattice ps lex buf = .ok nodes) (e : Nat) :
    nodes.countP (fun x => x.e == e) ≤ K * L := by
  unfold Oov.buildLattice at h
  split at h
  · rename_i ns hns
    split at h
    · cases h
      have := buildFrom_count ps lex buf K L e hK _ [] _ hns
      rw [countP_near_range] at this
      simp only [List.countP_nil, Nat.zero_add] at this
      refine Nat.le_trans this (Nat.mul_le_mul_left _ ?_)
      omega
    · cases h
  · cases h
  · cases h

/-- the `as u16` casts of `toVit` do not merge boundaries when the candidates lie inside a text of ≤ 65535 characters,
so the count over the cast nodes is the count over the candidates -/
theorem countP_toVit (nodes : List Oov.Node) (hn : ∀ x ∈ nodes, x.e ≤ 65535) (e : Nat) :
    (nodes.map toVit).countP (fun n => n.e == e) ≤ nodes.countP (fun x => x.e == e) := by
  induction nodes with
  | nil => simp
  | cons x rest ih =>
    have ih' := ih (fun y hy => hn y (List.mem_cons_of_mem _ hy))
    have hx : (toVit x).e = x.e := by simp only [toVit]; exact asU16_id x.e (hn x List.mem_cons_self)
    simp only [List.map_cons, List.countP_cons, hx]
    split <;> omega

/-! ### the two bounds for configurations without MeCab provider -/

/-- a provider that yields at most one candidate per call, of at most `L` characters: the Regex provider with
`maxLength ≤ L`; the Simple provider over a buffer in which every character may start a word -/
def SmallProvider (L : Nat) (buf : Oov.Buf) : Oov.Provider → Prop
  | .mecab _ => False
  | .simple _ => (∀ b ∈ buf.bow, b = true) ∧ 1 ≤ L
  | .regex c => c.maxLength ≤ L

theorem nextBow_all_true : ∀ (l : List Bool), (∀ b ∈ l, b = true) → Oov.nextBow l = 0
  | [], _ => rfl
  | b :: bs, h => by
    have : b = true := h b List.mem_cons_self
    subst this; rfl

theorem provide_small (L : Nat) (buf : Oov.Buf) (p : Oov.Provider) (hp : SmallProvider L buf p) (o created : Nat)
    (existing nodes : List Oov.Node) (h : Oov.provide p buf o created existing = .ok nodes) :
    nodes.length ≤ 1 ∧ ∀ x ∈ nodes, x.e ≤ x.b + L := by
  cases p with
  | mecab cfg => exact absurd hp (by simp [SmallProvider])
  | simple cfg =>
    obtain ⟨hall, hL⟩ := hp
    simp only [Oov.provide, Oov.simpleProvide] at h
    split at h
    · cases h; exact ⟨by simp, fun x hx => by cases hx⟩
    · split at h
      · cases h
      · rename_i len hlen
        cases h
        refine ⟨by simp, ?_⟩
        intro x hx
        simp only [List.mem_singleton] at hx
        subst hx
        have : len ≤ 1 := by
          unfold Oov.wordCandidateLength at hlen
          split at hlen
          · cases hlen
            rw [nextBow_all_true _ (fun b hb => hall b (List.mem_of_mem_drop hb))]; omega
          · split at hlen
            · cases hlen; omega
            · cases hlen
        simp only []; omega
  | regex cfg =>
    have hL : cfg.maxLength ≤ L := hp
    simp only [Oov.provide] at h
    unfold Oov.regexProvide at h
    split at h
    · cases h
    · cases h; exact ⟨by simp, fun x hx => by cases hx⟩
    · unfold Oov.regexCore at h
      split at h
      · cases h
      · split at h
        · cases h; exact ⟨by simp, fun x hx => by cases hx⟩
        · rename_i k hk
          have hkl := regexFind_le _ _ _ hk
          simp only [List.length_drop, List.length_take] at hkl
          have one : ([Oov.regexNode cfg o k] : List Oov.Node).length ≤ 1 ∧
              ∀ x ∈ [Oov.regexNode cfg o k], x.e ≤ x.b + L := by
            refine ⟨by simp, ?_⟩
            intro x hx
            simp only [List.mem_singleton] at hx
            subst hx
            simp only [Oov.regexNode]; omega
          split at h
          · split at h
            · cases h; exact ⟨by simp, fun x hx => by cases hx⟩
            · cases h
          · split at h
            · cases h; exact ⟨by simp, fun x hx => by cases hx⟩
            · cases h; exact one
            · split at h
              · cases h; exact ⟨by simp, fun x hx => by cases hx⟩
              · cases h; exact one

theorem provideOovs_small (L : Nat) (buf : Oov.Buf) (p : Oov.Provider) (hp : SmallProvider L buf p) (o : Nat)
    (st st' : Nat × List Oov.Node) (h : Oov.provideOovs p buf o st = .ok st') : st'.2.length ≤ st.2.length + 1 := by
  unfold Oov.provideOovs at h
  split at h
  · rename_i new hnew
    cases h
    have := (provide_small L buf p hp o _ _ new hnew).1
    simp only [List.length_append]; omega
  · cases h
  · cases h

theorem provideAll_small (L : Nat) (buf : Oov.Buf) (o : Nat) :
    ∀ (ps : List Oov.Provider), (∀ p ∈ ps, SmallProvider L buf p) → ∀ (st st' : Nat × List Oov.Node),
      Oov.provideAll ps buf o st = .ok st' → st'.2.length ≤ st.2.length + ps.length
  | [], _, st, st', h => by simp only [Oov.provideAll] at h; cases h; simp
  | p :: rest, hps, st, st', h => by
    simp only [Oov.provideAll] at h
    split at h
    · rename_i st1 h1
      have a := provideOovs_small L buf p (hps p List.mem_cons_self) o st st1 h1
      have b := provideAll_small L buf o rest (fun q hq => hps q (List.mem_cons_of_mem _ hq)) st1 st' h
      simp only [List.length_cons]; omega
    · cases h
    · cases h

theorem lexNodes_small (lex : List Oov.Word) (buf : Oov.Buf) (o : Nat) :
    (Oov.lexNodes lex buf o).length ≤ lex.length ∧
    ∀ x ∈ Oov.lexNodes lex buf o, ∃ w ∈ lex, x.e = x.b + w.surface.length := by
  constructor
  · unfold Oov.lexNodes
    exact Nat.le_trans (List.length_filterMap_le _ _) (List.length_filter_le _ _)
  · intro x hx
    unfold Oov.lexNodes at hx
    simp only [List.mem_filterMap, List.mem_filter] at hx
    obtain ⟨w, ⟨hw, _⟩, hx⟩ := hx
    refine ⟨w, hw, ?_⟩
    split at hx
    · split at hx
      · cases hx
      · cases hx; rfl
    · cases hx; rfl

/-- without MeCab provider a position gets at most `|lex| + |providers| + 1` candidates, each at most `L` characters -/
theorem stepAt_small (L : Nat) (ps : List Oov.Provider) (lex : List Oov.Word) (buf : Oov.Buf)
    (hps : ∀ p ∈ ps, SmallProvider L buf p) (hlex : ∀ w ∈ lex, w.surface.length ≤ L) (o : Nat) (new : List Oov.Node)
    (h : Oov.stepAt ps lex buf o = .ok new) :
    new.length ≤ lex.length + ps.length + 1 ∧ ∀ x ∈ new, x.e ≤ x.b + L := by
  constructor
  · unfold Oov.stepAt at h
    split at h
    · cases h
    · obtain ⟨st1, h1, h⟩ := Oov.bind_eq_ok _ _ _ h
      obtain ⟨st2, h2, h⟩ := Oov.bind_eq_ok _ _ _ h
      have hl := (lexNodes_small lex buf o).1
      have c1 : st1.2.length ≤ lex.length + ps.length := by
        unfold Oov.afterLoop at h1
        split at h1
        · have := provideAll_small L buf o ps hps _ st1 h1
          simp only [] at this; omega
        · cases h1; simp only []; omega
      have c2 : st2.2.length ≤ st1.2.length + 1 := by
        unfold Oov.fallback at h2
        split at h2
        · split at h2
          · cases h2
          · rename_i p hl'
            exact provideOovs_small L buf p (hps p (List.mem_of_getLast? hl')) o st1 st2 h2
        · cases h2; omega
      unfold Oov.finish at h
      split at h
      · cases h
      · cases h; omega
  · refine Oov.stepAt_forall (fun x => x.e ≤ x.b + L) ps lex buf o new ?_ ?_ h
    · intro x hx
      obtain ⟨w, hw, he⟩ := (lexNodes_small lex buf o).2 x hx
      have := hlex w hw
      show x.e ≤ x.b + L
      omega
    · intro p hp c ex out hout
      exact (provide_small L buf p (hps p hp) o c ex out hout).2

/-- `hrowsz` for a configuration without MeCab provider: with `K = |lex| + |providers| + 1` candidates per position of
at most `L` characters and `K·L ≤ 65535`, fewer than 65536 candidates end at any boundary of any text of at most 65535
characters (the bound on the text only serves the `as u16` casts of `toVit`) -/
theorem rows_small (L : Nat) (ps : List Oov.Provider) (lex : List Oov.Word) (buf : Oov.Buf) (hwf : buf.WF)
    (hn : buf.chars.length ≤ 65535)
    (hps : ∀ p ∈ ps, SmallProvider L buf p) (hlex : ∀ w ∈ lex, w.surface.length ≤ L)
    (hKL : (lex.length + ps.length + 1) * L ≤ 65535) (nodes : List Oov.Node)
    (h : Oov.buildLattice ps lex buf = .ok nodes) (e : Nat) :
    (nodes.map toVit).countP (fun n => n.e == e) ≤ 65535 := by
  have hin := buildLattice_cand ps lex buf (wf_bufOk buf hwf) nodes h
  refine Nat.le_trans (countP_toVit nodes (fun x hx => by have := (hin x hx).2; omega) e) ?_
  refine Nat.le_trans (buildLattice_rows ps lex buf (lex.length + ps.length + 1) L ?_ nodes h e) hKL
  intro p new hnew
  obtain ⟨a, b⟩ := stepAt_small L ps lex buf hps hlex p new hnew
  refine ⟨a, fun x hx => ?_⟩
  obtain ⟨c1, c2, _⟩ := (Oov.stepAt_ok ps lex buf p new hwf hnew).2 x hx
  exact ⟨c1, by omega, b x hx⟩

/-- over the empty class table every character has the class DEFAULT and may start a word -/
theorem bowGoV_default (cb : Bool) : ∀ (n : Nat) (prev : Nat),
    ∀ b ∈ Oov.bowGoV cb (List.replicate n CharCat.DEFAULT) true prev, b = true
  | 0, _ => by intro b hb; simp [Oov.bowGoV] at hb
  | n + 1, prev => by
    intro b hb
    have e : Oov.bowGoV cb (List.replicate (n + 1) CharCat.DEFAULT) true prev
        = true :: Oov.bowGoV cb (List.replicate n CharCat.DEFAULT) true CharCat.DEFAULT := by
      simp [List.replicate_succ, Oov.bowGoV, CharCat.DEFAULT, Oov.NOOOVBOW2, Oov.NOOOVBOW, Oov.nonStarting]
    rw [e] at hb
    rcases List.mem_cons.mp hb with rfl | hb
    · rfl
    · exact bowGoV_default cb n _ b hb

theorem builtBuf_nil_bow (v : Oov.Variant) (bf : Bool) (chars : List Nat) : ∀ b ∈ (builtBuf v bf [] chars).bow, b = true := by
  have hc : chars.map (CharCat.denF []) = List.replicate chars.length CharCat.DEFAULT := by
    induction chars with
    | nil => rfl
    | cons c rest ih => simp only [List.map_cons, List.length_cons, List.replicate_succ, ih]; rfl
  intro b hb
  simp only [builtBuf, hc] at hb
  split at hb
  · exact bowGoV_default true _ _ b hb
  · exact bowGoV_default false _ _ b hb

/-! ## the stages before the lattice, without input-text plugin -/

theorem startBuild_text (orig : List Nat) (l0 : List (EditM.P Nat)) (h : EditM.startBuild orig = some l0) :
    EditM.textOf l0 = orig := by
  unfold EditM.startBuild at h
  split at h
  · cases h
  · cases h; exact EditM.textOf_identFrom orig 0

theorem rewriteInput_nil (lv : EditM.LenV) (l : List (EditM.P Nat)) : rewriteInput lv [] l = .ok l := rfl

/-- `chars` is the text the lattice is built over when `orig` is analysed: `start_build` accepted the input, the
input-text plugins rewrote it, the result decodes to `chars` -/
def Reaches (lv : EditM.LenV) (cfg : Cfg) (orig chars : List Nat) : Prop :=
  ∃ l0 l, EditM.startBuild orig = some l0 ∧ rewriteInput lv cfg.inputPlugins l0 = .ok l ∧
    Wire.utf8Decode (EditM.textOf l) = some chars

/-- without input-text plugin the only text reached is the input itself -/
theorem reaches_nil (lv : EditM.LenV) (cfg : Cfg) (hnp : cfg.inputPlugins = []) (orig chars : List Nat)
    (h : Reaches lv cfg orig chars) : Wire.utf8Decode orig = some chars := by
  obtain ⟨l0, l, h0, h1, h2⟩ := h
  rw [hnp, rewriteInput_nil] at h1
  cases h1
  rw [startBuild_text orig l0 h0] at h2
  exact h2

/-! ## a configuration that satisfies all hypotheses of `C03.tokenize_total` at once (non-vacuity) -/

/-- an input-text plugin (one that returns no edit), the buffer built over the empty class table (every character
DEFAULT), the repaired regex provider `[a]{0,}` (a pattern that can match the empty string) and the Simple provider
last, a one-word lexicon, no path-rewrite plugin -/
def totalCfg : Cfg :=
  { inputPlugins := [fun _ => .ok []],
    mkBuf := builtBuf .forward true [],
    providers := [.regex ⟨0, 0, 200, 0, [⟨[97], 0, none⟩], 8, false, true⟩, .simple ⟨0, 0, 100, 0⟩],
    lex := [⟨[97], 0, 0, 5⟩], conn := fun _ _ => 10,
    rewrite := fun p => .ok (p.map (fun n => (n, []))) }

theorem totalCfg_reaches (lv : EditM.LenV) (orig chars : List Nat) (h : Reaches lv totalCfg orig chars) :
    Wire.utf8Decode orig = some chars := by
  obtain ⟨l0, l, h0, h1, h2⟩ := h
  have : l = l0 := by
    simp only [totalCfg, rewriteInput, EditM.commitV, List.isEmpty_nil, if_true] at h1
    cases h1; rfl
  subst this
  rw [startBuild_text orig l h0] at h2
  exact h2

theorem utf8_ab : Wire.utf8Decode [97, 98] = some [97, 98] := by simp [Wire.utf8Decode]

end Total
