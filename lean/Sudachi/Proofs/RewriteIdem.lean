import Sudachi.Proofs.RewriteDepth
/-!
# C14: the katakana joiner is idempotent (on well-formed, ordered paths)

`joinKatakana cfg cat path = .ok q → joinKatakana cfg cat q = .ok q` under `KWF path`.
-/
namespace Rewrite

/-- nodes are well-formed and ordered: what `num_codepts()` (usize `end - begin`) needs -/
def KWF (path : List Node) : Prop := (∀ n ∈ path, n.b ≤ n.e) ∧ path.Pairwise (fun a c => a.b ≤ c.e)

/-- the loop body decides "no join" at index `j` -/
def Settled (cfg : KCfg) (cat : List Nat) (path : List Node) (j : Nat) : Prop :=
  ∀ node, path[j]? = some node → kstep cfg cat path j node = .ok .next

/-! ## the three scans, constructed from a decomposition (converse of the `_spec` lemmas) -/

theorem scanBackL_of_decomp (cat : List Nat) : ∀ (r p : List Node),
    (∀ n ∈ r, isKatakana cat n = .ok true) → (∀ x, p.head? = some x → isKatakana cat x = .ok false) →
    scanBackL cat (r ++ p) (r.length + p.length) = .ok p.length := by
  intro r
  induction r with
  | nil =>
    intro p _ hp
    cases p with
    | nil => simp [scanBackL]
    | cons x rest =>
      simp only [List.nil_append, scanBackL, hp x rfl, List.length_nil, Nat.zero_add]
  | cons n r ih =>
    intro p hr hp
    simp only [List.cons_append, scanBackL, hr n (by simp)]
    have : (n :: r).length + p.length - 1 = r.length + p.length := by
      simp only [List.length_cons]; omega
    rw [this]
    exact ih p (fun x hx => hr x (List.mem_cons_of_mem _ hx)) hp

theorem scanFwdL_of_decomp (cat : List Nat) : ∀ (r p : List Node) (e0 : Nat),
    (∀ n ∈ r, isKatakana cat n = .ok true) → (∀ x, p.head? = some x → isKatakana cat x = .ok false) →
    scanFwdL cat (r ++ p) e0 = .ok (e0 + r.length) := by
  intro r
  induction r with
  | nil =>
    intro p e0 _ hp
    cases p with
    | nil => simp [scanFwdL]
    | cons x rest =>
      simp only [List.nil_append, scanFwdL, hp x rfl, List.length_nil, Nat.add_zero]
  | cons n r ih =>
    intro p e0 hr hp
    simp only [List.cons_append, scanFwdL, hr n (by simp)]
    rw [ih p (e0 + 1) (fun x hx => hr x (List.mem_cons_of_mem _ hx)) hp]
    simp only [List.length_cons]
    congr 1
    omega

theorem skipBowL_of_decomp (cat : List Nat) : ∀ (s t : List Node) (b0 : Nat),
    (∀ n ∈ s, canOovBow cat n = .ok false) → (∀ x, t.head? = some x → canOovBow cat x = .ok true) →
    skipBowL cat (s ++ t) b0 = .ok (b0 + s.length) := by
  intro s
  induction s with
  | nil =>
    intro t b0 _ ht
    cases t with
    | nil => simp [skipBowL]
    | cons x rest =>
      simp only [List.nil_append, skipBowL, ht x rfl, List.length_nil, Nat.add_zero]
  | cons n s ih =>
    intro t b0 hs ht
    simp only [List.cons_append, skipBowL, hs n (by simp)]
    rw [ih t (b0 + 1) (fun x hx => hs x (List.mem_cons_of_mem _ hx)) ht]
    simp only [List.length_cons]
    congr 1
    omega

/-- both scans from a node inside a maximal katakana run `st` return the run's boundaries -/
theorem scans_on_run (cat : List Nat) (pre st post : List Node) (k : Nat) (hk : k < st.length)
    (hpre : ∀ x, pre.getLast? = some x → isKatakana cat x = .ok false)
    (hst : ∀ n ∈ st, isKatakana cat n = .ok true)
    (hpost : ∀ x, post.head? = some x → isKatakana cat x = .ok false) :
    scanBack cat (pre ++ st ++ post) (pre.length + k) = .ok pre.length ∧
      scanFwd cat (pre ++ st ++ post) (pre.length + k) = .ok (pre.length + st.length) := by
  constructor
  · unfold scanBack
    have htake : (pre ++ st ++ post).take (pre.length + k) = pre ++ st.take k := by
      rw [List.append_assoc, List.take_append, List.take_of_length_le (by omega)]
      congr 1
      have : pre.length + k - pre.length = k := by omega
      rw [this, List.take_append_of_le_length (by omega)]
    rw [htake, List.reverse_append]
    have hl : pre.length + k = (st.take k).reverse.length + pre.reverse.length := by
      simp only [List.length_reverse, List.length_take]
      omega
    rw [hl, scanBackL_of_decomp cat _ _ _ _]
    · simp
    · intro n hn
      exact hst n (List.mem_of_mem_take (List.mem_reverse.mp hn))
    · intro x hx
      rw [List.head?_reverse] at hx
      exact hpre x hx
  · unfold scanFwd
    have hdrop : (pre ++ st ++ post).drop (pre.length + k + 1) = st.drop (k + 1) ++ post := by
      rw [List.append_assoc, List.drop_append, List.drop_of_length_le (by omega), List.nil_append]
      have : pre.length + k + 1 - pre.length = k + 1 := by omega
      rw [this, List.drop_append_of_le_length (by omega)]
    rw [hdrop, scanFwdL_of_decomp cat _ _ _ _ hpost]
    · congr 1
      simp only [List.length_drop]
      omega
    · intro n hn
      exact hst n (List.mem_of_mem_drop hn)

/-! ## one loop iteration on a maximal katakana run -/

/-- FULL characterisation of the loop body for a node of a maximal katakana run `s ++ t`, where `s` are
the leading nodes that may not begin an OOV word: the run's tail `t` is joined iff the node is a
candidate (OOV or shorter than `minLength`) and `t` has at least two nodes -/
theorem kstep_on_run (cfg : KCfg) (cat : List Nat) (pre s t post : List Node) (k : Nat) (node : Node)
    (hpre : ∀ x, pre.getLast? = some x → isKatakana cat x = .ok false)
    (hs : ∀ n ∈ s, isKatakana cat n = .ok true ∧ canOovBow cat n = .ok false)
    (ht : ∀ n ∈ t, isKatakana cat n = .ok true)
    (hth : ∀ x, t.head? = some x → canOovBow cat x = .ok true)
    (hpost : ∀ x, post.head? = some x → isKatakana cat x = .ok false)
    (hk : (s ++ t)[k]? = some node) :
    kstep cfg cat (pre ++ s ++ t ++ post) (pre.length + k) node =
      (if isOov node then Outcome.ok true else isShorter cfg node).bind fun cand =>
        if !cand then .ok .next
        else if t.length > 1 then
          .ok (.join (pre.length + s.length) (pre.length + s.length + t.length))
        else .ok .next := by
  have hst : ∀ n ∈ s ++ t, isKatakana cat n = .ok true := by
    intro n hn
    rcases List.mem_append.mp hn with h | h
    · exact (hs n h).1
    · exact ht n h
  have hklt : k < (s ++ t).length := by
    rcases Nat.lt_or_ge k (s ++ t).length with h | h
    · exact h
    · rw [List.getElem?_eq_none h] at hk; cases hk
  have hnode : isKatakana cat node = .ok true := hst node (List.mem_of_getElem? hk)
  have hpath : pre ++ s ++ t ++ post = pre ++ (s ++ t) ++ post := by simp
  obtain ⟨hsb, hsf⟩ := scans_on_run cat pre (s ++ t) post k hklt hpre hst hpost
  have hskip : skipBow cat (pre ++ (s ++ t) ++ post) pre.length (pre.length + (s ++ t).length) =
      .ok (pre.length + s.length) := by
    unfold skipBow
    rw [block_of_decomp]
    exact skipBowL_of_decomp cat s t _ (fun n hn => (hs n hn).2) hth
  rw [hpath]
  unfold kstep
  congr 1
  funext cand
  cases cand
  · rfl
  · simp only [hnode, hsb, hsf, hskip, Outcome.bind, Bool.not_true, Bool.false_eq_true, if_false]
    have e1 : pre.length + (s ++ t).length - (pre.length + s.length) = t.length := by
      simp only [List.length_append]; omega
    have e2 : pre.length + (s ++ t).length = pre.length + s.length + t.length := by
      simp only [List.length_append]; omega
    rw [e1, e2]

/-- the candidate test does not panic on a well-formed node -/
theorem cand_ok (cfg : KCfg) (node : Node) (h : node.b ≤ node.e) :
    ∃ c, (if isOov node then Outcome.ok true else isShorter cfg node) = .ok c := by
  cases isOov node
  · refine ⟨decide (node.e - node.b < cfg.minLength), ?_⟩
    unfold isShorter
    simp only [Bool.false_eq_true, if_false]
    rw [if_neg (by omega)]
  · exact ⟨true, by simp⟩

/-- a node that is not katakana: only the candidate test is evaluated -/
theorem kstep_of_not_katakana (cfg : KCfg) (cat : List Nat) (path : List Node) (j : Nat) (node : Node)
    (hk : isKatakana cat node = .ok false) :
    kstep cfg cat path j node =
      (if isOov node then Outcome.ok true else isShorter cfg node).bind fun _ => .ok .next := by
  unfold kstep
  congr 1
  funext cand
  cases cand
  · rfl
  · simp [hk, Outcome.bind]

theorem kstep_not_katakana (cfg : KCfg) (cat : List Nat) (path : List Node) (j : Nat) (node : Node)
    (hk : isKatakana cat node = .ok false) (hbe : node.b ≤ node.e) :
    kstep cfg cat path j node = .ok .next := by
  rw [kstep_of_not_katakana cfg cat path j node hk]
  obtain ⟨c, hc⟩ := cand_ok cfg node hbe
  rw [hc]
  rfl

/-! ## locality: the loop body before a non-katakana node does not see what follows that node -/

theorem kstep_congr (cfg : KCfg) (cat : List Nat) (p1 p2 : List Node) (j : Nat) (node : Node)
    (hb : scanBack cat p1 j = scanBack cat p2 j) (hf : scanFwd cat p1 j = scanFwd cat p2 j)
    (hs : ∀ b0 e, scanBack cat p1 j = .ok b0 → scanFwd cat p1 j = .ok e →
      skipBow cat p1 b0 e = skipBow cat p2 b0 e) :
    kstep cfg cat p1 j node = kstep cfg cat p2 j node := by
  unfold kstep
  congr 1
  funext cand
  cases cand
  · rfl
  · simp only [Bool.not_true, Bool.false_eq_true, if_false]
    congr 1
    funext kt
    cases kt
    · rfl
    · simp only [Bool.not_true, Bool.false_eq_true, if_false]
      rw [← hb, ← hf]
      cases hb0 : scanBack cat p1 j with
      | ok b0 =>
        simp only [Outcome.bind]
        cases he : scanFwd cat p1 j with
        | ok e =>
          simp only []
          rw [hs b0 e hb0 he]
        | err => rfl
        | panic => rfl
        | fuel => rfl
      | err => rfl
      | panic => rfl
      | fuel => rfl

theorem scanFwdL_stop (cat : List Nat) (x : Node) (hx : isKatakana cat x = .ok false) :
    ∀ (a r1 r2 : List Node) (e0 : Nat),
      scanFwdL cat (a ++ x :: r1) e0 = scanFwdL cat (a ++ x :: r2) e0 := by
  intro a
  induction a with
  | nil => intro r1 r2 e0; simp only [List.nil_append, scanFwdL, hx]
  | cons n a ih =>
    intro r1 r2 e0
    simp only [List.cons_append, scanFwdL]
    rw [ih r1 r2 (e0 + 1)]

theorem scanFwdL_stop_le (cat : List Nat) (x : Node) (hx : isKatakana cat x = .ok false) :
    ∀ (a r : List Node) (e0 e : Nat), scanFwdL cat (a ++ x :: r) e0 = .ok e → e ≤ e0 + a.length := by
  intro a
  induction a with
  | nil =>
    intro r e0 e h
    simp only [List.nil_append, scanFwdL, hx, Outcome.ok.injEq] at h
    simp only [List.length_nil]; omega
  | cons n a ih =>
    intro r e0 e h
    simp only [List.cons_append] at h
    unfold scanFwdL at h
    split at h
    · have := ih r _ _ h
      simp only [List.length_cons]; omega
    · cases h
      simp only [List.length_cons]; omega
    all_goals cases h

theorem block_append_left (pre r : List Node) (b0 e : Nat) (he : e ≤ pre.length) :
    block (pre ++ r) b0 e = block pre b0 e := by
  unfold block
  by_cases hb : b0 ≤ e
  · rw [List.drop_append_of_le_length (by omega), List.take_append_of_le_length]
    simp only [List.length_drop]; omega
  · have : e - b0 = 0 := by omega
    rw [this]; rfl

/-- LOCALITY: at an index up to (and including) a non-katakana node `x`, the loop body does not
depend on the nodes after `x` -/
theorem kstep_prefix_local (cfg : KCfg) (cat : List Nat) (pre0 : List Node) (x : Node)
    (r1 r2 : List Node) (j : Nat) (node : Node) (hx : isKatakana cat x = .ok false)
    (hj : (pre0 ++ [x])[j]? = some node) :
    kstep cfg cat (pre0 ++ x :: r1) j node = kstep cfg cat (pre0 ++ x :: r2) j node := by
  have hjl : j < (pre0 ++ [x]).length := by
    rcases Nat.lt_or_ge j (pre0 ++ [x]).length with h | h
    · exact h
    · rw [List.getElem?_eq_none h] at hj; cases hj
  simp only [List.length_append, List.length_singleton] at hjl
  by_cases hlt : j < pre0.length
  · have hfwd : ∀ r, scanFwd cat (pre0 ++ x :: r) j = scanFwdL cat (pre0.drop (j + 1) ++ x :: r) (j + 1) := by
      intro r
      unfold scanFwd
      rw [List.drop_append_of_le_length (by omega)]
    apply kstep_congr
    · unfold scanBack
      rw [List.take_append_of_le_length (by omega), List.take_append_of_le_length (by omega)]
    · rw [hfwd, hfwd]
      exact scanFwdL_stop cat x hx _ _ _ _
    · intro b0 e _ he
      rw [hfwd] at he
      have hle := scanFwdL_stop_le cat x hx _ _ _ _ he
      simp only [List.length_drop] at hle
      have hpl : e ≤ (pre0 ++ [x]).length := by
        simp only [List.length_append, List.length_singleton]; omega
      unfold skipBow
      have e1 : ∀ r, pre0 ++ x :: r = (pre0 ++ [x]) ++ r := by intro r; simp
      rw [e1 r1, e1 r2, block_append_left _ _ _ _ hpl, block_append_left _ _ _ _ hpl]
  · have hje : j = pre0.length := by omega
    subst hje
    rw [List.getElem?_append_right (Nat.le_refl _)] at hj
    simp only [Nat.sub_self, List.getElem?_cons_zero, Option.some.injEq] at hj
    subst hj
    rw [kstep_of_not_katakana cfg cat _ _ _ hx, kstep_of_not_katakana cfg cat _ _ _ hx]

/-- the same, with the non-katakana node given as the last node of the common prefix -/
theorem kstep_prefix_local' (cfg : KCfg) (cat : List Nat) (pre r1 r2 : List Node) (j : Nat) (node : Node)
    (hpre : ∀ x, pre.getLast? = some x → isKatakana cat x = .ok false)
    (hj : pre[j]? = some node) :
    kstep cfg cat (pre ++ r1) j node = kstep cfg cat (pre ++ r2) j node := by
  cases hl : pre.getLast? with
  | none =>
    rw [List.getLast?_eq_none_iff] at hl
    subst hl
    simp at hj
  | some x =>
    obtain ⟨pre0, hd⟩ := List.getLast?_eq_some_iff.mp hl
    subst hd
    have e1 : ∀ r, pre0 ++ [x] ++ r = pre0 ++ x :: r := by
      intro r; simp
    rw [e1 r1, e1 r2]
    exact kstep_prefix_local cfg cat _ x r1 r2 j node (hpre x hl) hj

/-! ## facts about the merged node -/

theorem isKatakana_true_bounds (cat : List Nat) (n : Node) (h : isKatakana cat n = .ok true) :
    n.b < n.e ∧ n.e ≤ cat.length := by
  by_cases hbe : n.b ≥ n.e
  · exfalso
    unfold isKatakana catOfRange at h
    rw [if_pos hbe] at h
    simp only [Outcome.ok.injEq] at h
    revert h
    decide
  · by_cases hl : n.e > cat.length
    · unfold isKatakana catOfRange at h
      rw [if_neg hbe, if_pos hl] at h
      cases h
    · omega

theorem isKatakana_ok_of_bounds (cat : List Nat) (n : Node) (h : n.e ≤ n.b ∨ n.e ≤ cat.length) :
    ∃ kt, isKatakana cat n = .ok kt := by
  unfold isKatakana catOfRange
  by_cases hbe : n.b ≥ n.e
  · rw [if_pos hbe]; exact ⟨_, rfl⟩
  · rw [if_neg hbe, if_neg (by omega)]; exact ⟨_, rfl⟩

theorem getElem?_mid (a m c : List Node) (k : Nat) (hk : k < m.length) :
    (a ++ m ++ c)[a.length + k]? = m[k]? := by
  rw [List.getElem?_append_left (by simp only [List.length_append]; omega),
    List.getElem?_append_right (by omega)]
  congr 1
  omega

/-! ## the key lemma: after a join, everything up to and including the node after the merged node is
settled, and the path is still well-formed -/

theorem join_settled (cfg : KCfg) (cat : List Nat) (path : List Node) (i : Nat) (node : Node)
    (b e : Nat) (p' : List Node) (hwf : KWF path) (hn : path[i]? = some node)
    (hk : kstep cfg cat path i node = .ok (.join b e))
    (hc : concatOovNodes path b e cfg.oovPos = .ok p')
    (hset : ∀ j < i, Settled cfg cat path j) :
    KWF p' ∧ ∀ j < b + 2, Settled cfg cat p' j := by
  obtain ⟨pre, sk, blk, post, hpath, hb, he, h2, hblk, hsk, hkat, hbow, hpre, hpost, hpi, _, _⟩ :=
    kstep_join_spec cfg cat path i node b e hn hk
  obtain ⟨f, l, hbe, hel, hf, hl, hp'⟩ := concatOovNodes_ok hc
  -- first and last node of the block
  have hfh : blk.head? = some f := by
    rw [List.head?_eq_getElem?, ← getElem?_mid (pre ++ sk) blk post 0 (by omega), ← hpath]
    simp only [List.length_append, Nat.add_zero]
    rw [← hb]; exact hf
  have hll : blk.getLast? = some l := by
    rw [List.getLast?_eq_getElem?, ← getElem?_mid (pre ++ sk) blk post (blk.length - 1) (by omega),
      ← hpath]
    have : (pre ++ sk).length + (blk.length - 1) = e - 1 := by
      simp only [List.length_append]; omega
    rw [this]; exact hl
  obtain ⟨rest, hrest⟩ := List.head?_eq_some_iff.mp hfh
  have hfm : f ∈ blk := List.mem_of_head? hfh
  have hlm : l ∈ blk := List.mem_of_getLast? hll
  have hlr : l ∈ rest := by
    have hne : rest ≠ [] := by
      intro h0; rw [hrest, h0] at h2; simp at h2
    rw [hrest, List.getLast?_cons_of_ne_nil hne] at hll
    exact List.mem_of_getLast? hll
  -- the rewritten path
  have htake : path.take b = pre ++ sk := by
    rw [hpath, List.append_assoc (pre ++ sk)]
    exact List.take_left' (by simp only [List.length_append]; omega)
  have hdrop : path.drop e = post := by
    rw [hpath]
    exact List.drop_left' (by simp only [List.length_append]; omega)
  rw [hblk, htake, hdrop] at hp'
  generalize hm : mergedOovNode f l blk cfg.oovPos = m at hp'
  have hmb : m.b = f.b := by rw [← hm]; rfl
  have hme : m.e = l.e := by rw [← hm]; rfl
  -- well-formedness of the parts
  obtain ⟨hwf1, hwf2⟩ := hwf
  rw [hpath] at hwf1 hwf2
  rw [List.pairwise_append, List.pairwise_append] at hwf2
  obtain ⟨⟨hpw1, hpw2, hx1⟩, hpw3, hx2⟩ := hwf2
  have hfl : f.b ≤ l.e := by
    rw [hrest, List.pairwise_cons] at hpw2
    exact hpw2.1 l hlr
  have hmwf : m.b ≤ m.e := by rw [hmb, hme]; exact hfl
  have hwf' : KWF p' := by
    rw [hp']
    constructor
    · intro n hn'
      rcases List.mem_append.mp hn' with h | h
      · exact hwf1 n (List.mem_append_left _ (List.mem_append_left _ h))
      · rcases List.mem_cons.mp h with rfl | h
        · exact hmwf
        · exact hwf1 n (List.mem_append_right _ h)
    · rw [List.pairwise_append, List.pairwise_cons]
      refine ⟨hpw1, ⟨?_, hpw3⟩, ?_⟩
      · intro c hc'
        rw [hmb]
        exact hx2 f (List.mem_append_right _ hfm) c hc'
      · intro a ha c hc'
        rcases List.mem_cons.mp hc' with rfl | hc'
        · rw [hme]; exact hx1 a ha l hlm
        · exact hx2 a (List.mem_append_left _ ha) c hc'
  refine ⟨hwf', ?_⟩
  -- class facts about the merged node
  have hmbow : canOovBow cat m = .ok true := by
    have : canOovBow cat m = canOovBow cat f := by
      unfold canOovBow; rw [hmb]
    rw [this]; exact hbow f hfh
  obtain ⟨kt, hmk⟩ : ∃ kt, isKatakana cat m = .ok kt := by
    apply isKatakana_ok_of_bounds
    right
    rw [hme]
    exact (isKatakana_true_bounds cat l (hkat l hlm)).2
  -- the four regions
  intro j hj node' hn'
  have hnwf : node'.b ≤ node'.e := hwf'.1 node' (List.mem_of_getElem? hn')
  rw [hp'] at hn' ⊢
  by_cases hj1 : j < pre.length
  · -- (a) inside `pre`: locality
    have hpj : pre[j]? = some node' := by
      rw [List.append_assoc, List.getElem?_append_left hj1] at hn'
      exact hn'
    have hold : path[j]? = some node' := by
      rw [hpath, List.append_assoc, List.append_assoc, List.getElem?_append_left hj1]
      exact hpj
    have := hset j (by omega) node' hold
    rw [hpath] at this
    rw [← this, List.append_assoc, List.append_assoc, List.append_assoc]
    exact kstep_prefix_local' cfg cat pre _ _ j node' hpre hpj
  · by_cases hj2 : j = b + 1
    · -- (d) the node after the merged node
      have hph : post.head? = some node' := by
        have hlen : (pre ++ sk).length + 1 = j := by simp only [List.length_append]; omega
        rw [← hlen, List.getElem?_append_right (by omega)] at hn'
        have : (pre ++ sk).length + 1 - (pre ++ sk).length = 1 := by omega
        rw [this, List.getElem?_cons_succ] at hn'
        rw [List.head?_eq_getElem?]; exact hn'
      exact kstep_not_katakana cfg cat _ j node' (hpost node' hph) hnwf
    · obtain ⟨c, hc'⟩ := cand_ok cfg node' hnwf
      cases kt with
      | true =>
        -- (b), (c): the run `sk ++ [m]`
        have hjk : j = pre.length + (j - pre.length) := by omega
        have hshape : pre ++ sk ++ m :: post = pre ++ sk ++ [m] ++ post := by simp
        rw [hshape] at hn' ⊢
        have hkk : (sk ++ [m])[j - pre.length]? = some node' := by
          rw [← getElem?_mid pre (sk ++ [m]) post (j - pre.length)
            (by simp only [List.length_append, List.length_singleton]; omega), ← hjk,
            ← List.append_assoc]
          exact hn'
        rw [hjk, kstep_on_run cfg cat pre sk [m] post _ node' hpre hsk
          (by intro n hn''; rw [List.mem_singleton.mp hn'']; exact hmk)
          (by intro x hx; simp only [List.head?_cons, Option.some.injEq] at hx; rw [← hx]; exact hmbow)
          hpost hkk, hc']
        cases c <;> rfl
      | false =>
        by_cases hj3 : j = b
        · -- (c') the merged node, not katakana
          have : node' = m := by
            have hlen : (pre ++ sk).length = j := by simp only [List.length_append]; omega
            rw [← hlen, List.getElem?_append_right (Nat.le_refl _)] at hn'
            simp only [Nat.sub_self, List.getElem?_cons_zero, Option.some.injEq] at hn'
            exact hn'.symm
          rw [this] at hnwf ⊢
          exact kstep_not_katakana cfg cat _ j m hmk hnwf
        · -- (b) the skipped nodes, the run is `sk`
          have hjk : j = pre.length + (j - pre.length) := by omega
          have hshape : pre ++ sk ++ m :: post = pre ++ sk ++ [] ++ m :: post := by simp
          rw [hshape] at hn' ⊢
          have hkk : (sk ++ [])[j - pre.length]? = some node' := by
            rw [← getElem?_mid pre (sk ++ []) (m :: post) (j - pre.length)
              (by simp only [List.length_append, List.length_nil]; omega), ← hjk,
              ← List.append_assoc]
            exact hn'
          rw [hjk, kstep_on_run cfg cat pre sk [] (m :: post) _ node' hpre hsk
            (by intro n hn''; cases hn'') (by intro x hx; cases hx)
            (by intro x hx; simp only [List.head?_cons, Option.some.injEq] at hx; rw [← hx]; exact hmk)
            hkk, hc']
          cases c <;> rfl

/-! ## the loop -/

/-- a path on which the loop body never joins is returned unchanged -/
theorem kloop_of_settled (cfg : KCfg) (cat : List Nat) (q : List Node)
    (hset : ∀ j, Settled cfg cat q j) :
    ∀ (fuel i : Nat), q.length - i < fuel → kloop cfg cat fuel q i = .ok q := by
  intro fuel
  induction fuel with
  | zero => intro i hf; omega
  | succ fuel ih =>
    intro i hf
    unfold kloop
    by_cases hi : i ≥ q.length
    · rw [if_pos hi]
    · rw [if_neg hi]
      have hlt : i < q.length := by omega
      rw [List.getElem?_eq_getElem hlt]
      dsimp only
      rw [hset i _ (List.getElem?_eq_getElem hlt)]
      dsimp only
      exact ih (i + 1) (by omega)

theorem joinKatakana_of_settled (cfg : KCfg) (cat : List Nat) (q : List Node)
    (hset : ∀ j, Settled cfg cat q j) : joinKatakana cfg cat q = .ok q := by
  unfold joinKatakana
  exact kloop_of_settled cfg cat q hset (kFuel q) 0 (by unfold kFuel; omega)

/-- loop invariant: everything before the loop index is settled; at the end everything is -/
theorem kloop_settles (cfg : KCfg) (cat : List Nat) :
    ∀ (fuel : Nat) (path : List Node) (i : Nat) (q : List Node), KWF path →
      (∀ j < i, Settled cfg cat path j) → kloop cfg cat fuel path i = .ok q →
      ∀ j, Settled cfg cat q j := by
  intro fuel
  induction fuel with
  | zero => intro path i q _ _ h; simp [kloop] at h
  | succ fuel ih =>
    intro path i q hwf hset h
    unfold kloop at h
    split at h
    · rename_i hi
      cases h
      intro j
      by_cases hj : j < i
      · exact hset j hj
      · intro node hn
        rw [List.getElem?_eq_none (by omega)] at hn
        cases hn
    · split at h
      · cases h
      · rename_i node hn
        split at h
        · rename_i hk
          refine ih _ _ _ hwf ?_ h
          intro j hj
          by_cases hji : j < i
          · exact hset j hji
          · have : j = i := by omega
            subst this
            intro node' hn'
            rw [hn] at hn'
            cases hn'
            exact hk
        · rename_i b e hk
          split at h
          · rename_i p' hc
            obtain ⟨hwf', hs'⟩ := join_settled cfg cat path i node b e p' hwf hn hk hc hset
            exact ih _ _ _ hwf' hs' h
          all_goals cases h
        all_goals cases h

/-- loop-level idempotence: from any fuel and any start index before which the path is settled, the
result of the loop is a fixed point of the loop (for every start index and every sufficient fuel) -/
theorem kloop_idempotent (cfg : KCfg) (cat : List Nat) (fuel : Nat) (path : List Node) (i : Nat)
    (q : List Node) (hwf : KWF path) (hset : ∀ j < i, Settled cfg cat path j)
    (h : kloop cfg cat fuel path i = .ok q) :
    ∀ (fuel' i' : Nat), q.length - i' < fuel' → kloop cfg cat fuel' q i' = .ok q :=
  kloop_of_settled cfg cat q (kloop_settles cfg cat fuel path i q hwf hset h)

/-- IDEMPOTENCE of `JoinKatakanaOovPlugin::rewrite_gen` on well-formed, ordered paths -/
theorem joinKatakana_idempotent (cfg : KCfg) (cat : List Nat) (path q : List Node)
    (hwf : KWF path) (h : joinKatakana cfg cat path = .ok q) : joinKatakana cfg cat q = .ok q := by
  unfold joinKatakana at h
  exact joinKatakana_of_settled cfg cat q
    (kloop_settles cfg cat (kFuel path) path 0 q hwf (by intro j hj; omega) h)

/-! ## real paths are contiguous, hence well-formed and ordered -/

theorem contig_head_le (a : Node) : ∀ (rest : List Node), Contig (a :: rest) →
    (∀ n ∈ a :: rest, n.b ≤ n.e) → ∀ c ∈ rest, a.b ≤ c.e := by
  intro rest
  induction rest generalizing a with
  | nil => intro _ _ c hc; cases hc
  | cons x rest ih =>
    intro hc hb c hcm
    obtain ⟨h1, _, h3⟩ := hc
    have ha := hb a (by simp)
    have hx := hb x (by simp)
    rcases List.mem_cons.mp hcm with rfl | hcm
    · omega
    · have := ih x h3 (fun n hn => hb n (List.mem_cons_of_mem _ hn)) c hcm
      omega

theorem kwf_of_contig (path : List Node) (hc : Contig path) (hb : ∀ n ∈ path, n.b ≤ n.e) :
    KWF path := by
  refine ⟨hb, ?_⟩
  induction path with
  | nil => exact List.Pairwise.nil
  | cons a rest ih =>
    rw [List.pairwise_cons]
    exact ⟨contig_head_le a rest hc hb, ih hc.tail (fun n hn => hb n (List.mem_cons_of_mem _ hn))⟩

/-- idempotence for contiguous paths -/
theorem joinKatakana_idempotent_of_contig (cfg : KCfg) (cat : List Nat) (path q : List Node)
    (hc : Contig path) (hb : ∀ n ∈ path, n.b ≤ n.e) (h : joinKatakana cfg cat path = .ok q) :
    joinKatakana cfg cat q = .ok q :=
  joinKatakana_idempotent cfg cat path q (kwf_of_contig path hc hb) h

end Rewrite
