import Sudachi.Model.ParamsCfg
import Sudachi.Proofs.Params
/-!
# C20, second layer: lemmas about the raw settings (`Model/ParamsCfg.lean`)

* deserialisers: what an accepted value looks like;
* `setUpROovs` is `setUpProvs` on the deserialised settings (`setUpROovs_typed`), so every theorem of the
  typed layer transfers (`loadR_typed`);
* no step of the raw load panics (`loadR_safe`);
* `regexEnd`: the slice of the regex provider.
-/
namespace Params
open Outcome

theorem bind_safe {α β : Type} {x : Outcome α} {f : α → Outcome β} (hx : x.isSafe = true)
    (hf : ∀ a, x = ok a → (f a).isSafe = true) : (x.bind f).isSafe = true := by
  cases x with
  | ok a => exact hf a rfl
  | err k => rfl
  | crash => cases hx
  | ub => cases hx

/-! ## deserialisers -/

theorem deI64_some {j : JF} {x : Int} (h : deI64 j = some x) : j = .int x ∧ I64MIN ≤ x ∧ x ≤ I64MAX := by
  cases j <;> simp [deI64] at h
  obtain ⟨h1, h2⟩ := h
  subst h2
  exact ⟨rfl, h1.1, h1.2⟩

theorem deUsize_some {j : JF} {n : Nat} (h : deUsize j = some n) :
    ∃ x : Int, j = .int x ∧ 0 ≤ x ∧ x ≤ U64MAX ∧ n = x.toNat := by
  cases j <;> simp [deUsize] at h
  rename_i x
  obtain ⟨h1, h2⟩ := h
  exact ⟨x, rfl, h1.1, h1.2, h2.symm⟩

theorem deUsize_lt {j : JF} {n : Nat} (h : deUsize j = some n) : n < TWO64 := by
  obtain ⟨x, _, h0, h1, hn⟩ := deUsize_some h
  subst hn
  unfold U64MAX at h1
  unfold TWO64
  omega

theorem deUsizeD_lt {d : Nat} (hd : d < TWO64) {j : JF} {n : Nat} (h : deUsizeD d j = some n) : n < TWO64 := by
  cases j with
  | absent => simp [deUsizeD] at h; omega
  | null => exact deUsize_lt (j := .null) h
  | int x => exact deUsize_lt (j := .int x) h
  | float => exact deUsize_lt (j := .float) h
  | bool => exact deUsize_lt (j := .bool) h
  | str s => exact deUsize_lt (j := .str s) h
  | strs xs => exact deUsize_lt (j := .strs xs) h
  | other => exact deUsize_lt (j := .other) h

theorem deStrs_some {j : JF} {xs : List (List Char)} (h : deStrs j = some xs) : j = .strs xs := by
  cases j <;> simp [deStrs] at h
  subst h; rfl

theorem deChars_some {j : JF} {xs : List (List Char)} (h : deChars j = some xs) :
    j = .strs xs ∧ ∀ s ∈ xs, charCount s = 1 := by
  cases j <;> simp [deChars] at h
  obtain ⟨h1, h2⟩ := h
  subst h2
  exact ⟨rfl, h1⟩

/-! ## OOV providers: the raw set-up is the typed set-up of the deserialised settings -/

def deserAll : List ROov → Option (List (ProvCfg × RxExtra))
  | [] => some []
  | r :: rest =>
    match deserOov r, deserAll rest with
    | some c, some cs => some (c :: cs)
    | _, _ => none

theorem deserAll_mem : ∀ {rs : List ROov} {cx : List (ProvCfg × RxExtra)}, deserAll rs = some cx →
    ∀ r ∈ rs, ∃ c, deserOov r = some c
  | [], _, _, r, hr => by cases hr
  | r0 :: rest, cx, h, r, hr => by
    simp only [deserAll] at h
    split at h
    · rename_i c cs h1 h2
      simp only [List.mem_cons] at hr
      rcases hr with hr | hr
      · subst hr; exact ⟨c, h1⟩
      · exact deserAll_mem h2 r hr
    · cases h

theorem setUpROov_typed {v : Variant} {cdef : List (List Char)} {g g' : Grammar} {r : ROov} {p : Prov} {x : RxExtra}
    (h : setUpROov v cdef g r = ok (g', (p, x))) :
    ∃ cfg, deserOov r = some (cfg, x) ∧ setUpProv v cdef g cfg = ok (g', p) ∧ x.rxOk = true := by
  unfold setUpROov at h
  split at h
  · cases h
  · rename_i cfg x' hd
    obtain ⟨gp, h1, h2⟩ := Outcome.bind_eq_ok.mp h
    split at h2
    rotate_left
    · cases h2
    rename_i hrx
    injection h2 with h2
    simp only [Prod.mk.injEq] at h2
    obtain ⟨e1, e2, e3⟩ := h2
    subst e1 e2 e3
    exact ⟨cfg, hd, h1, hrx⟩

theorem setUpROov_safe (v : Variant) (cdef : List (List Char)) (g : Grammar) (r : ROov) :
    (setUpROov v cdef g r).isSafe = true := by
  unfold setUpROov
  split
  · rfl
  · exact bind_safe (setUpProv_safe v cdef g _) (fun _ _ => by split <;> rfl)

theorem setUpROovs_typed {v : Variant} {cdef : List (List Char)} (rs : List ROov) :
    ∀ {g g' : Grammar} {pxs : List (Prov × RxExtra)}, setUpROovs v cdef g rs = ok (g', pxs) →
    ∃ cx, deserAll rs = some cx ∧ setUpProvs v cdef g (cx.map (·.1)) = ok (g', pxs.map (·.1)) ∧
      pxs.map (·.2) = cx.map (·.2) := by
  induction rs with
  | nil =>
    intro g g' pxs h
    simp only [setUpROovs] at h
    injection h with h
    simp only [Prod.mk.injEq] at h
    obtain ⟨e1, e2⟩ := h
    subst e1 e2
    exact ⟨[], rfl, rfl, rfl⟩
  | cons r rest ih =>
    intro g g' pxs h
    simp only [setUpROovs] at h
    obtain ⟨gp, h1, h2⟩ := Outcome.bind_eq_ok.mp h
    obtain ⟨gps, h3, h4⟩ := Outcome.bind_eq_ok.mp h2
    injection h4 with h4
    simp only [Prod.mk.injEq] at h4
    obtain ⟨e1, e2⟩ := h4
    subst e1 e2
    obtain ⟨g1, p1, x1⟩ := gp
    obtain ⟨cfg, hd, hp⟩ := setUpROov_typed h1
    obtain ⟨cx, hcx, hps, hx⟩ := ih h3
    refine ⟨(cfg, x1) :: cx, ?_, ?_, ?_⟩
    · simp [deserAll, hd, hcx]
    · simp only [List.map_cons, setUpProvs, hp]
      rw [hps]
    · simp only [List.map_cons]
      rw [hx]

/-- every provider of a successful set-up has a pattern the regex crate compiled -/
theorem setUpROovs_rxOk {v : Variant} {cdef : List (List Char)} (rs : List ROov) :
    ∀ {g g' : Grammar} {pxs : List (Prov × RxExtra)}, setUpROovs v cdef g rs = ok (g', pxs) →
    ∀ px ∈ pxs, px.2.rxOk = true := by
  induction rs with
  | nil =>
    intro g g' pxs h
    simp only [setUpROovs] at h
    injection h with h
    simp only [Prod.mk.injEq] at h
    intro px hpx
    rw [← h.2] at hpx
    cases hpx
  | cons r rest ih =>
    intro g g' pxs h
    simp only [setUpROovs] at h
    obtain ⟨gp, h1, h2⟩ := Outcome.bind_eq_ok.mp h
    obtain ⟨gps, h3, h4⟩ := Outcome.bind_eq_ok.mp h2
    injection h4 with h4
    simp only [Prod.mk.injEq] at h4
    obtain ⟨e1, e2⟩ := h4
    subst e1 e2
    obtain ⟨g1, p1, x1⟩ := gp
    obtain ⟨_, _, _, hrx⟩ := setUpROov_typed h1
    intro px hpx
    simp only [List.mem_cons] at hpx
    rcases hpx with hpx | hpx
    · subst hpx; exact hrx
    · exact ih h3 px hpx

theorem setUpROovs_safe (v : Variant) (cdef : List (List Char)) (rs : List ROov) :
    ∀ (g : Grammar), (setUpROovs v cdef g rs).isSafe = true := by
  induction rs with
  | nil => intro g; rfl
  | cons r rest ih =>
    intro g
    simp only [setUpROovs]
    exact bind_safe (setUpROov_safe v cdef g r) (fun gp _ => bind_safe (ih gp.1) (fun _ _ => rfl))

/-! ## input text and path rewrite plugins -/

theorem setUpInput_safe (r : RInput) : (setUpInput r).isSafe = true := by
  cases r <;> simp only [setUpInput] <;> (repeat' (first | split | dsimp only)) <;> rfl

theorem setUpInputs_safe (rs : List RInput) : (setUpInputs rs).isSafe = true := by
  induction rs with
  | nil => rfl
  | cons r rest ih =>
    simp only [setUpInputs]
    exact bind_safe (setUpInput_safe r) (fun _ _ => ih)

theorem setUpPath_safe (np : Pos) (pl : List Pos) (r : RPath) : (setUpPath np pl r).isSafe = true := by
  cases r <;> simp only [setUpPath] <;> (repeat' (first | split | dsimp only)) <;> rfl

theorem setUpPaths_safe (np : Pos) (pl : List Pos) (rs : List RPath) : (setUpPaths np pl rs).isSafe = true := by
  induction rs with
  | nil => rfl
  | cons r rest ih =>
    simp only [setUpPaths]
    exact bind_safe (setUpPath_safe np pl r) (fun _ _ => bind_safe ih (fun _ _ => rfl))

/-- what an accepted IgnoreYomigana configuration looks like -/
theorem yomigana_ok {ym : Nat} {lb rb ml : JF} (h : setUpInput (.yomigana lb rb ml ym) = ok ()) :
    ∃ (l r : List (List Char)) (n : Nat), lb = .strs l ∧ rb = .strs r ∧ ml = .int n ∧
      l ≠ [] ∧ r ≠ [] ∧ (∀ s ∈ l, charCount s = 1) ∧ (∀ s ∈ r, charCount s = 1) ∧ 1 ≤ n ∧ n ≤ ym := by
  simp only [setUpInput] at h
  split at h
  · rename_i l r n hl hr hn
    split at h
    · cases h
    · rename_i hc
      obtain ⟨e1, c1⟩ := deChars_some hl
      obtain ⟨e2, c2⟩ := deChars_some hr
      obtain ⟨x, e3, x0, _, xn⟩ := deUsize_some hn
      simp only [Bool.or_eq_true, List.isEmpty_iff, beq_iff_eq, decide_eq_true_eq, not_or] at hc
      obtain ⟨⟨⟨hl0, hr0⟩, hn0⟩, hn1⟩ := hc
      refine ⟨l, r, n, e1, e2, ?_, hl0, hr0, c1, c2, by omega, by omega⟩
      rw [e3, xn]
      congr 1
      omega
  · cases h

/-- what an accepted ProlongedSoundMark configuration looks like -/
theorem prolonged_ok {marks repl : JF} (h : setUpInput (.prolonged marks repl) = ok ()) :
    ∃ ms : List (List Char), marks = .strs ms ∧ ms ≠ [] ∧ (∀ s ∈ ms, charCount s = 1) ∧ deOptStr repl = true := by
  simp only [setUpInput] at h
  split at h
  · rename_i ms hm hr
    split at h
    · cases h
    · rename_i hc
      obtain ⟨e1, c1⟩ := deChars_some hm
      exact ⟨ms, e1, by simpa using hc, c1, hr⟩
  · cases h

/-- what an accepted JoinKatakanaOov configuration looks like -/
theorem katakana_ok {np : Pos} {pl : List Pos} {pos ml : JF} {id n : Nat}
    (h : setUpPath np pl (.katakana pos ml) = ok (id, n)) :
    ∃ p : Pos, pos = .strs p ∧ getPosId pl p = some id ∧ n < TWO64 ∧ ∃ x : Int, ml = .int x ∧ 0 ≤ x ∧ n = x.toNat := by
  simp only [setUpPath] at h
  split at h
  · rename_i p n' hp hn
    split at h
    · rename_i id' hid
      injection h with h
      simp only [Prod.mk.injEq] at h
      obtain ⟨e1, e2⟩ := h
      subst e1 e2
      obtain ⟨x, e3, x0, _, xn⟩ := deUsize_some hn
      exact ⟨p, deStrs_some hp, hid, deUsize_lt hn, x, e3, x0, xn⟩
    · cases h
  · cases h

/-! ## user dictionaries -/

theorem mergeUsers_safe (v2 : Variant2) (m : Matrix) (us : List UDic) : ∀ (nd : Nat) (pl : List Pos),
    (mergeUsers v2 m nd pl us).isSafe = true := by
  induction us with
  | nil => intro nd pl; rfl
  | cons u rest ih =>
    intro nd pl
    simp only [mergeUsers]
    split
    · rfl
    · split
      · rfl
      · split
        · rfl
        · exact ih _ _

theorem mergeUsers_ok {v2 : Variant2} {m : Matrix} (us : List UDic) : ∀ {nd : Nat} {pl pl' : List Pos},
    mergeUsers v2 m nd pl us = ok pl' →
    pl' = pl ++ (us.map (·.pos)).flatten ∧
    (v2.udic = true → ∀ u ∈ us, ∀ w ∈ u.words, udicBad m w = false) ∧
    (us ≠ [] → nd + us.length ≤ MAX_DICTIONARIES) ∧ (us ≠ [] → pl'.length ≤ 65536) := by
  induction us with
  | nil =>
    intro nd pl pl' h
    simp only [mergeUsers] at h
    injection h with h
    subst h
    exact ⟨by simp, fun _ u hu => (by cases hu), fun h => absurd rfl h, fun h => absurd rfl h⟩
  | cons u rest ih =>
    intro nd pl pl' h
    simp only [mergeUsers] at h
    split at h
    · cases h
    · rename_i hc
      split at h
      · cases h
      rename_i hsz
      split at h
      · cases h
      rename_i hnd
      obtain ⟨e, hw, hcount, hlen⟩ := ih h
      refine ⟨by rw [e]; simp [List.append_assoc], fun hu u' hu' w hw' => ?_, ?_, ?_⟩
      rotate_left
      · intro _
        cases rest with
        | nil => simp only [List.length_cons, List.length_nil]; omega
        | cons a b => have := hcount (by simp); simp only [List.length_cons] at this ⊢; omega
      · intro _
        cases rest with
        | nil => simp only [List.map_nil, List.flatten_nil, List.append_nil] at e; rw [e, List.length_append]; omega
        | cons a b => exact hlen (by simp)
      simp only [List.mem_cons] at hu'
      rcases hu' with hu' | hu'
      · subst hu'
        simp only [hu, Bool.true_and, Bool.not_eq_true] at hc
        cases hb : udicBad m w with
        | false => rfl
        | true =>
          have : u'.words.any (udicBad m) = true := List.any_eq_true.mpr ⟨w, hw', hb⟩
          rw [this] at hc
          cases hc
      · exact hw hu u' hu' w hw'

/-- an indexed user word that passed the repaired test indexes the matrix -/
theorem udicBad_false {m : Matrix} {w : Int × Int} (h : udicBad m w = false) (hl : -32768 ≤ w.1) (hl' : w.1 ≤ 32767)
    (hr : -32768 ≤ w.2) (hr' : w.2 ≤ 32767) (hw : w.1 ≥ 0) :
    asU16 w.1 < m.nl ∧ asU16 w.2 < m.nr := by
  unfold udicBad at h
  simp only [hw, decide_true, Bool.true_and, Bool.or_eq_false_iff, decide_eq_false_iff_not, Int.not_lt, Nat.not_le,
    ge_iff_le] at h
  obtain ⟨⟨h1, h2⟩, h3⟩ := h
  rw [asUsize_nonneg hw (by omega)] at h1
  rw [asUsize_nonneg h2 (by omega)] at h3
  rw [asU16_toNat hw (by omega), asU16_toNat h2 (by omega)]
  exact ⟨h1, h3⟩

/-! ## `inhibitPair` -/

def deInhAll : List RInh → Option (List (List (Int × Int)))
  | [] => some []
  | r :: rest =>
    match deInh r, deInhAll rest with
    | some a, some as => some (a :: as)
    | _, _ => none

theorem deInhAll_mem : ∀ {rs : List RInh} {ti : List (List (Int × Int))}, deInhAll rs = some ti →
    ∀ r ∈ rs, ∃ ps, deInh r = some ps
  | [], _, _ => fun r hr => by cases hr
  | a :: rest, ti, h => by
    simp only [deInhAll] at h
    split at h
    · rename_i pa pas ha hrest
      intro r hr
      simp only [List.mem_cons] at hr
      rcases hr with hr | hr
      · subst hr; exact ⟨pa, ha⟩
      · exact deInhAll_mem hrest r hr
    · cases h

theorem inhSetUpsR_typed {v : Variant} {g : Grammar} (rs : List RInh) : ∀ {as : List (List (Int × Int))},
    inhSetUpsR v g rs = ok as → ∃ ti, deInhAll rs = some ti ∧ inhSetUps v g ti = ok as := by
  induction rs with
  | nil =>
    intro as h
    simp only [inhSetUpsR] at h
    injection h with h
    subst h
    exact ⟨[], rfl, rfl⟩
  | cons r rest ih =>
    intro as h
    simp only [inhSetUpsR] at h
    split at h
    · cases h
    · rename_i ps hps
      obtain ⟨a, ha, h⟩ := Outcome.bind_eq_ok.mp h
      obtain ⟨as', has, h⟩ := Outcome.bind_eq_ok.mp h
      injection h with h
      subst h
      obtain ⟨ti, hti, hs⟩ := ih has
      refine ⟨ps :: ti, by simp [deInhAll, hps, hti], ?_⟩
      simp [inhSetUps, ha, hs]

theorem inhSetUpsR_safe (v : Variant) (g : Grammar) (rs : List RInh) : (inhSetUpsR v g rs).isSafe = true := by
  induction rs with
  | nil => rfl
  | cons r rest ih =>
    simp only [inhSetUpsR]
    split
    · rfl
    · exact bind_safe (inhSetUp_safe v g _) (fun _ _ => bind_safe ih (fun _ _ => rfl))

/-- what a deserialised `inhibitPair` looks like: every member has exactly two elements, both integers in `i16` -/
theorem dePairs_shape : ∀ {ms : List (List JF)} {ps : List (Int × Int)}, dePairs ms = some ps →
    ∀ m ∈ ms, ∃ x y : Int, m = [.int x, .int y] ∧ -32768 ≤ x ∧ x ≤ 32767 ∧ -32768 ≤ y ∧ y ≤ 32767
  | [], _, _ => fun m hm => by cases hm
  | m0 :: rest, ps, h => by
    simp only [dePairs] at h
    split at h
    · rename_i p ps' hp hrest
      intro m hm
      simp only [List.mem_cons] at hm
      rcases hm with hm | hm
      · subst hm
        unfold dePair at hp
        split at hp
        · rename_i a b
          split at hp
          · rename_i x y hx hy
            have ex : a = .int x ∧ -32768 ≤ x ∧ x ≤ 32767 := by
              cases a <;> simp [deI16] at hx
              rename_i z; exact ⟨by rw [hx.2], by omega, by omega⟩
            have ey : b = .int y ∧ -32768 ≤ y ∧ y ≤ 32767 := by
              cases b <;> simp [deI16] at hy
              rename_i z; exact ⟨by rw [hy.2], by omega, by omega⟩
            exact ⟨x, y, by rw [ex.1, ey.1], ex.2.1, ex.2.2, ey.2.1, ey.2.2⟩
          · cases hp
        · cases hp
      · exact dePairs_shape hrest m hm
    · cases h

/-! ## the whole raw load -/

/-- the raw load succeeds only through a successful typed load of the deserialised settings -/
theorem loadR_typed {v : Variant} {v2 : Variant2} {cdef : List (List Char)} {np : Pos} {g : Grammar}
    {cfg : RCfg} {ld : LoadedR} (h : loadR v v2 cdef np g cfg = ok ld) :
    ∃ ti cx, deInhAll cfg.inh = some ti ∧ deserAll cfg.oov = some cx ∧ ld.provs.map (·.2) = cx.map (·.2) ∧
      load v cdef g ⟨ti, cx.map (·.1), cfg.users.map (·.pos)⟩ = ok ⟨ld.g, ld.provs.map (·.1)⟩ ∧
      (∃ u, setUpInputs cfg.input = ok u) ∧
      (v2.udic = true → ∀ u ∈ cfg.users, ∀ w ∈ u.words, udicBad ld.g.conn w = false) ∧
      cfg.users.length + 1 ≤ MAX_DICTIONARIES ∧ (cfg.users ≠ [] → ld.g.pos.length ≤ 65536) ∧
      (∀ px ∈ ld.provs, px.2.rxOk = true) := by
  unfold loadR at h
  obtain ⟨inh, h1, h⟩ := Outcome.bind_eq_ok.mp h
  obtain ⟨u, h2, h⟩ := Outcome.bind_eq_ok.mp h
  obtain ⟨gp, h3, h⟩ := Outcome.bind_eq_ok.mp h
  obtain ⟨paths, h4, h⟩ := Outcome.bind_eq_ok.mp h
  split at h
  · cases h
  · rename_i hne
    obtain ⟨conn, h5, h⟩ := Outcome.bind_eq_ok.mp h
    obtain ⟨pl, h6, h⟩ := Outcome.bind_eq_ok.mp h
    injection h with h
    subst h
    obtain ⟨g1, pxs⟩ := gp
    obtain ⟨cx, hcx, hps, hx⟩ := setUpROovs_typed cfg.oov h3
    obtain ⟨hpl, hud, hcnt, hlen⟩ := mergeUsers_ok cfg.users h6
    obtain ⟨ti, hti, h1⟩ := inhSetUpsR_typed cfg.inh h1
    refine ⟨ti, cx, hti, hcx, hx, ?_, ⟨u, h2⟩, hud, ?_, hlen, setUpROovs_rxOk cfg.oov h3⟩
    rotate_left
    · cases hu : cfg.users with
      | nil => simp [MAX_DICTIONARIES]
      | cons a b => have := hcnt (by rw [hu]; simp); rw [hu] at this; omega
    have hne' : (pxs.map (·.1)).isEmpty = false := by
      cases pxs with
      | nil => simp at hne
      | cons a b => rfl
    simp only [load, h1, hps, hne', h5, hpl]
    simp

theorem loadR_safe {v : Variant} (hv : v.inhChecked = true) (v2 : Variant2) (cdef : List (List Char))
    (np : Pos) (g : Grammar) (cfg : RCfg) (hnl : g.conn.nl ≤ 65535) (hnr : g.conn.nr ≤ 65535) (hwf : g.conn.WF) :
    (loadR v v2 cdef np g cfg).isSafe = true := by
  unfold loadR
  refine bind_safe (inhSetUpsR_safe v g cfg.inh) (fun inh hinh => ?_)
  refine bind_safe (setUpInputs_safe cfg.input) (fun _ _ => ?_)
  refine bind_safe (setUpROovs_safe v cdef cfg.oov g) (fun gp hgp => ?_)
  refine bind_safe (setUpPaths_safe np gp.1.pos cfg.path) (fun _ _ => ?_)
  split
  · rfl
  · obtain ⟨g1, pxs⟩ := gp
    obtain ⟨cx, _, hps, _⟩ := setUpROovs_typed cfg.oov hgp
    obtain ⟨ti, _, hinh⟩ := inhSetUpsR_typed cfg.inh hinh
    have hi := inhSetUps_ok ti hinh
    have hp := setUpProvs_ok (cx.map (·.1)) hnl hnr hps
    have hwf1 : g1.conn.WF := by rw [hp.1]; exact hwf
    have := inhEdits_ok v.debug inh g1.conn hwf1 (by rw [hp.1]; omega) (by rw [hp.1]; omega)
      (by rw [hi.1, hp.1]; exact hi.2 hv)
    simp only [this, Outcome.bind]
    exact bind_safe (mergeUsers_safe v2 _ cfg.users _ _) (fun _ _ => rfl)

/-! ## the slice of the regex provider -/

theorem regexEnd_sat (dbg : Bool) {maxLen offset len : Nat} (ho : offset ≤ len) (hl : len < TWO64) :
    ∃ e, regexEnd true dbg maxLen offset len = ok e ∧ offset ≤ e ∧ e ≤ len ∧ e ≤ offset + maxLen := by
  unfold regexEnd
  simp only
  split
  · refine ⟨min len (offset + maxLen), ?_, ?_, ?_, ?_⟩
    · simp only [Outcome.bind]
      have : ¬ min len (offset + maxLen) < offset := by omega
      simp [this]
    all_goals omega
  · rename_i hbig
    refine ⟨min len (TWO64 - 1), ?_, ?_, ?_, ?_⟩
    · simp only [if_true, Outcome.bind]
      have : ¬ min len (TWO64 - 1) < offset := by omega
      simp [this]
    all_goals omega

theorem regexEnd_small (sat dbg : Bool) {maxLen offset len : Nat} (ho : offset ≤ len) (hs : offset + maxLen < TWO64) :
    ∃ e, regexEnd sat dbg maxLen offset len = ok e ∧ offset ≤ e ∧ e ≤ len ∧ e ≤ offset + maxLen := by
  unfold regexEnd
  simp only [hs, if_true]
  refine ⟨min len (offset + maxLen), ?_, ?_, ?_, ?_⟩
  · simp only [Outcome.bind]
    have : ¬ min len (offset + maxLen) < offset := by omega
    simp [this]
  all_goals omega

/-- the pinned addition: whenever the sum does not fit `usize` the call panics, with overflow checks
(the addition) and without (the slice `offset..end` with `end < offset`) -/
theorem regexEnd_overflow (dbg : Bool) {maxLen offset len : Nat} (hm : maxLen < TWO64) (ho : offset ≤ len)
    (hl : len < TWO64) (hs : TWO64 ≤ offset + maxLen) :
    regexEnd false dbg maxLen offset len = crash := by
  unfold regexEnd
  have : ¬ offset + maxLen < TWO64 := by omega
  simp only [this, if_false, Bool.false_eq_true]
  cases dbg with
  | true => rfl
  | false =>
    simp only [Bool.false_eq_true, if_false, Outcome.bind]
    have : min len (offset + maxLen - TWO64) < offset := by omega
    simp [this]

end Params
