import Sudachi.Proofs.Numeric
/-!
# `NumericParser::clear()` restores the initial state (C15)

`JoinNumericPlugin::rewrite_gen` uses ONE parser per sentence and calls `clear()` at the start of
every numeric run.  `clear_is_new`: whatever the parser went through (accepted and rejected texts,
`done()`, `get_normalized()` with its write-back into `total`), `clear()` gives the state of
`NumericParser::new()`.  `seq_is_fresh`: a sequence of texts through one parser with `clear()` in
between is observed exactly like each text through a fresh parser (`verif_parse`).
-/
namespace Numeric

variable (v : Variant)

/-- **`clear()` restores the initial state** (of a parser that did not panic: the model-only flag
`bad` marks a `usize` underflow, i.e. a run that does not reach `clear()` in the Rust) -/
theorem clear_is_new (p : Parser) (h : p.anyBad = false) : p.clear = Parser.new := by
  simp only [Parser.anyBad, Bool.or_eq_false_iff] at h
  obtain ⟨⟨h1, h2⟩, h3⟩ := h
  simp [Parser.clear, Parser.new, SN.clear, h1, h2, h3]

/-- the flag is kept by `clear()`, so a panic is not forgotten -/
theorem clear_anyBad (p : Parser) : p.clear.anyBad = p.anyBad := by
  simp [Parser.clear, Parser.anyBad, SN.clear]

theorem toStrMut_fst (s : SN) : s.toStrMut.map Prod.fst = s.toStr := by
  unfold SN.toStrMut
  by_cases hz : s.isZero = true
  · simp [hz, SN.toStr]
  · simp only [hz, Bool.false_eq_true, if_false]
    cases s.toStr <;> rfl

theorem toStrMut_bad (s t : SN) (r : List Char) (h : s.toStrMut = some (r, t)) : t.bad = s.bad := by
  unfold SN.toStrMut at h
  by_cases hz : s.isZero = true
  · simp only [hz, if_true, Option.some.injEq, Prod.mk.injEq] at h
    rw [← h.2]
  · simp only [hz, Bool.false_eq_true, if_false] at h
    cases hts : s.toStr with
    | none => rw [hts] at h; cases h
    | some r' =>
      rw [hts] at h
      simp only [Option.some.injEq, Prod.mk.injEq] at h
      rw [← h.2]
      simp only
      -- `to_string` succeeded, so the normalised number is not marked
      unfold SN.toStr at hts
      simp only [hz, Bool.false_eq_true, if_false] at hts
      by_cases hb : s.normalizeScale.bad = true
      · simp [hb] at hts
      · have hb' : s.normalizeScale.bad = false := by simpa using hb
        rw [hb']
        -- `normalize_scale` only ever sets the mark
        unfold SN.normalizeScale at hb'
        split at hb'
        · split at hb'
          · cases hb'
          · simp only at hb'
            split at hb' <;> exact hb'.symm
        · exact hb'.symm

theorem getNormalizedMut_spec (p p' : Parser) (s : List Char) (h : p.getNormalizedMut v = some (s, p')) :
    p.getNormalized v = some s ∧ p'.anyBad = p.anyBad ∧ p'.err = p.err := by
  unfold Parser.getNormalizedMut at h
  have hf := toStrMut_fst p.total
  cases hm : p.total.toStrMut with
  | none => rw [hm] at h; cases h
  | some st =>
    obtain ⟨s0, t⟩ := st
    rw [hm] at h hf
    simp only [Option.some.injEq, Prod.mk.injEq] at h
    simp only [Option.map_some] at hf
    have hb := toStrMut_bad p.total t s0 hm
    refine ⟨?_, ?_, ?_⟩
    · unfold Parser.getNormalized
      rw [← hf]
      simp only [Option.some.injEq]
      exact h.1
    · rw [← h.2]; simp [Parser.anyBad, hb]
    · rw [← h.2]

theorem getNormalizedMut_none (p : Parser) (h : p.getNormalizedMut v = none) : p.getNormalized v = none := by
  unfold Parser.getNormalizedMut at h
  have hf := toStrMut_fst p.total
  cases hm : p.total.toStrMut with
  | none =>
    rw [hm] at hf
    unfold Parser.getNormalized
    rw [← hf]
    rfl
  | some st => rw [hm] at h; cases h

/-- the observation of `runOn` on a fresh parser is `verif_parse` -/
theorem runOn_new (t : List Char) : (runOn v Parser.new t).2 = verifParse v t := by
  unfold runOn verifParse
  rcases hf : Parser.new.feed v t 0 with ⟨n, ok, p⟩
  cases ok
  · simp only
  · simp only
    rcases hd : p.done v with ⟨d, q⟩
    simp only
    by_cases hb : q.anyBad = true
    · simp [hb]
    · simp only [hb, Bool.false_eq_true, if_false]
      cases hm : q.getNormalizedMut v with
      | none => simp [getNormalizedMut_none v q hm]
      | some sp =>
        obtain ⟨s, q'⟩ := sp
        obtain ⟨k1, _, _⟩ := getNormalizedMut_spec v q q' s hm
        simp [k1]

/-- a run that is observed (no panic) leaves a parser without the mark -/
theorem runOn_not_bad (p p' : Parser) (t : List Char) (r : Nat × Nat × Bool × List Char)
    (h : runOn v p t = (p', some r)) : p'.anyBad = false := by
  unfold runOn at h
  rcases hf : p.feed v t 0 with ⟨n, ok, q⟩
  rw [hf] at h
  cases ok
  · simp only [Prod.mk.injEq] at h
    obtain ⟨h1, h2⟩ := h
    by_cases hb : q.anyBad = true
    · simp [hb] at h2
    · rw [← h1]; simpa using hb
  · simp only at h
    rcases hd : q.done v with ⟨d, q2⟩
    rw [hd] at h
    simp only at h
    by_cases hb : q2.anyBad = true
    · simp [hb] at h
    · simp only [hb, Bool.false_eq_true, if_false] at h
      cases hm : q2.getNormalizedMut v with
      | none => rw [hm] at h; simp at h
      | some sp =>
        obtain ⟨s, q'⟩ := sp
        rw [hm] at h
        simp only [Prod.mk.injEq] at h
        obtain ⟨_, k2, _⟩ := getNormalizedMut_spec v q2 q' s hm
        rw [← h.1, k2]; simpa using hb

/-- **a reused parser behaves like a new one**: texts sent one after the other through one parser
object, with `clear()` between them, are observed exactly as by `verif_parse` on a fresh parser
each (a panic of any of them is a panic of the sequence) -/
theorem seq_is_fresh (ts : List (List Char)) :
    verifParseSeq v ts = Wire.allSome (ts.map (verifParse v)) := by
  unfold verifParseSeq
  induction ts with
  | nil => rfl
  | cons t ts ih =>
    simp only [seqGo, List.map_cons]
    have h1 := runOn_new v t
    rcases hr : runOn v Parser.new t with ⟨p', o⟩
    rw [hr] at h1
    simp only at h1
    rw [← h1]
    cases o with
    | none => rfl
    | some r =>
      have hb := runOn_not_bad v Parser.new p' t r hr
      simp only [Wire.allSome]
      rw [clear_is_new p' hb, ih]

end Numeric
