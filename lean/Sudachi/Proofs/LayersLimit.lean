import Sudachi.Proofs.Layers
import Sudachi.Proofs.LayersLoad
/-!
# The size test of the repaired `merge_user_dictionary` (property C12, finding P2)

`Layers.loadV` / `Layers.loadFullV` carry both versions of `merge_user_dictionary` (`MergeVariant`).  This file relates them:

* `unbounded` IS the pinned load (`loadV_unbounded`, `loadFullV_unbounded`);
* a successful `limit` load is a successful pinned load with the same result, and its POS list has at most 65 536 entries
  (`loadV_limit_ok`, `loadFullV_limit_ok`) — so every theorem about `load` / `loadFull` holds for it, and the hypothesis
  "the list fits `u16`" of the rebasing theorems is discharged by the load itself;
* on the inputs the pinned load accepts, the repaired load accepts exactly those whose final list fits and refuses the others
  with `InvalidPartOfSpeech` (`loadV_limit_of_fits`, `loadV_limit_refuses`, full-load versions likewise).
-/
namespace Layers

/-! ## `unbounded` is the pinned code -/

theorem mergeAllV_unbounded : ∀ (us : List (List Pos × Lexicon)) (d : Dict),
    mergeAllV .unbounded d us = mergeAll d us
  | [], _ => rfl
  | (own, lex) :: rest, d => by
    unfold mergeAllV mergeAll
    simp only [mergeUserV]
    cases mergeUser d own lex with
    | ok d' => exact mergeAllV_unbounded rest d'
    | err e => rfl
    | panic w => rfl

theorem loadV_unbounded (sys : List Pos) (sysLex : Lexicon) (plugs : List (Bool × Pos))
    (us : List (List Pos × Lexicon)) : loadV .unbounded sys sysLex plugs us = load sys sysLex plugs us := by
  unfold loadV load
  simp only [mergeAllV_unbounded]

theorem mergeAllFullV_unbounded (est : LoadState → Nat → Outcome (Int × Nat)) : ∀ (us : List UserDic) (st : LoadState),
    mergeAllFullV .unbounded est st us = mergeAllFull est st us
  | [], _ => rfl
  | u :: rest, st => by
    unfold mergeAllFullV mergeAllFull
    simp only [mergeUserFullV]
    cases mergeUserFull est st u with
    | ok st' => exact mergeAllFullV_unbounded est rest st'
    | err e => rfl
    | panic w => rfl

theorem loadFullV_unbounded (est : LoadState → Nat → Outcome (Int × Nat)) (sys : List Pos) (sysLex : Lexicon)
    (sysCosts : List Int) (nl nr : Nat) (conn : List (List (Nat × Nat))) (plugs : List (Bool × Pos)) (nOov : Nat)
    (users : List UserDic) :
    loadFullV .unbounded est sys sysLex sysCosts nl nr conn plugs nOov users =
      loadFull est sys sysLex sysCosts nl nr conn plugs nOov users := by
  unfold loadFullV loadFull
  simp only [mergeAllFullV_unbounded]

/-! ## the plugins cannot make the list longer than 65 536 entries (`register_pos` refuses the 65 537th) -/

theorem registerPos_bounded (g : List Pos) (p : Pos) (g' : List Pos) (id : Nat)
    (hg : g.length ≤ U16_IDS) (h : registerPos g p = .ok (g', id)) : g'.length ≤ U16_IDS := by
  unfold registerPos at h
  split at h
  · cases h
  · split at h
    · cases h; exact hg
    · split at h
      · cases h
      · rename_i hlen
        cases h
        simp only [List.length_append, List.length_cons, List.length_nil]
        unfold U16_IDS
        omega

theorem handleUserPos_bounded (g : List Pos) (p : Pos) (allow : Bool) (g' : List Pos) (id : Nat)
    (hg : g.length ≤ U16_IDS) (h : handleUserPos g p allow = .ok (g', id)) : g'.length ≤ U16_IDS := by
  unfold handleUserPos at h
  split at h
  · cases h; exact hg
  · split at h
    · exact registerPos_bounded g p g' id hg h
    · cases h

theorem loadPlugins_bounded : ∀ (ps : List (Bool × Pos)) (g g' : List Pos) (ids : List Nat),
    g.length ≤ U16_IDS → loadPlugins g ps = .ok (g', ids) → g'.length ≤ U16_IDS
  | [], g, g', ids, hg, h => by
    simp [loadPlugins] at h; rw [← h.1]; exact hg
  | (allow, p) :: rest, g, g', ids, hg, h => by
    unfold loadPlugins at h
    split at h
    · cases h
    · cases h
    · rename_i g1 id1 h1
      split at h
      · cases h
      · cases h
      · rename_i g2 ids2 h2
        cases h
        exact loadPlugins_bounded rest g1 g' ids2 (handleUserPos_bounded g p allow g1 id1 hg h1) h2

/-! ## the POS list after the merges (no invariant needed) -/

theorem mergeUser_posList (d d' : Dict) (own : List Pos) (lex : Lexicon) (h : mergeUser d own lex = .ok d') :
    d'.posList = d.posList ++ own := by
  unfold mergeUser at h
  split at h
  · cases h; rfl
  · cases h
  · cases h

theorem mergeAll_posList : ∀ (us : List (List Pos × Lexicon)) (d D : Dict), mergeAll d us = .ok D →
    D.posList = d.posList ++ (us.map (·.1)).flatten
  | [], d, D, h => by simp [mergeAll] at h; subst h; simp
  | (own, lex) :: rest, d, D, h => by
    unfold mergeAll at h
    split at h
    · rename_i d1 h1
      rw [mergeAll_posList rest d1 D h, mergeUser_posList d d1 own lex h1]
      simp [List.append_assoc]
    · cases h
    · cases h

/-! ## the repaired merge against the pinned one -/

/-- a successful repaired merge is a successful pinned merge with the same result, and it keeps the list within `u16` -/
theorem mergeAllV_limit_ok : ∀ (us : List (List Pos × Lexicon)) (d D : Dict), mergeAllV .limit d us = .ok D →
    mergeAll d us = .ok D ∧ (d.posList.length ≤ U16_IDS → D.posList.length ≤ U16_IDS)
  | [], d, D, h => by simp [mergeAllV] at h; subst h; exact ⟨rfl, id⟩
  | (own, lex) :: rest, d, D, h => by
    unfold mergeAllV at h
    split at h
    · rename_i d1 h1
      simp only [mergeUserV] at h1
      split at h1
      · cases h1
      · rename_i hfit
        obtain ⟨r1, r2⟩ := mergeAllV_limit_ok rest d1 D h
        refine ⟨by unfold mergeAll; rw [h1]; exact r1, fun _ => r2 ?_⟩
        rw [mergeUser_posList d d1 own lex h1, List.length_append]
        omega
    · cases h
    · cases h

/-- whatever the pinned merge accepts with a final list that fits, the repaired merge accepts with the same result -/
theorem mergeAllV_limit_of_fits : ∀ (us : List (List Pos × Lexicon)) (d D : Dict), mergeAll d us = .ok D →
    D.posList.length ≤ U16_IDS → mergeAllV .limit d us = .ok D
  | [], d, D, h, _ => by simp [mergeAll] at h; subst h; rfl
  | (own, lex) :: rest, d, D, h, hfit => by
    unfold mergeAll at h
    split at h
    · rename_i d1 h1
      have hD := mergeAll_posList rest d1 D h
      have hd1 := mergeUser_posList d d1 own lex h1
      have hle : d.posList.length + own.length ≤ U16_IDS := by
        have : D.posList.length = d.posList.length + own.length + ((rest.map (·.1)).flatten).length := by
          rw [hD, hd1]; simp only [List.length_append]
        omega
      unfold mergeAllV
      simp only [mergeUserV]
      rw [if_neg (by omega), h1]
      exact mergeAllV_limit_of_fits rest d1 D h hfit
    · cases h
    · cases h

/-- ... and whatever the pinned merge accepts with a final list that does NOT fit, the repaired merge refuses -/
theorem mergeAllV_limit_refuses : ∀ (us : List (List Pos × Lexicon)) (d D : Dict), mergeAll d us = .ok D →
    d.posList.length ≤ U16_IDS → U16_IDS < D.posList.length → mergeAllV .limit d us = .err .invalidPos
  | [], d, D, h, hd, hbig => by simp [mergeAll] at h; subst h; omega
  | (own, lex) :: rest, d, D, h, hd, hbig => by
    unfold mergeAll at h
    split at h
    · rename_i d1 h1
      unfold mergeAllV
      simp only [mergeUserV]
      by_cases hover : d.posList.length + own.length > U16_IDS
      · rw [if_pos hover]
      · rw [if_neg hover, h1]
        apply mergeAllV_limit_refuses rest d1 D h ?_ hbig
        rw [mergeUser_posList d d1 own lex h1, List.length_append]
        omega
    · cases h
    · cases h

theorem loadV_limit_ok (sys : List Pos) (sysLex : Lexicon) (plugs : List (Bool × Pos))
    (us : List (List Pos × Lexicon)) (D : Dict) (h : loadV .limit sys sysLex plugs us = .ok D) :
    load sys sysLex plugs us = .ok D ∧ (sys.length ≤ U16_IDS → D.posList.length ≤ U16_IDS) := by
  unfold loadV at h
  unfold load
  split at h
  · cases h
  · cases h
  · rename_i set hset
    split at h
    · cases h
    · cases h
    · rename_i g ids hpl
      obtain ⟨r1, r2⟩ := mergeAllV_limit_ok us ⟨g, set⟩ D h
      exact ⟨r1, fun hs => r2 (loadPlugins_bounded plugs sys g ids hs hpl)⟩

theorem loadV_limit_of_fits (sys : List Pos) (sysLex : Lexicon) (plugs : List (Bool × Pos))
    (us : List (List Pos × Lexicon)) (D : Dict) (h : load sys sysLex plugs us = .ok D)
    (hfit : D.posList.length ≤ U16_IDS) : loadV .limit sys sysLex plugs us = .ok D := by
  unfold load at h
  unfold loadV
  split at h
  · cases h
  · cases h
  · split at h
    · cases h
    · cases h
    · exact mergeAllV_limit_of_fits us _ D h hfit

theorem loadV_limit_refuses (sys : List Pos) (sysLex : Lexicon) (plugs : List (Bool × Pos))
    (us : List (List Pos × Lexicon)) (D : Dict) (h : load sys sysLex plugs us = .ok D)
    (hs : sys.length ≤ U16_IDS) (hbig : U16_IDS < D.posList.length) :
    loadV .limit sys sysLex plugs us = .err .invalidPos := by
  unfold load at h
  unfold loadV
  split at h
  · cases h
  · cases h
  · split at h
    · cases h
    · cases h
    · rename_i g ids hpl
      exact mergeAllV_limit_refuses us _ D h (loadPlugins_bounded plugs sys g ids hs hpl) hbig

/-! ## the same inside the full load (the test precedes `update_cost`) -/

theorem mergeUserFull_posList (est : LoadState → Nat → Outcome (Int × Nat)) (st st' : LoadState) (u : UserDic)
    (h : mergeUserFull est st u = .ok st') : st'.dict.posList = st.dict.posList ++ u.own := by
  unfold mergeUserFull at h
  split at h
  · cases h
  · cases h
  · split at h
    · cases h
    · cases h
    · rename_i d hd
      cases h
      exact mergeUser_posList _ d _ _ hd

theorem mergeAllFull_posList (est : LoadState → Nat → Outcome (Int × Nat)) : ∀ (us : List UserDic) (st F : LoadState),
    mergeAllFull est st us = .ok F → F.dict.posList = st.dict.posList ++ (us.map (·.own)).flatten
  | [], st, F, h => by simp [mergeAllFull] at h; subst h; simp
  | u :: rest, st, F, h => by
    unfold mergeAllFull at h
    split at h
    · rename_i st1 h1
      rw [mergeAllFull_posList est rest st1 F h, mergeUserFull_posList est st st1 u h1]
      simp [List.append_assoc]
    · cases h
    · cases h

theorem mergeAllFullV_limit_ok (est : LoadState → Nat → Outcome (Int × Nat)) : ∀ (us : List UserDic) (st F : LoadState),
    mergeAllFullV .limit est st us = .ok F →
    mergeAllFull est st us = .ok F ∧ (st.dict.posList.length ≤ U16_IDS → F.dict.posList.length ≤ U16_IDS)
  | [], st, F, h => by simp [mergeAllFullV] at h; subst h; exact ⟨rfl, id⟩
  | u :: rest, st, F, h => by
    unfold mergeAllFullV at h
    split at h
    · rename_i st1 h1
      simp only [mergeUserFullV] at h1
      split at h1
      · cases h1
      · rename_i hfit
        obtain ⟨r1, r2⟩ := mergeAllFullV_limit_ok est rest st1 F h
        refine ⟨by unfold mergeAllFull; rw [h1]; exact r1, fun _ => r2 ?_⟩
        rw [mergeUserFull_posList est st st1 u h1, List.length_append]
        omega
    · cases h
    · cases h

theorem mergeAllFullV_limit_of_fits (est : LoadState → Nat → Outcome (Int × Nat)) :
    ∀ (us : List UserDic) (st F : LoadState), mergeAllFull est st us = .ok F →
    F.dict.posList.length ≤ U16_IDS → mergeAllFullV .limit est st us = .ok F
  | [], st, F, h, _ => by simp [mergeAllFull] at h; subst h; rfl
  | u :: rest, st, F, h, hfit => by
    unfold mergeAllFull at h
    split at h
    · rename_i st1 h1
      have hF := mergeAllFull_posList est rest st1 F h
      have h1' := mergeUserFull_posList est st st1 u h1
      have hle : st.dict.posList.length + u.own.length ≤ U16_IDS := by
        have : F.dict.posList.length = st.dict.posList.length + u.own.length + ((rest.map (·.own)).flatten).length := by
          rw [hF, h1']; simp only [List.length_append]
        omega
      unfold mergeAllFullV
      simp only [mergeUserFullV]
      rw [if_neg (by omega), h1]
      exact mergeAllFullV_limit_of_fits est rest st1 F h hfit
    · cases h
    · cases h

theorem mergeAllFullV_limit_refuses (est : LoadState → Nat → Outcome (Int × Nat)) :
    ∀ (us : List UserDic) (st F : LoadState), mergeAllFull est st us = .ok F →
    st.dict.posList.length ≤ U16_IDS → U16_IDS < F.dict.posList.length →
    mergeAllFullV .limit est st us = .err .invalidPos
  | [], st, F, h, hd, hbig => by simp [mergeAllFull] at h; subst h; omega
  | u :: rest, st, F, h, hd, hbig => by
    unfold mergeAllFull at h
    split at h
    · rename_i st1 h1
      unfold mergeAllFullV
      simp only [mergeUserFullV]
      by_cases hover : st.dict.posList.length + u.own.length > U16_IDS
      · rw [if_pos hover]
      · rw [if_neg hover, h1]
        apply mergeAllFullV_limit_refuses est rest st1 F h ?_ hbig
        rw [mergeUserFull_posList est st st1 u h1, List.length_append]
        omega
    · cases h
    · cases h

/-- unfolding of a successful `loadFullV` (as `loadFull_inv`) -/
theorem loadFullV_inv (v : MergeVariant) (est : LoadState → Nat → Outcome (Int × Nat)) (sysPos : List Pos)
    (sysLex : Lexicon) (sysCosts : List Int) (nl nr : Nat) (conn : List (List (Nat × Nat))) (plugs : List (Bool × Pos))
    (nOov : Nat) (users : List UserDic) (F : LoadState)
    (h : loadFullV v est sysPos sysLex sysCosts nl nr conn plugs nOov users = .ok F) :
    ∃ set g ids, LexSet.new sysLex sysPos.length = .ok set ∧ conn.all (pairsValid nl nr) = true ∧
      loadPlugins sysPos plugs = .ok (g, ids) ∧ nOov ≠ 0 ∧
      mergeAllFullV v est ⟨⟨g, set⟩, conn.flatten, [sysCosts]⟩ users = .ok F := by
  unfold loadFullV at h
  split at h
  · cases h
  · cases h
  · rename_i set hset
    split at h
    · cases h
    · rename_i hv
      split at h
      · cases h
      · cases h
      · rename_i g ids hpl
        split at h
        · cases h
        · rename_i hn
          exact ⟨set, g, ids, hset, by simpa using hv, hpl, hn, h⟩

theorem loadFullV_of (v : MergeVariant) (est : LoadState → Nat → Outcome (Int × Nat)) (sysPos : List Pos)
    (sysLex : Lexicon) (sysCosts : List Int) (nl nr : Nat) (conn : List (List (Nat × Nat))) (plugs : List (Bool × Pos))
    (nOov : Nat) (users : List UserDic) (set : LexSet) (g : List Pos) (ids : List Nat)
    (h1 : LexSet.new sysLex sysPos.length = .ok set) (h2 : conn.all (pairsValid nl nr) = true)
    (h3 : loadPlugins sysPos plugs = .ok (g, ids)) (h4 : nOov ≠ 0) :
    loadFullV v est sysPos sysLex sysCosts nl nr conn plugs nOov users =
      mergeAllFullV v est ⟨⟨g, set⟩, conn.flatten, [sysCosts]⟩ users := by
  unfold loadFullV
  rw [h1]
  simp only [h2, h3, Bool.not_true, Bool.false_eq_true, if_false, if_neg h4]

theorem loadFullV_limit_ok (est : LoadState → Nat → Outcome (Int × Nat)) (sys : List Pos) (sysLex : Lexicon)
    (sysCosts : List Int) (nl nr : Nat) (conn : List (List (Nat × Nat))) (plugs : List (Bool × Pos)) (nOov : Nat)
    (users : List UserDic) (F : LoadState)
    (h : loadFullV .limit est sys sysLex sysCosts nl nr conn plugs nOov users = .ok F) :
    loadFull est sys sysLex sysCosts nl nr conn plugs nOov users = .ok F ∧
    (sys.length ≤ U16_IDS → F.dict.posList.length ≤ U16_IDS) := by
  obtain ⟨set, g, ids, h1, h2, h3, h4, h5⟩ := loadFullV_inv .limit est sys sysLex sysCosts nl nr conn plugs nOov users F h
  obtain ⟨r1, r2⟩ := mergeAllFullV_limit_ok est users _ F h5
  refine ⟨?_, fun hs => r2 (loadPlugins_bounded plugs sys g ids hs h3)⟩
  rw [loadFull_of est sys sysLex sysCosts nl nr conn plugs nOov users set g ids h1 h2 h3 h4]
  exact r1

theorem loadFullV_limit_of_fits (est : LoadState → Nat → Outcome (Int × Nat)) (sys : List Pos) (sysLex : Lexicon)
    (sysCosts : List Int) (nl nr : Nat) (conn : List (List (Nat × Nat))) (plugs : List (Bool × Pos)) (nOov : Nat)
    (users : List UserDic) (F : LoadState)
    (h : loadFull est sys sysLex sysCosts nl nr conn plugs nOov users = .ok F)
    (hfit : F.dict.posList.length ≤ U16_IDS) :
    loadFullV .limit est sys sysLex sysCosts nl nr conn plugs nOov users = .ok F := by
  obtain ⟨set, g, ids, h1, h2, h3, h4, h5⟩ := loadFull_inv est sys sysLex sysCosts nl nr conn plugs nOov users F h
  rw [loadFullV_of .limit est sys sysLex sysCosts nl nr conn plugs nOov users set g ids h1 h2 h3 h4]
  exact mergeAllFullV_limit_of_fits est users _ F h5 hfit

theorem loadFullV_limit_refuses (est : LoadState → Nat → Outcome (Int × Nat)) (sys : List Pos) (sysLex : Lexicon)
    (sysCosts : List Int) (nl nr : Nat) (conn : List (List (Nat × Nat))) (plugs : List (Bool × Pos)) (nOov : Nat)
    (users : List UserDic) (F : LoadState)
    (h : loadFull est sys sysLex sysCosts nl nr conn plugs nOov users = .ok F)
    (hs : sys.length ≤ U16_IDS) (hbig : U16_IDS < F.dict.posList.length) :
    loadFullV .limit est sys sysLex sysCosts nl nr conn plugs nOov users = .err .invalidPos := by
  obtain ⟨set, g, ids, h1, h2, h3, h4, h5⟩ := loadFull_inv est sys sysLex sysCosts nl nr conn plugs nOov users F h
  rw [loadFullV_of .limit est sys sysLex sysCosts nl nr conn plugs nOov users set g ids h1 h2 h3 h4]
  exact mergeAllFullV_limit_refuses est users _ F h5 (loadPlugins_bounded plugs sys g ids hs h3) hbig

/-- a POS table written by the builder and read back has fewer than 65 536 rows: the count is a `u16`
(`write_pos_table`: `real_count as u16`, `pos_list_parser`: `le_u16`) -/
theorem build_posTable_lt (pre : Option (List Pos × List SysWord)) (rows : List Row) (b : Built) (own : List Pos)
    (hb : build pre rows = .ok b) (h : readPosTable b = .ok own) : own.length < U16_IDS := by
  have hc : b.posCount < U16_IDS := by
    unfold build at hb
    simp only at hb
    split at hb
    · cases hb
    · cases hb
    · split at hb
      · cases hb
      · cases hb
      · split at hb
        · cases hb
        · cases hb
        · cases hb
          simp only [writePosTable, asU16, U16_IDS]
          exact Nat.mod_lt _ (by decide)
  unfold readPosTable at h
  split at h
  · rename_i hlen
    cases h
    rw [hlen]
    exact hc
  · cases h

end Layers
