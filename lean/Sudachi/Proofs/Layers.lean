import Sudachi.Model.Layers
/-!
# Lemmas for property C12 (layered dictionaries)
-/
namespace Layers

/-! ## WordId packing -/

theorem and_wordMask (w : Nat) : w &&& WORD_MASK = w % P28 := by
  have := Nat.and_two_pow_sub_one_eq_mod w 28
  simpa [WORD_MASK, P28] using this

theorem and_0xf (d : Nat) : d &&& 0xf = d % 16 := by
  have := Nat.and_two_pow_sub_one_eq_mod d 4
  simpa using this

/-- the bit-level packing is the arithmetic one -/
theorem mkRaw_eq (d w : Nat) : mkRaw d w = (d % 16) * P28 + w % P28 := by
  unfold mkRaw
  rw [and_wordMask, and_0xf]
  have h : w % P28 < 2 ^ 28 := by unfold P28; omega
  rw [← Nat.shiftLeft_add_eq_or_of_lt h, Nat.shiftLeft_eq]
  rfl

theorem dicOf_eq (raw : Nat) : dicOf raw = raw / P28 % 256 := by
  unfold dicOf P28
  rw [Nat.shiftRight_eq_div_pow]

theorem wordOf_eq (raw : Nat) : wordOf raw = raw % P28 := and_wordMask raw

theorem dicOf_mkRaw (d w : Nat) (hd : d < 16) : dicOf (mkRaw d w) = d := by
  rw [mkRaw_eq, dicOf_eq]; unfold P28; omega

theorem wordOf_mkRaw (d w : Nat) (hw : w < P28) : wordOf (mkRaw d w) = w := by
  rw [mkRaw_eq, wordOf_eq]; unfold P28 at *; omega

theorem wordOf_lt (raw : Nat) : wordOf raw < P28 := by
  rw [wordOf_eq]; unfold P28; omega

theorem mkRaw_dicOf_wordOf (raw : Nat) (h : raw < 4294967296) : mkRaw (dicOf raw) (wordOf raw) = raw := by
  rw [mkRaw_eq, dicOf_eq, wordOf_eq]; unfold P28; omega

theorem widNew_ok (d w : Nat) (hd : d < 16) (hw : w < P28) : widNew d w = .ok (mkRaw d w) := by
  unfold widNew
  rw [if_neg (by omega), if_neg (by omega)]

theorem widChecked_ok (d w : Nat) (hd : d < 16) (hw : w < P28) : widChecked d w = .ok (mkRaw d w) := by
  unfold widChecked
  rw [if_neg (by omega), if_neg (by omega)]
  exact widNew_ok d w hd hw

/-! ## `mapO` -/

theorem mapO_ok_of_all {α β : Type} (f : α → Outcome β) (g : α → β) :
    ∀ (l : List α), (∀ a ∈ l, f a = .ok (g a)) → mapO f l = .ok (l.map g)
  | [], _ => rfl
  | a :: as, h => by
    have h1 := h a (by simp)
    have h2 := mapO_ok_of_all f g as (fun x hx => h x (by simp [hx]))
    simp [mapO, h1, h2]

/-! ## `update_dict_id` -/

/-- what `update_dict_id` does to one id -/
def restamp (dictId id : Nat) : Nat := if dicOf id > 0 then mkRaw dictId (wordOf id) else id

theorem updateDictId_ok (split : List Nat) (dictId : Nat) (hd : dictId < 16) :
    updateDictId split dictId = .ok (split.map (restamp dictId)) := by
  unfold updateDictId
  apply mapO_ok_of_all
  intro id _
  unfold restamp
  split
  · exact widChecked_ok dictId (wordOf id) hd (wordOf_lt id)
  · rfl


/-- the "simplified" `update_dict_id` of `seeded/C12b`: `WordId::from_raw((dict_id << 28) | id.as_raw())` for a user
reference — the compiled dictionary bits are not masked out (NOT the code; kept to state what goes wrong with it) -/
def restampOr (dictId id : Nat) : Nat := if dicOf id > 0 ∧ dicOf id ≠ 15 then (dictId <<< 28) ||| id else id

/-- OR-ing without masking: a stored reference `(1, w)` lands in dictionary `d ||| 1` -/
theorem restampOr_stored (d w : Nat) (hd : d < 16) (hw : w < P28) :
    dicOf (restampOr d (mkRaw 1 w)) = d ||| 1 ∧ wordOf (restampOr d (mkRaw 1 w)) = w := by
  have h1 : dicOf (mkRaw 1 w) = 1 := dicOf_mkRaw 1 w (by omega)
  have hw' : w < 2 ^ 28 := by unfold P28 at hw; omega
  have hraw : mkRaw 1 w = (1 <<< 28) ||| w := by
    unfold mkRaw
    rw [and_wordMask, Nat.mod_eq_of_lt hw]
    rfl
  have hor : d ||| 1 < 2 ^ 4 := Nat.or_lt_two_pow (by omega) (by omega)
  have key : (d <<< 28) ||| mkRaw 1 w = (d ||| 1) * P28 + w := by
    rw [hraw, ← Nat.or_assoc, ← Nat.shiftLeft_or_distrib, ← Nat.shiftLeft_add_eq_or_of_lt hw', Nat.shiftLeft_eq]
    rfl
  unfold restampOr
  rw [h1, if_pos (by omega), key]
  constructor
  · rw [dicOf_eq]; unfold P28 at *; omega
  · rw [wordOf_eq]; unfold P28 at *; omega

/-- for in-range parts the packing is literally "dictionary in the top 4 bits, word below" and fits a `u32` -/
theorem mkRaw_bits (d w : Nat) (hd : d < 16) (hw : w < P28) :
    mkRaw d w = (d <<< 28) ||| w ∧ mkRaw d w < 4294967296 := by
  constructor
  · unfold mkRaw
    rw [and_wordMask, and_0xf, Nat.mod_eq_of_lt hw, Nat.mod_eq_of_lt hd]
  · rw [mkRaw_eq]; unfold P28 at *; omega

/-! ## `LexiconSet::append` / ids are positions -/

/-- every lexicon carries its position as id, and the two vectors are parallel -/
def IdsOk (s : LexSet) : Prop :=
  s.lexicons.length = s.posOffsets.length ∧ s.lexicons.length ≤ MAXD ∧ 0 < s.lexicons.length ∧
  ∀ (i : Nat) (l : Lexicon), s.lexicons[i]? = some l → l.lexId = i

theorem new_idsOk (sys : Lexicon) (n : Nat) (s : LexSet) (h : LexSet.new sys n = .ok s) :
    IdsOk s ∧ s.lexicons = [{ sys with lexId := 0 }] ∧ s.posOffsets = [0] ∧ s.numSystemPos = n := by
  unfold LexSet.new Lexicon.setDicId at h
  simp [MAXD] at h
  subst h
  refine ⟨⟨rfl, by simp [MAXD], by simp, ?_⟩, rfl, rfl, rfl⟩
  intro i l hl
  match i with
  | 0 => simp at hl; subst hl; rfl
  | i + 1 => simp at hl

theorem append_ok_iff (s : LexSet) (lex : Lexicon) (off : Nat) (_hs : IdsOk s) :
    (s.lexicons.length < MAXD →
      s.append lex off = .ok ⟨s.lexicons ++ [{ lex with lexId := s.lexicons.length }], s.posOffsets ++ [off], s.numSystemPos⟩) ∧
    (MAXD ≤ s.lexicons.length → s.append lex off = .err .tooManyDictionaries) := by
  constructor
  · intro h
    unfold LexSet.append LexSet.isFull Lexicon.setDicId
    have : ¬ (s.lexicons.length ≥ MAXD) := by omega
    simp only [decide_eq_true_eq, this, if_false]
    have h256 : s.lexicons.length % 256 = s.lexicons.length := by unfold MAXD at h; omega
    rw [h256]
    simp [h]
  · intro h
    unfold LexSet.append LexSet.isFull
    simp [h]

theorem append_idsOk (s s' : LexSet) (lex : Lexicon) (off : Nat) (hs : IdsOk s) (h : s.append lex off = .ok s') :
    IdsOk s' ∧ s'.lexicons = s.lexicons ++ [{ lex with lexId := s.lexicons.length }] ∧
    s'.posOffsets = s.posOffsets ++ [off] ∧ s'.numSystemPos = s.numSystemPos ∧ s.lexicons.length < MAXD := by
  by_cases hfull : MAXD ≤ s.lexicons.length
  · rw [(append_ok_iff s lex off hs).2 hfull] at h
    cases h
  · have hlt : s.lexicons.length < MAXD := by omega
    rw [(append_ok_iff s lex off hs).1 hlt] at h
    cases h
    obtain ⟨h1, h2, h3, h4⟩ := hs
    refine ⟨⟨by simp [h1], by simp; omega, by simp, ?_⟩, rfl, rfl, rfl, hlt⟩
    intro i l hl
    simp only at hl
    rw [List.getElem?_append] at hl
    split at hl
    · exact h4 i l hl
    · rename_i hge
      have : i = s.lexicons.length := by
        by_cases hi : i - s.lexicons.length = 0
        · omega
        · have : ([{ lex with lexId := s.lexicons.length }] : List Lexicon)[i - s.lexicons.length]? = none := by
            apply List.getElem?_eq_none; simp; omega
          rw [this] at hl; cases hl
      subst this
      simp at hl
      subst hl
      rfl

/-! ## plugins only append to the POS list -/

theorem registerPos_appends (g : List Pos) (p : Pos) (g' : List Pos) (id : Nat)
    (h : registerPos g p = .ok (g', id)) : ∃ ext, g' = g ++ ext := by
  unfold registerPos at h
  split at h
  · cases h
  · split at h
    · cases h; exact ⟨[], by simp⟩
    · split at h
      · cases h
      · cases h; exact ⟨[p], rfl⟩

theorem handleUserPos_appends (g : List Pos) (p : Pos) (allow : Bool) (g' : List Pos) (id : Nat)
    (h : handleUserPos g p allow = .ok (g', id)) : ∃ ext, g' = g ++ ext := by
  unfold handleUserPos at h
  split at h
  · cases h; exact ⟨[], by simp⟩
  · split at h
    · exact registerPos_appends g p g' id h
    · cases h

theorem loadPlugins_appends : ∀ (ps : List (Bool × Pos)) (g g' : List Pos) (ids : List Nat),
    loadPlugins g ps = .ok (g', ids) → ∃ ext, g' = g ++ ext
  | [], g, g', ids, h => by
    simp [loadPlugins] at h; exact ⟨[], by simp [h.1]⟩
  | (allow, p) :: rest, g, g', ids, h => by
    unfold loadPlugins at h
    split at h
    · cases h
    · cases h
    · rename_i g1 id1 h1
      split at h
      · cases h
      · cases h
      · rename_i g2 ids2 h2
        cases h
        obtain ⟨e1, he1⟩ := handleUserPos_appends g p allow g1 id1 h1
        obtain ⟨e2, he2⟩ := loadPlugins_appends rest g1 g' ids2 h2
        exact ⟨e1 ++ e2, by rw [he2, he1, List.append_assoc]⟩

/-! ## merging user dictionaries -/

/-- the own-POS lists of the first `j` user dictionaries, concatenated -/
def ownBefore (us : List (List Pos × Lexicon)) (j : Nat) : List Pos := ((us.take j).map (·.1)).flatten

theorem ownBefore_zero (us : List (List Pos × Lexicon)) : ownBefore us 0 = [] := by simp [ownBefore]

theorem ownBefore_cons_succ (u : List Pos × Lexicon) (us : List (List Pos × Lexicon)) (j : Nat) :
    ownBefore (u :: us) (j + 1) = u.1 ++ ownBefore us j := by simp [ownBefore]

theorem mergeAll_spec : ∀ (us : List (List Pos × Lexicon)) (d D : Dict), IdsOk d.set → mergeAll d us = .ok D →
    IdsOk D.set ∧
    D.posList = d.posList ++ (us.map (·.1)).flatten ∧
    D.set.numSystemPos = d.set.numSystemPos ∧
    D.set.lexicons.length = d.set.lexicons.length + us.length ∧
    (∀ i, i < d.set.lexicons.length →
        D.set.lexicons[i]? = d.set.lexicons[i]? ∧ D.set.posOffsets[i]? = d.set.posOffsets[i]?) ∧
    (∀ j own lex, us[j]? = some (own, lex) →
        D.set.lexicons[d.set.lexicons.length + j]? = some { lex with lexId := d.set.lexicons.length + j } ∧
        D.set.posOffsets[d.set.lexicons.length + j]? = some (d.posList.length + (ownBefore us j).length))
  | [], d, D, hd, h => by
    simp [mergeAll] at h; subst h
    refine ⟨hd, by simp, rfl, by simp, fun i _ => ⟨rfl, rfl⟩, ?_⟩
    intro j own lex hj; simp at hj
  | (own0, lex0) :: rest, d, D, hd, h => by
    unfold mergeAll at h
    split at h
    · rename_i d1 h1
      unfold mergeUser at h1
      split at h1
      · rename_i s1 hs1
        cases h1
        obtain ⟨hok1, hlex1, hoff1, hnsp1, hlt⟩ := append_idsOk d.set s1 lex0 d.posList.length hd hs1
        obtain ⟨r1, r2, r3, r4, r5, r6⟩ := mergeAll_spec rest ⟨d.posList ++ own0, s1⟩ D hok1 h
        have hlen1 : s1.lexicons.length = d.set.lexicons.length + 1 := by rw [hlex1]; simp
        have hlenO : d.set.lexicons.length = d.set.posOffsets.length := hd.1
        refine ⟨r1, ?_, ?_, ?_, ?_, ?_⟩
        · rw [r2]; simp [List.append_assoc]
        · rw [r3]; exact hnsp1
        · rw [r4]; simp only [hlen1, List.length_cons]; omega
        · intro i hi
          have := r5 i (by simp only [hlen1]; omega)
          simp only at this
          rw [this.1, this.2, hlex1, hoff1]
          constructor
          · rw [List.getElem?_append_left hi]
          · rw [List.getElem?_append_left (by omega)]
        · intro j own lex hj
          match j with
          | 0 =>
            simp at hj
            obtain ⟨rfl, rfl⟩ := hj
            have := r5 d.set.lexicons.length (by simp only [hlen1]; omega)
            simp only at this
            rw [Nat.add_zero, this.1, this.2, hlex1, hoff1, ownBefore_zero]
            constructor
            · rw [List.getElem?_append_right (Nat.le_refl _)]; simp
            · rw [List.getElem?_append_right (by omega)]; simp [hlenO]
          | j + 1 =>
            simp at hj
            have := r6 j own lex hj
            simp only [hlen1, List.length_append] at this
            rw [ownBefore_cons_succ, List.length_append]
            have e1 : d.set.lexicons.length + (j + 1) = d.set.lexicons.length + 1 + j := by omega
            rw [e1]
            refine ⟨this.1, ?_⟩
            rw [this.2]
            simp [Nat.add_assoc]
      · cases h1
      · cases h1
    · cases h
    · cases h

theorem mergeAll_err_full : ∀ (us : List (List Pos × Lexicon)) (d : Dict), IdsOk d.set →
    MAXD < d.set.lexicons.length + us.length → mergeAll d us = .err .tooManyDictionaries
  | [], d, hd, h => by
    have := hd.2.1; simp at h; omega
  | (own0, lex0) :: rest, d, hd, h => by
    unfold mergeAll mergeUser
    by_cases hfull : MAXD ≤ d.set.lexicons.length
    · rw [(append_ok_iff d.set lex0 d.posList.length hd).2 hfull]
    · have hlt : d.set.lexicons.length < MAXD := by omega
      rw [(append_ok_iff d.set lex0 d.posList.length hd).1 hlt]
      simp only
      have hok := (append_idsOk d.set _ lex0 d.posList.length hd ((append_ok_iff d.set lex0 d.posList.length hd).1 hlt)).1
      apply mergeAll_err_full rest _ hok
      simp at h ⊢; omega

theorem mergeAll_ok_of_room : ∀ (us : List (List Pos × Lexicon)) (d : Dict), IdsOk d.set →
    d.set.lexicons.length + us.length ≤ MAXD → ∃ D, mergeAll d us = .ok D
  | [], d, _, _ => ⟨d, rfl⟩
  | (own0, lex0) :: rest, d, hd, h => by
    unfold mergeAll mergeUser
    have hlt : d.set.lexicons.length < MAXD := by simp at h; omega
    rw [(append_ok_iff d.set lex0 d.posList.length hd).1 hlt]
    simp only
    have hok := (append_idsOk d.set _ lex0 d.posList.length hd ((append_ok_iff d.set lex0 d.posList.length hd).1 hlt)).1
    apply mergeAll_ok_of_room rest _ hok
    simp at h ⊢; omega

/-! ## `load` -/

theorem load_spec (sys : List Pos) (sysLex : Lexicon) (plugs : List (Bool × Pos))
    (us : List (List Pos × Lexicon)) (D : Dict) (h : load sys sysLex plugs us = .ok D) :
    ∃ plug ids, loadPlugins sys plugs = .ok (sys ++ plug, ids) ∧
      IdsOk D.set ∧
      D.posList = sys ++ plug ++ (us.map (·.1)).flatten ∧
      D.set.numSystemPos = sys.length ∧
      D.set.lexicons.length = 1 + us.length ∧
      D.set.lexicons[0]? = some { sysLex with lexId := 0 } ∧
      (∀ j own lex, us[j]? = some (own, lex) →
        D.set.lexicons[1 + j]? = some { lex with lexId := 1 + j } ∧
        D.set.posOffsets[1 + j]? = some (sys.length + plug.length + (ownBefore us j).length)) := by
  unfold load at h
  split at h
  · cases h
  · cases h
  · rename_i set hset
    obtain ⟨hok, hlex, hoffs, hnsp⟩ := new_idsOk sysLex sys.length set hset
    split at h
    · cases h
    · cases h
    · rename_i g ids hpl
      obtain ⟨plug, hg⟩ := loadPlugins_appends plugs sys g ids hpl
      subst hg
      obtain ⟨r1, r2, r3, r4, r5, r6⟩ := mergeAll_spec us ⟨sys ++ plug, set⟩ D hok h
      have hl1 : set.lexicons.length = 1 := by rw [hlex]; rfl
      refine ⟨plug, ids, hpl, r1, r2, ?_, ?_, ?_, ?_⟩
      · rw [r3]; exact hnsp
      · rw [r4]; simp only [hl1]
      · have := (r5 0 (by simp only [hl1]; omega)).1
        rw [this]; simp only [hlex]; rfl
      · intro j own lex hj
        have := r6 j own lex hj
        simp only [hl1, List.length_append] at this
        exact this

/-! ## lookup -/

/-- the entries a lexicon contributes: its hits stamped with its id -/
def stamped (l : Lexicon) : List (Nat × Nat) := l.hits.map (fun h => (mkRaw l.lexId h.1, h.2))

theorem lexicon_lookup_ok (l : Lexicon) (hid : l.lexId < MAXD) (hw : ∀ h ∈ l.hits, h.1 < P28) :
    l.lookup = .ok (stamped l) := by
  unfold Lexicon.lookup stamped
  rw [if_neg (by omega)]
  apply mapO_ok_of_all
  intro h hh
  rw [widNew_ok l.lexId h.1 (by unfold MAXD at hid; omega) (hw h hh)]

theorem concatO_ok : ∀ (ls : List Lexicon), (∀ l ∈ ls, l.lookup = .ok (stamped l)) →
    concatO (ls.map Lexicon.lookup) = .ok (ls.flatMap stamped)
  | [], _ => rfl
  | l :: ls, h => by
    have h1 := h l (by simp)
    have h2 := concatO_ok ls (fun x hx => h x (by simp [hx]))
    simp [concatO, h1, h2]

theorem lookup_spec (s : LexSet) (hs : IdsOk s) (hw : ∀ l ∈ s.lexicons, ∀ h ∈ l.hits, h.1 < P28) :
    s.lookup = .ok (s.lexicons.reverse.flatMap stamped) := by
  unfold LexSet.lookup
  apply concatO_ok
  intro l hl
  have hl' : l ∈ s.lexicons := by simpa using hl
  obtain ⟨i, hi, hget⟩ := List.getElem_of_mem hl'
  have hid : l.lexId = i := hs.2.2.2 i l (by rw [List.getElem?_eq_getElem hi, hget])
  apply lexicon_lookup_ok l (by have := hs.2.1; omega) (hw l hl')

/-! ## word info -/

theorem getWordInfo_ok (s : LexSet) (id : Nat) (lex : Lexicon) (stored : Word) (p : Nat)
    (hd : dicOf id < 16) (hl : s.lexicons[dicOf id]? = some lex) (hw : lex.words[wordOf id]? = some stored)
    (hp : rebasePos s (dicOf id) stored.posId = .ok p) :
    s.getWordInfo id = .ok ⟨p, stored.a.map (restamp (dicOf id)), stored.b.map (restamp (dicOf id)),
      stored.w.map (restamp (dicOf id))⟩ := by
  unfold LexSet.getWordInfo
  simp only [hl, hw, hp, updateDictId_ok _ _ hd]

theorem getWordInfo_inv (s : LexSet) (id : Nat) (wi : Word) (hd : dicOf id < 16) (h : s.getWordInfo id = .ok wi) :
    ∃ lex stored, s.lexicons[dicOf id]? = some lex ∧ lex.words[wordOf id]? = some stored ∧
      rebasePos s (dicOf id) stored.posId = .ok wi.posId ∧
      wi.a = stored.a.map (restamp (dicOf id)) ∧ wi.b = stored.b.map (restamp (dicOf id)) ∧
      wi.w = stored.w.map (restamp (dicOf id)) := by
  unfold LexSet.getWordInfo at h
  simp only [updateDictId_ok _ _ hd] at h
  split at h
  · cases h
  · rename_i lex hl
    split at h
    · cases h
    · rename_i stored hw
      split at h
      · cases h
      · cases h
      · rename_i p hp
        cases h
        exact ⟨lex, stored, hl, hw, hp, rfl, rfl, rfl⟩

theorem restamp_sys (d t : Nat) (h : dicOf t = 0) : restamp d t = t := by
  unfold restamp; simp [h]

theorem restamp_user (d t : Nat) (hd : d < 16) (h : dicOf t > 0) :
    dicOf (restamp d t) = d ∧ wordOf (restamp d t) = wordOf t := by
  unfold restamp
  rw [if_pos h]
  exact ⟨dicOf_mkRaw d _ hd, wordOf_mkRaw d _ (wordOf_lt t)⟩

theorem getWordInfo_sys_only (s s' : LexSet) (id : Nat) (hid : dicOf id = 0)
    (h : s.lexicons[0]? = s'.lexicons[0]?) : s.getWordInfo id = s'.getWordInfo id := by
  unfold LexSet.getWordInfo rebasePos
  simp only [hid, h]
  simp

end Layers
