import Sudachi.Proofs.NumericLang
/-!
# The digit content of a `StringNumber` (C15, first clause, unit notation)

`NumericLang` knows WHERE a `StringNumber` has its digits (`SN.hi`, `SN.avail`).  This file adds
WHAT the digits are:

* a positional number `PN` = an ASCII digit string and the decimal exponent of its last digit;
  `SN.Rep s x`: the `StringNumber` `s` holds exactly the digits of `x` at the positions of `x`
  (whatever combination of `scale` and `point` it uses for that);
* content lemmas for `normalize_scale`, `shift_scale`, `add`, `to_string`
  (`rep_normalize`, `rep_shift`, `rep_add`, `rep_toStr`): `add` writes the digits of the first
  number, the zeros of the gap, the digits of the second number; `to_string` is `PN.render`.
-/
namespace Numeric

/-- a positional number: the digits `ds` (most significant first), the last one standing at the
decimal position `ex` (negative: fraction digits) -/
structure PN where
  ds : List Char
  ex : Int
deriving DecidableEq, Repr

/-- the decimal positions below `hi` are the ones occupied -/
def PN.hi (x : PN) : Int := (x.ds.length : Int) + x.ex
/-- multiplication by `10^e` -/
def PN.shift (x : PN) (e : Nat) : PN := ⟨x.ds, x.ex + (e : Int)⟩
/-- `y` written below `x`: the digits of `x`, the zeros of the gap, the digits of `y` -/
def PN.join (x y : PN) : PN := ⟨x.ds ++ List.replicate (x.ex - y.hi).toNat '0' ++ y.ds, y.ex⟩

/-- the `StringNumber` `s` holds the positional number `x` -/
def SN.Rep (s : SN) (x : PN) : Prop := s.Good ∧ s.bad = false ∧ s.sig = x.ds ∧ s.avail = x.ex

theorem good_hi_eq (s : SN) (h : s.Good) : s.hi = (s.sig.length : Int) + s.avail := by
  unfold SN.hi SN.avail SN.fracLen
  cases hp : s.point with
  | none => simp only; omega
  | some p =>
    have := (h.2 p hp).2
    simp only
    omega

theorem rep_hi (s : SN) (x : PN) (h : s.Rep x) : s.hi = x.hi := by
  obtain ⟨g, _, hs, ha⟩ := h
  rw [good_hi_eq s g, hs, ha]; rfl

theorem normalize_bad (s : SN) (h : s.Good) : s.normalizeScale.bad = s.bad := by
  cases hp : s.point with
  | none => rw [normalize_none s hp]
  | some p =>
    have hle := (h.2 p hp).2
    by_cases hs : s.sig.length - p > s.scale
    · rw [normalize_some_gt s p hp hle hs]
    · rw [normalize_some_le s p hp hle hs]

/-- **`normalize_scale` keeps the number** -/
theorem rep_normalize (s : SN) (x : PN) (h : s.Rep x) : s.normalizeScale.Rep x := by
  obtain ⟨g, hb, hs, ha⟩ := h
  obtain ⟨g', _, ha', _, _, _, hs'⟩ := normalize_good s g
  exact ⟨g', by rw [normalize_bad s g, hb], by rw [hs', hs], by rw [ha', ha]⟩

/-- after `normalize_scale`: no point, or no scale and the point strictly inside the digits -/
theorem normalize_form (s : SN) (h : s.Good) :
    s.normalizeScale.point = none ∨
    ∃ p, s.normalizeScale.point = some p ∧ s.normalizeScale.scale = 0 ∧ 1 ≤ p ∧ p < s.sig.length := by
  cases hp : s.point with
  | none => left; rw [normalize_none s hp]; exact hp
  | some p =>
    obtain ⟨h1, hle⟩ := h.2 p hp
    by_cases hs : s.sig.length - p > s.scale
    · right
      rw [normalize_some_gt s p hp hle hs]
      exact ⟨p + s.scale, rfl, rfl, by omega, by omega⟩
    · left
      rw [normalize_some_le s p hp hle hs]

theorem normalize_idem (s : SN) (h : s.Good) : s.normalizeScale.normalizeScale = s.normalizeScale := by
  have g' := (normalize_good s h).1
  have hsig := normalizeScale_sig s
  rcases normalize_form s h with hn | ⟨p, hp, h0, h1, h2⟩
  · exact normalize_none _ hn
  · rw [normalize_some_gt _ p hp (by rw [hsig]; omega) (by rw [hsig, h0]; omega)]
    rcases hq : s.normalizeScale with ⟨sg, sc, pt, az, bd⟩
    rw [hq] at hp h0
    simp only at hp h0
    subst hp h0
    rfl

/-- **`shift_scale` of a non-zero number multiplies by `10^e`** -/
theorem rep_shift (s : SN) (x : PN) (e : Nat) (h : s.Rep x) : (s.shiftScale e).Rep (x.shift e) := by
  obtain ⟨g, hb, hs, ha⟩ := h
  obtain ⟨g', _, ha'⟩ := shiftScale_good s e g
  have hz : s.isZero = false := by
    cases hh : s.isZero
    · rfl
    · exact absurd ((isZero_iff s).1 hh) g.1
  refine ⟨g', ?_, ?_, ?_⟩
  · simp [SN.shiftScale, hz, hb]
  · simp [SN.shiftScale, hz, hs, PN.shift]
  · rw [ha', ha]; rfl

/-- the cleared / fresh number -/
def SN.Zero (s : SN) : Prop := s.sig = [] ∧ s.point = none ∧ s.scale = 0 ∧ s.bad = false

/-- **`shift_scale` of zero writes the implicit coefficient `1`** -/
theorem rep_shift_zero (s : SN) (e : Nat) (h : s.Zero) : (s.shiftScale e).Rep ⟨['1'], (e : Int)⟩ := by
  obtain ⟨h1, h2, h3, h4⟩ := h
  obtain ⟨g, _, ha⟩ := shiftScale_zero s e h1 h2 h3
  refine ⟨g, ?_, ?_, ha⟩
  · simp [SN.shiftScale, SN.isZero, h1, h4]
  · simp [SN.shiftScale, SN.isZero, h1]

/-- **`add` of two non-zero numbers, the second fitting below the first**: succeeds; the sum holds
the digits of the first, the zeros of the gap, the digits of the second; the argument (normalised
by `int_length`) still holds its number -/
theorem rep_add (a b : SN) (x y : PN) (ha : a.Rep x) (hb : b.Rep y) (hfit : y.hi ≤ x.ex) :
    (a.add b).1 = true ∧ (a.add b).2.1.Rep (x.join y) ∧ (a.add b).2.2.Rep y := by
  have hb' := rep_normalize b y hb
  have ha' := rep_normalize a x ha
  obtain ⟨ga, ba, sa, aa⟩ := ha
  obtain ⟨gb, bb, sb, ab⟩ := hb
  have hbhi : b.hi = y.hi := rep_hi b y ⟨gb, bb, sb, ab⟩
  obtain ⟨k1, k2⟩ := add_good a b ga gb
  have hok : (a.add b).1 = true := k1.2 (by rw [hbhi, aa]; exact hfit)
  obtain ⟨r1, _, r3⟩ := k2 hok
  obtain ⟨_, _, _, _, n5, _, n7⟩ := normalize_good a ga
  obtain ⟨_, _, _, m4, _, _, m7⟩ := normalize_good b gb
  have hypos := good_hi_pos b gb
  have hle : b.normalizeScale.intLen ≤ a.normalizeScale.scale := by omega
  have hfill : a.normalizeScale.scale - b.normalizeScale.intLen = (x.ex - y.hi).toNat := by omega
  rw [add_nz a b ga.1 gb.1] at hok r1 r3 ⊢
  unfold SN.addNZ at hok r1 r3 ⊢
  simp only [hle, if_true] at hok r1 r3 ⊢
  refine ⟨trivial, ⟨r1, ?_, ?_, by rw [r3, ab]; rfl⟩, hb'⟩
  · exact ha'.2.1
  · simp only [PN.join, n7, m7, sa, sb, hfill]

/-- `add` when the second number is zero: nothing happens -/
theorem add_zero_right' (a b : SN) (hb : b.sig = []) : a.add b = (true, a, b) := add_zero_right a b hb

/-- `add` into zero: the number is copied -/
theorem rep_add_zero_left (a b : SN) (y : PN) (ha : a.Zero) (hb : b.Rep y) :
    (a.add b).1 = true ∧ (a.add b).2.1.Rep y ∧ (a.add b).2.2 = b := by
  obtain ⟨h1, _, _, h4⟩ := ha
  obtain ⟨gb, bb, sb, ab⟩ := hb
  rw [add_zero_left a b h1 gb.1]
  refine ⟨rfl, ⟨⟨gb.1, gb.2⟩, h4, sb, ?_⟩, rfl⟩
  rw [← ab]
  simp [SN.avail, SN.fracLen]

theorem toStr_normalize (s : SN) (h : s.Good) : s.toStr = s.normalizeScale.toStr := by
  unfold SN.toStr
  simp only [SN.isZero, normalizeScale_sig, normalize_idem s h]

/-- rendering of a positional number: zeros up to the units, or the point in front of the fraction
digits, trailing fraction zeros (and then the point) dropped -/
def PN.render (x : PN) : List Char :=
  if 0 ≤ x.ex then x.ds ++ List.replicate x.ex.toNat '0'
  else
    x.ds.take (x.ds.length - (-x.ex).toNat) ++ fracPart (trimZeros (x.ds.drop (x.ds.length - (-x.ex).toNat)))

/-- **`to_string` renders the number held** -/
theorem rep_toStr (s : SN) (x : PN) (h : s.Rep x) (hd : ∀ c ∈ x.ds, c ≠ '.') : s.toStr = some x.render := by
  rw [toStr_normalize s h.1]
  have hn := rep_normalize s x h
  have hform := normalize_form s h.1
  have hsig0 := normalizeScale_sig s
  generalize s.normalizeScale = t at hn hform hsig0
  obtain ⟨g, hb, hs, ha⟩ := hn
  have hz : t.sig.isEmpty = false := by
    cases hh : t.sig with
    | nil => exact absurd hh g.1
    | cons a b => rfl
  rcases hform with hp | ⟨p, hp, h0, h1, h2⟩
  · have hex : x.ex = (t.scale : Int) := by rw [← ha]; simp [SN.avail, SN.fracLen, hp]
    unfold SN.toStr
    rw [normalize_none t hp]
    simp only [SN.isZero, hz, hb, hp, Bool.false_eq_true, if_false]
    unfold PN.render
    have : (0 : Int) ≤ x.ex := by omega
    simp only [hex, Int.toNat_natCast, ← hs]
    by_cases hsc : t.scale > 0
    · simp [hsc]
    · have : t.scale = 0 := by omega
      simp [this]
  · rw [← hsig0] at h2
    have hlen : t.sig.length = x.ds.length := by rw [hs]
    have hex : x.ex = -((t.sig.length - p : Nat) : Int) := by
      rw [← ha]; simp [SN.avail, SN.fracLen, hp, h0]
    have hk : x.ds.length - (-x.ex).toNat = p := by omega
    have hneg : ¬ (0 : Int) ≤ x.ex := by omega
    unfold PN.render
    simp only [hneg, if_false, hk]
    have hsplit : t.sig = x.ds.take p ++ x.ds.drop p := by rw [hs, List.take_append_drop]
    apply toStr_point t (x.ds.take p) (x.ds.drop p) hsplit
    · intro hnil
      have : (x.ds.take p).length = min p x.ds.length := List.length_take
      rw [hnil, List.length_nil] at this
      omega
    · intro hnil
      have : (x.ds.drop p).length = x.ds.length - p := List.length_drop
      rw [hnil, List.length_nil] at this
      omega
    · intro c hc
      exact hd c (List.mem_of_mem_drop hc)
    · rw [hp]; simp; omega
    · exact h0
    · exact hb

/-! ## forward simulation: what the parser holds after a written number, a unit, a group -/

variable (v : Variant)

/-- the parser at the start of a number: flags reset, `tmp` empty -/
def AtStart (p : Parser) : Prop :=
  p.isFirstDigit = true ∧ p.hasComma = false ∧ p.hasHangingPoint = false ∧ p.digitLength = 0 ∧
  p.tmp.sig = [] ∧ p.tmp.point = none ∧ p.tmp.scale = 0 ∧ p.tmp.allZero = true ∧ p.tmp.bad = false

theorem atStart_new : AtStart Parser.new := by simp [AtStart, Parser.new]

def Parser.pushInt (p : Parser) (i : IntPart) : Parser := (p.pushDigits i.g1).pushGroups i.gs

theorem canonDigits_ne (ds : List Dg) (h : ds ≠ []) : canonDigits ds ≠ [] := by
  cases ds with
  | nil => exact absurd rfl h
  | cons a b => simp [canonDigits]

/-- `feed_int` from any parser that stands at the start of a number -/
theorem feed_int_from (p : Parser) (hs : AtStart p) (i : IntPart) (hwf : i.WF) (rest : List Char) (n : Nat) :
    p.feed v (renderInt i ++ rest) n = (p.pushInt i).feed v rest (n + i.g1.length + 4 * i.gs.length) := by
  obtain ⟨a1, a2, a3, a4, a5, a6, a7, a8, a9⟩ := hs
  obtain ⟨h1, h2, h3⟩ := hwf
  simp only [renderInt, List.append_assoc, Parser.pushInt]
  rw [feed_digits_append]
  cases hgs : i.gs with
  | nil => simp [renderGroups, Parser.pushGroups]
  | cons g gs =>
    obtain ⟨hl, hz⟩ := h2 (by rw [hgs]; simp)
    obtain ⟨f1, _⟩ := pushDigits_flags i.g1 h1 p
    obtain ⟨_, s2, _, _, _, s6, _, s8⟩ := pushDigits_tmp_scale i.g1 p
    have hsig := pushDigits_tmp_sig i.g1 p
    have haz := pushDigits_allZero i.g1 p
    have hpt : (p.pushDigits i.g1).tmp.point = none := by rw [s2]; exact a6
    have hcne := canonDigits_ne i.g1 h1
    have hc : (p.pushDigits i.g1).checkComma v = true := by
      have e1 : (p.pushDigits i.g1).tmp.isZero = false := by
        rw [SN.isZero, hsig, a5]
        cases hh : canonDigits i.g1 with
        | nil => exact absurd hh hcne
        | cons a b => simp
      simp only [Parser.checkComma, f1, s6, s8, e1, haz, hz, hpt, a2, a4, a8]
      simp
      omega
    have := feed_groups v (g :: gs) (by rw [← hgs]; exact h3) (p.pushDigits i.g1) f1 hc hpt rest (n + i.g1.length)
    rw [this]

theorem pushGroups_err (gs : List (List Dg)) (p : Parser) : (p.pushGroups gs).err = p.err := by
  induction gs generalizing p with
  | nil => simp [Parser.pushGroups]
  | cons g gs ih =>
    have := ih (p.pushComma.pushDigits g)
    simp only [Parser.pushGroups, List.foldl_cons] at this ⊢
    rw [this, (pushDigits_tmp_scale g p.pushComma).2.2.2.2.2.2.1]
    rfl

theorem pushInt_props (p : Parser) (hs : AtStart p) (i : IntPart) (hwf : i.WF) :
    (p.pushInt i).total = p.total ∧ (p.pushInt i).subtotal = p.subtotal ∧ (p.pushInt i).tmp.sig = canonInt i ∧
    (p.pushInt i).tmp.scale = 0 ∧ (p.pushInt i).tmp.point = none ∧ (p.pushInt i).tmp.bad = false ∧
    (p.pushInt i).isFirstDigit = false ∧ (p.pushInt i).hasHangingPoint = false ∧
    ((p.pushInt i).hasComma = false ∨ ((p.pushInt i).hasComma = true ∧ (p.pushInt i).digitLength = 3)) ∧
    canonInt i ≠ [] ∧ (p.pushInt i).hasUnit = p.hasUnit ∧ (p.pushInt i).lastLarge = p.lastLarge ∧
    (p.pushInt i).err = p.err := by
  obtain ⟨a1, a2, a3, a4, a5, a6, a7, a8, a9⟩ := hs
  obtain ⟨h1, h2, h3⟩ := hwf
  obtain ⟨g1, g2, g3, g4, g5, g6⟩ := pushGroups_preserved i.gs (p.pushDigits i.g1)
  obtain ⟨s1, s2, s3, s4, s5, s6, s7, s8⟩ := pushDigits_tmp_scale i.g1 p
  obtain ⟨f1, f2⟩ := pushDigits_flags i.g1 h1 p
  have hsig := pushDigits_tmp_sig i.g1 p
  have hcne : canonInt i ≠ [] := by
    cases hh : i.g1 with
    | nil => exact absurd hh h1
    | cons a b => simp [canonInt, canonDigits, hh]
  refine ⟨by rw [Parser.pushInt, g5, s4], by rw [Parser.pushInt, g6, s5], ?_, by rw [Parser.pushInt, g2, s1, a7],
    by rw [Parser.pushInt, g3, s2, a6], by rw [Parser.pushInt, g4, s3, a9], ?_, ?_, ?_, hcne,
    by rw [Parser.pushInt, (pushGroups_unit i.gs _).1, (pushDigits_unit i.g1 _).1],
    by rw [Parser.pushInt, (pushGroups_unit i.gs _).2, (pushDigits_unit i.g1 _).2],
    by rw [Parser.pushInt, pushGroups_err, s7]⟩
  · rw [Parser.pushInt, g1, hsig, a5]; simp [canonInt, canonDigits]
  · cases hgs : i.gs with
    | nil => simpa [Parser.pushInt, hgs, Parser.pushGroups] using f1
    | cons g gs =>
      have := pushGroups_inGroup i.gs h3 (by rw [hgs]; simp) (p.pushDigits i.g1)
      rw [hgs] at this
      simpa [Parser.pushInt, hgs] using this.2.2.1
  · cases hgs : i.gs with
    | nil => simpa [Parser.pushInt, hgs, Parser.pushGroups] using f2
    | cons g gs =>
      have := pushGroups_inGroup i.gs h3 (by rw [hgs]; simp) (p.pushDigits i.g1)
      rw [hgs] at this
      simpa [Parser.pushInt, hgs] using this.2.2.2
  · cases hgs : i.gs with
    | nil =>
      left
      simp only [Parser.pushInt, hgs, Parser.pushGroups, List.foldl_nil]
      rw [s6]; exact a2
    | cons g gs =>
      right
      have := pushGroups_inGroup i.gs h3 (by rw [hgs]; simp) (p.pushDigits i.g1)
      rw [hgs] at this
      exact ⟨by simpa [Parser.pushInt, hgs] using this.1, by simpa [Parser.pushInt, hgs] using this.2.1⟩

/-- the parser after a written number (integer part, optional fraction) -/
def Parser.pushRun (p : Parser) (r : Run) : Parser :=
  if r.frac.isEmpty then p.pushInt r.int else ((p.pushInt r.int).pushPoint).pushDigits r.frac

/-- a written number as a positional number: all its digits, the last at `-(fraction digits)` -/
def runPN (r : Run) : PN := ⟨canonInt r.int ++ canonDigits r.frac, -(r.frac.length : Int)⟩

theorem feed_run (p : Parser) (hs : AtStart p) (r : Run) (hwf : r.WF) (rest : List Char) (n : Nat) :
    ∃ m, p.feed v (renderRun r ++ rest) n = (p.pushRun r).feed v rest m := by
  obtain ⟨_, _, _, p4, p5, _, p7, _, p9, _, _, _, _⟩ := pushInt_props p hs r.int hwf
  cases hfr : r.frac with
  | nil =>
    refine ⟨n + r.int.g1.length + 4 * r.int.gs.length, ?_⟩
    simp only [renderRun, hfr, List.isEmpty_nil, if_true, List.append_nil, Parser.pushRun]
    exact feed_int_from v p hs r.int hwf rest n
  | cons f fs =>
    refine ⟨n + r.int.g1.length + 4 * r.int.gs.length + 1 + (f :: fs).length, ?_⟩
    simp only [renderRun, hfr, List.isEmpty_cons, Bool.false_eq_true, if_false, Parser.pushRun, List.append_assoc,
      List.cons_append]
    rw [feed_int_from v p hs r.int hwf]
    have hpt : (p.pushInt r.int).append v '.' = (true, (p.pushInt r.int).pushPoint) := by
      apply append_point v _ p7 _ p4 p5
      rcases p9 with h | h
      · exact Or.inl h
      · right
        simp [Parser.checkComma, p7, h.1, h.2, p5]
    simp only [Parser.feed, hpt]
    rw [feed_digits_append]

theorem canonInt_length (i : IntPart) : (canonInt i).length = i.len := by
  simp only [canonInt, canonDigits, List.length_map, List.length_append, IntPart.len]

theorem pushRun_props (p : Parser) (hs : AtStart p) (r : Run) (hwf : r.WF) :
    (p.pushRun r).total = p.total ∧ (p.pushRun r).subtotal = p.subtotal ∧ (p.pushRun r).hasUnit = p.hasUnit ∧
    (p.pushRun r).lastLarge = p.lastLarge ∧ (p.pushRun r).err = p.err ∧ (p.pushRun r).hasHangingPoint = false ∧
    ((p.pushRun r).hasComma = true → (p.pushRun r).digitLength = 3) ∧ (p.pushRun r).tmp.Rep (runPN r) := by
  obtain ⟨p1, p2, p3, p4, p5, p6, p7, p8, p9, p10, p11, p12, p13⟩ := pushInt_props p hs r.int hwf
  cases hfr : r.frac with
  | nil =>
    simp only [Parser.pushRun, hfr, List.isEmpty_nil, if_true]
    refine ⟨p1, p2, p11, p12, p13, p8, ?_, ?_⟩
    · intro hc
      rcases p9 with h | h
      · rw [h] at hc; cases hc
      · exact h.2
    · refine ⟨⟨by rw [p3]; exact p10, by simp [p5]⟩, p6, ?_, ?_⟩
      · simp [runPN, hfr, p3, canonDigits]
      · simp [runPN, hfr, SN.avail, SN.fracLen, p4, p5]
  | cons f fs =>
    simp only [Parser.pushRun, hfr, List.isEmpty_cons, Bool.false_eq_true, if_false]
    obtain ⟨s1, s2, s3, s4, s5, s6, s7, _⟩ := pushDigits_tmp_scale (f :: fs) (p.pushInt r.int).pushPoint
    obtain ⟨_, f2⟩ := pushDigits_flags (f :: fs) (by simp) (p.pushInt r.int).pushPoint
    obtain ⟨u1, u2⟩ := pushDigits_unit (f :: fs) (p.pushInt r.int).pushPoint
    have hsig := pushDigits_tmp_sig (f :: fs) (p.pushInt r.int).pushPoint
    have hpos : 0 < (canonInt r.int).length := List.length_pos_iff.mpr p10
    refine ⟨by rw [s4]; exact p1, by rw [s5]; exact p2, by rw [u1]; exact p11, by rw [u2]; exact p12,
      by rw [s7]; exact p13, f2, ?_, ?_⟩
    · intro hc; rw [s6] at hc; simp [Parser.pushPoint] at hc
    · refine ⟨⟨?_, ?_⟩, ?_, ?_, ?_⟩
      · rw [hsig]; simp [Parser.pushPoint, p3, canonDigits]
      · intro q hq
        rw [s2] at hq
        simp only [Parser.pushPoint, p3, Option.some.injEq] at hq
        rw [hsig]
        simp only [Parser.pushPoint, p3, List.length_append]
        omega
      · rw [s3]; simpa [Parser.pushPoint] using p6
      · rw [hsig]; simp [Parser.pushPoint, p3, runPN, hfr]
      · simp only [SN.avail, SN.fracLen, s1, s2, hsig]
        simp [Parser.pushPoint, p3, p4, runPN, hfr, canonDigits]

/-- an optional coefficient -/
def Parser.pushCoef (p : Parser) : Option Run → Parser
  | none => p
  | some r => p.pushRun r

/-- a `StringNumber` that holds an optional positional number (`none`: it is cleared) -/
def SN.RepO (s : SN) : Option PN → Prop
  | none => s.Zero
  | some x => s.Rep x

theorem feed_coef (p : Parser) (hs : AtStart p) (c : Option Run) (hwf : coefWF c) (rest : List Char) (n : Nat) :
    ∃ m, p.feed v (renderCoef c ++ rest) n = (p.pushCoef c).feed v rest m := by
  cases c with
  | none => exact ⟨n, by simp [renderCoef, Parser.pushCoef]⟩
  | some r => exact feed_run v p hs r hwf rest n

theorem pushCoef_props (p : Parser) (hs : AtStart p) (c : Option Run) (hwf : coefWF c) :
    (p.pushCoef c).total = p.total ∧ (p.pushCoef c).subtotal = p.subtotal ∧ (p.pushCoef c).hasUnit = p.hasUnit ∧
    (p.pushCoef c).lastLarge = p.lastLarge ∧ (p.pushCoef c).err = p.err ∧ (p.pushCoef c).hasHangingPoint = false ∧
    ((p.pushCoef c).hasComma = true → (p.pushCoef c).digitLength = 3) ∧ (p.pushCoef c).tmp.RepO (c.map runPN) := by
  cases c with
  | none =>
    obtain ⟨a1, a2, a3, a4, a5, a6, a7, a8, a9⟩ := hs
    refine ⟨rfl, rfl, rfl, rfl, rfl, a3, ?_, ⟨a5, a6, a7, a9⟩⟩
    intro hc; simp only [Parser.pushCoef] at hc; rw [a2] at hc; cases hc
  | some r => exact pushRun_props p hs r hwf

/-! ### units -/

/-- the term `coefficient × 10^e`; a unit without coefficient counts as `1` -/
def termPN (c : Option Run) (e : Nat) : PN :=
  match c with
  | none => ⟨['1'], (e : Int)⟩
  | some r => (runPN r).shift e

theorem shift_repO (s : SN) (c : Option Run) (e : Nat) (h : s.RepO (c.map runPN)) :
    (s.shiftScale e).Rep (termPN c e) := by
  cases c with
  | none => exact rep_shift_zero s e h
  | some r => exact rep_shift s (runPN r) e h

/-- `y` written below whatever is there -/
def joinO : Option PN → PN → PN
  | none, y => y
  | some x, y => x.join y
def joinOO (o : Option PN) : Option PN → Option PN
  | none => o
  | some y => some (joinO o y)
/-- `y` fits below `o` -/
def FitO (o : Option PN) (y : PN) : Prop := ∀ x, o = some x → y.hi ≤ x.ex

/-- **`add`, all cases**: zero or non-zero accumulator, zero or non-zero argument that fits -/
theorem add_fwd (a b : SN) (oa ob : Option PN) (ha : a.RepO oa) (hb : b.RepO ob)
    (hfit : ∀ y, ob = some y → FitO oa y) :
    (a.add b).1 = true ∧ (a.add b).2.1.RepO (joinOO oa ob) ∧ (a.add b).2.2.bad = false := by
  cases ob with
  | none =>
    rw [add_zero_right a b hb.1]
    exact ⟨rfl, ha, hb.2.2.2⟩
  | some y =>
    cases oa with
    | none =>
      obtain ⟨k1, k2, k3⟩ := rep_add_zero_left a b y ha hb
      exact ⟨k1, k2, by rw [k3]; exact hb.2.1⟩
    | some x =>
      obtain ⟨k1, k2, k3⟩ := rep_add a b x y ha hb (hfit y rfl x rfl)
      exact ⟨k1, k2, k3.2.1⟩

theorem clear_zero (s : SN) (h : s.bad = false) : s.clear.Zero := by
  simp [SN.Zero, SN.clear, h]

/-- the parser after an accepted small unit -/
def Parser.afterSmall (p : Parser) (u : SmallU) : Parser :=
  let r := p.subtotal.add (p.tmp.shiftScale u.exp)
  { p with subtotal := r.2.1, tmp := r.2.2.clear, isFirstDigit := true, digitLength := 0, hasComma := false,
           hasUnit := v.f5 || p.hasUnit }

/-- the parser after an accepted large unit -/
def Parser.afterLarge (p : Parser) (u : LargeU) : Parser :=
  let r := p.subtotal.add p.tmp
  let r2 := p.total.add (r.2.1.shiftScale u.exp)
  { p with total := r2.2.1, subtotal := r2.2.2.clear, tmp := r.2.2.clear, isFirstDigit := true, digitLength := 0,
           hasComma := false, lastLarge := if v.f4 then some (-(u.exp : Int)) else p.lastLarge,
           hasUnit := v.f5 || p.hasUnit }

/-- a small unit after a complete coefficient (or none), when the term fits below the subtotal -/
theorem append_small_fwd (p : Parser) (u : SmallU) (hh : p.hasHangingPoint = false)
    (hc : p.hasComma = true → p.digitLength = 3)
    (hok : (p.subtotal.add (p.tmp.shiftScale u.exp)).1 = true) :
    p.append v u.char = (true, p.afterSmall v u) := by
  have hexp : (-(-(u.exp : Int))).toNat = u.exp := by simp
  obtain ⟨n1, n2⟩ := small_ne u
  obtain ⟨s1, s2⟩ := small_isSmall u
  have e3 : (p.hasComma && p.digitLength != 3) = false := by
    cases hcm : p.hasComma
    · rfl
    · simp [hc hcm]
  unfold Parser.append Parser.afterSmall
  simp only [n1, n2, if_false, charToNum_small u, s1, s2, Bool.and_true, if_true, hh, Bool.and_false,
    Bool.false_eq_true, Bool.and_assoc, e3, hexp]
  rcases hadd : p.subtotal.add (p.tmp.shiftScale u.exp) with ⟨ok, sub, tmp⟩
  rw [hadd] at hok
  simp only at hok
  subst hok
  simp

/-- a large unit after a complete group that fits below the total -/
theorem append_large_fwd (p : Parser) (u : LargeU) (hh : p.hasHangingPoint = false)
    (hc : p.hasComma = true → p.digitLength = 3)
    (hl : v.f4 = true → ∀ l, p.lastLarge = some l → l < -(u.exp : Int))
    (hok : (p.subtotal.add p.tmp).1 = true) (hnz : (p.subtotal.add p.tmp).2.1.sig ≠ [])
    (hok2 : (p.total.add ((p.subtotal.add p.tmp).2.1.shiftScale u.exp)).1 = true) :
    p.append v u.char = (true, p.afterLarge v u) := by
  have hexp : (-(-(u.exp : Int))).toNat = u.exp := by simp
  obtain ⟨n1, n2⟩ := large_ne u
  obtain ⟨s1, s2, s3⟩ := large_isLarge u
  have e3 : (p.hasComma && p.digitLength != 3) = false := by
    cases hcm : p.hasComma
    · rfl
    · simp [hc hcm]
  have e4 : (v.f4 && p.notSmaller (-(u.exp : Int))) = false := by
    cases hf : v.f4
    · rfl
    · simp only [Bool.true_and, Parser.notSmaller]
      cases hll : p.lastLarge with
      | none => rfl
      | some l =>
        have := hl hf l hll
        simp only [decide_eq_false_iff_not]
        omega
  unfold Parser.append Parser.afterLarge
  simp only [n1, n2, if_false, charToNum_large u, s1, s2, s3, Bool.and_true, if_true, hh, Bool.and_false,
    Bool.false_eq_true, Bool.and_assoc, e3, e4, hexp]
  rcases hadd : p.subtotal.add p.tmp with ⟨ok, sub, tmp⟩
  rw [hadd] at hok hnz hok2
  simp only at hok hnz hok2
  subst hok
  have hz : sub.isZero = false := by
    cases h : sub.isZero
    · rfl
    · exact absurd ((isZero_iff sub).1 h) hnz
  rcases hadd2 : p.total.add (sub.shiftScale u.exp) with ⟨ok2, tot, sub2⟩
  rw [hadd2] at hok2
  simp only at hok2
  subst hok2
  simp [hz]

/-! ### the terms of a group, the groups of a numeral -/

def smallsPN (S : List (Option Run × SmallU)) : List PN := S.map (fun t => termPN t.1 t.2.exp)
/-- the terms written one below the other -/
def joinList (o : Option PN) (ys : List PN) : Option PN := ys.foldl (fun o y => some (joinO o y)) o
/-- every term fits below what is there when it is written -/
def FitL : Option PN → List PN → Prop
  | _, [] => True
  | o, y :: ys => FitO o y ∧ FitL (some (joinO o y)) ys

theorem joinList_cons (o : Option PN) (y : PN) (ys : List PN) :
    joinList o (y :: ys) = joinList (some (joinO o y)) ys := rfl

theorem bool_unit (a b c : Bool) : ((a && !b) || (a || c)) = ((a && true) || c) := by
  cases a <;> cases b <;> cases c <;> rfl

/-- the small-unit terms of a group -/
theorem feed_smalls (S : List (Option Run × SmallU)) (hw : ∀ t ∈ S, coefWF t.1) (p : Parser) (o : Option PN)
    (hs : AtStart p) (hsub : p.subtotal.RepO o) (hfit : FitL o (smallsPN S)) (rest : List Char) (n : Nat) :
    ∃ m p', p.feed v (renderSmalls S ++ rest) n = p'.feed v rest m ∧ AtStart p' ∧
      p'.subtotal.RepO (joinList o (smallsPN S)) ∧ p'.total = p.total ∧ p'.lastLarge = p.lastLarge ∧
      p'.err = p.err ∧ p'.hasUnit = ((v.f5 && !S.isEmpty) || p.hasUnit) := by
  induction S generalizing p o n with
  | nil => exact ⟨n, p, by simp [renderSmalls], hs, hsub, rfl, rfl, rfl, by simp⟩
  | cons t S ih =>
    obtain ⟨c, u⟩ := t
    have hwc : coefWF c := hw (c, u) (by simp)
    obtain ⟨m1, hf1⟩ := feed_coef v p hs c hwc (u.char :: (renderSmalls S ++ rest)) n
    obtain ⟨q1, q2, q3, q4, q5, q6, q7, q8⟩ := pushCoef_props p hs c hwc
    have hterm := shift_repO _ c u.exp q8
    simp only [smallsPN, List.map_cons, FitL] at hfit
    obtain ⟨a1, a2, a3⟩ := add_fwd (p.pushCoef c).subtotal ((p.pushCoef c).tmp.shiftScale u.exp) o
      (some (termPN c u.exp)) (by rw [q2]; exact hsub) hterm (by intro y hy; cases hy; exact hfit.1)
    have hstep := append_small_fwd v (p.pushCoef c) u q6 q7 a1
    have hs' : AtStart ((p.pushCoef c).afterSmall v u) := by
      refine ⟨rfl, rfl, q6, rfl, ?_, ?_, ?_, ?_, ?_⟩ <;> simp [Parser.afterSmall, SN.clear, a3]
    obtain ⟨m, p', g1, g2, g3, g4, g5, g6, g7⟩ := ih (fun t ht => hw t (by simp [ht])) _ (some (joinO o (termPN c u.exp)))
      hs' a2 hfit.2 (m1 + 1)
    refine ⟨m, p', ?_, g2, ?_, by rw [g4]; exact q1, by rw [g5]; exact q4, by rw [g6]; exact q5, ?_⟩
    · have : renderSmalls ((c, u) :: S) ++ rest = renderCoef c ++ (u.char :: (renderSmalls S ++ rest)) := by
        simp [renderSmalls]
      rw [this, hf1]
      simp only [Parser.feed, hstep]
      exact g1
    · simpa [smallsPN, joinList] using g3
    · rw [g7]
      have : ((p.pushCoef c).afterSmall v u).hasUnit = (v.f5 || p.hasUnit) := by
        simp [Parser.afterSmall, q3]
      rw [this]
      simp only [List.isEmpty_cons, Bool.not_false]
      exact bool_unit _ _ _

/-- the terms of a group: its small-unit terms, then the plain number -/
def groupList (g : Group) : List PN := smallsPN g.smalls ++ (g.last.map runPN).toList
def groupPN (g : Group) : Option PN := joinList none (groupList g)

theorem joinList_append (o : Option PN) (ys zs : List PN) : joinList o (ys ++ zs) = joinList (joinList o ys) zs := by
  simp [joinList, List.foldl_append]

theorem fitL_append (o : Option PN) (ys zs : List PN) :
    FitL o (ys ++ zs) ↔ FitL o ys ∧ FitL (joinList o ys) zs := by
  induction ys generalizing o with
  | nil => simp [FitL, joinList]
  | cons y ys ih =>
    simp only [List.cons_append, FitL, joinList_cons, ih]
    constructor
    · rintro ⟨h1, h2, h3⟩; exact ⟨⟨h1, h2⟩, h3⟩
    · rintro ⟨⟨h1, h2⟩, h3⟩; exact ⟨h1, h2, h3⟩

theorem joinList_last (o : Option PN) (l : Option PN) : joinList o l.toList = joinOO o l := by
  cases l <;> rfl

/-- a whole group up to (not including) what closes it: the small-unit terms are in `subtotal`,
the plain number in `tmp`; their sum succeeds and is the group -/
theorem feed_group (g : Group) (hw : g.WF) (hfit : FitL none (groupList g)) (p : Parser) (hs : AtStart p)
    (hsub : p.subtotal.Zero) (rest : List Char) (n : Nat) :
    ∃ (m : Nat) (q : Parser), p.feed v (renderGroup g ++ rest) n = q.feed v rest m ∧ q.hasHangingPoint = false ∧
      (q.hasComma = true → q.digitLength = 3) ∧ q.total = p.total ∧ q.lastLarge = p.lastLarge ∧ q.err = p.err ∧
      q.hasUnit = ((v.f5 && !g.smalls.isEmpty) || p.hasUnit) ∧
      (q.subtotal.add q.tmp).1 = true ∧ (q.subtotal.add q.tmp).2.1.RepO (groupPN g) ∧
      (q.subtotal.add q.tmp).2.2.bad = false := by
  obtain ⟨hf1, hf2⟩ := (fitL_append none _ _).1 hfit
  obtain ⟨m1, p1, g1, g2, g3, g4, g5, g6, g7⟩ := feed_smalls v g.smalls hw.1 p none hs hsub hf1
    (renderCoef g.last ++ rest) n
  obtain ⟨m2, hc⟩ := feed_coef v p1 g2 g.last hw.2 rest m1
  obtain ⟨q1, q2, q3, q4, q5, q6, q7, q8⟩ := pushCoef_props p1 g2 g.last hw.2
  obtain ⟨a1, a2, a3⟩ := add_fwd (p1.pushCoef g.last).subtotal (p1.pushCoef g.last).tmp _ _ (by rw [q2]; exact g3) q8
    (by
      intro y hy
      rw [hy] at hf2
      simp only [Option.toList, FitL] at hf2
      exact hf2.1)
  refine ⟨m2, p1.pushCoef g.last, ?_, q6, q7, by rw [q1, g4], by rw [q4, g5], by rw [q5, g6], by rw [q3, g7], a1, ?_, a3⟩
  · simp only [renderGroup, List.append_assoc]
    rw [g1, hc]
  · simpa [groupPN, groupList, joinList_append, joinList_last] using a2

/-- the groups in front of large units, each multiplied by its unit -/
def largesPN (L : List (Group × LargeU)) : List PN :=
  L.filterMap (fun t => (groupPN t.1).map (fun x => x.shift t.2.exp))

theorem joinList_some (z : PN) (ys : List PN) : ∃ w, joinList (some z) ys = some w := by
  induction ys generalizing z with
  | nil => exact ⟨z, rfl⟩
  | cons y ys ih => rw [joinList_cons]; exact ih _

theorem groupPN_some (g : Group) (h : g.Nonempty) : ∃ x, groupPN g = some x := by
  unfold groupPN
  cases hl : groupList g with
  | nil =>
    exfalso
    simp only [groupList, List.append_eq_nil_iff, smallsPN, List.map_eq_nil_iff] at hl
    rcases h with h | h
    · exact h hl.1
    · cases hg : g.last with
      | none => exact h hg
      | some r => rw [hg] at hl; simp at hl
  | cons y ys => rw [joinList_cons]; exact joinList_some _ _

theorem bool_unit3 (a b c d : Bool) : ((a && !b) || (a || ((a && !c) || d))) = ((a && true) || d) := by
  cases a <;> cases b <;> cases c <;> cases d <;> rfl

/-- the groups in front of the large units -/
theorem feed_larges (L : List (Group × LargeU)) (hw : ∀ t ∈ L, t.1.WF ∧ t.1.Nonempty)
    (hord : (L.map (fun t => t.2.exp)).Pairwise (· > ·)) (hfg : ∀ t ∈ L, FitL none (groupList t.1))
    (p : Parser) (T : Option PN) (hs : AtStart p) (hsub : p.subtotal.Zero) (htot : p.total.RepO T)
    (hfit : FitL T (largesPN L)) (hll : ∀ l, p.lastLarge = some l → ∀ t ∈ L, l < -(t.2.exp : Int))
    (rest : List Char) (n : Nat) :
    ∃ (m : Nat) (p' : Parser), p.feed v (renderLarges L ++ rest) n = p'.feed v rest m ∧ AtStart p' ∧
      p'.subtotal.Zero ∧ p'.total.RepO (joinList T (largesPN L)) ∧ p'.err = p.err ∧
      p'.hasUnit = ((v.f5 && !L.isEmpty) || p.hasUnit) := by
  induction L generalizing p T n with
  | nil => exact ⟨n, p, by simp [renderLarges], hs, hsub, htot, rfl, by simp⟩
  | cons t L ih =>
    obtain ⟨g, U⟩ := t
    obtain ⟨hgw, hgn⟩ := hw (g, U) (by simp)
    obtain ⟨m1, q, e1, e2, e3, e4, e5, e6, e7, a1, a2, a3⟩ := feed_group v g hgw (hfg (g, U) (by simp)) p hs hsub
      (U.char :: (renderLarges L ++ rest)) n
    obtain ⟨x, hx⟩ := groupPN_some g hgn
    rw [hx] at a2
    have hnz : (q.subtotal.add q.tmp).2.1.sig ≠ [] := a2.1.1
    have hsh := rep_shift _ x U.exp a2
    have hlp : largesPN ((g, U) :: L) = x.shift U.exp :: largesPN L := by
      simp [largesPN, hx]
    rw [hlp] at hfit ⊢
    obtain ⟨b1, b2, b3⟩ := add_fwd q.total ((q.subtotal.add q.tmp).2.1.shiftScale U.exp) T (some (x.shift U.exp))
      (by rw [e4]; exact htot) hsh (by intro y hy; cases hy; exact hfit.1)
    have hstep := append_large_fwd v q U e2 e3
      (by intro _ l hl; rw [e5] at hl; exact hll l hl (g, U) (by simp)) a1 hnz b1
    have hs' : AtStart (q.afterLarge v U) := by
      refine ⟨rfl, rfl, e2, rfl, ?_, ?_, ?_, ?_, ?_⟩ <;> simp [Parser.afterLarge, SN.clear, a3]
    have hsub' : (q.afterLarge v U).subtotal.Zero := by
      simp only [Parser.afterLarge]
      exact clear_zero _ b3
    rw [List.map_cons, List.pairwise_cons] at hord
    have hord' := hord
    have hll' : ∀ l, (q.afterLarge v U).lastLarge = some l → ∀ t ∈ L, l < -(t.2.exp : Int) := by
      intro l hl t ht
      simp only [Parser.afterLarge] at hl
      by_cases hf4 : v.f4 = true
      · simp only [hf4, if_true, Option.some.injEq] at hl
        have : U.exp > t.2.exp := hord'.1 t.2.exp (List.mem_map.2 ⟨t, ht, rfl⟩)
        omega
      · simp only [hf4, Bool.false_eq_true, if_false] at hl
        rw [e5] at hl
        exact hll l hl t (by simp [ht])
    obtain ⟨m, p', g1, g2, g3, g4, g5, g6⟩ := ih (fun t ht => hw t (by simp [ht])) hord'.2
      (fun t ht => hfg t (by simp [ht])) (q.afterLarge v U) (some (joinO T (x.shift U.exp))) hs' hsub' b2 hfit.2 hll'
      (m1 + 1)
    refine ⟨m, p', ?_, g2, g3, ?_, by rw [g5]; exact e6, ?_⟩
    · have : renderLarges ((g, U) :: L) ++ rest = renderGroup g ++ (U.char :: (renderLarges L ++ rest)) := by
        simp [renderLarges]
      rw [this, e1]
      simp only [Parser.feed, hstep]
      exact g1
    · simpa [joinList] using g4
    · rw [g6]
      have : (q.afterLarge v U).hasUnit = (v.f5 || q.hasUnit) := by simp [Parser.afterLarge]
      rw [this, e7]
      simp only [List.isEmpty_cons, Bool.not_false]
      exact bool_unit3 _ _ _ _

/-! ### the end of the text -/

theorem done_fwd (q : Parser) (hh : q.hasHangingPoint = false) (hc : q.hasComma = true → q.digitLength = 3)
    (h1 : (q.subtotal.add q.tmp).1 = true) (h2 : (q.total.add (q.subtotal.add q.tmp).2.1).1 = true) :
    (q.done v).1 = true ∧ (q.done v).2.total = (q.total.add (q.subtotal.add q.tmp).2.1).2.1 ∧
    (q.done v).2.subtotal = (q.total.add (q.subtotal.add q.tmp).2.1).2.2 ∧
    (q.done v).2.tmp = (q.subtotal.add q.tmp).2.2 ∧ (q.done v).2.hasUnit = q.hasUnit := by
  have e3 : (q.hasComma && q.digitLength != 3) = false := by
    cases hcm : q.hasComma
    · rfl
    · simp [hc hcm]
  unfold Parser.done
  rcases hadd : q.subtotal.add q.tmp with ⟨ok, sub, tmp⟩
  rw [hadd] at h1 h2
  simp only at h1 h2
  subst h1
  rcases hadd2 : q.total.add sub with ⟨ok2, tot, sub2⟩
  rw [hadd2] at h2
  simp only at h2
  subst h2
  simp [hadd2, hh, e3]

theorem parse_of_done (text : List Char) (n : Nat) (q : Parser) (hf : Parser.new.feed v text 0 = (n, true, q))
    (hd : (q.done v).1 = true) (hb : (q.done v).2.anyBad = false) (s : List Char)
    (hs : (q.done v).2.getNormalized v = some s) : parse v text = some s := by
  unfold parse verifParse
  rw [hf]
  simp only
  rcases hq : q.done v with ⟨d, q'⟩
  rw [hq] at hd hb hs
  simp only at hd hb hs
  subst hd
  simp [hb, hs]

/-- the numeral as a positional number (`none`: nothing written) -/
def numeralPN (a : Numeral) : Option PN := joinOO (joinList none (largesPN a.larges)) (groupPN a.rest)

def PN.renderO : Option PN → List Char
  | none => ['0']
  | some x => x.render

/-- a unit is written somewhere -/
def Numeral.hasUnit (a : Numeral) : Bool := !a.larges.isEmpty || !a.rest.smalls.isEmpty

/-- the normal form the code computes for the numeral `a`: `to_string` of the positional number;
with repair F5 the leading zeros are stripped when a unit was written -/
def canon (v : Variant) (a : Numeral) : List Char :=
  if v.f5 && a.hasUnit then Parser.stripLeadingZeros (PN.renderO (numeralPN a)) else PN.renderO (numeralPN a)

/-- positional well-formedness on the positional numbers: every term fits below what is written
when it is added (equivalent to `Numeral.Fits`, see `fitsPN_of_fits`) -/
structure Numeral.FitsPN (a : Numeral) : Prop where
  larges : ∀ t ∈ a.larges, FitL none (groupList t.1)
  rest : FitL none (groupList a.rest)
  chain : FitL none (largesPN a.larges ++ (groupPN a.rest).toList)

theorem repO_bad (s : SN) (o : Option PN) (h : s.RepO o) : s.bad = false := by
  cases o with
  | none => exact h.2.2.2
  | some x => exact h.2.1

theorem repO_toStr (s : SN) (o : Option PN) (h : s.RepO o) (hd : ∀ x, o = some x → ∀ c ∈ x.ds, c ≠ '.') :
    s.toStr = some (PN.renderO o) := by
  cases o with
  | none =>
    unfold SN.toStr
    simp [SN.isZero, h.1, PN.renderO]
  | some x => exact rep_toStr s x h (hd x rfl)

theorem bool_unit4 (a b c : Bool) : (a && ((a && !b) || ((a && !c) || false))) = (a && (!c || !b)) := by
  cases a <;> cases b <;> cases c <;> rfl

theorem bool_unit5 (a b c : Bool) : ((a && !b) || ((a && !c) || false)) = (a && (!c || !b)) := by
  cases a <;> cases b <;> cases c <;> rfl

/-- **forward simulation, the state at the end of the text**: every character of a well-formed
numeral whose terms fit is accepted; the two final additions of `done()` succeed and the total then
holds exactly the positional number of the numeral -/
theorem feed_numeral (a : Numeral) (hw : a.WF) (hf : a.FitsPN) :
    ∃ (m : Nat) (q : Parser), Parser.new.feed v (render a) 0 = (m, true, q) ∧ q.hasHangingPoint = false ∧
      (q.hasComma = true → q.digitLength = 3) ∧ (q.subtotal.add q.tmp).1 = true ∧
      (q.subtotal.add q.tmp).2.2.bad = false ∧ (q.total.add (q.subtotal.add q.tmp).2.1).1 = true ∧
      (q.total.add (q.subtotal.add q.tmp).2.1).2.1.RepO (numeralPN a) ∧
      (q.total.add (q.subtotal.add q.tmp).2.1).2.2.bad = false ∧ q.hasUnit = (v.f5 && a.hasUnit) := by
  obtain ⟨w1, w2, w3⟩ := hw
  obtain ⟨f1, f2⟩ := (fitL_append none _ _).1 hf.chain
  obtain ⟨m1, p1, g1, g2, g3, g4, g5, g6⟩ := feed_larges v a.larges w1 w2 hf.larges Parser.new none atStart_new
    (by simp [SN.Zero, Parser.new]) (by simp [SN.RepO, SN.Zero, Parser.new]) f1
    (by intro l hl; simp [Parser.new] at hl) (renderGroup a.rest) 0
  obtain ⟨m2, q, e1, e2, e3, e4, e5, e6, e7, a1, a2, a3⟩ := feed_group v a.rest w3 hf.rest p1 g2 g3 [] m1
  obtain ⟨b1, b2, b3⟩ := add_fwd q.total (q.subtotal.add q.tmp).2.1 _ _ (by rw [e4]; exact g4) a2
    (by
      intro y hy
      rw [hy] at f2
      simp only [Option.toList, FitL] at f2
      exact f2.1)
  have hfeed : Parser.new.feed v (render a) 0 = (m2, true, q) := by
    have := e1
    simp only [List.append_nil, Parser.feed] at this
    rw [render, g1, this]
  refine ⟨m2, q, hfeed, e2, e3, a1, a3, b1, b2, b3, ?_⟩
  rw [e7, g6]
  simp only [Numeral.hasUnit, Parser.new, bool_unit5]

/-- **forward simulation**: a well-formed numeral whose terms fit is accepted, `done()` holds, and
the normal form is `canon` — `to_string` of the digits of the terms written at their positions -/
theorem parse_render_pn (a : Numeral) (hw : a.WF) (hf : a.FitsPN)
    (hd : ∀ x, numeralPN a = some x → ∀ c ∈ x.ds, c ≠ '.') : parse v (render a) = some (canon v a) := by
  obtain ⟨m2, q, hfeed, e2, e3, a1, a3, b1, b2, b3, hu⟩ := feed_numeral v a hw hf
  obtain ⟨d1, d2, d3, d4, d5⟩ := done_fwd v q e2 e3 a1 b1
  apply parse_of_done v _ _ _ hfeed d1
  · simp only [Parser.anyBad, d2, d3, d4, repO_bad _ _ b2, b3, a3, Bool.or_self]
  · unfold Parser.getNormalized
    rw [d2, repO_toStr _ _ b2 hd, d5, hu]
    simp only [canon, Bool.and_self_left]

/-- the positional number of a well-formed numeral has at least one integer digit -/
theorem numeralPN_hi (a : Numeral) (hw : a.WF) (hf : a.FitsPN) : ∀ x, numeralPN a = some x → 1 ≤ x.hi := by
  intro x hx
  obtain ⟨_, q, _, _, _, _, _, _, b2, _, _⟩ := feed_numeral Variant.pinned a hw hf
  rw [hx] at b2
  rw [← rep_hi _ x b2]
  exact good_hi_pos _ b2.1

end Numeric
