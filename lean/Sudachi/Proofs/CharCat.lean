import Sudachi.Model.CharCat
/-!
# Proofs about the character-category table (C17)

`denI`/`denF` read a table of `(right boundary, category)` pairs left to right; `spec` is the
property's own wording: union of the classes of all covering lines, DEFAULT when that is empty.
-/
namespace CharCat

/-- spec: union of categories of all ranges containing `x` -/
def unionAt (rs : List CatRange) (x : Nat) : Nat :=
  rs.foldl (fun acc r => if r.b ≤ x ∧ x < r.e then acc ||| r.c else acc) 0

def spec (rs : List CatRange) (x : Nat) : Nat :=
  let u := unionAt rs x
  if u = 0 then DEFAULT else u

/-- strictly increasing -/
def SInc : List Nat → Prop
  | [] => True
  | [_] => True
  | x :: y :: ys => x < y ∧ SInc (y :: ys)

theorem SInc.tail {x : Nat} {xs : List Nat} (h : SInc (x :: xs)) : SInc xs := by
  cases xs with
  | nil => trivial
  | cons y ys => exact h.2

theorem SInc.head_lt {x : Nat} {xs : List Nat} (h : SInc (x :: xs)) : ∀ y ∈ xs, x < y := by
  induction xs generalizing x with
  | nil => intro y hy; cases hy
  | cons z zs ih =>
    intro y hy
    cases hy with
    | head => exact h.1
    | tail _ hy' => exact Nat.lt_trans h.1 (ih h.2 y hy')

theorem mem_insertSorted (x : Nat) (l : List Nat) (y : Nat) :
    y ∈ insertSorted x l ↔ y = x ∨ y ∈ l := by
  induction l with
  | nil => simp [insertSorted]
  | cons z zs ih =>
    simp only [insertSorted]
    split
    · simp
    · split
      · subst_vars; simp
      · simp [ih]; constructor <;> intro h <;> rcases h with h | h | h <;> simp [h]

theorem sinc_cons {x : Nat} {l : List Nat} (hl : SInc l) (h : ∀ y ∈ l, x < y) : SInc (x :: l) := by
  cases l with
  | nil => trivial
  | cons y ys => exact ⟨h y (by simp), hl⟩

theorem sinc_insertSorted (x : Nat) (l : List Nat) (h : SInc l) : SInc (insertSorted x l) := by
  induction l with
  | nil => trivial
  | cons z zs ih =>
    simp only [insertSorted]
    split
    · rename_i hlt; exact ⟨hlt, h⟩
    · split
      · exact h
      · rename_i h1 h2
        have hzx : z < x := by omega
        apply sinc_cons (ih h.tail)
        intro y hy
        rw [mem_insertSorted] at hy
        rcases hy with rfl | hy
        · exact hzx
        · exact h.head_lt y hy


/-! ### intermediate representation: list of (right boundary, category) -/

def denI : List (Nat × Nat) → Nat → Nat
  | [], _ => 0
  | (b, c) :: rest, x => if x < b then c else denI rest x

theorem fsts_orWhile (re c : Nat) (l : List (Nat × Nat)) : fsts (orWhile re c l) = fsts l := by
  induction l with
  | nil => rfl
  | cons p rest ih =>
    obtain ⟨b, x⟩ := p
    simp only [orWhile]
    split
    · rfl
    · simp [fsts] at ih ⊢; exact ih

theorem fsts_applyRange (r : CatRange) (l : List (Nat × Nat)) : fsts (applyRange r l) = fsts l := by
  induction l with
  | nil => rfl
  | cons p rest ih =>
    obtain ⟨b, x⟩ := p
    simp only [applyRange]
    split
    · have := fsts_orWhile r.e r.c rest
      simp [fsts] at this ⊢; exact this
    · simp [fsts] at ih ⊢; exact ih

theorem orWhile_all_gt (re c : Nat) (l : List (Nat × Nat)) (h : ∀ b ∈ fsts l, re < b) :
    orWhile re c l = l := by
  cases l with
  | nil => rfl
  | cons p rest =>
    obtain ⟨b, x⟩ := p
    have : re < b := h b (by simp [fsts])
    simp [orWhile, this]

theorem den_orWhile (re c : Nat) : ∀ (l : List (Nat × Nat)), SInc (fsts l) → re ∈ fsts l →
    ∀ x, denI (orWhile re c l) x = if x < re then denI l x ||| c else denI l x := by
  intro l
  induction l with
  | nil => intro _ hmem; simp [fsts] at hmem
  | cons p rest ih =>
    obtain ⟨b, y⟩ := p
    intro hs hmem x
    have hs' : SInc (b :: fsts rest) := by simpa [fsts] using hs
    have hble : b ≤ re := by
      simp [fsts] at hmem
      rcases hmem with rfl | ⟨a, h⟩
      · exact Nat.le_refl _
      · exact Nat.le_of_lt (hs'.head_lt re (by simp [fsts]; exact ⟨a, h⟩))
    have hng : ¬ b > re := by omega
    simp only [orWhile, hng, if_false, denI]
    by_cases hx : x < b
    · have : x < re := by omega
      simp [hx, this]
    · simp only [hx, if_false]
      by_cases hbe : b = re
      · subst hbe
        have hall : ∀ b' ∈ fsts rest, b < b' := hs'.head_lt
        rw [orWhile_all_gt b c rest hall]
        simp [hx]
      · have hmem' : re ∈ fsts rest := by
          simp [fsts] at hmem ⊢
          rcases hmem with h | h
          · exact absurd h.symm hbe
          · exact h
        exact ih hs'.tail hmem' x

theorem den_applyRange (r : CatRange) (hr : r.b < r.e) : ∀ (l : List (Nat × Nat)), SInc (fsts l) →
    r.b ∈ fsts l → r.e ∈ fsts l →
    ∀ x, denI (applyRange r l) x = if r.b ≤ x ∧ x < r.e then denI l x ||| r.c else denI l x := by
  intro l
  induction l with
  | nil => intro _ hb; simp [fsts] at hb
  | cons p rest ih =>
    obtain ⟨b, y⟩ := p
    intro hs hb he x
    have hs' : SInc (b :: fsts rest) := by simpa [fsts] using hs
    simp only [applyRange]
    by_cases hbb : b = r.b
    · simp only [hbb, if_true, denI]
      have he' : r.e ∈ fsts rest := by
        simp [fsts] at he ⊢
        rcases he with h | h
        · omega
        · exact h
      have hsr : SInc (fsts rest) := hs'.tail
      by_cases hx : x < r.b
      · have : ¬ (r.b ≤ x ∧ x < r.e) := by omega
        simp [hx, this]
      · simp only [hx, if_false]
        rw [den_orWhile r.e r.c rest hsr he' x]
        have : r.b ≤ x := by omega
        simp [this]
    · simp only [hbb, if_false, denI]
      have hb' : r.b ∈ fsts rest := by
        simp [fsts] at hb ⊢
        rcases hb with h | h
        · exact absurd h.symm hbb
        · exact h
      have hlt : b < r.b := hs'.head_lt r.b hb'
      have he' : r.e ∈ fsts rest := by
        simp [fsts] at he ⊢
        rcases he with h | h
        · omega
        · exact h
      by_cases hx : x < b
      · have : ¬ (r.b ≤ x ∧ x < r.e) := by omega
        simp [hx, this]
      · simp only [hx, if_false]
        exact ih hs'.tail hb' he' x


/-! ### all ranges -/

def unionFrom (acc : Nat) (rs : List CatRange) (x : Nat) : Nat :=
  rs.foldl (fun acc r => if r.b ≤ x ∧ x < r.e then acc ||| r.c else acc) acc

theorem unionAt_eq (rs : List CatRange) (x : Nat) : unionAt rs x = unionFrom 0 rs x := rfl

theorem fsts_applyAll (rs : List CatRange) : ∀ l, fsts (applyAll rs l) = fsts l := by
  induction rs with
  | nil => intro l; rfl
  | cons r rs ih => intro l; simp only [applyAll, List.foldl] at ih ⊢; rw [ih, fsts_applyRange]

theorem den_applyAll (rs : List CatRange) : ∀ (l : List (Nat × Nat)), SInc (fsts l) →
    (∀ r ∈ rs, r.b < r.e ∧ r.b ∈ fsts l ∧ r.e ∈ fsts l) →
    ∀ x, denI (applyAll rs l) x = unionFrom (denI l x) rs x := by
  induction rs with
  | nil => intro l _ _ x; rfl
  | cons r rs ih =>
    intro l hs hr x
    have h0 := hr r (by simp)
    simp only [applyAll, List.foldl, unionFrom] at ih ⊢
    have hf := fsts_applyRange r l
    rw [ih (applyRange r l) (by rw [hf]; exact hs)
      (by intro r' hr'; rw [hf]; exact hr r' (by simp [hr'])) x]
    rw [den_applyRange r h0.1 l hs h0.2.1 h0.2.2 x]

theorem fsts_initCats (bs : List Nat) : fsts (initCats bs) = bs := by
  simp [fsts, initCats, List.map_map, Function.comp_def]

theorem den_initCats (bs : List Nat) (x : Nat) : denI (initCats bs) x = 0 := by
  induction bs with
  | nil => rfl
  | cons b bs ih => simp [initCats, denI] at ih ⊢; intro _; exact ih

/-! ### boundaries contain all range ends -/

theorem collect_inv (rs : List CatRange) : ∀ acc, SInc acc →
    SInc (rs.foldl (fun acc r => insertSorted r.e (insertSorted r.b acc)) acc) ∧
    (∀ y, y ∈ rs.foldl (fun acc r => insertSorted r.e (insertSorted r.b acc)) acc ↔
        (y ∈ acc ∨ ∃ r ∈ rs, y = r.b ∨ y = r.e)) := by
  induction rs with
  | nil => intro acc h; simp [h]
  | cons r rs ih =>
    intro acc h
    simp only [List.foldl]
    have h1 := sinc_insertSorted r.e _ (sinc_insertSorted r.b acc h)
    obtain ⟨ha, hb⟩ := ih _ h1
    refine ⟨ha, ?_⟩
    intro y
    rw [hb y, mem_insertSorted, mem_insertSorted]
    constructor
    · rintro ((h | h | h) | ⟨r', hr', h⟩)
      · exact Or.inr ⟨r, by simp, Or.inr h⟩
      · exact Or.inr ⟨r, by simp, Or.inl h⟩
      · exact Or.inl h
      · exact Or.inr ⟨r', by simp [hr'], h⟩
    · rintro (h | ⟨r', hr', h⟩)
      · exact Or.inl (Or.inr (Or.inr h))
      · simp at hr'
        rcases hr' with rfl | hr'
        · rcases h with h | h
          · exact Or.inl (Or.inr (Or.inl h))
          · exact Or.inl (Or.inl h)
        · exact Or.inr ⟨r', hr', h⟩

theorem sinc_collect (rs : List CatRange) : SInc (collectBoundaries rs) :=
  (collect_inv rs [] trivial).1

theorem mem_collect (rs : List CatRange) (y : Nat) :
    y ∈ collectBoundaries rs ↔ ∃ r ∈ rs, y = r.b ∨ y = r.e := by
  have := (collect_inv rs [] trivial).2 y
  simpa [collectBoundaries] using this


/-! ### first interval := DEFAULT, merge equal neighbours, default empties, trailing DEFAULT -/

/-- final lookup: categories has one more element than boundaries, the last one is DEFAULT -/
def denF : List (Nat × Nat) → Nat → Nat
  | [], _ => DEFAULT
  | (b, c) :: rest, x => if x < b then c else denF rest x

theorem den_mergeGo : ∀ (l : List (Nat × Nat)) (lb lc : Nat), SInc (lb :: fsts l) →
    ∀ x, denI (mergeGo lb lc l) x = if x < lb then lc else denI l x := by
  intro l
  induction l with
  | nil => intro lb lc _ x; simp [mergeGo, denI]
  | cons p rest ih =>
    obtain ⟨b, y⟩ := p
    intro lb lc hs x
    have hs' : SInc (lb :: b :: fsts rest) := by simpa [fsts] using hs
    have hlt : lb < b := hs'.1
    simp only [mergeGo]
    by_cases hy : y = lc
    · simp only [hy, if_true]
      rw [ih b lc (by simpa [fsts] using hs'.2) x]
      simp only [denI]
      by_cases h1 : x < lb
      · have : x < b := by omega
        simp [h1, this]
      · simp [h1]
    · simp only [hy, if_false, denI]
      by_cases h1 : x < lb
      · simp [h1]
      · simp only [h1, if_false]
        rw [ih b y (by simpa [fsts] using hs'.2) x]

theorem den_merge (l : List (Nat × Nat)) (hs : SInc (fsts l)) (x : Nat) :
    denI (merge l) x = denI l x := by
  cases l with
  | nil => rfl
  | cons p rest =>
    obtain ⟨b, c⟩ := p
    simp only [merge]
    rw [den_mergeGo rest b c (by simpa [fsts] using hs) x]
    simp [denI]

theorem den_finalize (l : List (Nat × Nat)) (x : Nat) :
    denF (finalize l) x = if denI l x = 0 then DEFAULT else denI l x := by
  induction l with
  | nil => simp [finalize, denF, denI]
  | cons p rest ih =>
    obtain ⟨b, c⟩ := p
    simp only [finalize, List.map, denF, denI] at ih ⊢
    by_cases hx : x < b
    · simp [hx]
    · simp only [hx, if_false]; exact ih

theorem fsts_setFirst (l : List (Nat × Nat)) : fsts (setFirst l) = fsts l := by
  cases l with
  | nil => rfl
  | cons p rest => obtain ⟨b, c⟩ := p; simp [setFirst, fsts]

theorem unionFrom_none (rs : List CatRange) (x acc : Nat)
    (h : ∀ r ∈ rs, ¬ (r.b ≤ x ∧ x < r.e)) : unionFrom acc rs x = acc := by
  induction rs generalizing acc with
  | nil => rfl
  | cons r rs ih =>
    simp only [unionFrom, List.foldl]
    have h0 := h r (by simp)
    simp only [h0, if_false]
    exact ih acc (fun r' hr' => h r' (by simp [hr']))

/-- Main theorem (C17): the compiled table read left to right gives, for every code point,
    the union of the categories of all ranges containing it, or DEFAULT if that union is empty. -/
theorem compile_correct (rs : List CatRange) (hwf : ∀ r ∈ rs, r.b < r.e) (x : Nat) :
    denF (compile rs) x = spec rs x := by
  have hs := sinc_collect rs
  have hmem : ∀ r ∈ rs, r.b < r.e ∧ r.b ∈ fsts (initCats (collectBoundaries rs)) ∧
      r.e ∈ fsts (initCats (collectBoundaries rs)) := by
    intro r hr
    rw [fsts_initCats]
    exact ⟨hwf r hr, (mem_collect rs r.b).mpr ⟨r, hr, Or.inl rfl⟩, (mem_collect rs r.e).mpr ⟨r, hr, Or.inr rfl⟩⟩
  have hall := den_applyAll rs (initCats (collectBoundaries rs)) (by rw [fsts_initCats]; exact hs) hmem
  have hf : fsts (applyAll rs (initCats (collectBoundaries rs))) = collectBoundaries rs := by
    rw [fsts_applyAll, fsts_initCats]
  unfold compile spec
  rw [den_finalize, den_merge _ (by rw [fsts_setFirst, hf]; exact hs)]
  -- effect of setFirst
  generalize hl : applyAll rs (initCats (collectBoundaries rs)) = l at hall hf
  cases l with
  | nil =>
    -- no boundaries: no ranges
    have : collectBoundaries rs = [] := by simpa [fsts] using hf.symm
    have hnone : ∀ r ∈ rs, ¬ (r.b ≤ x ∧ x < r.e) := by
      intro r hr
      have := (mem_collect rs r.b).mpr ⟨r, hr, Or.inl rfl⟩
      simp_all
    simp [setFirst, denI, unionAt_eq, unionFrom_none rs x 0 hnone]
  | cons p rest =>
    obtain ⟨b0, c0⟩ := p
    have hall' := hall x
    rw [den_initCats] at hall'
    simp only [setFirst, denI] at hall' ⊢
    by_cases hx : x < b0
    · -- below the first boundary no range applies
      have hb0 : ∀ y ∈ collectBoundaries rs, b0 ≤ y := by
        intro y hy
        rw [← hf] at hy hs
        simp [fsts] at hy
        rcases hy with rfl | ⟨a, h⟩
        · exact Nat.le_refl _
        · have hs2 : SInc (b0 :: fsts rest) := by simpa [fsts] using hs
          exact Nat.le_of_lt (hs2.head_lt y (by simp [fsts]; exact ⟨a, h⟩))
      have hnone : ∀ r ∈ rs, ¬ (r.b ≤ x ∧ x < r.e) := by
        intro r hr ⟨h1, _⟩
        have := hb0 r.b ((mem_collect rs r.b).mpr ⟨r, hr, Or.inl rfl⟩)
        omega
      simp [hx, unionAt_eq, unionFrom_none rs x 0 hnone, DEFAULT]
    · simp only [hx, if_false] at hall' ⊢
      rw [hall', unionAt_eq]

/-! ### the compiled boundary list is strictly increasing -/

theorem SInc.drop_second {a b : Nat} {l : List Nat} (h : SInc (a :: b :: l)) : SInc (a :: l) := by
  cases l with
  | nil => trivial
  | cons c cs => exact ⟨Nat.lt_trans h.1 h.2.1, h.2.2⟩

theorem sinc_mergeGo : ∀ (l : List (Nat × Nat)) (lb lc : Nat), SInc (lb :: fsts l) →
    SInc (fsts (mergeGo lb lc l)) ∧ ∀ y ∈ fsts (mergeGo lb lc l), lb ≤ y := by
  intro l
  induction l with
  | nil => intro lb lc _; simp [mergeGo, fsts, SInc]
  | cons p rest ih =>
    obtain ⟨b, x⟩ := p
    intro lb lc hs
    have hs' : SInc (lb :: b :: fsts rest) := by simpa [fsts] using hs
    simp only [mergeGo]
    split
    · obtain ⟨h1, h2⟩ := ih b lc hs'.2
      refine ⟨h1, fun y hy => ?_⟩
      have := h2 y hy; have := hs'.1; omega
    · obtain ⟨h1, h2⟩ := ih b x hs'.2
      refine ⟨?_, ?_⟩
      · show SInc (lb :: fsts (mergeGo b x rest))
        apply sinc_cons h1
        intro y hy; have := h2 y hy; have := hs'.1; omega
      · intro y hy
        simp only [fsts, List.map_cons, List.mem_cons] at hy
        rcases hy with rfl | hy
        · exact Nat.le_refl _
        · have := h2 y (by simpa [fsts] using hy); have := hs'.1; omega

theorem sinc_merge (l : List (Nat × Nat)) (hs : SInc (fsts l)) : SInc (fsts (merge l)) := by
  cases l with
  | nil => trivial
  | cons p rest =>
    obtain ⟨b, c⟩ := p
    exact (sinc_mergeGo rest b c (by simpa [fsts] using hs)).1

theorem fsts_finalize (l : List (Nat × Nat)) : fsts (finalize l) = fsts l := by
  simp [fsts, finalize, List.map_map, Function.comp_def]

theorem sinc_compile (rs : List CatRange) : SInc (fsts (compile rs)) := by
  unfold compile
  rw [fsts_finalize]
  apply sinc_merge
  rw [fsts_setFirst, fsts_applyAll, fsts_initCats]
  exact sinc_collect rs

/-! ### bisection: the standard library's `binary_search_by` meets its contract -/

/-- Contract of `slice::binary_search` on a strictly increasing slice (a linear scan):
`(i, true)` = `Ok(i)` with `bs[i] = x`; `(i, false)` = `Err(i)` with `i` the insertion point. -/
def searchIdx : List Nat → Nat → Nat × Bool
  | [], _ => (0, false)
  | b :: bs, x =>
    if x < b then (0, false) else if x = b then (0, true)
    else ((searchIdx bs x).1 + 1, (searchIdx bs x).2)

/-- `searchIdx` is determined by the lower bound `k`: everything before `k` is smaller than `x`,
everything from `k` on is at least `x` -/
theorem searchIdx_eq : ∀ (l : List Nat) (x k : Nat), k ≤ l.length →
    (∀ i (h : i < l.length), i < k → l[i] < x) → (∀ i (h : i < l.length), k ≤ i → x ≤ l[i]) →
    searchIdx l x = (k, decide (l[k]? = some x)) := by
  intro l
  induction l with
  | nil => intro x k hk _ _; simp at hk; subst hk; simp [searchIdx]
  | cons b bs ih =>
    intro x k hk hlt hge
    simp only [searchIdx]
    by_cases h1 : x < b
    · have hk0 : k = 0 := by
        cases k with
        | zero => rfl
        | succ k' => have := hlt 0 (by simp) (by omega); simp at this; omega
      subst hk0
      have : b ≠ x := by omega
      simp [h1, this]
    · simp only [h1, if_false]
      by_cases h2 : x = b
      · have hk0 : k = 0 := by
          cases k with
          | zero => rfl
          | succ k' => have := hlt 0 (by simp) (by omega); simp at this; omega
        subst hk0
        simp [h2]
      · simp only [h2, if_false]
        cases k with
        | zero => have := hge 0 (by simp) (Nat.le_refl _); simp at this; omega
        | succ k' =>
          have := ih x k' (by simpa using hk)
            (fun i h hi => by have := hlt (i + 1) (by simpa using h) (by omega); simpa using this)
            (fun i h hi => by have := hge (i + 1) (by simpa using h) (by omega); simpa using this)
          rw [this]; simp

theorem sinc_getElem : ∀ (l : List Nat), SInc l → ∀ (i j : Nat) (hj : j < l.length) (hij : i < j),
    l[i]'(by omega) < l[j] := by
  intro l
  induction l with
  | nil => intro _ i j hj; simp at hj
  | cons a as ih =>
    intro hs i j hj hij
    cases j with
    | zero => omega
    | succ j' =>
      have hj' : j' < as.length := by simpa using hj
      cases i with
      | zero =>
        simp only [List.getElem_cons_zero, List.getElem_cons_succ]
        exact hs.head_lt _ (List.getElem_mem hj')
      | succ i' =>
        simp only [List.getElem_cons_succ]
        exact ih hs.tail i' j' hj' (by omega)

/-- memory safety of the two `get_unchecked` calls, for ANY slice (sorted or not): the loop keeps
`base + size ≤ len` and `size ≥ 1` -/
theorem bsLoop_in_range (l : List Nat) (x : Nat) : ∀ (fuel size base : Nat), 1 ≤ size → base + size ≤ l.length →
    ∃ b, bsLoop l x fuel size base = some b ∧ b < l.length := by
  intro fuel
  induction fuel with
  | zero => intro size base h1 h2; exact ⟨base, rfl, by omega⟩
  | succ fuel ih =>
    intro size base h1 h2
    simp only [bsLoop]
    by_cases hsz : size > 1
    · simp only [hsz, if_true]
      have hhalf : 1 ≤ size / 2 ∧ size / 2 < size := by omega
      have hmid : base + size / 2 < l.length := by omega
      rw [List.getElem?_eq_getElem hmid]
      simp only
      by_cases hp : l[base + size / 2] > x
      · simp only [hp, if_true]; exact ih _ _ (by omega) (by omega)
      · simp only [hp, if_false]; exact ih _ _ (by omega) (by omega)
    · simp only [hsz, if_false]; exact ⟨base, rfl, by omega⟩

theorem bsearch_in_range (l : List Nat) (x : Nat) : bsearch l x ≠ none := by
  unfold bsearch
  by_cases h0 : l.length = 0
  · simp [h0]
  · simp only [h0, if_false]
    obtain ⟨b, hb, hlt⟩ := bsLoop_in_range l x l.length l.length 0 (by omega) (by omega)
    rw [hb]; simp only
    rw [List.getElem?_eq_getElem hlt]; simp only
    split <;> simp

/-- loop invariant on a strictly increasing slice: `l[base] ≤ x` unless `base = 0`, and everything
from `base + size` on is greater than `x` -/
theorem bsLoop_spec (l : List Nat) (hs : SInc l) (x : Nat) : ∀ (fuel size base : Nat), size ≤ fuel → 1 ≤ size →
    base + size ≤ l.length → (base = 0 ∨ ∃ h : base < l.length, l[base] ≤ x) →
    (∀ i (h : i < l.length), base + size ≤ i → x < l[i]) →
    ∃ b, bsLoop l x fuel size base = some b ∧ b < l.length ∧ (b = 0 ∨ ∃ h : b < l.length, l[b] ≤ x) ∧
      (∀ i (h : i < l.length), b + 1 ≤ i → x < l[i]) := by
  intro fuel
  induction fuel with
  | zero => intro size base h0 h1; omega
  | succ fuel ih =>
    intro size base hf h1 h2 hlo hhi
    simp only [bsLoop]
    by_cases hsz : size > 1
    · simp only [hsz, if_true]
      have hhalf : 1 ≤ size / 2 ∧ size / 2 < size ∧ size / 2 ≤ size - size / 2 := by omega
      have hmid : base + size / 2 < l.length := by omega
      rw [List.getElem?_eq_getElem hmid]
      simp only
      by_cases hp : l[base + size / 2] > x
      · simp only [hp, if_true]
        apply ih _ _ (by omega) (by omega) (by omega) hlo
        intro i h hi
        by_cases heq : i = base + size / 2
        · subst heq; exact hp
        · have := sinc_getElem l hs (base + size / 2) i h (by omega)
          omega
      · simp only [hp, if_false]
        apply ih _ _ (by omega) (by omega) (by omega) (Or.inr ⟨hmid, by omega⟩)
        intro i h hi
        exact hhi i h (by omega)
    · simp only [hsz, if_false]
      have : size = 1 := by omega
      subst this
      exact ⟨base, rfl, by omega, hlo, hhi⟩

/-- **The transcribed `binary_search_by` returns exactly what the contract says** on a strictly
increasing slice: `Ok(i)` with `l[i] = x`, or `Err(insertion point)`. -/
theorem bsearch_eq_searchIdx (l : List Nat) (hs : SInc l) (x : Nat) : bsearch l x = some (searchIdx l x) := by
  unfold bsearch
  by_cases h0 : l.length = 0
  · have : l = [] := List.eq_nil_of_length_eq_zero h0
    subst this; simp [searchIdx]
  · simp only [h0, if_false]
    obtain ⟨b, hb, hlt, hlo, hhi⟩ := bsLoop_spec l hs x l.length l.length 0 (Nat.le_refl _) (by omega) (by omega)
      (Or.inl rfl) (fun i h hi => by omega)
    rw [hb]; simp only
    rw [List.getElem?_eq_getElem hlt]; simp only
    have hbelow : ∀ i (h : i < l.length), i < b → l[i] < l[b] := fun i h hi => sinc_getElem l hs i b hlt hi
    by_cases heq : l[b] = x
    · simp only [heq, if_true]
      rw [searchIdx_eq l x b (by omega) (fun i h hi => by have := hbelow i h hi; omega)
        (fun i h hi => by
          by_cases hib : i = b
          · subst hib; omega
          · have := hhi i h (by omega); omega)]
      simp [List.getElem?_eq_getElem hlt, heq]
    · simp only [heq, if_false]
      by_cases hless : l[b] < x
      · simp only [hless, if_true]
        rw [searchIdx_eq l x (b + 1) (by omega)
          (fun i h hi => by
            by_cases hib : i = b
            · subst hib; exact hless
            · have := hbelow i h (by omega); omega)
          (fun i h hi => by have := hhi i h hi; omega)]
        have hflag : decide (l[b + 1]? = some x) = false := by
          by_cases hb1 : b + 1 < l.length
          · have := hhi (b + 1) hb1 (Nat.le_refl _)
            simp [List.getElem?_eq_getElem hb1]; omega
          · simp [List.getElem?_eq_none (by omega : l.length ≤ b + 1)]
        rw [hflag]
      · simp only [hless, if_false, Nat.add_zero]
        have hb0 : b = 0 := by
          rcases hlo with h | ⟨_, h⟩
          · exact h
          · omega
        subst hb0
        rw [searchIdx_eq l x 0 (by omega) (fun i h hi => by omega)
          (fun i h hi => by
            by_cases hi0 : i = 0
            · subst hi0; omega
            · have := hhi i h (by omega); omega)]
        simp [List.getElem?_eq_getElem hlt, heq]

/-! ### the interval selected by bisection is the one `denF` reads -/

theorem lookup_go (tab : List (Nat × Nat)) (hs : SInc (fsts tab)) (x : Nat) :
    (if (searchIdx (fsts tab) x).2 then (categoriesVec tab)[(searchIdx (fsts tab) x).1 + 1]?
     else (categoriesVec tab)[(searchIdx (fsts tab) x).1]?) = some (denF tab x) := by
  induction tab with
  | nil => simp [fsts, searchIdx, categoriesVec, snds, denF]
  | cons p rest ih =>
    obtain ⟨b, c⟩ := p
    have hs' : SInc (b :: fsts rest) := by simpa [fsts] using hs
    simp only [fsts, List.map_cons, searchIdx, denF]
    by_cases h1 : x < b
    · simp [h1, categoriesVec, snds]
    · simp only [h1, if_false]
      by_cases h2 : x = b
      · subst h2
        simp only [if_true]
        -- the element after `b`: first entry of the rest (or the trailing DEFAULT)
        cases rest with
        | nil => simp [categoriesVec, snds, denF]
        | cons q rest' =>
          obtain ⟨b', c'⟩ := q
          have : x < b' := by
            have := hs'.1
            simpa [fsts] using this
          simp [categoriesVec, snds, denF, this]
      · simp only [h2, if_false]
        have ih' := ih hs'.tail
        simp only [fsts] at ih'
        by_cases hf : (searchIdx (List.map (fun x => x.fst) rest) x).2 = true
        · simp only [hf, if_true] at ih' ⊢
          simpa [categoriesVec, snds] using ih'
        · simp only [hf] at ih' ⊢
          simpa [categoriesVec, snds] using ih'

theorem lookup_eq_denF (tab : List (Nat × Nat)) (hs : SInc (fsts tab)) (x : Nat) :
    lookup tab x = some (denF tab x) := by
  unfold lookup
  cases tab with
  | nil => simp [denF]
  | cons p rest =>
    simp only [List.isEmpty_cons, Bool.false_eq_true, if_false]
    rw [bsearch_eq_searchIdx _ hs]
    exact lookup_go (p :: rest) hs x

/-! ### the spec is a union: bit `k` is set iff some covering line sets it -/

theorem testBit_unionFrom (rs : List CatRange) (x k acc : Nat) :
    (unionFrom acc rs x).testBit k =
      (acc.testBit k || rs.any (fun r => decide (r.b ≤ x ∧ x < r.e) && r.c.testBit k)) := by
  induction rs generalizing acc with
  | nil => simp [unionFrom]
  | cons r rs ih =>
    simp only [unionFrom, List.foldl, List.any_cons] at ih ⊢
    rw [ih]
    by_cases h : r.b ≤ x ∧ x < r.e
    · simp [h, Nat.testBit_or, Bool.or_assoc]
    · simp [h]

theorem testBit_unionAt (rs : List CatRange) (x k : Nat) :
    (unionAt rs x).testBit k = rs.any (fun r => decide (r.b ≤ x ∧ x < r.e) && r.c.testBit k) := by
  rw [unionAt_eq, testBit_unionFrom]; simp

/-! ## the category column of `InputBuffer::build` -/

/-- when every look-up answers, `mod_cat` is the text mapped through the look-up -/
theorem bufferCats_eq_map (tab : List (Nat × Nat)) (f : Nat → Nat) (h : ∀ x, lookup tab x = some (f x))
    (text : List Nat) : bufferCats tab text = some (text.map f) := by
  induction text with
  | nil => rfl
  | cons c rest ih => simp [bufferCats, h, ih]

end CharCat
