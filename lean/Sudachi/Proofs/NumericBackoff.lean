import Sudachi.Proofs.NumericLang
/-!
# The trailing-separator back-off of `rewrite_gen`, parser side

`rewrite_gen` joins the run WITHOUT its last node when `done()` fails and the error state is the one
of that last node (a `,` or a `.`).  `backoff_sound`: with repair F6, if the parser accepted `t` and
then the separator, and `done()` then reports exactly the error of that separator, then `t` alone is
accepted, `done()` holds for it, and the rendering is the same — so the token the plugin makes carries
the normal form of exactly the span it covers.
-/
namespace Numeric

/-- same number: equal, or the second has its point set at the very end (what `set_point` does to a
number without scale) -/
def SN.E (a b : SN) : Prop :=
  a = b ∨ (a.scale = 0 ∧ a.point = none ∧ b = { a with point := some a.sig.length })

theorem SN.E.refl (a : SN) : SN.E a a := .inl rfl

theorem SN.normalize_endpoint (a : SN) (hs : a.scale = 0) (hp : a.point = none) :
    ({ a with point := some a.sig.length } : SN).normalizeScale = a ∧ a.normalizeScale = a := by
  obtain ⟨sig, scale, point, az, bad⟩ := a
  simp only at hs hp
  subst hs hp
  simp [SN.normalizeScale]

theorem SN.add_E_number (s a b : SN) (h : SN.E a b) :
    (s.add a).1 = (s.add b).1 ∧ SN.E (s.add a).2.1 (s.add b).2.1 := by
  rcases h with rfl | ⟨hs, hp, rfl⟩
  · exact ⟨rfl, .inl rfl⟩
  · obtain ⟨n1, n2⟩ := SN.normalize_endpoint a hs hp
    unfold SN.add
    by_cases hz : a.isZero = true
    · have hz' : ({ a with point := some a.sig.length } : SN).isZero = true := hz
      rw [if_pos hz, if_pos hz']
      exact ⟨rfl, .inl rfl⟩
    · have hz' : ¬ ({ a with point := some a.sig.length } : SN).isZero = true := hz
      rw [if_neg hz, if_neg hz']
      by_cases hsz : s.isZero = true
      · rw [if_pos hsz, if_pos hsz]
        refine ⟨by first | rfl | trivial, .inr ⟨hs, hp, ?_⟩⟩
        have : s.sig = [] := by simpa [SN.isZero] using hsz
        simp [this]
      · rw [if_neg hsz, if_neg hsz]
        simp only [SN.intLength, n1, n2]
        first | exact ⟨trivial, .inl rfl⟩ | exact ⟨rfl, .inl rfl⟩ | exact .inl rfl

theorem SN.toStr_E (a b : SN) (h : SN.E a b) : a.toStr = b.toStr := by
  rcases h with rfl | ⟨hs, hp, rfl⟩
  · rfl
  · obtain ⟨n1, n2⟩ := SN.normalize_endpoint a hs hp
    unfold SN.toStr
    have hz : ({ a with point := some a.sig.length } : SN).isZero = a.isZero := rfl
    rw [hz, n1, n2]

variable (v : Variant)

theorem feed_reject_lt (a : List Char) (p : Parser) (n m : Nat) (q : Parser)
    (h : p.feed v a n = (m, false, q)) : m < n + a.length := by
  induction a generalizing p n with
  | nil => simp [Parser.feed] at h
  | cons c cs ih =>
    simp only [Parser.feed] at h
    rcases ha : p.append v c with ⟨ok, p'⟩
    rw [ha] at h
    cases ok
    · simp only [Prod.mk.injEq] at h
      simp only [List.length_cons]
      omega
    · have := ih p' (n + 1) h
      simp only [List.length_cons]
      omega

/-- an invariant of accepted `append`s holds along an accepted `feed` -/
theorem feed_invariant (J : Parser → Prop)
    (hstep : ∀ p c p', J p → p.append v c = (true, p') → J p') :
    ∀ (text : List Char) (p : Parser) (n m : Nat) (q : Parser), J p → p.feed v text n = (m, true, q) → J q := by
  intro text
  induction text with
  | nil => intro p n m q hj h; simp only [Parser.feed, Prod.mk.injEq] at h; rw [← h.2.2]; exact hj
  | cons c cs ih =>
    intro p n m q hj h
    simp only [Parser.feed] at h
    rcases ha : p.append v c with ⟨ok, p'⟩
    rw [ha] at h
    cases ok
    · simp at h
    · exact ih p' (n + 1) m q (hstep p c p' hj ha) h

/-- the error state stays NONE while characters are accepted, and a hanging point means that `tmp` has
its point or that a unit was just read -/
def BackInv (p : Parser) : Prop :=
  p.err = .none ∧ (p.hasHangingPoint = true → p.tmp.point.isSome = true ∨ p.isFirstDigit = true)

theorem backInv_step (p : Parser) (c : Char) (p' : Parser) (hj : BackInv p) (h : p.append v c = (true, p')) :
    BackInv p' := by
  obtain ⟨he, hh⟩ := hj
  by_cases hp : c = '.'
  · subst hp
    obtain ⟨rfl, _⟩ := append_point_ok v p p' h
    exact ⟨he, fun _ => .inl rfl⟩
  by_cases hc : c = ','
  · subst hc
    obtain ⟨rfl, _⟩ := append_comma_ok v p p' h
    exact ⟨he, hh⟩
  cases hn : charToNum c with
  | none => rw [append_unknown v p c hp hc hn] at h; simp at h
  | some n =>
    rcases charToNum_cases c n hn with ⟨g, rfl, _⟩ | ⟨u, rfl, _⟩ | ⟨u, rfl, _⟩
    · rw [append_digit] at h
      obtain ⟨_, rfl⟩ := Prod.mk.inj h
      exact ⟨he, fun hx => by simp [Parser.pushDigit] at hx⟩
    · have hs := append_small_ok v p p' u h
      exact ⟨by rw [hs.2.2.2.2.2.2.2.2.2.2.2.2.2.2.1]; exact he, fun _ => .inr hs.2.2.1⟩
    · have hs := append_large_ok v p p' u h
      exact ⟨by rw [hs.2.2.2.2.2.2.2.2.2.2.2.2.2.2.2.1]; exact he, fun _ => .inr hs.2.2.2.2.1⟩

theorem backInv_new : BackInv Parser.new := ⟨rfl, by simp [Parser.new]⟩


/-- `done()` when both final additions succeed -/
theorem done_of_sums_ok (q : Parser) (h1 : (q.subtotal.add q.tmp).1 = true)
    (h2 : (q.total.add (q.subtotal.add q.tmp).2.1).1 = true) :
    q.done v =
      (if q.hasHangingPoint then
        (false, { q with total := (q.total.add (q.subtotal.add q.tmp).2.1).2.1, subtotal := (q.total.add (q.subtotal.add q.tmp).2.1).2.2, tmp := (q.subtotal.add q.tmp).2.2, err := .point })
      else if q.hasComma && q.digitLength != 3 then
        (false, { q with total := (q.total.add (q.subtotal.add q.tmp).2.1).2.1, subtotal := (q.total.add (q.subtotal.add q.tmp).2.1).2.2, tmp := (q.subtotal.add q.tmp).2.2, err := .comma })
      else
        (true, { q with total := (q.total.add (q.subtotal.add q.tmp).2.1).2.1, subtotal := (q.total.add (q.subtotal.add q.tmp).2.1).2.2, tmp := (q.subtotal.add q.tmp).2.2 })) := by
  unfold Parser.done
  rcases ha : q.subtotal.add q.tmp with ⟨r1, sub, tmp⟩
  rw [ha] at h1 h2
  simp only at h1 h2
  subst h1
  rcases hb : q.total.add sub with ⟨r2, tot, sub2⟩
  rw [hb] at h2
  simp only at h2
  subst h2
  simp [hb]

/-- an open separator group is complete when the next separator / the point is accepted -/
theorem checkComma_group (q : Parser) (h : q.checkComma v = true) (hc : q.hasComma = true) :
    q.digitLength = 3 := by
  unfold Parser.checkComma at h
  repeat (split at h <;> try (simp at h; done))
  all_goals simp_all

/-- **the back-off is sound** (repair F6): the parser, in a state reached by accepted characters,
accepts one more separator and `done()` then fails with exactly the error of that separator ⇒ without
the separator `done()` holds and the rendering is the same -/
theorem done_without_sep (h6 : v.f6 = true) (q : Parser) (hq : BackInv q) (sep : Char) (p' : Parser)
    (ha : q.append v sep = (true, p'))
    (hs : (sep = ',' ∧ (p'.done v).2.err = .comma) ∨ (sep = '.' ∧ (p'.done v).2.err = .point)) :
    (q.done v).1 = true ∧ (q.done v).2.getNormalized v = (p'.done v).2.getNormalized v := by
  obtain ⟨he, hh⟩ := hq
  have hi' : BackInv p' := backInv_step v q sep p' ⟨he, hh⟩ ha
  have hne : (p'.done v).2.err ≠ .none := by
    rcases hs with ⟨_, h⟩ | ⟨_, h⟩ <;> rw [h] <;> decide
  obtain ⟨s1, s2⟩ := done_error_sums_ok v h6 p' hi'.1 hne
  rcases hs with ⟨rfl, herr⟩ | ⟨rfl, herr⟩
  · obtain ⟨rfl, hcc⟩ := append_comma_ok v q _ ha
    have t1 : (q.subtotal.add q.tmp).1 = true := s1
    have t2 : (q.total.add (q.subtotal.add q.tmp).2.1).1 = true := s2
    rw [done_of_sums_ok v _ s1 s2] at herr ⊢
    rw [done_of_sums_ok v q t1 t2]
    have hgrp : q.hasComma = true → q.digitLength = 3 := checkComma_group v q hcc
    by_cases hhp : q.hasHangingPoint = true
    · simp [Parser.pushComma, hhp] at herr
    · cases hco : q.hasComma
      · simp [Parser.pushComma, hhp, Parser.getNormalized]
      · simp [Parser.pushComma, hhp, hgrp hco, Parser.getNormalized]
  · obtain ⟨rfl, hfd, hcc, hsc, hpt⟩ := append_point_ok v q _ ha
    have hE : SN.E q.tmp q.pushPoint.tmp := .inr ⟨hsc, hpt, rfl⟩
    obtain ⟨a1, a2⟩ := SN.add_E_number q.subtotal _ _ hE
    have a1' : (q.subtotal.add q.tmp).1 = (q.pushPoint.subtotal.add q.pushPoint.tmp).1 := a1
    have a2' : SN.E (q.subtotal.add q.tmp).2.1 (q.pushPoint.subtotal.add q.pushPoint.tmp).2.1 := a2
    obtain ⟨b1, b2⟩ := SN.add_E_number q.total _ _ a2'
    have t1 : (q.subtotal.add q.tmp).1 = true := by rw [a1']; exact s1
    have t2 : (q.total.add (q.subtotal.add q.tmp).2.1).1 = true := by rw [b1]; exact s2
    have hstr := SN.toStr_E _ _ b2
    rw [done_of_sums_ok v _ s1 s2, done_of_sums_ok v q t1 t2]
    have hhp : q.hasHangingPoint = false := by
      cases hx : q.hasHangingPoint
      · rfl
      · rcases hh hx with h | h
        · rw [hpt] at h; simp at h
        · rw [hfd] at h; simp at h
    have hgrp : q.hasComma = true → q.digitLength = 3 := fun hc => checkComma_group v q (hcc hc) hc
    have hpp : q.pushPoint.hasHangingPoint = true := rfl
    rw [if_pos hpp]
    cases hco : q.hasComma
    · simp [hhp, Parser.getNormalized]
      rw [hstr]; rfl
    · simp [hhp, hgrp hco, Parser.getNormalized]
      rw [hstr]; rfl

end Numeric
