import Sudachi.Model.OovTables
import Sudachi.Proofs.OovLattice
/-!
# Lemmas about the recycled tables (`Model/OovTables.lean`)
-/
namespace Oov

theorem utf8Width_pos (c : Nat) : 1 ≤ utf8Width c := by
  unfold utf8Width; split <;> (try split) <;> (try split) <;> omega

/-- on a table whose not-yet-visited part is all `false` the writes at the character starts give `bowBytes` -/
theorem writeBow_cleared (chars : List Nat) : ∀ (pre flags : List Bool), flags.length = chars.length →
    writeBow (pre ++ List.replicate (byteLen chars) false) pre.length chars flags = some (pre ++ bowBytes chars flags) := by
  induction chars with
  | nil => intro pre flags _; simp [writeBow, byteLen, bowBytes]
  | cons c cs ih =>
    intro pre flags hl
    cases flags with
    | nil => simp at hl
    | cons f fs =>
      simp only [List.length_cons, Nat.add_right_cancel_iff] at hl
      obtain ⟨k, hk⟩ : ∃ k, utf8Width c = k + 1 := ⟨utf8Width c - 1, by have := utf8Width_pos c; omega⟩
      have hrep : List.replicate (byteLen (c :: cs)) false = false :: (List.replicate k false ++ List.replicate (byteLen cs) false) := by
        simp only [byteLen, hk]
        rw [show k + 1 + byteLen cs = (k + byteLen cs) + 1 by omega, List.replicate_succ, List.replicate_append_replicate]
      have hset : (pre ++ false :: (List.replicate k false ++ List.replicate (byteLen cs) false)).set pre.length f
          = (pre ++ f :: List.replicate k false) ++ List.replicate (byteLen cs) false := by
        rw [List.set_append_right _ _ (Nat.le_refl _)]; simp
      have hlen : (pre ++ f :: List.replicate k false).length = pre.length + utf8Width c := by simp [hk]
      rw [hrep]
      simp only [writeBow]
      rw [if_pos (by simp), hset, ← hlen, ih _ fs hl]
      simp [bowBytes, hk]

theorem vecResize_nil {α : Type} (n : Nat) (v : α) : vecResize ([] : List α) n v = List.replicate n v := by
  simp [vecResize]

theorem fillCatContinuity_length (v : Variant) (cats : List Nat) : (fillCatContinuity v cats).length = cats.length :=
  (fillCatContinuity_contOk v cats).1

/-- `reset` + `build` = the tables of a NEW buffer, which are the per-character model `Buf` spread over the bytes -/
theorem next_eq (v : Variant) (bowFix : Bool) (t : Tables) (chars cats : List Nat) (h : cats.length = chars.length) :
    t.next v bowFix chars cats = some
      { chars := chars, c2b := c2bFrom 0 chars, b2c := b2cFrom 0 chars ++ [(chars.length - 1) + 1],
        bow := bowBytes chars (if bowFix then bowTableFix cats else bowTable cats), cat := cats,
        cont := fillCatContinuity v cats } := by
  have hfl : (if bowFix then bowTableFix cats else bowTable cats).length = chars.length := by
    split <;> simp [bowTableFix, bowTable, bowGo, bowGoV_length, h]
  have hw := writeBow_cleared chars [] _ hfl
  simp only [List.nil_append, List.length_nil] at hw
  simp only [Tables.next, Tables.build, Tables.reset, vecResize_nil, hw, List.nil_append]
  congr 2
  cases chars with
  | nil =>
    have : cats = [] := List.eq_nil_of_length_eq_zero (by simpa using h)
    subst this
    have := fillCatContinuity_length v []
    simp only [List.length_nil] at this
    simp [List.eq_nil_of_length_eq_zero this]
  | cons c cs =>
    simp [overwrite, fillCatContinuity_length]

/-- on the tables of a built text, `can_bow(mod_c2b[j])` is the flag `build` computed for character `j` -/
theorem canBow_at (chars : List Nat) : ∀ (pre flags : List Bool) (j : Nat), flags.length = chars.length → j < chars.length →
    ∃ b, (c2bFrom pre.length chars)[j]? = some b ∧ (pre ++ bowBytes chars flags)[b]? = flags[j]? := by
  induction chars with
  | nil => intro _ _ j _ hj; simp at hj
  | cons c cs ih =>
    intro pre flags j hl hj
    cases flags with
    | nil => simp at hl
    | cons f fs =>
      simp only [List.length_cons, Nat.add_right_cancel_iff] at hl
      cases j with
      | zero => exact ⟨pre.length, by simp [c2bFrom], by simp [bowBytes]⟩
      | succ j =>
        obtain ⟨k, hk⟩ : ∃ k, utf8Width c = k + 1 := ⟨utf8Width c - 1, by have := utf8Width_pos c; omega⟩
        have hlen : (pre ++ f :: List.replicate k false).length = pre.length + utf8Width c := by simp [hk]
        obtain ⟨b, hb1, hb2⟩ := ih (pre ++ f :: List.replicate k false) fs j hl (by simpa using hj)
        refine ⟨b, ?_, ?_⟩
        · simp only [c2bFrom, List.getElem?_cons_succ]; rw [← hlen]; exact hb1
        · simp only [bowBytes, hk, Nat.add_sub_cancel, List.getElem?_cons_succ]
          rw [← hb2]; simp

/-- the loop of `get_word_candidate_length` on ANY table contents on which `can_bow(mod_c2b[j])` is defined for every
character `j`: it stops at the first character from `i` on that may start a word, or at the end of the text -/
theorem wclLoop_spec (t : Tables) (idx : Nat) (hdef : ∀ j, j < t.chars.length → ∃ b, t.canBowChar j = some b) :
    ∀ (fuel i : Nat), i + fuel = t.chars.length → idx < i →
    ∃ k, wclLoop t idx fuel i = some k ∧ i ≤ idx + k ∧ idx + k ≤ t.chars.length ∧
      (∀ j, i ≤ j → j < idx + k → t.canBowChar j = some false) ∧
      (idx + k = t.chars.length ∨ t.canBowChar (idx + k) = some true) := by
  intro fuel
  induction fuel with
  | zero =>
    intro i hi hlt
    refine ⟨t.chars.length - idx, by simp [wclLoop], by omega, by omega, ?_, Or.inl (by omega)⟩
    intro j h1 h2; omega
  | succ fuel ih =>
    intro i hi hlt
    obtain ⟨b, hb⟩ := hdef i (by omega)
    cases b with
    | true =>
      refine ⟨i - idx, by simp [wclLoop, hb], by omega, by omega, ?_, Or.inr ?_⟩
      · intro j h1 h2; omega
      · rw [show idx + (i - idx) = i by omega]; exact hb
    | false =>
      obtain ⟨k, h1, h2, h3, h4, h5⟩ := ih (i + 1) (by omega) (by omega)
      refine ⟨k, by simp [wclLoop, hb, h1], by omega, h3, ?_, h5⟩
      intro j hj1 hj2
      by_cases hj : j = i
      · subst hj; exact hb
      · exact h4 j (by omega) hj2

theorem tables_wordCandidateLength_spec (t : Tables) (idx : Nat) (h : idx < t.chars.length)
    (hdef : ∀ j, j < t.chars.length → ∃ b, t.canBowChar j = some b) :
    ∃ k, t.wordCandidateLength idx = some k ∧ 1 ≤ k ∧ idx + k ≤ t.chars.length ∧
      (∀ j, idx < j → j < idx + k → t.canBowChar j = some false) ∧
      (idx + k = t.chars.length ∨ t.canBowChar (idx + k) = some true) := by
  obtain ⟨k, h1, h2, h3, h4, h5⟩ := wclLoop_spec t idx hdef (t.chars.length - (idx + 1)) (idx + 1) (by omega) (by omega)
  refine ⟨k, by simp [Tables.wordCandidateLength, Nat.le_of_lt h, h1], by omega, h3, ?_, h5⟩
  intro j hj1 hj2; exact h4 j (by omega) hj2

/-- the character view of the tables `reset` + `build` leave: exactly the flags of the text, whatever was there before -/
theorem next_canBowChar (v : Variant) (bowFix : Bool) (t t' : Tables) (chars cats : List Nat) (h : cats.length = chars.length)
    (ht : t.next v bowFix chars cats = some t') (j : Nat) (hj : j < chars.length) :
    t'.canBowChar j = (if bowFix then bowTableFix cats else bowTable cats)[j]? := by
  have hfl : (if bowFix then bowTableFix cats else bowTable cats).length = chars.length := by
    split <;> simp [bowTableFix, bowTable, bowGo, bowGoV_length, h]
  rw [next_eq v bowFix t chars cats h] at ht
  simp only [Option.some.injEq] at ht
  subst ht
  obtain ⟨b, hb1, hb2⟩ := canBow_at chars [] _ j hfl hj
  simp only [List.length_nil, List.nil_append] at hb1 hb2
  simp only [Tables.canBowChar, Tables.canBow, hb1, hb2]

theorem vecResize_length {α : Type} (l : List α) (n : Nat) (v : α) : (vecResize l n v).length = n := by
  simp [vecResize]; omega

/-- the writes on ANY table that is long enough: nothing before `off` changes, and the entry at the start of character `j` is
flag `j` - whatever the other bytes hold -/
theorem writeBow_general (chars : List Nat) : ∀ (t : List Bool) (off : Nat) (flags : List Bool), flags.length = chars.length →
    off + byteLen chars ≤ t.length →
    ∃ t', writeBow t off chars flags = some t' ∧ t'.length = t.length ∧ (∀ p, p < off → t'[p]? = t[p]?) ∧
      (∀ j, j < chars.length → ∃ b, (c2bFrom off chars)[j]? = some b ∧ t'[b]? = flags[j]?) := by
  induction chars with
  | nil =>
    intro t off flags _ _
    exact ⟨t, by simp [writeBow], rfl, fun _ _ => rfl, fun j hj => by simp at hj⟩
  | cons c cs ih =>
    intro t off flags hl hlen
    cases flags with
    | nil => simp at hl
    | cons f fs =>
      simp only [List.length_cons, Nat.add_right_cancel_iff] at hl
      have hw := utf8Width_pos c
      simp only [byteLen] at hlen
      have hoff : off < t.length := by omega
      obtain ⟨t', h1, h2, h3, h4⟩ := ih (t.set off f) (off + utf8Width c) fs hl (by simp; omega)
      refine ⟨t', by simp [writeBow, hoff, h1], by simpa using h2, ?_, ?_⟩
      · intro p hp
        rw [h3 p (by omega), List.getElem?_set_ne (by omega)]
      · intro j hj
        cases j with
        | zero =>
          refine ⟨off, by simp [c2bFrom], ?_⟩
          rw [h3 off (by omega), List.getElem?_set_self hoff]; simp
        | succ j =>
          obtain ⟨b, hb1, hb2⟩ := h4 j (by simpa using hj)
          exact ⟨b, by simpa [c2bFrom] using hb1, by simpa using hb2⟩

/-- `build` after a `reset` that keeps `mod_bow`: it still succeeds, and the CHARACTER view of the word-start table is the
flags of this text (the bytes inside the characters are whatever they were) -/
theorem nextKeepBow_canBowChar (v : Variant) (bowFix : Bool) (t : Tables) (chars cats : List Nat) (h : cats.length = chars.length) :
    ∃ t', t.nextKeepBow v bowFix chars cats = some t' ∧ t'.chars = chars ∧
      ∀ j, j < chars.length → t'.canBowChar j = (if bowFix then bowTableFix cats else bowTable cats)[j]? := by
  have hfl : (if bowFix then bowTableFix cats else bowTable cats).length = chars.length := by
    split <;> simp [bowTableFix, bowTable, bowGo, bowGoV_length, h]
  obtain ⟨bow, h1, _, _, h4⟩ := writeBow_general chars (vecResize t.bow (byteLen chars) false) 0 _ hfl
    (by rw [vecResize_length]; omega)
  refine ⟨(⟨chars, [] ++ c2bFrom 0 chars, [] ++ b2cFrom 0 chars ++ [(chars.length - 1) + 1], bow, [] ++ cats,
      if chars.isEmpty then [] else overwrite (vecResize [] ([] ++ cats).length 1) (fillCatContinuity v ([] ++ cats))⟩ : Tables),
    by simp only [Tables.nextKeepBow, Tables.build, Tables.resetKeepBow, Tables.reset, h1], rfl, ?_⟩
  intro j hj
  obtain ⟨b, hb1, hb2⟩ := h4 j hj
  simp only [Tables.canBowChar, Tables.canBow, List.nil_append, hb1, hb2]

end Oov
