import Sudachi.Proofs.RewriteDepth
/-!
# C14: locality of the two path-rewrite loops (building blocks for "the plugins commute")

* `joinKatakana_split` — the katakana joiner can be cut at a node that is not katakana;
* `joinNumeric_split`, `joinNumeric_reset_last` — the numeral joiner can be cut at a node that resets it.
-/
namespace Rewrite

/-! ## the katakana loop, one iteration at a time -/

/-- what one iteration of `kloop` leaves to do -/
inductive KNext where
  | done (p : List Node)
  | cont (p : List Node) (i : Nat)

def KNext.map (f : List Node → List Node) (g : Nat → Nat) : KNext → KNext
  | .done p => .done (f p)
  | .cont p j => .cont (f p) (g j)

def knext (cfg : KCfg) (cat : List Nat) (path : List Node) (i : Nat) : Outcome KNext :=
  if i ≥ path.length then .ok (.done path)
  else match path[i]? with
    | none => .panic
    | some node =>
      (kstep cfg cat path i node).bind fun s =>
        match s with
        | .next => .ok (.cont path (i + 1))
        | .join b e => (concatOovNodes path b e cfg.oovPos).bind fun p' => .ok (.cont p' (b + 2))

def kcont (cfg : KCfg) (cat : List Nat) (fuel : Nat) : Outcome KNext → Outcome (List Node)
  | .ok (.done p) => .ok p
  | .ok (.cont p j) => kloop cfg cat fuel p j
  | .err => .err
  | .panic => .panic
  | .fuel => .fuel

theorem kloop_succ_eq (cfg : KCfg) (cat : List Nat) (fuel : Nat) (path : List Node) (i : Nat) :
    kloop cfg cat (fuel + 1) path i = kcont cfg cat fuel (knext cfg cat path i) := by
  unfold knext
  by_cases hi : i ≥ path.length
  · simp only [kloop, hi, if_true, kcont]
  · simp only [kloop, if_neg hi]
    cases path[i]? with
    | none => rfl
    | some node =>
      simp only []
      cases kstep cfg cat path i node with
      | ok s =>
        cases s with
        | next => rfl
        | join b e =>
          simp only [Outcome.bind]
          cases concatOovNodes path b e cfg.oovPos <;> rfl
      | err => rfl
      | panic => rfl
      | fuel => rfl

/-! ## more fuel does not change a result that is not "out of fuel" -/

theorem kloop_fuel_mono (cfg : KCfg) (cat : List Nat) :
    ∀ (fuel : Nat) (path : List Node) (i : Nat), kloop cfg cat fuel path i ≠ .fuel →
      ∀ k, kloop cfg cat (fuel + k) path i = kloop cfg cat fuel path i := by
  intro fuel
  induction fuel with
  | zero => intro path i h; exact absurd rfl h
  | succ fuel ih =>
    intro path i h k
    have e1 : fuel + 1 + k = (fuel + k) + 1 := by omega
    rw [e1, kloop_succ_eq, kloop_succ_eq]
    rw [kloop_succ_eq] at h
    cases hk : knext cfg cat path i with
    | ok r =>
      cases r with
      | done p => rfl
      | cont p j =>
        rw [hk] at h
        exact ih p j h k
    | err => rfl
    | panic => rfl
    | fuel => rfl

/-- any two sufficient amounts of fuel give the same result -/
theorem kloop_fuel_indep (cfg : KCfg) (cat : List Nat) (path : List Node) (i f1 f2 : Nat)
    (h1 : path.length - i < f1) (h2 : path.length - i < f2) :
    kloop cfg cat f1 path i = kloop cfg cat f2 path i := by
  have key : ∀ f, path.length - i < f →
      kloop cfg cat f path i = kloop cfg cat (path.length - i + 1) path i := by
    intro f hf
    have := kloop_fuel_mono cfg cat (path.length - i + 1) path i
      (kloop_terminates cfg cat _ path i (by omega)) (f - (path.length - i + 1))
    rw [← this]
    congr 1
    omega
  rw [key f1 h1, key f2 h2]

/-! ## the scans under a shift of the path by a prefix that ends in a non-katakana node -/

theorem cm_scanBackL_shift (cat : List Nat) (p : List Node)
    (hp : ∀ y, p.head? = some y → isKatakana cat y = .ok false) :
    ∀ (r : List Node) (k : Nat), k = r.length →
      scanBackL cat (r ++ p) (p.length + k) = (scanBackL cat r k).bind fun b => .ok (p.length + b) := by
  intro r
  induction r with
  | nil =>
    intro k hk
    subst hk
    cases p with
    | nil => simp [scanBackL, Outcome.bind]
    | cons y p' => simp only [List.nil_append, scanBackL, hp y rfl, Outcome.bind, List.length_nil]
  | cons n r ih =>
    intro k hk
    have e1 : p.length + k - 1 = p.length + (k - 1) := by
      simp only [List.length_cons] at hk; omega
    cases h : isKatakana cat n with
    | ok b =>
      cases b
      · simp only [List.cons_append, scanBackL, h, Outcome.bind]
      · simp only [List.cons_append, scanBackL, h]
        rw [e1]
        exact ih (k - 1) (by simp only [List.length_cons] at hk; omega)
    | err => simp only [List.cons_append, scanBackL, h, Outcome.bind]
    | panic => simp only [List.cons_append, scanBackL, h, Outcome.bind]
    | fuel => simp only [List.cons_append, scanBackL, h, Outcome.bind]

theorem cm_scanFwdL_shift (cat : List Nat) (c : Nat) : ∀ (l : List Node) (e0 : Nat),
    scanFwdL cat l (c + e0) = (scanFwdL cat l e0).bind fun e => .ok (c + e) := by
  intro l
  induction l with
  | nil => intro e0; rfl
  | cons n rest ih =>
    intro e0
    cases h : isKatakana cat n with
    | ok b =>
      cases b
      · simp only [scanFwdL, h, Outcome.bind]
      · simp only [scanFwdL, h]
        rw [Nat.add_assoc]
        exact ih (e0 + 1)
    | err => simp only [scanFwdL, h, Outcome.bind]
    | panic => simp only [scanFwdL, h, Outcome.bind]
    | fuel => simp only [scanFwdL, h, Outcome.bind]

theorem cm_skipBowL_shift (cat : List Nat) (c : Nat) : ∀ (l : List Node) (b0 : Nat),
    skipBowL cat l (c + b0) = (skipBowL cat l b0).bind fun b => .ok (c + b) := by
  intro l
  induction l with
  | nil => intro b0; rfl
  | cons n rest ih =>
    intro b0
    cases h : canOovBow cat n with
    | ok b =>
      cases b
      · simp only [skipBowL, h]
        rw [Nat.add_assoc]
        exact ih (b0 + 1)
      · simp only [skipBowL, h, Outcome.bind]
    | err => simp only [skipBowL, h, Outcome.bind]
    | panic => simp only [skipBowL, h, Outcome.bind]
    | fuel => simp only [skipBowL, h, Outcome.bind]

theorem cm_block_shift (pre q : List Node) (b e : Nat) :
    block (pre ++ q) (pre.length + b) (pre.length + e) = block q b e := by
  unfold block
  rw [List.drop_append, List.drop_of_length_le (by omega), List.nil_append]
  have e1 : pre.length + b - pre.length = b := by omega
  have e2 : pre.length + e - (pre.length + b) = e - b := by omega
  rw [e1, e2]

theorem cm_getElem?_shift (pre q : List Node) (i : Nat) : (pre ++ q)[pre.length + i]? = q[i]? := by
  rw [List.getElem?_append_right (by omega)]
  congr 1
  omega

theorem cm_take_shift (pre q : List Node) (i : Nat) : (pre ++ q).take (pre.length + i) = pre ++ q.take i := by
  rw [List.take_append, List.take_of_length_le (by omega)]
  congr 2
  omega

theorem cm_drop_shift (pre q : List Node) (i : Nat) : (pre ++ q).drop (pre.length + i) = q.drop i := by
  rw [List.drop_append, List.drop_of_length_le (by omega), List.nil_append]
  congr 1
  omega

theorem cm_scanBack_shift (cat : List Nat) (pre q : List Node) (i : Nat)
    (hpre : ∀ y, pre.getLast? = some y → isKatakana cat y = .ok false) (hi : i ≤ q.length) :
    scanBack cat (pre ++ q) (pre.length + i) = (scanBack cat q i).bind fun b => .ok (pre.length + b) := by
  unfold scanBack
  rw [cm_take_shift, List.reverse_append]
  have := cm_scanBackL_shift cat pre.reverse
    (by intro y hy; rw [List.head?_reverse] at hy; exact hpre y hy) (q.take i).reverse i
    (by simp only [List.length_reverse, List.length_take]; omega)
  simp only [List.length_reverse] at this
  exact this

theorem cm_scanFwd_shift (cat : List Nat) (pre q : List Node) (i : Nat) :
    scanFwd cat (pre ++ q) (pre.length + i) = (scanFwd cat q i).bind fun e => .ok (pre.length + e) := by
  unfold scanFwd
  rw [Nat.add_assoc, cm_drop_shift]
  exact cm_scanFwdL_shift cat pre.length _ _

theorem cm_skipBow_shift (cat : List Nat) (pre q : List Node) (b e : Nat) :
    skipBow cat (pre ++ q) (pre.length + b) (pre.length + e) =
      (skipBow cat q b e).bind fun b' => .ok (pre.length + b') := by
  unfold skipBow
  rw [cm_block_shift]
  exact cm_skipBowL_shift cat pre.length _ _

def KStep.shift (c : Nat) : KStep → KStep
  | .next => .next
  | .join b e => .join (c + b) (c + e)

theorem cm_kstep_shift (cfg : KCfg) (cat : List Nat) (pre q : List Node) (i : Nat) (node : Node)
    (hpre : ∀ y, pre.getLast? = some y → isKatakana cat y = .ok false) (hi : i ≤ q.length) :
    kstep cfg cat (pre ++ q) (pre.length + i) node =
      (kstep cfg cat q i node).bind fun s => .ok (s.shift pre.length) := by
  unfold kstep
  generalize (if isOov node then Outcome.ok true else isShorter cfg node) = oc
  cases oc with
  | ok cand =>
    cases cand
    · rfl
    · simp only [Outcome.bind, Bool.not_true, Bool.false_eq_true, if_false]
      cases hk : isKatakana cat node with
      | ok kt =>
        cases kt
        · rfl
        · simp only [Bool.not_true, Bool.false_eq_true, if_false]
          rw [cm_scanBack_shift cat pre q i hpre hi, cm_scanFwd_shift]
          cases scanBack cat q i with
          | ok b0 =>
            simp only [Outcome.bind]
            cases scanFwd cat q i with
            | ok e =>
              simp only []
              rw [cm_skipBow_shift]
              cases skipBow cat q b0 e with
              | ok b =>
                simp only [Outcome.bind]
                have e1 : pre.length + e - (pre.length + b) = e - b := by omega
                rw [e1]
                by_cases h : e - b > 1
                · rw [if_pos h, if_pos h]; rfl
                · rw [if_neg h, if_neg h]; rfl
              | err => rfl
              | panic => rfl
              | fuel => rfl
            | err => rfl
            | panic => rfl
            | fuel => rfl
          | err => rfl
          | panic => rfl
          | fuel => rfl
      | err => rfl
      | panic => rfl
      | fuel => rfl
  | err => rfl
  | panic => rfl
  | fuel => rfl

theorem cm_concatOov_shift (pre q : List Node) (b e pos : Nat) :
    concatOovNodes (pre ++ q) (pre.length + b) (pre.length + e) pos =
      (concatOovNodes q b e pos).bind fun p => .ok (pre ++ p) := by
  unfold concatOovNodes
  by_cases hbe : b ≥ e
  · rw [if_pos (by omega), if_pos hbe]; rfl
  · rw [if_neg (by omega), if_neg hbe]
    have e1 : pre.length + e - 1 = pre.length + (e - 1) := by omega
    rw [e1, cm_getElem?_shift, cm_getElem?_shift, cm_block_shift, cm_take_shift, cm_drop_shift]
    cases q[e - 1]? with
    | none => rfl
    | some l =>
      cases q[b]? with
      | none => rfl
      | some f =>
        simp only []
        by_cases h1 : l.eb < f.bb
        · rw [if_pos h1, if_pos h1]; rfl
        · rw [if_neg h1, if_neg h1]
          by_cases h2 : sumHwl (block q b e) ≥ 65536
          · rw [if_pos h2, if_pos h2]; rfl
          · rw [if_neg h2, if_neg h2]
            simp only [Outcome.bind, List.append_assoc]

theorem cm_knext_shift (cfg : KCfg) (cat : List Nat) (pre q : List Node) (i : Nat)
    (hpre : ∀ y, pre.getLast? = some y → isKatakana cat y = .ok false) :
    knext cfg cat (pre ++ q) (pre.length + i) =
      (knext cfg cat q i).bind fun r => .ok (r.map (pre ++ ·) (pre.length + ·)) := by
  unfold knext
  by_cases hi : i ≥ q.length
  · rw [if_pos (by simp only [List.length_append]; omega), if_pos hi]; rfl
  · rw [if_neg (by simp only [List.length_append]; omega), if_neg hi, cm_getElem?_shift]
    cases q[i]? with
    | none => rfl
    | some node =>
      simp only []
      rw [cm_kstep_shift cfg cat pre q i node hpre (by omega)]
      cases kstep cfg cat q i node with
      | ok s =>
        cases s with
        | next => rfl
        | join b e =>
          simp only [Outcome.bind, KStep.shift]
          rw [cm_concatOov_shift]
          cases concatOovNodes q b e cfg.oovPos with
          | ok p' => simp only [Outcome.bind, KNext.map, Nat.add_assoc]
          | err => rfl
          | panic => rfl
          | fuel => rfl
      | err => rfl
      | panic => rfl
      | fuel => rfl

/-- SHIFT: right of a non-katakana node the loop does not see what is left of it -/
theorem kloop_shift (cfg : KCfg) (cat : List Nat) (pre : List Node)
    (hpre : ∀ y, pre.getLast? = some y → isKatakana cat y = .ok false) :
    ∀ (fuel : Nat) (q : List Node) (i : Nat),
      kloop cfg cat fuel (pre ++ q) (pre.length + i) =
        (kloop cfg cat fuel q i).bind fun b => .ok (pre ++ b) := by
  intro fuel
  induction fuel with
  | zero => intro q i; rfl
  | succ fuel ih =>
    intro q i
    rw [kloop_succ_eq, kloop_succ_eq, cm_knext_shift cfg cat pre q i hpre]
    cases knext cfg cat q i with
    | ok r =>
      cases r with
      | done p => rfl
      | cont p j => exact ih p j
    | err => rfl
    | panic => rfl
    | fuel => rfl

/-! ## left of a non-katakana node the loop does not see what follows it -/

theorem cm_kstep_congr (cfg : KCfg) (cat : List Nat) (p1 p2 : List Node) (j : Nat) (node : Node)
    (hb : scanBack cat p1 j = scanBack cat p2 j) (hf : scanFwd cat p1 j = scanFwd cat p2 j)
    (hs : ∀ b0 e, scanBack cat p1 j = .ok b0 → scanFwd cat p1 j = .ok e →
      skipBow cat p1 b0 e = skipBow cat p2 b0 e) :
    kstep cfg cat p1 j node = kstep cfg cat p2 j node := by
  unfold kstep
  congr 1
  funext cand
  cases cand
  · rfl
  · simp only [Bool.not_true, Bool.false_eq_true, if_false]
    congr 1
    funext kt
    cases kt
    · rfl
    · simp only [Bool.not_true, Bool.false_eq_true, if_false]
      rw [← hb, ← hf]
      cases hb0 : scanBack cat p1 j with
      | ok b0 =>
        simp only [Outcome.bind]
        cases he : scanFwd cat p1 j with
        | ok e =>
          simp only []
          rw [hs b0 e hb0 he]
        | err => rfl
        | panic => rfl
        | fuel => rfl
      | err => rfl
      | panic => rfl
      | fuel => rfl

theorem cm_scanFwdL_stop_nil (cat : List Nat) (x : Node) (hx : isKatakana cat x = .ok false) :
    ∀ (a r : List Node) (e0 : Nat), scanFwdL cat (a ++ x :: r) e0 = scanFwdL cat a e0 := by
  intro a
  induction a with
  | nil => intro r e0; simp only [List.nil_append, scanFwdL, hx]
  | cons n a ih =>
    intro r e0
    simp only [List.cons_append, scanFwdL]
    rw [ih r (e0 + 1)]

theorem cm_scanFwdL_le (cat : List Nat) : ∀ (l : List Node) (e0 e : Nat),
    scanFwdL cat l e0 = .ok e → e ≤ e0 + l.length := by
  intro l
  induction l with
  | nil => intro e0 e h; simp only [scanFwdL, Outcome.ok.injEq] at h; simp only [List.length_nil]; omega
  | cons n rest ih =>
    intro e0 e h
    unfold scanFwdL at h
    split at h
    · have := ih _ _ h
      simp only [List.length_cons]; omega
    · cases h
      simp only [List.length_cons]; omega
    all_goals cases h

theorem cm_scanFwd_le (cat : List Nat) (path : List Node) (i e : Nat) (hi : i < path.length)
    (h : scanFwd cat path i = .ok e) : e ≤ path.length := by
  unfold scanFwd at h
  have := cm_scanFwdL_le cat _ _ _ h
  simp only [List.length_drop] at this
  omega

theorem cm_block_append_left (pre r : List Node) (b0 e : Nat) (he : e ≤ pre.length) :
    block (pre ++ r) b0 e = block pre b0 e := by
  unfold block
  by_cases hb : b0 ≤ e
  · rw [List.drop_append_of_le_length (by omega), List.take_append_of_le_length]
    simp only [List.length_drop]; omega
  · have : e - b0 = 0 := by omega
    rw [this]; rfl

theorem cm_kstep_left (cfg : KCfg) (cat : List Nat) (a r : List Node) (x : Node) (i : Nat) (node : Node)
    (hx : isKatakana cat x = .ok false) (hi : i < a.length) :
    kstep cfg cat (a ++ x :: r) i node = kstep cfg cat a i node := by
  symm
  have hfwd : scanFwd cat a i = scanFwd cat (a ++ x :: r) i := by
    unfold scanFwd
    rw [List.drop_append_of_le_length (by omega), cm_scanFwdL_stop_nil cat x hx]
  apply cm_kstep_congr
  · unfold scanBack
    rw [List.take_append_of_le_length (by omega)]
  · exact hfwd
  · intro b0 e _ he
    have hle := cm_scanFwd_le cat a i e hi he
    unfold skipBow
    rw [cm_block_append_left _ _ _ _ hle]

theorem cm_concatOov_left (a r : List Node) (b e pos : Nat) (he : e ≤ a.length) :
    concatOovNodes (a ++ r) b e pos = (concatOovNodes a b e pos).bind fun p => .ok (p ++ r) := by
  unfold concatOovNodes
  by_cases hbe : b ≥ e
  · rw [if_pos hbe, if_pos hbe]; rfl
  · rw [if_neg hbe, if_neg hbe]
    rw [List.getElem?_append_left (by omega), List.getElem?_append_left (by omega),
      cm_block_append_left _ _ _ _ he, List.take_append_of_le_length (by omega),
      List.drop_append_of_le_length he]
    cases a[e - 1]? with
    | none => rfl
    | some l =>
      cases a[b]? with
      | none => rfl
      | some f =>
        simp only []
        by_cases h1 : l.eb < f.bb
        · rw [if_pos h1, if_pos h1]; rfl
        · rw [if_neg h1, if_neg h1]
          by_cases h2 : sumHwl (block a b e) ≥ 65536
          · rw [if_pos h2, if_pos h2]; rfl
          · rw [if_neg h2, if_neg h2]
            simp only [Outcome.bind, List.append_assoc, List.cons_append]

theorem cm_knext_left (cfg : KCfg) (cat : List Nat) (a r : List Node) (x : Node) (i : Nat)
    (hx : isKatakana cat x = .ok false) (hi : i < a.length) :
    knext cfg cat (a ++ x :: r) i =
      (knext cfg cat a i).bind fun n => .ok (n.map (· ++ x :: r) id) := by
  unfold knext
  rw [if_neg (by simp only [List.length_append]; omega), if_neg (by omega),
    List.getElem?_append_left hi, List.getElem?_eq_getElem hi]
  simp only []
  rw [cm_kstep_left cfg cat a r x i _ hx hi]
  cases hk : kstep cfg cat a i a[i] with
  | ok s =>
    cases s with
    | next => rfl
    | join b e =>
      obtain ⟨_, _, b0, _, hf, _, _⟩ := kstep_join_parts cfg cat a i _ b e hk
      have hle := cm_scanFwd_le cat a i e hi hf
      simp only [Outcome.bind]
      rw [cm_concatOov_left a (x :: r) b e _ hle]
      cases concatOovNodes a b e cfg.oovPos <;> rfl
  | err => rfl
  | panic => rfl
  | fuel => rfl

theorem cm_cand_ok (cfg : KCfg) (node : Node) (h : node.b ≤ node.e) :
    ∃ c, (if isOov node then Outcome.ok true else isShorter cfg node) = .ok c := by
  cases isOov node
  · refine ⟨decide (node.e - node.b < cfg.minLength), ?_⟩
    unfold isShorter
    simp only [Bool.false_eq_true, if_false]
    rw [if_neg (by omega)]
  · exact ⟨true, by simp⟩

theorem cm_kstep_not_katakana (cfg : KCfg) (cat : List Nat) (path : List Node) (j : Nat) (node : Node)
    (hk : isKatakana cat node = .ok false) (hbe : node.b ≤ node.e) :
    kstep cfg cat path j node = .ok .next := by
  unfold kstep
  obtain ⟨c, hc⟩ := cm_cand_ok cfg node hbe
  rw [hc]
  cases c
  · rfl
  · simp [hk, Outcome.bind]

theorem cm_knext_at (cfg : KCfg) (cat : List Nat) (a r : List Node) (x : Node)
    (hx : isKatakana cat x = .ok false) (hxe : x.b ≤ x.e) :
    knext cfg cat (a ++ x :: r) a.length = .ok (.cont (a ++ x :: r) (a.length + 1)) := by
  unfold knext
  rw [if_neg (by simp only [List.length_append, List.length_cons]; omega),
    List.getElem?_append_right (Nat.le_refl _)]
  simp only [Nat.sub_self, List.getElem?_cons_zero]
  rw [cm_kstep_not_katakana cfg cat _ _ x hx hxe]
  rfl

theorem cm_knext_not_done (cfg : KCfg) (cat : List Nat) (a : List Node) (i : Nat) (hi : i < a.length)
    (p : List Node) : knext cfg cat a i ≠ .ok (.done p) := by
  unfold knext
  rw [if_neg (by omega), List.getElem?_eq_getElem hi]
  simp only []
  cases kstep cfg cat a i a[i] with
  | ok s =>
    cases s with
    | next => intro h; cases h
    | join b e =>
      simp only [Outcome.bind]
      cases concatOovNodes a b e cfg.oovPos <;> (intro h; cases h)
  | err => intro h; cases h
  | panic => intro h; cases h
  | fuel => intro h; cases h

/-- right of `x`: the loop from the node after `x` is the loop on `r` alone -/
theorem cm_kloop_after (cfg : KCfg) (cat : List Nat) (a r : List Node) (x : Node)
    (hx : isKatakana cat x = .ok false) (fuel : Nat) (hf : r.length < fuel) :
    kloop cfg cat fuel (a ++ x :: r) (a.length + 1) =
      (joinKatakana cfg cat r).bind fun b => .ok (a ++ x :: b) := by
  have e1 : a ++ x :: r = (a ++ [x]) ++ r := by simp
  have e2 : a.length + 1 = (a ++ [x]).length + 0 := by simp
  rw [e1, e2, kloop_shift cfg cat (a ++ [x]) (by
    intro y hy
    simp only [List.getLast?_append, List.getLast?_singleton, Option.some_or, Option.some.injEq] at hy
    rw [← hy]; exact hx)]
  unfold joinKatakana
  rw [kloop_fuel_indep cfg cat r 0 fuel (kFuel r) (by omega) (by unfold kFuel; omega)]
  congr 1
  funext b
  simp

/-- LEFT: up to `x` the loop on `a ++ x :: r` is the loop on `a`, then the loop on `r` -/
theorem cm_kloop_left (cfg : KCfg) (cat : List Nat) (r : List Node) (x : Node)
    (hx : isKatakana cat x = .ok false) (hxe : x.b ≤ x.e) :
    ∀ (fuel : Nat) (a : List Node) (i : Nat), i ≤ a.length + 1 → a.length - i < fuel →
      kloop cfg cat (fuel + (r.length + 1)) (a ++ x :: r) i =
        (kloop cfg cat fuel a i).bind fun a' =>
          (joinKatakana cfg cat r).bind fun b => .ok (a' ++ x :: b) := by
  intro fuel
  induction fuel with
  | zero => intro a i _ h; omega
  | succ fuel ih =>
    intro a i hi hf
    have hdone : i ≥ a.length → kloop cfg cat (fuel + 1) a i = .ok a := by
      intro h
      simp only [kloop, h, if_true]
    by_cases h1 : i = a.length + 1
    · subst h1
      rw [cm_kloop_after cfg cat a r x hx _ (by omega), hdone (by omega)]
      rfl
    · by_cases h2 : i = a.length
      · subst h2
        have e1 : fuel + 1 + (r.length + 1) = (fuel + r.length + 1) + 1 := by omega
        rw [e1, kloop_succ_eq, cm_knext_at cfg cat a r x hx hxe, hdone (by omega)]
        simp only [kcont]
        rw [cm_kloop_after cfg cat a r x hx _ (by omega)]
        rfl
      · have hlt : i < a.length := by omega
        have e1 : fuel + 1 + (r.length + 1) = (fuel + (r.length + 1)) + 1 := by omega
        rw [e1, kloop_succ_eq, kloop_succ_eq, cm_knext_left cfg cat a r x i hx hlt]
        cases hk : knext cfg cat a i with
        | ok n =>
          cases n with
          | done p => exact absurd hk (cm_knext_not_done cfg cat a i hlt p)
          | cont p j =>
            simp only [Outcome.bind, KNext.map, kcont, id]
            -- bounds on the continuation
            have hb : j ≤ p.length + 1 ∧ p.length - j < fuel := by
              unfold knext at hk
              rw [if_neg (by omega), List.getElem?_eq_getElem hlt] at hk
              simp only [] at hk
              cases hs : kstep cfg cat a i a[i] with
              | ok s =>
                rw [hs] at hk
                cases s with
                | next =>
                  simp only [Outcome.bind, Outcome.ok.injEq, KNext.cont.injEq] at hk
                  obtain ⟨rfl, rfl⟩ := hk
                  omega
                | join b e =>
                  simp only [Outcome.bind] at hk
                  have hie := kstep_join_lt cfg cat a i _ b e hs
                  cases hc : concatOovNodes a b e cfg.oovPos with
                  | ok p' =>
                    rw [hc] at hk
                    simp only [Outcome.ok.injEq, KNext.cont.injEq] at hk
                    obtain ⟨rfl, rfl⟩ := hk
                    obtain ⟨f, l, hbe, he, _, _, rfl⟩ := concatOovNodes_ok hc
                    simp only [List.length_append, List.length_take, List.length_cons,
                      List.length_drop]
                    omega
                  | err => rw [hc] at hk; cases hk
                  | panic => rw [hc] at hk; cases hk
                  | fuel => rw [hc] at hk; cases hk
              | err => rw [hs] at hk; cases hk
              | panic => rw [hs] at hk; cases hk
              | fuel => rw [hs] at hk; cases hk
            exact ih p j hb.1 hb.2
        | err => rfl
        | panic => rfl
        | fuel => rfl

/-- **L1**: the katakana joiner can be cut at a node that is not katakana -/
theorem joinKatakana_split (cfg : KCfg) (cat : List Nat) (A B : List Node) (x : Node)
    (hx : isKatakana cat x = .ok false) (hxe : x.b ≤ x.e) :
    joinKatakana cfg cat (A ++ x :: B) =
      (joinKatakana cfg cat A).bind fun a => (joinKatakana cfg cat B).bind fun b => .ok (a ++ x :: b) := by
  have h := cm_kloop_left cfg cat B x hx hxe (kFuel A) A 0 (by omega) (by unfold kFuel; omega)
  have e : joinKatakana cfg cat (A ++ x :: B) =
      kloop cfg cat (kFuel A + (B.length + 1)) (A ++ x :: B) 0 := by
    unfold joinKatakana
    congr 1
    simp only [kFuel, List.length_append, List.length_cons]
    omega
  rw [e, h]
  rfl

/-- `.ok` form of L1 -/
theorem joinKatakana_split_ok (cfg : KCfg) (cat : List Nat) (A B : List Node) (x : Node)
    (hx : isKatakana cat x = .ok false) (hxe : x.b ≤ x.e) (a b : List Node)
    (ha : joinKatakana cfg cat A = .ok a) (hb : joinKatakana cfg cat B = .ok b) :
    joinKatakana cfg cat (A ++ x :: B) = .ok (a ++ x :: b) := by
  rw [joinKatakana_split cfg cat A B x hx hxe, ha, hb]
  rfl

/-! # the numeral joiner -/

/-- a node that is not a numeral candidate under any flags and re-arms both separator flags -/
def Resets (cat : List Nat) (x : Node) : Prop :=
  ∃ ct, catOfRange cat x.b x.e = some ct ∧ isNumericCat ct = false ∧ normForm x ≠ [','] ∧ normForm x ≠ ['.']

/-- the parser does not accept a separator as the first character of a number -/
def SepNotFirst (P : List Char → POut) : Prop := (P [',']).n = 0 ∧ (P ['.']).n = 0

theorem nloop_fuel_mono (v : NVariant) (cfg : NCfg) (cat : List Nat) (P : List Char → POut) :
    ∀ (fuel : Nat) (st : NState), nloop v cfg cat P fuel st ≠ .fuel →
      ∀ k, nloop v cfg cat P (fuel + k) st = nloop v cfg cat P fuel st := by
  intro fuel
  induction fuel with
  | zero => intro st h; exact absurd rfl h
  | succ fuel ih =>
    intro st h k
    have e1 : fuel + 1 + k = (fuel + k) + 1 := by omega
    rw [e1]
    unfold nloop at h ⊢
    by_cases hg : st.i < (st.path.length : Int) - 1
    · simp only [if_pos hg] at h ⊢
      cases hs : nstep v cfg cat P st with
      | ok st' =>
        rw [hs] at h
        exact ih st' h k
      | err => rfl
      | panic => rfl
      | fuel => rfl
    · simp only [if_neg hg]

theorem nloop_fuel_indep (v : NVariant) (cfg : NCfg) (cat : List Nat) (P : List Char → POut)
    (st : NState) (f1 f2 : Nat) (h1 : nloop v cfg cat P f1 st ≠ .fuel)
    (h2 : nloop v cfg cat P f2 st ≠ .fuel) : nloop v cfg cat P f1 st = nloop v cfg cat P f2 st := by
  rcases Nat.le_total f1 f2 with h | h
  · have := nloop_fuel_mono v cfg cat P f1 st h1 (f2 - f1)
    rw [← this]; congr 1; omega
  · have := nloop_fuel_mono v cfg cat P f2 st h2 (f1 - f2)
    rw [← this]; congr 1; omega

/-! ## embedding a state over `q` into a state over `L ++ q ++ R` -/

def emb (L R : List Node) (st : NState) : NState :=
  { path := L ++ st.path ++ R, i := st.i + L.length, beginIdx := (if st.beginIdx < 0 then st.beginIdx else st.beginIdx + L.length), comma := st.comma, period := st.period, acc := st.acc }

theorem emb_getElem? (L q R : List Node) (k : Nat) (hk : k < q.length) :
    (L ++ q ++ R)[L.length + k]? = q[k]? := by
  rw [List.append_assoc, cm_getElem?_shift, List.getElem?_append_left hk]

theorem emb_block (L q R : List Node) (b e : Nat) (he : e ≤ q.length) :
    block (L ++ q ++ R) (L.length + b) (L.length + e) = block q b e := by
  rw [cm_block_append_left _ _ _ _ (by simp only [List.length_append]; omega), cm_block_shift]

theorem concatNodes_emb (L q R : List Node) (b e : Nat) (nf : Option (List Char)) (he : e ≤ q.length) :
    concatNodes (L ++ q ++ R) (L.length + b) (L.length + e) nf =
      (concatNodes q b e nf).bind fun p => .ok (L ++ p ++ R) := by
  unfold concatNodes
  by_cases hbe : b ≥ e
  · rw [if_pos (by omega), if_pos hbe]; rfl
  · rw [if_neg (by omega), if_neg hbe]
    have e1 : L.length + e - 1 = L.length + (e - 1) := by omega
    rw [e1, emb_getElem? L q R _ (by omega), emb_getElem? L q R _ (by omega), emb_block L q R b e he]
    have ht : (L ++ q ++ R).take (L.length + b) = L ++ q.take b := by
      rw [List.append_assoc, cm_take_shift, List.take_append_of_le_length (by omega)]
    have hd : (L ++ q ++ R).drop (L.length + e) = q.drop e ++ R := by
      rw [List.append_assoc, cm_drop_shift, List.drop_append_of_le_length he]
    rw [ht, hd]
    cases q[e - 1]? with
    | none => rfl
    | some l =>
      cases q[b]? with
      | none => rfl
      | some f =>
        simp only []
        by_cases h1 : l.eb < f.bb
        · rw [if_pos h1, if_pos h1]; rfl
        · rw [if_neg h1, if_neg h1]
          by_cases h2 : sumHwl (block q b e) ≥ 65536
          · rw [if_pos h2, if_pos h2]; rfl
          · rw [if_neg h2, if_neg h2]
            simp only [Outcome.bind, List.append_assoc, List.cons_append]

theorem nconcat_emb (cfg : NCfg) (P : List Char → POut) (L q R : List Node) (b e : Nat) (acc : List Char)
    (hb : b < q.length) (he : e ≤ q.length) :
    nconcat cfg P (L ++ q ++ R) (L.length + b) (L.length + e) acc =
      (nconcat cfg P q b e acc).bind fun p => .ok (L ++ p ++ R) := by
  unfold nconcat
  have e1 : L.length + e - (L.length + b) = e - b := by omega
  have hc := fun nf => concatNodes_emb L q R b e nf he
  rw [emb_getElem? L q R b hb, e1]
  simp only [hc, Nat.add_lt_add_iff_left]
  cases q[b]? with
  | none => rfl
  | some f =>
    simp only []
    repeat' (first | rfl | split)

theorem nstep_emb (v : NVariant) (cfg : NCfg) (cat : List Nat) (P : List Char → POut) (L R : List Node)
    (st : NState) (hi : -1 ≤ st.i) (hb : st.beginIdx ≤ st.i) (hg : st.i + 1 < st.path.length) :
    nstep v cfg cat P (emb L R st) = (nstep v cfg cat P st).bind fun s => .ok (emb L R s) := by
  obtain ⟨path, i, bi, comma, period, acc⟩ := st
  simp only at hi hb hg
  obtain ⟨j, rfl⟩ : ∃ j : Nat, i = (j : Int) - 1 := ⟨(i + 1).toNat, by omega⟩
  have hj : j < path.length := by omega
  have a1 : ((j : Int) - 1 + (L.length : Int) + 1) = ((L.length + j : Nat) : Int) := by omega
  have a2 : ((j : Int) - 1 + 1) = (j : Int) := by omega
  have n1 : ¬ (((L.length + j : Nat) : Int) < 0) := by omega
  have n2 : ¬ ((j : Int) < 0) := by omega
  by_cases hneg : bi < 0
  · have n3 : ¬ (bi ≥ 0) := by omega
    unfold nstep emb
    simp only [a1, a2, if_pos hneg, if_neg n1, if_neg n2, if_neg n3, Int.toNat_natCast,
      emb_getElem? L path R j hj]
    cases hn : path[j]? with
    | none => rfl
    | some node =>
      simp only []
      cases hc : catOfRange cat node.b node.e with
      | none => rfl
      | some ct =>
        simp only []
        repeat' (first | rfl | split)
        all_goals
          (simp only [Outcome.bind, Outcome.ok.injEq, NState.mk.injEq, eq_self, true_and, and_true] <;>
            repeat' (first | omega | constructor | split))
  · obtain ⟨b, rfl⟩ : ∃ b : Nat, bi = (b : Int) := ⟨bi.toNat, by omega⟩
    have hbj : b < j := by omega
    have a3 : ((b : Int) + (L.length : Int)) = ((L.length + b : Nat) : Int) := by omega
    have n4 : ¬ (((L.length + b : Nat) : Int) < 0) := by omega
    have p4 : (((L.length + b : Nat) : Int) ≥ 0) := by omega
    have p5 : ((b : Int) ≥ 0) := by omega
    have a4 : L.length + j - 1 = L.length + (j - 1) := by omega
    have n6 : ¬ (L.length + j < 1) := by omega
    have n7 : ¬ (j < 1) := by omega
    have c1 := nconcat_emb cfg P L path R b j acc (by omega) (by omega)
    have c2 := nconcat_emb cfg P L path R b (j - 1) acc (by omega) (by omega)
    have g1 := emb_getElem? L path R (j - 1) (by omega)
    unfold nstep emb
    simp only [a1, a2, if_neg hneg, a3, if_neg n1, if_neg n2, if_neg n4, if_pos p4, if_pos p5,
      if_neg n6, if_neg n7, Int.toNat_natCast, emb_getElem? L path R j hj, a4, c1, c2, g1]
    generalize nconcat cfg P path b j acc = o1
    generalize nconcat cfg P path b (j - 1) acc = o2
    cases hn : path[j]? with
    | none => rfl
    | some node =>
      simp only []
      cases hc : catOfRange cat node.b node.e with
      | none => rfl
      | some ct =>
        simp only []
        by_cases hnum : (isNumericCat ct || comma && normForm node == [','] ||
            period && normForm node == ['.']) = true
        · simp only [if_pos hnum]
          repeat' (first | rfl | split)
          all_goals
            (simp only [Outcome.bind, Outcome.ok.injEq, NState.mk.injEq, eq_self, true_and, and_true] <;>
              repeat' (first | omega | constructor | split))
        · simp only [if_neg hnum]
          by_cases hd : (P acc).done = true
          · simp only [if_pos hd]
            cases o1 with
            | ok p' =>
              simp only [Outcome.bind, Outcome.ok.injEq, NState.mk.injEq, eq_self, true_and, and_true] <;>
                repeat' (first | omega | constructor | split)
            | err => rfl
            | panic => rfl
            | fuel => rfl
          · simp only [if_neg hd]
            cases path[j - 1]? with
            | none => rfl
            | some prev =>
              simp only []
              split
              · cases o2 with
                | ok p' =>
                  simp only [Outcome.bind, Outcome.ok.injEq, NState.mk.injEq, eq_self, true_and, and_true] <;>
                    repeat' (first | omega | constructor | split)
                | err => rfl
                | panic => rfl
                | fuel => rfl
              · simp only [Outcome.bind, Outcome.ok.injEq, NState.mk.injEq, eq_self, true_and, and_true] <;>
                  repeat' (first | omega | constructor | split)

/-- loop invariant (all variants): `-1 ≤ i`, a run never starts after the index, and it starts inside
the path -/
def NInv3 (st : NState) : Prop := -1 ≤ st.i ∧ st.beginIdx ≤ st.i ∧ st.beginIdx < st.path.length

theorem nstep_inv3 {v : NVariant} {cfg : NCfg} {cat : List Nat} {P : List Char → POut} {st st' : NState}
    (h : nstep v cfg cat P st = .ok st') (hinv : NInv3 st) (hg : st.i + 1 < st.path.length) :
    NInv3 st' := by
  obtain ⟨hi, hb, hl⟩ := hinv
  unfold nstep at h
  simp only at h
  repeat (any_goals (first
    | split at h
    | (cases h; done)
    | (cases h
       simp only [NInv3]
       refine ⟨by omega, by omega, by omega⟩)))

theorem ntail_emb (cfg : NCfg) (P : List Char → POut) (L : List Node) (st : NState) (hinv : NInv3 st) :
    ntail cfg P (emb L [] st) = (ntail cfg P st).bind fun p => .ok (L ++ p ++ []) := by
  obtain ⟨path, i, bi, comma, period, acc⟩ := st
  obtain ⟨hi, hb, hl⟩ := hinv
  simp only at hi hb hl
  by_cases hneg : bi < 0
  · have n3 : ¬ (bi ≥ 0) := by omega
    unfold ntail emb
    simp only [if_pos hneg, if_neg n3]
    rfl
  · obtain ⟨b, rfl⟩ : ∃ b : Nat, bi = (b : Int) := ⟨bi.toNat, by omega⟩
    have hbl : b < path.length := by omega
    have a3 : ((b : Int) + (L.length : Int)) = ((L.length + b : Nat) : Int) := by omega
    have p4 : (((L.length + b : Nat) : Int) ≥ 0) := by omega
    have p5 : ((b : Int) ≥ 0) := by omega
    have hlen : (L ++ path ++ ([] : List Node)).length = L.length + path.length := by simp
    have a4 : L.length + path.length - 1 = L.length + (path.length - 1) := by omega
    have n6 : ¬ (L.length + path.length < 1) := by omega
    have n7 : ¬ (path.length < 1) := by omega
    have c1 := nconcat_emb cfg P L path [] b path.length acc (by omega) (by omega)
    have c2 := nconcat_emb cfg P L path [] b (path.length - 1) acc (by omega) (by omega)
    have g1 := emb_getElem? L path [] (path.length - 1) (by omega)
    unfold ntail emb
    simp only [if_neg hneg, a3, if_pos p4, if_pos p5, hlen, a4, if_neg n6, if_neg n7,
      Int.toNat_natCast, c1, c2, g1]
    repeat' (first | rfl | split)

theorem emb_guard (L : List Node) (st : NState) :
    ((emb L [] st).i < ((emb L [] st).path.length : Int) - 1) ↔ (st.i < (st.path.length : Int) - 1) := by
  simp only [emb, List.length_append, List.length_nil]
  omega

/-- SHIFT: a run over `q` embedded behind a prefix `L` is the same run -/
theorem nloop_shift (v : NVariant) (cfg : NCfg) (cat : List Nat) (P : List Char → POut) (L : List Node) :
    ∀ (fuel : Nat) (st : NState), NInv3 st →
      nloop v cfg cat P fuel (emb L [] st) = (nloop v cfg cat P fuel st).bind fun p => .ok (L ++ p) := by
  intro fuel
  induction fuel with
  | zero => intro st _; rfl
  | succ fuel ih =>
    intro st hinv
    unfold nloop
    by_cases hg : st.i < (st.path.length : Int) - 1
    · simp only [if_pos hg, if_pos ((emb_guard L st).mpr hg)]
      rw [nstep_emb v cfg cat P L [] st hinv.1 hinv.2.1 (by omega)]
      cases hs : nstep v cfg cat P st with
      | ok st' => exact ih st' (nstep_inv3 hs hinv (by omega))
      | err => rfl
      | panic => rfl
      | fuel => rfl
    · simp only [if_neg hg, if_neg (fun h => hg ((emb_guard L st).mp h))]
      rw [ntail_emb cfg P L st hinv]
      cases ntail cfg P st <;> simp [Outcome.bind]

/-! ## the accumulated characters are irrelevant while no run is open -/

def setAcc (a : List Char) (st : NState) : NState := { st with acc := a }

theorem nstep_acc (v : NVariant) (cfg : NCfg) (cat : List Nat) (P : List Char → POut) (st : NState)
    (a' : List Char) (hneg : st.beginIdx < 0) :
    nstep v cfg cat P (setAcc a' st) = nstep v cfg cat P st ∨
      ∃ s, nstep v cfg cat P st = .ok s ∧ s.beginIdx < 0 ∧
        nstep v cfg cat P (setAcc a' st) = .ok (setAcc a' s) := by
  obtain ⟨path, i, bi, comma, period, acc⟩ := st
  simp only at hneg
  have n3 : ¬ (bi ≥ 0) := by omega
  unfold nstep setAcc
  simp only [if_pos hneg, if_neg n3]
  by_cases h0 : i + 1 < 0
  · left; simp only [if_pos h0]
  · simp only [if_neg h0]
    cases path[(i + 1).toNat]? with
    | none => left; rfl
    | some node =>
      simp only []
      cases catOfRange cat node.b node.e with
      | none => left; rfl
      | some ct =>
        simp only []
        by_cases hnum : (isNumericCat ct || comma && normForm node == [','] ||
            period && normForm node == ['.']) = true
        · left; simp only [if_pos hnum]
        · right
          simp only [if_neg hnum]
          exact ⟨_, rfl, by simp, rfl⟩

theorem nloop_acc (v : NVariant) (cfg : NCfg) (cat : List Nat) (P : List Char → POut) :
    ∀ (fuel : Nat) (st : NState) (a' : List Char), st.beginIdx < 0 →
      nloop v cfg cat P fuel (setAcc a' st) = nloop v cfg cat P fuel st := by
  intro fuel
  induction fuel with
  | zero => intro st a' _; rfl
  | succ fuel ih =>
    intro st a' hneg
    unfold nloop
    have e1 : (setAcc a' st).i = st.i := rfl
    have e2 : (setAcc a' st).path = st.path := rfl
    rw [e1, e2]
    by_cases hg : st.i < (st.path.length : Int) - 1
    · simp only [if_pos hg]
      rcases nstep_acc v cfg cat P st a' hneg with h | ⟨s, hs, hsn, hs'⟩
      · rw [h]
      · rw [hs, hs']
        exact ih s a' hsn
    · simp only [if_neg hg]
      have n3 : ¬ (st.beginIdx ≥ 0) := by omega
      have n4 : ¬ ((setAcc a' st).beginIdx ≥ 0) := n3
      unfold ntail
      simp only [if_neg n3, if_neg n4]
      rfl

/-! ## the index never jumps over an unprocessed node -/

/-- a run that consists of the node at the index alone does not consist of a lone separator -/
def NI3 (st : NState) : Prop :=
  st.beginIdx ≥ 0 → st.beginIdx = st.i → ∀ prev, st.path[st.i.toNat]? = some prev →
    normForm prev ≠ [','] ∧ normForm prev ≠ ['.']

set_option linter.unusedVariables false in
theorem nstep_noskip {v : NVariant} {cfg : NCfg} {cat : List Nat} {P : List Char → POut} {st st' : NState}
    (hP : SepNotFirst P) (h : nstep v cfg cat P st = .ok st') (hinv : NInv3 st) (h3 : NI3 st)
    (hg : st.i + 1 < st.path.length) :
    NI3 st' ∧ (st.path.length : Int) - st.i - 1 ≤ (st'.path.length : Int) - st'.i := by
  obtain ⟨hi, hb, hl⟩ := hinv
  have hA : st.beginIdx ≥ 0 → ∀ prev, st.path[(st.i + 1).toNat - 1]? = some prev →
      ((P st.acc).err == E_COMMA && normForm prev == [','] ||
        (P st.acc).err == E_POINT && normForm prev == ['.']) = true → st.beginIdx + 1 ≤ st.i := by
    intro hb0 prev hp hc
    by_cases heq : st.beginIdx = st.i
    · exfalso
      have e : (st.i + 1).toNat - 1 = st.i.toNat := by omega
      rw [e] at hp
      obtain ⟨m1, m2⟩ := h3 hb0 heq prev hp
      simp [m1, m2] at hc
    · omega
  have hB : ∀ node : Node, ¬ ((P ([] ++ normForm node)).n < ([] ++ normForm node).length) →
      normForm node ≠ [','] ∧ normForm node ≠ ['.'] := by
    intro node hacc
    constructor <;> intro hs <;> rw [hs] at hacc
    · simp [hP.1] at hacc
    · simp [hP.2] at hacc
  by_cases hneg : st.beginIdx < 0
  · have n3 : ¬ (st.beginIdx ≥ 0) := by omega
    unfold nstep at h
    simp only [if_pos hneg, if_neg n3] at h
    repeat (any_goals (first
      | split at h
      | (cases h; done)
      | (cases h
         simp only [NI3]
         refine ⟨by intro h0 h1; omega, by omega⟩)))
    · cases h
      refine ⟨?_, by simp only; omega⟩
      intro h0 h1 prev hp
      rename_i node hn _ _ _ _ hacc
      simp only at hp
      rw [hn] at hp
      cases hp
      exact hB _ hacc
  · have p3 : st.beginIdx ≥ 0 := by omega
    unfold nstep at h
    simp only [if_neg hneg, if_pos p3] at h
    repeat (any_goals (first
      | split at h
      | (cases h; done)
      | (cases h
         simp only [NI3]
         refine ⟨by intro h0 h1; omega, by omega⟩)
      | (cases h
         have hc := nconcat_length (cfg := cfg) (P := P) (by assumption)
         simp only [NI3]
         refine ⟨by intro h0 h1; omega, by omega⟩)
      | (cases h
         have hc := nconcat_length (cfg := cfg) (P := P) (by assumption)
         have ha := hA p3 _ (by assumption) (by assumption)
         simp only [NI3]
         refine ⟨by intro h0 h1; omega, by omega⟩)))

/-! ## the left segment: a state over `p`, run over `p ++ R` -/

def ext (R : List Node) (st : NState) : NState := { st with path := st.path ++ R }

theorem emb_nil_left (R : List Node) (st : NState) : emb [] R st = ext R st := by
  obtain ⟨path, i, bi, comma, period, acc⟩ := st
  simp only [emb, ext, List.nil_append, List.length_nil, NState.mk.injEq, true_and, and_true]
  constructor
  · omega
  · split <;> omega

theorem nstep_ext (v : NVariant) (cfg : NCfg) (cat : List Nat) (P : List Char → POut) (R : List Node)
    (st : NState) (hi : -1 ≤ st.i) (hb : st.beginIdx ≤ st.i) (hg : st.i + 1 < st.path.length) :
    nstep v cfg cat P (ext R st) = (nstep v cfg cat P st).bind fun s => .ok (ext R s) := by
  have := nstep_emb v cfg cat P [] R st hi hb hg
  simp only [emb_nil_left] at this
  exact this

theorem nconcat_ext (cfg : NCfg) (P : List Char → POut) (q R : List Node) (b e : Nat) (acc : List Char)
    (hb : b < q.length) (he : e ≤ q.length) :
    nconcat cfg P (q ++ R) b e acc = (nconcat cfg P q b e acc).bind fun p => .ok (p ++ R) := by
  have := nconcat_emb cfg P [] q R b e acc hb he
  simp only [List.nil_append, List.length_nil, Nat.zero_add] at this
  exact this

theorem utf8Len_ge (s : List Char) : ∀ a, a + s.length ≤ s.foldl (fun a c => a + utf8Width c) a := by
  induction s with
  | nil => intro a; simp
  | cons c t ih =>
    intro a
    simp only [List.foldl_cons, List.length_cons]
    have := ih (a + utf8Width c)
    have hw : 1 ≤ utf8Width c := by
      unfold utf8Width
      repeat' split
      all_goals omega
    omega

/-- the "re-arm" character of a node whose normalised form is not the separator `ch` is not `ch` -/
theorem rearm_char (s : List Char) (ch : Char) (hs : s ≠ [ch]) :
    (if utf8Len s == 1 then s.head? else none) ≠ some ch := by
  intro h
  split at h
  · rename_i h1
    have h1' : utf8Len s = 1 := by simpa using h1
    cases s with
    | nil => cases h
    | cons c t =>
      simp only [List.head?_cons, Option.some.injEq] at h
      subst h
      have := utf8Len_ge (c :: t) 0
      unfold utf8Len at h1'
      rw [h1'] at this
      simp only [List.length_cons] at this
      have : t = [] := List.eq_nil_of_length_eq_zero (by omega)
      subst this
      exact hs rfl
  · cases h

theorem rearm_flag (f : Bool) (c : Option Char) (ch : Char) (hc : c ≠ some ch) :
    (if (!f && c != some ch) = true then true else f) = true := by
  cases f
  · simp [hc]
  · simp

/-- what the loop does when it processes a resetting node that directly follows the path of `st` -/
def xstep (cfg : NCfg) (P : List Char → POut) (st : NState) : Outcome NState :=
  if st.beginIdx ≥ 0 then
    if (P st.acc).done then
      (nconcat cfg P st.path st.beginIdx.toNat st.path.length st.acc).bind fun p' =>
        .ok { path := p', i := st.beginIdx + 1, beginIdx := -1, comma := true, period := true, acc := st.acc }
    else
      match st.path[st.path.length - 1]? with
      | none => .panic
      | some prev =>
        if ((P st.acc).err == E_COMMA && normForm prev == [',']) ||
            ((P st.acc).err == E_POINT && normForm prev == ['.']) then
          (nconcat cfg P st.path st.beginIdx.toNat (st.path.length - 1) st.acc).bind fun p' =>
            .ok { path := p', i := st.beginIdx + 2, beginIdx := -1, comma := true, period := true, acc := st.acc }
        else .ok { path := st.path, i := st.i + 1, beginIdx := -1, comma := true, period := true, acc := st.acc }
  else .ok { path := st.path, i := st.i + 1, beginIdx := -1, comma := true, period := true, acc := st.acc }

theorem xstep_flags {cfg : NCfg} {P : List Char → POut} {st s : NState} (h : xstep cfg P st = .ok s) :
    s.beginIdx = -1 ∧ s.comma = true ∧ s.period = true := by
  unfold xstep at h
  repeat (any_goals (first
    | split at h
    | (cases h; done)
    | (cases h; exact ⟨rfl, rfl, rfl⟩)
    | (cases hc : nconcat cfg P st.path st.beginIdx.toNat st.path.length st.acc <;>
        rw [hc] at h <;> cases h <;> exact ⟨rfl, rfl, rfl⟩)
    | (cases hc : nconcat cfg P st.path st.beginIdx.toNat (st.path.length - 1) st.acc <;>
        rw [hc] at h <;> cases h <;> exact ⟨rfl, rfl, rfl⟩)))

theorem xstep_spec (v : NVariant) (cfg : NCfg) (cat : List Nat) (P : List Char → POut) (y : Node)
    (T : List Node) (st : NState) (hy : Resets cat y) (hb : st.beginIdx ≤ st.i)
    (hlen : st.i + 1 = st.path.length) :
    nstep v cfg cat P (ext (y :: T) st) = (xstep cfg P st).bind fun s => .ok (ext (y :: T) s) := by
  obtain ⟨ct, hct, hnum, hs1, hs2⟩ := hy
  obtain ⟨path, i, bi, comma, period, acc⟩ := st
  simp only at hb hlen
  have ei : i + 1 = (path.length : Int) := hlen
  have n1 : ¬ ((path.length : Int) < 0) := by omega
  have g0 : (path ++ y :: T)[path.length]? = some y := by
    rw [List.getElem?_append_right (Nat.le_refl _)]
    simp
  have b1 : (normForm y == [',']) = false := by simpa using hs1
  have b2 : (normForm y == ['.']) = false := by simpa using hs2
  have r1 := rearm_flag comma _ ',' (rearm_char (normForm y) ',' hs1)
  have r2 := rearm_flag period _ '.' (rearm_char (normForm y) '.' hs2)
  have hcond : ¬ ((isNumericCat ct || comma && normForm y == [','] || period && normForm y == ['.']) = true) := by
    simp [hnum, b1, b2]
  unfold nstep xstep ext
  simp only [ei, if_neg n1, Int.toNat_natCast, g0, hct, if_neg hcond, r1, r2]
  by_cases hneg : bi < 0
  · have n3 : ¬ (bi ≥ 0) := by omega
    simp only [if_neg n3]
    rfl
  · obtain ⟨b, rfl⟩ : ∃ b : Nat, bi = (b : Int) := ⟨bi.toNat, by omega⟩
    have p5 : ((b : Int) ≥ 0) := by omega
    have hbl : b < path.length := by omega
    have n7 : ¬ (path.length < 1) := by omega
    have c1 := nconcat_ext cfg P path (y :: T) b path.length acc hbl (by omega)
    have c2 := nconcat_ext cfg P path (y :: T) b (path.length - 1) acc hbl (by omega)
    have g1 : (path ++ y :: T)[path.length - 1]? = path[path.length - 1]? :=
      List.getElem?_append_left (by omega)
    simp only [if_pos p5, Int.toNat_natCast, if_neg n7, c1, c2, g1]
    by_cases hd : (P acc).done = true
    · simp only [if_pos hd]
      cases nconcat cfg P path b path.length acc <;> rfl
    · simp only [if_neg hd]
      cases path[path.length - 1]? with
      | none => rfl
      | some prev =>
        simp only []
        split
        · cases nconcat cfg P path b (path.length - 1) acc <;> rfl
        · rfl

/-- invariant of the run over the left segment (`st` is the state without the resetting node) -/
def LInv (st : NState) : Prop :=
  -1 ≤ st.i ∧ st.beginIdx ≤ st.i ∧ st.i ≤ st.path.length ∧
    (st.i = st.path.length → st.beginIdx = -1 ∧ st.comma = true ∧ st.period = true) ∧ NI3 st

theorem NI3_ext (R : List Node) (st : NState) (h3 : NI3 st) (hi : st.i < st.path.length) :
    NI3 (ext R st) := by
  intro h0 h1 prev hp
  have h0' : st.beginIdx ≥ 0 := h0
  have h1' : st.beginIdx = st.i := h1
  have hp' : (st.path ++ R)[st.i.toNat]? = some prev := hp
  rw [List.getElem?_append_left (by omega)] at hp'
  exact h3 h0' h1' prev hp'

theorem ext_guard (y : Node) (T : List Node) (st : NState) (h : st.i < st.path.length) :
    (ext (y :: T) st).i < ((ext (y :: T) st).path.length : Int) - 1 := by
  simp only [ext, List.length_append, List.length_cons]
  omega

theorem handoff_eq (path : List Node) (acc : List Char) (x' : Node) (B' : List Node) :
    ext (x' :: B') { path := path, i := path.length, beginIdx := -1, comma := true, period := true, acc := acc } =
      setAcc acc (emb (path ++ [x']) [] (nInit B')) := by
  simp only [ext, setAcc, emb, nInit, NState.mk.injEq, List.length_append, List.length_singleton,
    List.append_nil, List.append_assoc, List.singleton_append, true_and, and_true]
  constructor
  · omega
  · simp

/-- LEFT: the run over `p ++ [x]` and the run over `p ++ x' :: B'` do the same up to the resetting node;
after it the second one is the run over `B'`, shifted -/
theorem nloop_left (v : NVariant) (cfg : NCfg) (cat : List Nat) (P : List Char → POut)
    (hP : SepNotFirst P) (x : Node) (hx : Resets cat x) :
    ∀ (fuel : Nat) (st : NState) (a : List Node), LInv st →
      nloop v cfg cat P fuel (ext [x] st) = .ok a →
      ∃ a0, a = a0 ++ [x] ∧ ∀ (x' : Node) (B' : List Node) (K : Nat) (b : List Node), Resets cat x' →
        nloop v cfg cat P K (nInit B') = .ok b →
        nloop v cfg cat P (fuel + K) (ext (x' :: B') st) = .ok (a0 ++ x' :: b) := by
  intro fuel
  induction fuel with
  | zero => intro st a _ h; simp [nloop] at h
  | succ fuel ih =>
    intro st a hinv h
    obtain ⟨hi, hb, hle, hfl, h3⟩ := hinv
    by_cases hend : st.i = st.path.length
    · -- the resetting node has been processed: hand over
      obtain ⟨hbi, hcm, hpd⟩ := hfl hend
      have ng : ¬ ((ext [x] st).i < ((ext [x] st).path.length : Int) - 1) := by
        simp only [ext, List.length_append, List.length_singleton]; omega
      have hnb : ¬ ((ext [x] st).beginIdx ≥ 0) := by
        show ¬ (st.beginIdx ≥ 0)
        omega
      unfold nloop at h
      rw [if_neg ng] at h
      unfold ntail at h
      rw [if_neg hnb] at h
      cases h
      obtain ⟨path, i, bi, comma, period, acc⟩ := st
      simp only at hend hbi hcm hpd
      subst hend hbi hcm hpd
      refine ⟨path, rfl, ?_⟩
      intro x' B' K b _ hb'
      rw [handoff_eq]
      have hval : nloop v cfg cat P K (setAcc acc (emb (path ++ [x']) [] (nInit B'))) =
          .ok (path ++ x' :: b) := by
        rw [nloop_acc v cfg cat P K _ acc (by simp [emb, nInit]),
          nloop_shift v cfg cat P (path ++ [x']) K (nInit B') (by simp only [NInv3, nInit]; omega), hb']
        simp [Outcome.bind]
      rw [Nat.add_comm (fuel + 1) K,
        nloop_fuel_mono v cfg cat P K _ (by rw [hval]; intro hh; cases hh) (fuel + 1), hval]
    · have hlt : st.i < st.path.length := by omega
      unfold nloop at h
      simp only [if_pos (ext_guard x [] st hlt)] at h
      by_cases hin : st.i + 1 < st.path.length
      · -- a node strictly left of the resetting node
        rw [nstep_ext v cfg cat P [x] st hi hb hin] at h
        cases hs : nstep v cfg cat P st with
        | ok st' =>
          rw [hs] at h
          simp only [Outcome.bind] at h
          have i3 := nstep_inv3 hs ⟨hi, hb, by omega⟩ hin
          obtain ⟨k3, kk⟩ := nstep_noskip hP hs ⟨hi, hb, by omega⟩ h3 hin
          obtain ⟨a0, ha, hrest⟩ := ih st' a
            ⟨i3.1, i3.2.1, by omega, by intro hh; omega, k3⟩ h
          refine ⟨a0, ha, ?_⟩
          intro x' B' K b hx' hb'
          have e1 : fuel + 1 + K = (fuel + K) + 1 := by omega
          rw [e1]
          unfold nloop
          simp only [if_pos (ext_guard x' B' st hlt)]
          rw [nstep_ext v cfg cat P (x' :: B') st hi hb hin, hs]
          exact hrest x' B' K b hx' hb'
        | err => rw [hs] at h; cases h
        | panic => rw [hs] at h; cases h
        | fuel => rw [hs] at h; cases h
      · -- the resetting node itself
        have hlen : st.i + 1 = st.path.length := by omega
        have e := xstep_spec v cfg cat P x [] st hx hb hlen
        rw [e] at h
        cases hs : xstep cfg P st with
        | ok s =>
          rw [hs] at h
          simp only [Outcome.bind] at h
          have flags := xstep_flags hs
          have hstep : nstep v cfg cat P (ext [x] st) = .ok (ext [x] s) := by rw [e, hs]; rfl
          have hpl : ((ext [x] st).path.length : Int) = st.path.length + 1 := by
            simp only [ext, List.length_append, List.length_singleton]; omega
          have hpl' : ((ext [x] s).path.length : Int) = s.path.length + 1 := by
            simp only [ext, List.length_append, List.length_singleton]; omega
          have hei : (ext [x] st).i = st.i := rfl
          have hei' : (ext [x] s).i = s.i := rfl
          have heb : (ext [x] st).beginIdx = st.beginIdx := rfl
          have inv3 : NInv3 (ext [x] st) := ⟨hi, hb, by rw [heb, hpl]; omega⟩
          have i3 := nstep_inv3 hstep inv3 (by rw [hei, hpl]; omega)
          obtain ⟨_, kk⟩ := nstep_noskip hP hstep inv3 (NI3_ext [x] st h3 hlt) (by rw [hei, hpl]; omega)
          rw [hpl, hpl', hei, hei'] at kk
          have hsi : -1 ≤ s.i := i3.1
          obtain ⟨a0, ha, hrest⟩ := ih s a
            ⟨hsi, by have := flags.1; omega, by omega, fun _ => flags,
              by intro h0; have := flags.1; omega⟩ h
          refine ⟨a0, ha, ?_⟩
          intro x' B' K b hx' hb'
          have e1 : fuel + 1 + K = (fuel + K) + 1 := by omega
          rw [e1]
          unfold nloop
          simp only [if_pos (ext_guard x' B' st hlt)]
          rw [xstep_spec v cfg cat P x' B' st hx' hb hlen, hs]
          exact hrest x' B' K b hx' hb'
        | err => rw [hs] at h; cases h
        | panic => rw [hs] at h; cases h
        | fuel => rw [hs] at h; cases h

theorem LInv_init (A : List Node) : LInv (nInit A) := by
  refine ⟨by simp [nInit], by simp [nInit], by simp only [nInit]; omega, ?_, ?_⟩
  · intro h; simp only [nInit] at h; omega
  · intro h0; simp only [nInit] at h0; omega

theorem ext_init (A R : List Node) : ext R (nInit A) = nInit (A ++ R) := rfl

/-- **L2, every code variant, explicit fuel**: the numeral loop can be cut at a resetting node -/
theorem nloop_split (v : NVariant) (cfg : NCfg) (cat : List Nat) (P : List Char → POut)
    (hP : SepNotFirst P) (A B : List Node) (x : Node) (hx : Resets cat x) (a b : List Node)
    (F1 F2 : Nat) (ha : nloop v cfg cat P F1 (nInit (A ++ [x])) = .ok a)
    (hb : nloop v cfg cat P F2 (nInit B) = .ok b) :
    nloop v cfg cat P (F1 + F2) (nInit (A ++ x :: B)) = .ok (a ++ b) := by
  rw [← ext_init] at ha
  obtain ⟨a0, rfl, hrest⟩ := nloop_left v cfg cat P hP x hx F1 (nInit A) a (LInv_init A) ha
  have := hrest x B F2 b hx hb
  rw [ext_init] at this
  rw [this]
  simp

/-- **L2 companion, every code variant, explicit fuel** -/
theorem nloop_reset_last (v : NVariant) (cfg : NCfg) (cat : List Nat) (P : List Char → POut)
    (hP : SepNotFirst P) (A : List Node) (x : Node) (hx : Resets cat x) (a : List Node) (F : Nat)
    (ha : nloop v cfg cat P F (nInit (A ++ [x])) = .ok a) :
    ∃ a0, a = a0 ++ [x] ∧ ∀ x', Resets cat x' →
      nloop v cfg cat P (F + 1) (nInit (A ++ [x'])) = .ok (a0 ++ [x']) := by
  rw [← ext_init] at ha
  obtain ⟨a0, rfl, hrest⟩ := nloop_left v cfg cat P hP x hx F (nInit A) a (LInv_init A) ha
  refine ⟨a0, rfl, ?_⟩
  intro x' hx'
  have h1 : nloop v cfg cat P 1 (nInit []) = .ok [] := by
    simp [nloop, nInit, ntail]
  have := hrest x' [] 1 [] hx' h1
  rw [ext_init] at this
  exact this

/-- **L2** (`joinNumeric_split`), repaired loop: the numeral joiner can be cut at a node that resets it.
Extra hypothesis `SepNotFirst P` (the parser rejects a separator as first character): without it
the statement is false, see `joinNumeric_split_counterexample`. -/
theorem joinNumeric_split (cfg : NCfg) (cat : List Nat) (P : List Char → POut) (hP : SepNotFirst P)
    (A B : List Node) (x : Node) (hx : Resets cat x) (a b : List Node)
    (ha : joinNumeric .fix cfg cat P (A ++ [x]) = .ok a) (hb : joinNumeric .fix cfg cat P B = .ok b) :
    joinNumeric .fix cfg cat P (A ++ x :: B) = .ok (a ++ b) := by
  have h := nloop_split .fix cfg cat P hP A B x hx a b _ _ ha hb
  unfold joinNumeric
  rw [← h]
  exact nloop_fuel_indep .fix cfg cat P _ _ _ (joinNumeric_fix_ne_fuel cfg cat P _)
    (by rw [h]; intro hh; cases hh)

/-- **L2 companion** (`joinNumeric_reset_last`), repaired loop: the left part does not depend on which
resetting node follows -/
theorem joinNumeric_reset_last (cfg : NCfg) (cat : List Nat) (P : List Char → POut) (hP : SepNotFirst P)
    (A : List Node) (x : Node) (hx : Resets cat x) (a : List Node)
    (ha : joinNumeric .fix cfg cat P (A ++ [x]) = .ok a) :
    ∃ a0, a = a0 ++ [x] ∧ ∀ x', Resets cat x' →
      joinNumeric .fix cfg cat P (A ++ [x']) = .ok (a0 ++ [x']) := by
  obtain ⟨a0, ha0, hrest⟩ := nloop_reset_last .fix cfg cat P hP A x hx a _ ha
  refine ⟨a0, ha0, ?_⟩
  intro x' hx'
  have h := hrest x' hx'
  unfold joinNumeric
  rw [← h]
  exact nloop_fuel_indep .fix cfg cat P _ _ _ (joinNumeric_fix_ne_fuel cfg cat P _)
    (by rw [h]; intro hh; cases hh)

/-! ## why `SepNotFirst` is needed: a parser that accepts a lone `,` makes the loop jump over a node -/

def cxNode (b : Nat) (s : List Char) : Node :=
  { b := b, e := b + 1, bb := b, eb := b + 1, wid := 0, tc := 0, left := 0, right := 0, cost := 0, pos := 0, hwl := 0, dfw := -1, aSplit := [], bSplit := [], wStruct := [], syn := [], surface := s, norm := [], reading := [], dform := [] }

def cxP (s : List Char) : POut :=
  if s == [','] then { n := 1, err := E_COMMA, done := false, norm := [] }
  else { n := s.length, err := 0, done := true, norm := s }

def cxCfg : NCfg := { numPos := 0, enableNormalize := false }
def cxCat : List Nat := [0, 0, 16, 16]
def cxLen (o : Outcome (List Node)) : Option Nat :=
  match o with
  | .ok p => some p.length
  | _ => none

/-- COUNTEREXAMPLE to `joinNumeric_split` without `SepNotFirst`: `A = [","]`, `x` resets, `B = ["1", "2"]`;
the run on `A ++ [x]` keeps 2 nodes, the run on `B` joins to 1 node, but the run on `A ++ x :: B` keeps all
4 nodes (after `x` the index is `begin_idx + 2`, one past `x`, so `"1"` is never examined) -/
theorem joinNumeric_split_counterexample :
    Resets cxCat (cxNode 1 ['x']) ∧
    cxLen (joinNumeric .fix cxCfg cxCat cxP ([cxNode 0 [',']] ++ [cxNode 1 ['x']])) = some 2 ∧
    cxLen (joinNumeric .fix cxCfg cxCat cxP [cxNode 2 ['1'], cxNode 3 ['2']]) = some 1 ∧
    cxLen (joinNumeric .fix cxCfg cxCat cxP
      ([cxNode 0 [',']] ++ cxNode 1 ['x'] :: [cxNode 2 ['1'], cxNode 3 ['2']])) = some 4 := by
  refine ⟨⟨0, by decide, by decide, by decide, by decide⟩, by decide, by decide, by decide⟩

end Rewrite
