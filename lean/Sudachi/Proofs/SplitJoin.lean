import Sudachi.Proofs.Split
/-!
# Joined nodes (`concat_nodes`, `concat_oov_nodes`) — helper lemmas for C09

The path-rewrite plugins replace a run of nodes by ONE new node.  What the splitter sees of it is in
`Split.joinNodes`: the range of the run, a synthetic word id, the summed key length and NO split units.
-/
namespace Split

/-- the accumulator loop of `head_word_length` returns the sum (when it does not overflow) -/
theorem sumHwl_eq : ∀ (ps : List Node) (acc h : Nat), sumHwl ps acc = .ok h →
    h = acc + (ps.map (·.info.hwl)).sum ∧ h < 65536 ∨ (ps = [] ∧ h = acc)
  | [], acc, h, hh => by
    simp only [sumHwl, Outcome.ok.injEq] at hh
    exact Or.inr ⟨rfl, hh.symm⟩
  | n :: rest, acc, h, hh => by
    simp only [sumHwl] at hh
    split at hh
    · cases hh
    · rename_i hlt
      rcases sumHwl_eq rest _ h hh with ⟨h1, h2⟩ | ⟨h1, h2⟩
      · left; refine ⟨?_, h2⟩; simp only [List.map_cons, List.sum_cons]; omega
      · left; subst h1; subst h2; simp only [List.map_cons, List.map_nil, List.sum_cons, List.sum_nil]
        exact ⟨by omega, by omega⟩

/-- shape of a successful `concat_nodes` / `concat_oov_nodes` -/
theorem joinNodes_ok (k : JoinKind) (parts : List Node) (j : Node) (h : joinNodes k parts = .ok j) :
    ∃ first rest last hw, parts = first :: rest ∧ parts.getLast? = some last ∧ sumHwl parts 0 = .ok hw ∧
      j = ⟨asU16 first.cb, asU16 last.ce, first.bb, last.be, joinWid k parts, ⟨hw, [], []⟩⟩ := by
  cases parts with
  | nil => simp [joinNodes] at h
  | cons first rest =>
    cases hl : (first :: rest).getLast? with
    | none => simp [joinNodes, hl] at h
    | some last =>
      cases hs : sumHwl (first :: rest) 0 with
      | ok hw =>
        simp only [joinNodes, hl, hs, Outcome.ok.injEq] at h
        exact ⟨first, rest, last, hw, rfl, rfl, rfl, h.symm⟩
      | err e => simp [joinNodes, hl, hs] at h
      | panic w => simp [joinNodes, hl, hs] at h

/-- the end of a linked chain is the end of its last node -/
theorem Linked_last : ∀ (l : List Node) (c b c' b' : Nat) (last : Node),
    Linked l c b c' b' → l.getLast? = some last → last.ce = c' ∧ last.be = b'
  | [], _, _, _, _, _, _, hl => by simp at hl
  | [n], c, b, c', b', last, h, hl => by
    simp only [List.getLast?_singleton, Option.some.injEq] at hl
    subst hl
    obtain ⟨_, _, h3⟩ := h
    exact h3
  | n :: n2 :: r, c, b, c', b', last, h, hl => by
    obtain ⟨_, _, h3⟩ := h
    have : (n2 :: r).getLast? = some last := by
      simpa [List.getLast?_cons_cons] using hl
    exact Linked_last (n2 :: r) _ _ _ _ last h3 this

/-- `dicOf` / `wordOf` of a re-based id -/
theorem wordOf_mkId_mask (d : Nat) : wordOf (mkId d WORD_MASK) = WORD_MASK := by
  simp only [wordOf, mkId, DIC_SHIFT, WORD_MASK]
  omega

end Split
