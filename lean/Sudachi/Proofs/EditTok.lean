import Sudachi.Proofs.Total
import Sudachi.Proofs.Partition
import Sudachi.Proofs.EditAccess
/-!
# `Total.mapM`: every element of the source has its image in the result (used by `C08.tokenizer_morpheme_codepoints`)
-/
namespace Total
open Oov (Outcome)

theorem mapM_mem_fwd {α β : Type} (f : α → Outcome β) : ∀ (as : List α) (bs : List β), mapM f as = .ok bs →
    ∀ a ∈ as, ∃ b ∈ bs, f a = .ok b
  | [], _, _, a, ha => by cases ha
  | a0 :: as, bs, h, a, ha => by
    unfold mapM at h
    cases h1 : f a0 with
    | err k => rw [h1] at h; cases h
    | panic w => rw [h1] at h; cases h
    | ok b1 =>
      rw [h1] at h; simp only [] at h
      cases h2 : mapM f as with
      | err k => rw [h2] at h; cases h
      | panic w => rw [h2] at h; cases h
      | ok bs1 =>
        rw [h2] at h; simp only [] at h
        cases h
        rcases List.mem_cons.mp ha with rfl | ha
        · exact ⟨b1, by simp, h1⟩
        · obtain ⟨b, hb, hf⟩ := mapM_mem_fwd f as bs1 h2 a ha
          exact ⟨b, by simp [hb], hf⟩

end Total

namespace Partition
open EditM Total Oov

/-- from the conclusion of `C01.tokens_partition_original` (the accessor values of all morphemes partition the original and
count code points) to the per-morpheme statement of C08: code-point slice = byte slice = surface -/
theorem codepoints_of_partition (orig : List Nat) (r : Result)
    (hpart : (textOf r.tables = [] ∧ r.morphs = []) ∨
      (textOf r.tables ≠ [] ∧ r.morphs ≠ [] ∧ ∃ acs, accessAll orig r = .ok acs ∧
        IsPartition orig (acs.map (fun a => (a.b, a.e))) ∧
        ∀ a ∈ acs, a.sb = a.b ∧ a.se = a.e ∧ a.bc = nchars (orig.take a.b) ∧ a.ec = nchars (orig.take a.e))) :
    ∀ m ∈ r.morphs, ∃ a, access orig r.tables m = .ok a ∧
      a.b ≤ a.e ∧ a.e ≤ orig.length ∧ BoOf orig a.b ∧ BoOf orig a.e ∧
      a.bc = nchars (orig.take a.b) ∧ a.ec = nchars (orig.take a.e) ∧
      (c2b orig)[a.bc]? = some a.b ∧ (c2b orig)[a.ec]? = some a.e ∧
      a.ec - a.bc = nchars (slice orig a.b a.e) ∧
      a.sb = a.b ∧ a.se = a.e := by
  intro m hm
  rcases hpart with ⟨_, hnil⟩ | ⟨_, _, acs, h1, hp, h3⟩
  · rw [hnil] at hm; cases hm
  · obtain ⟨a, ha, hacc⟩ := Total.mapM_mem_fwd (access orig r.tables) r.morphs acs h1 m hm
    obtain ⟨e1, e2, e3, e4⟩ := h3 a ha
    have hmem : (a.b, a.e) ∈ acs.map (fun a => (a.b, a.e)) := List.mem_map.mpr ⟨a, ha, rfl⟩
    have hfw : a.b ≤ a.e := hp.fwd _ hmem
    obtain ⟨hb1, hb2⟩ := hp.bnd _ hmem
    have hle : a.e ≤ orig.length := by rcases hb2 with h' | ⟨h', _⟩ <;> simp only [] at h' <;> omega
    refine ⟨a, hacc, hfw, hle, hb1, hb2, e3, e4, ?_, ?_, ?_, e1, e2⟩
    · rw [e3]; exact c2b_nchars_take orig a.b hb1
    · rw [e4]; exact c2b_nchars_take orig a.e hb2
    · rw [e3, e4]; exact (nchars_slice orig hfw).symm

end Partition

