import Sudachi.Proofs.TotalCompose
/-!
# The "succeeds" clause of C03: within the cost bound `connect_eos` finds a path

* `connGo_conn`/`connectNode_conn`: over a row whose entries are all real costs within `±B` (`RowConn`, no sentinel) and
  non-empty, `connect_node` returns a real cost within `±(B + 32768 + D)` — strictly below `i32::MAX`, so it cannot be
  mistaken for "not connected" (the D7b coincidence is excluded by the bound);
* `ConnRows`: `RowsInv` strengthened by connectedness — every stored total lies within `± 65536·e`;
* `Chain`: every candidate begins at 0 or where an earlier candidate ends — the order `Oov.buildFrom` produces
  (`buildLattice_chain`: the `reachable` test of the position loop);
* `buildAll_conn`: inserting a chained candidate list keeps `ConnRows` and makes the row of every candidate's end non-empty;
* `lattice_connects`: `build_lattice = ok` ⇒ all inserts succeed and `connect_eos` returns a cost (no `EosBosDisconnect`);
* `tokenize_err_tooLong`: the only error `tokenize` can then report is input-too-long.
-/
namespace Total
open Oov (Outcome)

/-! ## `connect_node` over connected rows -/

/-- every entry of the row is a real cost within `±B` (none is the "not connected" sentinel) -/
def RowConn (B : Int) (row : List Entry) : Prop := ∀ x ∈ row, -B ≤ x.total ∧ x.total ≤ B

theorem connGo_conn (conn : Nat → Nat → Int) (hconn : I16Conn conn) (n : Vit.Node) (B D : Int)
    (hc : -D ≤ n.c ∧ n.c ≤ D) (hB : B + 32768 + D ≤ 2147483646) :
    ∀ (row : List Entry) (i : Nat) (st : Int × Nat × Nat), RowConn B row →
      (st.1 = I32_MAX ∨ (-(B + 32768 + D) ≤ st.1 ∧ st.1 ≤ B + 32768 + D)) →
      ∃ st', connGo addI32 I32_MAX conn n row i st = some st' ∧
        (st'.1 = I32_MAX ∨ (-(B + 32768 + D) ≤ st'.1 ∧ st'.1 ≤ B + 32768 + D)) ∧
        ((row ≠ [] ∨ st.1 ≠ I32_MAX) → (-(B + 32768 + D) ≤ st'.1 ∧ st'.1 ≤ B + 32768 + D)) := by
  intro row
  induction row with
  | nil =>
    intro i st _ hst
    refine ⟨st, rfl, hst, ?_⟩
    intro h
    rcases h with h | h
    · exact absurd rfl h
    · exact hst.resolve_left h
  | cons l rest ih =>
    intro i st hrow hst
    have hrest : RowConn B rest := fun x hx => hrow x (List.mem_cons_of_mem _ hx)
    have hl := hrow l (List.mem_cons_self ..)
    have hm : ¬ l.total = I32_MAX := by rw [i32max_eq]; omega
    have hcc := hconn l.node.r n.l
    unfold connGo
    rw [if_neg hm]
    rw [addI32_some _ _ (by omega) (by omega)]
    simp only []
    rw [addI32_some _ _ (by omega) (by omega)]
    simp only []
    split
    · obtain ⟨st', h1, h2, h3⟩ := ih (i + 1) (l.total + conn l.node.r n.l + n.c, asU16 n.b, asU32 i) hrest
        (Or.inr ⟨by simp only []; omega, by simp only []; omega⟩)
      refine ⟨st', h1, h2, fun _ => h3 (Or.inr ?_)⟩
      simp only []; rw [i32max_eq]; omega
    · rename_i hlt
      obtain ⟨st', h1, h2, h3⟩ := ih (i + 1) st hrest hst
      refine ⟨st', h1, h2, fun _ => h3 (Or.inr ?_)⟩
      rw [i32max_eq]; omega

theorem connectNode_conn (conn : Nat → Nat → Int) (hconn : I16Conn conn) (n : Vit.Node) (B D : Int)
    (hc : -D ≤ n.c ∧ n.c ≤ D) (hB : B + 32768 + D ≤ 2147483646) (row : List Entry) (hrow : RowConn B row)
    (hne : row ≠ []) :
    ∃ r, connectNode addI32 I32_MAX conn row n = some r ∧ -(B + 32768 + D) ≤ r.1 ∧ r.1 ≤ B + 32768 + D := by
  obtain ⟨st', h1, _, h3⟩ := connGo_conn conn hconn n B D hc hB row 0 (I32_MAX, 65535, idxNone) hrow (Or.inl rfl)
  exact ⟨st', h1, h3 (Or.inl hne)⟩

/-! ## connected lattices -/

/-- `RowsInv` strengthened by connectedness: every stored total is a real cost within `± 65536 · (end position)` -/
def ConnRows (len : Nat) (rows : Rows) : Prop :=
  rows.size = len + 1 ∧
  ∀ (e : Nat) (row : List Entry), rows[e]? = some row → RowConn ((e : Int) * 65536) row

/-- some candidate (or BOS) ends at `p` -/
def NE (rows : Rows) (p : Nat) : Prop := ∃ row, rows[p]? = some row ∧ row ≠ []

theorem reset_conn (len : Nat) : ConnRows len (reset len) ∧ NE (reset len) 0 := by
  refine ⟨⟨by simp [reset], ?_⟩, ?_⟩
  · intro e row h
    unfold reset at h
    rw [Array.getElem?_setIfInBounds] at h
    split at h
    · rename_i h0
      subst h0
      split at h
      · cases h
        intro x hx
        simp only [List.mem_singleton] at hx
        subst hx
        simp [bosEntry]
      · cases h
    · rw [Array.getElem?_replicate] at h
      split at h
      · cases h; intro x hx; cases hx
      · cases h
  · refine ⟨[bosEntry], ?_, by simp⟩
    unfold reset
    rw [Array.getElem?_setIfInBounds]
    simp

theorem insert_conn (conn : Nat → Nat → Int) (hconn : I16Conn conn) (len : Nat) (hlen : len ≤ 32767)
    (rows : Rows) (hinv : ConnRows len rows) (n : Vit.Node) (hn : NodeOk len n) (hne : NE rows n.b) :
    ∃ rows' ent, insert addI32 I32_MAX conn rows n = .ok (rows', ent) ∧ ConnRows len rows' ∧ NE rows' n.e ∧
      ∀ p, NE rows p → NE rows' p := by
  obtain ⟨hsize, hb⟩ := hinv
  obtain ⟨h1, h2, h3, h4⟩ := hn
  have hbs : n.b < rows.size := by omega
  have hes : n.e < rows.size := by omega
  obtain ⟨row0, hr0, hne0⟩ := hne
  rw [Array.getElem?_eq_getElem hbs] at hr0
  cases hr0
  unfold insert
  rw [Array.getElem?_eq_getElem hbs]
  simp only []
  have hrow := hb n.b rows[n.b] (Array.getElem?_eq_getElem hbs)
  obtain ⟨r, hr, hrb⟩ := connectNode_conn conn hconn n ((n.b : Int) * 65536) 32768 ⟨by omega, by omega⟩
    (by omega) rows[n.b] hrow hne0
  obtain ⟨c, pe, pi⟩ := r
  rw [hr]
  simp only []
  rw [Array.getElem?_eq_getElem hes]
  simp only []
  have hget : (rows.setIfInBounds n.e (rows[n.e] ++ [⟨n, c, pe, pi⟩]))[n.e]? = some (rows[n.e] ++ [⟨n, c, pe, pi⟩]) := by
    rw [Array.getElem?_setIfInBounds, if_pos rfl, if_pos hes]
  refine ⟨_, _, rfl, ⟨?_, ?_⟩, ⟨_, hget, by simp⟩, ?_⟩
  · rw [Array.size_setIfInBounds]; exact hsize
  · intro e row h
    rw [Array.getElem?_setIfInBounds] at h
    by_cases he : n.e = e
    · subst he
      rw [if_pos rfl, if_pos hes] at h
      cases h
      intro x hx
      rw [List.mem_append] at hx
      rcases hx with hx | hx
      · exact hb n.e rows[n.e] (Array.getElem?_eq_getElem hes) x hx
      · simp only [List.mem_singleton] at hx
        subst hx
        simp only []
        simp only [] at hrb
        constructor <;> omega
    · rw [if_neg he] at h
      exact hb e row h
  · intro p hp
    by_cases he : n.e = p
    · subst he; exact ⟨_, hget, by simp⟩
    · obtain ⟨row, hr', hne'⟩ := hp
      refine ⟨row, ?_, hne'⟩
      rw [Array.getElem?_setIfInBounds, if_neg he]
      exact hr'

/-- every candidate begins at a position in `seen` or where an earlier candidate of the list ends -/
def Chain : List Nat → List (Nat × Nat) → Prop
  | _, [] => True
  | seen, x :: xs => x.1 ∈ seen ∧ Chain (x.2 :: seen) xs

theorem chain_of_mem : ∀ (b : List (Nat × Nat)) (s : List Nat), (∀ x ∈ b, x.1 ∈ s) → Chain s b
  | [], _, _ => trivial
  | x :: xs, s, h =>
    ⟨h x List.mem_cons_self, chain_of_mem xs (x.2 :: s) (fun y hy => List.mem_cons_of_mem _ (h y (List.mem_cons_of_mem _ hy)))⟩

theorem chain_append_of : ∀ (a b : List (Nat × Nat)) (s : List Nat), Chain s a →
    (∀ x ∈ b, x.1 ∈ s ∨ ∃ y ∈ a, y.2 = x.1) → Chain s (a ++ b)
  | [], b, s, _, h => by
    refine chain_of_mem b s (fun x hx => ?_)
    rcases h x hx with h | ⟨y, hy, _⟩
    · exact h
    · cases hy
  | y :: a, b, s, hc, h => by
    refine ⟨hc.1, chain_append_of a b (y.2 :: s) hc.2 ?_⟩
    intro x hx
    rcases h x hx with h | ⟨y', hy', he⟩
    · exact Or.inl (List.mem_cons_of_mem _ h)
    · rcases List.mem_cons.mp hy' with rfl | hy'
      · left; rw [← he]; exact List.mem_cons_self
      · exact Or.inr ⟨y', hy', he⟩

theorem buildAll_conn (conn : Nat → Nat → Int) (hconn : I16Conn conn) (len : Nat) (hlen : len ≤ 32767) :
    ∀ (nodes : List Vit.Node) (rows : Rows) (acc : List Entry) (seen : List Nat), ConnRows len rows →
      (∀ p ∈ seen, NE rows p) → (∀ n ∈ nodes, NodeOk len n) → Chain seen (nodes.map (fun n => (n.b, n.e))) →
      ∃ rows' ents, buildAll addI32 I32_MAX conn nodes rows acc = .ok (rows', ents) ∧ ConnRows len rows' ∧
        (∀ p, NE rows p → NE rows' p) ∧ ∀ n ∈ nodes, NE rows' n.e := by
  intro nodes
  induction nodes with
  | nil => intro rows acc seen hinv _ _ _; exact ⟨rows, acc.reverse, rfl, hinv, fun p h => h, fun n hn => by cases hn⟩
  | cons n ns ih =>
    intro rows acc seen hinv hseen hns hch
    simp only [List.map_cons, Chain] at hch
    obtain ⟨hb, hch⟩ := hch
    obtain ⟨rows1, ent, h1, h2, h3, h4⟩ :=
      insert_conn conn hconn len hlen rows hinv n (hns n (List.mem_cons_self ..)) (hseen n.b hb)
    obtain ⟨rows', ents, g1, g2, g3, g4⟩ := ih rows1 (ent :: acc) (n.e :: seen) h2
      (fun p hp => by
        rcases List.mem_cons.mp hp with rfl | hp
        · exact h3
        · exact h4 p (hseen p hp))
      (fun m hm => hns m (List.mem_cons_of_mem _ hm)) hch
    unfold buildAll
    rw [h1]
    refine ⟨rows', ents, g1, g2, fun p hp => g3 p (h4 p hp), ?_⟩
    intro m hm
    rcases List.mem_cons.mp hm with rfl | hm
    · exact g3 _ h3
    · exact g4 m hm

theorem connectEos_conn (conn : Nat → Nat → Int) (hconn : I16Conn conn) (len : Nat) (hlen : len ≤ 32767)
    (rows : Rows) (hinv : ConnRows len rows) (hne : NE rows len) :
    ∃ r, connectEos addI32 I32_MAX conn rows len = .ok r := by
  obtain ⟨hsize, hb⟩ := hinv
  have hid : asU16 len = len := asU16_id len (by omega)
  have hls : len < rows.size := by omega
  obtain ⟨row0, hr0, hne0⟩ := hne
  rw [Array.getElem?_eq_getElem hls] at hr0
  cases hr0
  unfold connectEos eosNode
  simp only [hid]
  rw [Array.getElem?_eq_getElem hls]
  simp only []
  have hrow := hb len rows[len] (Array.getElem?_eq_getElem hls)
  obtain ⟨r, hr, hr1, hr2⟩ := connectNode_conn conn hconn ⟨len, len, 0, 0, 0⟩ ((len : Int) * 65536) 0
    ⟨by simp, by simp⟩ (by omega) rows[len] hrow hne0
  obtain ⟨c, pe, pi⟩ := r
  rw [hr]
  simp only []
  have hc : ¬ c = I32_MAX := by
    simp only [] at hr2
    rw [i32max_eq]; omega
  rw [if_neg hc]
  exact ⟨_, rfl⟩

/-! ## the candidates of `build_lattice` are chained -/

def pairs (a : List Oov.Node) : List (Nat × Nat) := a.map (fun x => (x.b, x.e))

theorem buildFrom_chain (ps : List Oov.Provider) (lex : List Oov.Word) (buf : Oov.Buf) (hwf : buf.WF) :
    ∀ (pos : List Nat) (acc nodes : List Oov.Node), Oov.buildFrom ps lex buf pos acc = .ok nodes →
      Chain [0] (pairs acc) → Chain [0] (pairs nodes)
  | [], acc, nodes, h, hc => by simp only [Oov.buildFrom] at h; cases h; exact hc
  | p :: rest, acc, nodes, h, hc => by
    simp only [Oov.buildFrom] at h
    split at h
    · exact buildFrom_chain ps lex buf hwf rest acc nodes h hc
    · rename_i hreach
      split at h
      · rename_i new hnew
        refine buildFrom_chain ps lex buf hwf rest (acc ++ new) nodes h ?_
        have hr : Oov.reachable acc p = true := by
          cases hv : Oov.reachable acc p with
          | true => rfl
          | false => rw [hv] at hreach; exact absurd rfl hreach
        unfold pairs
        rw [List.map_append]
        refine chain_append_of _ _ _ hc ?_
        intro x hx
        obtain ⟨z, hz, rfl⟩ := List.mem_map.mp hx
        have hzb : z.b = p := ((Oov.stepAt_ok ps lex buf p new hwf hnew).2 z hz).1
        unfold Oov.reachable at hr
        simp only [Bool.or_eq_true, beq_iff_eq, List.any_eq_true] at hr
        rcases hr with hr | ⟨y, hy, hye⟩
        · left; simp only [hzb, hr]; exact List.mem_cons_self
        · right
          exact ⟨(y.b, y.e), List.mem_map.mpr ⟨y, hy, rfl⟩, by simp only [hzb]; exact hye⟩
      · cases h
      · cases h

/-- the list `build_lattice` returns is chained from 0 and, for a non-empty text, some candidate ends at its end -/
theorem buildLattice_chain (ps : List Oov.Provider) (lex : List Oov.Word) (buf : Oov.Buf) (hwf : buf.WF)
    (nodes : List Oov.Node) (h : Oov.buildLattice ps lex buf = .ok nodes) :
    Chain [0] (pairs nodes) ∧ (buf.chars.length ≠ 0 → ∃ x ∈ nodes, x.e = buf.chars.length) := by
  unfold Oov.buildLattice at h
  split at h
  · rename_i ns hns
    split at h
    · rename_i hr
      cases h
      refine ⟨buildFrom_chain ps lex buf hwf _ [] _ hns trivial, ?_⟩
      intro hpos
      unfold Oov.reachable at hr
      simp only [Bool.or_eq_true, beq_iff_eq, List.any_eq_true] at hr
      rcases hr with hr | ⟨y, hy, hye⟩
      · exact absurd hr hpos
      · exact ⟨y, hy, hye⟩
    · cases h
  · cases h
  · cases h

/-- **within the cost bound the lattice connects**: for a well-formed buffer of 1..32767 characters, `i16` word and
connection costs, every `insert` of the candidates of `build_lattice` succeeds and `connect_eos` returns a cost —
neither an overflow nor `EosBosDisconnect` -/
theorem lattice_connects (ps : List Oov.Provider) (lex : List Oov.Word) (buf : Oov.Buf) (hwf : buf.WF)
    (conn : Nat → Nat → Int) (hconn : I16Conn conn) (hlen : buf.chars.length ≤ 32767) (hpos : buf.chars.length ≠ 0)
    (nodes : List Oov.Node) (h : Oov.buildLattice ps lex buf = .ok nodes)
    (hcost : ∀ x ∈ nodes, -32768 ≤ x.c ∧ x.c ≤ 32767) :
    ∃ rows ents r, buildAll addI32 I32_MAX conn (nodes.map toVit) (reset buf.chars.length) [] = .ok (rows, ents) ∧
      connectEos addI32 I32_MAX conn rows buf.chars.length = .ok r := by
  have hin := buildLattice_cand ps lex buf (wf_bufOk buf hwf) nodes h
  obtain ⟨hch, hend⟩ := buildLattice_chain ps lex buf hwf nodes h
  have hid : ∀ x ∈ nodes, (toVit x).b = x.b ∧ (toVit x).e = x.e := by
    intro x hx
    obtain ⟨a1, a2⟩ := hin x hx
    simp only [toVit]
    exact ⟨asU16_id x.b (by omega), asU16_id x.e (by omega)⟩
  have hnodes : ∀ n ∈ nodes.map toVit, NodeOk buf.chars.length n := by
    intro n hn
    obtain ⟨x, hx, rfl⟩ := List.mem_map.mp hn
    obtain ⟨a1, a2⟩ := hin x hx
    obtain ⟨c1, c2⟩ := hcost x hx
    obtain ⟨i1, i2⟩ := hid x hx
    simp only [NodeOk]
    rw [i1, i2]
    exact ⟨a1, a2, c1, c2⟩
  have hpairs : (nodes.map toVit).map (fun n => (n.b, n.e)) = pairs nodes := by
    unfold pairs
    rw [List.map_map]
    apply List.map_congr_left
    intro x hx
    obtain ⟨i1, i2⟩ := hid x hx
    simp only [Function.comp, i1, i2]
  obtain ⟨hc0, hne0⟩ := reset_conn buf.chars.length
  obtain ⟨rows, ents, g1, g2, _, g4⟩ := buildAll_conn conn hconn buf.chars.length hlen (nodes.map toVit)
    (reset buf.chars.length) [] [0] hc0
    (fun p hp => by simp only [List.mem_singleton] at hp; subst hp; exact hne0) hnodes (by rw [hpairs]; exact hch)
  obtain ⟨x, hx, hxe⟩ := hend hpos
  have hne : NE rows buf.chars.length := by
    have := g4 (toVit x) (List.mem_map.mpr ⟨x, hx, rfl⟩)
    rw [(hid x hx).2, hxe] at this
    exact this
  obtain ⟨r, hr⟩ := connectEos_conn conn hconn buf.chars.length hlen rows g2 hne
  exact ⟨rows, ents, r, g1, hr⟩

/-! ## stages that cannot report an error -/

theorem insert_ne_err (add : Int → Int → Option Int) (M : Int) (conn : Nat → Nat → Int) (rows : Rows) (n : Vit.Node)
    (k : String) : insert add M conn rows n ≠ .err k := by
  intro h
  unfold insert at h
  split at h
  · cases h
  · split at h
    · cases h
    · split at h <;> cases h

theorem buildAll_ne_err (add : Int → Int → Option Int) (M : Int) (conn : Nat → Nat → Int) :
    ∀ (nodes : List Vit.Node) (rows : Rows) (acc : List Entry) (k : String), buildAll add M conn nodes rows acc ≠ .err k
  | [], _, _, _ => by intro h; simp only [buildAll] at h; cases h
  | n :: ns, rows, acc, k => by
    intro h
    simp only [buildAll] at h
    split at h
    · exact buildAll_ne_err add M conn ns _ _ k h
    · rename_i k' hk; exact insert_ne_err add M conn rows n k' hk
    · cases h

theorem topPath_ne_err (rows : Rows) : ∀ (fuel : Nat) (p : Nat × Nat) (acc : List Entry) (k : String),
    topPath rows fuel p acc ≠ .err k
  | 0, _, _, _ => by intro h; simp only [topPath] at h; cases h
  | fuel + 1, (e, i), acc, k => by
    intro h
    simp only [topPath] at h
    split at h
    · cases h
    · split at h
      · cases h
      · split at h
        · exact topPath_ne_err rows fuel _ _ k h
        · cases h

theorem resultNode_ne_err (c2b : List Nat) (ent : Entry) (k : String) : resultNode c2b ent ≠ .err k := by
  intro h
  unfold resultNode at h
  split at h <;> cases h

theorem mapM_ne_err {α β : Type} (f : α → Outcome β) (hf : ∀ a k, f a ≠ .err k) :
    ∀ (as : List α) (k : String), mapM f as ≠ .err k
  | [], _ => by intro h; simp only [mapM] at h; cases h
  | a :: as, k => by
    intro h
    simp only [mapM] at h
    split at h
    · split at h
      · cases h
      · rename_i k' hk; exact mapM_ne_err f hf as k' hk
      · cases h
    · rename_i k' hk; exact hf a k' hk
    · cases h

theorem unitEnd_ne_err (v : SplitV) (b2c c2b : List Nat) (byteEnd bs h : Nat) (k : String) :
    unitEnd v b2c c2b byteEnd bs h ≠ .err k := by
  intro he
  unfold unitEnd at he
  cases v with
  | cur => simp only [] at he; split at he <;> cases he
  | d6fix =>
    simp only [] at he
    split at he
    · cases he
    · split at he <;> cases he

theorem splitGo_ne_err (v : SplitV) (b2c c2b : List Nat) (charEnd byteEnd : Nat) :
    ∀ (units : List Nat) (cs bs : Nat) (k : String), splitGo v b2c c2b charEnd byteEnd units cs bs ≠ .err k
  | [], _, _, _ => by intro h; simp only [splitGo] at h; cases h
  | [_], _, _, _ => by intro h; simp only [splitGo] at h; cases h
  | h0 :: u :: rest, cs, bs, k => by
    intro h
    simp only [splitGo] at h
    split at h
    · rename_i k' hk; exact unitEnd_ne_err v b2c c2b byteEnd bs h0 k' hk
    · cases h
    · split at h
      · cases h
      · rename_i k' hk; exact splitGo_ne_err v b2c c2b charEnd byteEnd (u :: rest) _ _ k' hk
      · cases h

theorem splitPath_ne_err (v : SplitV) (b2c c2b : List Nat) :
    ∀ (path : List (NodeRange × List Nat)) (k : String), splitPath v b2c c2b path ≠ .err k
  | [], _ => by intro h; simp only [splitPath] at h; cases h
  | (n, units) :: rest, k => by
    intro h
    simp only [splitPath] at h
    split at h
    · cases h
    · cases h
    · rename_i _ _ k' hk
      split at hk
      · cases hk
      · exact splitGo_ne_err v b2c c2b _ _ units _ _ k' hk
    · cases h
    · rename_i _ _ k' hk _ _
      exact splitPath_ne_err v b2c c2b rest k' hk

/-! ## the morphemes of a result lie inside the rewritten text -/

/-- all four offsets of a node are inside the text `t`: character offsets at most its character count, byte offsets at
most its length -/
def InText (t : List Nat) (n : NodeRange) : Prop :=
  n.bc ≤ EditM.nchars t ∧ n.ec ≤ EditM.nchars t ∧ n.bb ≤ t.length ∧ n.eb ≤ t.length

theorem b2c_getElem_le (t : List Nat) (h1 : 1 ≤ EditM.nchars t) (i x : Nat) (hx : (EditM.b2c t)[i]? = some x) :
    x ≤ EditM.nchars t := by
  have hm : x ∈ EditM.b2c t := List.mem_of_getElem? hx
  unfold EditM.b2c at hm
  rw [List.mem_append] at hm
  rcases hm with hm | hm
  · rcases b2cFrom_le t 0 _ hm with h | h <;> omega
  · simp only [List.mem_singleton] at hm
    rw [hm]; split <;> omega

theorem unitEnd_d6fix_inText (t : List Nat) (h1 : 1 ≤ EditM.nchars t) (byteEnd bs h ce be : Nat)
    (hu : unitEnd .d6fix (EditM.b2c t) (EditM.c2b t) byteEnd bs h = .ok (ce, be)) :
    ce ≤ EditM.nchars t ∧ be ≤ t.length := by
  unfold unitEnd at hu
  simp only [] at hu
  split at hu
  · cases hu
  · rename_i c hc
    split at hu
    · cases hu
    · rename_i b hb
      cases hu
      have a1 := b2c_getElem_le t h1 _ _ hc
      have a2 := c2b_getElem_le t _ _ hb
      have b1 := asU16_le c
      have b2 := asU16_le b
      omega

theorem splitGo_d6fix_inText (t : List Nat) (h1 : 1 ≤ EditM.nchars t) (charEnd byteEnd : Nat)
    (hce : charEnd ≤ EditM.nchars t) (hbe : byteEnd ≤ t.length) :
    ∀ (units : List Nat) (cs bs : Nat) (us : List NodeRange),
      splitGo .d6fix (EditM.b2c t) (EditM.c2b t) charEnd byteEnd units cs bs = .ok us →
      cs ≤ EditM.nchars t → bs ≤ t.length → ∀ u ∈ us, InText t u
  | [], _, _, us, h, _, _ => by simp only [splitGo] at h; cases h; intro u hu; cases hu
  | [_], cs, bs, us, h, hcs, hbs => by
    simp only [splitGo] at h; cases h
    intro u hu
    simp only [List.mem_singleton] at hu
    subst hu
    exact ⟨hcs, hce, hbs, hbe⟩
  | h0 :: u0 :: rest, cs, bs, us, h, hcs, hbs => by
    simp only [splitGo] at h
    split at h
    · cases h
    · cases h
    · rename_i ce be hue
      obtain ⟨a1, a2⟩ := unitEnd_d6fix_inText t h1 byteEnd bs h0 ce be hue
      split at h
      · rename_i l hl
        cases h
        intro u hu
        rcases List.mem_cons.mp hu with rfl | hu
        · exact ⟨hcs, a1, hbs, a2⟩
        · exact splitGo_d6fix_inText t h1 charEnd byteEnd hce hbe (u0 :: rest) ce be l hl a1 a2 u hu
      · cases h
      · cases h

theorem splitPath_d6fix_inText (t : List Nat) (h1 : 1 ≤ EditM.nchars t) :
    ∀ (path : List (NodeRange × List Nat)) (us : List NodeRange),
      splitPath .d6fix (EditM.b2c t) (EditM.c2b t) path = .ok us → (∀ p ∈ path, InText t p.1) → ∀ u ∈ us, InText t u
  | [], us, h, _ => by simp only [splitPath] at h; cases h; intro u hu; cases hu
  | (n, units) :: rest, us, h, hp => by
    simp only [splitPath] at h
    have hn : InText t n := hp (n, units) List.mem_cons_self
    split at h
    · rename_i a b ha hb
      cases h
      intro u hu
      rcases List.mem_append.mp hu with hu | hu
      · split at ha
        · cases ha
          simp only [List.mem_singleton] at hu
          subst hu; exact hn
        · exact splitGo_d6fix_inText t h1 n.ec n.eb hn.2.1 hn.2.2.2 units n.bc n.bb a ha hn.1 hn.2.2.1 u hu
      · exact splitPath_d6fix_inText t h1 rest b hb (fun p hp' => hp p (List.mem_cons_of_mem _ hp')) u hu
    · cases h
    · cases h
    · cases h
    · cases h

theorem resultNode_inText (t : List Nat) (ent : Entry) (r : NodeRange) (h : resultNode (EditM.c2b t) ent = .ok r)
    (hb : ent.node.b ≤ EditM.nchars t) (he : ent.node.e ≤ EditM.nchars t) : InText t r := by
  obtain ⟨a1, a2⟩ := resultNode_eb_le t ent r h
  unfold resultNode at h
  split at h
  · cases h; exact ⟨hb, he, a1, a2⟩
  · cases h

/-! ## the only error of `tokenize` is input-too-long -/

/-- when the plugins and the rewrite stage return no error of their own, `build_lattice` reports no error on the text
that is reached and `connect_eos` reports none on its lattice, the only `Err` of `do_tokenize` is input-too-long, and it
comes from `start_build` or from a `commit` of `rewrite_input` -/
theorem tokenize_err_tooLong (v : SplitV) (lv : EditM.LenV) (cfg : Cfg) (orig : List Nat) (k : String)
    (hplugok : ∀ p ∈ cfg.inputPlugins, ∀ t, ∃ es, p t = .ok es)
    (hrewok : ∀ path, ∃ path', cfg.rewrite path = .ok path')
    (hlat : ∀ chars k', Reaches lv cfg orig chars →
      Oov.buildLattice cfg.providers cfg.lex (cfg.mkBuf chars) ≠ .err k')
    (heos : ∀ chars nodes rows ents k', Reaches lv cfg orig chars → chars ≠ [] →
      Oov.buildLattice cfg.providers cfg.lex (cfg.mkBuf chars) = .ok nodes →
      buildAll addI32 I32_MAX cfg.conn (nodes.map toVit) (reset chars.length) [] = .ok (rows, ents) →
      connectEos addI32 I32_MAX cfg.conn rows chars.length ≠ .err k')
    (h : tokenize v lv cfg orig = .err k) :
    k = "TooLong" ∧ (EditM.startBuild orig = none ∨
      ∃ l0, EditM.startBuild orig = some l0 ∧ rewriteInput lv cfg.inputPlugins l0 = .err "TooLong") := by
  unfold tokenize at h
  cases h0 : EditM.startBuild orig with
  | none => rw [h0] at h; simp only [] at h; cases h; exact ⟨rfl, Or.inl rfl⟩
  | some l0 =>
    rw [h0] at h; simp only [] at h
    cases h1 : rewriteInput lv cfg.inputPlugins l0 with
    | err k' =>
      rw [h1] at h; simp only [] at h; cases h
      have hk := rewriteInput_err lv _ l0 hplugok k h1
      subst hk
      exact ⟨rfl, Or.inr ⟨l0, rfl, h1⟩⟩
    | panic w' => rw [h1] at h; simp at h
    | ok l =>
      rw [h1] at h; simp only [] at h
      cases h2 : Wire.utf8Decode (EditM.textOf l) with
      | none => rw [h2] at h; simp at h
      | some chars =>
        rw [h2] at h; simp only [] at h
        split at h
        · simp at h
        · rename_i hne0
          have hr : Reaches lv cfg orig chars := ⟨l0, l, h0, h1, h2⟩
          have hne : chars ≠ [] := by intro e; apply hne0; rw [e]; rfl
          cases h3 : Oov.buildLattice cfg.providers cfg.lex (cfg.mkBuf chars) with
          | err k' => exact absurd h3 (hlat chars k' hr)
          | panic w' => rw [h3] at h; simp at h
          | ok nodes =>
            rw [h3] at h; simp only [] at h
            cases h4 : buildAll addI32 I32_MAX cfg.conn (nodes.map toVit) (reset chars.length) [] with
            | err k' => exact absurd h4 (buildAll_ne_err _ _ _ _ _ _ k')
            | panic w' => rw [h4] at h; simp at h
            | ok r4 =>
              obtain ⟨rows, ents⟩ := r4
              rw [h4] at h; simp only [] at h
              cases h5 : connectEos addI32 I32_MAX cfg.conn rows chars.length with
              | err k' => exact absurd h5 (heos chars nodes rows ents k' hr hne h3 h4)
              | panic w' => rw [h5] at h; simp at h
              | ok r5 =>
                obtain ⟨c, pe, pi⟩ := r5
                rw [h5] at h; simp only [] at h
                cases h6 : topPath rows (chars.length + 1) (pe, pi) [] with
                | err k' => exact absurd h6 (topPath_ne_err rows _ _ _ k')
                | panic w' => rw [h6] at h; simp at h
                | ok es =>
                  rw [h6] at h; simp only [] at h
                  cases h7 : mapM (resultNode (EditM.c2b (EditM.textOf l))) es with
                  | err k' => exact absurd h7 (mapM_ne_err _ (resultNode_ne_err _) es k')
                  | panic w' => rw [h7] at h; simp at h
                  | ok path =>
                    rw [h7] at h; simp only [] at h
                    obtain ⟨path', h8⟩ := hrewok path
                    rw [h8] at h; simp only [] at h
                    cases h9 : splitPath v (EditM.b2c (EditM.textOf l)) (EditM.c2b (EditM.textOf l)) path' with
                    | err k' => exact absurd h9 (splitPath_ne_err v _ _ path' k')
                    | panic w' => rw [h9] at h; simp at h
                    | ok ms => rw [h9] at h; simp at h

end Total
