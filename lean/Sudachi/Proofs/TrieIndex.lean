import Sudachi.Proofs.Trie
/-! # C04 — the index BUILDER side: rows → table + key list → bytes → `Lexicon::parse` → look-up

Helper lemmas for `C04.index_roundtrip`, the full-strength (all byte strings) versions of the set
theorems for the guarded loop, the refusals of the builder and `MorphemeList::lookup`. -/
namespace Trie

/-! ## A. the keys handed to the external builder are surfaces of rows -/

theorem addKey_keys (P : List Nat → Prop) (k : List Nat) (id : Nat) (hk : P k) :
    ∀ (g : Groups), (∀ kv ∈ g, P kv.1) → ∀ kv ∈ addKey g k id, P kv.1 := by
  intro g
  induction g with
  | nil =>
    intro _ kv hkv
    simp only [addKey, List.mem_singleton] at hkv
    subst hkv
    exact hk
  | cons kg gs ih =>
    intro hg kv hkv
    obtain ⟨k', ids⟩ := kg
    simp only [addKey] at hkv
    split at hkv
    · simp only [List.mem_cons] at hkv
      rcases hkv with rfl | h
      · exact hg (k', ids) (by simp)
      · exact hg kv (by simp [h])
    · simp only [List.mem_cons] at hkv
      rcases hkv with rfl | h
      · exact hg (k', ids) (by simp)
      · exact ih (fun x hx => hg x (by simp [hx])) kv h

theorem indexGo_keys (P : List Nat → Prop) : ∀ (es : List Entry) (i : Nat) (g g' : Groups),
    indexGo i es g = some g' → (∀ e ∈ es, P e.key) → (∀ kv ∈ g, P kv.1) → ∀ kv ∈ g', P kv.1 := by
  intro es
  induction es with
  | nil => intro i g g' h _ hg; simp [indexGo] at h; subst h; exact hg
  | cons e es ih =>
    intro i g g' h hes hg
    simp only [indexGo] at h
    split at h
    · split at h
      · cases h
      · exact ih _ _ _ h (fun x hx => hes x (by simp [hx]))
          (addKey_keys P e.key _ (hes e (by simp)) g hg)
    · exact ih _ _ _ h (fun x hx => hes x (by simp [hx])) hg

theorem tableFrom_keys : ∀ (g : Groups) (off : Nat) (t : List Nat) (ents : List (List Nat × Nat)),
    tableFrom off g = some (t, ents) → ents.map (·.1) = g.map (·.1) := by
  intro g
  induction g with
  | nil =>
    intro off t ents h
    simp only [tableFrom, Option.some.injEq, Prod.mk.injEq] at h
    obtain ⟨_, rfl⟩ := h
    rfl
  | cons kg gs ih =>
    intro off t ents h
    obtain ⟨k, ids⟩ := kg
    simp only [tableFrom] at h
    split at h
    · cases h
    · split at h
      · cases h
      · cases hrec : tableFrom (off + (record ids).length) gs with
        | none => simp [hrec] at h
        | some r =>
          obtain ⟨t', es'⟩ := r
          simp only [hrec, Option.some.injEq, Prod.mk.injEq] at h
          obtain ⟨_, rfl⟩ := h
          simp [ih _ _ _ hrec]

theorem buildTable_keys (P : List Nat → Prop) (es : List Entry) (t : List Nat)
    (ents : List (List Nat × Nat)) (h : buildTable es = some (t, ents)) (hes : ∀ e ∈ es, P e.key) :
    ∀ kv ∈ ents, P kv.1 := by
  unfold buildTable at h
  cases hg : buildIndex es with
  | none => simp [hg] at h
  | some g =>
    simp only [hg] at h
    have hk := tableFrom_keys g 0 t ents h
    have hgk := indexGo_keys P es 0 [] g hg hes (by simp)
    intro kv hkv
    have : kv.1 ∈ ents.map (·.1) := List.mem_map.mpr ⟨kv, hkv, rfl⟩
    rw [hk] at this
    obtain ⟨kv', h1, h2⟩ := List.mem_map.mp this
    rw [← h2]
    exact hgk kv' h1

/-- what a successful `compileIndex` means -/
theorem compileIndex_some {es : List Entry} {t : List Nat} {ents : List (List Nat × Nat)}
    (h : compileIndex es = some (t, ents)) :
    es.all surfaceOk = true ∧ buildTable es = some (t, ents) ∧ ents ≠ [] := by
  unfold compileIndex at h
  split at h
  · rename_i hs
    cases hb : buildTable es with
    | none => simp [hb] at h
    | some r =>
      obtain ⟨t', ents'⟩ := r
      simp only [hb] at h
      split at h
      · cases h
      · rename_i hne
        simp only [Option.some.injEq, Prod.mk.injEq] at h
        obtain ⟨rfl, rfl⟩ := h
        exact ⟨hs, rfl, by simpa [List.isEmpty_iff] using hne⟩
  · cases h

theorem surfaceOk_noNul {e : Entry} (h : surfaceOk e = true) : e.key ≠ [] ∧ 0 ∉ e.key := by
  simp only [surfaceOk, Bool.and_eq_true, Bool.not_eq_true', List.all_eq_true, bne_iff_ne, ne_eq] at h
  refine ⟨?_, fun h0 => h.1.2 0 h0 rfl⟩
  intro hnil
  rw [hnil] at h
  simp at h

theorem surfaceOk_len {e : Entry} (h : surfaceOk e = true) : e.key.length ≤ 32767 := by
  simp only [surfaceOk, Bool.and_eq_true, decide_eq_true_eq] at h
  exact h.2

/-- the reader's surface test makes the key list NUL-free -/
theorem keysNoNul_of_surfaceOk {es : List Entry} {t : List Nat} {ents : List (List Nat × Nat)}
    (hs : es.all surfaceOk = true) (hb : buildTable es = some (t, ents)) : KeysNoNul ents := by
  intro kv hkv
  refine buildTable_keys (fun k => 0 ∉ k) es t ents hb ?_ kv hkv
  intro e he
  exact (surfaceOk_noNul (List.all_eq_true.mp hs e he)).2

/-- with the guarded loop the checker's verdict covers every byte string, for rows that passed the
reader's surface test -/
theorem TravOk.of_guard (es : List Entry) (a : Arr) (text : List Nat) (off : Nat)
    (hs : es.all surfaceOk = true) (hn : ∀ b ∈ text, b < 256) : TravOk true es a text off :=
  fun _ ents hb h => checkTrie_sound_guard a ents h (keysNoNul_of_surfaceOk hs hb) text off hn

/-! ## B. `write_index` → `Lexicon::parse` -/

theorem readU32_le32 {b : Arr} {p n : Nat} (h : Holds b p (le32 n)) :
    readU32 b p = some (n % 4294967296) := by
  have h0 := h 0 (by simp [le32])
  have h1 := h 1 (by simp [le32])
  have h2 := h 2 (by simp [le32])
  have h3 := h 3 (by simp [le32])
  simp only [le32, List.getElem_cons_zero, List.getElem_cons_succ, Nat.add_zero] at h0 h1 h2 h3
  simp only [readU32, h0, h1, h2, h3, Option.some.injEq]
  omega

theorem flatMap_le32_length (us : List Nat) : (us.flatMap le32).length = 4 * us.length := by
  induction us with
  | nil => rfl
  | cons u us ih => simp [List.flatMap_cons, le32_length, ih]; omega

theorem decodeUnits_holds {b : Arr} : ∀ (us : List Nat) (p : Nat), Holds b p (us.flatMap le32) →
    (∀ x ∈ us, x < 4294967296) → decodeUnits b p us.length = some us := by
  intro us
  induction us with
  | nil => intro p _ _; rfl
  | cons x xs ih =>
    intro p h hlt
    simp only [List.flatMap_cons] at h
    have hx := readU32_holds h.append_left (hlt x (by simp))
    have hr := ih (p + 4) (by simpa [le32_length] using h.append_right) (fun y hy => hlt y (by simp [hy]))
    simp [decodeUnits, hx, hr]

theorem Holds.size_le {b : Arr} {p : Nat} {L : List Nat} (h : Holds b p L) : L = [] ∨ p + L.length ≤ b.size := by
  cases L with
  | nil => exact Or.inl rfl
  | cons x xs =>
    right
    have := h xs.length (by simp)
    have hlt : p + xs.length < b.size := by
      by_cases hc : p + xs.length < b.size
      · exact hc
      · rw [Array.getElem?_eq_none (by omega)] at this; cases this
    simp; omega

theorem parseLex_holds (buf : Arr) (P : Nat) (units t : List Nat)
    (hH : Holds buf P (le32 units.length ++ units.flatMap le32 ++ le32 t.length ++ t))
    (hu : ∀ u ∈ units, u < 4294967296) (hul : units.length < 4294967296) :
    parseLex buf P =
      some { trie := units.toArray, buf := buf,
             tblSize := t.length % 4294967296, tblOff := P + 4 + 4 * units.length + 4,
             lexId := 255 } ∧
    Holds buf (P + 4 + 4 * units.length + 4) t := by
  have hA : Holds buf P (le32 units.length) := hH.append_left.append_left.append_left
  have hU : Holds buf (P + 4) (units.flatMap le32) := by
    have := hH.append_left.append_left.append_right
    simpa [le32_length] using this
  have hM : Holds buf (P + 4 + 4 * units.length) (le32 t.length) := by
    have := hH.append_left.append_right
    simp only [List.length_append, le32_length, flatMap_le32_length] at this
    rw [show P + (4 + 4 * units.length) = P + 4 + 4 * units.length by omega] at this
    exact this
  have hT : Holds buf (P + 4 + 4 * units.length + 4) t := by
    have := hH.append_right
    simp only [List.length_append, le32_length, flatMap_le32_length] at this
    rw [show P + (4 + 4 * units.length + 4) = P + 4 + 4 * units.length + 4 by omega] at this
    exact this
  refine ⟨?_, hT⟩
  have h1 := readU32_le32 hA
  rw [Nat.mod_eq_of_lt hul] at h1
  have h2 := decodeUnits_holds units _ hU hu
  have h3 := readU32_le32 hM
  have hsz : ¬ buf.size < P + 4 + units.length * 4 := by
    rcases hM.size_le with h0 | h0
    · simp [le32] at h0
    · simp only [le32_length] at h0; omega
  unfold parseLex
  simp only [h1, hsz, if_false, h2, h3]

/-- `Lexicon::parse` applied to what `write_index` wrote — anywhere in a file (`pre` = header,
grammar; `post` = word parameters, word infos) — finds the units and the table -/
theorem parseLex_indexBytes (pre post units t : List Nat)
    (hu : ∀ u ∈ units, u < 4294967296) (hul : units.length < 4294967296) :
    parseLex (pre ++ indexBytes units t ++ post).toArray pre.length =
      some { trie := units.toArray, buf := (pre ++ indexBytes units t ++ post).toArray,
             tblSize := t.length % 4294967296, tblOff := pre.length + 4 + 4 * units.length + 4,
             lexId := 255 } ∧
    Holds (pre ++ indexBytes units t ++ post).toArray (pre.length + 4 + 4 * units.length + 4) t :=
  parseLex_holds _ _ units t (holds_of_toList (post := post) rfl) hu hul

/-! ## C. what the builder refuses -/

theorem tableFrom_none_of_big : ∀ (g : Groups) (off : Nat), (∃ kv ∈ g, 127 < kv.2.length) →
    tableFrom off g = none := by
  intro g
  induction g with
  | nil => intro off h; obtain ⟨_, h, _⟩ := h; simp at h
  | cons kg gs ih =>
    intro off h
    obtain ⟨k, ids⟩ := kg
    obtain ⟨kv, hkv, hbig⟩ := h
    simp only [tableFrom]
    split
    · rfl
    · split
      · rfl
      · rename_i hlen _
        simp only [List.mem_cons] at hkv
        rcases hkv with rfl | hin
        · exact absurd hbig hlen
        · rw [ih _ ⟨kv, hin, hbig⟩]

theorem idsOf_mem_group {g : Groups} {key : List Nat} (h : idsOf g key ≠ []) :
    ∃ kv ∈ g, kv.2 = idsOf g key := by
  unfold idsOf at h ⊢
  cases hf : g.find? (fun kv => kv.1 == key) with
  | none => simp [hf] at h
  | some kv => exact ⟨kv, List.mem_of_find?_eq_some hf, rfl⟩

/-- more than 127 indexed rows with one surface: `write_u32_array` returns `InvalidSize`, the
dictionary is not compiled (no wrap of the count byte, no split into several records) -/
theorem buildTable_none_of_many (es : List Entry) (hs : es.length ≤ 268435456) (key : List Nat)
    (h : 127 < (idsFrom 0 es key).length) : buildTable es = none := by
  unfold buildTable
  cases hg : buildIndex es with
  | none => rfl
  | some g =>
    simp only
    have hids := buildIndex_idsOf es g hg hs key
    have hne : idsOf g key ≠ [] := by
      intro h0; rw [hids] at h0; rw [h0] at h; simp at h
    obtain ⟨kv, hkv, hkv2⟩ := idsOf_mem_group hne
    exact tableFrom_none_of_big g 0 ⟨kv, hkv, by rw [hkv2, hids]; exact h⟩

theorem indexGo_none_indexed : ∀ (es : List Entry) (i : Nat) (g : Groups),
    (∀ e ∈ es, shouldIndex e = false) → indexGo i es g = some g := by
  intro es
  induction es with
  | nil => intro i g _; rfl
  | cons e es ih =>
    intro i g h
    simp only [indexGo, h e (by simp)]
    exact ih _ _ (fun x hx => h x (by simp [hx]))

/-- no indexed row at all: `build_trie` returns `TrieBuildFailure` -/
theorem compileIndex_none_of_no_indexed (es : List Entry) (h : ∀ e ∈ es, shouldIndex e = false) :
    compileIndex es = none := by
  unfold compileIndex
  split
  · have : buildTable es = some ([], []) := by
      unfold buildTable buildIndex
      rw [indexGo_none_indexed es 0 [] h]
      rfl
    simp [this]
  · rfl

/-! ## E. the refusals are the only ones: `compileIndex` succeeds otherwise -/

theorem indexGo_some : ∀ (es : List Entry) (i : Nat) (g : Groups), i + es.length ≤ 268435456 →
    ∃ g', indexGo i es g = some g' := by
  intro es
  induction es with
  | nil => intro i g _; exact ⟨g, rfl⟩
  | cons e es ih =>
    intro i g h
    simp only [List.length_cons] at h
    simp only [indexGo]
    split
    · have hi : i % 4294967296 = i := Nat.mod_eq_of_lt (by omega)
      have hd : i / (WORD_MASK + 1) = 0 := Nat.div_eq_of_lt (by simp [WORD_MASK]; omega)
      rw [hi]
      simp only [hd, ne_eq, not_true_eq_false, if_false]
      exact ih _ _ (by omega)
    · exact ih _ _ (by omega)

/-- bytes of the table the groups produce -/
def tsize (g : Groups) : Nat := (g.map (fun kv => 1 + 4 * kv.2.length)).sum

theorem tsize_addKey (g : Groups) (k : List Nat) (id : Nat) : tsize (addKey g k id) ≤ tsize g + 5 := by
  induction g with
  | nil => simp [addKey, tsize]
  | cons kg gs ih =>
    obtain ⟨k', ids⟩ := kg
    simp only [addKey]
    split
    · simp [tsize]; omega
    · simp only [tsize, List.map_cons, List.sum_cons] at ih ⊢
      omega

theorem indexGo_tsize : ∀ (es : List Entry) (i : Nat) (g g' : Groups), indexGo i es g = some g' →
    tsize g' ≤ tsize g + 5 * es.length := by
  intro es
  induction es with
  | nil => intro i g g' h; simp [indexGo] at h; subst h; simp
  | cons e es ih =>
    intro i g g' h
    simp only [indexGo] at h
    simp only [List.length_cons]
    split at h
    · split at h
      · cases h
      · have := ih _ _ _ h
        have := tsize_addKey g e.key (i % 4294967296)
        omega
    · have := ih _ _ _ h
      omega

theorem record_length (ids : List Nat) : (record ids).length = 1 + 4 * ids.length := by
  unfold record
  rw [List.length_cons, flatMap_le32_length]; omega

theorem tableFrom_some : ∀ (g : Groups) (off : Nat), (∀ kv ∈ g, kv.2.length ≤ 127) →
    off + tsize g ≤ 4294967296 → ∃ r, tableFrom off g = some r := by
  intro g
  induction g with
  | nil => intro off _ _; exact ⟨_, rfl⟩
  | cons kg gs ih =>
    intro off hs hb
    obtain ⟨k, ids⟩ := kg
    simp only [tsize, List.map_cons, List.sum_cons] at hb
    have h1 : ¬ ids.length > 127 := by have := hs (k, ids) (by simp); simp at this; omega
    have h2 : ¬ off > 4294967295 := by omega
    obtain ⟨r, hr⟩ := ih (off + (record ids).length) (fun kv hkv => hs kv (by simp [hkv]))
      (by rw [record_length]; simp only [tsize]; omega)
    simp only [tableFrom, h1, h2, if_false, hr]
    exact ⟨_, rfl⟩

theorem addKey_nodup (k : List Nat) (id : Nat) : ∀ (g : Groups), (g.map (·.1)).Nodup →
    ((addKey g k id).map (·.1)).Nodup := by
  intro g
  induction g with
  | nil => intro _; simp [addKey]
  | cons kg gs ih =>
    intro h
    obtain ⟨k', ids⟩ := kg
    simp only [addKey]
    split
    · simpa using h
    · rename_i hne
      simp only [List.map_cons, List.nodup_cons] at h ⊢
      refine ⟨?_, ih h.2⟩
      intro hm
      obtain ⟨kv, hkv, hk⟩ := List.mem_map.mp hm
      have := addKey_keys (fun x => x = k ∨ x ∈ gs.map (·.1)) k id (Or.inl rfl) gs
        (fun kv hkv => Or.inr (List.mem_map.mpr ⟨kv, hkv, rfl⟩)) kv hkv
      rcases this with h1 | h1
      · exact hne (by rw [← hk, h1])
      · exact h.1 (by rw [← hk]; exact h1)

theorem indexGo_nodup : ∀ (es : List Entry) (i : Nat) (g g' : Groups), indexGo i es g = some g' →
    (g.map (·.1)).Nodup → (g'.map (·.1)).Nodup := by
  intro es
  induction es with
  | nil => intro i g g' h hg; simp [indexGo] at h; subst h; exact hg
  | cons e es ih =>
    intro i g g' h hg
    simp only [indexGo] at h
    split at h
    · split at h
      · cases h
      · exact ih _ _ _ h (addKey_nodup _ _ g hg)
    · exact ih _ _ _ h hg

theorem idsOf_of_mem : ∀ (g : Groups), (g.map (·.1)).Nodup → ∀ kv ∈ g, idsOf g kv.1 = kv.2 := by
  intro g
  induction g with
  | nil => intro _ kv h; simp at h
  | cons kg gs ih =>
    intro hn kv hkv
    simp only [List.map_cons, List.nodup_cons] at hn
    simp only [List.mem_cons] at hkv
    rcases hkv with rfl | h
    · simp [idsOf]
    · have hne : ¬ kg.1 = kv.1 := fun e => hn.1 (by rw [e]; exact List.mem_map.mpr ⟨kv, h, rfl⟩)
      have := ih hn.2 kv h
      simpa [idsOf, List.find?_cons, hne] using this

theorem idsFrom_ne_nil_of_mem (key : List Nat) : ∀ (es : List Entry) (s : Nat) (e : Entry), e ∈ es →
    shouldIndex e = true → e.key = key → idsFrom s es key ≠ [] := by
  intro es
  induction es with
  | nil => intro s e h; simp at h
  | cons x xs ih =>
    intro s e he h1 h2
    simp only [idsFrom]
    split
    · simp
    · rename_i hc
      simp only [List.mem_cons] at he
      rcases he with rfl | he
      · simp [h1, h2] at hc
      · exact ih (s+1) e he h1 h2

theorem surfaceOk_of {e : Entry} (h1 : e.key ≠ []) (h2 : 0 ∉ e.key) (h3 : e.key.length ≤ 32767) :
    surfaceOk e = true := by
  simp only [surfaceOk, Bool.and_eq_true, Bool.not_eq_true', List.all_eq_true, bne_iff_ne, ne_eq,
    decide_eq_true_eq]
  refine ⟨⟨?_, fun b hb h0 => h2 (h0 ▸ hb)⟩, h3⟩
  cases hk : e.key with
  | nil => exact absurd hk h1
  | cons _ _ => rfl

/-- under `WordId`'s limit on the number of rows the builder's model succeeds whenever every
surface passes the reader's test, no key has more than 127 indexed rows and some row is indexed —
in particular the `u32` test on the record offsets (`build_trie`) can never fire: a table of at
most 2²⁸ ids in at most 2²⁸ records has at most 5 · 2²⁸ < 2³² bytes -/
theorem compileIndex_isSome (es : List Entry) (hs : es.length ≤ 268435456)
    (h1 : ∀ e ∈ es, e.key ≠ [] ∧ 0 ∉ e.key ∧ e.key.length ≤ 32767)
    (h2 : ∀ key, (idsFrom 0 es key).length ≤ 127) (h3 : ∃ e ∈ es, 0 ≤ e.left) :
    ∃ r, compileIndex es = some r := by
  have hall : es.all surfaceOk = true :=
    List.all_eq_true.mpr (fun e he => surfaceOk_of (h1 e he).1 (h1 e he).2.1 (h1 e he).2.2)
  obtain ⟨g, hg⟩ := indexGo_some es 0 [] (by omega)
  have hnd := indexGo_nodup es 0 [] g hg (by simp)
  have hsz := indexGo_tsize es 0 [] g hg
  have hsmall : ∀ kv ∈ g, kv.2.length ≤ 127 := by
    intro kv hkv
    rw [← idsOf_of_mem g hnd kv hkv, buildIndex_idsOf es g hg hs kv.1]
    exact h2 kv.1
  obtain ⟨⟨t, ents⟩, hr⟩ := tableFrom_some g 0 hsmall (by simp only [tsize] at hsz ⊢; simp at hsz; omega)
  have hb : buildTable es = some (t, ents) := by
    unfold buildTable buildIndex; rw [hg]; exact hr
  have hne : ents.isEmpty = false := by
    obtain ⟨e, he, hl⟩ := h3
    have hk := tableFrom_keys g 0 t ents hr
    have : idsOf g e.key ≠ [] := by
      rw [buildIndex_idsOf es g hg hs e.key]
      exact idsFrom_ne_nil_of_mem e.key es 0 e he (by simp [shouldIndex, hl]) rfl
    cases hents : ents with
    | nil =>
      rw [hents] at hk
      have hgn : g = [] := by simpa using hk.symm
      rw [hgn] at this
      simp [idsOf] at this
    | cons _ _ => rfl
  exact ⟨(t, ents), by simp [compileIndex, hall, hb, hne]⟩

/-- a lexicon as parsed, before `LexiconSet` assigns its dictionary number: what the driver
evaluates per lexicon of a world (`tbl=1`, `chk=1`) -/
structure CompiledRaw (es : List Entry) (lx : Lex) : Prop where
  small : es.length ≤ 268435456
  built : ∃ t ents, buildTable es = some (t, ents) ∧ Holds lx.buf lx.tblOff t ∧
    checkTrie lx.trie ents = true

/-- the sources of a compiled stack are small enough for `WordId` -/
theorem sources_small (ws : List (List Entry × Lex)) (hc : ∀ x ∈ ws, CompiledRaw x.1 x.2) :
    ∀ es ∈ ws.map (·.1), es.length ≤ 268435456 := by
  intro es hes
  obtain ⟨x, hx, rfl⟩ := List.mem_map.mp hes
  exact (hc x hx).small

/-! ## D. from "the result is the naive scan list" to the clauses of the property -/

/-- the naive scan list has no duplicates and contains exactly the indexed rows whose non-empty
surface is a prefix -/
theorem specSet_entries (srcs : List (List Entry)) (hsmall : ∀ es ∈ srcs, es.length ≤ 268435456)
    (off : Nat) (t : List Nat) :
    (specSetFrom 0 srcs off t).Nodup ∧
      ∀ w e, (w, e) ∈ specSetFrom 0 srcs off t ↔
        ∃ d es i en, srcs[d]? = some es ∧ es[i]? = some en ∧ 0 ≤ en.left ∧
          en.key ≠ [] ∧ en.key <+: t ∧ e = off + en.key.length ∧
          w = d * 268435456 + i := by
  refine ⟨specSetFrom_nodup off t srcs 0 hsmall, ?_⟩
  intro w e
  rw [mem_specSetFrom]
  constructor
  · rintro ⟨d, es, h1, h2⟩
    obtain ⟨i, en, h3, h4, h5, h6, h7, h8⟩ := (mem_specLex _ _ _ _ _ _).mp h2
    exact ⟨d, es, i, en, h1, h3, by simpa [shouldIndex] using h4, h5, h6, h7, by simpa using h8⟩
  · rintro ⟨d, es, i, en, h1, h3, h4, h5, h6, h7, h8⟩
    exact ⟨d, es, h1, (mem_specLex _ _ _ _ _ _).mpr
      ⟨i, en, h3, by simpa [shouldIndex] using h4, h5, h6, h7, by simpa using h8⟩⟩

/-- an id that names a row with a negative left id is not in the naive scan list -/
theorem specSet_no_negative (srcs : List (List Entry)) (hsmall : ∀ es ∈ srcs, es.length ≤ 268435456)
    (off : Nat) (t : List Nat) (d i e : Nat) (es : List Entry) (en : Entry)
    (hd : srcs[d]? = some es) (hi : es[i]? = some en) (hneg : en.left < 0) :
    (d * 268435456 + i, e) ∉ specSetFrom 0 srcs off t := by
  intro hmem
  obtain ⟨d', es', i', en', g1, g2, g3, _, _, _, g7⟩ := ((specSet_entries srcs hsmall off t).2 _ _).mp hmem
  have hes : es.length ≤ 268435456 := hsmall es (List.mem_of_getElem? hd)
  have hes' : es'.length ≤ 268435456 := hsmall es' (List.mem_of_getElem? g1)
  have b1 := (List.getElem?_eq_some_iff.mp hi).1
  have b2 := (List.getElem?_eq_some_iff.mp g2).1
  have hdd : d = d' := by omega
  subst hdd
  have hii : i = i' := by omega
  subst hii
  rw [hd] at g1; cases g1
  rw [hi] at g2; cases g2
  omega

/-- the entries of the naive scan of a query from offset 0 that end at the query's end are the
indexed rows whose surface equals the query -/
theorem specSet_exact (srcs : List (List Entry)) (hsmall : ∀ es ∈ srcs, es.length ≤ 268435456)
    (q : List Nat) :
    ((specSetFrom 0 srcs 0 q).filter (fun we => we.2 == q.length)).Nodup ∧
      ∀ w e, (w, e) ∈ (specSetFrom 0 srcs 0 q).filter (fun we => we.2 == q.length) ↔
        e = q.length ∧ q ≠ [] ∧ ∃ d es i en, srcs[d]? = some es ∧ es[i]? = some en ∧
          0 ≤ en.left ∧ en.key = q ∧ w = d * 268435456 + i := by
  obtain ⟨h2, h3⟩ := specSet_entries srcs hsmall 0 q
  refine ⟨h2.filter _, ?_⟩
  intro w e
  simp only [List.mem_filter, h3, beq_iff_eq, Nat.zero_add]
  constructor
  · rintro ⟨⟨d, es, i, en, g1, g2, g3, g4, g5, g6, g7⟩, g8⟩
    have hk : en.key = q := g5.eq_of_length (by omega)
    refine ⟨g8, by rw [← hk]; exact g4, d, es, i, en, g1, g2, g3, hk, g7⟩
  · rintro ⟨g8, g9, d, es, i, en, g1, g2, g3, rfl, g7⟩
    exact ⟨⟨d, es, i, en, g1, g2, g3, g9, List.prefix_refl _, g8, g7⟩, g8⟩

end Trie
