import Sudachi.Proofs.Normalize
/-!
# Declarative specifications of the two regular expressions of the input-text plugins (C07)

`ProlongedSoundMarkPlugin` builds `[marks]{2,}` and uses `find_iter`; `IgnoreYomiganaPlugin` builds
`K(L R{1,n} B)` (`K` kanji class, `L`/`B` bracket sets, `R` kana class) and uses `captures_iter`, deleting
group 1.  `RE` is a small regular-expression syntax (class, sequence, counted repetition) with its standard
language `RE.lang`.  The two patterns are written down as `RE` values following the pattern text token by
token, and the hand-written matchers of `Model/Normalize.lean` (`takeWhile`-run, `yomiAt`/`backtrack`,
`psmGo`, `yomiGo`) are proved equal to what the regex engine is documented to compute from that language:
the match at a position is the LONGEST prefix in the language (both patterns have a single greedy
repetition over one class and fixed-width rest, so the engine's leftmost-first preference "more iterations
first" is "longest"), and `find_iter`/`captures_iter` report, scanning from the left, the match at the first
position that has one and continue behind its end (`FindIter`; neither pattern matches the empty string).
What stays trusted: this reading of the engine, and the transcription of the pattern text / the classes.
-/
namespace Normalize

inductive RE where
  | cls (p : Nat → Bool) : RE                       -- `[...]`
  | seq (a b : RE) : RE
  | rep (a : RE) (lo : Nat) (hi : Option Nat) : RE  -- `a{lo,hi}` / `a{lo,}`

/-- `u` is in the language of the expression -/
def RE.lang : RE → List Nat → Prop
  | .cls p, u => ∃ c, u = [c] ∧ p c = true
  | .seq a b, u => ∃ x y, u = x ++ y ∧ a.lang x ∧ b.lang y
  | .rep a lo hi, u => ∃ us : List (List Nat), u = us.flatten ∧ (∀ x ∈ us, a.lang x) ∧ lo ≤ us.length ∧
      (∀ h, hi = some h → us.length ≤ h)

theorem flatten_singletons (p : Nat → Bool) : ∀ (us : List (List Nat)), (∀ x ∈ us, ∃ c, x = [c] ∧ p c = true) →
    us.flatten.length = us.length ∧ ∀ c ∈ us.flatten, p c = true := by
  intro us
  induction us with
  | nil => intro _; simp
  | cons x xs ih =>
    intro h
    obtain ⟨c, rfl, hc⟩ := h x (by simp)
    obtain ⟨h1, h2⟩ := ih (fun y hy => h y (List.mem_cons_of_mem _ hy))
    refine ⟨by simp [h1], ?_⟩
    intro d hd
    simp only [List.flatten_cons, List.cons_append, List.nil_append, List.mem_cons] at hd
    rcases hd with rfl | hd
    · exact hc
    · exact h2 d hd

theorem flatten_map_single (u : List Nat) : (u.map (fun c => [c])).flatten = u := by
  induction u with
  | nil => rfl
  | cons c cs ih => simp [ih]

/-- `[class]{lo,hi}` = the strings over the class with a length in the range -/
theorem lang_rep_cls (p : Nat → Bool) (lo : Nat) (hi : Option Nat) (u : List Nat) :
    (RE.rep (.cls p) lo hi).lang u ↔ lo ≤ u.length ∧ (∀ h, hi = some h → u.length ≤ h) ∧ ∀ c ∈ u, p c = true := by
  constructor
  · rintro ⟨us, rfl, hall, hlo, hhi⟩
    obtain ⟨h1, h2⟩ := flatten_singletons p us hall
    exact ⟨by omega, fun h hh => by have := hhi h hh; omega, h2⟩
  · rintro ⟨hlo, hhi, hall⟩
    refine ⟨u.map (fun c => [c]), (flatten_map_single u).symm, ?_, by simpa using hlo, fun h hh => by simpa using hhi h hh⟩
    intro x hx
    obtain ⟨c, hc, rfl⟩ := List.mem_map.mp hx
    exact ⟨c, rfl, hall c hc⟩

/-- the engine's match at the head of `s`: the longest prefix of `s` in the language -/
def LongestPrefix (L : List Nat → Prop) (s : List Nat) (n : Nat) : Prop :=
  n ≤ s.length ∧ L (s.take n) ∧ ∀ m, m ≤ s.length → L (s.take m) → m ≤ n

/-- `find_iter` / `captures_iter` for a pattern that does not match the empty string: `M rest n` = "the match
at the head of `rest` has length `n`"; the result lists the matches as (start, end) -/
inductive FindIter (M : List Nat → Nat → Prop) : Nat → List Nat → List (Nat × Nat) → Prop
  | nil (pos : Nat) : FindIter M pos [] []
  | skip (pos c : Nat) (cs : List Nat) (ms : List (Nat × Nat)) : (∀ n, ¬ M (c :: cs) n) →
      FindIter M (pos + 1) cs ms → FindIter M pos (c :: cs) ms
  | hit (pos c : Nat) (cs : List Nat) (n : Nat) (ms : List (Nat × Nat)) : M (c :: cs) n →
      FindIter M (pos + n) ((c :: cs).drop n) ms → FindIter M pos (c :: cs) ((pos, pos + n) :: ms)

/-! ## `[marks]{2,}` -/

def rePsm (marks : List Nat) : RE := .rep (.cls marks.contains) 2 none

theorem psm_lang (marks u : List Nat) :
    (rePsm marks).lang u ↔ 2 ≤ u.length ∧ ∀ c ∈ u, marks.contains c = true := by
  unfold rePsm
  rw [lang_rep_cls]
  constructor
  · rintro ⟨h1, _, h3⟩; exact ⟨h1, h3⟩
  · rintro ⟨h1, h3⟩; exact ⟨h1, (fun _ hh => by cases hh), h3⟩

/-- the run computed by the model (`takeWhile`) is the engine's match: when it has two or more marks it is
the longest prefix in the language of `[marks]{2,}`; otherwise no prefix is in the language -/
theorem psm_run_spec (marks s : List Nat) :
    (2 ≤ (s.takeWhile marks.contains).length →
      LongestPrefix (rePsm marks).lang s (s.takeWhile marks.contains).length) ∧
    (¬ 2 ≤ (s.takeWhile marks.contains).length → ∀ n, ¬ LongestPrefix (rePsm marks).lang s n) := by
  have hle : (s.takeWhile marks.contains).length ≤ s.length := (List.takeWhile_sublist _).length_le
  have hupper : ∀ m, m ≤ s.length → (rePsm marks).lang (s.take m) → m ≤ (s.takeWhile marks.contains).length := by
    intro m hm hl
    obtain ⟨_, hall⟩ := (psm_lang marks _).mp hl
    exact le_takeWhile_of_all marks.contains s m hm hall
  constructor
  · intro h2
    refine ⟨hle, (psm_lang marks _).mpr ⟨by simp only [List.length_take]; omega, ?_⟩, hupper⟩
    exact take_of_le_takeWhile marks.contains s _ (Nat.le_refl _)
  · intro h2 n ⟨hn, hl, _⟩
    have := hupper n hn hl
    obtain ⟨h3, _⟩ := (psm_lang marks _).mp hl
    simp only [List.length_take] at h3
    omega

/-- the edits of the prolonged-sound-mark plugin are the `find_iter` matches of `[marks]{2,}`, each replaced
by the replacement symbol -/
theorem psmGo_find_iter (marks rep : List Nat) (pos : Nat) (s : List Nat) :
    FindIter (LongestPrefix (rePsm marks).lang) pos s ((psmGo marks rep pos s).map (fun e => (e.s, e.e))) ∧
    ∀ e ∈ psmGo marks rep pos s, e.rep = rep := by
  fun_induction psmGo marks rep pos s with
  | case1 pos => exact ⟨FindIter.nil pos, by simp⟩
  | case2 pos c cs h ih =>
    refine ⟨?_, ?_⟩
    · simp only [List.map_cons]
      exact FindIter.hit pos c cs _ _ ((psm_run_spec marks (c :: cs)).1 h) ih.1
    · intro e he
      rcases List.mem_cons.mp he with rfl | he
      · rfl
      · exact ih.2 e he
  | case3 pos c cs h ih =>
    exact ⟨FindIter.skip pos c cs _ ((psm_run_spec marks (c :: cs)).2 h) ih.1, ih.2⟩

/-! ## `K(L R{1,n} B)` -/

/-- the capture group `(L R{1,n} B)` -/
def reYomiGroup (Y : Yomi) : RE :=
  .seq (.cls Y.left.contains) (.seq (.rep (.cls Y.kana) 1 (some Y.max)) (.cls Y.right.contains))

def reYomi (Y : Yomi) : RE := .seq (.cls Y.kanji) (reYomiGroup Y)

theorem yomi_lang (Y : Yomi) (u : List Nat) :
    (reYomi Y).lang u ↔ ∃ k l rd b, u = k :: l :: (rd ++ [b]) ∧ Y.kanji k = true ∧ Y.left.contains l = true ∧
      1 ≤ rd.length ∧ rd.length ≤ Y.max ∧ (∀ x ∈ rd, Y.kana x = true) ∧ Y.right.contains b = true := by
  unfold reYomi reYomiGroup
  constructor
  · rintro ⟨x, y, rfl, ⟨k, rfl, hk⟩, x2, y2, rfl, ⟨l, rfl, hl⟩, x3, y3, rfl, hrep, ⟨b, rfl, hb⟩⟩
    obtain ⟨h1, h2, h3⟩ := (lang_rep_cls _ _ _ _).mp hrep
    exact ⟨k, l, x3, b, by simp, hk, hl, h1, h2 _ rfl, h3, hb⟩
  · rintro ⟨k, l, rd, b, rfl, hk, hl, h1, h2, h3, hb⟩
    refine ⟨[k], l :: (rd ++ [b]), by simp, ⟨k, rfl, hk⟩, [l], rd ++ [b], by simp, ⟨l, rfl, hl⟩, rd, [b], rfl, ?_, ⟨b, rfl, hb⟩⟩
    exact (lang_rep_cls _ _ _ _).mpr ⟨h1, (fun h hh => by cases hh; exact h2), h3⟩

/-- the declarative span predicate of the C07 theorems (`YomiMatch`) is membership of the prefix of length
`n + 3` in the language of the pattern; the capture group is everything after the (one-character) kanji -/
theorem yomiMatch_iff_lang (Y : Yomi) (s : List Nat) (n : Nat) :
    YomiMatch Y s n ↔ n + 3 ≤ s.length ∧ (reYomi Y).lang (s.take (n + 3)) := by
  constructor
  · rintro ⟨k, l, rd, b, rest, rfl, hk, hl, hlen, hkana, h1, h2, hb⟩
    refine ⟨by simp only [List.length_cons, List.length_append]; omega, (yomi_lang Y _).mpr ?_⟩
    refine ⟨k, l, rd, b, ?_, hk, hl, by omega, by omega, hkana, hb⟩
    rw [show n + 3 = (n + 1) + 1 + 1 by omega, List.take_succ_cons, List.take_succ_cons]
    rw [show rd ++ b :: rest = (rd ++ [b]) ++ rest by simp]
    rw [List.take_left' (by simp only [List.length_append, List.length_cons, List.length_nil]; omega)]
  · rintro ⟨hlen, hl⟩
    obtain ⟨k, l, rd, b, hu, hk, hll, h1, h2, h3, hb⟩ := (yomi_lang Y _).mp hl
    have hl2 : (s.take (n + 3)).length = n + 3 := by simp only [List.length_take]; omega
    rw [hu] at hl2
    simp only [List.length_cons, List.length_append, List.length_nil] at hl2
    refine ⟨k, l, rd, b, s.drop (n + 3), ?_, hk, hll, by omega, h3, by omega, by omega, hb⟩
    have := List.take_append_drop (n + 3) s
    rw [hu] at this
    exact this.symm.trans (by simp)

theorem yomi_lang_length (Y : Yomi) (u : List Nat) (h : (reYomi Y).lang u) : 4 ≤ u.length := by
  obtain ⟨k, l, rd, b, rfl, _, _, h1, _⟩ := (yomi_lang Y u).mp h
  simp only [List.length_cons, List.length_append, List.length_nil]; omega

/-- the matcher (`yomiAt`: class tests, `takeWhile`, `backtrack`) reports `n` reading characters iff the
longest prefix of the text in the language of `K(L R{1,n} B)` has `n + 3` characters; it reports nothing iff
no prefix is in the language -/
theorem yomiAt_regex_spec (Y : Yomi) (s : List Nat) :
    (∀ n, yomiAt Y s = some n → LongestPrefix (reYomi Y).lang s (n + 3)) ∧
    (yomiAt Y s = none → ∀ m, ¬ LongestPrefix (reYomi Y).lang s m) := by
  constructor
  · intro n h
    obtain ⟨hlen, hl⟩ := (yomiMatch_iff_lang Y s n).mp (yomiAt_sound h)
    refine ⟨hlen, hl, ?_⟩
    intro m hm hlm
    have h4 := yomi_lang_length Y _ hlm
    simp only [List.length_take] at h4
    have hmm : YomiMatch Y s (m - 3) := (yomiMatch_iff_lang Y s (m - 3)).mpr
      ⟨by omega, by rw [show m - 3 + 3 = m by omega]; exact hlm⟩
    have := yomiAt_longest h (m - 3) hmm
    omega
  · intro h m ⟨hm, hlm, _⟩
    have h4 := yomi_lang_length Y _ hlm
    simp only [List.length_take] at h4
    exact yomiAt_none h (m - 3) ((yomiMatch_iff_lang Y s (m - 3)).mpr
      ⟨by omega, by rw [show m - 3 + 3 = m by omega]; exact hlm⟩)

/-- the edits of the yomigana plugin are the `captures_iter` matches of the pattern, of each the capture
group (from the character after the kanji to the end of the match) replaced by nothing -/
theorem yomiGo_captures_iter (Y : Yomi) (pos : Nat) (s : List Nat) :
    FindIter (LongestPrefix (reYomi Y).lang) pos s ((yomiGo Y pos s).map (fun e => (e.s - 1, e.e))) ∧
    ∀ e ∈ yomiGo Y pos s, e.rep = [] ∧ 1 ≤ e.s := by
  fun_induction yomiGo Y pos s with
  | case1 pos => exact ⟨FindIter.nil pos, by simp⟩
  | case2 pos c cs k h ih =>
    refine ⟨?_, ?_⟩
    · simp only [List.map_cons, Nat.add_sub_cancel]
      have := FindIter.hit pos c cs (k + 3) _ ((yomiAt_regex_spec Y (c :: cs)).1 k h)
        (by rw [show pos + (k + 3) = pos + k + 3 by omega]; exact ih.1)
      rw [show pos + (k + 3) = pos + k + 3 by omega] at this
      exact this
    · intro e he
      rcases List.mem_cons.mp he with rfl | he
      · exact ⟨rfl, by simp⟩
      · exact ih.2 e he
  | case3 pos c cs h ih =>
    exact ⟨FindIter.skip pos c cs _ ((yomiAt_regex_spec Y (c :: cs)).2 h) ih.1, ih.2⟩

end Normalize
