import Sudachi.Proofs.Rewrite
/-!
# Finding F3: the numeral joiner is not idempotent — the mechanism

Generic in the parser `P`, the class table `cat`, the code variant `v` and the settings `cfg`:

* (A) `catOfRange_sub_not_numeric`, `mergedNode_not_numeric`: a token whose character range contains a
  non-empty sub-range with a non-numeric class mask is itself not numeric (the mask is the AND over the
  characters), so a merged token that swallowed a separator ends a candidate run;
* (B) `nstep_accept`, `nloop_run_open`, `nloop_run`, `nloop_run_init`: the loop walks over a run of
  candidate nodes whose characters the parser accepts, only accumulating characters;
* (C) `nstep_close_sep`: the step on the first non-candidate node after an open run that ends in a
  separator with the matching pending error calls `concat` on the run without the separator;
  `joinNumeric_shrinks`: sufficient condition for "this run of the plugin shortens the path";
  `f3_second_run_shrinks`: the second-run input of the F3 witness satisfies it.
-/
namespace Rewrite

/-! ## (B) walking over an accepted run -/

/-- candidate test of `rewrite_gen` under the current flags -/
def isCand (comma period : Bool) (ct : Nat) (s : List Char) : Bool :=
  isNumericCat ct || (comma && s == [',']) || (period && s == ['.'])

theorem nstep_accept (v : NVariant) (cfg : NCfg) (cat : List Nat) (P : List Char → POut) (st : NState)
    (node : Node) (ct : Nat) (hi : 0 ≤ st.i + 1) (hn : st.path[(st.i + 1).toNat]? = some node)
    (hc : catOfRange cat node.b node.e = some ct)
    (hcand : isCand st.comma st.period ct (normForm node) = true)
    (hacc : ¬ (P ((if st.beginIdx < 0 then [] else st.acc) ++ normForm node)).n <
        ((if st.beginIdx < 0 then [] else st.acc) ++ normForm node).length) :
    nstep v cfg cat P st = .ok { st with i := st.i + 1, beginIdx := (if st.beginIdx < 0 then st.i + 1 else st.beginIdx), acc := (if st.beginIdx < 0 then [] else st.acc) ++ normForm node } := by
  unfold nstep
  simp only [show ¬ (st.i + 1 < 0) by omega, if_false, hn, hc]
  unfold isCand at hcand
  rw [if_pos hcand, if_neg hacc]

/-- the characters of a run of nodes, as they are fed to the parser -/
def accOf (run : List Node) : List Char := run.flatMap normForm

theorem accOf_nil : accOf [] = [] := rfl

theorem accOf_cons (n : Node) (run : List Node) : accOf (n :: run) = normForm n ++ accOf run := by
  simp [accOf]

theorem accOf_append (a b : List Node) : accOf (a ++ b) = accOf a ++ accOf b := by
  simp [accOf]

/-- one successful iteration of the loop -/
theorem nloop_succ_of_step (v : NVariant) (cfg : NCfg) (cat : List Nat) (P : List Char → POut)
    (fuel : Nat) (st st' : NState) (hg : st.i < (st.path.length : Int) - 1)
    (hs : nstep v cfg cat P st = .ok st') :
    nloop v cfg cat P (fuel + 1) st = nloop v cfg cat P fuel st' := by
  rw [nloop, if_pos hg, hs]

/-- the loop over a run of accepted candidates, run already open (`0 ≤ beginIdx`) -/
theorem nloop_run_open (v : NVariant) (cfg : NCfg) (cat : List Nat) (P : List Char → POut) :
    ∀ (run : List Node) (st : NState) (pre rest : List Node) (fuel : Nat),
      0 ≤ st.beginIdx → st.path = pre ++ run ++ rest → st.i + 1 = pre.length →
      (∀ n ∈ run, ∃ ct, catOfRange cat n.b n.e = some ct ∧
        isCand st.comma st.period ct (normForm n) = true) →
      (∀ k, k < run.length → ¬ (P (st.acc ++ accOf (run.take (k + 1)))).n <
        (st.acc ++ accOf (run.take (k + 1))).length) →
      nloop v cfg cat P (fuel + run.length) st =
        nloop v cfg cat P fuel { st with i := st.i + run.length, acc := st.acc ++ accOf run } := by
  intro run
  induction run with
  | nil =>
    intro st pre rest fuel _ _ _ _ _
    simp [accOf_nil]
  | cons node run ih =>
    intro st pre rest fuel hb hp hi hcand hacc
    obtain ⟨ct, hct, hcd⟩ := hcand node (List.mem_cons_self ..)
    have hn : st.path[(st.i + 1).toNat]? = some node := by
      rw [hp, hi]
      simp
    have hg : st.i < (st.path.length : Int) - 1 := by
      rw [hp]
      simp only [List.length_append, List.length_cons]
      omega
    have ha0 := hacc 0 (by simp)
    simp only [List.take_succ_cons, List.take_zero, accOf_cons, accOf_nil, List.append_nil] at ha0
    have hstep := nstep_accept v cfg cat P st node ct (by omega) hn hct hcd
      (by rw [if_neg (by omega)]; exact ha0)
    simp only [if_neg (show ¬ st.beginIdx < 0 by omega)] at hstep
    rw [show fuel + (node :: run).length = (fuel + run.length) + 1 by simp; omega]
    rw [nloop_succ_of_step v cfg cat P _ st _ hg hstep]
    rw [ih { st with i := st.i + 1, acc := st.acc ++ normForm node } (pre ++ [node]) rest fuel hb
      (by simp [hp]) (by simp; omega)
      (fun n hn => hcand n (List.mem_cons_of_mem _ hn))
      (fun k hk => by
        have := hacc (k + 1) (by simp; omega)
        simpa [accOf_cons, List.append_assoc] using this)]
    congr 1
    simp only [NState.mk.injEq, accOf_cons, List.length_cons, List.append_assoc, and_true, true_and]
    omega

/-- state after the loop has walked over the non-empty run -/
def runState (st : NState) (run : List Node) : NState :=
  match run with
  | [] => st
  | _ :: _ => { st with i := st.i + run.length, beginIdx := (if st.beginIdx < 0 then st.i + 1 else st.beginIdx), acc := (if st.beginIdx < 0 then [] else st.acc) ++ accOf run }

/-- **(B)** the loop over a run of candidate nodes whose characters the parser accepts: general form
(any state, run anywhere in the path) -/
theorem nloop_run (v : NVariant) (cfg : NCfg) (cat : List Nat) (P : List Char → POut)
    (run : List Node) (st : NState) (pre rest : List Node) (fuel : Nat)
    (hp : st.path = pre ++ run ++ rest) (hi : st.i + 1 = pre.length)
    (hcand : ∀ n ∈ run, ∃ ct, catOfRange cat n.b n.e = some ct ∧
      isCand st.comma st.period ct (normForm n) = true)
    (hacc : ∀ k, k < run.length →
      ¬ (P ((if st.beginIdx < 0 then [] else st.acc) ++ accOf (run.take (k + 1)))).n <
        ((if st.beginIdx < 0 then [] else st.acc) ++ accOf (run.take (k + 1))).length) :
    nloop v cfg cat P (fuel + run.length) st = nloop v cfg cat P fuel (runState st run) := by
  cases run with
  | nil => rfl
  | cons node run =>
    obtain ⟨ct, hct, hcd⟩ := hcand node (List.mem_cons_self ..)
    have hn : st.path[(st.i + 1).toNat]? = some node := by
      rw [hp, hi]
      simp
    have hg : st.i < (st.path.length : Int) - 1 := by
      rw [hp]
      simp only [List.length_append, List.length_cons]
      omega
    have ha0 := hacc 0 (by simp)
    simp only [List.take_succ_cons, List.take_zero, accOf_cons, accOf_nil, List.append_nil] at ha0
    have hstep := nstep_accept v cfg cat P st node ct (by omega) hn hct hcd ha0
    rw [show fuel + (node :: run).length = (fuel + run.length) + 1 by simp; omega]
    rw [nloop_succ_of_step v cfg cat P _ st _ hg hstep]
    rw [nloop_run_open v cfg cat P run { st with i := st.i + 1, beginIdx := (if st.beginIdx < 0 then st.i + 1 else st.beginIdx), acc := (if st.beginIdx < 0 then [] else st.acc) ++ normForm node } (pre ++ [node]) rest fuel
      (by show 0 ≤ (if st.beginIdx < 0 then st.i + 1 else st.beginIdx); split <;> omega)
      (by simp [hp]) (by simp; omega)
      (fun n hn => hcand n (List.mem_cons_of_mem _ hn))
      (fun k hk => by
        have := hacc (k + 1) (by simp; omega)
        simpa [accOf_cons, List.append_assoc] using this)]
    congr 1
    simp only [runState, NState.mk.injEq, accOf_cons, List.length_cons, List.append_assoc, and_true,
      true_and]
    omega

/-- **(B)** specialised to a run at the start of the path, fresh state -/
theorem nloop_run_init (v : NVariant) (cfg : NCfg) (cat : List Nat) (P : List Char → POut)
    (node : Node) (run rest : List Node) (fuel : Nat)
    (hcand : ∀ n ∈ node :: run, ∃ ct, catOfRange cat n.b n.e = some ct ∧
      isCand true true ct (normForm n) = true)
    (hacc : ∀ k, k < (node :: run).length →
      ¬ (P (accOf ((node :: run).take (k + 1)))).n < (accOf ((node :: run).take (k + 1))).length) :
    nloop v cfg cat P (fuel + (node :: run).length) (nInit (node :: run ++ rest)) =
      nloop v cfg cat P fuel { path := node :: run ++ rest, i := run.length, beginIdx := 0, comma := true, period := true, acc := accOf (node :: run) } := by
  rw [nloop_run v cfg cat P (node :: run) (nInit (node :: run ++ rest)) [] rest fuel (by simp [nInit])
    (by simp [nInit]) hcand (by simpa [nInit] using hacc)]
  congr 1
  simp only [runState, nInit, NState.mk.injEq, List.length_cons, true_and]
  refine ⟨by omega, by simp, by simp⟩

/-! ## (C) closing a run that ends in a separator -/

/-- the state `fin(path, i)` of the non-candidate branch of `nstep`; `s` = normalised form of the
non-candidate node -/
def finState (st : NState) (s : List Char) (path : List Node) (i : Int) : NState :=
  { path := path, i := i, beginIdx := -1, comma := (if !st.comma && (if utf8Len s == 1 then s.head? else none) != some ',' then true else st.comma), period := (if !st.period && (if utf8Len s == 1 then s.head? else none) != some '.' then true else st.period), acc := st.acc }

theorem finState_path (st : NState) (s : List Char) (path : List Node) (i : Int) :
    (finState st s path i).path = path := rfl

/-- **(C)** closing step: open run, the next node `m` is not a candidate, the parser is not `done()`,
the previous node is the separator that matches the pending error: `concat` is called on the run
WITHOUT the trailing separator, and the loop resumes at `beginIdx + 2`. -/
theorem nstep_close_sep (v : NVariant) (cfg : NCfg) (cat : List Nat) (P : List Char → POut) (st : NState)
    (m prev : Node) (ct : Nat) (hi : 0 ≤ st.i) (hb : 0 ≤ st.beginIdx)
    (hm : st.path[(st.i + 1).toNat]? = some m) (hc : catOfRange cat m.b m.e = some ct)
    (hcand : isCand st.comma st.period ct (normForm m) = false)
    (hdone : (P st.acc).done = false)
    (hprev : st.path[st.i.toNat]? = some prev)
    (hsep : ((P st.acc).err = E_COMMA ∧ normForm prev = [',']) ∨
      ((P st.acc).err = E_POINT ∧ normForm prev = ['.'])) :
    nstep v cfg cat P st =
      match nconcat cfg P st.path st.beginIdx.toNat st.i.toNat st.acc with
      | .ok p' => .ok (finState st (normForm m) p' (st.beginIdx + 2))
      | .err => .err | .panic => .panic | .fuel => .fuel := by
  have hcond : (((P st.acc).err == E_COMMA && normForm prev == [',']) ||
      ((P st.acc).err == E_POINT && normForm prev == ['.'])) = true := by
    rcases hsep with ⟨h1, h2⟩ | ⟨h1, h2⟩ <;> simp [h1, h2]
  have hidx : (st.i + 1).toNat - 1 = st.i.toNat := by omega
  unfold nstep
  unfold isCand at hcand
  simp only [show ¬ (st.i + 1 < 0) by omega, if_false, hm, hc, hcand, Bool.false_eq_true,
    show st.beginIdx ≥ 0 from hb, if_true, hdone, show ¬ ((st.i + 1).toNat < 1) by omega, hidx, hprev,
    hcond]
  rfl

/-- the gate of `concat` is open for a block of at least two nodes whose head has the numeral part of
speech: the call is `concat_nodes` -/
theorem nconcat_open_block (cfg : NCfg) (P : List Char → POut) (path : List Node) (b e : Nat)
    (acc : List Char) (f : Node) (hf : path[b]? = some f) (hpos : f.pos = cfg.numPos) (h2 : 1 < e - b) :
    ∃ nf, nconcat cfg P path b e acc = concatNodes path b e nf := by
  unfold nconcat
  have hnlt : ¬ e < b := by omega
  simp only [hf, hpos, bne_self_eq_false, Bool.false_eq_true, if_false, show e - b > 1 from h2,
    decide_true, Bool.true_or, if_true, hnlt]
  cases cfg.enableNormalize
  · exact ⟨none, by simp⟩
  · exact ⟨some (P acc).norm, by simp⟩

theorem nFuel_ge (path : List Node) : path.length + 9 ≤ nFuel path := by
  unfold nFuel
  have h := Nat.le_mul_self (path.length + 1)
  rw [Nat.mul_assoc]
  omega

/-- **main theorem**: sufficient condition for "this run of the numeral joiner shortens the path"
(in particular a SECOND run).  The path starts with a run `R ++ [c]` of candidates (`|R| ≥ 2`, the head
has the numeral part of speech) that the parser accepts node by node, `c` is a comma, the parser is
then not `done()` with a pending COMMA error, and the next node `m` is not a candidate. -/
theorem joinNumeric_shrinks (v : NVariant) (cfg : NCfg) (cat : List Nat) (P : List Char → POut)
    (R : List Node) (c m : Node) (rest : List Node) (ct : Nat)
    (hR : 2 ≤ R.length)
    (hpos : ∀ f, R.head? = some f → f.pos = cfg.numPos)
    (hcand : ∀ n ∈ R ++ [c], ∃ ctn, catOfRange cat n.b n.e = some ctn ∧
      isCand true true ctn (normForm n) = true)
    (hc : normForm c = [','])
    (hacc : ∀ k, k < (R ++ [c]).length →
      ¬ (P (accOf ((R ++ [c]).take (k + 1)))).n < (accOf ((R ++ [c]).take (k + 1))).length)
    (hdone : (P (accOf (R ++ [c]))).done = false)
    (herr : (P (accOf (R ++ [c]))).err = E_COMMA)
    (hm : catOfRange cat m.b m.e = some ct)
    (hmc : isCand true true ct (normForm m) = false)
    (q' : List Node)
    (h : joinNumeric v cfg cat P (R ++ c :: m :: rest) = .ok q') :
    q'.length < (R ++ c :: m :: rest).length := by
  cases R with
  | nil => simp at hR
  | cons f R' =>
    have hfpos : f.pos = cfg.numPos := hpos f rfl
    -- the path and the run
    have hq : f :: R' ++ c :: m :: rest = f :: (R' ++ [c]) ++ (m :: rest) := by simp
    have hrun : f :: R' ++ [c] = f :: (R' ++ [c]) := rfl
    rw [hrun] at hcand hacc hdone herr
    -- fuel
    have hfuel := nFuel_ge (f :: R' ++ c :: m :: rest)
    obtain ⟨fuel0, hf0⟩ : ∃ fuel0, nFuel (f :: R' ++ c :: m :: rest) =
        (fuel0 + 1) + (f :: (R' ++ [c])).length := by
      refine ⟨nFuel (f :: R' ++ c :: m :: rest) - (f :: (R' ++ [c])).length - 1, ?_⟩
      simp only [List.length_cons, List.length_append, List.length_nil] at hfuel ⊢
      omega
    unfold joinNumeric at h
    rw [hf0, hq, nloop_run_init v cfg cat P f (R' ++ [c]) (m :: rest) (fuel0 + 1) hcand hacc] at h
    -- the closing step
    have hlen : (R' ++ [c]).length = (f :: R').length := by simp
    have hm' : (f :: (R' ++ [c]) ++ m :: rest)[(((R' ++ [c]).length : Int) + 1).toNat]? = some m := by
      have : (((R' ++ [c]).length : Int) + 1).toNat = (f :: (R' ++ [c])).length := by
        rw [List.length_cons]; omega
      rw [this, List.getElem?_append_right (Nat.le_refl _)]
      simp
    have hprev' : (f :: (R' ++ [c]) ++ m :: rest)[((R' ++ [c]).length : Int).toNat]? = some c := by
      rw [Int.toNat_natCast, hlen, ← hq, List.getElem?_append_right (Nat.le_refl _)]
      simp
    have hstep := nstep_close_sep v cfg cat P
      { path := f :: (R' ++ [c]) ++ (m :: rest), i := (R' ++ [c]).length, beginIdx := 0, comma := true, period := true, acc := accOf (f :: (R' ++ [c])) }
      m c ct (by simp; omega) (by simp) hm' hm hmc hdone hprev' (.inl ⟨herr, hc⟩)
    dsimp only at hstep
    rw [Int.toNat_natCast, Int.toNat_zero] at hstep
    obtain ⟨nf, hnf⟩ := nconcat_open_block cfg P (f :: (R' ++ [c]) ++ (m :: rest)) 0 (R' ++ [c]).length
      (accOf (f :: (R' ++ [c]))) f (by simp) hfpos (by rw [hlen]; simp at hR ⊢; omega)
    rw [hnf] at hstep
    rw [nloop, if_pos (by simp; omega), hstep] at h
    cases hcn : concatNodes (f :: (R' ++ [c]) ++ (m :: rest)) 0 (R' ++ [c]).length nf with
    | ok p' =>
      rw [hcn] at h
      dsimp only at h
      have hco := nloop_coarsens v cfg cat P fuel0 _ q' h
      rw [finState_path] at hco
      have hle := hco.length_le
      obtain ⟨f1, l1, _, hel, _, _, hp'⟩ := concatNodes_ok hcn
      rw [hp'] at hle
      rw [hq]
      simp only [List.take_zero, List.nil_append, List.length_cons, List.length_drop, List.length_append,
        List.length_nil] at hle hel hR ⊢
      omega
    | err => rw [hcn] at h; cases h
    | panic => rw [hcn] at h; cases h
    | fuel => rw [hcn] at h; cases h

/-! ## (A) a token that contains a non-numeric sub-range is not numeric -/

theorem isNumericCat_false_iff (c : Nat) : isNumericCat c = false ↔ c &&& 272 = 0 := by
  unfold isNumericCat
  simp [NUMERIC, KANJINUMERIC]

theorem foldl_and_left (l : List Nat) : ∀ (a x : Nat),
    l.foldl (fun a c => a &&& c) (a &&& x) = a &&& l.foldl (fun a c => a &&& c) x := by
  induction l with
  | nil => intro a x; rfl
  | cons y l ih =>
    intro a x
    simp only [List.foldl_cons]
    rw [Nat.and_assoc, ih]

/-- AND-ing further masks keeps `· &&& k = 0` -/
theorem foldl_and_keeps_zero (k : Nat) (l : List Nat) : ∀ (a : Nat), a &&& k = 0 →
    l.foldl (fun a c => a &&& c) a &&& k = 0 := by
  induction l with
  | nil => intro a h; exact h
  | cons y l ih =>
    intro a h
    simp only [List.foldl_cons]
    apply ih
    rw [Nat.and_assoc, Nat.and_comm y k, ← Nat.and_assoc, h, Nat.zero_and]

theorem foldl_and_all (l : List Nat) :
    l.foldl (fun a c => a &&& c) CAT_ALL = l.foldl (fun a c => a &&& c) CAT_ALL &&& CAT_ALL := by
  have h := foldl_and_left l CAT_ALL CAT_ALL
  rw [Nat.and_self] at h
  rw [Nat.and_comm]
  exact h

/-- the mask of a concatenation has no bit of `k` if the mask of the middle part has none -/
theorem foldl_and_mid_zero (k : Nat) (l1 l2 l3 : List Nat)
    (h : l2.foldl (fun a c => a &&& c) CAT_ALL &&& k = 0) :
    (l1 ++ l2 ++ l3).foldl (fun a c => a &&& c) CAT_ALL &&& k = 0 := by
  rw [List.foldl_append, List.foldl_append]
  apply foldl_and_keeps_zero
  rw [foldl_and_all l1, foldl_and_left, Nat.and_assoc, h, Nat.and_zero]

theorem catOfRange_some_of_lt {cat : List Nat} {b e c : Nat} (hbe : b < e)
    (h : catOfRange cat b e = some c) :
    e ≤ cat.length ∧ c = ((cat.drop b).take (e - b)).foldl (fun a c => a &&& c) CAT_ALL := by
  unfold catOfRange at h
  rw [if_neg (by omega)] at h
  split at h
  · cases h
  · cases h
    exact ⟨by omega, rfl⟩

theorem range_split (cat : List Nat) (b e b' e' : Nat) (h1 : b ≤ b') (h2 : b' ≤ e') (h3 : e' ≤ e) :
    (cat.drop b).take (e - b) =
      (cat.drop b).take (b' - b) ++ (cat.drop b').take (e' - b') ++ (cat.drop e').take (e - e') := by
  have hd1 : (cat.drop b).drop (b' - b) = cat.drop b' := by
    rw [List.drop_drop]; congr 1; omega
  have hd2 : (cat.drop b').drop (e' - b') = cat.drop e' := by
    rw [List.drop_drop]; congr 1; omega
  rw [show e - b = (b' - b) + ((e' - b') + (e - e')) by omega, List.take_add, hd1, List.take_add, hd2,
    List.append_assoc]

/-- **(A)** the class mask of a range is the AND over its characters: if a non-empty sub-range is not
numeric, the range is not numeric -/
theorem catOfRange_sub_not_numeric (cat : List Nat) (b e b' e' : Nat) (c c' : Nat)
    (h1 : b ≤ b') (h2 : b' < e') (h3 : e' ≤ e)
    (hc : catOfRange cat b e = some c) (hc' : catOfRange cat b' e' = some c')
    (hn : isNumericCat c' = false) : isNumericCat c = false := by
  obtain ⟨_, rfl⟩ := catOfRange_some_of_lt (by omega) hc
  obtain ⟨_, rfl⟩ := catOfRange_some_of_lt h2 hc'
  rw [isNumericCat_false_iff] at hn ⊢
  rw [range_split cat b e b' e' h1 (by omega) h3]
  exact foldl_and_mid_zero 272 _ _ _ hn

/-- corollary for the node built by `concat_nodes`: if the block it was built from (any node `n` lying
inside its character range) contains a non-numeric node, e.g. a demoted separator, the merged node is
not numeric, so in a later run it is not a candidate and ENDS a candidate run -/
theorem mergedNode_not_numeric (cat : List Nat) (f l : Node) (blk : List Node) (nf : Option (List Char))
    (n : Node) (c c' : Nat) (h1 : f.b ≤ n.b) (h2 : n.b < n.e) (h3 : n.e ≤ l.e)
    (hc : catOfRange cat (mergedNode f l blk nf).b (mergedNode f l blk nf).e = some c)
    (hc' : catOfRange cat n.b n.e = some c') (hn : isNumericCat c' = false) :
    isNumericCat c = false :=
  catOfRange_sub_not_numeric cat f.b l.e n.b n.e c c' h1 h2 h3 hc hc' hn

/-! ## the instance: second-run input of the F3 witness (`1|,|234|,|5.5`) -/

def wf3o1 : Node :=
  { b := 0, e := 1, bb := 0, eb := 1, wid := 4026531841, tc := 3232, left := 3, right := 0, cost := 3183,
    pos := 1, hwl := 0, dfw := 0, aSplit := [], bSplit := [], wStruct := [], syn := [],
    surface := ['1'], norm := [], reading := [], dform := [] }
def wf3c1 : Node :=
  { wf3o1 with b := 1, e := 2, bb := 1, eb := 2, wid := 4026531843, tc := 7531, left := 2, right := 3, cost := 4269, pos := 3, surface := [','] }
def wf3o234 : Node := { wf3o1 with b := 2, e := 5, bb := 2, eb := 5, tc := 10730, surface := ['2', '3', '4'] }
def wf3c2 : Node := { wf3c1 with b := 5, e := 6, bb := 5, eb := 6, tc := 15029 }
def wf3d5a : Node :=
  { wf3o1 with b := 6, e := 7, bb := 6, eb := 7, wid := 7, tc := 16021, left := 2, right := 3, cost := 973, hwl := 1, dfw := -1, surface := ['5'] }
def wf3pd : Node := { wf3c1 with b := 7, e := 8, bb := 7, eb := 8, tc := 20309, surface := ['.'] }
def wf3d5b : Node := { wf3d5a with b := 8, e := 9, bb := 8, eb := 9, tc := 21301 }
def wf3cat : List Nat := [16, 1, 16, 16, 16, 1, 16, 1, 16]
def wf3P : List Char → POut := fun s =>
  if s = "1".toList then { n := 1, err := 0, done := true, norm := "1".toList }
  else if s = "1,".toList then { n := 2, err := 2, done := false, norm := "1".toList }
  else if s = "1,234".toList then { n := 5, err := 0, done := true, norm := "1234".toList }
  else if s = "1,234,".toList then { n := 6, err := 2, done := false, norm := "1234".toList }
  else if s = "1,234,5".toList then { n := 7, err := 2, done := false, norm := "12345".toList }
  else if s = "1,234,5.".toList then { n := 7, err := 2, done := false, norm := [] }
  else if s = "234".toList then { n := 3, err := 0, done := true, norm := "234".toList }
  else if s = "5".toList then { n := 1, err := 0, done := true, norm := "5".toList }
  else if s = "5.".toList then { n := 2, err := 1, done := false, norm := "5".toList }
  else if s = "5.5".toList then { n := 3, err := 0, done := true, norm := "5.5".toList }
  else { n := 0, err := 99, done := false, norm := ['?'] }
def wf3m55 : Node := mergedNode wf3d5a wf3d5b [wf3d5a, wf3pd, wf3d5b] (some "5.5".toList)

/-- the hypotheses of `joinNumeric_shrinks` hold for the second-run input of the F3 witness -/
theorem f3_second_run_hyps :
    (2 ≤ [wf3o1, wf3c1, wf3o234].length) ∧
    (∀ f, [wf3o1, wf3c1, wf3o234].head? = some f → f.pos = ({ numPos := 1, enableNormalize := true } : NCfg).numPos) ∧
    (∀ n ∈ [wf3o1, wf3c1, wf3o234] ++ [wf3c2], ∃ ctn, catOfRange wf3cat n.b n.e = some ctn ∧
      isCand true true ctn (normForm n) = true) ∧
    normForm wf3c2 = [','] ∧
    (∀ k, k < ([wf3o1, wf3c1, wf3o234] ++ [wf3c2]).length →
      ¬ (wf3P (accOf (([wf3o1, wf3c1, wf3o234] ++ [wf3c2]).take (k + 1)))).n <
        (accOf (([wf3o1, wf3c1, wf3o234] ++ [wf3c2]).take (k + 1))).length) ∧
    (wf3P (accOf ([wf3o1, wf3c1, wf3o234] ++ [wf3c2]))).done = false ∧
    (wf3P (accOf ([wf3o1, wf3c1, wf3o234] ++ [wf3c2]))).err = E_COMMA ∧
    catOfRange wf3cat wf3m55.b wf3m55.e = some 0 ∧
    isCand true true 0 (normForm wf3m55) = false := by
  refine ⟨by decide, ?_, ?_, by decide, ?_, by decide, by decide, by decide, by decide⟩
  · intro f hf
    cases hf
    rfl
  · intro n hn
    simp only [List.cons_append, List.nil_append, List.mem_cons, List.not_mem_nil, or_false] at hn
    rcases hn with rfl | rfl | rfl | rfl
    · exact ⟨16, by decide, by decide⟩
    · exact ⟨1, by decide, by decide⟩
    · exact ⟨16, by decide, by decide⟩
    · exact ⟨1, by decide, by decide⟩
  · intro k hk
    match k, hk with
    | 0, _ => decide
    | 1, _ => decide
    | 2, _ => decide
    | 3, _ => decide

/-- **F3 instance**: a second run of the joiner on `1|,|234|,|5.5` (the output of the first run on
`1|,|234|,|5|.|5`) cannot return the path unchanged: whatever it returns is shorter. -/
theorem f3_second_run_shrinks (v : NVariant) (q' : List Node)
    (h : joinNumeric v { numPos := 1, enableNormalize := true } wf3cat wf3P
      [wf3o1, wf3c1, wf3o234, wf3c2, wf3m55] = .ok q') : q'.length < 5 := by
  obtain ⟨h1, h2, h3, h4, h5, h6, h7, h8, h9⟩ := f3_second_run_hyps
  exact joinNumeric_shrinks v { numPos := 1, enableNormalize := true } wf3cat wf3P
    [wf3o1, wf3c1, wf3o234] wf3c2 wf3m55 [] 0 h1 h2 h3 h4 h5 h6 h7 h8 h9 q' h

theorem f3_second_run_changes (v : NVariant) (q' : List Node)
    (h : joinNumeric v { numPos := 1, enableNormalize := true } wf3cat wf3P
      [wf3o1, wf3c1, wf3o234, wf3c2, wf3m55] = .ok q') : q' ≠ [wf3o1, wf3c1, wf3o234, wf3c2, wf3m55] := by
  intro he
  have := f3_second_run_shrinks v q' h
  rw [he] at this
  simp at this

/-- (A) on the witness: the merged token `5.5` is not numeric because it contains the period `wf3pd` -/
theorem f3_m55_not_numeric (c : Nat) (hc : catOfRange wf3cat wf3m55.b wf3m55.e = some c) :
    isNumericCat c = false :=
  mergedNode_not_numeric wf3cat wf3d5a wf3d5b _ _ wf3pd c 1 (by decide) (by decide) (by decide) hc
    (by decide) (by decide)

end Rewrite
