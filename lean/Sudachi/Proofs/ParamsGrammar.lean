import Sudachi.Proofs.ParamsPos
import Sudachi.Model.ParamsGrammar
import Sudachi.Model.Build
/-!
# C20: what `Grammar::parse` guarantees about the matrix it hands to the range checks
-/
namespace Params
open Outcome

/-- every element is a byte -/
def BytesOk (bs : Codec.Bytes) : Prop := ∀ b ∈ bs, b < 256

theorem leU16_lt {bs r : Codec.Bytes} {n : Nat} (hb : BytesOk bs) (h : Codec.leU16 bs = some (n, r)) :
    n < 65536 ∧ BytesOk r ∧ bs.length = r.length + 2 := by
  match bs, h with
  | a :: b :: r', h =>
    simp only [Codec.leU16, Option.some.injEq, Prod.mk.injEq] at h
    obtain ⟨h1, h2⟩ := h
    subst h1 h2
    have ha := hb a (by simp)
    have hb' := hb b (by simp)
    refine ⟨by omega, fun x hx => hb x (by simp [hx]), by simp⟩

theorem countStr_length : ∀ (n : Nat) {bs r : Codec.Bytes} {ss : List Codec.Str},
    Codec.countStr n bs = some (ss, r) → ss.length = n
  | 0, bs, r, ss, h => by
    simp only [Codec.countStr, Option.some.injEq, Prod.mk.injEq] at h
    rw [← h.1]; rfl
  | n + 1, bs, r, ss, h => by
    simp only [Codec.countStr] at h
    split at h
    · cases h
    · split at h
      · cases h
      · rename_i ss' r' h2
        simp only [Option.some.injEq, Prod.mk.injEq] at h
        rw [← h.1, List.length_cons, countStr_length n h2]

theorem countPos_wf : ∀ (n : Nat) {bs r : Codec.Bytes} {ps : List (List Codec.Str)},
    Codec.countPos n bs = some (ps, r) → ps.length = n ∧ ∀ p ∈ ps, p.length = 6
  | 0, bs, r, ps, h => by
    simp only [Codec.countPos, Option.some.injEq, Prod.mk.injEq] at h
    rw [← h.1]; exact ⟨rfl, fun p hp => by cases hp⟩
  | n + 1, bs, r, ps, h => by
    simp only [Codec.countPos] at h
    split at h
    · cases h
    · rename_i p r1 h1
      split at h
      · cases h
      · rename_i ps' r' h2
        simp only [Option.some.injEq, Prod.mk.injEq] at h
        obtain ⟨ih1, ih2⟩ := countPos_wf n h2
        rw [← h.1]
        refine ⟨by simp [ih1], fun q hq => ?_⟩
        simp only [List.mem_cons] at hq
        rcases hq with hq | hq
        · subst hq; exact countStr_length 6 h1
        · exact ih2 q hq

theorem readI16s_length : ∀ (n : Nat) (bs : Codec.Bytes), 2 * n ≤ bs.length → (readI16s n bs).length = n
  | 0, _, _ => rfl
  | n + 1, [], h => by simp at h
  | n + 1, [_], h => by simp at h; omega
  | n + 1, a :: b :: r, h => by
    simp only [readI16s, List.length_cons]
    rw [readI16s_length n r (by simp only [List.length_cons] at h; omega)]

theorem wmul_ok {dbg : Bool} {a b c : Nat} (h : wmul dbg a b = ok c) :
    (a * b < TWO64 ∧ c = a * b) ∨ (dbg = false ∧ TWO64 ≤ a * b ∧ c = a * b % TWO64) := by
  unfold wmul at h
  split at h
  · injection h with h; exact Or.inl ⟨by assumption, h.symm⟩
  · split at h
    · cases h
    · rename_i h1 h2
      injection h with h
      exact Or.inr ⟨by simpa using h2, by omega, h.symm⟩

theorem wadd_ok {dbg : Bool} {a b c : Nat} (h : wadd dbg a b = ok c) :
    (a + b < TWO64 ∧ c = a + b) ∨ (dbg = false ∧ TWO64 ≤ a + b ∧ c = (a + b) % TWO64) := by
  unfold wadd at h
  split at h
  · injection h with h; exact Or.inl ⟨by assumption, h.symm⟩
  · split at h
    · cases h
    · rename_i h1 h2
      injection h with h
      exact Or.inr ⟨by simpa using h2, by omega, h.symm⟩

/-- everything the successful parse fixes, in one statement -/
structure ParseFacts (g : GParsed) : Prop where
  nl_eq : g.nl = g.rawL
  nr_eq : g.nr = g.rawR
  nl_le : g.nl ≤ 32767
  nr_le : g.nr ≤ 32767
  cells_len : g.cells.length = g.nl * g.nr
  pos_len : g.pos.length ≤ 65535
  pos_wf : ∀ q ∈ g.pos, q.length = 6

/-- A successful `Grammar::parse` fixes the dimensions, the number of cells and the shape of the POS
list — provided the header numbers are not negative, which a debug build enforces by itself (the
products overflow) as soon as the first one is not 0. -/
theorem grammarParse_facts {hdr dbg : Bool} {buf : Codec.Bytes} {offset : Nat} {g : GParsed}
    (hb : BytesOk buf) (h : grammarParse hdr dbg buf offset = ok g)
    (hd : hdr = true ∨ (dbg = true ∧ 0 < g.rawL) ∨ (g.rawL < 32768 ∧ g.rawR < 32768)) : ParseFacts g := by
  unfold grammarParse at h
  split at h
  · cases h
  · split at h
    · cases h
    · rename_i pos r1 hpos
      split at h
      · cases h
      · rename_i hl r2 hhl
        split at h
        · cases h
        · rename_i hr rest hhr
          simp only at h
          split at h
          · cases h
          rename_i hguard
          obtain ⟨t, ht, h⟩ := Outcome.bind_eq_ok.mp h
          obtain ⟨t2, ht2, h⟩ := Outcome.bind_eq_ok.mp h
          obtain ⟨storage, hst, h⟩ := Outcome.bind_eq_ok.mp h
          obtain ⟨size, hsize, h⟩ := Outcome.bind_eq_ok.mp h
          obtain ⟨end_, hend, h⟩ := Outcome.bind_eq_ok.mp h
          split at h
          · cases h
          · obtain ⟨realSize, hrs, h⟩ := Outcome.bind_eq_ok.mp h
            obtain ⟨e2, he2, h⟩ := Outcome.bind_eq_ok.mp h
            split at h
            · cases h
            · rename_i hslice
              split at h
              · cases h
              · rename_i hreal
                injection h with h
                subst h
                simp only at hd ⊢
                -- the POS list
                have hbd : BytesOk (buf.drop offset) := fun x hx => hb x (List.mem_of_mem_drop hx)
                unfold Codec.posListParser at hpos
                split at hpos
                · cases hpos
                · rename_i n rest0 hn
                  obtain ⟨hn16, _, _⟩ := leU16_lt hbd hn
                  obtain ⟨hplen, hpwf⟩ := countPos_wf n hpos
                  -- negative header numbers
                  have key : hl < 32768 ∧ hr < 32768 := by
                    rcases hd with hh | ⟨hd, hl0⟩ | hd
                    · subst hh
                      simp only [Bool.true_and, Bool.or_eq_true, decide_eq_true_eq, not_or, Nat.not_le] at hguard
                      exact hguard
                    · subst hd
                      have h1 : 2 * i16AsUsize hl < TWO64 ∧ t = 2 * i16AsUsize hl := by
                        rcases wmul_ok ht with h1 | ⟨h1, _⟩
                        · exact h1
                        · cases h1
                      have h2 : t * i16AsUsize hr < TWO64 := by
                        rcases wmul_ok ht2 with h2 | ⟨h2, _⟩
                        · exact h2.1
                        · cases h2
                      have hl' : hl < 32768 := by
                        have := h1.1
                        unfold i16AsUsize TWO64 at this
                        split at this <;> omega
                      refine ⟨hl', ?_⟩
                      have ht2' : 2 ≤ t := by
                        rw [h1.2]; unfold i16AsUsize; simp only [hl', if_true]; omega
                      have := Nat.mul_le_mul_right (i16AsUsize hr) ht2'
                      cases hlt : decide (hr < 32768) with
                      | true => simpa using hlt
                      | false =>
                        exfalso
                        have hge : ¬ hr < 32768 := of_decide_eq_false hlt
                        have eR : i16AsUsize hr = hr + (TWO64 - 65536) := by simp [i16AsUsize, hge]
                        generalize i16AsUsize hr = R at this h2 eR
                        generalize t * R = X at this h2
                        unfold TWO64 at h2 eR
                        omega
                    · exact hd
                  obtain ⟨kl, kr⟩ := key
                  have eL : i16AsUsize hl = hl := by simp [i16AsUsize, kl]
                  have eR : i16AsUsize hr = hr := by simp [i16AsUsize, kr]
                  rw [eL, eR] at hsize
                  have hprod : hl * hr ≤ 32767 * 32767 := Nat.mul_le_mul (by omega) (by omega)
                  have hsz : size = hl * hr := by
                    rcases wmul_ok hsize with h1 | ⟨_, h1, _⟩
                    · exact h1.2
                    · unfold TWO64 at h1; omega
                  have hreal' : realSize = 2 * size := by simpa using hreal
                  have he : e2 = (buf.length - rest.length) + realSize := by
                    rcases wadd_ok he2 with h1 | ⟨_, h1, h2⟩
                    · exact h1.2
                    · exfalso
                      simp only [Bool.or_eq_true, decide_eq_true_eq, not_or, Nat.not_lt] at hslice
                      unfold TWO64 at h1 h2
                      omega
                  simp only [Bool.or_eq_true, decide_eq_true_eq, not_or, Nat.not_lt] at hslice
                  refine ⟨eL, eR, by simp only [eL]; omega, by simp only [eR]; omega, ?_, by show pos.length ≤ 65535; omega, hpwf⟩
                  simp only [eL, eR]
                  rw [readI16s_length]
                  · exact hsz
                  · rw [List.length_drop]; omega

/-! ## the repaired reader never panics -/

theorem wmul_small {dbg : Bool} {a b : Nat} (h : a * b < TWO64) : wmul dbg a b = ok (a * b) := by
  simp [wmul, h]

theorem wadd_small {dbg : Bool} {a b : Nat} (h : a + b < TWO64) : wadd dbg a b = ok (a + b) := by
  simp [wadd, h]

/-- with `fix_grammar_header.patch` `Grammar::parse` returns a grammar or an error value for EVERY buffer
(shorter than 2^62 bytes) and every offset, in both builds -/
theorem grammarParse_repaired_safe (dbg : Bool) (buf : Codec.Bytes) (offset : Nat)
    (hlen : buf.length < 4611686018427387904) : (grammarParse true dbg buf offset).isSafe = true := by
  unfold grammarParse
  split
  · rfl
  · split
    · rfl
    · split
      · rfl
      · split
        · rfl
        · rename_i _ hl r2 _ _ hr rest _
          simp only [Bool.true_and]
          split
          · rfl
          · rename_i hguard
            simp only [Bool.or_eq_true, decide_eq_true_eq, not_or, Nat.not_le] at hguard
            obtain ⟨kl, kr⟩ := hguard
            have eL : i16AsUsize hl = hl := by simp [i16AsUsize, kl]
            have eR : i16AsUsize hr = hr := by simp [i16AsUsize, kr]
            have hp : hl * hr ≤ 32767 * 32767 := Nat.mul_le_mul (by omega) (by omega)
            have hp2 : 2 * hl * hr ≤ 65534 * 32767 := Nat.mul_le_mul (by omega) (by omega)
            rw [eL, eR]
            rw [wmul_small (a := 2) (b := hl) (by unfold TWO64; omega)]
            simp only [Outcome.bind]
            rw [wmul_small (a := 2 * hl) (b := hr) (by unfold TWO64; omega)]
            simp only [Outcome.bind]
            rw [wadd_small (by unfold TWO64; omega)]
            simp only [Outcome.bind]
            rw [wmul_small (a := hl) (b := hr) (by unfold TWO64; omega)]
            simp only [Outcome.bind, if_true]
            rw [wmul_small (a := hl * hr) (b := 2) (by unfold TWO64; omega)]
            simp only [Outcome.bind]
            rw [wadd_small (by unfold TWO64; omega)]
            simp only [Outcome.bind]
            split
            · rfl
            · rename_i hend
              split
              · rename_i hc
                exfalso
                simp only [Bool.or_eq_true, decide_eq_true_eq] at hc
                omega
              · split
                · rename_i hne
                  exfalso
                  simp at hne
                  omega
                · rfl

end Params

/-! ## the writer's side: `ConnBuffer::read` (C06's model, `Model/Build.lean`) never accepts a negative size -/

namespace BuildSide
open Build

theorem parseI16_range {s : Str} {x : Int} (h : parseI16 s = some x) : -32768 ≤ x ∧ x ≤ 32767 := by
  unfold parseI16 at h
  split at h
  · split at h
    · split at h
      · injection h with h; omega
      · cases h
    · cases h
  · split at h
    · split at h
      · injection h with h; omega
      · cases h
    · cases h
  · split at h
    · split at h
      · injection h with h; omega
      · cases h
    · cases h

theorem parseHeader_range {line : Str} {l r : Int} (h : parseHeader line = .ok (l, r)) :
    -32768 ≤ l ∧ l ≤ 32767 ∧ -32768 ≤ r ∧ r ≤ 32767 := by
  unfold parseHeader at h
  split at h
  · cases h
  · split at h <;> cases h
  · split at h
    · cases h
    · rename_i l' hl
      split at h
      · cases h
      · rename_i r' hr
        injection h with h
        simp only [Prod.mk.injEq] at h
        obtain ⟨e1, e2⟩ := h
        subst e1 e2
        unfold eI16 at hl hr
        split at hl
        · rename_i v1 h1
          split at hr
          · rename_i v2 h2
            injection hl with hl
            injection hr with hr
            subst hl hr
            have a := parseI16_range h1
            have b := parseI16_range h2
            omega
          · cases hr
        · cases hl

/-- a matrix text the builder reads successfully declares sizes in `0 … 32767` -/
theorem readConn_sizes {v : Variant} {buf buf' : ConnBuf} {lines : List (Option Str)}
    (h : readConn v buf lines = (buf', .ok ())) :
    0 ≤ buf'.conn.nl ∧ buf'.conn.nl ≤ 32767 ∧ 0 ≤ buf'.conn.nr ∧ buf'.conn.nr ≤ 32767 := by
  unfold readConn at h
  split at h
  · simp only [Prod.mk.injEq] at h; cases h.2
  · simp only [Prod.mk.injEq] at h; cases h.2
  · split at h
    · simp only [Prod.mk.injEq] at h; cases h.2
    · rename_i l r hh
      have hr := parseHeader_range hh
      split at h
      · simp only [Prod.mk.injEq] at h; cases h.2
      · split at h
        · simp only [Prod.mk.injEq] at h; cases h.2
        · split at h
          simp only [Prod.mk.injEq] at h
          obtain ⟨e, _⟩ := h
          subst e
          simp only
          omega

end BuildSide
