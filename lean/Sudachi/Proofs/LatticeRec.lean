import Sudachi.Model.LatticeRec
import Sudachi.Proofs.Lattice
/-!
# The recycled lattice refines the functional lattice (C02, second round)

`Sim s rows pr len`: on the valid rows `e ≤ len` the three row vectors of the state `s` are the images of the
functional rows `rows` (`Model/Lattice.lean`) and of the functional back-pointer rows `pr` (`buildP`: the
pointer `connect_node` returns when the node is inserted).  `reset` establishes it from ANY state, `insertS`
preserves it; `PInv` says the stored pointer of every node is `argmin` over the FINISHED rows, which is what
`Vit.pathFrom` recomputes — hence the walk over the stored `indices` is `Vit.bestPath`.
-/
namespace Vit

variable (conn : Nat → Nat → Int)

/-! ### rows of vectors -/

theorem pushAt_spec {α : Type} : ∀ (l : List (List α)) (k : Nat) (a : α) (row : List α), l[k]? = some row →
    ∃ l', pushAt l k a = some l' ∧ l'.length = l.length ∧ l'[k]? = some (row ++ [a]) ∧
      ∀ j, j ≠ k → l'[j]? = l[j]? := by
  intro l
  induction l with
  | nil => intro k a row h; simp at h
  | cons x xs ih =>
    intro k a row h
    cases k with
    | zero =>
      simp only [List.getElem?_cons_zero, Option.some.injEq] at h
      subst h
      refine ⟨(x ++ [a]) :: xs, rfl, rfl, rfl, ?_⟩
      intro j hj
      cases j with
      | zero => exact absurd rfl hj
      | succ j => rfl
    | succ k =>
      simp only [List.getElem?_cons_succ] at h
      obtain ⟨l', h1, h2, h3, h4⟩ := ih k a row h
      refine ⟨x :: l', by simp [pushAt, h1], by simp [h2], by simpa using h3, ?_⟩
      intro j hj
      cases j with
      | zero => rfl
      | succ j => simpa using h4 j (by omega)

theorem resetVec_eq {α : Type} (data : List (List α)) (target : Nat) :
    resetVec data target = data.map (fun _ => ([] : List α)) ++ List.replicate (target - data.length) [] := by
  unfold resetVec resetVecK
  simp only [List.take_length, List.drop_length, List.append_nil, List.length_map]
  split
  · rfl
  · have h0 : target - data.length = 0 := by omega
    rw [h0]; simp

/-- after `reset_vec` EVERY allocated row is empty … -/
theorem resetVec_nil {α : Type} (data : List (List α)) (target : Nat) (e : Nat) (row : List α)
    (h : (resetVec data target)[e]? = some row) : row = [] := by
  have hm : row ∈ resetVec data target := List.mem_of_getElem? h
  rw [resetVec_eq, List.mem_append] at hm
  rcases hm with hm | hm
  · obtain ⟨_, _, rfl⟩ := List.mem_map.mp hm; rfl
  · exact (List.mem_replicate.mp hm).2

/-- … and at least `target` rows are allocated (never fewer than before) -/
theorem resetVec_length {α : Type} (data : List (List α)) (target : Nat) :
    (resetVec data target).length = max data.length target := by
  rw [resetVec_eq]; simp only [List.length_append, List.length_map, List.length_replicate]; omega

theorem resetVec_get {α : Type} (data : List (List α)) (target : Nat) (e : Nat) (h : e < target) :
    (resetVec data target)[e]? = some [] := by
  have hl : e < (resetVec data target).length := by rw [resetVec_length]; omega
  rw [List.getElem?_eq_getElem hl]
  exact congrArg some (resetVec_nil data target e _ (List.getElem?_eq_getElem hl))

/-! ### the simulation -/

/-- `VNode::new(node.right_id(), cost)` -/
def vn (ent : Entry) : VN := ⟨ent.1.r, ent.2⟩

/-- row 0 of `ends` holds the BOS entry in front, `ends_full`/`indices` do not -/
def off (e : Nat) : Nat := if e = 0 then 1 else 0

abbrev PRows := Nat → List Idx

/-- `prev_idx` of `connect_node`: `NodeIdx::new(begin, i)` of the first minimum, `NodeIdx::empty()` if none -/
def ptrOf (b : Nat) : Option (Nat × Int) → Idx
  | none => idxEmpty
  | some (j, _) => (b, j)

/-- the back-pointer rows, functionally: what `insert` pushes onto `indices[end]` -/
def insertP (rows : Rows) (pr : PRows) (n : Node) : PRows :=
  fun e => if e = n.e then pr e ++ [ptrOf n.b (argmin conn (rows n.b) n)] else pr e

def buildP : List Node → Rows → PRows → PRows
  | [], _, pr => pr
  | n :: ns, rows, pr => buildP ns (insert conn rows n) (insertP conn rows pr n)

def initP : PRows := fun _ => []

structure Sim (s : Lat) (rows : Rows) (pr : PRows) (len : Nat) : Prop where
  size : s.size = len + 1
  ends : ∀ e, e ≤ len → s.ends[e]? = some ((rows e).map vn)
  full : ∀ e, e ≤ len → s.full[e]? = some (((rows e).map (·.1)).drop (off e))
  idx : ∀ e, e ≤ len → s.idx[e]? = some (pr e)
  lens : ∀ e, e ≤ len → (pr e).length + off e = (rows e).length
  /-- rows past `size` that are allocated are empty -/
  clean : ∀ e, len < e → (∀ row, s.ends[e]? = some row → row = []) ∧ (∀ row, s.full[e]? = some row → row = []) ∧
    (∀ row, s.idx[e]? = some row → row = [])

/-- `reset` from ANY state: never panics, and the result simulates the empty functional lattice -/
theorem reset_sim (s : Lat) (len : Nat) :
    ∃ s', reset s len = some s' ∧ Sim s' init initP len ∧ s'.eos = none ∧
      s'.ends.length = max s.ends.length (len + 1) ∧ s'.full.length = max s.full.length (len + 1) ∧
      s'.idx.length = max s.idx.length (len + 1) := by
  obtain ⟨e', h1, h2, h3, h4⟩ := pushAt_spec (resetVec s.ends (len + 1)) 0 (⟨0, some 0⟩ : VN) []
    (resetVec_get s.ends (len + 1) 0 (by omega))
  refine ⟨{ ends := e', full := resetVec s.full (len + 1), idx := resetVec s.idx (len + 1), eos := none,
            size := len + 1 }, by simp [reset, connectBos, h1], ?_, rfl, ?_, ?_, ?_⟩
  · refine ⟨rfl, ?_, ?_, ?_, ?_, ?_⟩
    · intro e he
      by_cases h0 : e = 0
      · subst h0; simp only [h3]; simp [init, vn, bos]
      · simp only [h4 e h0, resetVec_get s.ends (len + 1) e (by omega), init, h0, if_false, List.map_nil]
    · intro e he
      simp only [resetVec_get s.full (len + 1) e (by omega)]
      by_cases h0 : e = 0
      · subst h0; simp [init, off]
      · simp [init, h0]
    · intro e he
      simp only [resetVec_get s.idx (len + 1) e (by omega)]; rfl
    · intro e he
      by_cases h0 : e = 0
      · subst h0; simp [init, initP, off]
      · simp [init, initP, off, h0]
    · intro e he
      refine ⟨?_, fun row h => resetVec_nil s.full (len + 1) e row h, fun row h => resetVec_nil s.idx (len + 1) e row h⟩
      intro row h
      simp only at h
      rw [h4 e (by omega)] at h
      exact resetVec_nil s.ends (len + 1) e row h
  · simp only [h2, resetVec_length]
  · simp only [resetVec_length]
  · simp only [resetVec_length]

/-- state of the `connect_node` loop that corresponds to the `argminGo` accumulator -/
def toSt (b : Nat) : Option (Nat × Int) → Idx × Option Int
  | none => (idxEmpty, none)
  | some (j, m) => ((b, j), some m)

theorem connGoS_argminGo (n : Node) : ∀ (row : List Entry) (k : Nat) (best : Option (Nat × Int)),
    connGoS conn n (row.map vn) k (toSt n.b best) = toSt n.b (argminGo conn n row k best) := by
  intro row
  induction row with
  | nil => intro k best; rfl
  | cons ent rest ih =>
    intro k best
    simp only [List.map_cons, connGoS, argminGo, vn]
    cases he : ent.2 with
    | none => simp only []; exact ih (k + 1) best
    | some t =>
      simp only []
      cases best with
      | none => simp only [toSt]; exact ih (k + 1) (some (k, t + conn ent.1.r n.l + n.c))
      | some jm =>
        obtain ⟨j, m⟩ := jm
        simp only [toSt]
        by_cases hlt : t + conn ent.1.r n.l + n.c < m
        · simp only [hlt, if_true]; exact ih (k + 1) (some (k, t + conn ent.1.r n.l + n.c))
        · simp only [hlt, if_false]; exact ih (k + 1) (some (j, m))

theorem toSt_fst (b : Nat) (o : Option (Nat × Int)) : (toSt b o).1 = ptrOf b o := by
  cases o with
  | none => rfl
  | some jm => rfl

theorem toSt_snd (b : Nat) (o : Option (Nat × Int)) : (toSt b o).2 = o.map (·.2) := by
  cases o with
  | none => rfl
  | some jm => rfl

/-- `connect_node` on a simulating state = (`argmin` pointer, `connect` cost) of the functional row -/
theorem connectNodeS_sim {s : Lat} {rows : Rows} {pr : PRows} {len : Nat} (h : Sim s rows pr len) (n : Node)
    (hb : n.b ≤ len) :
    connectNodeS conn s n = some (ptrOf n.b (argmin conn (rows n.b) n), connect conn (rows n.b) n) := by
  unfold connectNodeS
  rw [h.ends n.b hb]
  simp only []
  have := connGoS_argminGo conn n (rows n.b) 0 none
  simp only [toSt] at this
  rw [this]
  congr 1
  rw [← argmin_connect]
  exact Prod.ext (toSt_fst _ _) (toSt_snd _ _)

theorem insert_sim {s : Lat} {rows : Rows} {pr : PRows} {len : Nat} (h : Sim s rows pr len) (n : Node)
    (hb : n.b ≤ len) (he : n.e ≤ len) :
    ∃ s', insertS conn s n = some s' ∧ Sim s' (insert conn rows n) (insertP conn rows pr n) len ∧ s'.eos = s.eos ∧
      s'.ends.length = s.ends.length ∧ s'.full.length = s.full.length ∧ s'.idx.length = s.idx.length := by
  obtain ⟨e', a1, a2, a3, a4⟩ := pushAt_spec s.ends n.e (⟨n.r, connect conn (rows n.b) n⟩ : VN) _ (h.ends n.e he)
  obtain ⟨i', b1, b2, b3, b4⟩ := pushAt_spec s.idx n.e (ptrOf n.b (argmin conn (rows n.b) n)) _ (h.idx n.e he)
  obtain ⟨f', c1, c2, c3, c4⟩ := pushAt_spec s.full n.e n _ (h.full n.e he)
  refine ⟨{ s with ends := e', idx := i', full := f' }, ?_, ?_, rfl, a2, c2, b2⟩
  · simp only [insertS, connectNodeS_sim conn h n hb, a1, b1, c1]
  · refine ⟨h.size, ?_, ?_, ?_, ?_, ?_⟩
    · intro e hle
      by_cases hq : e = n.e
      · subst hq; simp only [a3, insert, if_true, List.map_append, List.map_cons, List.map_nil, vn]
      · simp only [a4 e hq, h.ends e hle, insert, hq, if_false]
    · intro e hle
      by_cases hq : e = n.e
      · subst hq
        simp only [c3, insert, if_true, List.map_append, List.map_cons, List.map_nil]
        have hl := h.lens n.e hle
        rw [List.drop_append_of_le_length (by simp only [List.length_map]; omega)]
      · simp only [c4 e hq, h.full e hle, insert, hq, if_false]
    · intro e hle
      by_cases hq : e = n.e
      · subst hq; simp only [b3, insertP, if_true]
      · simp only [b4 e hq, h.idx e hle, insertP, hq, if_false]
    · intro e hle
      have hl := h.lens e hle
      by_cases hq : e = n.e
      · subst hq; simp only [insertP, insert, if_true, List.length_append, List.length_cons, List.length_nil]; omega
      · simp only [insertP, insert, hq, if_false]; exact hl
    · intro e hlt
      have hq : e ≠ n.e := by omega
      obtain ⟨d1, d2, d3⟩ := h.clean e hlt
      exact ⟨fun row hr => d1 row (by rw [← a4 e hq]; exact hr), fun row hr => d2 row (by rw [← c4 e hq]; exact hr),
        fun row hr => d3 row (by rw [← b4 e hq]; exact hr)⟩

theorem build_sim : ∀ (F : List Node) (s : Lat) (rows : Rows) (pr : PRows) (len : Nat), Sim s rows pr len →
    (∀ n ∈ F, n.b ≤ len ∧ n.e ≤ len) →
    ∃ s', buildS conn F s = some s' ∧ Sim s' (build conn F rows) (buildP conn F rows pr) len ∧ s'.eos = s.eos ∧
      s'.ends.length = s.ends.length ∧ s'.full.length = s.full.length ∧ s'.idx.length = s.idx.length := by
  intro F
  induction F with
  | nil => intro s rows pr len h _; exact ⟨s, rfl, h, rfl, rfl, rfl, rfl⟩
  | cons n ns ih =>
    intro s rows pr len h hF
    obtain ⟨s1, h1, h2, h3, l1, l2, l3⟩ := insert_sim conn h n (hF n (by simp)).1 (hF n (by simp)).2
    obtain ⟨s2, g1, g2, g3, m1, m2, m3⟩ := ih s1 _ _ len h2 (fun x hx => hF x (by simp [hx]))
    exact ⟨s2, by simp only [buildS, h1, g1], g2, by rw [g3, h3], by rw [m1, l1], by rw [m2, l2], by rw [m3, l3]⟩

/-- `connect_eos` on a simulating state -/
theorem connectEosS_sim {s : Lat} {rows : Rows} {pr : PRows} {len : Nat} (h : Sim s rows pr len) :
    connectEosS conn s =
      match eosCost conn rows len with
      | none => some (s, false)
      | some v => some ({ s with eos := some (ptrOf len (argmin conn (rows len) (eosNode len)), v) }, true) := by
  unfold connectEosS
  have hs : s.size - 1 = len := by rw [h.size]; omega
  have hz : ¬ s.size = 0 := by rw [h.size]; omega
  simp only [hz, if_false, hs]
  have := connectNodeS_sim conn h (eosNode len) (by simp [eosNode])
  simp only [eosNode] at this ⊢
  rw [this]
  unfold eosCost
  simp only [eosNode]
  cases connect conn (rows len) ⟨len, len, 0, 0, 0⟩ <;> rfl

/-! ### stored pointers = `argmin` over the finished rows -/

structure PInv (rows : Rows) (pr : PRows) (rest : List Node) : Prop where
  lens : ∀ e, (pr e).length + off e = (rows e).length
  ptr : ∀ e i n t, (rows e)[i + off e]? = some (n, t) →
    (pr e)[i]? = some (ptrOf n.b (argmin conn (rows n.b) n)) ∧ ∀ n' ∈ rest, n'.e ≠ n.b

theorem pinv_init (rest : List Node) : PInv conn init initP rest := by
  constructor
  · intro e
    by_cases h0 : e = 0
    · subst h0; simp [init, initP, off]
    · simp [init, initP, off, h0]
  · intro e i n t h
    by_cases h0 : e = 0
    · subst h0; simp [init, off] at h
    · simp [init, h0] at h

theorem pinv_insert (rows : Rows) (pr : PRows) (n : Node) (rest : List Node) (hbe : n.b < n.e)
    (hord : ∀ m ∈ rest, m.e ≠ n.b) (h : PInv conn rows pr (n :: rest)) :
    PInv conn (insert conn rows n) (insertP conn rows pr n) rest := by
  constructor
  · intro e
    have hl := h.lens e
    by_cases hq : e = n.e
    · subst hq; simp only [insertP, insert, if_true, List.length_append, List.length_cons, List.length_nil]; omega
    · simp only [insertP, insert, hq, if_false]; exact hl
  · intro e i n0 t0 hg
    have old : (rows e)[i + off e]? = some (n0, t0) →
        (insertP conn rows pr n e)[i]? = some (ptrOf n0.b (argmin conn (insert conn rows n n0.b) n0)) ∧
          ∀ n' ∈ rest, n'.e ≠ n0.b := by
      intro ho
      obtain ⟨p1, p2⟩ := h.ptr e i n0 t0 ho
      have hnb : n0.b ≠ n.e := fun hc => p2 n (by simp) hc.symm
      rw [insert_other conn rows n _ hnb]
      refine ⟨?_, fun n' hn' => p2 n' (by simp [hn'])⟩
      by_cases hq : e = n.e
      · simp only [insertP, hq, if_true]
        rw [hq] at p1
        have hi : i < (pr n.e).length := by
          rcases Nat.lt_or_ge i (pr n.e).length with hlt | hge
          · exact hlt
          · rw [List.getElem?_eq_none hge] at p1; cases p1
        rw [List.getElem?_append_left hi]; exact p1
      · simp only [insertP, hq, if_false]; exact p1
    by_cases hq : e = n.e
    · subst hq
      simp only [insert, if_true] at hg
      rw [List.getElem?_append] at hg
      split at hg
      · exact old hg
      · rename_i hge
        have hl := h.lens n.e
        cases hk : i + off n.e - (rows n.e).length with
        | zero =>
          rw [hk] at hg
          simp only [List.getElem?_cons_zero, Option.some.injEq, Prod.mk.injEq] at hg
          obtain ⟨rfl, rfl⟩ := hg
          have hi : i = (pr n.e).length := by omega
          refine ⟨?_, hord⟩
          rw [insert_other conn rows n _ (by omega)]
          simp only [insertP, if_true]
          rw [hi, List.getElem?_append_right (Nat.le_refl _)]
          simp
        | succ k => rw [hk] at hg; simp at hg
    · simp only [insert, hq, if_false] at hg
      exact old hg

theorem pinv_build : ∀ (ns : List Node) (rows : Rows) (pr : PRows), (∀ n ∈ ns, n.b < n.e) → Ordered ns →
    PInv conn rows pr ns → PInv conn (build conn ns rows) (buildP conn ns rows pr) [] := by
  intro ns
  induction ns with
  | nil => intro rows pr _ _ h; exact h
  | cons n ns ih =>
    intro rows pr hwf hord h
    exact ih _ _ (fun x hx => hwf x (by simp [hx])) hord.2
      (pinv_insert conn rows pr n ns (hwf n (by simp)) hord.1 h)

/-! ### the walk over the stored `indices` is `pathFrom` -/

theorem nodesS_append (s : Lat) : ∀ (a b : List Idx) (x y : List (Node × Option Int)),
    nodesS s a = some x → nodesS s b = some y → nodesS s (a ++ b) = some (x ++ y) := by
  intro a
  induction a with
  | nil => intro b x y ha hb; simp only [nodesS, Option.some.injEq] at ha; subst ha; simpa using hb
  | cons id rest ih =>
    intro b x y ha hb
    simp only [nodesS] at ha
    cases hn : nodeS s id with
    | none => rw [hn] at ha; cases ha
    | some v =>
      rw [hn] at ha
      cases hr : nodesS s rest with
      | none => rw [hr] at ha; cases ha
      | some x' =>
        rw [hr] at ha
        simp only [Option.map_some, Option.some.injEq] at ha
        subst ha
        simp only [List.cons_append, nodesS, hn, ih b x' y hr hb, Option.map_some]

/-- `Lattice::node` reads the functional entry (rows above 0: no BOS offset) -/
theorem nodeS_sim {s : Lat} {rows : Rows} {pr : PRows} {len : Nat} (h : Sim s rows pr len) (e i : Nat)
    (he0 : e ≠ 0) (he : e ≤ len) (ent : Entry) (hg : (rows e)[i]? = some ent) :
    nodeS s (e, i) = some ent := by
  unfold nodeS
  simp only [h.full e he, h.ends e he, off, he0, if_false, List.drop_zero, List.getElem?_map, hg, Option.map_some, vn]

/-- facts about the finished functional lattice that the walk needs -/
structure Fin (F : List Node) (rows : Rows) (pr : PRows) : Prop where
  wf : WF F
  sound : ∀ e, ∀ ent ∈ rows e, ent.1.e = e ∧ (ent.1 = bos ∨ ent.1 ∈ F)
  stored : ∀ e, ∀ ent ∈ rows e, ent.1 ≠ bos → ent.2 = connect conn (rows ent.1.b) ent.1
  pinv : PInv conn rows pr []

theorem walkS_pathFrom {s : Lat} {F : List Node} {rows : Rows} {pr : PRows} {len : Nat}
    (hsim : Sim s rows pr len) (hfin : Fin conn F rows pr) :
    ∀ (fuel e i : Nat) (n : Node) (t : Int) (accI : List Idx), n.b < fuel → e ≠ 0 → e ≤ len →
      (rows e)[i]? = some (n, some t) →
      ∃ pre pn, walkS s fuel (e, i) accI = some (pre ++ accI) ∧ nodesS s pre = some pn ∧
        (∀ x ∈ pn, x ∈ rows x.1.e) ∧
        ∀ accN, pathFrom conn rows fuel n accN = pn.map (·.1) ++ accN := by
  intro fuel
  induction fuel with
  | zero => intro e i n t accI h; omega
  | succ fuel ih =>
    intro e i n t accI hfuel he0 he hg
    have hmem : (n, some t) ∈ rows e := List.mem_of_getElem? hg
    obtain ⟨hne, hnF⟩ := hfin.sound e _ hmem
    simp only at hne hnF
    have hnb : n ≠ bos := by intro hc; rw [hc] at hne; exact he0 hne.symm
    have hnF' : n ∈ F := by
      rcases hnF with hc | hc
      · exact absurd hc hnb
      · exact hc
    have hbe := hfin.wf n hnF'
    have hstn : some t = connect conn (rows n.b) n := hfin.stored e _ hmem hnb
    obtain ⟨j, hj⟩ := connect_argmin conn (rows n.b) n t hstn.symm
    obtain ⟨⟨m, tm, hgm, _⟩, _, _⟩ := argmin_some conn (rows n.b) n j t hj
    have hmmem : (m, some tm) ∈ rows n.b := List.mem_of_getElem? hgm
    have hme : m.e = n.b := (hfin.sound n.b _ hmmem).1
    -- the stored pointer of `n`
    have hptr : (pr e)[i]? = some (n.b, j) := by
      have := (hfin.pinv.ptr e i n (some t) (by simpa [off, he0] using hg)).1
      rw [hj] at this; exact this
    have hw : walkS s (fuel + 1) (e, i) accI =
        if n.b ≠ 0 then walkS s fuel (n.b, j) ((n.b, j) :: accI) else some accI := by
      simp only [walkS, hsim.idx e he, hptr]
    have hp : ∀ accN, pathFrom conn rows (fuel + 1) n accN =
        if m.e = 0 then accN else pathFrom conn rows fuel m (m :: accN) := by
      intro accN; simp only [pathFrom, hj, hgm]
    by_cases hz : n.b = 0
    · refine ⟨[], [], ?_, rfl, by simp, ?_⟩
      · rw [hw]; simp [hz]
      · intro accN; rw [hp]; simp [hme, hz]
    · have hmb : m.b < fuel := by
        have hmF := (hfin.sound n.b _ hmmem).2
        simp only at hmF
        rcases hmF with hc | hc
        · rw [hc]; simp only [bos]; omega
        · have := hfin.wf m hc; omega
      obtain ⟨pre, pn, w1, w2, w3, w4⟩ := ih n.b j m tm ((n.b, j) :: accI) hmb hz (by omega) hgm
      refine ⟨pre ++ [(n.b, j)], pn ++ [(m, some tm)], ?_, ?_, ?_, ?_⟩
      · rw [hw]; simp only [hz, ne_eq, not_false_eq_true, if_true, w1, List.append_assoc, List.singleton_append]
      · apply nodesS_append s pre [(n.b, j)] pn [(m, some tm)] w2
        simp only [nodesS, nodeS_sim hsim n.b j hz (by omega) _ hgm, Option.map_some]
      · intro x hx
        rcases List.mem_append.mp hx with hx | hx
        · exact w3 x hx
        · simp only [List.mem_singleton] at hx; subst hx; simp only [hme]; exact hmmem
      · intro accN
        rw [hp]
        simp only [hme, hz, if_false, w4, List.map_append, List.map_cons, List.map_nil, List.append_assoc,
          List.singleton_append]


/-! ### the whole analysis on a recycled state -/

theorem fin_build (F : List Node) (hwf : WF F) (hord : Ordered F) :
    Fin conn F (build conn F init) (buildP conn F init initP) := by
  obtain ⟨done', hinv, _⟩ := build_inv conn F hwf hord
  exact ⟨hwf, fun e ent he => ⟨(hinv.sound e ent he).1, (hinv.sound e ent he).2.1⟩, stored_total conn F hwf hord,
    pinv_build conn F init initP hwf hord (pinv_init conn F)⟩

/-- `reset`, the inserts and `connect_eos` on ANY previous state: no panic, the valid rows simulate the
functional lattice built from scratch, and the outcome is the functional `eosCost` -/
theorem analyse_spec (s : Lat) (len : Nat) (F : List Node) (hF : ∀ n ∈ F, n.b ≤ len ∧ n.e ≤ len) :
    ∃ s1 s2, reset s len = some s1 ∧ buildS conn F s1 = some s2 ∧
      Sim s2 (build conn F init) (buildP conn F init initP) len ∧ s2.eos = none ∧
      s2.ends.length = max s.ends.length (len + 1) ∧ s2.full.length = max s.full.length (len + 1) ∧
      s2.idx.length = max s.idx.length (len + 1) ∧
      analyse conn s len F =
        match eosCost conn (build conn F init) len with
        | none => some (s2, false)
        | some v => some ({ s2 with eos := some (ptrOf len (argmin conn (build conn F init len) (eosNode len)), v) }, true) := by
  obtain ⟨s1, r1, r2, r3, r4, r5, r6⟩ := reset_sim s len
  obtain ⟨s2, b1, b2, b3, b4, b5, b6⟩ := build_sim conn F s1 init initP len r2 hF
  refine ⟨s1, s2, r1, b1, b2, by rw [b3, r3], by rw [b4, r4], by rw [b5, r5], by rw [b6, r6], ?_⟩
  simp only [analyse, r1, b1]
  exact connectEosS_sim conn b2

/-- `resolve_best_path` on the state `connect_eos` leaves: the walk over the STORED back-pointers terminates
within `size` steps without leaving the vectors and returns the nodes of `bestPath` (the `argmin` walk of the
functional model), each with the total stored for it -/
theorem resolve_spec {s : Lat} {F : List Node} {rows : Rows} {pr : PRows} {len : Nat}
    (hsim : Sim s rows pr len) (hfin : Fin conn F rows pr) (hlen : 0 < len) (v : Int)
    (hv : eosCost conn rows len = some v) :
    ∃ p, resolvePath { s with eos := some (ptrOf len (argmin conn (rows len) (eosNode len)), v) } = some p ∧
      p.map (·.1) = bestPath conn rows len ∧ ∀ x ∈ p, x ∈ rows x.1.e := by
  obtain ⟨j, hj⟩ := connect_argmin conn (rows len) (eosNode len) v hv
  obtain ⟨s3, hs3⟩ : ∃ s3 : Lat, s3 = { s with eos := some (ptrOf len (argmin conn (rows len) (eosNode len)), v) } :=
    ⟨_, rfl⟩
  rw [← hs3]
  have heos : s3.eos = some ((len, j), v) := by rw [hs3, hj]; rfl
  have hsize : s3.size = len + 1 := by rw [hs3]; exact hsim.size
  have hsim' : Sim s3 rows pr len := by
    rw [hs3]; exact ⟨hsim.size, hsim.ends, hsim.full, hsim.idx, hsim.lens, hsim.clean⟩
  clear hs3
  obtain ⟨⟨m, tm, hgm, _⟩, _, _⟩ := argmin_some conn (rows len) (eosNode len) j v hj
  have hmmem : (m, some tm) ∈ rows len := List.mem_of_getElem? hgm
  obtain ⟨hme, hmF⟩ := hfin.sound len _ hmmem
  simp only at hme hmF
  have hmF' : m ∈ F := by
    rcases hmF with hc | hc
    · rw [hc] at hme; simp only [bos] at hme; omega
    · exact hc
  have hmb := hfin.wf m hmF'
  have hl0 : len ≠ 0 := by omega
  obtain ⟨pre, pn, w1, w2, w3, w4⟩ := walkS_pathFrom conn hsim' hfin (len + 1) len j m tm [(len, j)] (by omega) hl0
    (Nat.le_refl _) hgm
  refine ⟨pn ++ [(m, some tm)], ?_, ?_, ?_⟩
  · unfold resolvePath fillTopPath
    rw [heos]; simp only []
    rw [hsize, w1]; simp only []
    apply nodesS_append _ pre [(len, j)] pn [(m, some tm)] w2
    simp only [nodesS, nodeS_sim hsim' len j hl0 (Nat.le_refl _) _ hgm, Option.map_some]
  · have hb : bestPath conn rows len = pathFrom conn rows len m [m] := by
      have hj' : argmin conn (rows len) ⟨len, len, 0, 0, 0⟩ = some (j, v) := hj
      simp only [bestPath, pathFrom, eosNode, hj', hgm, hme, hl0, if_false]
    rw [hb, ← pathFrom_fuel_succ conn F hfin.wf rows hfin.sound len m [m] (by omega), w4]
    simp
  · intro x hx
    rcases List.mem_append.mp hx with hx | hx
    · exact w3 x hx
    · simp only [List.mem_singleton] at hx; subst hx; simp only [hme]; exact hmmem

end Vit
