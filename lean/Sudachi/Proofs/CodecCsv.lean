import Sudachi.Model.CodecCsv
import Sudachi.Model.CodecBuild
/-!
# The CSV reader configured by `LexiconReader::read_bytes` (C05): the record-level contract

`csvRecords` (`Model/CodecCsv.lean`) is the reader.  Here: the RFC 4180 writer (`csvRender`: every field in
quotes, `"` doubled, `,` between fields, `\n` / `\r\n` / `\r` after every record) and the lemmas that carry the
reader through one written record, whatever the fields contain (`#`, quotes, commas, line breaks, U+FEFF).
-/
namespace Codec

/-- body of a quoted field: every `"` doubled -/
def csvEsc (f : Str) : Str := f.flatMap (fun c => if c = 34 then [34, 34] else [c])

/-- a field as RFC 4180 writes it in quotes -/
def csvQuoted (f : Str) : Str := 34 :: (csvEsc f ++ [34])

inductive CsvTerm where | lf | crlf | cr
deriving Repr, DecidableEq

def CsvTerm.str : CsvTerm → Str
  | .lf => [10] | .crlf => [13, 10] | .cr => [13]

/-- the reader state after a terminator -/
def CsvTerm.st : CsvTerm → CsvSt
  | .cr => .crlf | _ => .startRecord

/-- one record: quoted fields separated by commas -/
def csvRenderRec : List Str → Str
  | [] => []
  | f :: fs => csvQuoted f ++ fs.flatMap (fun g => 44 :: csvQuoted g)

/-- a file: every record followed by its terminator -/
def csvRender (rs : List (List Str × CsvTerm)) : Str :=
  rs.flatMap (fun r => csvRenderRec r.1 ++ r.2.str)

/-- inside quotes everything but `"` is text; `""` is one `"` -/
theorem csv_quoted_body (f : Str) (x : Str) (F : List Str) (R : List (List Str)) :
    (csvEsc f).foldl csvStep { st := .inQuoted, cur := x, fields := F, recs := R }
      = { st := .inQuoted, cur := f.reverse ++ x, fields := F, recs := R } := by
  induction f generalizing x with
  | nil => rfl
  | cons c cs ih =>
    by_cases hc : c = 34
    · subst hc
      have : csvEsc (34 :: cs) = 34 :: 34 :: csvEsc cs := by simp [csvEsc]
      rw [this, List.foldl_cons, List.foldl_cons]
      simp only [csvStep, if_true]
      rw [ih]; simp
    · have : csvEsc (c :: cs) = c :: csvEsc cs := by simp [csvEsc, hc]
      rw [this, List.foldl_cons]
      simp only [csvStep, hc, if_false]
      rw [ih]; simp

/-- the terminator after a closing quote completes the record -/
theorem csv_term_after_quote (t : CsvTerm) (x : Str) (F : List Str) (R : List (List Str)) :
    t.str.foldl csvStep { st := .inDq, cur := x, fields := F, recs := R }
      = { st := t.st, cur := [], fields := [], recs := (F.reverse ++ [x.reverse]) :: R } := by
  cases t <;> simp [CsvTerm.str, CsvTerm.st, csvStep, csvIsTerm, csvEndRecord]

/-- the remaining fields of a record and its terminator, from the closing quote of a field -/
theorem csv_rest_of_record (fs : List Str) (t : CsvTerm) (x : Str) (F : List Str) (R : List (List Str)) :
    (fs.flatMap (fun g => 44 :: csvQuoted g) ++ t.str).foldl csvStep { st := .inDq, cur := x, fields := F, recs := R }
      = { st := t.st, cur := [], fields := [], recs := (F.reverse ++ x.reverse :: fs) :: R } := by
  induction fs generalizing x F with
  | nil => simpa using csv_term_after_quote t x F R
  | cons g gs ih =>
    have : ((g :: gs).flatMap (fun g => 44 :: csvQuoted g) ++ t.str)
        = 44 :: 34 :: (csvEsc g ++ (34 :: (gs.flatMap (fun g => 44 :: csvQuoted g) ++ t.str))) := by
      simp [csvQuoted]
    rw [this, List.foldl_cons, List.foldl_cons, List.foldl_append]
    have s1 : csvStep { st := .inDq, cur := x, fields := F, recs := R } 44
        = { st := .startField, cur := [], fields := x.reverse :: F, recs := R } := by
      simp [csvStep, csvEndField]
    have s2 : csvStep { st := .startField, cur := [], fields := x.reverse :: F, recs := R } 34
        = { st := .inQuoted, cur := [], fields := x.reverse :: F, recs := R } := by
      simp [csvStep, csvFieldStart]
    rw [s1, s2, csv_quoted_body, List.foldl_cons]
    have s3 : csvStep { st := .inQuoted, cur := g.reverse ++ [], fields := x.reverse :: F, recs := R } 34
        = { st := .inDq, cur := g.reverse, fields := x.reverse :: F, recs := R } := by
      simp [csvStep]
    rw [s3, ih]
    simp

/-- one written record, read between two records (after `\n`, after `\r\n`, after a bare `\r`, or at the start) -/
theorem csv_one_record (f : Str) (fs : List Str) (t : CsvTerm) (s : CsvSt) (hs : s = .startRecord ∨ s = .crlf)
    (R : List (List Str)) :
    (csvRenderRec (f :: fs) ++ t.str).foldl csvStep { st := s, cur := [], fields := [], recs := R }
      = { st := t.st, cur := [], fields := [], recs := (f :: fs) :: R } := by
  have : csvRenderRec (f :: fs) ++ t.str
      = 34 :: (csvEsc f ++ (34 :: (fs.flatMap (fun g => 44 :: csvQuoted g) ++ t.str))) := by
    simp [csvRenderRec, csvQuoted]
  rw [this, List.foldl_cons, List.foldl_append]
  have s1 : csvStep { st := s, cur := [], fields := [], recs := R } 34
      = { st := .inQuoted, cur := [], fields := [], recs := R } := by
    rcases hs with rfl | rfl <;> simp [csvStep, csvRecordStart, csvFieldStart, csvIsTerm]
  rw [s1, csv_quoted_body, List.foldl_cons]
  have s3 : csvStep { st := .inQuoted, cur := f.reverse ++ [], fields := [], recs := R } 34
      = { st := .inDq, cur := f.reverse, fields := [], recs := R } := by
    simp [csvStep]
  rw [s3, csv_rest_of_record]
  simp

theorem CsvTerm.st_between (t : CsvTerm) : t.st = .startRecord ∨ t.st = .crlf := by
  cases t <;> simp [CsvTerm.st]

/-- a whole written file, read from between two records -/
theorem csv_all_records (rs : List (List Str × CsvTerm)) (hne : ∀ r ∈ rs, r.1 ≠ []) (s : CsvSt)
    (hs : s = .startRecord ∨ s = .crlf) (R : List (List Str)) :
    ∃ s', (s' = .startRecord ∨ s' = .crlf) ∧
      (csvRender rs).foldl csvStep { st := s, cur := [], fields := [], recs := R }
        = { st := s', cur := [], fields := [], recs := (rs.map (·.1)).reverse ++ R } := by
  induction rs generalizing s R with
  | nil => exact ⟨s, hs, by simp [csvRender]⟩
  | cons r rest ih =>
    obtain ⟨fields, t⟩ := r
    have hf : fields ≠ [] := hne (fields, t) (List.mem_cons_self ..)
    obtain ⟨f, fs, rfl⟩ : ∃ f fs, fields = f :: fs := by
      cases fields with
      | nil => exact absurd rfl hf
      | cons f fs => exact ⟨f, fs, rfl⟩
    have : csvRender ((f :: fs, t) :: rest) = (csvRenderRec (f :: fs) ++ t.str) ++ csvRender rest := by
      simp [csvRender]
    rw [this, List.foldl_append, csv_one_record f fs t s hs R]
    obtain ⟨s', hs', h⟩ := ih (fun r hr => hne r (List.mem_cons_of_mem _ hr)) t.st t.st_between ((f :: fs) :: R)
    exact ⟨s', hs', by rw [h]; simp⟩

/-- a written file does not start with a byte order mark (it starts with a quote, or is empty) -/
theorem csvStripBom_render (rs : List (List Str × CsvTerm)) (hne : ∀ r ∈ rs, r.1 ≠ []) :
    csvStripBom (csvRender rs) = csvRender rs := by
  cases rs with
  | nil => rfl
  | cons r rest =>
    obtain ⟨fields, t⟩ := r
    cases fields with
    | nil => exact absurd rfl (hne ([], t) (List.mem_cons_self ..))
    | cons f fs => simp [csvRender, csvRenderRec, csvQuoted, csvStripBom]

/-! ## the dictionary-form column of a user dictionary under the candidate repair `fix_D8b` -/

theorem widWord_of_dic_zero (w : Nat) (h : widDic w = 0) : widWord w = w := by
  unfold widDic at h
  unfold widWord WORD_MASK
  have hlt : w < 268435456 := by
    rw [Nat.shiftRight_eq_div_pow] at h
    have := Nat.div_add_mod w (2 ^ 28)
    have := Nat.mod_lt w (show 2 ^ 28 > 0 by decide)
    simp at h
    omega
  have := Nat.and_two_pow_sub_one_eq_mod w 28
  simp at this
  rw [this]; exact Nat.mod_eq_of_lt hlt

end Codec
