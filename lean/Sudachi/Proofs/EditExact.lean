import Sudachi.Proofs.Edit
/-!
# The image of an unreplaced byte covers the byte (C08, "maps each unreplaced character to itself")

`resolve_edits` is polymorphic in the type of the text elements, so the SAME function can be run on TAGGED bytes
`Nat × Bool`: the original text tagged `false`, every replacement byte tagged `true`.  Erasing the tags gives back the
untagged run the driver executes (`resolve_mapP`, `commitAllV_mapP`).  The tag used is `Option Nat`: `some k` = "byte `k` of
the original text, never written by a replacement", `none` = "written by a replacement".  The invariant proved here is a
chain condition on consecutive map entries: an entry tagged `some k` is followed by an entry with value `≥ k + 1`
(whatever its own value is: `force0` may have set it to 0).
-/
namespace EditM

variable {α β γ : Type}

/-- `R` holds between every two consecutive elements -/
def Chain (R : α → α → Prop) : List α → Prop
  | [] => True
  | [_] => True
  | a :: b :: r => R a b ∧ Chain R (b :: r)

theorem chain_tail {R : α → α → Prop} : ∀ (a : α) (l : List α), Chain R (a :: l) → Chain R l
  | _, [], _ => trivial
  | _, _ :: _, h => h.2

theorem chain_glue {R : α → α → Prop} : ∀ (a : List α) (x : α) (b : List α),
    Chain R (a ++ [x]) → Chain R (x :: b) → Chain R (a ++ x :: b)
  | [], _, _, _, h2 => h2
  | [_], _, _, h1, h2 => ⟨h1.1, h2⟩
  | _ :: z :: a', x, b, h1, h2 => ⟨h1.1, chain_glue (z :: a') x b h1.2 h2⟩

theorem chain_prefix {R : α → α → Prop} : ∀ (a b : List α), Chain R (a ++ b) → Chain R a
  | [], _, _ => trivial
  | [_], _, _ => trivial
  | _ :: z :: a', b, h => ⟨h.1, chain_prefix (z :: a') b h.2⟩

theorem chain_drop {R : α → α → Prop} : ∀ (n : Nat) (l : List α), Chain R l → Chain R (l.drop n)
  | 0, _, h => h
  | _ + 1, [], _ => trivial
  | n + 1, a :: l, h => chain_drop n l (chain_tail a l h)

theorem chain_getElem {R : α → α → Prop} : ∀ (l : List α), Chain R l → ∀ (i : Nat) (h : i + 1 < l.length), R l[i] l[i + 1]
  | [], _, i, h => by simp at h
  | [_], _, i, h => by simp at h
  | a :: b :: r, hc, 0, _ => hc.1
  | a :: b :: r, hc, i + 1, h => by
    have := chain_getElem (b :: r) hc.2 i (by simpa using h)
    simpa using this

/-- an entry NOT written by a replacement (`key = some k`: original byte `k`) is followed by an entry with value `> k` -/
def Rel (mk : β → Option Nat) (p q : P β) : Prop := ∀ b k, p.1 = some b → mk b = some k → k + 1 ≤ q.2

theorem chain_last_mono (mk : β → Option Nat) : ∀ (a : List (P β)) (x y : P β), Chain (Rel mk) (a ++ [x]) → x.2 ≤ y.2 →
    Chain (Rel mk) (a ++ [y])
  | [], _, _, _, _ => trivial
  | [p], x, y, h, hxy => ⟨fun b k hb hm => Nat.le_trans (h.1 b k hb hm) hxy, trivial⟩
  | _ :: z :: a', x, y, h, hxy => ⟨h.1, chain_last_mono mk (z :: a') x y h.2 hxy⟩

def Marked (mk : β → Option Nat) (p : P β) : Prop := ∃ b, p.1 = some b ∧ mk b = none

theorem rel_of_marked (mk : β → Option Nat) (p q : P β) (h : Marked mk p) : Rel mk p q := by
  obtain ⟨b, hb, hm⟩ := h
  intro b' k hb' hm'
  rw [hb] at hb'; cases hb'
  rw [hm] at hm'; cases hm'

theorem chain_marked (mk : β → Option Nat) : ∀ (xs : List (P β)) (y : P β), (∀ p ∈ xs, Marked mk p) →
    Chain (Rel mk) (xs ++ [y])
  | [], _, _ => trivial
  | [p], y, h => ⟨rel_of_marked mk p y (h p (by simp)), trivial⟩
  | p :: q :: r, y, h =>
    ⟨rel_of_marked mk p q (h p (by simp)), chain_marked mk (q :: r) y (fun x hx => h x (by simp [hx]))⟩

theorem marked_repl (mk : β → Option Nat) (l : List (P β)) (ed : Edit β) (hw : ∀ b ∈ ed.w, mk b = none) :
    ∀ p ∈ repl l ed, Marked mk p := by
  intro p hp
  unfold repl at hp
  cases hwd : ed.w with
  | nil => simp [hwd] at hp
  | cons b bs =>
    simp only [hwd, List.mem_cons, List.mem_map] at hp
    rcases hp with rfl | ⟨c, hc, rfl⟩
    · exact ⟨b, rfl, hw b (by simp [hwd])⟩
    · exact ⟨c, rfl, hw c (by simp [hwd, hc])⟩

theorem chain_force0 (mk : β → Option Nat) : ∀ (l : List (P β)), Chain (Rel mk) l → Chain (Rel mk) (force0 l)
  | [], _ => trivial
  | [(_, _)], _ => trivial
  | (x, v) :: q :: r, h => by
    exact ⟨fun b k hb hm => h.1 b k hb hm, h.2⟩

theorem slice_append_drop (l : List α) {a b : Nat} (hab : a ≤ b) : slice l a b ++ l.drop b = l.drop a := by
  unfold slice
  have h1 : l.drop b = (l.drop a).drop (b - a) := by
    rw [List.drop_drop]; congr 1; omega
  rw [h1, List.take_append_drop]

/-- the loop of `resolve_edits` keeps the chain condition: invariant "what has been written, followed by the rest of
the source from `start`, is a chain" -/
theorem go_chain (mk : β → Option Nat) (l : List (P β)) (n : Nat) (hn : n + 1 = l.length) (hm : Mono (snds l))
    (hl : Chain (Rel mk) l) :
    ∀ (es : List (Edit β)) (start : Nat) (acc : List (P β)),
      EditsOk n start es → (∀ ed ∈ es, ∀ b ∈ ed.w, mk b = none) → Chain (Rel mk) (acc ++ l.drop start) →
      Chain (Rel mk) (go l start es acc) := by
  intro es
  induction es with
  | nil => intro start acc _ _ h; simpa [go] using h
  | cons ed es ih =>
    intro start acc hok hw h
    obtain ⟨h1, h2, h3, h4⟩ := hok
    simp only [go]
    apply ih ed.e _ h4 (fun ed' he => hw ed' (by simp [he]))
    have hs : ed.s < l.length := by omega
    have he : ed.e < l.length := by omega
    -- split the rest of the source at the edit
    rw [← slice_append_drop l h1, List.drop_eq_getElem_cons hs, ← List.append_assoc] at h
    have hA : Chain (Rel mk) ((acc ++ slice l start ed.s) ++ [l[ed.s]]) := by
      have := chain_prefix ((acc ++ slice l start ed.s) ++ [l[ed.s]]) (l.drop (ed.s + 1)) (by simpa using h)
      exact this
    have hse : (l[ed.s]).2 ≤ (l[ed.e]).2 := by
      have := mono_valAt hm h2 he
      rwa [valAt_eq l _ hs, valAt_eq l _ he] at this
    have hB : Chain (Rel mk) (((acc ++ slice l start ed.s) ++ repl l ed) ++ [l[ed.e]]) := by
      cases hwd : ed.w with
      | nil =>
        have : repl l ed = [] := by simp [repl, hwd]
        rw [this, List.append_nil]
        exact chain_last_mono mk _ _ _ hA hse
      | cons b bs =>
        have hr : repl l ed = (some b, valAt l ed.s) :: bs.map (fun c => (some c, valAt l ed.e)) := by
          simp [repl, hwd]
        have hmk := marked_repl mk l ed (hw ed (by simp))
        rw [hr] at hmk ⊢
        have h5 : Chain (Rel mk) ((acc ++ slice l start ed.s) ++ [((some b : Option β), valAt l ed.s)]) :=
          chain_last_mono mk _ _ _ hA (by simp [valAt_eq l _ hs])
        have h6 : Chain (Rel mk) ((((some b : Option β), valAt l ed.s) :: bs.map (fun c => (some c, valAt l ed.e))) ++ [l[ed.e]]) :=
          chain_marked mk _ _ hmk
        have := chain_glue _ _ _ h5 h6
        simpa [List.append_assoc] using this
    have hC : Chain (Rel mk) (l[ed.e] :: l.drop (ed.e + 1)) := by
      rw [← List.drop_eq_getElem_cons he]; exact chain_drop _ _ hl
    have := chain_glue _ _ _ hB hC
    rw [List.drop_eq_getElem_cons he]
    simpa [List.append_assoc] using this

/-- one batch keeps the chain condition -/
theorem resolve_chain (mk : β → Option Nat) (l : List (P β)) (n : Nat) (hn : n + 1 = l.length) (hm : Mono (snds l))
    (hl : Chain (Rel mk) l) (es : List (Edit β)) (hok : EditsOk n 0 es) (hw : ∀ ed ∈ es, ∀ b ∈ ed.w, mk b = none) :
    Chain (Rel mk) (resolve l es) :=
  chain_force0 mk _ (go_chain mk l n hn hm hl es 0 [] hok hw (by simpa using hl))

/-! ### any number of batches -/

/-- the range part of `BatchesOk`: every batch is sorted, non-overlapping and inside the text it is applied to -/
def RangesOk : List (P β) → List (List (Edit β)) → Prop
  | _, [] => True
  | l, es :: rest => EditsOk (l.length - 1) 0 es ∧ RangesOk (resolve l es) rest

theorem rangesOk_of_batchesOk (st : β → Bool) : ∀ (bs : List (List (Edit β))) (l : List (P β)),
    BatchesOk st l bs → RangesOk l bs
  | [], _, _ => trivial
  | _ :: rest, l, h => ⟨h.1, rangesOk_of_batchesOk st rest _ h.2.2.2⟩

theorem go_length_pos (l : List (P β)) : ∀ (es : List (Edit β)) (start : Nat) (acc : List (P β)),
    EditsOk (l.length - 1) start es → 1 ≤ l.length → 1 ≤ (go l start es acc).length := by
  intro es
  induction es with
  | nil =>
    intro start acc hok h1
    simp only [EditsOk] at hok
    simp only [go, List.length_append, List.length_drop]; omega
  | cons ed es ih =>
    intro start acc hok h1
    simp only [go]
    exact ih ed.e _ hok.2.2.2 h1

theorem resolve_length_pos (l : List (P β)) (es : List (Edit β)) (hok : EditsOk (l.length - 1) 0 es)
    (h1 : 1 ≤ l.length) : 1 ≤ (resolve l es).length := by
  unfold resolve; rw [force0_length]; exact go_length_pos l es 0 [] hok h1

theorem commitAllV_chain (mk : β → Option Nat) (lv : LenV) : ∀ (bs : List (List (Edit β))) (l l' : List (P β)),
    1 ≤ l.length → valAt l 0 = 0 → Mono (snds l) → Chain (Rel mk) l → RangesOk l bs →
    (∀ es ∈ bs, ∀ ed ∈ es, ∀ b ∈ ed.w, mk b = none) → commitAllV lv l bs = some l' → Chain (Rel mk) l' := by
  intro bs
  induction bs with
  | nil => intro l l' _ _ _ hc _ _ h; simp [commitAllV] at h; subst h; exact hc
  | cons es rest ih =>
    intro l l' h1 h0 hm hc hok hw h
    obtain ⟨a1, a2⟩ := hok
    simp only [commitAllV] at h
    cases hcv : commitV lv l es with
    | none => simp [hcv] at h
    | some l1 =>
      simp only [hcv] at h
      have hne : l ≠ [] := by intro hnil; simp [hnil] at h1
      have := commitV_eq_resolve lv l es l1 h0 hne hcv
      subst this
      have hn : (l.length - 1) + 1 = l.length := by omega
      have hpos := resolve_length_pos l es a1 h1
      refine ih _ l' hpos ?_ (resolve_mono l _ hn hm es a1)
        (resolve_chain mk l _ hn hm hc es a1 (hw es (by simp))) a2 (fun es' he => hw es' (by simp [he])) h
      unfold resolve
      apply valAt_force0_zero
      intro hnil
      have : (resolve l es).length = 0 := by unfold resolve; rw [hnil]; rfl
      omega

/-! ### erasing tags: `resolve_edits` does not look at the text elements -/

def mapP (f : β → γ) (l : List (P β)) : List (P γ) := l.map (fun p => (p.1.map f, p.2))
def mapE (f : β → γ) (ed : Edit β) : Edit γ := ⟨ed.s, ed.e, ed.w.map f⟩

theorem mapP_length (f : β → γ) (l : List (P β)) : (mapP f l).length = l.length := by simp [mapP]

theorem snds_mapP (f : β → γ) (l : List (P β)) : snds (mapP f l) = snds l := by
  simp [snds, mapP, List.map_map, Function.comp_def]

theorem valAt_mapP (f : β → γ) (l : List (P β)) (i : Nat) : valAt (mapP f l) i = valAt l i := by
  unfold valAt mapP
  rw [List.getElem?_map]
  cases l[i]? <;> simp

theorem repl_mapP (f : β → γ) (l : List (P β)) (ed : Edit β) :
    repl (mapP f l) (mapE f ed) = mapP f (repl l ed) := by
  unfold repl mapE
  cases ed.w with
  | nil => simp [mapP]
  | cons b bs => simp [mapP, valAt_mapP, List.map_map, Function.comp_def]; exact ⟨valAt_mapP f l _, fun _ _ => valAt_mapP f l _⟩

theorem slice_mapP (f : β → γ) (l : List (P β)) (a b : Nat) : slice (mapP f l) a b = mapP f (slice l a b) := by
  simp [slice, mapP, List.map_drop, List.map_take]

theorem mapP_append (f : β → γ) (a b : List (P β)) : mapP f (a ++ b) = mapP f a ++ mapP f b := by simp [mapP]

theorem go_mapP (f : β → γ) (l : List (P β)) : ∀ (es : List (Edit β)) (start : Nat) (acc : List (P β)),
    go (mapP f l) start (es.map (mapE f)) (mapP f acc) = mapP f (go l start es acc) := by
  intro es
  induction es with
  | nil => intro start acc; simp [go, mapP, List.map_drop]
  | cons ed es ih =>
    intro start acc
    simp only [go, List.map_cons]
    have hs : (mapE f ed).s = ed.s := rfl
    have he : (mapE f ed).e = ed.e := rfl
    rw [hs, he, slice_mapP, repl_mapP, ← mapP_append, ← mapP_append]
    exact ih ed.e _

theorem force0_mapP (f : β → γ) (l : List (P β)) : force0 (mapP f l) = mapP f (force0 l) := by
  cases l with
  | nil => rfl
  | cons p r => obtain ⟨x, v⟩ := p; simp [force0, mapP]

theorem resolve_mapP (f : β → γ) (l : List (P β)) (es : List (Edit β)) :
    resolve (mapP f l) (es.map (mapE f)) = mapP f (resolve l es) := by
  unfold resolve
  have := go_mapP f l es 0 []
  simp only [mapP, List.map_nil] at this
  rw [show go (mapP f l) 0 (es.map (mapE f)) [] = mapP f (go l 0 es []) from this, force0_mapP]

theorem finalLen_mapE (f : β → γ) : ∀ (es : List (Edit β)) (c : Int), finalLen c (es.map (mapE f)) = finalLen c es := by
  intro es
  induction es with
  | nil => intro c; rfl
  | cons ed es ih => intro c; simp only [List.map_cons, finalLen, mapE, List.length_map]; exact ih _

theorem lenOk_mapE (f : β → γ) (max : Nat) : ∀ (es : List (Edit β)) (c : Int), lenOk max c (es.map (mapE f)) = lenOk max c es := by
  intro es
  induction es with
  | nil => intro c; rfl
  | cons ed es ih =>
    intro c
    simp only [List.map_cons, lenOk, mapE, List.length_map]
    split
    · rfl
    · exact ih _

theorem commitV_mapP (f : β → γ) (lv : LenV) (l : List (P β)) (es : List (Edit β)) :
    commitV lv (mapP f l) (es.map (mapE f)) = (commitV lv l es).map (mapP f) := by
  unfold commitV
  have h1 : (es.map (mapE f)).isEmpty = es.isEmpty := by cases es <;> rfl
  have h2 : lenGuard lv REALLY_MAX_LENGTH (((mapP f l).length : Int) - 1) (es.map (mapE f))
      = lenGuard lv REALLY_MAX_LENGTH ((l.length : Int) - 1) es := by
    rw [mapP_length]
    cases lv
    · exact lenOk_mapE f _ es _
    · simp only [lenGuard, lenOkFinal, finalLen_mapE]
  rw [h1, h2, resolve_mapP]
  split
  · rfl
  · split <;> rfl

theorem commitAllV_mapP (f : β → γ) (lv : LenV) : ∀ (bs : List (List (Edit β))) (l : List (P β)),
    commitAllV lv (mapP f l) (bs.map (fun es => es.map (mapE f))) = (commitAllV lv l bs).map (mapP f) := by
  intro bs
  induction bs with
  | nil => intro l; rfl
  | cons es rest ih =>
    intro l
    simp only [List.map_cons, commitAllV, commitV_mapP]
    cases commitV lv l es with
    | none => rfl
    | some l1 => exact ih l1

theorem editsOk_mapE (f : β → γ) (n : Nat) : ∀ (es : List (Edit β)) (start : Nat),
    EditsOk n start (es.map (mapE f)) ↔ EditsOk n start es := by
  intro es
  induction es with
  | nil => intro start; rfl
  | cons ed es ih => intro start; simp only [List.map_cons, EditsOk, mapE, ih]

theorem rangesOk_mapP (f : β → γ) : ∀ (bs : List (List (Edit β))) (l : List (P β)),
    RangesOk (mapP f l) (bs.map (fun es => es.map (mapE f))) ↔ RangesOk l bs := by
  intro bs
  induction bs with
  | nil => intro l; rfl
  | cons es rest ih =>
    intro l
    simp only [List.map_cons, RangesOk, mapP_length, editsOk_mapE, resolve_mapP, ih]

/-! ### the tagged run of an untagged run -/

/-- the original text with every byte tagged by its own offset ("not written by a replacement") -/
def tagIdentFrom : Nat → List Nat → List (P (Nat × Option Nat))
  | k, [] => [(none, k)]
  | k, b :: bs => (some (b, some k), k) :: tagIdentFrom (k + 1) bs

def tagIdent (o : List Nat) : List (P (Nat × Option Nat)) := tagIdentFrom 0 o

/-- the batches with every replacement byte tagged `none` -/
def tagBatches (bs : List (List (Edit Nat))) : List (List (Edit (Nat × Option Nat))) :=
  bs.map (fun es => es.map (mapE (fun b => (b, none))))

theorem untag_identFrom (o : List Nat) : ∀ k, mapP Prod.fst (tagIdentFrom k o) = identFrom k o := by
  induction o with
  | nil => intro k; rfl
  | cons b bs ih => intro k; simp only [tagIdentFrom, identFrom, mapP, List.map_cons, Option.map_some]; congr 1; exact ih (k + 1)

theorem untag_ident (o : List Nat) : mapP Prod.fst (tagIdent o) = identFrom 0 o := untag_identFrom o 0

theorem untag_batches (bs : List (List (Edit Nat))) :
    (tagBatches bs).map (fun es => es.map (mapE Prod.fst)) = bs := by
  unfold tagBatches
  rw [List.map_map]
  have : ((fun es : List (Edit (Nat × Option Nat)) => es.map (mapE Prod.fst)) ∘ fun es : List (Edit Nat) => es.map (mapE (fun b => (b, (none : Option Nat)))))
      = fun es => es := by
    funext es
    simp only [Function.comp, List.map_map]
    have h2 : (mapE Prod.fst ∘ mapE (fun b : Nat => (b, (none : Option Nat)))) = fun ed => ed := by
      funext ed
      cases ed with
      | mk s e w => simp [mapE, List.map_map, Function.comp_def]
    rw [h2]; simp
  rw [this]; simp

theorem chain_tagIdentFrom (o : List Nat) : ∀ k, Chain (Rel (fun b : Nat × Option Nat => b.2)) (tagIdentFrom k o) ∧
    ∃ x r, tagIdentFrom k o = (x, k) :: r := by
  induction o with
  | nil => intro k; exact ⟨trivial, _, _, rfl⟩
  | cons b bs ih =>
    intro k
    obtain ⟨h1, x, r, h2⟩ := ih (k + 1)
    refine ⟨?_, _, _, rfl⟩
    simp only [tagIdentFrom]
    rw [h2] at h1 ⊢
    refine ⟨?_, h1⟩
    intro b' k' hb hk
    simp only [Option.some.injEq] at hb
    subst hb
    simp only [Option.some.injEq] at hk
    omega

/-- entries of the tagged identity: byte `o[k]` tagged `k` with value `k` -/
theorem mem_tagIdentFrom (o : List Nat) : ∀ (pre : List Nat) (b k v : Nat),
    ((some (b, some k), v) : P (Nat × Option Nat)) ∈ tagIdentFrom pre.length o →
    v = k ∧ ∃ h : k < (pre ++ o).length, b = (pre ++ o)[k] := by
  induction o with
  | nil => intro pre b k v h; simp [tagIdentFrom] at h
  | cons x xs ih =>
    intro pre b k v h
    simp only [tagIdentFrom, List.mem_cons] at h
    rcases h with h | h
    · simp only [Prod.mk.injEq, Option.some.injEq] at h
      obtain ⟨⟨rfl, rfl⟩, rfl⟩ := h
      exact ⟨rfl, by simp, by simp⟩
    · have := ih (pre ++ [x]) b k v (by simpa using h)
      simpa using this

theorem marked_tagBatches (bs : List (List (Edit Nat))) :
    ∀ es ∈ tagBatches bs, ∀ ed ∈ es, ∀ b ∈ ed.w, (fun b : Nat × Option Nat => b.2) b = none := by
  intro es hes ed hed b hb
  unfold tagBatches at hes
  obtain ⟨es0, _, rfl⟩ := List.mem_map.mp hes
  obtain ⟨ed0, _, rfl⟩ := List.mem_map.mp hed
  simp only [mapE, List.mem_map] at hb
  obtain ⟨c, _, rfl⟩ := hb
  rfl

/-! ### where an entry tagged `some k` comes from -/

theorem mem_force0' (a : List (P β)) (p : P β) (h : p ∈ force0 a) : ∃ v, (p.1, v) ∈ a ∧ (p.2 = v ∨ p.2 = 0) := by
  cases a with
  | nil => cases h
  | cons q r =>
    obtain ⟨x, v⟩ := q
    simp only [force0, List.mem_cons] at h
    rcases h with rfl | h
    · exact ⟨v, by simp, Or.inr rfl⟩
    · exact ⟨p.2, by simp [h], Or.inl rfl⟩

/-- one batch: an entry is written by a replacement of the batch, or is an entry of the old map whose value is kept or
forced to 0 -/
theorem resolve_mem' (l : List (P β)) (es : List (Edit β)) (p : P β) (h : p ∈ resolve l es) :
    (∃ ed ∈ es, ∃ v, (p.1, v) ∈ repl l ed) ∨ ∃ v, (p.1, v) ∈ l ∧ (p.2 = v ∨ p.2 = 0) := by
  obtain ⟨v, hv, hpv⟩ := mem_force0' _ p h
  rcases go_mem l es 0 [] _ hv with h1 | h1 | ⟨ed, he, h1⟩
  · cases h1
  · exact Or.inr ⟨v, h1, hpv⟩
  · exact Or.inl ⟨ed, he, v, h1⟩

theorem commitAllV_key_mem (mk : β → Option Nat) (lv : LenV) : ∀ (bs : List (List (Edit β))) (l l' : List (P β)),
    l ≠ [] → valAt l 0 = 0 → RangesOk l bs →
    (∀ es ∈ bs, ∀ ed ∈ es, ∀ b ∈ ed.w, mk b = none) → commitAllV lv l bs = some l' →
    ∀ p ∈ l', ∀ b k, p.1 = some b → mk b = some k → ∃ v, (p.1, v) ∈ l ∧ (p.2 = v ∨ p.2 = 0) := by
  intro bs
  induction bs with
  | nil =>
    intro l l' _ _ _ _ h p hp b k _ _
    simp [commitAllV] at h; subst h
    exact ⟨p.2, hp, Or.inl rfl⟩
  | cons es rest ih =>
    intro l l' hne h0 hok hw h p hp b k hb hk
    obtain ⟨a1, a2⟩ := hok
    simp only [commitAllV] at h
    cases hcv : commitV lv l es with
    | none => simp [hcv] at h
    | some l1 =>
      simp only [hcv] at h
      have := commitV_eq_resolve lv l es l1 h0 hne hcv
      subst this
      have h1 : 1 ≤ l.length := by cases l with | nil => exact absurd rfl hne | cons _ _ => simp
      have hpos := resolve_length_pos l es a1 h1
      have hne' : resolve l es ≠ [] := by intro hnil; rw [hnil] at hpos; simp at hpos
      have h0' : valAt (resolve l es) 0 = 0 := by
        unfold resolve
        apply valAt_force0_zero
        intro hnil
        apply hne'
        unfold resolve; rw [hnil]; rfl
      obtain ⟨v, hv, hpv⟩ := ih _ l' hne' h0' a2 (fun es' he => hw es' (by simp [he])) h p hp b k hb hk
      rcases resolve_mem' l es (p.1, v) hv with ⟨ed, he, v', hr⟩ | ⟨v', hv', hvv⟩
      · -- written by a replacement of this batch: impossible for a keyed entry
        exfalso
        obtain ⟨b', hb', hm'⟩ := marked_repl mk l ed (hw es (by simp) ed he) _ hr
        simp only [] at hb'
        rw [hb] at hb'; cases hb'
        rw [hm'] at hk; cases hk
      · simp only [] at hv' hvv
        refine ⟨v', hv', ?_⟩
        rcases hpv with h1 | h1
        · rcases hvv with h2 | h2
          · exact Or.inl (h1.trans h2)
          · exact Or.inr (h1.trans h2)
        · exact Or.inr h1

/-- **the tagged run exists, erases to the untagged run, keyed entries come from the original, and the chain condition
holds** -/
theorem tagged_run (o : List Nat) (bs : List (List (Edit Nat))) (lv : LenV) (l : List (P Nat))
    (hok : BatchesOk isStart (identFrom 0 o) bs) (h : commitAllV lv (identFrom 0 o) bs = some l) :
    ∃ lt : List (P (Nat × Option Nat)), commitAllV lv (tagIdent o) (tagBatches bs) = some lt ∧ mapP Prod.fst lt = l ∧
      snds lt = snds l ∧ Chain (Rel (fun b : Nat × Option Nat => b.2)) lt ∧
      ∀ p ∈ lt, ∀ b k, p.1 = some (b, some k) → (∃ hk : k < o.length, b = o[k]) ∧ (p.2 = k ∨ p.2 = 0) := by
  have hmap := commitAllV_mapP Prod.fst lv (tagBatches bs) (tagIdent o)
  rw [untag_ident, untag_batches, h] at hmap
  cases hc : commitAllV lv (tagIdent o) (tagBatches bs) with
  | none => rw [hc] at hmap; cases hmap
  | some lt =>
    rw [hc] at hmap
    have hl : mapP Prod.fst lt = l := by simpa using hmap.symm
    have hr : RangesOk (tagIdent o) (tagBatches bs) := by
      rw [← rangesOk_mapP Prod.fst, untag_ident, untag_batches]
      exact rangesOk_of_batchesOk isStart bs _ hok
    have hlen : 1 ≤ (tagIdent o).length := by
      unfold tagIdent; cases o <;> simp [tagIdentFrom]
    have hne : tagIdent o ≠ [] := by intro hnil; rw [hnil] at hlen; simp at hlen
    have h0 : valAt (tagIdent o) 0 = 0 := by
      unfold tagIdent; cases o <;> simp [tagIdentFrom, valAt]
    have hm : Mono (snds (tagIdent o)) := by
      rw [← snds_mapP Prod.fst, untag_ident]; exact (ident_mono_from o 0).1
    refine ⟨lt, rfl, hl, by rw [← hl, snds_mapP], ?_, ?_⟩
    · exact commitAllV_chain _ lv (tagBatches bs) _ lt hlen h0 hm (chain_tagIdentFrom o 0).1 hr (marked_tagBatches bs) hc
    · intro p hp b k hpk
      obtain ⟨v, hv, hpv⟩ := commitAllV_key_mem (fun b : Nat × Option Nat => b.2) lv (tagBatches bs) _ lt hne h0 hr
        (marked_tagBatches bs) hc p hp (b, some k) k hpk rfl
      rw [hpk] at hv
      have := mem_tagIdentFrom o [] b k v (by simpa [tagIdent] using hv)
      obtain ⟨rfl, hk, hb⟩ := this
      exact ⟨⟨by simpa using hk, by simpa using hb⟩, hpv⟩

end EditM
