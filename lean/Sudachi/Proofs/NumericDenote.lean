import Sudachi.Proofs.NumericValue
/-!
# Denotation of the numeral AST and of the normal form (C15, first clause, unit notation)

* `Numeral.Fits` (the positional rule of `reject_malformed`) is the `FitsPN` the forward simulation
  needs (`fitsPN_of_fits`); the digits of a numeral are ASCII digits (`numeralPN_digits`);
* values: `Dec` = `m / 10^k` on `Nat`; `PN.val`; `Numeral.value` (sum of coefficient × unit);
  `join`/`shift` are sum and multiplication by a power of ten (`val_join`, `val_shift`), hence the
  positional number of a well-formed numeral denotes its value (`numeralPN_value`).
-/
namespace Numeric

/-! ## `Numeral.Fits` and `FitsPN` -/

def PN.span (y : PN) : Int × Int := (y.hi, y.ex)

theorem fit_head (h1 h2 a : Int) (l : List (Int × Int)) : Fit ((h1, a) :: l) ↔ Fit ((h2, a) :: l) := by
  cases l <;> simp [Fit]

theorem joinO_ex (o : Option PN) (y : PN) : (joinO o y).ex = y.ex := by cases o <;> rfl

theorem fitL_some (x : PN) (ys : List PN) (h : Fit (x.span :: ys.map PN.span)) : FitL (some x) ys := by
  induction ys generalizing x with
  | nil => trivial
  | cons y ys ih =>
    simp only [List.map_cons, Fit, PN.span] at h
    refine ⟨fun z hz => (by cases hz; exact h.1), ih (joinO (some x) y) ?_⟩
    simp only [PN.span]
    rw [joinO_ex]
    exact (fit_head _ _ _ _).1 h.2

theorem fitL_none (ys : List PN) (h : Fit (ys.map PN.span)) : FitL none ys := by
  cases ys with
  | nil => trivial
  | cons y ys => exact ⟨fun z hz => (by cases hz), fitL_some y ys h⟩

theorem canonDigits_length (ds : List Dg) : (canonDigits ds).length = ds.length := by simp [canonDigits]

theorem termSpan_eq (c : Option Run) (e : Nat) : termSpan c e = (termPN c e).span := by
  cases c with
  | none => simp [termSpan, termPN, PN.span, PN.hi]
  | some r =>
    simp only [termSpan, termPN, PN.span, PN.hi, PN.shift, runPN, List.length_append, canonInt_length,
      canonDigits_length, Run.il, Run.fl]
    refine Prod.ext ?_ ?_ <;> simp only <;> omega

theorem groupSpans_eq (g : Group) : groupSpans g = (groupList g).map PN.span := by
  simp only [groupSpans, groupList, smallSpans, smallsPN, List.map_append, List.map_map]
  congr 1
  · apply List.map_congr_left
    intro t _
    exact termSpan_eq t.1 t.2.exp
  · cases g.last with
    | none => rfl
    | some r =>
      simp only [lastSpans, Option.map_some, Option.toList, List.map_cons, List.map_nil]
      rw [termSpan_eq]
      simp [termPN, PN.shift]

theorem join_hi (x y : PN) (h : y.hi ≤ x.ex) : (x.join y).hi = x.hi := by
  simp only [PN.hi, PN.join, List.length_append, List.length_replicate] at h ⊢
  omega

theorem spanOf_cons2 (a b : Int × Int) (l : List (Int × Int)) : spanOf (a :: b :: l) = spanOf ((a.1, b.2) :: l) := by
  cases l with
  | nil => simp [spanOf]
  | cons c l =>
    simp only [spanOf, List.head?_cons, List.getLast?_cons_cons]
    cases (c :: l).getLast? <;> rfl

/-- the terms written one below the other: upper bound of the first, free positions of the last -/
theorem joinList_span (o : Option PN) (ys : List PN) (hf : FitL o ys) :
    (joinList o ys).map PN.span = spanOf ((o.map PN.span).toList ++ ys.map PN.span) := by
  induction ys generalizing o with
  | nil =>
    cases o with
    | none => rfl
    | some x => simp [joinList, spanOf_single]
  | cons y ys ih =>
    rw [joinList_cons, ih _ hf.2]
    cases o with
    | none => rfl
    | some x =>
      have hh := join_hi x y (hf.1 x rfl)
      have hsp : (joinO (some x) y).span = (x.span.1, y.span.2) := by
        simp only [joinO, PN.span, hh]
        rfl
      simp only [Option.map_some, Option.toList, List.cons_append, List.nil_append, List.map_cons]
      rw [spanOf_cons2, hsp]

theorem shift_span (x : PN) (e : Nat) : (x.shift e).span = (x.span.1 + (e : Int), x.span.2 + (e : Int)) := by
  simp only [PN.span, PN.shift, PN.hi]
  refine Prod.ext ?_ ?_ <;> simp only <;> omega

theorem largeSpans_eq (L : List (Group × LargeU)) (h : ∀ t ∈ L, FitL none (groupList t.1)) :
    largeSpans L = (largesPN L).map PN.span := by
  induction L with
  | nil => rfl
  | cons t L ih =>
    have ih' := ih (fun t ht => h t (by simp [ht]))
    have hg := joinList_span none (groupList t.1) (h t (by simp))
    simp only [Option.map_none, Option.toList, List.nil_append, ← groupSpans_eq] at hg
    simp only [largeSpans, largesPN, List.filterMap_cons] at ih' ⊢
    rw [← hg]
    cases hx : groupPN t.1 with
    | none =>
      simp only [groupPN] at hx
      simp only [hx, Option.map_none]
      exact ih'
    | some x =>
      simp only [groupPN] at hx
      simp only [hx, Option.map_some, List.map_cons, shift_span]
      rw [ih']

/-- **the positional rule of `reject_malformed` is the one the forward simulation needs** -/
theorem fitsPN_of_fits (a : Numeral) (hf : a.Fits) : a.FitsPN := by
  obtain ⟨h1, h2, h3⟩ := hf
  have hl : ∀ t ∈ a.larges, FitL none (groupList t.1) := by
    intro t ht
    apply fitL_none
    rw [← groupSpans_eq]
    exact h1 t ht
  have hr : FitL none (groupList a.rest) := by
    apply fitL_none
    rw [← groupSpans_eq]
    exact h2
  refine ⟨hl, hr, ?_⟩
  apply fitL_none
  have hg := joinList_span none (groupList a.rest) hr
  simp only [Option.map_none, Option.toList, List.nil_append, ← groupSpans_eq] at hg
  rw [List.map_append, ← largeSpans_eq a.larges hl]
  have : (groupPN a.rest).toList.map PN.span = (spanOf (groupSpans a.rest)).toList := by
    rw [← hg]
    unfold groupPN
    cases joinList none (groupList a.rest) <;> rfl
  rw [this]
  exact h3

/-! ## digits -/

/-- ASCII digits only -/
def Digits (l : List Char) : Prop := ∀ c ∈ l, ∃ d : Fin 10, c = SN.digitChar d.val

theorem digit_ne_point (c : Char) (h : ∃ d : Fin 10, c = SN.digitChar d.val) : c ≠ '.' := by
  obtain ⟨d, rfl⟩ := h
  revert d
  decide

theorem digits_append (a b : List Char) (ha : Digits a) (hb : Digits b) : Digits (a ++ b) := by
  intro c hc
  rcases List.mem_append.1 hc with h | h
  · exact ha c h
  · exact hb c h

theorem digits_canon (ds : List Dg) : Digits (canonDigits ds) := by
  intro c hc
  simp only [canonDigits, List.mem_map] at hc
  obtain ⟨g, _, rfl⟩ := hc
  exact ⟨g.d, rfl⟩

theorem digits_zeros (n : Nat) : Digits (List.replicate n '0') := by
  intro c hc
  rw [List.mem_replicate] at hc
  exact ⟨0, by rw [hc.2]; rfl⟩

theorem digits_run (r : Run) : Digits (runPN r).ds :=
  digits_append _ _ (digits_canon _) (digits_canon _)

theorem digits_term (c : Option Run) (e : Nat) : Digits (termPN c e).ds := by
  cases c with
  | none =>
    intro c hc
    simp only [termPN, List.mem_singleton] at hc
    exact ⟨1, by rw [hc]; rfl⟩
  | some r => exact digits_run r

theorem digits_joinO (o : Option PN) (y : PN) (ho : ∀ x, o = some x → Digits x.ds) (hy : Digits y.ds) :
    Digits (joinO o y).ds := by
  cases o with
  | none => exact hy
  | some x => exact digits_append _ _ (digits_append _ _ (ho x rfl) (digits_zeros _)) hy

theorem digits_joinList (o : Option PN) (ys : List PN) (ho : ∀ x, o = some x → Digits x.ds)
    (hy : ∀ y ∈ ys, Digits y.ds) : ∀ w, joinList o ys = some w → Digits w.ds := by
  induction ys generalizing o with
  | nil => intro w hw; exact ho w hw
  | cons y ys ih =>
    intro w hw
    rw [joinList_cons] at hw
    refine ih (some (joinO o y)) ?_ (fun z hz => hy z (by simp [hz])) w hw
    intro x hx
    cases hx
    exact digits_joinO o y ho (hy y (by simp))

theorem digits_group (g : Group) : ∀ w, groupPN g = some w → Digits w.ds := by
  apply digits_joinList
  · intro x hx; cases hx
  · intro y hy
    simp only [groupList, List.mem_append, smallsPN, List.mem_map] at hy
    rcases hy with ⟨t, _, rfl⟩ | hy
    · exact digits_term _ _
    · cases hl : g.last with
      | none => rw [hl] at hy; simp at hy
      | some r =>
        rw [hl] at hy
        simp only [Option.map_some, Option.toList, List.mem_singleton] at hy
        rw [hy]; exact digits_run r

theorem numeralPN_digits (a : Numeral) : ∀ x, numeralPN a = some x → Digits x.ds := by
  intro x hx
  have hL : ∀ w, joinList none (largesPN a.larges) = some w → Digits w.ds := by
    apply digits_joinList
    · intro x hx; cases hx
    · intro y hy
      simp only [largesPN, List.mem_filterMap] at hy
      obtain ⟨t, _, ht⟩ := hy
      cases hg : groupPN t.1 with
      | none => rw [hg] at ht; cases ht
      | some z =>
        rw [hg] at ht
        simp only [Option.map_some, Option.some.injEq] at ht
        rw [← ht]
        exact digits_group t.1 z hg
  unfold numeralPN at hx
  cases hg : groupPN a.rest with
  | none => rw [hg] at hx; exact hL x hx
  | some y =>
    rw [hg] at hx
    simp only [joinOO, Option.some.injEq] at hx
    rw [← hx]
    exact digits_joinO _ y hL (digits_group a.rest y hg)

/-- **forward simulation on `Numeral.Fits`**: every well-formed numeral whose terms fit is accepted
and its normal form is `canon` -/
theorem parse_render_canon (v : Variant) (a : Numeral) (hw : a.WF) (hf : a.Fits) :
    parse v (render a) = some (canon v a) :=
  parse_render_pn v a hw (fitsPN_of_fits a hf)
    (fun x hx c hc => digit_ne_point c (numeralPN_digits a x hx c hc))

/-! ## values -/

/-- a non-negative decimal `m / 10^k` -/
structure Dec where
  m : Nat
  k : Nat
deriving DecidableEq, Repr

/-- the same number -/
def Dec.eqv (a b : Dec) : Prop := a.m * 10 ^ b.k = b.m * 10 ^ a.k
def Dec.add (a b : Dec) : Dec := ⟨a.m * 10 ^ b.k + b.m * 10 ^ a.k, a.k + b.k⟩
/-- multiplication by `10^e` -/
def Dec.shl (a : Dec) (e : Nat) : Dec := ⟨a.m * 10 ^ e, a.k⟩
def Dec.zero : Dec := ⟨0, 0⟩

theorem Dec.eqv_refl (a : Dec) : a.eqv a := rfl
theorem Dec.eqv_of_eq {a b : Dec} (h : a = b) : a.eqv b := by rw [h]; rfl
theorem Dec.eqv_symm {a b : Dec} (h : a.eqv b) : b.eqv a := Eq.symm h
theorem Dec.eqv_trans {a b c : Dec} (h1 : a.eqv b) (h2 : b.eqv c) : a.eqv c := by
  unfold Dec.eqv at *
  apply Nat.eq_of_mul_eq_mul_right (Nat.pow_pos (by decide : 0 < 10) (n := b.k))
  grind

theorem Dec.add_congr {a a' b b' : Dec} (h1 : a.eqv a') (h2 : b.eqv b') : (a.add b).eqv (a'.add b') := by
  unfold Dec.eqv Dec.add at *
  simp only [Nat.pow_add]
  grind

theorem Dec.shl_congr {a a' : Dec} (e : Nat) (h : a.eqv a') : (a.shl e).eqv (a'.shl e) := by
  unfold Dec.eqv Dec.shl at *
  simp only
  grind

theorem Dec.zero_add (a : Dec) : a.eqv (Dec.zero.add a) := by
  unfold Dec.eqv Dec.add Dec.zero
  simp

theorem Dec.add_zero (a : Dec) : a.eqv (a.add Dec.zero) := by
  unfold Dec.eqv Dec.add Dec.zero
  simp

/-- the number written by a string of ASCII digits -/
def natOf (l : List Char) : Nat := l.foldl (fun n c => 10 * n + (c.toNat - 48)) 0

theorem foldl_digits (b : List Char) (n : Nat) :
    b.foldl (fun n c => 10 * n + (c.toNat - 48)) n = n * 10 ^ b.length + natOf b := by
  induction b generalizing n with
  | nil => simp [natOf]
  | cons c b ih =>
    simp only [List.foldl_cons, List.length_cons, natOf]
    rw [ih, ih (10 * 0 + (c.toNat - 48))]
    simp only [Nat.pow_succ]
    grind

theorem natOf_append (a b : List Char) : natOf (a ++ b) = natOf a * 10 ^ b.length + natOf b := by
  unfold natOf
  rw [List.foldl_append, foldl_digits]
  rfl

theorem natOf_zeros (n : Nat) : natOf (List.replicate n '0') = 0 := by
  induction n with
  | zero => rfl
  | succ n ih =>
    rw [List.replicate_succ, show ('0' :: List.replicate n '0') = ['0'] ++ List.replicate n '0' from rfl,
      natOf_append, ih]
    have : natOf ['0'] = 0 := by decide
    simp [this]

/-- the value of a positional number: digits × 10^exponent -/
def PN.val (x : PN) : Dec := ⟨natOf x.ds * 10 ^ x.ex.toNat, (-x.ex).toNat⟩

theorem mul_pow2 (N A B : Nat) : N * 10 ^ A * 10 ^ B = N * 10 ^ (A + B) := by
  rw [Nat.mul_assoc, ← Nat.pow_add]

/-- **denotation of `shift_scale`**: multiplication by `10^e` -/
theorem val_shift (x : PN) (e : Nat) : (x.shift e).val.eqv (x.val.shl e) := by
  unfold Dec.eqv PN.val Dec.shl PN.shift
  simp only
  rw [mul_pow2, mul_pow2, mul_pow2]
  congr 2
  omega

/-- **denotation of `add`** (second number fitting below the first): the sum -/
theorem val_join (x y : PN) (h : y.hi ≤ x.ex) : (x.join y).val.eqv (x.val.add y.val) := by
  have hlen : natOf (x.join y).ds = natOf x.ds * 10 ^ (x.ex - y.ex).toNat + natOf y.ds := by
    simp only [PN.join]
    rw [natOf_append, natOf_append, natOf_zeros, Nat.add_zero, mul_pow2]
    congr 3
    simp only [List.length_replicate, PN.hi] at h ⊢
    omega
  have hp : 10 ^ (x.ex - y.ex).toNat * 10 ^ y.ex.toNat * 10 ^ (-x.ex).toNat = 10 ^ x.ex.toNat * 10 ^ (-y.ex).toNat := by
    rw [← Nat.pow_add, ← Nat.pow_add, ← Nat.pow_add]
    congr 1
    simp only [PN.hi] at h
    omega
  unfold Dec.eqv PN.val Dec.add
  simp only
  rw [hlen, show (x.join y).ex = y.ex from rfl]
  simp only [Nat.pow_add]
  clear hlen h
  generalize natOf x.ds = X
  generalize natOf y.ds = Y
  generalize 10 ^ (x.ex - y.ex).toNat = D at hp ⊢
  generalize 10 ^ y.ex.toNat = A at hp ⊢
  generalize 10 ^ (-x.ex).toNat = B at hp ⊢
  generalize 10 ^ x.ex.toNat = C at hp ⊢
  generalize 10 ^ (-y.ex).toNat = E at hp ⊢
  grind

/-! ## the value of the numeral AST -/

def digitsVal (ds : List Dg) : Nat := ds.foldl (fun n g => 10 * n + g.d.val) 0
/-- a written number: all its digits read as one integer, divided by `10^(fraction digits)` -/
def Run.value (r : Run) : Dec := ⟨digitsVal (r.int.g1 ++ r.int.gs.flatten ++ r.frac), r.frac.length⟩
/-- a unit without coefficient counts as `1` -/
def coefValue : Option Run → Dec
  | none => ⟨1, 0⟩
  | some r => r.value
def termValue (t : Option Run × SmallU) : Dec := (coefValue t.1).shl t.2.exp
def lastValue : Option Run → Dec
  | none => Dec.zero
  | some r => r.value
/-- the sum of the small-unit terms and of the plain number -/
def Group.value (g : Group) : Dec :=
  (g.smalls.foldl (fun acc t => acc.add (termValue t)) Dec.zero).add (lastValue g.last)
/-- **the value of a numeral**: the sum of its groups, each multiplied by its large unit -/
def Numeral.value (a : Numeral) : Dec :=
  (a.larges.foldl (fun acc t => acc.add (t.1.value.shl t.2.exp)) Dec.zero).add a.rest.value

theorem ascii_val (g : Dg) : g.ascii.toNat - 48 = g.d.val := by
  cases g with
  | mk k d => revert k d; decide

theorem natOf_canon (ds : List Dg) : natOf (canonDigits ds) = digitsVal ds := by
  unfold natOf canonDigits digitsVal
  rw [List.foldl_map]
  simp only [ascii_val]

theorem run_val (r : Run) : (runPN r).val = r.value := by
  have h1 : (-(r.frac.length : Int)).toNat = 0 := by omega
  have h2 : (-(-(r.frac.length : Int))).toNat = r.frac.length := by omega
  have h3 : canonInt r.int ++ canonDigits r.frac = canonDigits (r.int.g1 ++ r.int.gs.flatten ++ r.frac) := by
    simp [canonInt, canonDigits]
  simp only [PN.val, runPN, h1, h2, h3, natOf_canon, Run.value, Nat.pow_zero, Nat.mul_one]

theorem term_val (c : Option Run) (e : Nat) : (termPN c e).val.eqv ((coefValue c).shl e) := by
  cases c with
  | none =>
    apply Dec.eqv_of_eq
    have h1 : natOf ['1'] = 1 := by decide
    have h2 : (-(e : Int)).toNat = 0 := by omega
    simp only [termPN, PN.val, coefValue, Dec.shl, h1, h2, Int.toNat_natCast]
  | some r =>
    exact Dec.eqv_trans (val_shift (runPN r) e) (Dec.shl_congr e (Dec.eqv_of_eq (run_val r)))

def valO : Option PN → Dec
  | none => Dec.zero
  | some x => x.val

theorem joinO_val (o : Option PN) (y : PN) (h : FitO o y) : (joinO o y).val.eqv ((valO o).add y.val) := by
  cases o with
  | none => exact Dec.zero_add y.val
  | some x => exact val_join x y (h x rfl)

theorem sum_congr {α : Type} (l : List α) (f g : α → Dec) (a b : Dec) (h : a.eqv b)
    (hfg : ∀ t ∈ l, (f t).eqv (g t)) :
    (l.foldl (fun acc t => acc.add (f t)) a).eqv (l.foldl (fun acc t => acc.add (g t)) b) := by
  induction l generalizing a b with
  | nil => exact h
  | cons t l ih =>
    simp only [List.foldl_cons]
    exact ih _ _ (Dec.add_congr h (hfg t (by simp))) (fun u hu => hfg u (by simp [hu]))

/-- terms written one below the other denote their sum -/
theorem joinList_val (o : Option PN) (ys : List PN) (hf : FitL o ys) :
    (valO (joinList o ys)).eqv (ys.foldl (fun acc y => acc.add y.val) (valO o)) := by
  induction ys generalizing o with
  | nil => exact Dec.eqv_refl _
  | cons y ys ih =>
    rw [joinList_cons]
    simp only [List.foldl_cons]
    exact Dec.eqv_trans (ih _ hf.2) (sum_congr ys PN.val PN.val _ _ (joinO_val o y hf.1) (fun _ _ => Dec.eqv_refl _))

/-- a group denotes the sum of its terms -/
theorem group_val (g : Group) (hf : FitL none (groupList g)) : (valO (groupPN g)).eqv g.value := by
  have h := joinList_val none (groupList g) hf
  simp only [groupList, List.foldl_append, smallsPN, List.foldl_map] at h
  refine Dec.eqv_trans h ?_
  have hs := sum_congr g.smalls (fun t => (termPN t.1 t.2.exp).val) termValue (valO none) Dec.zero (Dec.eqv_refl _)
    (fun t _ => term_val t.1 t.2.exp)
  unfold Group.value
  cases g.last with
  | none =>
    simp only [Option.map_none, Option.toList, List.foldl_nil, lastValue]
    exact Dec.eqv_trans hs (Dec.add_zero _)
  | some r =>
    simp only [Option.map_some, Option.toList, List.foldl_cons, List.foldl_nil, lastValue]
    exact Dec.add_congr hs (Dec.eqv_of_eq (run_val r))

theorem larges_val (L : List (Group × LargeU)) (hne : ∀ t ∈ L, t.1.Nonempty)
    (hfg : ∀ t ∈ L, FitL none (groupList t.1)) (o : Option PN) (hf : FitL o (largesPN L)) (acc : Dec)
    (h : (valO o).eqv acc) :
    (valO (joinList o (largesPN L))).eqv (L.foldl (fun acc t => acc.add (t.1.value.shl t.2.exp)) acc) := by
  induction L generalizing o acc with
  | nil => exact h
  | cons t L ih =>
    obtain ⟨g, U⟩ := t
    obtain ⟨x, hx⟩ := groupPN_some g (hne (g, U) (by simp))
    have hlp : largesPN ((g, U) :: L) = x.shift U.exp :: largesPN L := by simp [largesPN, hx]
    rw [hlp] at hf ⊢
    rw [joinList_cons]
    simp only [List.foldl_cons]
    apply ih (fun t ht => hne t (by simp [ht])) (fun t ht => hfg t (by simp [ht])) _ hf.2
    have hg := group_val g (hfg (g, U) (by simp))
    rw [hx] at hg
    exact Dec.eqv_trans (joinO_val o _ hf.1)
      (Dec.add_congr h (Dec.eqv_trans (val_shift x U.exp) (Dec.shl_congr U.exp hg)))

/-- **the positional number of a well-formed numeral denotes its value** -/
theorem numeralPN_value (a : Numeral) (hw : a.WF) (hf : a.Fits) : (valO (numeralPN a)).eqv a.value := by
  have hp := fitsPN_of_fits a hf
  obtain ⟨f1, f2⟩ := (fitL_append none _ _).1 hp.chain
  have hL := larges_val a.larges (fun t ht => (hw.1 t ht).2) hp.larges none f1 Dec.zero (Dec.eqv_refl _)
  have hR := group_val a.rest hp.rest
  unfold numeralPN Numeral.value
  cases hg : groupPN a.rest with
  | none =>
    rw [hg] at hR
    exact Dec.eqv_trans hL (Dec.eqv_trans (Dec.add_zero _) (Dec.add_congr (Dec.eqv_refl _) hR))
  | some y =>
    rw [hg] at hR f2
    simp only [Option.toList, FitL] at f2
    exact Dec.eqv_trans (joinO_val _ y f2.1) (Dec.add_congr hL hR)

/-! ## reading the normal form back -/

/-- the decimal a string denotes: the digits before and after its first point -/
def decimalOf (s : List Char) : Dec :=
  ⟨natOf (s.takeWhile (· != '.') ++ (s.dropWhile (· != '.')).drop 1), ((s.dropWhile (· != '.')).drop 1).length⟩

theorem takeWhile_nopt (a : List Char) (ha : ∀ c ∈ a, c ≠ '.') (rest : List Char) :
    (a ++ rest).takeWhile (· != '.') = a ++ rest.takeWhile (· != '.') ∧
    (a ++ rest).dropWhile (· != '.') = rest.dropWhile (· != '.') := by
  induction a with
  | nil => exact ⟨rfl, rfl⟩
  | cons c a ih =>
    have hc : (c != '.') = true := by simpa using ha c (by simp)
    obtain ⟨i1, i2⟩ := ih (fun x hx => ha x (by simp [hx]))
    constructor
    · simp only [List.cons_append, List.takeWhile_cons, hc, if_true, i1]
    · simp only [List.cons_append, List.dropWhile_cons, hc, if_true, i2]

theorem decimalOf_nopt (a : List Char) (ha : ∀ c ∈ a, c ≠ '.') : decimalOf a = ⟨natOf a, 0⟩ := by
  obtain ⟨h1, h2⟩ := takeWhile_nopt a ha []
  simp only [List.append_nil, List.takeWhile_nil, List.dropWhile_nil] at h1 h2
  simp [decimalOf, h1, h2]

theorem decimalOf_pt (a b : List Char) (ha : ∀ c ∈ a, c ≠ '.') :
    decimalOf (a ++ '.' :: b) = ⟨natOf (a ++ b), b.length⟩ := by
  obtain ⟨h1, h2⟩ := takeWhile_nopt a ha ('.' :: b)
  simp [decimalOf, h1, h2]

theorem decimalOf_zeros (n : Nat) (t : List Char) : decimalOf (List.replicate n '0' ++ t) = decimalOf t := by
  obtain ⟨h1, h2⟩ := takeWhile_nopt (List.replicate n '0')
    (by intro c hc; rw [(List.mem_replicate.1 hc).2]; decide) t
  simp only [decimalOf, h1, h2, List.append_assoc]
  rw [natOf_append (List.replicate n '0'), natOf_zeros]
  simp

theorem takeWhile_zero_mem (s : List Char) : ∀ c ∈ s.takeWhile (· == '0'), c = '0' := by
  induction s with
  | nil => intro c hc; cases hc
  | cons x s ih =>
    intro c hc
    by_cases hx : (x == '0') = true
    · simp only [List.takeWhile_cons, hx, if_true, List.mem_cons] at hc
      rcases hc with rfl | hc
      · simpa using hx
      · exact ih c hc
    · simp [hx] at hc

theorem takeWhile_zeros (s : List Char) : s.takeWhile (· == '0') = List.replicate (s.takeWhile (· == '0')).length '0' := by
  rw [List.eq_replicate_iff]
  exact ⟨rfl, takeWhile_zero_mem s⟩

/-- **stripping the leading zeros (repair F5) keeps the value** -/
theorem decimalOf_strip (s : List Char) : decimalOf (Parser.stripLeadingZeros s) = decimalOf s := by
  have hs : s = List.replicate (s.takeWhile (· == '0')).length '0' ++ s.dropWhile (· == '0') := by
    rw [← takeWhile_zeros]
    exact (List.takeWhile_append_dropWhile).symm
  have hd := decimalOf_zeros (s.takeWhile (· == '0')).length (s.dropWhile (· == '0'))
  rw [← hs] at hd
  rw [hd]
  unfold Parser.stripLeadingZeros
  simp only
  cases ht : s.dropWhile (· == '0') with
  | nil => exact decimalOf_zeros 1 []
  | cons c t =>
    simp only
    by_cases hp : (c == '.') = true
    · simp only [hp, if_true]
      exact decimalOf_zeros 1 (c :: t)
    · simp only [hp]
      rfl

theorem trimZeros_spec (b : List Char) : ∃ j, b = trimZeros b ++ List.replicate j '0' := by
  refine ⟨(b.reverse.takeWhile (· == '0')).length, ?_⟩
  have h := List.takeWhile_append_dropWhile (p := (· == '0')) (l := b.reverse)
  have := congrArg List.reverse h
  rw [List.reverse_append, List.reverse_reverse] at this
  rw [takeWhile_zeros b.reverse, List.reverse_replicate] at this
  unfold trimZeros
  exact this.symm

/-- **`to_string` denotes the number held** (digits only, at least one integer digit) -/
theorem decimalOf_render (x : PN) (hd : Digits x.ds) (hh : 1 ≤ x.hi) : (decimalOf x.render).eqv x.val := by
  have hnp : ∀ c ∈ x.ds, c ≠ '.' := fun c hc => digit_ne_point c (hd c hc)
  unfold PN.render
  by_cases hex : 0 ≤ x.ex
  · simp only [hex, if_true]
    have hall : ∀ c ∈ x.ds ++ List.replicate x.ex.toNat '0', c ≠ '.' := by
      intro c hc
      rcases List.mem_append.1 hc with h | h
      · exact hnp c h
      · rw [(List.mem_replicate.1 h).2]; decide
    rw [decimalOf_nopt _ hall, natOf_append, natOf_zeros]
    apply Dec.eqv_of_eq
    have : (-x.ex).toNat = 0 := by omega
    simp [PN.val, this]
  · simp only [hex, if_false]
    have hk : (-x.ex).toNat ≤ x.ds.length := by simp only [PN.hi] at hh; omega
    generalize hkk : x.ds.length - (-x.ex).toNat = k
    have hsplit : x.ds = x.ds.take k ++ x.ds.drop k := (List.take_append_drop k x.ds).symm
    have hbl : (x.ds.drop k).length = (-x.ex).toNat := by rw [List.length_drop]; omega
    have hA : ∀ c ∈ x.ds.take k, c ≠ '.' := fun c hc => hnp c (List.mem_of_mem_take hc)
    obtain ⟨j, hj⟩ := trimZeros_spec (x.ds.drop k)
    generalize trimZeros (x.ds.drop k) = T at hj ⊢
    generalize x.ds.drop k = B at hj hbl hsplit ⊢
    generalize x.ds.take k = A at hsplit hA ⊢
    have hval : x.val = ⟨natOf (A ++ T) * 10 ^ j, T.length + j⟩ := by
      have h0 : x.ex.toNat = 0 := by omega
      have hlen : B.length = T.length + j := by rw [hj]; simp
      unfold PN.val
      rw [h0, ← hbl, hlen, hsplit, hj, ← List.append_assoc, natOf_append, natOf_zeros]
      simp
    rw [hval]
    cases T with
    | nil =>
      simp only [fracPart, List.isEmpty_nil, if_true, List.append_nil]
      rw [decimalOf_nopt _ hA]
      unfold Dec.eqv
      simp
    | cons c T =>
      simp only [fracPart, List.isEmpty_cons, Bool.false_eq_true, if_false]
      rw [decimalOf_pt _ _ hA]
      unfold Dec.eqv
      simp only [List.length_cons, Nat.pow_add, Nat.pow_succ]
      grind

/-- **the normal form of a well-formed numeral, read back as a decimal, is the value of the numeral**
(every variant: repair F5 changes the rendering, not the value) -/
theorem canon_value (v : Variant) (a : Numeral) (hw : a.WF) (hf : a.Fits) :
    (decimalOf (canon v a)).eqv a.value := by
  have hv := numeralPN_value a hw hf
  have hr : (decimalOf (PN.renderO (numeralPN a))).eqv (valO (numeralPN a)) := by
    cases hx : numeralPN a with
    | none => exact Dec.eqv_of_eq (by decide)
    | some x =>
      exact decimalOf_render x (numeralPN_digits a x hx) (numeralPN_hi a hw (fitsPN_of_fits a hf) x hx)
  unfold canon
  split
  · rw [decimalOf_strip]; exact Dec.eqv_trans hr hv
  · exact Dec.eqv_trans hr hv

/-! ## the shape of the normal form -/

/-- a written number alone is rendered with all its integer digits and its fraction without
trailing zeros -/
theorem render_run (r : Run) :
    (runPN r).render = canonInt r.int ++ fracPart (trimZeros (canonDigits r.frac)) := by
  unfold PN.render runPN
  cases hfr : r.frac with
  | nil => simp [canonDigits, trimZeros, fracPart]
  | cons f fs =>
    have hneg : ¬ (0 : Int) ≤ -(((f :: fs).length : Nat) : Int) := by simp
    simp only [hneg, if_false]
    have hk : (canonInt r.int ++ canonDigits (f :: fs)).length - (-(-(((f :: fs).length : Nat) : Int))).toNat
        = (canonInt r.int).length := by
      simp only [List.length_append, canonDigits_length]
      omega
    rw [hk, List.take_left' rfl, List.drop_left' rfl]

/-- without units the normal form is the written number itself (leading zeros kept, separators
removed, trailing fraction zeros dropped), for every variant -/
theorem canon_plain (v : Variant) (a : Numeral) (hu : a.hasUnit = false) :
    canon v a = match a.rest.last with
      | none => ['0']
      | some r => canonInt r.int ++ fracPart (trimZeros (canonDigits r.frac)) := by
  simp only [Numeral.hasUnit, Bool.or_eq_false_iff, Bool.not_eq_false', List.isEmpty_iff] at hu
  obtain ⟨h1, h2⟩ := hu
  unfold canon
  simp only [Numeral.hasUnit, h1, h2, List.isEmpty_nil, Bool.not_true, Bool.or_self, Bool.and_false,
    Bool.false_eq_true, if_false]
  unfold numeralPN groupPN groupList
  simp only [h1, h2, largesPN, List.filterMap_nil, smallsPN, List.map_nil, List.nil_append, joinList, List.foldl_nil]
  cases hl : a.rest.last with
  | none => rfl
  | some r =>
    simp only [Option.map_some, Option.toList, List.foldl_cons, List.foldl_nil, joinO, joinOO, PN.renderO]
    exact render_run r

/-- with a unit and repair F5 the normal form has no leading zero -/
theorem canon_units (v : Variant) (hv : v.f5 = true) (a : Numeral) (hu : a.hasUnit = true) :
    NoLeadingZero (canon v a) := by
  unfold canon
  simp only [hv, hu, Bool.and_self, if_true]
  exact stripLeadingZeros_spec _

end Numeric
